(* Proofs/C47.v — whenever go-git's resolver (Model/Revision.v) resolves a parsed
   revision to a commit and the expression is outside the six defect classes
   (boolean guard [safe]), git's resolver (Spec/GitRev.v) gives the same commit. *)
From Coq Require Import List Arith NArith ZArith Bool Lia.
From GoGit Require Import Base.Out Spec.Dag Model.CommitWalk Model.Revision Spec.GitRev
  Proofs.Worklist Proofs.C43.
Import ListNotations.

(* ------------------------------------------------------------ git_oneline *)
Section Oneline.
  Variable g : dag.
  Hypothesis Hclosed : dag_closed g = true.
  Variable hit : node -> bool.
  Variable c0 : node.
  Hypothesis Hc0 : c0 < nnodes g.

  Lemma insert_by_date_in : forall x l y, In y (insert_by_date g x l) <-> y = x \/ In y l.
  Proof.
    intros x l y. induction l as [|z r IH]; simpl; [intuition congruence|].
    destruct (ctime g z <? ctime g x)%Z; simpl; [intuition congruence|]. rewrite IH. intuition congruence.
  Qed.

  Lemma inserts_in : forall ps l y,
    In y (fold_left (fun acc p => insert_by_date g p acc) ps l) <-> In y ps \/ In y l.
  Proof.
    induction ps as [|p r IH]; intros l y; simpl; [tauto|].
    rewrite IH, insert_by_date_in. intuition congruence.
  Qed.

  Lemma insert_by_date_nodup : forall x l, NoDup l -> ~ In x l -> NoDup (insert_by_date g x l).
  Proof.
    intros x l. induction l as [|z r IH]; intros Hnd Hn; simpl.
    - constructor; [intros [] | constructor].
    - inversion Hnd as [|? ? Hz Hr]; subst. destruct (ctime g z <? ctime g x)%Z.
      + constructor; [exact Hn | exact Hnd].
      + constructor.
        * rewrite insert_by_date_in. intros [E|E]; [subst; apply Hn; now left | contradiction].
        * apply IH; [exact Hr|]. intros H. apply Hn. now right.
  Qed.

  Lemma inserts_nodup : forall ps l, NoDup ps -> NoDup l -> (forall p, In p ps -> ~ In p l) ->
    NoDup (fold_left (fun acc p => insert_by_date g p acc) ps l).
  Proof.
    induction ps as [|p r IH]; intros l Hps Hl Hd; simpl; [exact Hl|].
    inversion Hps as [|? ? Hp Hr]; subst. apply IH.
    - exact Hr.
    - apply insert_by_date_nodup; [exact Hl|]. apply Hd. now left.
    - intros q Hq. rewrite insert_by_date_in. intros [E|E].
      + subst q. contradiction.
      + apply (Hd q); [now right | exact E].
  Qed.

  Record OL (l seen emitted : list node) : Prop := mkOL {
    ol_lnd : NoDup l;
    ol_seen : forall x, In x seen <-> In x emitted \/ In x l;
    ol_nd : NoDup emitted;
    ol_lt : forall x, In x emitted -> x < nnodes g;
    ol_reach : forall x, In x seen -> reach g c0 x;
    ol_nohit : forall x, In x emitted -> hit x = false;
    ol_disj : forall x, In x l -> ~ In x emitted;
    ol_closed : forall y p, In y emitted -> In p (parents g y) -> In p seen;
    ol_start : In c0 seen
  }.

  Lemma oneline_spec : forall fuel l seen emitted,
    OL l seen emitted -> nnodes g - length emitted < fuel ->
    match git_oneline g hit fuel l seen with
    | Some x => hit x = true /\ reach g c0 x
    | None => forall x, reach g c0 x -> hit x = false
    end.
  Proof.
    induction fuel as [|f IH]; intros l seen emitted H Hf; [lia|].
    simpl. destruct l as [|c r].
    - (* nothing pending: every reachable commit was emitted without a hit *)
      intros x Hr. apply (ol_nohit _ _ _ H).
      assert (G : forall a b, reach g a b -> In a emitted -> In b emitted).
      { intros a b' Hab. induction Hab as [a | a p b' Hp Hpb IHr]; intros Ha; [exact Ha|].
        apply IHr. pose proof (ol_closed _ _ _ H a p Ha Hp) as Hs. apply (ol_seen _ _ _ H) in Hs.
        destruct Hs as [Hs|[]]. exact Hs. }
      apply (G c0 x Hr). pose proof (ol_start _ _ _ H) as Hs. apply (ol_seen _ _ _ H) in Hs.
      destruct Hs as [Hs|[]]. exact Hs.
    - destruct (hit c) eqn:Eh.
      + split; [exact Eh|]. apply (ol_reach _ _ _ H). apply (ol_seen _ _ _ H). right. now left.
      + set (ps := nodup Nat.eq_dec (filter (fun p => negb (mem p seen) && present g p) (parents g c))).
        assert (Hps : forall p, In p ps <-> In p (parents g c) /\ ~ In p seen).
        { intros p. unfold ps. rewrite nodup_In, filter_In, andb_true_iff, negb_true_iff, mem_false_In.
          split; [tauto|]. intros [Hp Hn]. split; [exact Hp|]. split; [exact Hn|].
          unfold present. apply Nat.ltb_lt. eapply dag_closed_parent; eauto. }
        assert (Hcs : In c seen) by (apply (ol_seen _ _ _ H); right; now left).
        assert (Hcne : ~ In c emitted) by (apply (ol_disj _ _ _ H); now left).
        assert (Hclt : c < nnodes g).
        { pose proof (ol_reach _ _ _ H c Hcs) as Hr. eapply reach_present; eauto. }
        apply (IH _ _ (c :: emitted)).
        * destruct H as [h0 h1 h2 h3 h4 h5 h6 h7 h8]. constructor.
          -- inversion h0 as [|? ? Hcr Hrr]; subst. apply inserts_nodup.
             ++ unfold ps. apply NoDup_nodup.
             ++ exact Hrr.
             ++ intros p Hp Hin. apply Hps in Hp. destruct Hp as [_ Hn]. apply Hn. apply h1. right. now right.
          -- intros x. rewrite in_app_iff, inserts_in, h1. simpl.
             split; [intros [Hx|[Hx|[Hx|Hx]]]; auto; subst; auto | intros [[Hx|Hx]|[Hx|Hx]]; auto].
          -- constructor; assumption.
          -- intros x [Hx|Hx]; [now subst | now apply h3].
          -- intros x Hx. apply in_app_or in Hx. destruct Hx as [Hx|Hx]; [|now apply h4].
             apply Hps in Hx. destruct Hx as [Hp _]. eapply reach_trans; [apply (h4 c Hcs)|].
             eapply reach_step; [exact Hp | constructor].
          -- intros x [Hx|Hx]; [now subst | now apply h5].
          -- intros x Hx. apply inserts_in in Hx. intros [He|He].
             ++ subst x. destruct Hx as [Hx|Hx].
                ** apply Hps in Hx. tauto.
                ** inversion h0 as [|? ? Hcr Hrr]; subst. contradiction.
             ++ destruct Hx as [Hx|Hx].
                ** apply Hps in Hx. destruct Hx as [_ Hn]. apply Hn. apply h1. now left.
                ** apply (h6 x); [now right | exact He].
          -- intros y p [Hy|Hy] Hp.
             ++ subst y. apply in_or_app. destruct (in_dec Nat.eq_dec p seen) as [Hin|Hin]; [now right|].
                left. apply Hps. now split.
             ++ apply in_or_app. right. now apply (h7 y p).
          -- apply in_or_app. now right.
        * assert (Hle : length (c :: emitted) <= nnodes g).
          { rewrite <- (seq_length (nnodes g) 0). apply NoDup_incl_length.
            - constructor; [exact Hcne | apply (ol_nd _ _ _ H)].
            - intros x [Hx|Hx]; apply in_seq; [subst; lia | pose proof (ol_lt _ _ _ H x Hx); lia]. }
          simpl in *. lia.
  Qed.
End Oneline.

(* ------------------------------------------------------------------ guards *)
From Coq Require Import String.
Definition lhex (c : N) : bool := is_digit c || ((97 <=? c)%N && (c <=? 102)%N).

Definition commits_ok (rp : repo) : bool :=
  forallb (fun o => match snd o with KCommit n => n <? nnodes (r_dag rp) | _ => true end) (r_objects rp).

(* no tag points at another tag (go-git peels one level, git all of them) *)
Definition flat_tags (rp : repo) : bool :=
  forallb (fun o => match snd o with
                    | KTag t => match lookup_obj t (r_objects rp) with Some (KTag _) => false | _ => true end
                    | _ => true
                    end) (r_objects rp).

Definition repo_ok (rp : repo) : bool :=
  dag_ok (r_dag rp) && dag_closed (r_dag rp) && commits_ok rp && flat_tags rp.

(* the name has no object-id reading, or exactly one (lower-case, >= 4 digits) and no reference reading *)
Definition base_safe (rp : repo) (name : bytes) : bool :=
  match resolve_hash_prefix rp name with
  | [] => true
  | [_] => match expand_ref rp name with None => true | Some _ => false end
           && forallb lhex name && (4 <=? List.length name)%nat && (List.length name <=? 40)%nat
  | _ => false
  end.

Section Safe.
  Variable matches : bytes -> bytes -> bool.

  Definition hit_of (rp : repo) (re : bytes) (neg : bool) (x : node) : bool :=
    if neg then negb (matches re (msg_of rp x)) else matches re (msg_of rp x).

  (* follows go-git's own resolution: every step must be outside the defect classes *)
  Fixpoint safe (rp : repo) (items : list item) (cur : option node) : bool :=
    match items with
    | [] => true
    | it :: rest =>
      match it with
      | IRef name =>
        base_safe rp name &&
        match resolve_ref_item rp name with ROk n => safe rp rest (Some n) | _ => true end
      | ICaret d =>
        (d <=? 2)%N &&
        match resolve_items matches rp [it] cur with ROk n => safe rp rest (Some n) | _ => true end
      | ITilde d =>
        match resolve_items matches rp [it] cur with ROk n => safe rp rest (Some n) | _ => true end
      | ICaretReg re neg =>
        match cur with
        | Some c => (List.length (filter (hit_of rp re neg) (ancs (r_dag rp) c)) <=? 1)%nat
        | None => true
        end &&
        match resolve_items matches rp [it] cur with ROk n => safe rp rest (Some n) | _ => true end
      | ICaretType t =>
        match cur with
        | Some _ => negb (bytes_eqb t (b "tree"%string) || bytes_eqb t (b "blob"%string)) && safe rp rest cur
        | None => false
        end
      | IOther => false
      end
    end.
End Safe.

(* ------------------------------------------------------------ base name *)
Lemma lhex_lower : forall c, lhex c = true -> lower c = c.
Proof.
  intros c H. unfold lhex, is_digit in H. unfold lower.
  destruct ((65 <=? c)%N && (c <=? 90)%N) eqn:E; [|reflexivity].
  apply andb_true_iff in E. destruct E as [E1 E2]. apply N.leb_le in E1, E2.
  apply orb_true_iff in H. destruct H as [H|H]; apply andb_true_iff in H; destruct H as [H1 H2];
    apply N.leb_le in H1, H2; lia.
Qed.

Lemma lhex_hex : forall c, lhex c = true -> is_hex c = true.
Proof.
  intros c H. unfold lhex in H. unfold is_hex. apply orb_true_iff in H. destruct H as [H|H]; rewrite H; simpl.
  - reflexivity.
  - now rewrite orb_true_r.
Qed.

Lemma map_lower_lhex : forall s, forallb lhex s = true -> map lower s = s.
Proof.
  induction s as [|c r IH]; intros H; [reflexivity|]. simpl in *. apply andb_true_iff in H.
  destruct H as [H1 H2]. now rewrite (lhex_lower c H1), IH.
Qed.

Lemma forallb_lhex_hex : forall s, forallb lhex s = true -> forallb is_hex s = true.
Proof.
  induction s as [|c r IH]; intros H; [reflexivity|]. simpl in *. apply andb_true_iff in H.
  destruct H as [H1 H2]. now rewrite (lhex_hex c H1), IH.
Qed.

Lemma forallb_firstn : forall (p : N -> bool) k s, forallb p s = true -> forallb p (firstn k s) = true.
Proof.
  intros p k s. revert k. induction s as [|c r IH]; intros k H; destruct k; simpl in *; try reflexivity.
  apply andb_true_iff in H. destruct H as [H1 H2]. now rewrite H1, IH.
Qed.

Lemma is_prefix_firstn : forall k p h, is_prefix p h = true -> is_prefix (firstn k p) h = true.
Proof.
  induction k as [|k IH]; intros p h H; [reflexivity|].
  destruct p as [|x p']; [reflexivity|]. destruct h as [|y h']; [discriminate|]. simpl in *.
  apply andb_true_iff in H. destruct H as [H1 H2]. now rewrite H1, IH.
Qed.

Lemma filter_implied : forall (A : Type) (p q : A -> bool) l,
  (forall x, p x = true -> q x = true) -> filter p (filter q l) = filter p l.
Proof.
  intros A p q l H. induction l as [|x r IH]; [reflexivity|]. simpl.
  destruct (q x) eqn:Eq; simpl.
  - destruct (p x); now rewrite IH.
  - destruct (p x) eqn:Ep; [apply H in Ep; congruence | exact IH].
Qed.

(* for a lower-case hexadecimal name shorter than an id, go-git's candidate list is the list of ids it prefixes *)
Lemma hash_prefix_lhex : forall rp name,
  forallb lhex name = true -> (0 <? List.length name)%nat = true -> Nat.eqb (List.length name) 40 = false ->
  resolve_hash_prefix rp name = filter (fun h => is_prefix (map lower name) h) (map fst (r_objects rp)).
Proof.
  intros rp name Hl H0 H40. unfold resolve_hash_prefix.
  assert (E0 : Nat.eqb (List.length name) 0 = false).
  { apply Nat.ltb_lt in H0. apply Nat.eqb_neq. lia. }
  rewrite E0, H40.
  set (even := firstn (2 * (List.length name / 2)) name).
  assert (Hev : forallb is_hex even = true) by (apply forallb_firstn; now apply forallb_lhex_hex).
  rewrite Hev. simpl negb. cbv iota.
  assert (Hlev : forallb lhex even = true) by (now apply forallb_firstn).
  rewrite (map_lower_lhex even Hlev), (map_lower_lhex name Hl).
  destruct (Nat.eqb (List.length even) (List.length name)) eqn:E.
  - apply Nat.eqb_eq in E. unfold even in *.
    assert (Hk : List.length name <= 2 * (List.length name / 2)).
    { rewrite firstn_length in E. lia. }
    now rewrite firstn_all2 by exact Hk.
  - apply filter_implied. intros h Hp. unfold even. now apply is_prefix_firstn.
Qed.

Lemma lookup_obj_in : forall h objs k, lookup_obj h objs = Some k -> In (h, k) objs.
Proof.
  induction objs as [|[h' k'] r IH]; intros k H; [discriminate|]. simpl in H.
  destruct (Revision.bytes_eqb h h') eqn:E.
  - injection H as H. subst k'. left. f_equal.
    clear - E. revert h' E. induction h as [|x a IHa]; destruct h' as [|y b']; simpl; intros E; try discriminate; [reflexivity|].
    apply andb_true_iff in E. destruct E as [E1 E2]. apply N.eqb_eq in E1. subst y. f_equal. now apply IHa.
  - right. now apply IH.
Qed.

Lemma commit_lt : forall rp h n, commits_ok rp = true -> lookup_obj h (r_objects rp) = Some (KCommit n) ->
  n < nnodes (r_dag rp).
Proof.
  intros rp h n Hc Hl. apply lookup_obj_in in Hl. unfold commits_ok in Hc. rewrite forallb_forall in Hc.
  specialize (Hc _ Hl). simpl in Hc. now apply Nat.ltb_lt in Hc.
Qed.

(* one candidate: go-git's one-level peel and git's full peel agree *)
Lemma try_single : forall rp h n, try_hashes rp [h] = ROk n -> git_peel (peel_fuel rp) rp h = ROk n.
Proof.
  intros rp h n H. unfold try_hashes in H. unfold peel_fuel.
  destruct (lookup_obj h (r_objects rp)) as [[m|t|]|] eqn:E; try discriminate.
  - assert (L : (1 <= List.length (r_objects rp))%nat).
    { apply lookup_obj_in in E. destruct (r_objects rp); [contradiction | simpl; lia]. }
    simpl. now rewrite E.
  - destruct (lookup_obj t (r_objects rp)) as [[m| |]|] eqn:E2; try discriminate.
    assert (L : (1 <= List.length (r_objects rp))%nat).
    { apply lookup_obj_in in E. destruct (r_objects rp); [contradiction | simpl; lia]. }
    destruct (List.length (r_objects rp)) as [|k]; [lia|]. simpl. rewrite E. simpl.
    destruct k; simpl; now rewrite E2.
Qed.

Lemma try_single_lt : forall rp h n, commits_ok rp = true -> try_hashes rp [h] = ROk n -> n < nnodes (r_dag rp).
Proof.
  intros rp h n Hc H. unfold try_hashes in H.
  destruct (lookup_obj h (r_objects rp)) as [[m|t|]|] eqn:E; try discriminate.
  - injection H as H. subst m. eapply commit_lt; eauto.
  - destruct (lookup_obj t (r_objects rp)) as [[m| |]|] eqn:E2; try discriminate.
    injection H as H. subst m. eapply commit_lt; eauto.
Qed.

Lemma base_sound : forall rp name n,
  base_safe rp name = true -> resolve_ref_item rp name = ROk n ->
  git_base rp name = ROk n /\ (commits_ok rp = true -> n < nnodes (r_dag rp)).
Proof.
  intros rp name n Hs HG. unfold base_safe in Hs. unfold resolve_ref_item in HG.
  destruct (resolve_hash_prefix rp name) as [|h [|h2 r]] eqn:Epre; [| |discriminate].
  - (* only a reference reading *)
    simpl in HG. destruct (expand_ref rp name) as [h|] eqn:Er; [|discriminate].
    split; [|intros Hc; eapply try_single_lt; eauto].
    unfold git_base.
    assert (E40 : Nat.eqb (List.length name) 40 && forallb is_hex name = false).
    { destruct (Nat.eqb (List.length name) 40) eqn:E1; [|reflexivity]. simpl.
      destruct (forallb is_hex name) eqn:E2; [|reflexivity].
      unfold resolve_hash_prefix in Epre. rewrite E1 in Epre. apply Nat.eqb_eq in E1.
      rewrite E1 in Epre. simpl in Epre. rewrite E2 in Epre. discriminate. }
    rewrite E40, Er. now apply try_single.
  - (* exactly one object id reading and no reference reading *)
    destruct (expand_ref rp name) as [hr|] eqn:Er; [discriminate|].
    rewrite !andb_true_iff in Hs. destruct Hs as [[[_ Hl] H4] H40].
    apply Nat.leb_le in H4, H40. simpl in HG.
    split; [|intros Hc; eapply try_single_lt; eauto].
    unfold git_base. destruct (Nat.eqb (List.length name) 40) eqn:E1.
    + rewrite (forallb_lhex_hex name Hl). simpl.
      unfold resolve_hash_prefix in Epre. rewrite E1 in Epre. apply Nat.eqb_eq in E1.
      assert (E0 : Nat.eqb (List.length name) 0 = false) by (apply Nat.eqb_neq; lia).
      rewrite E0 in Epre. rewrite (forallb_lhex_hex name Hl) in Epre. injection Epre as Epre.
      rewrite Epre. now apply try_single.
    + simpl. rewrite Er.
      assert (H0 : (0 <? List.length name)%nat = true) by (apply Nat.ltb_lt; lia).
      rewrite (hash_prefix_lhex rp name Hl H0 E1) in Epre.
      unfold git_short.
      assert (C1 : (List.length name <? 4)%nat = false) by (apply Nat.ltb_ge; lia).
      assert (C2 : (40 <? List.length name)%nat = false) by (apply Nat.ltb_ge; lia).
      rewrite C1, C2, (forallb_lhex_hex name Hl). simpl. rewrite Epre. now apply try_single.
Qed.

(* ------------------------------------------------------------ ^{/regex} *)
Lemma le1_same : forall (l : list node) a b, (List.length l <= 1)%nat -> In a l -> In b l -> a = b.
Proof.
  intros l a b' H Ha Hb. destruct l as [|x [|y r]]; simpl in *; try lia; try contradiction.
Qed.

Lemma regex_sound : forall g hit (c n : node),
  dag_ok g = true -> dag_closed g = true -> c < nnodes g ->
  (List.length (filter hit (ancs g c)) <= 1)%nat ->
  (exists l, pre_walk g hit (walk_fuel g) c [] = (l, WStop) /\ last l c = n) ->
  git_oneline g hit (S (nnodes g + nedges g)) [c] [c] = Some n /\ n < nnodes g.
Proof.
  intros g hit c n Hok Hc Hlt Huniq [l [Ew El]].
  pose proof (pre_walk_post g Hc hit [] c Hlt) as P. rewrite Ew in P. unfold Post in P.
  destruct P as [[He _] | [_ [l' [c' [El' [Hs [Hra _]]]]]]]; [discriminate|].
  subst l. rewrite last_last in El. subst c'. apply ra_reach in Hra.
  assert (Hin : In n (filter hit (ancs g c))).
  { apply filter_In. split; [now apply ancs_spec | exact Hs]. }
  assert (HOL : OL g hit c [c] [c] []).
  { constructor.
    - constructor; [intros [] | constructor].
    - intros x. simpl. tauto.
    - constructor.
    - intros x [].
    - intros x [Hx|[]]. subst x. constructor.
    - intros x [].
    - intros x Hx [].
    - intros y p [].
    - now left. }
  pose proof (oneline_spec g Hc hit c Hlt (S (nnodes g + nedges g)) [c] [c] [] HOL) as Q.
  assert (Hfu : nnodes g - List.length (@nil node) < S (nnodes g + nedges g)) by (simpl; lia).
  specialize (Q Hfu).
  destruct (git_oneline g hit (S (nnodes g + nedges g)) [c] [c]) as [x|].
  - destruct Q as [Hx Hrx]. split.
    + f_equal. apply (le1_same (filter hit (ancs g c))); auto.
      apply filter_In. split; [now apply ancs_spec | exact Hx].
    + eapply reach_present; eauto.
  - rewrite (Q n Hra) in Hs. discriminate.
Qed.

(* ------------------------------------------------------------ the theorem *)
Section Sound.
  Variable matches : bytes -> bytes -> bool.

  Lemma first_parents_lt : forall g k (c p : node), c < nnodes g -> first_parents g k c = Some p -> p < nnodes g.
  Proof.
    induction k as [|k IH]; intros c p Hc H; simpl in H; [injection H as H; now subst|].
    destruct (parents g c) as [|q r]; [discriminate|]. destruct (present g q) eqn:E; [|discriminate].
    apply (IH q p); [|exact H]. unfold present in E. now apply Nat.ltb_lt in E.
  Qed.

  Theorem resolve_sound : forall rp items cur n,
    repo_ok rp = true ->
    (forall c, cur = Some c -> c < nnodes (r_dag rp)) ->
    safe matches rp items cur = true ->
    resolve_items matches rp items cur = ROk n ->
    git_items matches rp items cur = ROk n.
  Proof.
    intros rp items. induction items as [|it rest IH]; intros cur n Hrp Hcur Hsafe HG.
    - simpl in *. exact HG.
    - unfold repo_ok in Hrp. rewrite !andb_true_iff in Hrp. destruct Hrp as [[[Hok Hc] Hco] Hft].
      assert (Hrp' : repo_ok rp = true) by (unfold repo_ok; now rewrite Hok, Hc, Hco, Hft).
      destruct it as [name | d | d | re neg | t | ].
      + (* reference / object id *)
        simpl in Hsafe, HG |- *. apply andb_true_iff in Hsafe. destruct Hsafe as [Hb Hs].
        destruct (resolve_ref_item rp name) as [m| |] eqn:Er; try discriminate.
        destruct (base_sound rp name m Hb Er) as [Eg Hm]. rewrite Eg.
        apply IH; auto. intros c Ec. injection Ec as Ec. subst c. now apply Hm.
      + (* ~n *)
        simpl in Hsafe, HG |- *. destruct cur as [c|]; [|discriminate].
        match type of HG with context [first_parents ?a ?k ?x] =>
          destruct (first_parents a k x) as [p|] eqn:Ef; [|discriminate HG] end.
        apply IH; auto. intros c' Ec. injection Ec as Ec. subst c'.
        eapply first_parents_lt; [|exact Ef]. now apply Hcur.
      + (* ^n *)
        simpl in Hsafe, HG |- *. apply andb_true_iff in Hsafe. destruct Hsafe as [Hd Hs].
        destruct cur as [c|]; [|discriminate].
        destruct (d =? 0)%N eqn:E0; [apply IH; auto|].
        destruct (parents (r_dag rp) c) as [|p1 ps] eqn:Ep; [discriminate|].
        destruct (present (r_dag rp) p1) eqn:E1; simpl in HG, Hs; [|discriminate].
        destruct (d =? 1)%N eqn:Ed1.
        * apply N.eqb_eq in Ed1. subst d. simpl. rewrite E1.
          apply IH; auto. intros c' Ec. injection Ec as Ec. subst c'. unfold present in E1. now apply Nat.ltb_lt in E1.
        * assert (Ed2 : d = 2%N).
          { apply N.leb_le in Hd. apply N.eqb_neq in E0, Ed1. lia. }
          subst d. simpl. destruct ps as [|p2 ps']; [discriminate|].
          destruct (present (r_dag rp) p2) eqn:E2; [|discriminate].
          apply IH; auto. intros c' Ec. injection Ec as Ec. subst c'. unfold present in E2. now apply Nat.ltb_lt in E2.
      + (* ^{/regex} *)
        cbn [safe resolve_items git_items] in Hsafe, HG |- *. destruct cur as [c|]; [|discriminate].
        apply andb_true_iff in Hsafe. destruct Hsafe as [Hu Hs]. apply Nat.leb_le in Hu.
        unfold hit_of in Hu.
        set (hit := fun x => if neg then negb (matches re (msg_of rp x)) else matches re (msg_of rp x)) in *.
        destruct (pre_walk (r_dag rp) hit (walk_fuel (r_dag rp)) c []) as [l e] eqn:Ew.
        destruct e; try discriminate.
        assert (Hclt : c < nnodes (r_dag rp)) by now apply Hcur.
        destruct (regex_sound (r_dag rp) hit c (last l c) Hok Hc Hclt Hu) as [Eo Hlt].
        { exists l. split; [exact Ew | reflexivity]. }
        rewrite Eo. apply IH; auto. intros c' Ec. injection Ec as Ec. now subst c'.
      + (* ^{type} *)
        simpl in Hsafe, HG |- *. destruct cur as [c|]; [|discriminate].
        apply andb_true_iff in Hsafe. destruct Hsafe as [Ht Hs]. apply negb_true_iff in Ht.
        rewrite Ht. apply IH; auto.
      + discriminate.
  Qed.
End Sound.
