(* Proofs/ObjLinesFacts.v — facts about Model/ObjLines (line splitting,
   prefixes, byte-list equality) shared by the C02 and C03 proofs. *)
From Coq Require Import List NArith ZArith Bool Lia.
From GoGit Require Import Base.Out Model.ObjLines.
Import ListNotations.
Local Open Scope N_scope.

Lemma beqb_refl a : beqb a a = true.
Proof. induction a as [|x a IH]; cbn; [reflexivity|]. now rewrite N.eqb_refl, IH. Qed.

Lemma beqb_eq a b : beqb a b = true <-> a = b.
Proof.
  split; [|intros ->; apply beqb_refl].
  revert b; induction a as [|x a IH]; intros [|y b] H; cbn in H; try discriminate; [reflexivity|].
  apply andb_true_iff in H as [H1 H2]. apply N.eqb_eq in H1. subst. f_equal. now apply IH.
Qed.

Lemma beqb_neq a b : beqb a b = false <-> a <> b.
Proof.
  split.
  - intros H E. apply beqb_eq in E. congruence.
  - intros H. destruct (beqb a b) eqn:E; [|reflexivity]. apply beqb_eq in E. contradiction.
Qed.

(* no LF anywhere *)
Definition no_lf (l : bytes) : bool := forallb (fun c => negb (c =? LF)) l.

(* a line as ReadBytes returns it: non-empty, LF at most as its last byte *)
Definition line_ok (l : bytes) : Prop :=
  l <> [] /\ (exists p, no_lf p = true /\ (l = p ++ [LF] \/ (l = p))).

Lemma no_lf_cons c p : no_lf (c :: p) = negb (c =? LF) && no_lf p.
Proof. reflexivity. Qed.

Lemma concat_split_lines b : List.concat (split_lines b) = b.
Proof.
  induction b as [|c r IH]; cbn; [reflexivity|].
  destruct (c =? LF) eqn:E.
  - cbn. now rewrite IH.
  - destruct (split_lines r) as [|l ls] eqn:S; cbn in *.
    + now rewrite <- IH.
    + now rewrite <- IH.
Qed.

Lemma split_lines_ok b : Forall line_ok (split_lines b).
Proof.
  induction b as [|c r IH]; cbn; [constructor|].
  destruct (c =? LF) eqn:E.
  - apply N.eqb_eq in E. subst. constructor; [|exact IH].
    split; [discriminate|]. exists []. split; [reflexivity|]. now left.
  - destruct (split_lines r) as [|l ls] eqn:S.
    + constructor; [|constructor]. split; [discriminate|]. exists [c]. rewrite no_lf_cons, E. split; [reflexivity|]. now right.
    + inversion IH as [|? ? [Hne [p [Hp Hl]]] Hls]; subst. constructor; [|exact Hls].
      split; [discriminate|]. exists (c :: p). rewrite no_lf_cons, E, Hp. split; [reflexivity|].
      destruct Hl as [-> | ->]; [now left | now right].
Qed.

Lemma no_lf_app a b : no_lf (a ++ b) = no_lf a && no_lf b.
Proof. apply forallb_app. Qed.

Lemma ends_nl_app_lf p : ends_nl (p ++ [LF]) = true.
Proof.
  induction p as [|c r IH]; cbn; [reflexivity|].
  destruct (r ++ [LF]) eqn:E; [destruct r; discriminate|]. exact IH.
Qed.

Lemma ends_nl_no_lf p : no_lf p = true -> ends_nl p = false.
Proof.
  induction p as [|c r IH]; [reflexivity|]. rewrite no_lf_cons. intros H. apply andb_true_iff in H as [H1 H2].
  destruct r; [cbn; now apply negb_true_iff in H1|]. cbn [ends_nl]. now apply IH.
Qed.

(* a complete line followed by more input *)
Lemma split_lines_line p r : no_lf p = true -> split_lines (p ++ LF :: r) = (p ++ [LF]) :: split_lines r.
Proof.
  induction p as [|c p IH]; intros H; [reflexivity|]. rewrite no_lf_cons in H.
  apply andb_true_iff in H as [H1 H2]. apply negb_true_iff in H1. cbn. rewrite H1, (IH H2). reflexivity.
Qed.

(* a final line without terminator *)
Lemma split_lines_last p : no_lf p = true -> p <> [] -> split_lines p = [p].
Proof.
  induction p as [|c p IH]; intros H Hne; [contradiction|]. rewrite no_lf_cons in H.
  apply andb_true_iff in H as [H1 H2]. apply negb_true_iff in H1. cbn [split_lines]. rewrite H1.
  destruct p as [|d p]; [reflexivity|]. rewrite IH; [reflexivity|exact H2|discriminate].
Qed.

Lemma first_is_lf_blank l : line_ok l -> first_is LF l = is_blank l.
Proof.
  intros [Hne [p [Hp Hl]]]. destruct Hl as [-> | ->].
  - destruct p as [|c p]; [reflexivity|]. rewrite no_lf_cons in Hp.
    apply andb_true_iff in Hp as [H1 _]. apply negb_true_iff in H1.
    change (first_is LF ((c :: p) ++ [LF])) with (c =? LF).
    change (is_blank ((c :: p) ++ [LF])) with (match p ++ [LF] with [] => c =? LF | _ :: _ => false end).
    rewrite H1. destruct (p ++ [LF]) eqn:E; [destruct p; discriminate|]. reflexivity.
  - destruct p as [|c p]; [contradiction|]. rewrite no_lf_cons in Hp. apply andb_true_iff in Hp as [H1 _].
    apply negb_true_iff in H1.
    change (first_is LF (c :: p)) with (c =? LF).
    change (is_blank (c :: p)) with (match p with [] => c =? LF | _ :: _ => false end).
    rewrite H1. destruct p; reflexivity.
Qed.

Lemma starts_with_app p b : starts_with p (p ++ b) = true.
Proof. induction p as [|x p IH]; cbn; [reflexivity|]. now rewrite N.eqb_refl, IH. Qed.

Lemma starts_with_spec p b : starts_with p b = true <-> exists r, b = p ++ r.
Proof.
  split.
  - revert b; induction p as [|x p IH]; intros b H; cbn in *; [now exists b|].
    destruct b as [|y b]; [discriminate|]. apply andb_true_iff in H as [H1 H2]. apply N.eqb_eq in H1. subst.
    destruct (IH _ H2) as [r ->]. now exists r.
  - intros [r ->]. apply starts_with_app.
Qed.
