(* Proofs/C09.v — soundness of the pack reader model (Model/PackParse.v):
   whatever Parser.Parse accepts, every object it announces has the id
   H("<type> <len>\0" ++ content) of its own content, resolves through the
   declared delta structure, has a chain depth within the limit; an accepted
   pack passed every structural check of the scanner. *)
From Coq Require Import List NArith ZArith Bool String Lia ZifyBool ZifyNat ZifyN.
From GoGit Require Import Base.Out Base.GoInt Model.PackBytes Model.Idx Model.PackParse Gen.C08
  Proofs.C10Order Proofs.C10Bytes.
Import ListNotations.
Local Open Scope N_scope.

(* ------------------------------------------------------- apply_delta *)

Lemma masked_bytes_bound : forall masks cmd r acc v r',
  acc < 18446744073709551616 -> masked_bytes masks cmd r acc = Some (v, r') -> v < 18446744073709551616.
Proof.
  induction masks as [|[mask shift] ms IH]; intros cmd r acc v r' Ha E; cbn [masked_bytes] in E.
  - inversion E; subst. exact Ha.
  - destruct (N.land cmd mask =? 0); [eapply IH; eauto|].
    destruct r as [|b r0]; [discriminate|]. eapply IH; [|exact E].
    apply N.mod_upper_bound. discriminate.
Qed.

(* the command loop writes exactly the announced number of bytes *)
Lemma delta_loop_length : forall fuel src d remaining out res,
  delta_loop fuel src d remaining out = Some res -> blen res = blen out + remaining.
Proof.
  induction fuel as [|f IH]; intros src d remaining out res E; cbn [delta_loop] in E; [discriminate|].
  destruct (remaining =? 0) eqn:E0.
  - destruct d; [|discriminate]. inversion E; subst. lia.
  - destruct d as [|cmd d1]; [discriminate|].
    destruct (packfile_isCopyFromSrc (Z.of_N cmd)).
    + destruct (masked_bytes OFFSET_MASKS cmd d1 0) as [[offset d2]|] eqn:Mo; [|discriminate].
      destruct (masked_bytes SIZE_MASKS cmd d2 0) as [[sz0 d3]|] eqn:Ms; [|discriminate].
      apply masked_bytes_bound in Mo; [|lia]. apply masked_bytes_bound in Ms; [|lia].
      set (sz := if sz0 =? 0 then MAX_COPY else sz0) in *.
      assert (Hsz : sz < 18446744073709551616).
      { unfold sz. destruct (sz0 =? 0); [reflexivity|exact Ms]. }
      destruct (packfile_invalidSize (Z.of_N sz) (Z.of_N remaining)
                || packfile_invalidOffsetSize (Z.of_N offset) (Z.of_N sz) (Z.of_N (blen src))) eqn:Ev; [discriminate|].
      apply orb_false_iff in Ev. destruct Ev as [Ev1 Ev2].
      apply IH in E. rewrite E, blen_app.
      unfold packfile_invalidSize in Ev1. unfold packfile_invalidOffsetSize, packfile_sumOverflows in Ev2.
      apply orb_false_iff in Ev2. destruct Ev2 as [Ev2 Ev3].
      assert (Hfit : offset + sz <= blen src).
      { unfold wrapu in *. change (2 ^ 64)%Z with 18446744073709551616%Z in *.
        assert (Hc : (Z.of_N offset + Z.of_N sz < 18446744073709551616 \/ 18446744073709551616 <= Z.of_N offset + Z.of_N sz)%Z) by lia.
        destruct Hc as [Hs|Hbig].
        - rewrite Z.mod_small in Ev3 by lia. lia.
        - exfalso.
          assert (((Z.of_N offset + Z.of_N sz) mod 18446744073709551616)%Z = (Z.of_N offset + Z.of_N sz - 18446744073709551616)%Z).
          { symmetry. apply Z.mod_unique with (q := 1%Z); lia. }
          lia. }
      assert (Hsl : blen (slice src offset sz) = sz).
      { unfold slice, blen in *. rewrite firstn_length, skipn_length. lia. }
      lia.
    + destruct (packfile_isCopyFromDelta (Z.of_N cmd)); [|discriminate].
      destruct (packfile_invalidSize (Z.of_N cmd) (Z.of_N remaining)) eqn:Ev; [discriminate|].
      destruct (blen d1 <? cmd) eqn:El; [discriminate|].
      apply IH in E. rewrite E, blen_app. unfold packfile_invalidSize in Ev.
      assert (blen (firstn (N.to_nat cmd) d1) = cmd).
      { unfold blen in *. rewrite firstn_length. lia. }
      lia.
Qed.

Lemma apply_delta_length src delta tsz out :
  apply_delta src delta = Some (tsz, out) -> blen out = tsz.
Proof.
  unfold apply_delta.
  destruct (leb128 10 delta 0 0) as [[srcSz d1]|]; [|discriminate].
  destruct (negb (srcSz =? blen src)); [discriminate|].
  destruct (leb128 10 d1 0 0) as [[tgtSz d2]|]; [|discriminate].
  destruct (delta_loop _ src d2 tgtSz []) as [o|] eqn:E; [|discriminate].
  intros H; inversion H; subst. apply delta_loop_length in E. cbn in E. lia.
Qed.

Section Sound.
Variable hs : nat.
Variable Hsz : nat -> bytes -> bytes.
Variable inflate : bytes -> option (bytes * N).
Variable crc32 : bytes -> N.

Notation obj_id := (obj_id hs Hsz).

(* ------------------------------------------------------------ scanner *)

(* what objectEntry guarantees about an accepted entry *)
Definition entry_ok (e : ohdr) : Prop :=
  blen (oh_data e) = oh_size e /\
  (is_delta (oh_type e) = false -> oh_id e = obj_id (oh_type e) (blen (oh_data e)) (oh_data e)) /\
  (oh_type e = TOfs -> 0 < oh_base_off e < oh_off e) /\
  (oh_type e = TRef -> List.length (oh_base_id e) = hs).

Lemma scan_entry_ok pack off r e next :
  scan_entry hs Hsz inflate crc32 pack off r = Some (e, next) -> entry_ok e /\ oh_off e = off.
Proof.
  unfold scan_entry. destruct r as [|b r1]; [discriminate|].
  destruct (otype_of_num (N.land (N.shiftr b 4) 7)) as [t|]; [|discriminate].
  destruct (entry_size b r1) as [[size r2]|]; [|discriminate].
  set (base := match t with TOfs => _ | TRef => _ | _ => _ end).
  destruct base as [[[boff bid] r3]|] eqn:Eb; [|discriminate].
  destruct (inflate r3) as [[data consumed]|]; [|discriminate].
  destruct (negb (blen data =? size)) eqn:Es; [discriminate|].
  intros E; inversion E; subst; clear E. unfold entry_ok. cbn [oh_data oh_size oh_type oh_id oh_base_off oh_off oh_base_id].
  assert (Hs : blen data = size) by lia.
  split; [|reflexivity]. split; [exact Hs|]. split.
  - intros Hd. rewrite Hd. now rewrite Hs.
  - split.
    + intros ->. unfold base in Eb.
      destruct (vwint r2) as [[no r3']|]; [|discriminate].
      destruct (packfile_ValidateOFSDeltaBase (Z.of_N off) (Z.of_N no)) eqn:Ev; [discriminate|].
      inversion Eb; subst. unfold packfile_ValidateOFSDeltaBase in Ev.
      destruct ((Z.of_N no <=? 0)%Z || (Z.of_N no >=? Z.of_N off)%Z) eqn:Eo; [discriminate|]. lia.
    + intros ->. unfold base in Eb.
      destruct (take (N.of_nat hs) r2) as [[id r3']|] eqn:Et; [|discriminate].
      inversion Eb; subst. apply take_some in Et. destruct Et as [_ Hl]. unfold blen in Hl. lia.
Qed.

Lemma scan_entries_ok : forall fuel pack count idx pos acc es end_,
  Forall entry_ok acc ->
  scan_entries hs Hsz inflate crc32 fuel pack count idx pos acc = Some (es, end_) -> Forall entry_ok es.
Proof.
  induction fuel as [|f IH]; intros pack count idx pos acc es end_ Ha E; cbn [scan_entries] in E; [discriminate|].
  destruct (count <=? idx).
  - inversion E; subst. apply Forall_rev. exact Ha.
  - destruct (PackParse.scan_entry hs Hsz inflate crc32 pack pos (skipn (N.to_nat pos) pack)) as [[oh next]|] eqn:Ee; [|discriminate].
    destruct (next <=? pos); [discriminate|].
    eapply IH; [|exact E]. constructor; [|exact Ha]. now apply scan_entry_ok in Ee.
Qed.

(* an accepted pack starts with "PACK", version 2, every entry is well formed and
   the trailer is the digest of everything before it *)
Theorem scan_pack_wellformed pack es sum :
  scan_pack hs Hsz inflate crc32 pack = Some (es, sum) ->
  firstn 4 pack = PACK_SIG /\ get32 (firstn 4 (skipn 4 pack)) = PACK_VERSION /\
  Forall entry_ok es /\
  exists pos, sum = Hsz hs (firstn (N.to_nat pos) pack) /\
              firstn hs (skipn (N.to_nat pos) pack) = sum.
Proof.
  unfold scan_pack. intros E.
  destruct (take 4 pack) as [[sg r1]|] eqn:T1; [|discriminate].
  destruct (negb (bytes_eqb sg PACK_SIG)) eqn:Es; [discriminate|].
  destruct (take 4 r1) as [[vb r2]|] eqn:T2; [|discriminate].
  destruct (negb (get32 vb =? PACK_VERSION)) eqn:Ev; [discriminate|].
  destruct (take 4 r2) as [[qb r3]|] eqn:T3; [|discriminate].
  destruct (scan_entries hs Hsz inflate crc32 _ pack (get32 qb) 0 12 []) as [[es' pos]|] eqn:Ee; [|discriminate].
  destruct (take (N.of_nat hs) (skipn (N.to_nat pos) pack)) as [[sm r4]|] eqn:T4; [|discriminate].
  destruct (bytes_eqb sm (Hsz hs (firstn (N.to_nat pos) pack))) eqn:Eq; [|discriminate].
  inversion E; subst; clear E.
  apply take_inv in T1. destruct T1 as (-> & -> & L1).
  apply take_inv in T2. destruct T2 as (-> & -> & L2).
  apply take_inv in T4. destruct T4 as (-> & -> & L4).
  change (N.to_nat 4) with 4%nat in *.
  repeat split.
  - apply negb_false_iff in Es. apply bytes_eqb_eq in Es. exact Es.
  - apply negb_false_iff in Ev. apply N.eqb_eq in Ev. exact Ev.
  - eapply scan_entries_ok; [|exact Ee]. constructor.
  - exists pos. apply bytes_eqb_eq in Eq. rewrite Nat2N.id in *. split; [exact Eq|reflexivity].
Qed.

(* ------------------------------------------------------------- parser *)

(* the declarative resolution relation: what an entry stands for, whatever the order of the walk *)
Inductive Resolves (es : list ohdr) (ext : store) : N -> otype -> bytes -> N -> Prop :=
| R_base e : In e es -> is_delta (oh_type e) = false ->
    Resolves es ext (oh_off e) (oh_type e) (oh_data e) 0
| R_ofs e t c d tsz out : In e es -> oh_type e = TOfs ->
    Resolves es ext (oh_base_off e) t c d -> apply_delta c (oh_data e) = Some (tsz, out) ->
    Resolves es ext (oh_off e) t out (d + 1)
| R_ref e boff t c d tsz out : In e es -> oh_type e = TRef ->
    Resolves es ext boff t c d -> obj_id t (blen c) c = oh_base_id e ->
    apply_delta c (oh_data e) = Some (tsz, out) ->
    Resolves es ext (oh_off e) t out (d + 1)
| R_ext e t c tsz out : In e es -> oh_type e = TRef ->
    store_get ext (oh_base_id e) = Some (t, c) ->
    apply_delta c (oh_data e) = Some (tsz, out) ->
    Resolves es ext (oh_off e) t out 1.

(* the depth rule of checkDeltaChainDepth, both paths: exactly "parent depth + 1 <= maxDeltaChainDepth" *)
Lemma chain_depth_spec pd :
  chain_depth pd = if pd + 1 <=? MAX_DEPTH then Some (pd + 1) else None.
Proof.
  unfold chain_depth. change MAX_DEPTH with 4095.
  replace (4095 <? 1) with false by reflexivity.
  destruct (0 <? pd) eqn:E0.
  - replace (1 + pd) with (pd + 1) by lia. destruct (4095 <? pd + 1) eqn:E1; destruct (pd + 1 <=? 4095) eqn:E2; try reflexivity; lia.
  - assert (pd = 0) by lia. subst. reflexivity.
Qed.

(* [r_depth] is the number of delta links between the object and the whole object (or external base) under it *)
Definition good (es : list ohdr) (ext : store) (o : robj) : Prop :=
  r_id o = obj_id (r_type o) (blen (r_content o)) (r_content o) /\
  r_size o = blen (r_content o) /\
  r_depth o <= MAX_DEPTH /\
  Resolves es ext (r_off o) (r_type o) (r_content o) (r_depth o).

Definition pinv (es : list ohdr) (ext : store) (s : pstate) : Prop :=
  Forall (good es ext) (p_oi s) /\
  (forall id v, store_get (p_ext s) id = Some v -> store_get ext id = Some v).

Lemma find_some_in {A} (f : A -> bool) l x : find f l = Some x -> In x l /\ f x = true.
Proof. apply find_some. Qed.

Lemma process_delta_inv es ext s d s' :
  pinv es ext s -> In d es -> is_delta (oh_type d) = true ->
  process_delta hs Hsz ext s d = Some s' -> pinv es ext s'.
Proof.
  intros [Ig Ie] Hd Ht. unfold process_delta.
  set (parent := match oh_type d with TOfs => _ | _ => _ end).
  destruct parent as [[[[pt pc] pd] s1]|] eqn:Ep; [|discriminate].
  rewrite chain_depth_spec. destruct (pd + 1 <=? MAX_DEPTH) eqn:Edp; [|discriminate].
  destruct (oh_data d) as [|x dd] eqn:Edata; [discriminate|]. rewrite <- Edata.
  destruct (apply_delta pc (oh_data d)) as [[tsz out]|] eqn:Ea; [|discriminate].
  intros E; inversion E; subst; clear E.
  pose proof (apply_delta_length _ _ _ _ Ea) as Hlen.
  (* facts about the parent found *)
  assert (Hp : (Forall (good es ext) (p_oi s1) /\
               (forall id v, store_get (p_ext s1) id = Some v -> store_get ext id = Some v)) /\
               pd <= MAX_DEPTH /\
               ((oh_type d = TOfs /\ Resolves es ext (oh_base_off d) pt pc pd) \/
                (oh_type d = TRef /\ exists boff, Resolves es ext boff pt pc pd /\ obj_id pt (blen pc) pc = oh_base_id d) \/
                (oh_type d = TRef /\ pd = 0 /\ store_get ext (oh_base_id d) = Some (pt, pc)))).
  { unfold parent in Ep. destruct (oh_type d) eqn:Et; try discriminate.
    - (* OFS *)
      destruct (by_offset s (oh_base_off d)) as [p|] eqn:Eo; [|discriminate]. inversion Ep; subst.
      unfold by_offset in Eo. apply find_some_in in Eo. destruct Eo as [Hin Hoff].
      rewrite Forall_forall in Ig. destruct (Ig p Hin) as (G1 & G2 & G3 & G4).
      split; [split; [now apply Forall_forall|exact Ie]|]. split; [exact G3|]. left. split; [reflexivity|].
      apply N.eqb_eq in Hoff. now rewrite <- Hoff.
    - (* REF *)
      destruct (by_hash s (oh_base_id d)) as [p|] eqn:Eh.
      + inversion Ep; subst. unfold by_hash in Eh. apply find_some_in in Eh. destruct Eh as [Hin Hid].
        rewrite Forall_forall in Ig. destruct (Ig p Hin) as (G1 & G2 & G3 & G4).
        split; [split; [now apply Forall_forall|exact Ie]|]. split; [exact G3|]. right. left. split; [reflexivity|].
        exists (r_off p). split; [exact G4|]. apply bytes_eqb_eq in Hid. now rewrite <- G1.
      + destruct (store_get (p_ext s) (oh_base_id d)) as [[t c]|] eqn:E1.
        * inversion Ep; subst. split; [split; assumption|]. split; [unfold MAX_DEPTH; cbn; lia|].
          right. right. split; [reflexivity|]. split; [reflexivity|]. now apply Ie.
        * destruct (store_get ext (oh_base_id d)) as [[t c]|] eqn:E2; [|discriminate].
          inversion Ep; subst. cbn [p_oi p_ext].
          split; [split; [assumption|]|].
          -- intros id v. cbn [store_get]. destruct (bytes_eqb (oh_base_id d) id) eqn:Eb.
             ++ apply bytes_eqb_eq in Eb. subst id. intros Hv; inversion Hv; subst. exact E2.
             ++ apply Ie.
          -- split; [unfold MAX_DEPTH; cbn; lia|]. right. right. split; [reflexivity|]. split; [reflexivity|first [exact E2|reflexivity]]. }
  destruct Hp as ((Ig1 & Ie1) & Hpd & Hres).
  split; cbn [p_oi p_ext]; [|exact Ie1].
  constructor; [|exact Ig1].
  unfold good. cbn [r_id r_type r_content r_size r_depth r_off].
  rewrite Hlen. repeat split; try reflexivity; [lia|].
  destruct Hres as [[Et R]|[[Et (boff & R & Hid)]|[Et [E0 Hs]]]].
  - eapply R_ofs; eauto.
  - eapply R_ref; eauto.
  - subst pd. change (0 + 1) with 1. eapply R_ext; eauto.
Qed.

(* process_delta marks the entry done and adds one object at its offset *)
Lemma fold_opt_inv {A B} (P : A -> Prop) (step : option A -> B -> option A) l :
  (forall a b a', In b l -> P a -> step (Some a) b = Some a' -> P a') ->
  (forall b, step None b = None) ->
  forall acc r, (forall a, acc = Some a -> P a) -> fold_left step l acc = Some r -> P r.
Proof.
  induction l as [|b l IH]; intros Hs Hn acc r Ha E; cbn in E.
  - now apply Ha.
  - apply (IH (fun a b' a' Hb => Hs a b' a' (or_intror Hb)) Hn (step acc b) r); [|exact E].
    intros a Ea. destruct acc as [a0|].
    + eapply Hs; [now left|now apply Ha|exact Ea].
    + rewrite Hn in Ea. discriminate.
Qed.

Lemma visit_inv es ext refs ofss : (forall c, In c refs -> In c es /\ is_delta (oh_type c) = true) ->
  (forall c, In c ofss -> In c es /\ is_delta (oh_type c) = true) ->
  forall fuel pid poff s s', pinv es ext s ->
  visit hs Hsz fuel ext refs ofss pid poff s = Some s' -> pinv es ext s'.
Proof.
  intros Hr Ho. induction fuel as [|f IH]; intros pid poff s s' I E; cbn [visit] in E; [discriminate|].
  set (step := fun (acc : option pstate) (c : ohdr) => _) in E.
  assert (Hstep : forall l, (forall c, In c l -> In c es /\ is_delta (oh_type c) = true) ->
                  forall acc r, (forall a, acc = Some a -> pinv es ext a) -> fold_left step l acc = Some r -> pinv es ext r).
  { intros l Hl. apply fold_opt_inv; [|reflexivity].
    intros a c a' Hc Pa Ea. unfold step in Ea.
    destruct (is_done a (oh_off c)); [inversion Ea; now subst|].
    destruct (process_delta hs Hsz ext a c) as [s1|] eqn:Ep; [|discriminate].
    destruct (by_offset s1 (oh_off c)) as [o|]; [|discriminate].
    eapply IH; [|exact Ea]. destruct (Hl c Hc). eapply process_delta_inv; eauto. }
  eapply Hstep; [| |exact E].
  - intros c Hc. apply filter_In in Hc. apply Ho. tauto.
  - intros a Ea. eapply Hstep; [| |exact Ea].
    + intros c Hc. apply filter_In in Hc. apply Hr. tauto.
    + intros a0 E0. inversion E0; now subst.
Qed.

Theorem resolve_inv ext es s :
  Forall entry_ok es -> resolve hs Hsz ext es = Some s -> pinv es ext s.
Proof.
  intros Hok. unfold resolve.
  set (bases := filter (fun e => negb (is_delta (oh_type e))) es).
  set (refs := filter (fun e => match oh_type e with TRef => true | _ => false end) es).
  set (ofss := filter (fun e => match oh_type e with TOfs => true | _ => false end) es).
  set (s0 := mkP _ [] []).
  assert (Hr : forall c, In c refs -> In c es /\ is_delta (oh_type c) = true).
  { intros c Hc. apply filter_In in Hc. destruct Hc as [Hi Ht]. split; [exact Hi|]. now destruct (oh_type c). }
  assert (Ho : forall c, In c ofss -> In c es /\ is_delta (oh_type c) = true).
  { intros c Hc. apply filter_In in Hc. destruct Hc as [Hi Ht]. split; [exact Hi|]. now destruct (oh_type c). }
  assert (I0 : pinv es ext s0).
  { split; [|intros id v Hv; discriminate]. cbn [p_oi]. apply Forall_rev. apply Forall_forall.
    intros o Hin. apply in_map_iff in Hin. destruct Hin as (e & <- & He).
    apply filter_In in He. destruct He as [Hi Ht].
    rewrite Forall_forall in Hok. destruct (Hok e Hi) as (K1 & K2 & _).
    unfold good. cbn [r_id r_type r_content r_size r_depth r_off].
    assert (Hnd : is_delta (oh_type e) = false) by now destruct (is_delta (oh_type e)).
    repeat split; [now apply K2|now rewrite K1|unfold MAX_DEPTH; cbn; lia|now apply R_base]. }
  match goal with |- match ?X with _ => _ end = _ -> _ => destruct X as [s2|] eqn:E2; [|discriminate] end.
  destruct (forallb _ ofss); [|discriminate]. intros E; inversion E; subst; clear E.
  revert E2.
  match goal with |- fold_left ?stp refs ?acc = _ -> _ => set (step2 := stp); set (s1 := acc) end.
  intros E2.
  assert (I1 : forall a, s1 = Some a -> pinv es ext a).
  { unfold s1. intros a Ea.
    eapply (fold_opt_inv (pinv es ext)); [| | |exact Ea].
    - intros a0 b a' Hb Pa Es. cbv beta iota in Es. eapply visit_inv; [exact Hr|exact Ho|exact Pa|exact Es].
    - reflexivity.
    - intros a0 E0. inversion E0; now subst. }
  eapply (fold_opt_inv (pinv es ext)); [| |exact I1|exact E2].
  - intros a d a' Hd Pa Es. unfold step2 in Es.
    destruct (is_done a (oh_off d)); [inversion Es; now subst|].
    destruct (process_delta hs Hsz ext a d) as [s'|] eqn:Ep; [|discriminate].
    destruct (by_offset s' (oh_off d)) as [o|]; [|discriminate].
    eapply visit_inv; [exact Hr|exact Ho| |exact Es].
    destruct (Hr d Hd). eapply process_delta_inv; eauto.
  - reflexivity.
Qed.

(* C09_sound: the objects of an accepted pack *)
Theorem parse_sound ext pack objs sum :
  parse hs Hsz inflate crc32 ext pack = Some (objs, sum) ->
  exists es, scan_pack hs Hsz inflate crc32 pack = Some (es, sum) /\
  forall o, In o objs ->
    r_id o = obj_id (r_type o) (blen (r_content o)) (r_content o) /\
    r_size o = blen (r_content o) /\ r_depth o <= MAX_DEPTH /\
    Resolves es ext (r_off o) (r_type o) (r_content o) (r_depth o).
Proof.
  unfold parse. destruct (scan_pack hs Hsz inflate crc32 pack) as [[es sm]|] eqn:Es; [|discriminate].
  destruct (resolve hs Hsz ext es) as [s|] eqn:Er; [|discriminate].
  intros E; inversion E; subst; clear E. exists es. split; [reflexivity|].
  apply scan_pack_wellformed in Es. destruct Es as (_ & _ & Hok & _).
  apply resolve_inv in Er; [|exact Hok]. destruct Er as [Ig _].
  intros o Ho. apply in_rev in Ho. rewrite Forall_forall in Ig. exact (Ig o Ho).
Qed.

End Sound.
