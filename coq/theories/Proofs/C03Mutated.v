(* Proofs/C03Mutated.v — matchesSource compares exactly the exported fields
   other than Signature / SignatureSHA256: EncodeWithoutSignature takes the
   raw-source path iff the decoded-again source has the same such fields. *)
From Coq Require Import List NArith ZArith Bool Lia ZifyBool ZifyNat ZifyN.
From GoGit Require Import Base.Out Model.ObjLines Model.Ident Model.Commit Model.Tag Model.SigPayload
     Proofs.ObjLinesFacts Proofs.C02Dec Proofs.C03Commit.
Import ListNotations.
Local Open Scope N_scope.

Lemma digits_val_pad2 n : digits_val (pad2 n) = Some n.
Proof.
  unfold pad2. destruct (n <? 10); [|apply digits_val_print_dec].
  pose proof (digits_val_print_dec n) as H. unfold digits_val in *. cbn [digits_acc].
  replace (is_digit 48) with true by reflexivity.
  destruct (print_dec n) eqn:E; [now apply print_dec_nonempty in E|]. exact H.
Qed.

Lemma pad2_inj a b : pad2 a = pad2 b -> a = b.
Proof. intros H. pose proof (digits_val_pad2 a) as Ha. rewrite H, digits_val_pad2 in Ha. now inversion Ha. Qed.

Lemma app_eq_len {A} (u1 v1 u2 v2 : list A) :
  u1 ++ v1 = u2 ++ v2 -> List.length v1 = List.length v2 -> u1 = u2 /\ v1 = v2.
Proof.
  revert u2. induction u1 as [|x u1 IH]; intros [|y u2] H L; cbn in *.
  - now split.
  - subst v1. cbn in L. rewrite app_length in L. lia.
  - subst v2. cbn in L. rewrite app_length in L. lia.
  - inversion H; subst. destruct (IH _ H2 L) as [-> ->]. now split.
Qed.

Lemma pad2_mod_len a : List.length (pad2 (a mod 60)) = 2%nat.
Proof. pose proof (N.mod_lt a 60 ltac:(lia)). rewrite pad2_two by lia. reflexivity. Qed.

Lemma fmt_zone_inj x y : fmt_zone x = fmt_zone y -> x = y.
Proof.
  unfold fmt_zone. intros H. inversion H as [[Hs Hr]].
  destruct (app_eq_len _ _ _ _ Hr) as [H1 H2]; [now rewrite !pad2_mod_len|].
  apply pad2_inj in H1, H2.
  pose proof (N.div_mod (Z.to_N (Z.abs x)) 60 ltac:(lia)). pose proof (N.div_mod (Z.to_N (Z.abs y)) 60 ltac:(lia)).
  assert (Z.to_N (Z.abs x) = Z.to_N (Z.abs y)) by lia.
  destruct (x <? 0)%Z eqn:Ex, (y <? 0)%Z eqn:Ey; try discriminate; lia.
Qed.

Lemma ident_eqb_eq a b : ident_eqb a b = true <-> a = b.
Proof.
  split; [|intros ->; apply ident_eqb_refl].
  unfold ident_eqb. intros H. apply andb_true_iff in H as [H H4]. apply andb_true_iff in H as [H H3].
  apply andb_true_iff in H as [H1 H2]. apply beqb_eq in H1, H2, H4. apply Z.eqb_eq in H3. apply fmt_zone_inj in H4.
  destruct a, b. cbn in *. now subst.
Qed.

Lemma list_eqb_eq {A} (eq : A -> A -> bool) : (forall x y, eq x y = true <-> x = y) ->
  forall a b, list_eqb eq a b = true <-> a = b.
Proof.
  intros Heq. induction a as [|x a IH]; intros [|y b]; cbn; split; try discriminate; try reflexivity; intros H.
  - apply andb_true_iff in H as [H1 H2]. apply Heq in H1. apply IH in H2. now subst.
  - inversion H; subst. apply andb_true_iff. split; [now apply Heq|now apply IH].
Qed.

(* a commit with both signature fields blanked *)
Definition without_sigs (c : commit) : commit := set_sig (set_sig256 c []) [].

Lemma commit_fields_eqb_eq c f : commit_fields_eqb c f = true <-> without_sigs c = without_sigs f.
Proof.
  unfold commit_fields_eqb, without_sigs. destruct c as [t1 p1 a1 c1 e1 x1 s1 z1 m1], f as [t2 p2 a2 c2 e2 x2 s2 z2 m2].
  cbn [c_tree c_parents c_author c_committer c_enc c_extra c_sig c_sig256 c_msg set_sig set_sig256].
  assert (Hx : forall x y : bytes * bytes, (beqb (fst x) (fst y) && beqb (snd x) (snd y)) = true <-> x = y).
  { intros [k1 v1] [k2 v2]. cbn. rewrite andb_true_iff, !beqb_eq. split; [intros [-> ->]; reflexivity|intros H; inversion H; now split]. }
  rewrite !andb_true_iff, !ident_eqb_eq, !beqb_eq, (list_eqb_eq beqb beqb_eq), (list_eqb_eq _ Hx).
  split.
  - intros [[[[[[-> ->] ->] ->] ->] ->] ->]. reflexivity.
  - intros H. inversion H. subst. repeat split.
Qed.

Theorem matches_source_iff src c :
  commit_matches_source src true c = true <-> exists f, decode_commit src = Ok f /\ without_sigs c = without_sigs f.
Proof.
  unfold commit_matches_source. destruct (decode_commit src) as [f|e]; cbn [andb].
  - rewrite commit_fields_eqb_eq. split; [intros H; now exists f|intros [f' [Hf H]]; now inversion Hf; subst].
  - split; [discriminate|intros [f [Hf _]]; discriminate].
Qed.

(* tags *)
Definition tag_without_sigs (t : tag) : tag :=
  mk_tag (t_target t) (t_type t) (t_name t) (t_tagger t) [] (t_msg t) [].

Lemma tag_fields_eqb_eq t f : tag_fields_eqb t f = true <-> tag_without_sigs t = tag_without_sigs f.
Proof.
  unfold tag_fields_eqb, tag_without_sigs. destruct t as [a1 b1 c1 d1 e1 f1 g1], f as [a2 b2 c2 d2 e2 f2 g2].
  cbn [t_target t_type t_name t_tagger t_sig256 t_msg t_sig].
  rewrite !andb_true_iff, !ident_eqb_eq, !beqb_eq. split.
  - intros [[[[-> ->] ->] ->] ->]. reflexivity.
  - intros H. inversion H. subst. repeat split.
Qed.

Theorem tag_matches_source_iff src t :
  tag_matches_source src true t = true <-> exists f, decode_tag src = Ok f /\ tag_without_sigs t = tag_without_sigs f.
Proof.
  unfold tag_matches_source. destruct (decode_tag src) as [f|e]; cbn [andb].
  - rewrite tag_fields_eqb_eq. split; [intros H; now exists f|intros [f' [Hf H]]; now inversion Hf; subst].
  - split; [discriminate|intros [f [Hf _]]; discriminate].
Qed.
