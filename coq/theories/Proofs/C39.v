(* Proofs/C39.v — the receive-pack update loop applies only consistent
   commands, keeps references closed over the object set, and reports
   exactly what it did. *)
From Coq Require Import List NArith Bool Lia Permutation.
From GoGit Require Import Base.Out Spec.AStore Model.ReceivePack Proofs.AStoreFacts.
Import ListNotations.
Local Open Scope N_scope.

(* ------------------------------------------------------------ S: the rule *)
(* the client's old value is the current value: absent <-> zero id, otherwise
   the stored reference is a hash reference to exactly that id *)
Definition old_matches (cur : option refval) (old : option N) : bool :=
  match cur, old with
  | None, None => true
  | Some v, Some o => optN_eqb (rv_hash v) (Some o)
  | _, _ => false
  end.

Definition new_present (s : store) (new : option N) : bool :=
  match new with Some h => fm_has h (s_objs s) | None => true end.

(* git's rule for one command: apply it iff it is consistent *)
Definition spec_apply (s : store) (c : cmd) : option store :=
  if old_matches (fm_get (c_name c) (s_refs s)) (c_old c) && new_present s (c_new c)
  then match c_new c with
       | Some h => Some (set_ref s (c_name c) h)
       | None => Some (del_ref s (c_name c))
       end
  else None.

Lemma g_apply_spec s c : is_invalid c = false -> g_apply s c = spec_apply s c.
Proof.
  unfold is_invalid, action_of, g_apply, spec_apply, old_matches, new_present.
  destruct c as [n [o|] [h|]]; cbn [c_name c_old c_new]; intro Hv; try discriminate;
    destruct (fm_get n (s_refs s)) as [v|]; cbn [negb andb];
    try destruct (optN_eqb (rv_hash v) (Some o)); cbn [negb andb];
    try destruct (fm_has h (s_objs s)); reflexivity.
Qed.

Lemma g_apply_old s c s' :
  g_apply s c = Some s' -> old_matches (fm_get (c_name c) (s_refs s)) (c_old c) = true.
Proof.
  unfold g_apply, old_matches.
  destruct c as [n [o|] [h|]]; cbn [c_name c_old c_new];
    destruct (fm_get n (s_refs s)) as [v|]; cbn [negb];
    try destruct (optN_eqb (rv_hash v) (Some o)); cbn [negb];
    try destruct (fm_has h (s_objs s)); cbn [negb]; congruence.
Qed.

Lemma g_apply_new s c s' : g_apply s c = Some s' -> new_present s (c_new c) = true.
Proof.
  unfold g_apply, new_present.
  destruct c as [n [o|] [h|]]; cbn [c_name c_old c_new];
    destruct (fm_get n (s_refs s)) as [v|]; cbn [negb];
    try destruct (optN_eqb (rv_hash v) (Some o)); cbn [negb];
    try destruct (fm_has h (s_objs s)); cbn [negb]; congruence.
Qed.

Lemma g_apply_effect s c s' :
  g_apply s c = Some s' ->
  s' = match c_new c with Some h => set_ref s (c_name c) h | None => del_ref s (c_name c) end.
Proof.
  intro H. pose proof (g_apply_old s c s' H) as Ho.
  destruct (is_invalid c) eqn:Hi.
  - unfold is_invalid, action_of in Hi. unfold g_apply in H.
    destruct c as [n [o|] [h|]]; try discriminate. cbn [c_name c_old c_new] in *.
    destruct (fm_get n (s_refs s)); discriminate.
  - rewrite (g_apply_spec s c Hi) in H. unfold spec_apply in H.
    destruct (old_matches _ _ && new_present s (c_new c)); [|discriminate].
    destruct (c_new c); congruence.
Qed.

(* ------------------------------------------------------------ closedness *)
(* no hash reference points outside the object set *)
Definition closed (s : store) : Prop :=
  forall n h, fm_get n (s_refs s) = Some (RHash h) -> fm_has h (s_objs s) = true.

Lemma g_apply_objs s c s' : g_apply s c = Some s' -> s_objs s' = s_objs s.
Proof. intro H. apply g_apply_effect in H. subst s'. destruct (c_new c); reflexivity. Qed.

Lemma g_apply_closed s c s' : closed s -> g_apply s c = Some s' -> closed s'.
Proof.
  intros Hc H. pose proof (g_apply_new s c s' H) as Hn. apply g_apply_effect in H. subst s'.
  unfold new_present in Hn. destruct (c_new c) as [h|]; intros k j; unfold set_ref, del_ref, st_with_refs;
    cbn [s_refs s_objs].
  - rewrite fm_get_set. destruct (k =? c_name c).
    + intro E; injection E as <-. exact Hn.
    + apply Hc.
  - rewrite fm_get_del. destruct (k =? c_name c); [discriminate|apply Hc].
Qed.

Lemma g_update1_closed x c : closed (u_store x) -> closed (u_store (g_update1 x c)).
Proof.
  intro Hc. unfold g_update1. destruct (is_invalid c); [exact Hc|].
  destruct (g_apply (u_store x) c) as [s'|] eqn:E; cbn [u_done u_fail u_store]; [|exact Hc].
  eapply g_apply_closed; eassumption.
Qed.

Lemma fold_update_closed cmds : forall x, closed (u_store x) -> closed (u_store (fold_left g_update1 cmds x)).
Proof.
  induction cmds as [|c r IH]; intros x H; [exact H|]. cbn [fold_left]. apply IH. apply g_update1_closed; exact H.
Qed.

Lemma add_objs_has s l k : fm_has k (s_objs s) = true -> fm_has k (s_objs (add_objs s l)) = true.
Proof.
  intro H. unfold add_objs, st_with_objs. cbn [s_objs].
  induction l as [|a r IH]; cbn [fold_right]; [exact H|].
  rewrite fm_has_set, IH. apply orb_true_r.
Qed.

Lemma add_objs_closed s l : closed s -> closed (add_objs s l).
Proof. intros Hc n h Hg. apply add_objs_has. apply (Hc n h). exact Hg. Qed.

Lemma receive_closed s r : closed s -> closed (o_store (g_receive s r)).
Proof.
  intro Hc. unfold g_receive. destruct (r_cmds r) as [|c0 cs] eqn:Ec; [exact Hc|].
  destruct (existsb is_invalid (c0 :: cs)); [exact Hc|].
  destruct (has_dup (map c_name (c0 :: cs))); [exact Hc|].
  set (need := existsb (fun c => negb (is_delete c)) (c0 :: cs)).
  assert (Hc1 : closed (if need then match r_pack r with Some l => add_objs s l | None => s end else s)).
  { destruct need; [|exact Hc]. destruct (r_pack r); [apply add_objs_closed|]; exact Hc. }
  destruct (negb (r_report r)); [exact Hc1|].
  destruct (negb (negb need || match r_pack r with Some _ => true | None => false end)); [exact Hc1|].
  destruct (r_reject r); [exact Hc1|].
  cbn [o_store]. apply fold_update_closed. exact Hc1.
Qed.

(* ------------------------------------------------------------ the report *)
(* the outcome of every command, in command order *)
Fixpoint outcomes (s : store) (cmds : list cmd) : list (N * bool) :=
  match cmds with
  | [] => []
  | c :: r =>
    match g_apply s c with
    | Some s' => (c_name c, true) :: outcomes s' r
    | None => (c_name c, false) :: outcomes s r
    end
  end.

Fixpoint final_store (s : store) (cmds : list cmd) : store :=
  match cmds with
  | [] => s
  | c :: r => match g_apply s c with Some s' => final_store s' r | None => final_store s r end
  end.

Definition status_of (l : list (N * bool)) (st : statuses) : statuses :=
  fold_left (fun m p => fm_set (fst p) (snd p) m) l st.

Lemma fold_update_spec cmds : forall x,
  forallb (fun c => negb (is_invalid c)) cmds = true ->
  u_store (fold_left g_update1 cmds x) = final_store (u_store x) cmds
  /\ u_status (fold_left g_update1 cmds x) = status_of (outcomes (u_store x) cmds) (u_status x)
  /\ u_failed (fold_left g_update1 cmds x) = u_failed x || existsb (fun p => negb (snd p)) (outcomes (u_store x) cmds).
Proof.
  induction cmds as [|c r IH]; intros x Hv.
  - cbn. rewrite orb_false_r. repeat split; reflexivity.
  - cbn [forallb] in Hv. apply andb_true_iff in Hv as [Hc Hr]. apply negb_true_iff in Hc.
    cbn [fold_left outcomes final_store]. unfold g_update1 at 2 4 6. rewrite Hc.
    destruct (g_apply (u_store x) c) as [s'|] eqn:E.
    + destruct (IH (u_done x s' (c_name c)) Hr) as (H1 & H2 & H3).
      cbn [u_done u_store u_status u_failed] in *. rewrite H1, H2, H3.
      cbn [status_of fold_left existsb fst snd negb orb]. repeat split; reflexivity.
    + destruct (IH (u_fail x (c_name c)) Hr) as (H1 & H2 & H3).
      cbn [u_fail u_store u_status u_failed] in *. rewrite H1, H2, H3.
      cbn [status_of fold_left existsb fst snd negb orb]. rewrite orb_true_r. repeat split; reflexivity.
Qed.

Lemma outcomes_names s cmds : map fst (outcomes s cmds) = map c_name cmds.
Proof.
  revert s. induction cmds as [|c r IH]; intro s; [reflexivity|].
  cbn [outcomes map]. destruct (g_apply s c); cbn [map fst]; rewrite IH; reflexivity.
Qed.

Lemma has_dup_NoDup l : has_dup l = false -> NoDup l.
Proof.
  induction l as [|x r IH]; intro H; [constructor|].
  cbn [has_dup] in H. apply orb_false_iff in H as [H1 H2].
  constructor; [|apply IH; exact H2]. intro Hin. apply nmem_In in Hin. congruence.
Qed.

(* with distinct names, the status map holds exactly the listed outcomes *)
Lemma status_of_get l : forall st k,
  NoDup (map fst l) ->
  fm_get k (status_of l st) =
  match find (fun p => fst p =? k) l with Some p => Some (snd p) | None => fm_get k st end.
Proof.
  unfold status_of. induction l as [|[n b] r IH]; intros st k Hnd; [reflexivity|].
  cbn [fold_left map fst snd find] in *. inversion Hnd as [|? ? Hnotin Hnd']; subst.
  rewrite IH by exact Hnd'. destruct (n =? k) eqn:E.
  - apply N.eqb_eq in E; subst n.
    destruct (find (fun p => fst p =? k) r) as [p|] eqn:Ef.
    + apply find_some in Ef as [Hin Hk]. apply N.eqb_eq in Hk. exfalso. apply Hnotin.
      apply in_map_iff. exists p. split; assumption.
    + rewrite fm_get_set, N.eqb_refl. reflexivity.
  - destruct (find (fun p => fst p =? k) r); [reflexivity|].
    rewrite fm_get_set, N.eqb_sym, E. reflexivity.
Qed.

Lemma report_exact l k b :
  NoDup (map fst l) -> (fm_get k (status_of l []) = Some b <-> In (k, b) l).
Proof.
  intro Hnd. rewrite status_of_get by exact Hnd. cbn [fm_get]. split.
  - destruct (find (fun p => fst p =? k) l) as [[n c]|] eqn:Ef; [|discriminate].
    apply find_some in Ef as [Hin Hk]. cbn [fst] in Hk. apply N.eqb_eq in Hk; subst n.
    cbn [snd]. intro E; injection E as <-. exact Hin.
  - intro Hin. destruct (find (fun p => fst p =? k) l) as [[n c]|] eqn:Ef.
    + apply find_some in Ef as [Hin' Hk]. cbn [fst] in Hk. apply N.eqb_eq in Hk; subst n. cbn [snd].
      (* two entries with the same name are the same entry *)
      f_equal. clear - Hnd Hin Hin'. induction l as [|[n d] r IH]; [destruct Hin|].
      cbn [map fst] in Hnd. inversion Hnd as [|? ? Hnotin Hnd']; subst.
      destruct Hin as [E|Hin]; destruct Hin' as [E'|Hin'].
      * congruence.
      * injection E as -> ->. exfalso. apply Hnotin. apply in_map_iff. exists (k, c). split; [reflexivity|exact Hin'].
      * injection E' as -> ->. exfalso. apply Hnotin. apply in_map_iff. exists (k, b). split; [reflexivity|exact Hin].
      * apply IH; assumption.
    + exfalso. eapply find_none in Ef; [|exact Hin]. cbn [fst] in Ef. rewrite N.eqb_refl in Ef. discriminate.
Qed.

(* ------------------------------------------------------------ whole requests *)
Definition is_nil_cmds (l : list cmd) : bool := match l with [] => true | _ => false end.
Definition need_pack (r : request) : bool := existsb (fun c => negb (is_delete c)) (r_cmds r).

(* the store after the packfile (if one is needed) has been unpacked *)
Definition unpacked (s : store) (r : request) : store :=
  if need_pack r then match r_pack r with Some l => add_objs s l | None => s end else s.

(* the request reaches updateReferences *)
Definition accepted (r : request) : bool :=
  negb (is_nil_cmds (r_cmds r))
  && negb (existsb is_invalid (r_cmds r))
  && negb (has_dup (map c_name (r_cmds r)))
  && r_report r
  && (negb (need_pack r) || match r_pack r with Some _ => true | None => false end)
  && negb (r_reject r).

Lemma receive_accepted s r :
  accepted r = true ->
  g_receive s r =
  let x := g_update (unpacked s r) (r_cmds r) in
  mkOutcome (negb (u_failed x)) (Some (negb (u_failed x), u_status x))
            (Some (filter (status_ok (u_status x)) (r_cmds r))) (u_store x).
Proof.
  unfold accepted, g_receive, unpacked, need_pack, is_nil_cmds. rewrite !andb_true_iff.
  intros [[[[[H1 H2] H3] H4] H5] H6].
  destruct (r_cmds r) as [|c0 cs] eqn:Ec; [discriminate|].
  apply negb_true_iff in H2, H3, H6. rewrite H2, H3, H4, H6. cbn [negb].
  rewrite H5. cbn [negb]. reflexivity.
Qed.

Lemma receive_not_accepted_refs s r :
  accepted r = false -> s_refs (o_store (g_receive s r)) = s_refs s.
Proof.
  unfold accepted, g_receive, need_pack, is_nil_cmds. intro H.
  destruct (r_cmds r) as [|c0 cs] eqn:Ec; [reflexivity|]. cbn [negb andb] in H.
  destruct (existsb is_invalid (c0 :: cs)); [reflexivity|].
  destruct (has_dup (map c_name (c0 :: cs))); [reflexivity|]. cbn [negb andb] in H.
  assert (Hs : forall b : bool, s_refs (if b then match r_pack r with Some l => add_objs s l | None => s end else s) = s_refs s).
  { intros [|]; [destruct (r_pack r)|]; reflexivity. }
  destruct (r_report r); cbn [negb andb] in *; [|apply Hs].
  destruct (negb (existsb (fun c => negb (is_delete c)) (c0 :: cs)) || match r_pack r with Some _ => true | None => false end);
    cbn [negb andb] in *; [|apply Hs].
  destruct (r_reject r); [apply Hs|discriminate].
Qed.

Lemma accepted_valid r : accepted r = true -> forallb (fun c => negb (is_invalid c)) (r_cmds r) = true.
Proof.
  unfold accepted. rewrite !andb_true_iff. intros [[[[[_ H2] _] _] _] _].
  apply negb_true_iff in H2. clear - H2. induction (r_cmds r) as [|c l IH]; [reflexivity|].
  cbn [existsb forallb] in *. apply orb_false_iff in H2 as [H1 H2]. rewrite H1, IH by exact H2. reflexivity.
Qed.

Lemma accepted_nodup r : accepted r = true -> NoDup (map c_name (r_cmds r)).
Proof.
  unfold accepted. rewrite !andb_true_iff. intros [[[[[_ _] H3] _] _] _].
  apply negb_true_iff in H3. apply has_dup_NoDup; exact H3.
Qed.

Lemma receive_exact s r :
  accepted r = true ->
  let o := g_receive s r in
  let outs := outcomes (unpacked s r) (r_cmds r) in
  o_store o = final_store (unpacked s r) (r_cmds r)
  /\ o_ok o = forallb snd outs
  /\ (exists l, o_report o = Some (forallb snd outs, l)
                /\ forall k b, fm_get k l = Some b <-> In (k, b) outs)
  /\ (exists p, o_post o = Some p
                /\ forall c, In c p <-> In c (r_cmds r) /\ In (c_name c, true) outs).
Proof.
  intro Ha. cbn zeta. rewrite (receive_accepted s r Ha). cbn zeta. unfold g_update.
  destruct (fold_update_spec (r_cmds r) (mkU3 (unpacked s r) [] false) (accepted_valid r Ha)) as (H1 & H2 & H3).
  cbn [u_store u_status u_failed orb] in H1, H2, H3.
  cbn [o_store o_ok o_report o_post]. rewrite H1, H2, H3.
  pose proof (accepted_nodup r Ha) as Hnd. rewrite <- (outcomes_names (unpacked s r)) in Hnd.
  assert (Hall : forall l : list (N * bool), negb (existsb (fun p => negb (snd p)) l) = forallb snd l).
  { induction l as [|[a b] l IH]; [reflexivity|]. cbn [existsb forallb snd]. rewrite negb_orb, negb_involutive, IH. reflexivity. }
  rewrite Hall. split; [reflexivity|]. split; [reflexivity|]. split.
  - eexists. split; [reflexivity|]. intros k b. apply report_exact; exact Hnd.
  - eexists. split; [reflexivity|]. intro c. rewrite filter_In. unfold status_ok.
    split; intros [Hin Hs]; (split; [exact Hin|]).
    + destruct (fm_get (c_name c) (status_of _ [])) as [[|]|] eqn:E; try discriminate.
      apply (report_exact _ _ _ Hnd); exact E.
    + apply (report_exact _ _ _ Hnd) in Hs. rewrite Hs. reflexivity.
Qed.

(* every command the loop applied was consistent when it was applied *)
Fixpoint consistent_run (s : store) (cmds : list cmd) : Prop :=
  match cmds with
  | [] => True
  | c :: r =>
    match g_apply s c with
    | Some s' =>
      old_matches (fm_get (c_name c) (s_refs s)) (c_old c) = true
      /\ new_present s (c_new c) = true
      /\ s' = match c_new c with Some h => set_ref s (c_name c) h | None => del_ref s (c_name c) end
      /\ consistent_run s' r
    | None => consistent_run s r
    end
  end.

Lemma run_consistent cmds : forall s, consistent_run s cmds.
Proof.
  induction cmds as [|c r IH]; intro s; [exact I|]. cbn [consistent_run].
  destruct (g_apply s c) as [s'|] eqn:E; [|apply IH].
  split; [eapply g_apply_old; exact E|]. split; [eapply g_apply_new; exact E|].
  split; [apply g_apply_effect; exact E|apply IH].
Qed.

(* ------------------------------------------------------------ symbolic references *)
(* git's notion of "the current value": follow symbolic references (fuel bounds
   the chain; a loop resolves to nothing).  Result: the referent and its value *)
Fixpoint resolve (fuel : nat) (s : store) (n : N) : option (N * option N) :=
  match fuel with
  | O => None
  | S f =>
    match fm_get n (s_refs s) with
    | None => Some (n, None)
    | Some (RHash h) => Some (n, Some h)
    | Some (RSym t) => resolve f s t
    end
  end.

(* git receive-pack's rule (validated against the git binary on every run): the
   old value is compared with the RESOLVED value and the update goes to the referent *)
Definition git_apply (fuel : nat) (s : store) (c : cmd) : option store :=
  match resolve fuel s (c_name c) with
  | None => None
  | Some (tgt, cur) =>
    if optN_eqb cur (c_old c) && new_present s (c_new c)
    then match c_old c, c_new c with
         | None, None => None
         | _, Some h => Some (set_ref s tgt h)
         | _, None => Some (del_ref s tgt)
         end
    else None
  end.

Definition is_symbolic (s : store) (n : N) : bool :=
  match fm_get n (s_refs s) with Some (RSym _) => true | _ => false end.

(* go-git never applies a command that names a symbolic reference *)
Lemma g_apply_symbolic s c : is_symbolic s (c_name c) = true -> g_apply s c = None.
Proof.
  unfold is_symbolic, g_apply. destruct (fm_get (c_name c) (s_refs s)) as [[h|t]|]; try discriminate. intros _.
  destruct c as [n [o|] [h|]]; cbn [c_old c_new rv_hash optN_eqb negb]; try reflexivity.
  destruct (negb (fm_has h (s_objs s))); reflexivity.
Qed.

(* an applied command named a reference that itself holds (or, for a create,
   lacks) exactly the old value: its resolved value is the old value and it is
   its own referent *)
Lemma g_apply_resolved s c s' f :
  g_apply s c = Some s' -> resolve (S f) s (c_name c) = Some (c_name c, c_old c).
Proof.
  intro H. pose proof (g_apply_old s c s' H) as Ho. unfold old_matches in Ho. cbn [resolve].
  destruct (fm_get (c_name c) (s_refs s)) as [[h|t]|]; destruct (c_old c) as [o|]; try discriminate.
  - cbn [rv_hash optN_eqb] in Ho. apply N.eqb_eq in Ho. subst. reflexivity.
  - reflexivity.
Qed.

(* on references that are not symbolic go-git's decision and effect are git's *)
Lemma g_apply_git s c f :
  is_invalid c = false -> is_symbolic s (c_name c) = false -> g_apply s c = git_apply (S f) s c.
Proof.
  intros Hi Hs. rewrite (g_apply_spec s c Hi). unfold spec_apply, git_apply, old_matches, is_symbolic in *.
  cbn [resolve]. unfold is_invalid, action_of in Hi.
  destruct (fm_get (c_name c) (s_refs s)) as [[h|t]|]; try discriminate;
    destruct c as [n [o|] [w|]]; cbn [c_name c_old c_new rv_hash optN_eqb andb] in *; try discriminate;
    try reflexivity;
    try (destruct (h =? o); cbn [andb]; try reflexivity; destruct (new_present s (Some w)); reflexivity);
    try (destruct (new_present s (Some w)); reflexivity).
Qed.

(* whatever git would refuse, go-git refuses: go-git's accepted commands are a
   subset of git's *)
Lemma g_apply_subset_git s c s' f :
  is_invalid c = false -> g_apply s c = Some s' -> git_apply (S f) s c = Some s'.
Proof.
  intros Hi H. destruct (is_symbolic s (c_name c)) eqn:Hs.
  - rewrite (g_apply_symbolic s c Hs) in H. discriminate.
  - rewrite <- (g_apply_git s c f Hi Hs). exact H.
Qed.
