(* Proofs/C48Opts.v — SetOption / AddOption / RemoveOption on format/config
   Options: keys are matched case-insensitively; setting a key leaves exactly
   the new value(s) under every spelling of the key and touches nothing else. *)
From Coq Require Import List NArith Bool Lia.
From GoGit Require Import Base.Out Model.ConfigOpts.
Import ListNotations.
Local Open Scope N_scope.

Lemma bytes_eqb_eq a b : bytes_eqb a b = true <-> a = b.
Proof.
  revert b. induction a as [|x a IH]; intros [|y b]; cbn; split; intros H; try reflexivity; try discriminate.
  - apply andb_true_iff in H. destruct H as [H1 H2]. apply N.eqb_eq in H1. apply IH in H2. now subst.
  - inversion H; subst. rewrite N.eqb_refl. cbn. now apply IH.
Qed.

Lemma key_eq_refl a : key_eq a a = true.
Proof. unfold key_eq. now apply bytes_eqb_eq. Qed.
Lemma key_eq_sym a b : key_eq a b = key_eq b a.
Proof.
  unfold key_eq. destruct (bytes_eqb (map lower a) (map lower b)) eqn:E.
  - apply bytes_eqb_eq in E. rewrite E. symmetry. now apply bytes_eqb_eq.
  - destruct (bytes_eqb (map lower b) (map lower a)) eqn:E2; [|reflexivity].
    apply bytes_eqb_eq in E2. rewrite E2 in E. assert (bytes_eqb (map lower a) (map lower a) = true) by now apply bytes_eqb_eq.
    congruence.
Qed.
Lemma key_eq_trans_l a b c : key_eq a b = true -> key_eq c a = key_eq c b.
Proof. unfold key_eq. intros H. apply bytes_eqb_eq in H. now rewrite H. Qed.

Lemma mem_In v l : mem v l = true <-> In v l.
Proof.
  unfold mem. rewrite existsb_exists. split.
  - intros [x [Hx E]]. apply bytes_eqb_eq in E. now subst.
  - intros H. exists v. split; [assumption|now apply bytes_eqb_eq].
Qed.

Definition is_key (key : bytes) (o : opt) : bool := key_eq (fst o) key.

(* ---------------- the first loop ---------------- *)
Lemma ws_scan_spec key values : forall os res added, ws_scan os key values = (res, added) ->
  filter (fun o => negb (is_key key o)) res = filter (fun o => negb (is_key key o)) os /\
  (forall o, In o res -> is_key key o = true -> In (snd o) values /\ In (snd o) added) /\
  (forall v, In v added -> exists o, In o res /\ is_key key o = true /\ snd o = v) /\
  (forall o, In o res -> In o os) /\
  (forall o, In o os -> is_key key o = true -> In (snd o) values -> In o res).
Proof.
  induction os as [|o r IH]; intros res added H; cbn [ws_scan] in H.
  - inversion H; subst. split; [|split; [|split; [|split]]]; intros; try contradiction; try reflexivity.
  - destruct (ws_scan r key values) as [res0 added0] eqn:E.
    destruct (IH _ _ eq_refl) as (A & B & C & D & F).
    unfold is_key in *. cbn [filter]. destruct (negb (key_eq (fst o) key)) eqn:Ek.
    + inversion H; subst. cbn [filter]. unfold is_key. rewrite Ek. split; [|split; [|split; [|split]]].
      * now rewrite A.
      * intros q [<-|Hq] Hk; [apply negb_true_iff in Ek; congruence|now apply B].
      * intros v Hv. destruct (C _ Hv) as (q & Hq & Hk & Hs). exists q. split; [now right|tauto].
      * intros q [<-|Hq]; [now left|right; now apply D].
      * intros q [<-|Hq] Hk Hv; [now left|right; now apply F].
    + destruct (mem (snd o) values) eqn:Em.
      * inversion H; subst. cbn [filter]. unfold is_key. rewrite Ek. apply mem_In in Em. split; [|split; [|split; [|split]]].
        -- exact A.
        -- intros q [<-|Hq] Hk; [split; [assumption|now left]|].
           destruct (B _ Hq Hk). split; [assumption|now right].
        -- intros v [<-|Hv].
           ++ exists o. split; [now left|]. split; [now apply negb_false_iff in Ek|reflexivity].
           ++ destruct (C _ Hv) as (q & Hq & Hk & Hs). exists q. split; [now right|tauto].
        -- intros q [<-|Hq]; [now left|right; now apply D].
        -- intros q [<-|Hq] Hk Hv; [now left|right; now apply F].
      * inversion H; subst. split; [|split; [|split; [|split]]].
        -- exact A.
        -- exact B.
        -- exact C.
        -- intros q Hq. right. now apply D.
        -- intros q [<-|Hq] Hk Hv; [|now apply F].
           apply mem_In in Hv. congruence.
Qed.

(* ---------------- SetOption ---------------- *)

(* nothing under another key is touched, order included *)
Theorem set_preserves_others os key values :
  filter (fun o => negb (is_key key o)) (with_setted os key values) =
  filter (fun o => negb (is_key key o)) os.
Proof.
  unfold with_setted. destruct (ws_scan os key values) as [res added] eqn:E.
  destruct (ws_scan_spec _ _ _ _ _ E) as (A & _).
  rewrite filter_app, A.
  assert (H : filter (fun o => negb (is_key key o))
                (map (fun v => (key, v)) (filter (fun v => negb (mem v added)) values)) = []).
  { induction (filter (fun v => negb (mem v added)) values) as [|v l IH]; [reflexivity|].
    cbn [map filter]. unfold is_key at 1. cbn [fst]. rewrite key_eq_refl. cbn [negb]. exact IH. }
  now rewrite H, app_nil_r.
Qed.

(* every option left under any spelling of the key carries one of the new values *)
Theorem set_only_new os key values o :
  In o (with_setted os key values) -> is_key key o = true -> In (snd o) values.
Proof.
  unfold with_setted. destruct (ws_scan os key values) as [res added] eqn:E.
  destruct (ws_scan_spec _ _ _ _ _ E) as (_ & B & _).
  intros Hin Hk. apply in_app_or in Hin. destruct Hin as [Hin|Hin].
  - now apply B.
  - apply in_map_iff in Hin. destruct Hin as [v [<- Hv]]. apply filter_In in Hv. tauto.
Qed.

(* and every new value is there *)
Theorem set_all_new os key values v :
  In v values -> exists o, In o (with_setted os key values) /\ is_key key o = true /\ snd o = v.
Proof.
  unfold with_setted. destruct (ws_scan os key values) as [res added] eqn:E.
  destruct (ws_scan_spec _ _ _ _ _ E) as (_ & _ & C & _).
  intros Hv. destruct (mem v added) eqn:Em.
  - apply mem_In in Em. destruct (C _ Em) as (o & Ho & Hk & Hs).
    exists o. split; [apply in_or_app; now left|tauto].
  - exists (key, v). split; [|split; [unfold is_key; apply key_eq_refl|reflexivity]].
    apply in_or_app. right. apply in_map_iff. exists v. split; [reflexivity|].
    apply filter_In. split; [assumption|now rewrite Em].
Qed.

(* Get through any spelling *)
Lemma get_rev_all ro key v :
  (exists o, In o ro /\ key_eq (fst o) key = true) ->
  (forall o, In o ro -> key_eq (fst o) key = true -> snd o = v) ->
  opt_get_rev ro key = v.
Proof.
  induction ro as [|o r IH]; intros [q [Hq Hk]] Hall; [destruct Hq|].
  cbn. destruct (key_eq (fst o) key) eqn:E.
  - apply Hall; [now left|assumption].
  - apply IH.
    + destruct Hq as [<-|Hq]; [congruence|eauto].
    + intros p Hp. apply Hall. now right.
Qed.

(* set-then-get: after SetOption(key, v), reading the key under any spelling
   returns v, every option under any spelling of the key has value v (no stale
   case-variant survives), and GetAll returns only v *)
Theorem set_then_get os key key' v :
  key_eq key' key = true ->
  opt_get (with_setted os key [v]) key' = v /\
  (forall o, In o (with_setted os key [v]) -> key_eq (fst o) key' = true -> snd o = v) /\
  (forall x, In x (opt_get_all (with_setted os key [v]) key') -> x = v) /\
  opt_get_all (with_setted os key [v]) key' <> [].
Proof.
  intros Hk.
  assert (Hall : forall o, In o (with_setted os key [v]) -> key_eq (fst o) key' = true -> snd o = v).
  { intros o Ho Hko. rewrite (key_eq_trans_l _ _ _ Hk) in Hko.
    destruct (set_only_new _ _ _ _ Ho Hko) as [H|[]]. now symmetry. }
  destruct (set_all_new os key [v] v (or_introl eq_refl)) as (o & Ho & Hko & Hs).
  unfold is_key in Hko. rewrite <- (key_eq_trans_l _ _ _ Hk) in Hko.
  repeat split.
  - unfold opt_get. apply get_rev_all.
    + exists o. split; [now apply -> in_rev|assumption].
    + intros p Hp. apply Hall. now apply in_rev.
  - exact Hall.
  - intros x Hx. unfold opt_get_all in Hx. apply in_map_iff in Hx. destruct Hx as [p [<- Hp]].
    apply filter_In in Hp. destruct Hp. now apply Hall.
  - unfold opt_get_all. intros Hnil.
    assert (In (snd o) (map snd (filter (fun o0 => key_eq (fst o0) key') (with_setted os key [v])))).
    { apply in_map. apply filter_In. tauto. }
    rewrite Hnil in H. destruct H.
Qed.

(* several values (remote url, fetch, insteadOf): exactly the new set *)
Theorem set_get_all os key key' values x :
  key_eq key' key = true ->
  (In x (opt_get_all (with_setted os key values) key') <-> In x values).
Proof.
  intros Hk. unfold opt_get_all. rewrite in_map_iff. split.
  - intros [o [<- Ho]]. apply filter_In in Ho. destruct Ho as [Ho Hko].
    rewrite (key_eq_trans_l _ _ _ Hk) in Hko. eapply set_only_new; eassumption.
  - intros Hx. destruct (set_all_new os key values x Hx) as (o & Ho & Hko & Hs).
    exists o. split; [assumption|]. apply filter_In. split; [assumption|].
    unfold is_key in Hko. now rewrite (key_eq_trans_l _ _ _ Hk).
Qed.

(* ---------------- RemoveOption / AddOption ---------------- *)
Theorem remove_all_spellings os key key' :
  key_eq key' key = true ->
  opt_get_all (without_option os key) key' = [] /\ has (without_option os key) key' = false /\
  filter (fun o => negb (is_key key o)) (without_option os key) = filter (fun o => negb (is_key key o)) os.
Proof.
  intros Hk. unfold opt_get_all, has, without_option.
  assert (H : forall o, In o (filter (fun o => negb (key_eq (fst o) key)) os) -> key_eq (fst o) key' = false).
  { intros o Ho. apply filter_In in Ho. destruct Ho as [_ Ho]. rewrite (key_eq_trans_l _ _ _ Hk).
    now apply negb_true_iff in Ho. }
  repeat split.
  - induction os as [|o r IH]; [reflexivity|]. cbn [filter] in *.
    destruct (negb (key_eq (fst o) key)) eqn:E.
    + cbn [filter]. rewrite (H o (or_introl eq_refl)). apply IH. intros q Hq. apply H. now right.
    + apply IH. exact H.
  - destruct (existsb _ _) eqn:E; [|reflexivity]. apply existsb_exists in E. destruct E as [o [Ho Hko]].
    rewrite (H _ Ho) in Hko. discriminate.
  - unfold is_key. clear H. induction os as [|o r IH]; [reflexivity|]. cbn [filter].
    destruct (negb (key_eq (fst o) key)) eqn:E; cbn [filter]; rewrite ?E; [f_equal|]; exact IH.
Qed.

Theorem add_then_get os key key' v : key_eq key' key = true -> opt_get (with_added os key v) key' = v.
Proof.
  intros Hk. unfold opt_get, with_added. rewrite rev_app_distr. cbn [rev app opt_get_rev fst snd].
  now rewrite key_eq_sym, Hk.
Qed.
