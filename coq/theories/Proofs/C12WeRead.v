(* Proofs/C12WeRead.v — go-git's decoder (G = Model/IndexFile.v) reads what git writes
   (S = Spec/GitIndex.git_encode): entries of versions 2, 3, 4 and the extensions. *)
From Coq Require Import List NArith ZArith Arith Lia ZifyBool ZifyNat ZifyN Bool.
From GoGit Require Import Base.Out Model.IndexFile Spec.GitIndex Proofs.C12 Proofs.C12Size Proofs.C12Git Proofs.C12Digits
  Proofs.C12WeReadExt.
Import ListNotations.
Local Open Scope N_scope.

Ltac Zify.zify_post_hook ::= Z.div_mod_to_equations.

(* ---- what go-git shows of an entry git holds ---- *)
Definition entry_of_git (g : gentry) : entry :=
  mkEntry (ge_name g) (ge_stage g) (mk_time (ge_sec g) (ge_nsec g)) (mk_time (ge_msec g) (ge_mnsec g))
          (ge_dev g) (ge_ino g) (ge_mode g) (ge_uid g) (ge_gid g) (ge_size g) (ge_oid g) (ge_skip g) (ge_ita g).

Definition wf_gentry (hs : nat) (g : gentry) : bool :=
  nonul (ge_name g) && (ge_stage g <? 4) &&
  u32ok (ge_sec g) && u32ok (ge_nsec g) && u32ok (ge_msec g) && u32ok (ge_mnsec g) &&
  u32ok (ge_dev g) && u32ok (ge_ino g) && u32ok (ge_mode g) && u32ok (ge_uid g) && u32ok (ge_gid g) && u32ok (ge_size g) &&
  (List.length (ge_oid g) =? hs)%nat && (N.of_nat (List.length (ge_name g)) <? 4294967296).

Lemma flags_fields_v s m (ext valid : bool) : s < 4 -> m < 4096 ->
  let fw := s * 4096 + (if ext then 16384 else 0) + (if valid then 32768 else 0) + m in
  (fw / 4096) mod 4 = s /\ fw mod 4096 = m /\ N.testbit fw 14 = ext /\ fw < 65536.
Proof. intros Hs Hm. destruct ext, valid; cbv zeta; rewrite N.testbit_eqb; change (2 ^ 14) with 16384; repeat split; lia. Qed.

Lemma pad_git_eq s len : ((s + len + 8) / 8 * 8 - (s + len) = 8 - (s + len) mod 8)%nat.
Proof.
  set (w := (s + len)%nat).
  pose proof (Nat.div_mod w 8) as Hd. pose proof (Nat.mod_upper_bound w 8) as Hu.
  assert (E : ((w + 8) / 8 = S (w / 8))%nat).
  { replace (w + 8)%nat with (w + 1 * 8)%nat by lia. rewrite Nat.div_add by lia. lia. }
  rewrite E. lia.
Qed.

Lemma g_common_eq : forall p name, nonul name = true -> g_common p name = common_prefix_len p name.
Proof.
  induction p as [|x p IH]; intros [|y name] Hn; cbn [g_common common_prefix_len]; try reflexivity.
  cbn in Hn. apply andb_true_iff in Hn as [Hy Hn]. apply negb_true_iff in Hy. rewrite Hy.
  destruct (x =? y); [f_equal; now apply IH|reflexivity].
Qed.

Ltac Zify.zify_post_hook ::= idtac.

Lemma go_reads_git_entry hs ver last e rest :
  wf_gentry hs e = true -> ver = 2 \/ ver = 3 \/ ver = 4 -> last_ok last ->
  read_entry hs ver last (g_write_entry hs ver (match last with Some p => p | None => [] end) e ++ rest) = Ok (entry_of_git e, rest).
Proof.
  intros Hw Hver Hlast. unfold wf_gentry in Hw.
  repeat (apply andb_true_iff in Hw; let H := fresh "W" in destruct Hw as [Hw H]).
  rename Hw into Wname.
  unfold u32ok in *.
  apply N.ltb_lt in W, W1, W2, W3, W4, W5, W6, W7, W8, W9, W10, W11. apply Nat.eqb_eq in W0.
  unfold g_write_entry.
  change (if N.of_nat (List.length (ge_name e)) <? 4095 then N.of_nat (List.length (ge_name e)) else 4095)
    with (name_len_field (ge_name e)).
  set (m := name_len_field (ge_name e)).
  assert (Hm : m < 4096) by (unfold m, name_len_field; destruct (N.of_nat (List.length (ge_name e)) <? 4095) eqn:E; [apply N.ltb_lt in E|]; lia).
  set (ext := (ge_ita e || ge_skip e)%bool).
  set (x := (if ge_ita e then 8192 else 0) + (if ge_skip e then 16384 else 0)).
  destruct (flags_fields_v (ge_stage e) m ext (ge_valid e) W11 Hm) as (Hstage & Hlen & Hbit & Hfw).
  set (fw := ge_stage e * 4096 + (if ext then 16384 else 0) + (if ge_valid e then 32768 else 0) + m) in *.
  destruct (ext_bits (ge_ita e) (ge_skip e)) as (X1 & X2 & X3).
  change ((if ge_ita e then intentToAddMask else 0) + (if ge_skip e then skipWorkTreeMask else 0)) with x in X1, X2, X3.
  set (f := mkF (ge_sec e) (ge_nsec e) (ge_msec e) (ge_mnsec e) (ge_dev e) (ge_ino e) (ge_mode e) (ge_uid e) (ge_gid e) (ge_size e) (ge_oid e) fw).
  set (extbytes := if ext then u16 x else []).
  assert (Hfixed : forall tail,
    (u32 (ge_sec e) ++ u32 (ge_nsec e) ++ u32 (ge_msec e) ++ u32 (ge_mnsec e) ++ u32 (ge_dev e) ++ u32 (ge_ino e) ++ u32 (ge_mode e) ++
     u32 (ge_uid e) ++ u32 (ge_gid e) ++ u32 (ge_size e) ++ ge_oid e ++ u16 fw ++ (if ext then u16 x else [])) ++ tail
    = enc_fixed f ++ extbytes ++ tail).
  { intros tail. unfold enc_fixed, f, extbytes. cbn [f_sec f_nsec f_msec f_mnsec f_dev f_ino f_mode f_uid f_gid f_size f_hash f_flags].
    repeat rewrite <- app_assoc. reflexivity. }
  assert (Hread : forall tail, read_fixed hs (enc_fixed f ++ tail) = Some (f, tail)).
  { intros tail. apply read_fixed_enc; assumption. }
  assert (Hflagsdec : forall tail,
     (if ext then match get_u16 (extbytes ++ tail) with None => Err EEof | Some (x0, b') => Ok (N.testbit x0 13, N.testbit x0 14, b') end
      else Ok (false, false, extbytes ++ tail)) = Ok (ge_ita e, ge_skip e, tail)).
  { intros tail. unfold extbytes. destruct ext eqn:Eext.
    - rewrite get_u16_u16 by exact X3. rewrite X1, X2. reflexivity.
    - cbn [app]. unfold ext in Eext. apply orb_false_iff in Eext as [-> ->]. reflexivity. }
  assert (Hentry : forall name, name = ge_name e ->
     mkEntry name (ge_stage e) (mk_time (ge_sec e) (ge_nsec e)) (mk_time (ge_msec e) (ge_mnsec e)) (ge_dev e) (ge_ino e) (ge_mode e)
             (ge_uid e) (ge_gid e) (ge_size e) (ge_oid e) (ge_skip e) (ge_ita e) = entry_of_git e).
  { intros name ->. reflexivity. }
  clear X1 X2 X3.
  destruct Hver as [-> | [-> | ->]]; cbn [N.eqb Pos.eqb];
    rewrite <- (app_assoc _ _ rest); rewrite Hfixed; unfold read_entry; rewrite Hread; cbn [f_flags f];
    rewrite Hbit, Hflagsdec, Hstage; cbn [N.eqb Pos.eqb orb]; repeat rewrite <- app_assoc.
  - rewrite pad_git_eq.
    replace (40 + hs + 2 + (if ext then 2 else 0))%nat with (42 + hs + (if ext then 2 else 0))%nat by lia.
    rewrite read_name23_ok; [|exact Wname|rewrite Hlen; reflexivity].
    cbn [f_sec f_nsec f_msec f_mnsec f_dev f_ino f_mode f_uid f_gid f_size f_hash]. now rewrite Hentry.
  - rewrite pad_git_eq.
    replace (40 + hs + 2 + (if ext then 2 else 0))%nat with (42 + hs + (if ext then 2 else 0))%nat by lia.
    rewrite read_name23_ok; [|exact Wname|rewrite Hlen; reflexivity].
    cbn [f_sec f_nsec f_msec f_mnsec f_dev f_ino f_mode f_uid f_gid f_size f_hash]. now rewrite Hentry.
  - rewrite g_encode_varint_eq.
    assert (Hn4 : read_name4 last
              (varint (N.of_nat (List.length (match last with Some p => p | None => [] end) -
                                 g_common (match last with Some p => p | None => [] end) (ge_name e))) ++
               skipn (g_common (match last with Some p => p | None => [] end) (ge_name e)) (ge_name e) ++ [0] ++ rest)
            = Ok (ge_name e, rest)).
    { pose proof (read_name4_ok last (ge_name e) rest Wname Hlast) as R. cbv zeta in R.
      destruct last as [ln|].
      - rewrite g_common_eq by exact Wname. exact R.
      - cbn [g_common List.length Nat.sub skipn]. exact R. }
    match goal with |- match ?X with Ok _ => _ | Err _ => _ end = _ => replace X with (Ok (A:=bytes * bytes) (ge_name e, rest)) by (symmetry; exact Hn4) end.
    cbn [f_sec f_nsec f_msec f_mnsec f_dev f_ino f_mode f_uid f_gid f_size f_hash]. now rewrite Hentry.
Qed.

Ltac Zify.zify_post_hook ::= Z.div_mod_to_equations.

Lemma wf_gentry_name_len hs e : wf_gentry hs e = true -> N.of_nat (List.length (ge_name e)) < 4294967296.
Proof. unfold wf_gentry. intros Hw. apply andb_true_iff in Hw as [_ Hw]. now apply N.ltb_lt. Qed.

Lemma go_reads_git_entries hs ver : ver = 2 \/ ver = 3 \/ ver = 4 ->
  forall l last rest acc fuel,
  forallb (wf_gentry hs) l = true -> last_ok last -> (List.length l < fuel)%nat ->
  read_entries hs fuel ver (N.of_nat (List.length l)) last
    (g_write_entries hs ver (match last with Some p => p | None => [] end) l ++ rest) acc
  = Ok (rev acc ++ map entry_of_git l, rest).
Proof.
  intros Hver. induction l as [|e l IH]; intros last rest acc fuel Hw Hlast Hfuel.
  - cbn [g_write_entries List.length app map].
    destruct fuel; cbn [read_entries N.of_nat N.eqb]; now rewrite app_nil_r.
  - cbn [forallb] in Hw. apply andb_true_iff in Hw as [He Hl].
    destruct fuel as [|fuel]; [cbn in Hfuel; lia|].
    cbn [read_entries List.length g_write_entries].
    replace (N.of_nat (S (List.length l)) =? 0) with false by (symmetry; apply N.eqb_neq; lia).
    rewrite <- app_assoc. rewrite go_reads_git_entry by assumption.
    replace (N.of_nat (S (List.length l)) - 1) with (N.of_nat (List.length l)) by lia.
    change (e_name (entry_of_git e)) with (ge_name e).
    rewrite (IH (Some (ge_name e)) rest (entry_of_git e :: acc) fuel Hl).
    + cbn [rev map]. rewrite <- app_assoc. reflexivity.
    + cbn. now apply wf_gentry_name_len with hs.
    + cbn [List.length] in Hfuel. lia.
Qed.

Lemma g_write_entries_length hs ver : forall l prev, (List.length l <= List.length (g_write_entries hs ver prev l))%nat.
Proof.
  induction l as [|e l IH]; intros prev; cbn [g_write_entries List.length]; [lia|].
  rewrite app_length. specialize (IH (ge_name e)).
  assert (1 <= List.length (g_write_entry hs ver prev e))%nat; [|lia].
  unfold g_write_entry. destruct (ver =? 4); rewrite !app_length, u32_length; lia.
Qed.

(* ---- the extension loop ---- *)
Section Exts.
Variable hs : nat.
Variable H : bytes -> bytes.
Hypothesis hs_pos : (0 < hs)%nat.
Hypothesis hs_small : N.of_nat hs < 4294967000.
Hypothesis H_len : forall x, List.length (H x) = hs.

(* one step of readExtensions over a well-formed extension: signature, size, data *)
Definition ext_dispatch (f : nat) (skip : bool) (all sig data rest : bytes) (idx : index) : res index :=
  if bytes_eqb sig TREE then
    match read_tree_ext hs (S (List.length data)) data [] with
    | Err x => Err x
    | Ok t => read_extensions hs H f skip all rest (mkIndex (i_version idx) (i_entries idx) (Some t) (i_reuc idx) (i_eoie idx))
    end
  else if bytes_eqb sig REUC then
    match read_reuc_ext hs (S (List.length data)) data [] with
    | Err x => Err x
    | Ok r => read_extensions hs H f skip all rest (mkIndex (i_version idx) (i_entries idx) (i_cache idx) (Some r) (i_eoie idx))
    end
  else if bytes_eqb sig EOIE then
    match get_u32 data with None => Err EEof | Some (off, d1) =>
    match take hs d1 with None => Err EEof | Some (h, d2) =>
      read_extensions hs H f skip all rest (mkIndex (i_version idx) (i_entries idx) (i_cache idx) (i_reuc idx) (Some (off, h)))
    end end
  else
    match sig with
    | c :: _ => if (65 <=? c) && (c <=? 90) then read_extensions hs H f skip all rest idx else Err EUnknownExtension
    | [] => Err EEof
    end.

Lemma read_ext_step f skip all sig data rest idx :
  List.length sig = 4%nat -> N.of_nat (List.length data) < 4294967296 -> (hs <= List.length rest)%nat ->
  read_extensions hs H (S f) skip all (sig ++ u32 (N.of_nat (List.length data)) ++ data ++ rest) idx =
  ext_dispatch f skip all sig data rest idx.
Proof.
  intros Hsig Hdata Hrest. cbn [read_extensions].
  replace (List.length (sig ++ u32 (N.of_nat (List.length data)) ++ data ++ rest) <? 8 + hs)%nat with false.
  2:{ symmetry. apply Nat.ltb_ge. rewrite !app_length, u32_length. lia. }
  rewrite (take_app_n 4) by exact Hsig. rewrite get_u32_u32 by exact Hdata.
  replace (N.to_nat (N.min (N.of_nat (List.length data)) (N.of_nat (List.length (data ++ rest))))) with (List.length data).
  2:{ rewrite app_length. lia. }
  rewrite firstn_app, Nat.sub_diag, firstn_all, firstn_O, app_nil_r.
  rewrite skipn_app, Nat.sub_diag, skipn_all. cbn [skipn app].
  reflexivity.
Qed.

(* the extensions go-git understands or may skip, as git writes them *)
Inductive xitem := XT (t : ctree) | XR (l : list greuc) | XO (sig data : bytes).

Definition x_pair (x : xitem) : bytes * bytes :=
  match x with XT t => (gTREE, g_write_ct [] t) | XR l => (gREUC, g_write_reuc l) | XO s d => (s, d) end.

Definition x_apply (idx : index) (x : xitem) : index :=
  match x with
  | XT t => mkIndex (i_version idx) (i_entries idx) (Some (ct_flat [] t)) (i_reuc idx) (i_eoie idx)
  | XR l => mkIndex (i_version idx) (i_entries idx) (i_cache idx) (Some (map reuc_view l)) (i_eoie idx)
  | XO _ _ => idx
  end.

(* optional: first byte 'A'..'Z'; not one of the signatures go-git decodes *)
Definition opt_sig (s : bytes) : bool :=
  (List.length s =? 4)%nat && negb (bytes_eqb s TREE) && negb (bytes_eqb s REUC) && negb (bytes_eqb s EOIE) &&
  match s with c :: _ => (65 <=? c) && (c <=? 90) | [] => false end.

Definition x_wf (x : xitem) : bool :=
  (N.of_nat (List.length (snd (x_pair x))) <? 4294967296) &&
  match x with XT t => wf_ct hs t | XR l => forallb (wf_reuc hs) l | XO s _ => opt_sig s end.

Lemma x_step f skip all x rest idx : x_wf x = true -> (hs <= List.length rest)%nat ->
  read_extensions hs H (S f) skip all (g_ext_bytes (x_pair x) ++ rest) idx =
  read_extensions hs H f skip all rest (x_apply idx x).
Proof.
  intros Hw Hrest. unfold x_wf in Hw. apply andb_true_iff in Hw as [Hsz Hw]. apply N.ltb_lt in Hsz.
  unfold g_ext_bytes, g_ext_header. rewrite <- !app_assoc.
  destruct x as [t|l|s d]; cbn [x_pair fst snd] in *.
  - rewrite read_ext_step by (try reflexivity; assumption).
    unfold ext_dispatch. change (bytes_eqb gTREE TREE) with true. cbv iota.
    rewrite (tree_ext_whole hs hs_pos) by exact Hw. reflexivity.
  - rewrite read_ext_step by (try reflexivity; assumption).
    unfold ext_dispatch. change (bytes_eqb gREUC TREE) with false. change (bytes_eqb gREUC REUC) with true. cbv iota.
    rewrite (reuc_ext_whole hs hs_pos) by exact Hw. reflexivity.
  - unfold opt_sig in Hw.
    apply andb_true_iff in Hw as [Hw Hc]. apply andb_true_iff in Hw as [Hw He]. apply andb_true_iff in Hw as [Hw Hr].
    apply andb_true_iff in Hw as [Hl Ht]. apply Nat.eqb_eq in Hl. apply negb_true_iff in Ht, Hr, He.
    rewrite read_ext_step by assumption.
    unfold ext_dispatch. rewrite Ht, Hr, He.
    destruct s as [|c s']; [discriminate|]. rewrite Hc. reflexivity.
Qed.

Lemma x_bytes_length x : (1 <= List.length (g_ext_bytes (x_pair x)))%nat.
Proof. unfold g_ext_bytes, g_ext_header. rewrite !app_length, u32_length. lia. Qed.

Lemma xs_step : forall xs f skip all rest idx,
  forallb x_wf xs = true -> (hs <= List.length rest)%nat ->
  read_extensions hs H (List.length xs + f) skip all (flat_map (fun x => g_ext_bytes (x_pair x)) xs ++ rest) idx =
  read_extensions hs H f skip all rest (fold_left x_apply xs idx).
Proof.
  induction xs as [|x xs IH]; intros f skip all rest idx Hw Hrest; [reflexivity|].
  cbn [forallb] in Hw. apply andb_true_iff in Hw as [Hx Hxs].
  cbn [List.length plus flat_map fold_left]. rewrite <- app_assoc.
  rewrite x_step; [|exact Hx|rewrite app_length; lia].
  now apply IH.
Qed.

(* the EOIE extension as git writes it, then the trailer *)
Lemma eoie_step f skip all off h rest idx :
  off < 4294967296 -> List.length h = hs -> (hs <= List.length rest)%nat ->
  read_extensions hs H (S f) skip all (g_ext_bytes (gEOIE, u32 off ++ h) ++ rest) idx =
  read_extensions hs H f skip all rest (mkIndex (i_version idx) (i_entries idx) (i_cache idx) (i_reuc idx) (Some (off, h))).
Proof.
  intros Hoff Hh Hrest.
  assert (Hdl : N.of_nat (List.length (u32 off ++ h)) < 4294967296) by (rewrite app_length, u32_length; lia).
  remember (u32 off ++ h) as data eqn:Ed.
  unfold g_ext_bytes, g_ext_header. cbn [fst snd]. rewrite <- !app_assoc.
  rewrite read_ext_step; [|reflexivity|exact Hdl|exact Hrest].
  unfold ext_dispatch. change (bytes_eqb gEOIE TREE) with false. change (bytes_eqb gEOIE REUC) with false.
  change (bytes_eqb gEOIE EOIE) with true. cbv iota. subst data.
  rewrite get_u32_u32 by exact Hoff.
  rewrite <- (app_nil_r h) at 1. rewrite (take_app_n hs) by exact Hh. reflexivity.
Qed.

Lemma fit_id x : List.length x = hs -> fit hs x = x.
Proof. intros Hx. unfold fit. rewrite firstn_app, Hx, Nat.sub_diag, firstn_O, app_nil_r. rewrite <- Hx. apply firstn_all. Qed.

Lemma trailer_step fuel skip_r (skip_w : bool) body idx tr :
  tr = (if skip_w then zeros hs else H body) ->
  read_extensions hs H fuel skip_r (body ++ tr) tr idx = Ok idx.
Proof.
  intros Etr.
  assert (Htl : List.length tr = hs) by (subst tr; destruct skip_w; [apply zeros_length|apply H_len]).
  assert (E : (List.length tr <? 8 + hs)%nat = true) by (apply Nat.ltb_lt; lia).
  assert (Hpre : firstn (List.length (body ++ tr) - List.length tr) (body ++ tr) = body).
  { rewrite app_length, Nat.add_sub, firstn_app, Nat.sub_diag, firstn_all, firstn_O, app_nil_r. reflexivity. }
  assert (Htr : is_zero tr = false -> tr = fit hs (H body)).
  { intros Ez. subst tr. destruct skip_w; [rewrite is_zero_zeros in Ez; discriminate|symmetry; apply fit_id, H_len]. }
  assert (Htake : take hs tr = Some (tr, [])).
  { rewrite <- (app_nil_r tr) at 1. apply take_app_n. exact Htl. }
  destruct fuel; cbn [read_extensions]; rewrite E, Htake;
    (destruct (is_zero tr || skip_r)%bool eqn:Ez; [reflexivity|]);
    apply orb_false_iff in Ez as [Ez _];
    rewrite Hpre, <- (Htr Ez), bytes_eqb_refl; reflexivity.
Qed.

End Exts.

(* ---- the file ---- *)
(* Decoder.Decode with the stream and the "whole input" (used for the checksum only) separated *)
Definition decode' (hs : nat) (H : bytes -> bytes) (skip_hash : bool) (all b : bytes) : res index :=
  match take 4 b with None => Err EEof | Some (sig, b1) =>
    if negb (bytes_eqb sig DIRC) then Err EMalformedSignature else
    match get_u32 b1 with None => Err EEof | Some (ver, b2) =>
      if (ver <? 2) || (4 <? ver) then Err EUnsupportedVersion else
      match get_u32 b2 with None => Err EEof | Some (count, b3) =>
        match read_entries hs (S (List.length b3)) ver count None b3 [] with
        | Err x => Err x
        | Ok (es, b4) => read_extensions hs H (S (List.length b4)) skip_hash all b4 (mkIndex ver es None None None)
        end
      end
    end
  end.

Lemma decode_eq hs H skip b : decode hs H skip b = decode' hs H skip b b.
Proof. reflexivity. Qed.

Definition x_list (g : gindex) : list xitem :=
  (match gi_tree g with Some t => [XT t] | None => [] end) ++
  (match gi_reuc g with Some l => [XR l] | None => [] end) ++
  (match gi_untr g with Some d => [XO gUNTR d] | None => [] end) ++
  (match gi_fsmn g with Some d => [XO gFSMN d] | None => [] end).

Lemma g_ext_list_x g : g_ext_list g = map x_pair (x_list g) ++ (if gi_sparse g then [(gsdir, [])] else []).
Proof.
  unfold g_ext_list, x_list.
  destruct (gi_tree g), (gi_reuc g), (gi_untr g), (gi_fsmn g); reflexivity.
Qed.

(* what go-git's Index holds after reading what git wrote for the state g *)
Definition go_view (hs : nat) (H : bytes -> bytes) (eoie : bool) (g : gindex) : index :=
  mkIndex (g_written_version g) (map entry_of_git (gi_entries g))
          (match gi_tree g with Some t => Some (ct_flat [] t) | None => None end)
          (match gi_reuc g with Some l => Some (map reuc_view l) | None => None end)
          (if eoie then Some (git_eoie_offset hs g, git_eoie_hash H g) else None).

Lemma x_list_apply g idx :
  fold_left x_apply (x_list g) idx =
  mkIndex (i_version idx) (i_entries idx)
          (match gi_tree g with Some t => Some (ct_flat [] t) | None => i_cache idx end)
          (match gi_reuc g with Some l => Some (map reuc_view l) | None => i_reuc idx end) (i_eoie idx).
Proof.
  unfold x_list. destruct idx. destruct (gi_tree g), (gi_reuc g), (gi_untr g), (gi_fsmn g); reflexivity.
Qed.

(* versions 2..4, entries with 32-bit fields and C-string names, extension sizes below 2^32 (and the
   file below 4 GB when the EOIE offset is recorded); a sparse index (sdir) is the subject of
   mandatory_refused below *)
Definition wf_gstate (hs : nat) (eoie : bool) (g : gindex) : bool :=
  ((gi_version g =? 2) || (gi_version g =? 3) || (gi_version g =? 4)) &&
  forallb (wf_gentry hs) (gi_entries g) && (N.of_nat (List.length (gi_entries g)) <? 4294967296) &&
  forallb (x_wf hs) (x_list g) &&
  (if eoie then git_eoie_offset hs g <? 4294967296 else true).

Definition wf_gindex (hs : nat) (eoie : bool) (g : gindex) : bool := wf_gstate hs eoie g && negb (gi_sparse g).

Lemma flat_map_map {A B C} (f : B -> list C) (g : A -> B) l : flat_map f (map g l) = flat_map (fun x => f (g x)) l.
Proof. induction l as [|x l IH]; cbn; [reflexivity|]. now rewrite IH. Qed.

Lemma xs_bytes_length : forall xs : list xitem, (List.length xs <= List.length (flat_map (fun x => g_ext_bytes (x_pair x)) xs))%nat.
Proof.
  induction xs as [|x xs IH]; cbn [flat_map List.length]; [lia|].
  rewrite app_length. unfold g_ext_bytes at 1. unfold g_ext_header. rewrite !app_length, u32_length. lia.
Qed.

Lemma written_version_ok g :
  ((gi_version g =? 2) || (gi_version g =? 3) || (gi_version g =? 4))%bool = true ->
  g_written_version g = 2 \/ g_written_version g = 3 \/ g_written_version g = 4.
Proof.
  unfold g_written_version. intros Hv.
  destruct (gi_version g =? 2) eqn:E2; [cbn [orb]; destruct (existsb _ _); auto|].
  destruct (gi_version g =? 3) eqn:E3; [cbn [orb]; destruct (existsb _ _); auto|].
  cbn [orb] in *. apply N.eqb_eq in Hv. auto.
Qed.

Section File.
Variable hs : nat.
Variable H : bytes -> bytes.
Hypothesis hs_pos : (0 < hs)%nat.
Hypothesis hs_small : N.of_nat hs < 4294967000.
Hypothesis H_len : forall x, List.length (H x) = hs.

(* header and entries of a file git wrote, whatever follows *)
Lemma decode_entries skip all g rest eoie :
  wf_gstate hs eoie g = true ->
  decode' hs H skip all (git_encode_entries hs g ++ rest) =
  read_extensions hs H (S (List.length rest)) skip all rest
    (mkIndex (g_written_version g) (map entry_of_git (gi_entries g)) None None None).
Proof.
  unfold wf_gstate. intros Hw.
  apply andb_true_iff in Hw as [Hw _]. apply andb_true_iff in Hw as [Hw _].
  apply andb_true_iff in Hw as [Hw Hcount]. apply andb_true_iff in Hw as [Hv He]. apply N.ltb_lt in Hcount.
  pose proof (written_version_ok g Hv) as Hver.
  assert (Hvlt : g_written_version g < 4294967296) by (destruct Hver as [-> | [-> | ->]]; lia).
  assert (Hrange : ((g_written_version g <? 2) || (4 <? g_written_version g))%bool = false)
    by (destruct Hver as [-> | [-> | ->]]; reflexivity).
  unfold decode', git_encode_entries. repeat rewrite <- app_assoc.
  change (gDIRC ++ ?x) with ([68; 73; 82; 67] ++ x).
  rewrite (take_app_n 4) by reflexivity. change (bytes_eqb [68; 73; 82; 67] DIRC) with true. cbn [negb].
  rewrite get_u32_u32 by exact Hvlt. rewrite Hrange. rewrite get_u32_u32 by exact Hcount.
  rewrite (go_reads_git_entries hs (g_written_version g) Hver (gi_entries g) None rest []); [reflexivity|exact He|exact I|].
  rewrite app_length. pose proof (g_write_entries_length hs (g_written_version g) (gi_entries g) []). lia.
Qed.

Definition eoie_bytes (eoie : bool) (g : gindex) : bytes :=
  if eoie then g_ext_bytes (gEOIE, u32 (git_eoie_offset hs g) ++ git_eoie_hash H g) else [].
Definition xs_bytes (g : gindex) : bytes := flat_map (fun x => g_ext_bytes (x_pair x)) (x_list g).

(* after the entries: the extensions go-git knows or skips, the EOIE, the trailer *)
Lemma file_exts_read eoie skip_r g all body tr :
  wf_gstate hs eoie g = true -> all = body ++ tr -> (tr = zeros hs \/ tr = H body) ->
  decode' hs H skip_r all (git_encode_entries hs g ++ xs_bytes g ++ eoie_bytes eoie g ++ tr) = Ok (go_view hs H eoie g).
Proof.
  intros Hw Hall Htr.
  pose proof Hw as Hw'. unfold wf_gstate in Hw'.
  apply andb_true_iff in Hw' as [Hw' Hoff]. apply andb_true_iff in Hw' as [_ Hxs].
  assert (Htl : List.length tr = hs) by (destruct Htr as [-> | ->]; [apply zeros_length|apply H_len]).
  rewrite (decode_entries skip_r all g _ eoie Hw).
  unfold xs_bytes. pose proof (xs_bytes_length (x_list g)) as Hlen.
  replace (S (List.length (flat_map (fun x => g_ext_bytes (x_pair x)) (x_list g) ++ eoie_bytes eoie g ++ tr)))
    with (List.length (x_list g) +
          S (List.length (flat_map (fun x => g_ext_bytes (x_pair x)) (x_list g) ++ eoie_bytes eoie g ++ tr) - List.length (x_list g)))%nat
    by (rewrite app_length; lia).
  rewrite (xs_step hs H hs_pos hs_small H_len) by (try exact Hxs; rewrite app_length; lia).
  rewrite x_list_apply. cbn [i_version i_entries i_cache i_reuc i_eoie].
  assert (Hfin : forall fuel idx, read_extensions hs H fuel skip_r all tr idx = Ok idx).
  { intros fuel idx. rewrite Hall.
    destruct Htr as [E | E].
    - apply (trailer_step hs H hs_pos hs_small H_len fuel skip_r true body idx tr). exact E.
    - apply (trailer_step hs H hs_pos hs_small H_len fuel skip_r false body idx tr). exact E. }
  unfold go_view, eoie_bytes. destruct eoie.
  - apply N.ltb_lt in Hoff.
    rewrite (eoie_step hs H hs_pos hs_small H_len) by (try exact Hoff; try apply H_len; lia).
    apply Hfin.
  - cbn [app]. apply Hfin.
Qed.

Lemma git_encode_shape eoie skip_w g : gi_sparse g = false ->
  exists body tr, git_encode hs H eoie skip_w g = body ++ tr /\ (tr = zeros hs \/ tr = H body) /\
                  body ++ tr = git_encode_entries hs g ++ xs_bytes g ++ eoie_bytes eoie g ++ tr.
Proof.
  intros Hsp. unfold git_encode.
  assert (Hexts : flat_map g_ext_bytes (g_ext_list g) = xs_bytes g).
  { rewrite g_ext_list_x, Hsp, app_nil_r. apply flat_map_map. }
  rewrite Hexts. fold (eoie_bytes eoie g).
  eexists. eexists. split; [reflexivity|]. split.
  - destruct skip_w; [left|right]; reflexivity.
  - repeat rewrite <- app_assoc. reflexivity.
Qed.

Theorem we_read_git eoie skip_w skip_r g :
  wf_gindex hs eoie g = true ->
  decode hs H skip_r (git_encode hs H eoie skip_w g) = Ok (go_view hs H eoie g).
Proof.
  unfold wf_gindex. intros Hw. apply andb_true_iff in Hw as [Hw Hsp]. apply negb_true_iff in Hsp.
  destruct (git_encode_shape eoie skip_w g Hsp) as (body & tr & E & Htr & Eshape).
  rewrite decode_eq. rewrite E. rewrite Eshape at 2.
  apply (file_exts_read eoie skip_r g (body ++ tr) body tr Hw eq_refl Htr).
Qed.

(* a sparse index carries the mandatory `sdir` extension: go-git refuses the file (git reads it) *)
Theorem mandatory_refused eoie skip_w skip_r g :
  wf_gstate hs eoie g = true -> gi_sparse g = true ->
  decode hs H skip_r (git_encode hs H eoie skip_w g) = Err EUnknownExtension.
Proof.
  intros Hw Hsp.
  pose proof Hw as Hw'. unfold wf_gstate in Hw'.
  apply andb_true_iff in Hw' as [Hw' Hoff]. apply andb_true_iff in Hw' as [_ Hxs].
  rewrite decode_eq. unfold git_encode.
  assert (Hexts : flat_map g_ext_bytes (g_ext_list g) = xs_bytes g ++ g_ext_bytes (gsdir, [])).
  { rewrite g_ext_list_x, Hsp, flat_map_app, flat_map_map. cbn [flat_map]. now rewrite app_nil_r. }
  rewrite Hexts. fold (eoie_bytes eoie g).
  match goal with |- decode' _ _ _ (?b ++ ?t) _ = _ => remember t as tr eqn:Etr; remember (b ++ tr) as all eqn:Eall end.
  assert (Htl : List.length tr = hs) by (subst tr; destruct skip_w; [apply zeros_length|apply H_len]).
  assert (Eshape : all = git_encode_entries hs g ++ xs_bytes g ++ g_ext_bytes (gsdir, []) ++ eoie_bytes eoie g ++ tr).
  { subst all. repeat rewrite <- app_assoc. reflexivity. }
  rewrite Eshape at 2.
  rewrite (decode_entries skip_r all g _ eoie Hw).
  unfold xs_bytes. pose proof (xs_bytes_length (x_list g)) as Hlen.
  match goal with |- read_extensions _ _ (S (List.length ?l)) _ _ _ _ = _ =>
    replace (S (List.length l)) with (List.length (x_list g) + S (List.length l - List.length (x_list g)))%nat
      by (rewrite app_length; lia) end.
  rewrite (xs_step hs H hs_pos hs_small H_len) by (try exact Hxs; rewrite !app_length; lia).
  change (g_ext_bytes (gsdir, [])) with (gsdir ++ u32 (N.of_nat (List.length (@nil N))) ++ []). rewrite <- !app_assoc.
  rewrite (read_ext_step hs H hs_pos hs_small H_len); [reflexivity|reflexivity|cbn; lia|rewrite app_length; lia].
Qed.

End File.
