(* Proofs/C35Base.v — byte-string, hexadecimal, object-id and scanner lemmas
   shared by the C35 message round trips. *)
From Coq Require Import List NArith ZArith Bool Lia Arith.
From GoGit Require Import Base.Out Base.GoInt Gen.C34 Model.PktLine Model.Packp
  Proofs.C34Stream Proofs.C34Hex Proofs.C34Pkt.
Import ListNotations.

Arguments MaxSizeN : simpl never.
Opaque MaxSizeN.

(* ---------- prefixes, suffixes, cuts ---------- *)
Lemma beq_refl a : beq a a = true.
Proof. induction a as [|x a IH]; [reflexivity|]. cbn. now rewrite N.eqb_refl, IH. Qed.

Lemma beq_eq a b : beq a b = true -> a = b.
Proof.
  revert b. induction a as [|x a IH]; intros [|y b] H; try discriminate; [reflexivity|].
  cbn in H. apply andb_prop in H. destruct H as [H1 H2]. apply N.eqb_eq in H1. f_equal; auto.
Qed.

Lemma has_prefix_app p s : has_prefix p (p ++ s) = true.
Proof. induction p as [|x p IH]; [reflexivity|]. cbn. now rewrite N.eqb_refl, IH. Qed.

Lemma skipn_app_len {A} (p s : list A) : skipn (List.length p) (p ++ s) = s.
Proof. apply skipn_app_exact. reflexivity. Qed.

Lemma has_suffix_go_app suf : forall s, has_suffix_go suf (s ++ suf) (List.length s) = true.
Proof. induction s as [|x s IH]; cbn; [destruct suf; cbn; [reflexivity|apply (beq_refl (_ :: _))]|exact IH]. Qed.

Lemma has_suffix_app s suf : has_suffix suf (s ++ suf) = true.
Proof.
  unfold has_suffix. rewrite app_length. destruct (Nat.ltb_spec (List.length s + List.length suf) (List.length suf)); [lia|].
  replace (List.length s + List.length suf - List.length suf)%nat with (List.length s) by lia.
  apply has_suffix_go_app.
Qed.

Lemma trim_eol_app s : trim_eol (s ++ [NL]) = s.
Proof.
  unfold trim_eol, trim_suffix. rewrite has_suffix_app, app_length. cbn [List.length].
  replace (List.length s + 1 - 1)%nat with (List.length s) by lia. apply firstn_app_exact. reflexivity.
Qed.

Lemma has_suffix_go_true suf : forall s n, has_suffix_go suf s n = true -> s = firstn n s ++ suf.
Proof.
  induction s as [|x r IH]; intros n H.
  - destruct n; cbn in H; [|discriminate]. apply beq_eq in H. now subst.
  - destruct n; cbn in H.
    + apply beq_eq in H. now subst.
    + cbn [firstn app]. f_equal. now apply IH.
Qed.

(* a line that does not end in a newline is left alone *)
Lemma trim_eol_id s : N.eqb NL (last s 0%N) = false -> trim_eol s = s.
Proof.
  intros H. unfold trim_eol, trim_suffix. destruct (has_suffix [NL] s) eqn:E; [|reflexivity].
  exfalso. unfold has_suffix in E. destruct (Nat.ltb (List.length s) (List.length [NL])); [discriminate|].
  apply has_suffix_go_true in E. rewrite E, last_last, N.eqb_refl in H. discriminate.
Qed.

Lemma index_byte_app c a b : forallb (fun x => negb (N.eqb x c)) a = true ->
  index_byte c (a ++ c :: b) = Some (List.length a).
Proof.
  induction a as [|x a IH]; intros H.
  - cbn. now rewrite N.eqb_refl.
  - cbn in H. apply andb_prop in H. destruct H as [H1 H2]. apply negb_true_iff in H1.
    cbn. rewrite H1, (IH H2). reflexivity.
Qed.

Lemma index_byte_none c a : forallb (fun x => negb (N.eqb x c)) a = true -> index_byte c a = None.
Proof.
  induction a as [|x a IH]; intros H; [reflexivity|].
  cbn in H. apply andb_prop in H. destruct H as [H1 H2]. apply negb_true_iff in H1.
  cbn. now rewrite H1, (IH H2).
Qed.

Lemma cut_app c a b : forallb (fun x => negb (N.eqb x c)) a = true -> cut c (a ++ c :: b) = Some (a, b).
Proof.
  intros H. unfold cut. rewrite (index_byte_app c a b H). f_equal. f_equal.
  - apply firstn_app_exact. reflexivity.
  - replace (S (List.length a)) with (List.length a + 1)%nat by lia.
    rewrite <- (skipn_skipn' 1 (List.length a)), skipn_app_len. reflexivity.
Qed.

Lemma cut_none c a : forallb (fun x => negb (N.eqb x c)) a = true -> cut c a = None.
Proof. intros H. unfold cut. now rewrite (index_byte_none c a H). Qed.

(* ---------- split / join ---------- *)
Definition no_byte (c : N) (s : bytes) : bool := forallb (fun x => negb (N.eqb x c)) s.

Lemma split_on_nobyte c s : no_byte c s = true -> split_on c s = [s].
Proof.
  induction s as [|x s IH]; intros H; [reflexivity|].
  cbn in H. apply andb_prop in H. destruct H as [H1 H2]. apply negb_true_iff in H1.
  cbn. rewrite H1, (IH H2). reflexivity.
Qed.

Lemma split_on_app c a b : no_byte c a = true ->
  split_on c (a ++ c :: b) = a :: split_on c b.
Proof.
  induction a as [|x a IH]; intros H.
  - cbn. now rewrite N.eqb_refl.
  - cbn in H. apply andb_prop in H. destruct H as [H1 H2]. apply negb_true_iff in H1.
    cbn [app split_on]. rewrite H1, (IH H2). reflexivity.
Qed.

Lemma split_join c toks : toks <> [] -> forallb (no_byte c) toks = true ->
  split_on c (join [c] toks) = toks.
Proof.
  induction toks as [|t toks IH]; intros Hne H; [contradiction|].
  cbn in H. apply andb_prop in H. destruct H as [H1 H2].
  destruct toks as [|t2 toks]; [cbn; now apply split_on_nobyte|].
  cbn [join]. cbn [app]. rewrite (split_on_app c t _ H1). f_equal. apply IH; [discriminate|assumption].
Qed.

(* ---------- white space ---------- *)
Lemma trim_space_id s : match s with [] => true | c :: _ => negb (is_space c) && negb (is_space (last s 0%N)) end = true ->
  trim_space s = s.
Proof.
  destruct s as [|c t]; [reflexivity|]. intros H. apply andb_prop in H. destruct H as [H1 H2].
  apply negb_true_iff in H1, H2. unfold trim_space. rewrite (trim_left_nonspace c t H1).
  destruct (rev (c :: t)) as [|x l] eqn:E.
  { apply (f_equal (@List.length N)) in E. rewrite rev_length in E. discriminate. }
  assert (last (c :: t) 0%N = x) as Hx.
  { rewrite <- (rev_involutive (c :: t)), E. cbn [rev]. apply last_last. }
  rewrite Hx in H2. rewrite (trim_left_nonspace x l H2), <- E. apply rev_involutive.
Qed.

(* ---------- hexadecimal ---------- *)
Lemma hexv_hexdig n : (n < 16)%N -> hexv (hexdig n) = Some n.
Proof.
  intros H.
  assert (n = 0 \/ n = 1 \/ n = 2 \/ n = 3 \/ n = 4 \/ n = 5 \/ n = 6 \/ n = 7 \/ n = 8 \/ n = 9 \/
          n = 10 \/ n = 11 \/ n = 12 \/ n = 13 \/ n = 14 \/ n = 15)%N as C by lia.
  repeat (destruct C as [-> | C]; [reflexivity|]). subst. reflexivity.
Qed.

Lemma hexdig_nonspace n : (n < 16)%N -> is_space (hexdig n) = false /\ N.eqb NL (hexdig n) = false /\ N.eqb (hexdig n) SP = false.
Proof.
  intros H.
  assert (n = 0 \/ n = 1 \/ n = 2 \/ n = 3 \/ n = 4 \/ n = 5 \/ n = 6 \/ n = 7 \/ n = 8 \/ n = 9 \/
          n = 10 \/ n = 11 \/ n = 12 \/ n = 13 \/ n = 14 \/ n = 15)%N as C by lia.
  repeat (destruct C as [-> | C]; [repeat split; reflexivity|]). subst. repeat split; reflexivity.
Qed.

Definition byte_ok (c : N) : bool := N.ltb c 256.

Lemma nib_hi c : (c < 256)%N -> (N.shiftr c 4 mod 16 < 16)%N /\ (c mod 16 < 16)%N /\
  (16 * (N.shiftr c 4 mod 16) + c mod 16 = c)%N.
Proof.
  intros H. rewrite N.shiftr_div_pow2. change (2 ^ 4)%N with 16%N.
  assert (c / 16 < 16)%N as Hd by (apply N.div_lt_upper_bound; lia).
  rewrite (N.mod_small (c / 16) 16 Hd). repeat split; [assumption|apply N.mod_lt; lia|].
  symmetry. apply N.div_mod. lia.
Qed.

Lemma of_to_hex b : forallb byte_ok b = true -> of_hex (to_hex b) = Some b.
Proof.
  induction b as [|c b IH]; intros H; [reflexivity|].
  cbn in H. apply andb_prop in H. destruct H as [H1 H2]. apply N.ltb_lt in H1.
  destruct (nib_hi c H1) as (Ha & Hb & Hc).
  cbn [to_hex of_hex]. rewrite (hexv_hexdig _ Ha), (hexv_hexdig _ Hb), (IH H2), Hc. reflexivity.
Qed.

Lemma to_hex_length b : List.length (to_hex b) = (2 * List.length b)%nat.
Proof. induction b as [|c b IH]; [reflexivity|]. cbn [to_hex List.length]. lia. Qed.

(* every character of a hex string is a lower-case digit: no space, no NL *)
Definition hexchar (c : N) : bool := negb (is_space c) && negb (N.eqb c SP) && negb (N.eqb NL c) && negb (N.eqb c NUL).

Lemma to_hex_chars b : forallb byte_ok b = true -> forallb hexchar (to_hex b) = true.
Proof.
  induction b as [|c b IH]; intros H; [reflexivity|].
  cbn in H. apply andb_prop in H. destruct H as [H1 H2]. apply N.ltb_lt in H1.
  destruct (nib_hi c H1) as (Ha & Hb & _).
  cbn [to_hex forallb]. rewrite (IH H2), andb_true_r.
  assert (forall n, (n < 16)%N -> hexchar (hexdig n) = true) as K.
  { intros n Hn.
    assert (n = 0 \/ n = 1 \/ n = 2 \/ n = 3 \/ n = 4 \/ n = 5 \/ n = 6 \/ n = 7 \/ n = 8 \/ n = 9 \/
            n = 10 \/ n = 11 \/ n = 12 \/ n = 13 \/ n = 14 \/ n = 15)%N as C by lia.
    repeat (destruct C as [-> | C]; [reflexivity|]). subst. reflexivity. }
  now rewrite (K _ Ha), (K _ Hb).
Qed.

Lemma In_firstn' {A} (x : A) : forall n l, In x (firstn n l) -> In x l.
Proof.
  induction n as [|n IH]; intros l H; [contradiction|].
  destruct l as [|y l]; [contradiction|]. cbn in H. destruct H as [H|H]; [now left|right; now apply IH].
Qed.

Lemma forallb_firstn {A} (f : A -> bool) n l : forallb f l = true -> forallb f (firstn n l) = true.
Proof. rewrite !forallb_forall. intros H x Hx. apply H. eapply In_firstn'; eauto. Qed.

(* ---------- object ids ---------- *)
(* the array has 32 bytes, and a SHA-1 id has zeros beyond its 20 bytes
   (what FromHex / the hashers produce) *)
Definition hash_ok (h : hash) : bool :=
  Nat.eqb (List.length (hb h)) 32 && forallb byte_ok (hb h) &&
  (h256 h || beq (skipn 20 (hb h)) (repeat 0%N 12)).

Lemma hash_bytes_ok h : hash_ok h = true -> forallb byte_ok (hash_bytes h) = true /\ List.length (hash_bytes h) = hash_size h.
Proof.
  unfold hash_ok. intros H. apply andb_prop in H. destruct H as [H H3]. apply andb_prop in H. destruct H as [H1 H2].
  apply Nat.eqb_eq in H1. unfold hash_bytes. split.
  - now apply forallb_firstn.
  - rewrite firstn_length, H1. unfold hash_size. destruct (h256 h); reflexivity.
Qed.

Lemma hash_str_length h : hash_ok h = true -> List.length (hash_str h) = hash_hexsize h.
Proof.
  intros H. destruct (hash_bytes_ok h H) as [_ L]. unfold hash_str, hash_hexsize. now rewrite to_hex_length, L.
Qed.

Lemma hash_str_chars h : hash_ok h = true -> forallb hexchar (hash_str h) = true.
Proof. intros H. apply to_hex_chars. now destruct (hash_bytes_ok h H). Qed.

(* FromHex (h.String()) = h *)
Lemma from_hex_str h : hash_ok h = true -> from_hex (hash_str h) = (h, true).
Proof.
  intros H. pose proof (hash_bytes_ok h H) as [Hb Hl]. pose proof (hash_str_length h H) as Hs.
  unfold hash_ok in H. apply andb_prop in H. destruct H as [H H3]. apply andb_prop in H. destruct H as [H1 H2].
  apply Nat.eqb_eq in H1. unfold from_hex, hash_str. rewrite (of_to_hex _ Hb).
  fold (hash_str h). rewrite Hs. unfold hash_hexsize, hash_size.
  destruct h as [b f]. cbn [hb h256] in *. unfold hash_bytes, hash_size, pad32. cbn [hb h256].
  destruct f.
  - change (2 * 32 =? 64)%nat with true. f_equal. f_equal.
    rewrite (firstn_all2 b) by lia. rewrite firstn_app, H1, Nat.sub_diag.
    change (firstn 0 zero32) with (@nil N). rewrite app_nil_r. apply firstn_all2. lia.
  - change (2 * 20 =? 64)%nat with false. f_equal. f_equal. cbn [orb] in H3. apply beq_eq in H3.
    rewrite <- (firstn_skipn 20 b) at 2. rewrite H3.
    rewrite firstn_app, firstn_length, H1. change (Nat.min 20 32) with 20%nat. change (32 - 20)%nat with 12%nat.
    rewrite (firstn_all2 (firstn 20 b)) by (rewrite firstn_length; lia). reflexivity.
Qed.

Lemma new_hash_str h : hash_ok h = true -> new_hash (hash_str h) = h.
Proof. intros H. unfold new_hash. now rewrite (from_hex_str h H). Qed.

(* ---------- what the decoders see of an encoded stream ---------- *)
Definition item_of (p : pkt) : item :=
  match p with
  | PData [] => (4%Z, [])
  | PData b => ((zlen b + 4)%Z, b)
  | PFlush => (0%Z, [])
  | PDelim => (1%Z, [])
  | PResponseEnd => (2%Z, [])
  end.

Lemma src_of_items_app l d :
  src_of_items (l ++ [d]) = mksrc (map (fun x => (rd_len x, rd_payload x)) l) (rd_err d).
Proof.
  induction l as [|x l IH]; [reflexivity|].
  cbn [app]. destruct (l ++ [d]) as [|y r] eqn:E; [destruct l; discriminate|].
  change (src_of_items (x :: y :: r)) with
    (mksrc ((rd_len x, rd_payload x) :: s_items (src_of_items (y :: r))) (s_fin (src_of_items (y :: r)))).
  rewrite IH. reflexivity.
Qed.

Lemma rd_of_pkt_item p : pkt_ok p = true -> no_errline p = true ->
  (rd_len (rd_of_pkt MaxSizeN p), rd_payload (rd_of_pkt MaxSizeN p)) = item_of p.
Proof.
  intros Hok Hne. destruct (rd_of_pkt_max p Hok Hne) as [_ ->].
  destruct p as [b| | |]; try reflexivity. destruct b; reflexivity.
Qed.

(* any chunking of the encoded packets is seen by a decoder as the packets themselves *)
Theorem src_enc ps s r :
  enc_pkts ps = Some s -> forallb no_errline ps = true -> concat r = s ->
  src_of (scan_all r) = mksrc (map item_of ps) None.
Proof.
  intros He Hne Hr. rewrite (scan_all_enc ps s r He Hr Hne). cbn [src_of].
  rewrite src_of_items_app. cbn [rd_err]. f_equal. rewrite map_map.
  pose proof (enc_pkts_ok _ _ He) as Hok. clear He Hr.
  induction ps as [|p ps IH]; [reflexivity|].
  cbn [forallb] in Hok, Hne. apply andb_prop in Hok, Hne. destruct Hok as [O1 O2], Hne as [N1 N2].
  cbn [map]. rewrite (rd_of_pkt_item p O1 N1), (IH N2 O2). reflexivity.
Qed.
