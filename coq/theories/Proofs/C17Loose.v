(* Proofs/C17Loose.v — the loose-object layer (DeleteLooseObject /
   ForEachObjectHash) of Model/StorageAPI.v: the filesystem model refines the
   abstract store over the extended alphabet as well. *)
From Coq Require Import List NArith Bool Lia Permutation.
From GoGit Require Import Base.Out Spec.AStore Model.StorageAPI Proofs.AStoreFacts Proofs.C17.
Import ListNotations.
Local Open Scope N_scope.

Lemma lw_track_equiv b r r' lo pk : res_equiv r r' -> lw_track b r lo pk = lw_track b r' lo pk.
Proof.
  intro H. destruct r, r'; cbn in H; try discriminate; try (injection H as <-);
    destruct b as [[]| | |]; reflexivity.
Qed.

Lemma nmem_nrem k l : nmem k (nrem k l) = false.
Proof.
  unfold nmem, nrem. induction l as [|a r IH]; [reflexivity|].
  cbn [filter]. destruct (a =? k) eqn:E; cbn [negb]; [exact IH|].
  cbn [existsb]. rewrite N.eqb_sym, E, IH. reflexivity.
Qed.

(* after a successful DeleteLooseObject(k), ForEachObjectHash does not see k *)
Lemma lw_del_then_each {St} (step : St -> sop -> St * res) del w k w' :
  lw_step step del w (XDelLoose k) = (w', ROk) ->
  exists l, snd (lw_step step del w' XEachHash) = RIds l /\ nmem k l = false.
Proof.
  cbn [lw_step]. destruct (nmem k (lw_loose w)); [|discriminate].
  intro H. injection H as <-. cbn [lw_step snd lw_loose]. eexists. split; [reflexivity|apply nmem_nrem].
Qed.

Definition LwRel (wf : lw fstore) (ws : lw store) : Prop :=
  FsRel (lw_st wf) (lw_st ws) /\ lw_loose wf = lw_loose ws /\ lw_packed wf = lw_packed ws.

Definition xfs_ok (w : lw fstore) (o : xop) : bool :=
  match o with XOp b => fs_ok (lw_st w) b | _ => true end.

Lemma FsRel_del k f s : FsRel f s -> FsRel (fs_del_obj k f) (st_del_obj k s).
Proof.
  intros [HI Hok Hr (H1 & H2 & H3 & H4 & H5)]. constructor.
  - destruct HI; constructor; assumption.
  - exact Hok.
  - exact Hr.
  - unfold rest_eq, fs_del_obj, st_del_obj, st_with_objs.
    cbn [f_rest s_objs s_idx s_cfg s_shallow s_logs]. rewrite H1. repeat split; assumption.
Qed.

Lemma xfs_sim U wf ws o : LwRel wf ws -> xfs_ok wf o = true ->
  LwRel (fst (xfs_step U wf o)) (fst (xspec_step U ws o))
  /\ res_equiv (snd (xfs_step U wf o)) (snd (xspec_step U ws o)).
Proof.
  intros (HR & Hl & Hp) Hg. destruct wf as [f lo pk], ws as [s lo' pk'].
  cbn [lw_st lw_loose lw_packed] in *. subst lo' pk'.
  destruct o as [b|k|]; unfold xfs_step, xspec_step, LwRel; cbn [lw_step lw_st lw_loose lw_packed].
  - cbn [xfs_ok lw_st] in Hg. destruct (fs_sim_all U f s b HR Hg) as [HR1 Hx].
    destruct (fs_step U f b) as [f1 x]. destruct (spec_sstep U s b) as [s1 y]. cbn [fst snd] in *.
    rewrite (lw_track_equiv b x y lo pk Hx). destruct (lw_track b y lo pk) as [lo1 pk1].
    cbn [fst snd lw_st lw_loose lw_packed]. split; [|exact Hx]. split; [exact HR1|split; reflexivity].
  - destruct (nmem k lo); cbn [fst snd lw_st lw_loose lw_packed].
    + split; [|apply res_equiv_refl]. split; [|split; reflexivity].
      destruct (nmem k pk); [exact HR|apply FsRel_del; exact HR].
    + split; [|apply res_equiv_refl]. split; [exact HR|split; reflexivity].
  - cbn [fst snd lw_st lw_loose lw_packed]. split; [|apply res_equiv_refl].
    split; [exact HR|split; reflexivity].
Qed.

Fixpoint xfs_guards (U : universe) (w : lw fstore) (ops : list xop) : bool :=
  match ops with
  | [] => true
  | o :: r => xfs_ok w o && xfs_guards U (fst (xfs_step U w o)) r
  end.

Lemma xfs_run_spec U ops : forall wf ws,
  LwRel wf ws -> xfs_guards U wf ops = true ->
  LwRel (fst (run_xops (fs_step U) fs_del_obj wf ops)) (fst (run_xops (spec_sstep U) st_del_obj ws ops))
  /\ Forall2 res_equiv (snd (run_xops (fs_step U) fs_del_obj wf ops))
                       (snd (run_xops (spec_sstep U) st_del_obj ws ops)).
Proof.
  induction ops as [|o r IH]; intros wf ws HR Hg.
  - cbn. split; [exact HR|constructor].
  - cbn [xfs_guards] in Hg. apply andb_true_iff in Hg as [H1 H2].
    destruct (xfs_sim U wf ws o HR H1) as [HR1 Hx]. cbn [run_xops].
    unfold xfs_step, xspec_step in *.
    destruct (lw_step (fs_step U) fs_del_obj wf o) as [f1 x].
    destruct (lw_step (spec_sstep U) st_del_obj ws o) as [s1 y]. cbn [fst snd] in *.
    destruct (IH f1 s1 HR1 H2) as [HR2 Hall].
    destruct (run_xops (fs_step U) fs_del_obj f1 r) as [f2 xs].
    destruct (run_xops (spec_sstep U) st_del_obj s1 r) as [s2 ys].
    cbn [fst snd] in *. split; [exact HR2|constructor; assumption].
Qed.

Lemma LwRel_empty : LwRel (lw_init fs_empty) (lw_init st_empty).
Proof. split; [exact FsRel_empty|split; reflexivity]. Qed.

(* memory: DeleteLooseObject is refused and changes nothing; ForEachObjectHash
   enumerates what IterEncodedObjects(AnyObject) of the abstract store does *)
Lemma xmem_loose U s k :
  xmem_step U s (XDelLoose k) = (s, RErr ENotSupported)
  /\ xmem_step U s XEachHash = (s, snd (spec_sstep U s (SBase (OIterObjs 0)))).
Proof.
  split; [reflexivity|]. cbn [xmem_step spec_sstep st_step snd]. unfold st_iter_objs.
  f_equal. f_equal. induction (fm_keys (s_objs s)) as [|a r IH]; [reflexivity|].
  cbn [filter]. unfold typ_match at 1. cbn [N.eqb orb]. f_equal. exact IH.
Qed.
