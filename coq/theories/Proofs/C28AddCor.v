(* Proofs/C28AddCor.v — the add theorem instantiated: Add(file), Add(directory),
   AddWithOptions{All}, and any list of matched names (AddGlob). *)
From Coq Require Import List NArith Arith Lia Bool.
From GoGit Require Import Base.Out Model.Status Model.IndexOps Spec.GitStatus Spec.GitIndexOps Proofs.C27 Proofs.C28 Proofs.C28Add.
Import ListNotations.
Local Open Scope N_scope.
Local Notation is_some := IndexOps.is_some (only parsing).

(* ------------------------------------------------------------ the keys of the Status map *)

Lemma sget_keys m q : is_some (sget m q) = mem_path q (map fst m).
Proof.
  induction m as [|[r w] m IH]; [reflexivity|]. cbn [sget map fst mem_path].
  destruct (bytes_eqb r q); [reflexivity|exact IH].
Qed.

Lemma keys_sset m p v : forall q, mem_path q (map fst (sset m p v)) = bytes_eqb p q || mem_path q (map fst m).
Proof.
  intros q. rewrite <- !sget_keys, sget_sset. destruct (bytes_eqb p q); reflexivity.
Qed.

Lemma nodup_sset m p v : nodup_b (map fst m) = true -> nodup_b (map fst (sset m p v)) = true.
Proof.
  induction m as [|[r w] m IH]; intros H; [reflexivity|].
  cbn [sset]. cbn [map fst nodup_b] in H. apply andb_true_iff in H as [H1 H2].
  destruct (bytes_eqb r p) eqn:E.
  - cbn [map fst nodup_b]. now rewrite H1, H2.
  - cbn [map fst nodup_b]. rewrite (IH H2), andb_true_r. apply negb_true_iff in H1. apply negb_true_iff.
    rewrite keys_sset, H1, orb_false_r. rewrite bytes_eqb_sym. exact E.
Qed.

Lemma nodup_left m ch : nodup_b (map fst m) = true -> nodup_b (map fst (left_apply m ch)) = true.
Proof. destruct ch as [p a]. unfold left_apply. destruct (sfile m p). apply nodup_sset. Qed.
Lemma nodup_right m ch : nodup_b (map fst m) = true -> nodup_b (map fst (right_apply m ch)) = true.
Proof. destruct ch as [p a]. unfold right_apply. destruct (sfile m p). destruct a; apply nodup_sset. Qed.

Lemma nodup_fold (f : smap -> path * action -> smap) l :
  (forall m ch, nodup_b (map fst m) = true -> nodup_b (map fst (f m ch)) = true) ->
  forall m, nodup_b (map fst m) = true -> nodup_b (map fst (fold_left f l m)) = true.
Proof. intros Hf. induction l as [|x l IH]; intros m H; [exact H|]. cbn [fold_left]. apply IH. now apply Hf. Qed.

Lemma nodup_keys s : nodup_b (status_keys s) = true.
Proof.
  unfold status_keys, status_map. cbv zeta.
  apply nodup_fold; [exact nodup_right|]. apply nodup_fold; [exact nodup_left|]. reflexivity.
Qed.

Lemma nodup_filter (g : path -> bool) l : nodup_b l = true -> nodup_b (filter g l) = true.
Proof.
  induction l as [|x l IH]; intros H; [reflexivity|]. cbn [nodup_b] in H. apply andb_true_iff in H as [H1 H2].
  cbn [filter]. destruct (g x); [|now apply IH]. cbn [nodup_b]. rewrite (IH H2), andb_true_r.
  apply negb_true_iff in H1. apply negb_true_iff. rewrite mem_path_filter, H1. apply andb_false_r.
Qed.

Lemma key_changes s q :
  mem_path q (status_keys s) = true -> is_some (left_change s q) || is_some (right_change s q) = true.
Proof.
  unfold status_keys. rewrite <- sget_keys, status_map_get.
  destruct (left_change s q), (right_change s q); cbn; congruence.
Qed.

Lemma change_key s q : is_some (right_change s q) = true -> mem_path q (status_keys s) = true.
Proof.
  unfold status_keys. rewrite <- sget_keys, status_map_get.
  destruct (left_change s q), (right_change s q); cbn; congruence.
Qed.

(* a key of the Status map is an acceptable name *)
Lemma key_name_ok s q : add_guard s = true -> mem_path q (status_keys s) = true -> name_ok s q = true.
Proof.
  intros G K. apply key_changes in K. unfold name_ok.
  destruct (find_i (st_index s) q) as [e|] eqn:Ei; [destruct (find_w (st_wt s) q); reflexivity|].
  destruct (find_w (st_wt s) q) as [f|] eqn:Ew.
  - unfold add_guard in G. apply andb_true_iff in G as [_ G4]. rewrite forallb_forall in G4.
    specialize (G4 f (find_w_in _ _ _ Ew)). pose proof (find_w_path _ _ _ Ew) as Pf. rewrite Pf, Ei in G4.
    apply eqb_prop in G4. rewrite <- G4.
    unfold right_change in K. rewrite Ei, Ew in K. unfold wt_visible in K. rewrite Pf, Ei in K.
    destruct (wf_ignored f); cbn in *; [now rewrite orb_false_r in K|reflexivity].
  - unfold right_change in K. rewrite Ei, Ew in K. cbn in K. now rewrite orb_false_r in K.
Qed.

(* ------------------------------------------------------------ AddWithOptions{All} *)

Lemma add_all_eq s : add_guard s = true -> res_equiv (g_add_all s) (s_add_all s).
Proof.
  intros G. unfold g_add_all, s_add_all. apply add_scope_eq; [exact G|apply nodup_keys| |].
  - intros q M. split; [reflexivity|now apply key_name_ok].
  - intros q _ R. now apply change_key.
Qed.

(* ------------------------------------------------------------ Add(directory) *)

(* p is a directory of the worktree: not a file, not below a file, not an index entry *)
Definition add_dir_guard (s : state) (p : path) : bool :=
  add_guard s && is_dir_wt s p && negb (has_file s p) &&
  negb (existsb (fun f => under (wf_path f) p) (st_wt s)) && negb (is_some (find_i (st_index s) p)).

Lemma add_dir_eq s p : add_dir_guard s p = true -> res_equiv (g_add s p) (s_add s p).
Proof.
  unfold add_dir_guard. intros G.
  apply andb_true_iff in G as [G G5]. apply andb_true_iff in G as [G G4].
  apply andb_true_iff in G as [G G3]. apply andb_true_iff in G as [G1 G2].
  apply negb_true_iff in G4, G5.
  unfold g_add. rewrite G2, G3. cbn [andb].
  assert (Ew : find_w (st_wt s) p = None).
  { unfold has_file in G3. destruct (find_w (st_wt s) p); [discriminate|reflexivity]. }
  assert (Ei : find_i (st_index s) p = None) by (destruct (find_i (st_index s) p); [discriminate|reflexivity]).
  assert (ES : s_add s p = ROk (with_index s (git_add_scope s (fun q => under p q || bytes_eqb p q)))).
  { unfold s_add. rewrite Ew.
    assert (L : existsb (fun f => is_link (wf_mode f) && under (wf_path f) p) (st_wt s) = false).
    { apply not_true_is_false. intros C. apply existsb_exists in C as [f [Hf Hc]]. apply andb_true_iff in Hc as [_ Hc].
      assert (X : existsb (fun f => under (wf_path f) p) (st_wt s) = true) by (apply existsb_exists; now exists f).
      congruence. }
    rewrite L, G2. reflexivity. }
  rewrite ES. apply add_scope_eq; [exact G1|apply nodup_filter, nodup_keys| |].
  - intros q M. rewrite mem_path_filter in M. apply andb_true_iff in M as [M1 M2].
    split; [now rewrite M1|now apply key_name_ok].
  - intros q Hs R. rewrite mem_path_filter. apply orb_true_iff in Hs as [Hs|Hs].
    + rewrite Hs. now apply change_key.
    + apply bytes_eqb_eq in Hs. subst q. unfold right_change in R. rewrite Ei, Ew in R. discriminate.
Qed.

(* ------------------------------------------------------------ Add(file) *)

Definition add_file_guard (s : state) (p : path) : bool :=
  add_guard s && name_ok s p &&
  match find_w (st_wt s) p with Some f => negb (git_skips s f) | None => false end.

Lemma known_idx s : known_paths s (st_index s).
Proof. intros e He. left. exists e. split; [exact He|reflexivity]. Qed.

Lemma add_file_eq s p : add_file_guard s p = true -> res_equiv (g_add s p) (s_add s p).
Proof.
  unfold add_file_guard. intros G. apply andb_true_iff in G as [G G3]. apply andb_true_iff in G as [G1 G2].
  destruct (find_w (st_wt s) p) as [f|] eqn:Ew; [|discriminate]. apply negb_true_iff in G3.
  assert (G' := G1). unfold add_guard in G'.
  apply andb_true_iff in G' as [G' _]. apply andb_true_iff in G' as [G' Gn]. apply andb_true_iff in G' as [_ Gc].
  unfold g_add, has_file. rewrite Ew. rewrite andb_false_r.
  unfold s_add. rewrite Ew, G3.
  assert (Hg : res_equiv (add_names s [p]) (ROk (with_index s (git_add_scope s (bytes_eqb p))))).
  { apply add_scope_eq; [exact G1|reflexivity| |].
    - intros q M. cbn [mem_path] in M. rewrite orb_false_r in M. apply bytes_eqb_eq in M. subst q.
      split; [apply bytes_eqb_refl|exact G2].
    - intros q Hs _. cbn [mem_path]. now rewrite Hs. }
  destruct (add_names s [p]) as [s1|s1]; [|exact Hg].
  unfold res_equiv, with_index in *. cbn [st_index st_wt st_head st_fmt st_filemode st_idxtime] in *.
  destruct Hg as (Hi & Hr). split; [|exact Hr].
  intros q. rewrite (Hi q). f_equal.
  rewrite git_scope_find by assumption.
  rewrite find_i_set. cbn [git_entry ie_path].
  pose proof (find_w_path _ _ _ Ew) as Pf. rewrite Pf.
  pose proof (drop_conflicts_id s (st_index s) f Gc (find_w_in _ _ _ Ew) (known_idx s)) as Dc.
  rewrite Pf in Dc. rewrite Dc.
  destruct (bytes_eqb p q) eqn:E.
  - apply bytes_eqb_eq in E. subst q. rewrite Ew, G3. reflexivity.
  - destruct (find_w (st_wt s) q); reflexivity.
Qed.

(* a tracked path whose file is gone: the entry is removed, as git add does *)
Lemma add_deleted_eq s p e :
  noconf s = true -> find_i (st_index s) p = Some e -> find_w (st_wt s) p = None ->
  g_add s p = s_add s p.
Proof.
  intros N Ei Ew.
  assert (D : is_dir_wt s p = false) by (eapply noconf_not_dir; eassumption).
  assert (B : existsb (fun f => under (wf_path f) p) (st_wt s) = false) by (eapply noconf_not_below; eassumption).
  unfold g_add, s_add. rewrite D, Ew. cbn [andb].
  assert (L : existsb (fun f => is_link (wf_mode f) && under (wf_path f) p) (st_wt s) = false).
  { apply not_true_is_false. intros C. apply existsb_exists in C as [f [Hf Hc]]. apply andb_true_iff in Hc as [_ Hc].
    assert (X : existsb (fun f => under (wf_path f) p) (st_wt s) = true) by (apply existsb_exists; now exists f).
    congruence. }
  rewrite L, Ei. cbn [IndexOps.is_some].
  unfold add_names. cbv zeta. cbn [existsb fold_left].
  assert (A : add_file1 s (status_map s) p = ADel).
  { unfold add_file1. fold (wcode s p). rewrite wcode_unmod.
    assert (R : right_change s p = Some Del) by (unfold right_change; rewrite Ei, Ew; reflexivity).
    rewrite R, Ew, B, D, Ei. destruct (left_change s p); reflexivity. }
  rewrite A. reflexivity.
Qed.
