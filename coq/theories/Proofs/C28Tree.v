(* Proofs/C28Tree.v — buildTreeHelper.BuildTree for nested directories: the files
   recorded in all trees are exactly the non-zero index entries. *)
From Coq Require Import List NArith Arith Lia Bool Permutation.
From GoGit Require Import Base.Out Model.Status Model.IndexOps Proofs.C27 Proofs.C28.
Import ListNotations.
Local Open Scope N_scope.

Definition walk (p : path) := walk_parts [] (split_slash p []).
Definition full_of (x : path * path * bytes) : path := snd (fst x).
Definition dirs_of (p : path) : list path := map full_of (removelast (walk p)).

(* the path is its own last joined prefix, differs from the earlier ones, and is not empty *)
Definition normal (p : path) : bool :=
  negb (bytes_eqb p []) &&
  forallb (fun d => negb (bytes_eqb d p)) (dirs_of p) &&
  match rev (walk p) with x :: _ => bytes_eqb (full_of x) p | [] => false end.

Definition has_key (t : trees) (d : path) : bool := is_some (trees_get t d).

Definition files1 (d : path) (es : list tent) : list (path * fmode * hash) :=
  flat_map (fun '(n, k) => match k with Some (m, h) => [(join d n, m, h)] | None => [] end) es.

Lemma tree_files_cons d es t : tree_files ((d, es) :: t) = files1 d es ++ tree_files t.
Proof. reflexivity. Qed.
Lemma tree_files_app a b : tree_files (a ++ b) = tree_files a ++ tree_files b.
Proof. unfold tree_files. apply flat_map_app. Qed.
Lemma files1_app d a b : files1 d (a ++ b) = files1 d a ++ files1 d b.
Proof. unfold files1. apply flat_map_app. Qed.

Lemma get_append t d x : forall q,
  trees_get (trees_append t d x) q =
  match trees_get t q with Some es => Some (if bytes_eqb d q then es ++ [x] else es) | None => None end.
Proof.
  induction t as [|[k es] t IH]; intros q; [reflexivity|].
  cbn [trees_append]. destruct (bytes_eqb k d) eqn:E.
  - apply bytes_eqb_eq in E. subst k. cbn [trees_get]. destruct (bytes_eqb d q); [reflexivity|].
    destruct (trees_get t q); reflexivity.
  - cbn [trees_get]. destruct (bytes_eqb k q) eqn:E2.
    + apply bytes_eqb_eq in E2. subst k. rewrite bytes_eqb_sym, E. reflexivity.
    + apply IH.
Qed.

Lemma get_app_new t d : forall q,
  trees_get (t ++ [(d, [])]) q =
  match trees_get t q with Some es => Some es | None => if bytes_eqb d q then Some [] else None end.
Proof.
  induction t as [|[k es] t IH]; intros q; [cbn; destruct (bytes_eqb d q); reflexivity|].
  cbn [app trees_get]. destruct (bytes_eqb k q); [reflexivity|apply IH].
Qed.

Lemma files_append_none t d n : tree_files (trees_append t d (n, None)) = tree_files t.
Proof.
  induction t as [|[k es] t IH]; [reflexivity|].
  cbn [trees_append]. destruct (bytes_eqb k d).
  - rewrite !tree_files_cons, files1_app. cbn [files1 flat_map]. now rewrite !app_nil_r.
  - rewrite !tree_files_cons, IH. reflexivity.
Qed.

Lemma files_append_some t d n m h :
  has_key t d = true ->
  Permutation (tree_files (trees_append t d (n, Some (m, h)))) ((join d n, m, h) :: tree_files t).
Proof.
  unfold has_key. induction t as [|[k es] t IH]; intros H; [discriminate|].
  cbn [trees_append]. cbn [trees_get] in H. destruct (bytes_eqb k d) eqn:E.
  - apply bytes_eqb_eq in E. subst k. rewrite !tree_files_cons, files1_app. cbn [files1 flat_map app].
    rewrite <- app_assoc. cbn [app]. symmetry. apply Permutation_middle.
  - rewrite !tree_files_cons. specialize (IH H).
    eapply perm_trans; [apply Permutation_app_head; exact IH|]. symmetry. apply Permutation_middle.
Qed.

Fixpoint final_parent (parent : path) (parts : list bytes) : path :=
  match parts with [] => parent | n :: r => final_parent (join parent n) r end.

Lemma walk_parts_app parent a b :
  walk_parts parent (a ++ b) = walk_parts parent a ++ walk_parts (final_parent parent a) b.
Proof. revert parent. induction a as [|n a IH]; intros parent; [reflexivity|]. cbn [app walk_parts final_parent]. now rewrite IH. Qed.

Section Entry.
Variable e : ientry.
Let p := ie_path e.

(* the directory steps: no file is recorded, the chain of parents exists afterwards *)
Lemma dir_steps parts : forall parent t,
  has_key t parent = true ->
  forallb (fun x => negb (bytes_eqb (full_of x) p)) (walk_parts parent parts) = true ->
  let t' := fold_left (do_build e) (walk_parts parent parts) t in
  tree_files t' = tree_files t /\ has_key t' (final_parent parent parts) = true /\
  (forall q, has_key t q = true -> has_key t' q = true) /\
  (forall q, has_key t' q = true -> has_key t q = true \/ In q (map full_of (walk_parts parent parts))).
Proof.
  induction parts as [|n r IH]; intros parent t Hp Hne.
  - cbn. repeat split; auto.
  - cbn [walk_parts forallb] in Hne. apply andb_true_iff in Hne as [Hn Hne].
    cbn [full_of fst snd] in Hn. apply negb_true_iff in Hn.
    cbn [walk_parts fold_left final_parent map].
    set (full := join parent n) in *.
    assert (Step : let t1 := do_build e t (parent, full, n) in
                   tree_files t1 = tree_files t /\ has_key t1 full = true /\
                   (forall q, has_key t q = true -> has_key t1 q = true) /\
                   (forall q, has_key t1 q = true -> has_key t q = true \/ q = full)).
    { unfold do_build, has_key. destruct (trees_get t full) as [es|] eqn:G.
      - cbv zeta. rewrite G. repeat split; auto.
      - fold p. rewrite Hn. cbv zeta. rewrite tree_files_app, files_append_none.
        cbn [tree_files flat_map app]. rewrite app_nil_r. split; [reflexivity|].
        split; [rewrite get_app_new, get_append, G, bytes_eqb_refl; reflexivity|].
        split.
        + intros q Hq. rewrite get_app_new, get_append. destruct (trees_get t q); [reflexivity|discriminate].
        + intros q Hq. rewrite get_app_new, get_append in Hq. destruct (trees_get t q) eqn:Gq; [now left|].
          destruct (bytes_eqb full q) eqn:Eq; [|discriminate]. right. symmetry. now apply bytes_eqb_eq. }
    cbv zeta in Step. destruct Step as (S1 & S2 & S3 & S4).
    destruct (IH full (do_build e t (parent, full, n)) S2 Hne) as (I1 & I2 & I3 & I4).
    cbv zeta in *. repeat split.
    + now rewrite I1.
    + exact I2.
    + intros q Hq. apply I3, S3, Hq.
    + intros q Hq. destruct (I4 q Hq) as [H|H]; [|right; right; exact H].
      destruct (S4 q H) as [H'|H']; [now left|right; left; cbn [full_of fst snd]; now symmetry].
Qed.

(* the last step records the file *)
Lemma file_step t parent n :
  has_key t parent = true -> has_key t (join parent n) = false -> bytes_eqb (join parent n) p = true ->
  let t' := do_build e t (parent, join parent n, n) in
  Permutation (tree_files t') ((p, ie_mode e, ie_hash e) :: tree_files t) /\
  (forall q, has_key t' q = has_key t q).
Proof.
  intros Hp Hf Hj. unfold do_build, has_key in *. destruct (trees_get t (join parent n)); [discriminate|].
  fold p. rewrite Hj. cbv zeta. split.
  - apply bytes_eqb_eq in Hj. rewrite <- Hj. now apply files_append_some.
  - intros q. rewrite get_append. destruct (trees_get t q); reflexivity.
Qed.

Lemma commit_entry_spec t :
  has_key t [] = true -> normal p = true -> nonzero e = true -> has_key t p = false ->
  let t' := commit_entry t e in
  Permutation (tree_files t') (proj e :: tree_files t) /\
  (forall q, has_key t q = true -> has_key t' q = true) /\
  (forall q, has_key t' q = true -> has_key t q = true \/ In q (dirs_of p)).
Proof.
  intros Hroot Hn Hz Hk. unfold commit_entry. fold p.
  unfold nonzero in Hz. apply negb_true_iff in Hz. rewrite Hz.
  unfold normal in Hn. apply andb_true_iff in Hn as [Hn Hlast]. apply andb_true_iff in Hn as [Hne Hdirs].
  unfold dirs_of, walk in *.
  destruct (split_slash p []) as [|c0 cs] eqn:ES.
  { cbn in Hlast. discriminate. }
  destruct (@exists_last _ (c0 :: cs) ltac:(discriminate)) as (init & n & Ei). rewrite Ei in *.
  rewrite walk_parts_app in *. cbn [walk_parts] in *.
  rewrite removelast_last in Hdirs. rewrite rev_app_distr in Hlast. cbn [rev app full_of fst snd] in Hlast.
  rewrite fold_left_app. cbn [fold_left].
  assert (Hd : forallb (fun x => negb (bytes_eqb (full_of x) p)) (walk_parts [] init) = true).
  { rewrite forallb_forall in *. intros x Hx. apply Hdirs. now apply in_map. }
  destruct (dir_steps init [] t Hroot Hd) as (D1 & D2 & D3 & D4). cbv zeta in *.
  set (t1 := fold_left (do_build e) (walk_parts [] init) t) in *.
  set (fp := final_parent [] init) in *.
  assert (Hf : has_key t1 (join fp n) = false).
  { destruct (has_key t1 (join fp n)) eqn:H; [|reflexivity]. exfalso.
    apply bytes_eqb_eq in Hlast. destruct (D4 _ H) as [H'|H'].
    - rewrite Hlast in H'. congruence.
    - rewrite forallb_forall in Hdirs. specialize (Hdirs _ H'). rewrite Hlast, bytes_eqb_refl in Hdirs. discriminate. }
  destruct (file_step t1 fp n D2 Hf Hlast) as (F1 & F2). cbv zeta in *.
  rewrite removelast_last. split; [|split].
  - unfold proj. fold p. rewrite <- D1. exact F1.
  - intros q Hq. rewrite F2. now apply D3.
  - intros q Hq. rewrite F2 in Hq. exact (D4 q Hq).
Qed.
End Entry.

Lemma mem_path_In p l : mem_path p l = true <-> In p l.
Proof.
  induction l as [|q l IH]; cbn [mem_path In]; [split; [discriminate|tauto]|].
  rewrite orb_true_iff, IH. split; intros [H|H]; auto; left; [now apply bytes_eqb_eq|subst; apply bytes_eqb_refl].
Qed.

Lemma fold_entries i : forall t K,
  has_key t [] = true ->
  (forall q, has_key t q = true -> q = [] \/ In q K) ->
  (forall e, In e i -> nonzero e = true ->
     normal (ie_path e) = true /\ ~ In (ie_path e) K /\
     forall e', In e' i -> nonzero e' = true -> ~ In (ie_path e) (dirs_of (ie_path e'))) ->
  Permutation (tree_files (fold_left commit_entry i t)) (map proj (filter nonzero i) ++ tree_files t).
Proof.
  induction i as [|e i IH]; intros t K Hroot Hkeys Hg; [reflexivity|].
  cbn [fold_left filter]. destruct (nonzero e) eqn:Hz.
  - destruct (Hg e (or_introl eq_refl) Hz) as (Hn & HK & Hdf).
    assert (Hk : has_key t (ie_path e) = false).
    { destruct (has_key t (ie_path e)) eqn:H; [|reflexivity]. exfalso.
      destruct (Hkeys _ H) as [H'|H']; [|contradiction].
      unfold normal in Hn. rewrite H' in Hn. cbn in Hn. discriminate. }
    destruct (commit_entry_spec e t Hroot Hn Hz Hk) as (P1 & P2 & P3). cbv zeta in *.
    eapply perm_trans.
    + apply (IH (commit_entry t e) (K ++ dirs_of (ie_path e))).
      * now apply P2.
      * intros q Hq. destruct (P3 q Hq) as [H|H].
        -- destruct (Hkeys q H) as [H'|H']; [now left|right; apply in_or_app; now left].
        -- right. apply in_or_app. now right.
      * intros e2 He2 Hz2. destruct (Hg e2 (or_intror He2) Hz2) as (N2 & K2 & D2).
        split; [exact N2|]. split.
        -- intros Hin. apply in_app_or in Hin as [Hin|Hin]; [contradiction|].
           exact (D2 e (or_introl eq_refl) Hz Hin).
        -- intros e' He' Hz'. apply D2; [now right|exact Hz'].
    + cbn [map app]. eapply perm_trans; [apply Permutation_app_head; exact P1|].
      symmetry. apply Permutation_middle.
  - assert (E : commit_entry t e = t).
    { unfold commit_entry. unfold nonzero in Hz. apply negb_false_iff in Hz. now rewrite Hz. }
    rewrite E. apply (IH t K Hroot Hkeys). intros e2 He2 Hz2.
    destruct (Hg e2 (or_intror He2) Hz2) as (N2 & K2 & D2). split; [exact N2|]. split; [exact K2|].
    intros e' He' Hz'. apply D2; [now right|exact Hz'].
Qed.

(* normal paths, and no path is a directory of another *)
Definition tree_guard (i : list ientry) : bool :=
  let ps := map ie_path (filter nonzero i) in
  forallb normal ps && forallb (fun p => forallb (fun p' => negb (mem_path p (dirs_of p'))) ps) ps.

Theorem write_tree_nested s :
  tree_guard (st_index s) = true ->
  Permutation (g_commit_files s) (map proj (filter nonzero (st_index s))).
Proof.
  unfold tree_guard. intros G. apply andb_true_iff in G as [G1 G2].
  rewrite forallb_forall in G1, G2.
  unfold g_commit_files, build_trees.
  eapply perm_trans.
  - apply (fold_entries (st_index s) [([], [])] []); [reflexivity| |].
    + intros q Hq. unfold has_key in Hq. cbn [trees_get] in Hq. destruct (bytes_eqb [] q) eqn:E; [|discriminate].
      left. symmetry. now apply bytes_eqb_eq.
    + intros e He Hz.
      assert (Hin : In (ie_path e) (map ie_path (filter nonzero (st_index s)))).
      { apply in_map. apply filter_In. now split. }
      split; [now apply G1|]. split; [tauto|].
      intros e' He' Hz' Hd.
      assert (Hin' : In (ie_path e') (map ie_path (filter nonzero (st_index s)))).
      { apply in_map. apply filter_In. now split. }
      specialize (G2 _ Hin). rewrite forallb_forall in G2. specialize (G2 _ Hin').
      apply negb_true_iff in G2. apply mem_path_In in Hd. congruence.
  - cbn [tree_files flat_map app]. now rewrite app_nil_r.
Qed.

(* non-vacuity: nested directories, a dot-name next to a directory, symlink, executable *)
Example tree_guard_ex :
  let mk p := mkI p MReg (mkHash 0 1) 1 1 false in
  tree_guard [mk [97]; mk [100; 46; 120]; mk [100; 47; 101]; mk [100; 47; 103; 47; 104]; mk [122]] = true /\
  tree_guard [mk [97]; mk [97; 47; 98]] = false /\ tree_guard [mk [97; 47; 47; 98]] = false /\ tree_guard [mk [47; 97]] = false.
Proof. vm_compute. repeat split. Qed.
