(* Proofs/C37Queue.v — the commit queue of the revlist walk stays sorted
   newest-first, so Go's sort.Search (binary search) in insertSorted finds the
   same index as the model's linear scan. *)
From Coq Require Import List ZArith Bool Lia Sorting.Sorted.
From GoGit Require Import Model.RevList.
Import ListNotations.

Definition newer_eq (a b : cinfo) : Prop := (c_time b <= c_time a)%Z.

Lemma insert_sorted_In : forall q c x, In x (insert_sorted q c) <-> x = c \/ In x q.
Proof.
  induction q as [|y q IH]; intros c x; cbn [insert_sorted].
  - cbn. intuition.
  - destruct (c_time y <? c_time c)%Z.
    + cbn. intuition.
    + cbn. rewrite IH. intuition.
Qed.

Lemma insert_sorted_sorted : forall q c,
  StronglySorted newer_eq q -> StronglySorted newer_eq (insert_sorted q c).
Proof.
  induction q as [|y q IH]; intros c Hs; cbn [insert_sorted].
  - constructor; [constructor | constructor].
  - inversion Hs as [|? ? Hq Hall]; subst.
    destruct (c_time y <? c_time c)%Z eqn:E.
    + constructor; [exact Hs|].
      constructor.
      * unfold newer_eq. lia.
      * rewrite Forall_forall in *. intros z Hz. specialize (Hall z Hz). unfold newer_eq in *. lia.
    + constructor; [apply IH; exact Hq|].
      rewrite Forall_forall in *. intros z Hz.
      apply insert_sorted_In in Hz. destruct Hz as [->|Hz].
      * unfold newer_eq. lia.
      * apply Hall; exact Hz.
Qed.

(* sort.Search(len(q), func(i) q[i].When.Before(c.When)): on a sorted queue the
   predicate is monotone, and the index found is the length of the prefix of
   entries that are not older than c — what insert_sorted skips *)
Fixpoint first_older (q : list cinfo) (c : cinfo) : nat :=
  match q with
  | [] => O
  | x :: r => if (c_time x <? c_time c)%Z then O else S (first_older r c)
  end.

Lemma insert_sorted_at : forall q c,
  insert_sorted q c = firstn (first_older q c) q ++ c :: skipn (first_older q c) q.
Proof.
  induction q as [|y q IH]; intros c; cbn [insert_sorted first_older]; [reflexivity|].
  destruct (c_time y <? c_time c)%Z; cbn [firstn skipn app]; [reflexivity|].
  now rewrite IH.
Qed.

(* monotonicity of the search predicate on a sorted queue: every index before
   first_older fails it, every index from there on satisfies it *)
Lemma search_pred_monotone : forall q c, StronglySorted newer_eq q ->
  (forall x, In x (firstn (first_older q c) q) -> (c_time x <? c_time c)%Z = false) /\
  (forall x, In x (skipn (first_older q c) q) -> (c_time x <? c_time c)%Z = true).
Proof.
  induction q as [|y q IH]; intros c Hs; cbn [first_older].
  - split; intros x []; contradiction.
  - inversion Hs as [|? ? Hq Hall]; subst.
    destruct (c_time y <? c_time c)%Z eqn:E; cbn [firstn skipn].
    + split; [intros x []|].
      intros x [->|Hx]; [exact E|].
      rewrite Forall_forall in Hall. specialize (Hall x Hx). unfold newer_eq in Hall. lia.
    + destruct (IH c Hq) as [A B]. split.
      * intros x [->|Hx]; [exact E | now apply A].
      * exact B.
Qed.

Lemma fold_insert_sorted : forall l q,
  StronglySorted newer_eq q -> StronglySorted newer_eq (fold_left insert_sorted l q).
Proof.
  induction l as [|c l IH]; intros q Hq; cbn [fold_left]; [exact Hq|].
  apply IH, insert_sorted_sorted, Hq.
Qed.
