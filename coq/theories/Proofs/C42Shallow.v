(* Proofs/C42Shallow.v — isFastForward on a shallow history: the parents of the
   shallow commits are ignored by the walk; the answer is "true" exactly when
   old is reached, or the walk visits a shallow commit. *)
From Coq Require Import List Arith ZArith Bool Lia.
From GoGit Require Import Spec.Dag Model.CommitWalk Model.MergeBase Proofs.Worklist Proofs.C43.
Import ListNotations.

Section Shallow.
  Variable g : dag.
  Variable I : list node.
  (* every parent that is not ignored is in the store *)
  Hypothesis Hcl : forall c p : node, c < nnodes g -> In p (parents g c) -> ~ In p I -> p < nnodes g.
  Variable stop : node -> bool.

  Let n := nnodes g.
  Let w := fun c : node => length (parents g c).

  Definition succ_I (c : node) : list node := filter (fun p => negb (mem p I)) (parents g c).

  Lemma succ_I_lt : forall c p : node, c < n -> In p (succ_I c) -> p < n.
  Proof.
    intros c p Hc Hp. unfold succ_I in Hp. apply filter_In in Hp. destruct Hp as [Hp Hn].
    apply negb_true_iff, mem_false_In in Hn. eapply Hcl; eauto.
  Qed.

  Definition preI_pushed (c : node) (seen : list node) : list node :=
    filter (fun p => negb (mem p seen) && negb (mem p I)) (parents g c).
  Definition preI_push (c : node) (seen : list node) (st : list (list node)) := preI_pushed c seen :: st.
  Definition preI_gloop := gloop (list (list node)) pop_frames preI_push stop.

  Lemma preI_loop_eq : forall fuel (st : list (list node)) (seen acc : list node),
    (forall i, In i I -> In i seen) ->
    (forall x : node, In x (concat st) -> x < n) ->
    pre_loop g stop fuel st seen acc = preI_gloop fuel st seen acc.
  Proof.
    induction fuel as [|f IH]; intros st seen acc HI Hlt; [reflexivity|].
    simpl. destruct (pop_frames st) as [[h st']|] eqn:Ep; [|reflexivity].
    pose proof (pop_frames_some _ _ _ Ep) as Hc.
    assert (Hhlt : h < n) by (apply Hlt; rewrite Hc; now left).
    assert (Hh : present g h = true) by (unfold present; now apply Nat.ltb_lt).
    rewrite Hh. simpl.
    assert (Hlt' : forall x : node, In x (concat st') -> x < n).
    { intros x Hx. apply Hlt. rewrite Hc. now right. }
    destruct (mem h seen); [now apply IH|].
    destruct (stop h); [reflexivity|].
    assert (E : filter (fun p => negb (mem p (h :: seen))) (parents g h) = preI_pushed h (h :: seen)).
    { unfold preI_pushed. apply filter_ext_in. intros p Hp.
      destruct (mem p (h :: seen)) eqn:Em; [reflexivity|]. simpl.
      destruct (mem p I) eqn:Ei; [|reflexivity]. exfalso.
      apply mem_In in Ei. apply mem_false_In in Em. apply Em. right. now apply HI. }
    simpl in E. rewrite E. apply IH.
    - intros i Hi. right. now apply HI.
    - intros x Hx. unfold preI_push in Hx. simpl in Hx. apply in_app_or in Hx.
      destruct Hx as [Hx|Hx]; [|now apply Hlt'].
      unfold preI_pushed in Hx. apply filter_In in Hx. destruct Hx as [Hx Hb].
      apply andb_true_iff in Hb. destruct Hb as [_ Hb]. apply negb_true_iff, mem_false_In in Hb.
      eapply Hcl; eauto.
  Qed.

  Theorem pre_walk_post_I : forall s : node, s < n ->
    Post succ_I stop I s (pre_walk g stop (walk_fuel g) s I).
  Proof.
    intros s Hs. unfold pre_walk. rewrite preI_loop_eq.
    - unfold preI_gloop.
      eapply (gloop_post succ_I n w succ_I_lt (list (list node)) (@concat node) pop_frames preI_push preI_pushed).
      + apply pop_frames_none.
      + intros b c b' Hp x. rewrite (pop_frames_some _ _ _ Hp). simpl. split; intros [Hx|Hx]; auto.
      + intros b c b' Hp. rewrite (pop_frames_some _ _ _ Hp). reflexivity.
      + intros c sn b x. unfold preI_push. simpl. apply in_app_iff.
      + intros c sn b. unfold preI_push. simpl. apply app_length.
      + intros c sn x Hx. unfold preI_pushed in Hx. apply filter_In in Hx. destruct Hx as [Hx Hb].
        apply andb_true_iff in Hb. destruct Hb as [_ Hb]. unfold succ_I. apply filter_In. now split.
      + intros c sn p Hp Hn. unfold succ_I in Hp. apply filter_In in Hp. destruct Hp as [Hp Hb].
        unfold preI_pushed. apply filter_In. split; [exact Hp|]. rewrite Hb.
        apply mem_false_In in Hn. now rewrite Hn.
      + intros c sn. unfold preI_pushed, w. apply filter_length_le'.
      + apply (init_inv g stop succ_I I s (list (list node)) (@concat node)); [exact Hs | reflexivity].
      + simpl. apply (fuel_ok g). reflexivity.
    - tauto.
    - intros x Hx. simpl in Hx. destruct Hx as [Hx|[]]. now subst.
  Qed.
End Shallow.

Definition ff_ignore (g : dag) (shallows : list node) : list node :=
  flat_map (fun s => if present g s then parents g s else []) shallows.

Theorem is_fast_forward_shallow : forall g (old new : node) (shallows : list node),
  new < nnodes g ->
  (* every parent missing from the store belongs to a commit listed as shallow *)
  (forall c p : node, c < nnodes g -> In p (parents g c) -> nnodes g <= p -> In c shallows) ->
  let I := ff_ignore g shallows in
  exists b, is_fast_forward g old new shallows = BOk b /\
    (b = true <-> ra (succ_I g I) I new old \/ exists s, In s shallows /\ ra (succ_I g I) I new s).
Proof.
  intros g old new shallows Hn Hsh I.
  assert (Hcl : forall c p : node, c < nnodes g -> In p (parents g c) -> ~ In p I -> p < nnodes g).
  { intros c p Hc Hp Hni. destruct (Nat.lt_ge_cases p (nnodes g)) as [H|H]; [exact H|].
    exfalso. apply Hni. unfold I, ff_ignore. apply in_flat_map. exists c. split; [now apply (Hsh c p)|].
    assert (E : present g c = true) by (unfold present; now apply Nat.ltb_lt). now rewrite E. }
  unfold is_fast_forward.
  assert (Hp : present g new = true) by (unfold present; now apply Nat.ltb_lt).
  rewrite Hp. simpl negb. cbv iota. fold (ff_ignore g shallows). fold I.
  pose proof (pre_walk_post_I g I Hcl (Nat.eqb old) new Hn) as P.
  destruct (pre_walk g (Nat.eqb old) (walk_fuel g) new I) as [l e]. unfold Post in P.
  destruct P as [[He [_ [Hin [Hst _]]]] | [He [l' [c' [_ [Hs [Hra _]]]]]]]; subst e.
  - exists (existsb (fun c => mem c shallows) l). split; [reflexivity|]. split.
    + intros E. right. apply existsb_exists in E. destruct E as [s [Hs1 Hs2]].
      exists s. split; [now apply mem_In | now apply Hin].
    + intros [Ho | [s [Hs1 Hs2]]].
      * apply Hin in Ho. apply Hst in Ho. now rewrite Nat.eqb_refl in Ho.
      * apply existsb_exists. exists s. split; [now apply Hin | now apply mem_In].
  - exists true. split; [reflexivity|]. split; [|reflexivity]. intros _. left.
    apply Nat.eqb_eq in Hs. now subst c'.
Qed.
