(* Proofs/C53Tree.v — C53 for Tree.Decode (Model/TreeObj.v decode_go / decode):
   for EVERY byte string and every object-id size (0 included)
     total   the entry loop ends within |input|+1 rounds: never [inl DFuel];
     no_oob  a decoded entry has a non-empty name and an id of exactly hsz bytes
             (the id is only cut when hsz bytes remain: io.ReadFull semantics);
     alloc   the entries account for disjoint parts of the input:
             sum (|name| + hsz + 3) <= |input| and #entries * (hsz + 4) <= |input|. *)
From Coq Require Import List NArith ZArith Bool Lia Arith.
From GoGit Require Import Base.Out Gen.C04 Model.TreeObj.
Import ListNotations.

Lemma tcut_len c : forall s a b, tcut c s = Some (a, b) -> List.length s = (List.length a + 1 + List.length b)%nat.
Proof.
  induction s as [|x r IH]; intros a b H; cbn [tcut] in H; [discriminate|].
  destruct (N.eqb x c).
  - injection H as <- <-. cbn [List.length]. lia.
  - destruct (tcut c r) as [[a' b']|] eqn:E; [|discriminate]. injection H as <- <-.
    specialize (IH _ _ eq_refl). cbn [List.length]. lia.
Qed.

Lemma decode_go_S f hsz x b' acc :
  decode_go (S f) hsz (x :: b') acc =
  match tcut 32 (x :: b') with
  | None => inl DMalformed
  | Some (m, r) =>
    match mode_of_bytes m with
    | None => inl DMalformed
    | Some mode =>
      match tcut 0 r with
      | None => inl DMalformed
      | Some (name, r2) =>
        match name with
        | [] => inl DMalformed
        | _ => if Nat.ltb (List.length r2) hsz then inl DMalformed
               else decode_go f hsz (skipn hsz r2) (mkT (treeobj_canonicalTreeMode mode) name (firstn hsz r2) :: acc)
        end
      end
    end
  end.
Proof. reflexivity. Qed.

(* ---------------------------------------------------------------- total *)
Lemma decode_go_total hsz : forall f b acc, (List.length b < f)%nat -> decode_go f hsz b acc <> inl DFuel.
Proof.
  induction f as [|f IH]; intros b acc Hf; [lia|].
  destruct b as [|x b']; [cbn [decode_go]; discriminate|]. rewrite decode_go_S.
  destruct (tcut 32 (x :: b')) as [[m r]|] eqn:C1; [|discriminate].
  destruct (mode_of_bytes m); [|discriminate].
  destruct (tcut 0 r) as [[name r2]|] eqn:C2; [|discriminate].
  destruct name as [|c n]; [discriminate|].
  destruct (Nat.ltb (List.length r2) hsz); [discriminate|].
  apply IH. apply tcut_len in C1, C2. rewrite skipn_length. lia.
Qed.

Theorem decode_total hsz b : decode hsz b <> inl DFuel.
Proof. unfold decode. apply decode_go_total. lia. Qed.

(* ---------------------------------------------------------------- what an entry is made of *)
Definition entry_ok (hsz : nat) (e : tentry) : Prop := List.length (t_hash e) = hsz /\ t_name e <> [].

Lemma decode_go_entries hsz : forall f b acc l,
  decode_go f hsz b acc = inr l -> Forall (entry_ok hsz) acc -> Forall (entry_ok hsz) l.
Proof.
  induction f as [|f IH]; intros b acc l H Ha.
  - destruct b; cbn [decode_go] in H; [|discriminate]. injection H as <-. apply Forall_rev. exact Ha.
  - destruct b as [|x b']; [cbn [decode_go] in H; injection H as <-; apply Forall_rev; exact Ha|].
    rewrite decode_go_S in H.
    destruct (tcut 32 (x :: b')) as [[m r]|]; [|discriminate].
    destruct (mode_of_bytes m); [|discriminate].
    destruct (tcut 0 r) as [[name r2]|]; [|discriminate].
    destruct name as [|c n] eqn:N; [discriminate|].
    destruct (Nat.ltb_spec (List.length r2) hsz); [discriminate|].
    apply IH in H; [exact H|]. constructor; [|exact Ha]. split; cbn [t_hash t_name].
    + rewrite firstn_length. lia.
    + discriminate.
Qed.

Theorem decode_no_oob hsz b l : decode hsz b = inr l -> Forall (entry_ok hsz) l.
Proof. intros H. eapply decode_go_entries; [exact H|constructor]. Qed.

(* ---------------------------------------------------------------- size of what is built *)
Definition tsize (hsz : nat) (l : list tentry) : nat :=
  fold_right (fun e a => (List.length (t_name e) + hsz + 3 + a)%nat) 0%nat l.

Lemma tsize_app hsz a b : tsize hsz (a ++ b) = (tsize hsz a + tsize hsz b)%nat.
Proof. induction a as [|e a IH]; cbn [app tsize fold_right]; [reflexivity|]. fold (tsize hsz (a ++ b)). fold (tsize hsz a). lia. Qed.

Lemma tsize_rev hsz a : tsize hsz (rev a) = tsize hsz a.
Proof.
  induction a as [|e a IH]; [reflexivity|]. cbn [rev]. rewrite tsize_app, IH. cbn [tsize fold_right]. fold (tsize hsz a). lia.
Qed.

Lemma decode_go_size hsz : forall f b acc l,
  decode_go f hsz b acc = inr l -> (tsize hsz l <= tsize hsz acc + List.length b)%nat.
Proof.
  induction f as [|f IH]; intros b acc l H.
  - destruct b; cbn [decode_go] in H; [|discriminate]. injection H as <-. rewrite tsize_rev. lia.
  - destruct b as [|x b']; [cbn [decode_go] in H; injection H as <-; rewrite tsize_rev; lia|].
    rewrite decode_go_S in H.
    destruct (tcut 32 (x :: b')) as [[m r]|] eqn:C1; [|discriminate].
    destruct (mode_of_bytes m) eqn:M; [|discriminate].
    destruct (tcut 0 r) as [[name r2]|] eqn:C2; [|discriminate].
    destruct name as [|c n] eqn:N; [discriminate|]. rewrite <- N in *.
    destruct (Nat.ltb_spec (List.length r2) hsz); [discriminate|].
    apply IH in H. apply tcut_len in C1, C2. rewrite skipn_length in H.
    cbn [tsize fold_right t_name] in H. fold (tsize hsz acc) in H.
    assert (1 <= List.length m)%nat.
    { unfold mode_of_bytes in M. destruct (List.length m); [discriminate|lia]. }
    lia.
Qed.

Lemma tsize_count hsz l : Forall (entry_ok hsz) l -> (List.length l * (hsz + 4) <= tsize hsz l)%nat.
Proof.
  induction 1 as [|e l [_ Hn] _ IH]; [cbn; lia|]. cbn [List.length tsize fold_right]. fold (tsize hsz l).
  destruct (t_name e); [congruence|]. cbn [List.length]. lia.
Qed.

Theorem decode_alloc hsz b l : decode hsz b = inr l ->
  (tsize hsz l <= List.length b)%nat /\ (List.length l * (hsz + 4) <= List.length b)%nat.
Proof.
  intros H. pose proof (decode_go_size _ _ _ _ _ H) as S1. cbn [tsize fold_right] in S1.
  pose proof (tsize_count hsz l (decode_no_oob _ _ _ H)). lia.
Qed.
