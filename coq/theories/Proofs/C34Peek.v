(* Proofs/C34Peek.v — PeekLine sees what ReadLine would read, for any chunking,
   when the bufio buffer can hold the packet. *)
From Coq Require Import List NArith ZArith Bool Lia Arith.
From GoGit Require Import Base.Out Base.GoInt Gen.C34 Model.PktLine Proofs.C34Stream Proofs.C34Hex Proofs.C34Pkt.
Import ListNotations.

Arguments MaxSizeN : simpl never.
Opaque MaxSizeN.

Lemma peek_ok bufsize r n : (n <= bufsize)%nat -> (n <= List.length (concat r))%nat ->
  peek bufsize r n = (Some (firstn n (concat r)), None).
Proof.
  intros Hb Hl. unfold peek. destruct (Nat.ltb_spec bufsize n); [lia|].
  pose proof (take_fst r n) as Hf. destruct (take r n) as [x r']. cbn [fst] in Hf. subst x.
  rewrite firstn_length, Nat.min_l by lia. now rewrite Nat.ltb_irrefl.
Qed.

Theorem peek_line_enc bufsize r p e rest :
  enc_pkt p = Some e -> concat r = e ++ rest -> (List.length e <= bufsize)%nat ->
  peek_line bufsize r = rd_of_pkt MaxSizeN p.
Proof.
  intros He Hr Hb. pose proof (enc_pkt_some_ok _ _ He) as Hok.
  destruct (enc_pkt_ok p Hok) as (e' & He' & Hlen). rewrite He in He'. injection He' as <-.
  unfold peek_line. rewrite LenSizeN_eq.
  rewrite peek_ok by (try lia; rewrite Hr, app_length; lia).
  destruct p as [b| | |]; cbn [enc_pkt] in He.
  - cbn [pkt_ok] in Hok. apply Z.leb_le in Hok. rewrite pkt_write_some in He by assumption.
    destruct (Nat.eqb_spec (List.length b) 0) as [E|E].
    + assert (e = emptyPkt) as -> by congruence. rewrite Hr. rewrite firstn_app_exact by reflexivity.
      rewrite parse_empty. unfold rd_of_pkt. rewrite E. reflexivity.
    + assert (e = hex16 (zlen b + 4) ++ b) as -> by congruence. rewrite Hr, <- app_assoc.
      rewrite firstn_app_exact by apply hex16_length.
      unfold pktline_MaxPayloadSize in Hok.
      assert (1 <= zlen b)%Z by (unfold zlen; lia).
      rewrite parse_length_hex16 by (unfold pktline_MaxSize; lia).
      unfold pktline_Flush, pktline_Delim, pktline_ResponseEnd, pktline_LenSize.
      destruct (Z.eqb_spec (zlen b + 4) 0); [lia|]. destruct (Z.eqb_spec (zlen b + 4) 1); [lia|].
      destruct (Z.eqb_spec (zlen b + 4) 2); [lia|]. destruct (Z.eqb_spec (zlen b + 4) 4); [lia|]. cbn [orb].
      rewrite app_length, hex16_length in Hb.
      rewrite peek_ok; [|unfold zlen; lia|rewrite Hr, <- app_assoc, !app_length, hex16_length; unfold zlen; lia].
      rewrite Hr, <- app_assoc. replace (Z.to_nat (zlen b + 4)) with (4 + List.length b)%nat by (unfold zlen; lia).
      rewrite firstn_add, firstn_app_exact by apply hex16_length. rewrite skipn_app_exact by apply hex16_length.
      rewrite (skipn_app_exact (hex16 (zlen b + 4)) (b ++ rest) 4 (hex16_length _)), (firstn_app_exact b rest (List.length b) eq_refl).
      unfold rd_of_pkt. destruct (Nat.eqb_spec (List.length b) 0); [contradiction|].
      destruct (Z.gtb_spec (zlen b + 4) (Z.of_nat MaxSizeN)); [rewrite MaxSizeN_Z in *; lia|]. reflexivity.
  - assert (e = flushPkt) as -> by congruence. rewrite Hr, firstn_app_exact by reflexivity. now rewrite parse_flush.
  - assert (e = delimPkt) as -> by congruence. rewrite Hr, firstn_app_exact by reflexivity. now rewrite parse_delim.
  - assert (e = responseEndPkt) as -> by congruence. rewrite Hr, firstn_app_exact by reflexivity. now rewrite parse_rend.
Qed.
