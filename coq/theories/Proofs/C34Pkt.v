(* Proofs/C34Pkt.v — pkt-line reading: chunking independence, what a read of
   an encoded packet returns (any buffer size: round trip and resync), what a
   successful read means on arbitrary bytes, and totality of the read loops. *)
From Coq Require Import List NArith ZArith Bool Lia Arith.
From GoGit Require Import Base.Out Base.GoInt Gen.C34 Model.PktLine Proofs.C34Stream Proofs.C34Hex.
Import ListNotations.

Arguments MaxSizeN : simpl never.

(* ---------- chunking independence of Read ---------- *)
Lemma pkt_read_flat bufsz r1 r2 : concat r1 = concat r2 ->
  fst (pkt_read bufsz r1) = fst (pkt_read bufsz r2) /\
  concat (snd (pkt_read bufsz r1)) = concat (snd (pkt_read bufsz r2)).
Proof.
  intros H. unfold pkt_read.
  destruct (Nat.ltb bufsz LenSizeN); [now cbn|].
  destruct (take_flat r1 r2 LenSizeN H) as [Hh Hr].
  destruct (take r1 LenSizeN) as [h1 s1], (take r2 LenSizeN) as [h2 s2]. cbn [fst snd] in Hh, Hr. subst h2.
  destruct (Nat.eqb (List.length h1) 0); [now cbn|].
  destruct (Nat.ltb (List.length h1) LenSizeN); [now cbn|].
  destruct (parse_length h1) as [len|]; [|now cbn].
  destruct ((len =? pktline_Flush)%Z || (len =? pktline_Delim)%Z || (len =? pktline_ResponseEnd)%Z); [now cbn|].
  destruct (len =? pktline_LenSize)%Z; [now cbn|].
  destruct (take_flat s1 s2 (Z.to_nat (len - pktline_LenSize)) Hr) as [Hp Hq].
  destruct (take s1 (Z.to_nat (len - pktline_LenSize))) as [p1 q1], (take s2 (Z.to_nat (len - pktline_LenSize))) as [p2 q2].
  cbn [fst snd] in Hp, Hq. subst p2.
  destruct (len >? Z.of_nat bufsz)%Z; [now cbn|].
  destruct (Nat.eqb (List.length p1) 0); [now cbn|].
  destruct (Nat.ltb (List.length p1) (Z.to_nat (len - pktline_LenSize))); now cbn.
Qed.

Lemma rlen_flat r1 r2 : concat r1 = concat r2 -> rlen r1 = rlen r2.
Proof. unfold rlen. now intros ->. Qed.

Lemma read_all_go_flat bufsz : forall fuel r1 r2 acc, concat r1 = concat r2 ->
  read_all_go fuel bufsz r1 acc = read_all_go fuel bufsz r2 acc.
Proof.
  induction fuel as [|f IH]; intros r1 r2 acc H; [reflexivity|].
  cbn [read_all_go]. destruct (pkt_read_flat bufsz r1 r2 H) as [Hd Hr].
  destruct (pkt_read bufsz r1) as [d1 s1], (pkt_read bufsz r2) as [d2 s2]. cbn [fst snd] in Hd, Hr. subst d2.
  rewrite (rlen_flat _ _ H), (rlen_flat _ _ Hr).
  destruct (rd_err d1) as [[]|]; try reflexivity;
    destruct (Nat.ltb (rlen s2) (rlen r2)); try reflexivity; now apply IH.
Qed.

Lemma read_all_flat bufsz r1 r2 : concat r1 = concat r2 -> read_all bufsz r1 = read_all bufsz r2.
Proof. intros H. unfold read_all. rewrite (rlen_flat _ _ H). now apply read_all_go_flat. Qed.

Lemma scan_flat r1 r2 : concat r1 = concat r2 ->
  fst (scan r1) = fst (scan r2) /\ concat (snd (scan r1)) = concat (snd (scan r2)).
Proof.
  intros H. unfold scan. destruct (pkt_read_flat MaxSizeN r1 r2 H) as [Hd Hr].
  destruct (pkt_read MaxSizeN r1) as [d1 s1], (pkt_read MaxSizeN r2) as [d2 s2]. cbn [fst snd] in Hd, Hr. subst d2.
  destruct (rd_err d1) as [[]|]; now cbn.
Qed.

Lemma scan_all_go_flat : forall fuel r1 r2 acc, concat r1 = concat r2 ->
  scan_all_go fuel r1 acc = scan_all_go fuel r2 acc.
Proof.
  induction fuel as [|f IH]; intros r1 r2 acc H; [reflexivity|].
  cbn [scan_all_go]. destruct (scan_flat r1 r2 H) as [Hd Hr].
  destruct (scan r1) as [d1 s1], (scan r2) as [d2 s2]. cbn [fst snd] in Hd, Hr. subst d2.
  destruct (sc_ok d1); [now apply IH|reflexivity].
Qed.

Lemma scan_all_flat r1 r2 : concat r1 = concat r2 -> scan_all r1 = scan_all r2.
Proof. intros H. unfold scan_all. rewrite (rlen_flat _ _ H). now apply scan_all_go_flat. Qed.

(* ---------- Write ---------- *)
Lemma pkt_write_some p :
  (zlen p <= pktline_MaxPayloadSize)%Z ->
  pkt_write p = Some (if Nat.eqb (List.length p) 0 then emptyPkt else hex16 (zlen p + 4) ++ p).
Proof.
  intros H. unfold pkt_write. destruct (Nat.eqb (List.length p) 0); [reflexivity|].
  destruct (Z.gtb_spec (zlen p) pktline_MaxPayloadSize); [lia|reflexivity].
Qed.

Lemma pkt_write_none p : (zlen p > pktline_MaxPayloadSize)%Z -> pkt_write p = None.
Proof.
  intros H. unfold pkt_write.
  destruct (Nat.eqb_spec (List.length p) 0) as [E|E].
  { unfold zlen in H. rewrite E in H. unfold pktline_MaxPayloadSize in H. lia. }
  destruct (Z.gtb_spec (zlen p) pktline_MaxPayloadSize); [reflexivity|lia].
Qed.

(* ---------- reading back one encoded packet, any chunking, any buffer ---------- *)
(* what Read returns for packet p with a buffer of bufsz bytes *)
Definition rd_of_pkt (bufsz : nat) (p : pkt) : rd :=
  match p with
  | PFlush => mkrd 0 [] None
  | PDelim => mkrd 1 [] None
  | PResponseEnd => mkrd 2 [] None
  | PData b =>
    if Nat.eqb (List.length b) 0 then mkrd 4 [] None
    else if (zlen b + 4 >? Z.of_nat bufsz)%Z then rd_fail PEunexpected
    else mkrd (zlen b + 4) b (errline_of b)
  end.

Lemma firstn_app_exact {A} (a b : list A) n : List.length a = n -> firstn n (a ++ b) = a.
Proof. intros <-. rewrite firstn_app, Nat.sub_diag, firstn_all. cbn. apply app_nil_r. Qed.
Lemma skipn_app_exact {A} (a b : list A) n : List.length a = n -> skipn n (a ++ b) = b.
Proof. intros <-. rewrite skipn_app, Nat.sub_diag, skipn_all. reflexivity. Qed.

Ltac take_eqn r n h s Hf Hs :=
  pose proof (take_fst r n) as Hf; pose proof (take_snd r n) as Hs;
  destruct (take r n) as [h s]; cbn [fst snd] in Hf, Hs.

Lemma pkt_read_special bufsz r e rest len :
  (4 <= bufsz)%nat -> List.length e = 4%nat -> parse_length e = Some len ->
  (len = 0 \/ len = 1 \/ len = 2 \/ len = 4)%Z ->
  concat r = e ++ rest ->
  fst (pkt_read bufsz r) = mkrd len [] None /\ concat (snd (pkt_read bufsz r)) = rest.
Proof.
  intros Hb He Hp Hl Hr. unfold pkt_read. rewrite LenSizeN_eq.
  destruct (Nat.ltb_spec bufsz 4); [lia|].
  take_eqn r 4%nat hdr r1 Hf Hs. rewrite Hr in Hf, Hs.
  rewrite firstn_app_exact in Hf by assumption. rewrite skipn_app_exact in Hs by assumption. subst hdr.
  rewrite He. change (Nat.eqb 4 0) with false; change (Nat.ltb 4 4) with false; cbv iota. rewrite Hp.
  unfold pktline_Flush, pktline_Delim, pktline_ResponseEnd, pktline_LenSize.
  destruct Hl as [->|[->|[->| ->]]]; cbn; auto.
Qed.

Lemma pkt_read_data bufsz r b rest :
  (4 <= bufsz)%nat -> (1 <= zlen b <= pktline_MaxPayloadSize)%Z ->
  concat r = hex16 (zlen b + 4) ++ b ++ rest ->
  fst (pkt_read bufsz r) = rd_of_pkt bufsz (PData b) /\ concat (snd (pkt_read bufsz r)) = rest.
Proof.
  intros Hb Hl Hr. unfold pkt_read. rewrite LenSizeN_eq.
  destruct (Nat.ltb_spec bufsz 4); [lia|].
  take_eqn r 4%nat hdr r1 Hf Hs. rewrite Hr in Hf, Hs.
  rewrite firstn_app_exact in Hf by apply hex16_length.
  rewrite skipn_app_exact in Hs by apply hex16_length. subst hdr.
  rewrite hex16_length. change (Nat.eqb 4 0) with false; change (Nat.ltb 4 4) with false; cbv iota.
  unfold pktline_MaxPayloadSize in Hl.
  rewrite parse_length_hex16 by (unfold pktline_MaxSize; lia).
  unfold pktline_Flush, pktline_Delim, pktline_ResponseEnd, pktline_LenSize.
  destruct (Z.eqb_spec (zlen b + 4) 0); [lia|]. destruct (Z.eqb_spec (zlen b + 4) 1); [lia|].
  destruct (Z.eqb_spec (zlen b + 4) 2); [lia|]. destruct (Z.eqb_spec (zlen b + 4) 4); [lia|].
  cbn [orb].
  replace (Z.to_nat (zlen b + 4 - 4)) with (List.length b) by (unfold zlen; lia).
  take_eqn r1 (List.length b) pl r2 Hf2 Hs2. rewrite Hs in Hf2, Hs2.
  rewrite firstn_app_exact in Hf2 by reflexivity. rewrite skipn_app_exact in Hs2 by reflexivity. subst pl.
  unfold rd_of_pkt. destruct (Nat.eqb_spec (List.length b) 0) as [E|E]; [unfold zlen in Hl; lia|].
  destruct (zlen b + 4 >? Z.of_nat bufsz)%Z; [now cbn|].
  rewrite Nat.ltb_irrefl. now cbn.
Qed.

(* the bytes of one packet, when it is encodable *)
Definition pkt_ok (p : pkt) : bool :=
  match p with PData b => (zlen b <=? pktline_MaxPayloadSize)%Z | _ => true end.

Lemma enc_pkt_ok p : pkt_ok p = true -> exists e, enc_pkt p = Some e /\ (4 <= List.length e)%nat.
Proof.
  destruct p as [b| | |]; cbn [pkt_ok enc_pkt]; intros H; try (eexists; split; [reflexivity|cbn; lia]).
  apply Z.leb_le in H. rewrite pkt_write_some by assumption. eexists; split; [reflexivity|].
  destruct (Nat.eqb (List.length b) 0); [cbn; lia|]. rewrite app_length, hex16_length. lia.
Qed.

Lemma enc_pkt_some_ok p e : enc_pkt p = Some e -> pkt_ok p = true.
Proof.
  destruct p as [b| | |]; cbn [pkt_ok enc_pkt]; auto. intros H.
  destruct (Z.leb_spec (zlen b) pktline_MaxPayloadSize); [reflexivity|].
  rewrite pkt_write_none in H by lia. discriminate.
Qed.

Lemma pkt_read_enc bufsz r p e rest :
  (4 <= bufsz)%nat -> enc_pkt p = Some e -> concat r = e ++ rest ->
  fst (pkt_read bufsz r) = rd_of_pkt bufsz p /\ concat (snd (pkt_read bufsz r)) = rest.
Proof.
  intros Hb He Hr. pose proof (enc_pkt_some_ok _ _ He) as Hok.
  destruct p as [b| | |]; cbn [enc_pkt] in He.
  - cbn [pkt_ok] in Hok. apply Z.leb_le in Hok. rewrite pkt_write_some in He by assumption.
    assert (e = (if Nat.eqb (List.length b) 0 then emptyPkt else hex16 (zlen b + 4) ++ b)) as -> by congruence.
    clear He. revert Hr. unfold rd_of_pkt at 1.
    destruct (Nat.eqb_spec (List.length b) 0) as [E|E]; intros Hr.
    + eapply pkt_read_special; eauto using parse_empty; try reflexivity; lia.
    + rewrite <- app_assoc in Hr.
      destruct (pkt_read_data bufsz r b rest Hb) as [H1 H2]; [unfold zlen in *; lia|assumption|].
      split; [|assumption]. rewrite H1. unfold rd_of_pkt.
      destruct (Nat.eqb_spec (List.length b) 0); [contradiction|reflexivity].
  - injection He as <-. eapply pkt_read_special; eauto using parse_flush; try reflexivity; lia.
  - injection He as <-. eapply pkt_read_special; eauto using parse_delim; try reflexivity; lia.
  - injection He as <-. eapply pkt_read_special; eauto using parse_rend; try reflexivity; lia.
Qed.

(* ---------- a whole stream of packets ---------- *)
Lemma enc_pkts_cons p ps s :
  enc_pkts (p :: ps) = Some s -> exists e s', enc_pkt p = Some e /\ enc_pkts ps = Some s' /\ s = e ++ s'.
Proof.
  cbn [enc_pkts]. destruct (enc_pkt p) as [e|]; [|discriminate].
  destruct (enc_pkts ps) as [s'|]; [|discriminate]. intros [= <-]. eauto.
Qed.

Lemma rd_of_pkt_not_eof bufsz p : rd_err (rd_of_pkt bufsz p) <> Some PEeof.
Proof.
  destruct p as [b| | |]; cbn; try discriminate.
  destruct (Nat.eqb (List.length b) 0); [cbn; discriminate|].
  destruct (zlen b + 4 >? Z.of_nat bufsz)%Z; [cbn; discriminate|].
  cbn. unfold errline_of. destruct (has_prefix errPrefix b); discriminate.
Qed.

Lemma pkt_read_empty bufsz r : (4 <= bufsz)%nat -> concat r = [] ->
  fst (pkt_read bufsz r) = rd_fail PEeof.
Proof.
  intros Hb Hr. unfold pkt_read. rewrite LenSizeN_eq.
  destruct (Nat.ltb_spec bufsz 4); [lia|].
  take_eqn r 4%nat hdr r1 Hf Hs. rewrite Hr in Hf. cbn in Hf. subst hdr. reflexivity.
Qed.

Lemma read_all_go_enc bufsz : (4 <= bufsz)%nat -> forall ps fuel r acc s,
  enc_pkts ps = Some s -> concat r = s -> (List.length ps < fuel)%nat ->
  read_all_go fuel bufsz r acc = RAll (rev acc ++ map (rd_of_pkt bufsz) ps ++ [rd_fail PEeof]).
Proof.
  intros Hb. induction ps as [|p ps IH]; intros fuel r acc s He Hr Hf.
  - cbn in He. injection He as <-. destruct fuel as [|f]; [cbn in Hf; lia|].
    cbn [read_all_go]. pose proof (pkt_read_empty bufsz r Hb Hr) as Hd.
    destruct (pkt_read bufsz r) as [d r']. cbn [fst] in Hd. subst d. cbn. reflexivity.
  - apply enc_pkts_cons in He. destruct He as (e & s' & Hp & Hps & ->).
    destruct fuel as [|f]; [cbn in Hf; lia|]. cbn [read_all_go].
    destruct (pkt_read_enc bufsz r p e s' Hb Hp Hr) as [Hd Hrest].
    destruct (enc_pkt_ok p (enc_pkt_some_ok _ _ Hp)) as (e' & He' & Hlen). rewrite Hp in He'. injection He' as <-.
    destruct (pkt_read bufsz r) as [d r'] eqn:R. cbn [fst snd] in Hd, Hrest. subst d.
    assert (rlen r' < rlen r)%nat as Hlt.
    { unfold rlen. rewrite Hrest, Hr, app_length. lia. }
    apply Nat.ltb_lt in Hlt. rewrite Hlt.
    pose proof (rd_of_pkt_not_eof bufsz p) as Hne.
    assert (read_all_go f bufsz r' (rd_of_pkt bufsz p :: acc)
            = RAll (rev acc ++ map (rd_of_pkt bufsz) (p :: ps) ++ [rd_fail PEeof])) as Hgo.
    { rewrite (IH f r' (rd_of_pkt bufsz p :: acc) s' Hps Hrest) by (cbn in Hf; lia).
      cbn [rev map]. rewrite <- !app_assoc. reflexivity. }
    destruct (rd_err (rd_of_pkt bufsz p)) as [[]|]; try exact Hgo. contradiction.
Qed.

Lemma enc_pkts_length ps s : enc_pkts ps = Some s -> (4 * List.length ps <= List.length s)%nat.
Proof.
  revert s. induction ps as [|p ps IH]; intros s H; [cbn; lia|].
  apply enc_pkts_cons in H. destruct H as (e & s' & Hp & Hps & ->).
  destruct (enc_pkt_ok p (enc_pkt_some_ok _ _ Hp)) as (e' & He' & Hlen). rewrite Hp in He'. injection He' as <-.
  specialize (IH _ Hps). rewrite app_length. cbn [List.length]. lia.
Qed.

Theorem read_all_enc bufsz ps s r :
  (4 <= bufsz)%nat -> enc_pkts ps = Some s -> concat r = s ->
  read_all bufsz r = RAll (map (rd_of_pkt bufsz) ps ++ [rd_fail PEeof]).
Proof.
  intros Hb He Hr. unfold read_all.
  rewrite (read_all_go_enc bufsz Hb ps _ r [] s He Hr); [reflexivity|].
  pose proof (enc_pkts_length _ _ He). unfold rlen. rewrite Hr. lia.
Qed.

(* the same for the Scanner loop: stops at the first error line *)
Definition no_errline (p : pkt) : bool :=
  match p with PData b => negb (has_prefix errPrefix b) | _ => true end.

Lemma rd_of_pkt_max p : pkt_ok p = true -> no_errline p = true ->
  rd_err (rd_of_pkt MaxSizeN p) = None /\
  rd_of_pkt MaxSizeN p =
    match p with
    | PData b => mkrd (if Nat.eqb (List.length b) 0 then 4 else zlen b + 4) b None
    | PFlush => mkrd 0 [] None | PDelim => mkrd 1 [] None | PResponseEnd => mkrd 2 [] None
    end.
Proof.
  destruct p as [b| | |]; cbn [pkt_ok no_errline rd_of_pkt]; intros Hok Hne; auto.
  destruct (Nat.eqb_spec (List.length b) 0) as [E|E].
  { destruct b; [auto|discriminate]. }
  apply Z.leb_le in Hok. unfold pktline_MaxPayloadSize in Hok.
  destruct (Z.gtb_spec (zlen b + 4) (Z.of_nat MaxSizeN)); [rewrite MaxSizeN_Z in *; lia|].
  unfold errline_of. apply negb_true_iff in Hne. rewrite Hne. auto.
Qed.

(* ---------- what a successful read means on ARBITRARY bytes ---------- *)
Lemma pkt_read_sound bufsz r d r' :
  pkt_read bufsz r = (d, r') ->
  (rd_err d = None \/ exists t, rd_err d = Some (PEerrline t)) ->
  exists n, parse_length (firstn 4 (concat r)) = Some n /\ rd_len d = n /\ (4 <= List.length (concat r))%nat /\
    (if (n <=? 4)%Z then rd_payload d = [] /\ concat r' = skipn 4 (concat r)
     else rd_payload d = firstn (Z.to_nat n - 4) (skipn 4 (concat r)) /\
          List.length (rd_payload d) = (Z.to_nat n - 4)%nat /\ (n <= Z.of_nat bufsz)%Z /\
          concat r' = skipn (Z.to_nat n) (concat r)).
Proof.
  unfold pkt_read. rewrite LenSizeN_eq. intros H Hok.
  assert (forall e, e <> PEeof -> e <> PEunexpected -> e <> PEinvalid -> True) as _ by auto.
  destruct (Nat.ltb bufsz 4).
  { injection H as <- <-. cbn in Hok. destruct Hok as [?|[? ?]]; discriminate. }
  take_eqn r 4%nat hdr r1 Hf Hs.
  destruct (Nat.eqb (List.length hdr) 0).
  { injection H as <- <-. cbn in Hok. destruct Hok as [?|[? ?]]; discriminate. }
  destruct (Nat.ltb_spec (List.length hdr) 4).
  { injection H as <- <-. cbn in Hok. destruct Hok as [?|[? ?]]; discriminate. }
  assert (4 <= List.length (concat r))%nat as Hlen.
  { subst hdr. rewrite firstn_length in *. lia. }
  destruct (parse_length hdr) as [n|] eqn:Hp.
  2:{ injection H as <- <-. cbn in Hok. destruct Hok as [?|[? ?]]; discriminate. }
  pose proof (parse_length_range _ _ Hp) as [Hrange Hn3]. unfold pktline_MaxSize in Hrange.
  exists n. subst hdr. split; [assumption|].
  unfold pktline_Flush, pktline_Delim, pktline_ResponseEnd, pktline_LenSize in H.
  destruct ((n =? 0)%Z || (n =? 1)%Z || (n =? 2)%Z) eqn:Es.
  { injection H as <- <-. cbn. split; [reflexivity|]. split; [assumption|].
    destruct (Z.leb_spec n 4); [auto|].
    apply orb_prop in Es. destruct Es as [Es|Es]; [apply orb_prop in Es; destruct Es as [Es|Es]|]; apply Z.eqb_eq in Es; lia. }
  destruct (Z.eqb_spec n 4).
  { injection H as <- <-. cbn. subst n. cbn. auto. }
  assert (4 < n)%Z as Hn4.
  { apply orb_false_elim in Es. destruct Es as [Es E2]. apply orb_false_elim in Es. destruct Es as [E0 E1].
    apply Z.eqb_neq in E0, E1, E2. lia. }
  take_eqn r1 (Z.to_nat (n - 4)) pl r2 Hf2 Hs2.
  destruct (Z.gtb_spec n (Z.of_nat bufsz)).
  { injection H as <- <-. cbn in Hok. destruct Hok as [?|[? ?]]; discriminate. }
  destruct (Nat.eqb (List.length pl) 0).
  { injection H as <- <-. cbn in Hok. destruct Hok as [?|[? ?]]; discriminate. }
  destruct (Nat.ltb_spec (List.length pl) (Z.to_nat (n - 4))).
  { injection H as <- <-. cbn in Hok. destruct Hok as [?|[? ?]]; discriminate. }
  injection H as <- <-. cbn [rd_len rd_payload]. split; [reflexivity|]. split; [assumption|].
  destruct (Z.leb_spec n 4); [lia|].
  replace (Z.to_nat n - 4)%nat with (Z.to_nat (n - 4)) by lia.
  rewrite Hs in Hf2, Hs2. subst pl. split; [reflexivity|]. split.
  { rewrite firstn_length in *. lia. }
  split; [lia|]. rewrite Hs2, skipn_skipn'. f_equal. lia.
Qed.

(* a malformed length prefix is an error that consumes exactly the prefix *)
Lemma pkt_read_malformed bufsz r :
  (4 <= bufsz)%nat -> (4 <= List.length (concat r))%nat ->
  parse_length (firstn 4 (concat r)) = None ->
  fst (pkt_read bufsz r) = rd_fail PEinvalid /\ concat (snd (pkt_read bufsz r)) = skipn 4 (concat r).
Proof.
  intros Hb Hl Hp. unfold pkt_read. rewrite LenSizeN_eq.
  destruct (Nat.ltb_spec bufsz 4); [lia|].
  take_eqn r 4%nat hdr r1 Hf Hs. subst hdr.
  rewrite firstn_length, Nat.min_l by lia. change (Nat.eqb 4 0) with false; change (Nat.ltb 4 4) with false; cbv iota.
  rewrite Hp. now cbn.
Qed.

(* ---------- totality: the read loops never run out of fuel ---------- *)
Lemma pkt_read_rlen bufsz r : (rlen (snd (pkt_read bufsz r)) <= rlen r)%nat.
Proof.
  unfold pkt_read. destruct (Nat.ltb bufsz LenSizeN); [cbn [snd]; lia|].
  pose proof (rlen_take r LenSizeN) as H1.
  destruct (take r LenSizeN) as [hdr r1]. cbn [snd] in H1.
  destruct (Nat.eqb (List.length hdr) 0); [cbn [snd]; lia|].
  destruct (Nat.ltb (List.length hdr) LenSizeN); [cbn [snd]; lia|].
  destruct (parse_length hdr) as [len|]; [|cbn [snd]; lia].
  destruct ((len =? pktline_Flush)%Z || (len =? pktline_Delim)%Z || (len =? pktline_ResponseEnd)%Z); [cbn [snd]; lia|].
  destruct (len =? pktline_LenSize)%Z; [cbn [snd]; lia|].
  pose proof (rlen_take r1 (Z.to_nat (len - pktline_LenSize))) as H2.
  destruct (take r1 (Z.to_nat (len - pktline_LenSize))) as [pl r2]. cbn [snd] in H2.
  destruct (len >? Z.of_nat bufsz)%Z; [cbn [snd]; lia|].
  destruct (Nat.eqb (List.length pl) 0); [cbn [snd]; lia|].
  destruct (Nat.ltb (List.length pl) (Z.to_nat (len - pktline_LenSize))); cbn [snd]; lia.
Qed.

Lemma read_all_go_total bufsz : forall fuel r acc, (rlen r < fuel)%nat -> read_all_go fuel bufsz r acc <> RFuel.
Proof.
  induction fuel as [|f IH]; intros r acc H; [lia|].
  cbn [read_all_go]. destruct (pkt_read bufsz r) as [d r'] eqn:R.
  assert (forall a, (if Nat.ltb (rlen r') (rlen r) then read_all_go f bufsz r' a else RAll (rev a)) <> RFuel) as K.
  { intros a. destruct (Nat.ltb_spec (rlen r') (rlen r)); [apply IH; lia|discriminate]. }
  destruct (rd_err d) as [[]|]; try apply K. discriminate.
Qed.

Theorem read_all_total bufsz r : read_all bufsz r <> RFuel.
Proof. unfold read_all. apply read_all_go_total. lia. Qed.

Lemma scan_ok_consumes r : sc_ok (fst (scan r)) = true -> (rlen (snd (scan r)) + 4 <= rlen r)%nat.
Proof.
  unfold scan. destruct (pkt_read MaxSizeN r) as [d r'] eqn:R.
  destruct (rd_err d) as [e|] eqn:E.
  { destruct e; cbn; discriminate. }
  intros _. cbn [snd].
  destruct (pkt_read_sound _ _ _ _ R (or_introl E)) as (n & Hp & _ & Hl & Hrest).
  pose proof (parse_length_range _ _ Hp) as [Hr _].
  unfold rlen. destruct (Z.leb_spec n 4).
  - destruct Hrest as [_ ->]. rewrite skipn_length. lia.
  - destruct Hrest as (Hpl & Hpl2 & _ & ->). rewrite skipn_length.
    rewrite Hpl, firstn_length, skipn_length in Hpl2. lia.
Qed.

Lemma scan_all_go_total : forall fuel r acc, (rlen r < fuel)%nat -> scan_all_go fuel r acc <> RFuel.
Proof.
  induction fuel as [|f IH]; intros r acc H; [lia|].
  cbn [scan_all_go]. pose proof (scan_ok_consumes r) as C.
  destruct (scan r) as [s r']. cbn [fst snd] in C.
  destruct (sc_ok s); [|discriminate]. apply IH. specialize (C eq_refl). lia.
Qed.

Theorem scan_all_total r : scan_all r <> RFuel.
Proof. unfold scan_all. apply scan_all_go_total. lia. Qed.

(* ---------- the Scanner loop on an encoded stream ---------- *)
Lemma scan_all_go_enc : forall ps fuel r acc s,
  enc_pkts ps = Some s -> concat r = s -> forallb no_errline ps = true -> (List.length ps < fuel)%nat ->
  scan_all_go fuel r acc = RAll (rev acc ++ map (rd_of_pkt MaxSizeN) ps ++ [mkrd (-1) [] None]).
Proof.
  assert (4 <= MaxSizeN)%nat as Hb by (pose proof MaxSizeN_Z; lia).
  induction ps as [|p ps IH]; intros fuel r acc s He Hr Hne Hf.
  - cbn in He. injection He as <-. destruct fuel as [|f]; [cbn in Hf; lia|].
    cbn [scan_all_go]. unfold scan. pose proof (pkt_read_empty MaxSizeN r Hb Hr) as Hd.
    destruct (pkt_read MaxSizeN r) as [d r']. cbn [fst] in Hd. subst d. cbn. reflexivity.
  - apply enc_pkts_cons in He. destruct He as (e & s' & Hp & Hps & ->).
    cbn [forallb] in Hne. apply andb_prop in Hne. destruct Hne as [Hn1 Hn2].
    destruct fuel as [|f]; [cbn in Hf; lia|]. cbn [scan_all_go]. unfold scan.
    destruct (pkt_read_enc MaxSizeN r p e s' Hb Hp Hr) as [Hd Hrest].
    destruct (rd_of_pkt_max p (enc_pkt_some_ok _ _ Hp) Hn1) as [Herr _].
    destruct (pkt_read MaxSizeN r) as [d r']. cbn [fst snd] in Hd, Hrest. subst d.
    rewrite Herr. cbn [sc_ok]. unfold rd_of_scan. cbn [sc_len sc_bytes sc_err].
    rewrite (IH f r' _ s' Hps Hrest Hn2) by (cbn in Hf; lia).
    cbn [rev map]. rewrite <- !app_assoc. cbn [app].
    replace (mkrd (rd_len (rd_of_pkt MaxSizeN p)) (rd_payload (rd_of_pkt MaxSizeN p)) None) with (rd_of_pkt MaxSizeN p);
      [reflexivity|]. rewrite <- Herr. destruct (rd_of_pkt MaxSizeN p); reflexivity.
Qed.

Theorem scan_all_enc ps s r :
  enc_pkts ps = Some s -> concat r = s -> forallb no_errline ps = true ->
  scan_all r = RAll (map (rd_of_pkt MaxSizeN) ps ++ [mkrd (-1) [] None]).
Proof.
  intros He Hr Hne. unfold scan_all.
  rewrite (scan_all_go_enc ps _ r [] s He Hr Hne); [reflexivity|].
  pose proof (enc_pkts_length _ _ He). unfold rlen. rewrite Hr. lia.
Qed.

(* ---------- the caller's view: the list of packets read until io.EOF ---------- *)
Fixpoint decode_items (l : list rd) : option (list pkt) :=
  match l with
  | [] => None
  | d :: r =>
    match r with
    | [] => match rd_err d with Some PEeof => Some [] | _ => None end
    | _ :: _ =>
      match rd_err d, pkt_of_rd d, decode_items r with
      | None, Some p, Some ps => Some (p :: ps)
      | _, _, _ => None
      end
    end
  end.

Definition decode_pkts (a : rall) : option (list pkt) :=
  match a with RAll l => decode_items l | RFuel => None end.

Lemma pkt_of_rd_max p : pkt_ok p = true -> no_errline p = true ->
  rd_err (rd_of_pkt MaxSizeN p) = None /\ pkt_of_rd (rd_of_pkt MaxSizeN p) = Some p.
Proof.
  intros Hok Hne. destruct (rd_of_pkt_max p Hok Hne) as [He Hrd]. split; [assumption|]. rewrite Hrd.
  destruct p as [b| | |]; try reflexivity.
  unfold pkt_of_rd, pktline_Flush, pktline_Delim, pktline_ResponseEnd, pktline_LenSize. cbn [rd_len rd_payload].
  pose proof (Zle_0_nat (List.length b)). fold (zlen b) in H.
  destruct (Nat.eqb (List.length b) 0); [reflexivity|].
  destruct (Z.eqb_spec (zlen b + 4) 0); [lia|]. destruct (Z.eqb_spec (zlen b + 4) 1); [lia|].
  destruct (Z.eqb_spec (zlen b + 4) 2); [lia|]. destruct (Z.geb_spec (zlen b + 4) 4); [reflexivity|lia].
Qed.

Lemma decode_items_enc : forall ps, forallb pkt_ok ps = true -> forallb no_errline ps = true ->
  decode_items (map (rd_of_pkt MaxSizeN) ps ++ [rd_fail PEeof]) = Some ps.
Proof.
  induction ps as [|p ps IH]; intros Hok Hne; [reflexivity|].
  cbn [forallb] in Hok, Hne. apply andb_prop in Hok, Hne. destruct Hok as [Ho1 Ho2], Hne as [Hn1 Hn2].
  destruct (pkt_of_rd_max p Ho1 Hn1) as [He Hp]. specialize (IH Ho2 Hn2).
  cbn [map app decode_items]. rewrite He, Hp.
  destruct (map (rd_of_pkt MaxSizeN) ps ++ [rd_fail PEeof]) as [|x l] eqn:E.
  { destruct ps; discriminate. }
  rewrite IH. reflexivity.
Qed.

Lemma enc_pkts_ok ps s : enc_pkts ps = Some s -> forallb pkt_ok ps = true.
Proof.
  revert s. induction ps as [|p ps IH]; intros s H; [reflexivity|].
  apply enc_pkts_cons in H. destruct H as (e & s' & Hp & Hps & _).
  cbn [forallb]. rewrite (enc_pkt_some_ok _ _ Hp), (IH _ Hps). reflexivity.
Qed.

Lemma enc_pkts_some ps : forallb pkt_ok ps = true -> exists s, enc_pkts ps = Some s.
Proof.
  induction ps as [|p ps IH]; intros H; [now exists []|].
  cbn [forallb] in H. apply andb_prop in H. destruct H as [H1 H2].
  destruct (enc_pkt_ok p H1) as (e & He & _). destruct (IH H2) as [s Hs].
  exists (e ++ s). cbn [enc_pkts]. now rewrite He, Hs.
Qed.

(* ---------- error lines ---------- *)
Definition clean_text (text : bytes) : bool :=
  match text with
  | [] => true
  | c :: _ => negb (is_space c) && negb (is_space (last text 0%N))
  end.

Lemma trim_left_nonspace c r : is_space c = false -> trim_left (c :: r) = c :: r.
Proof. intros H. cbn [trim_left]. now rewrite H. Qed.

Lemma trim_clean text : clean_text text = true -> trim_space (text ++ [NL]) = text.
Proof.
  unfold clean_text, trim_space. destruct text as [|c t]; [reflexivity|].
  intros H. apply andb_prop in H. destruct H as [H1 H2]. apply negb_true_iff in H1, H2.
  cbn [app]. rewrite (trim_left_nonspace c _ H1).
  change (c :: t ++ [NL]) with ((c :: t) ++ [NL]). rewrite rev_app_distr. cbn [rev app].
  change (trim_left (NL :: rev t ++ [c])) with (trim_left (rev t ++ [c])).
  change (rev t ++ [c]) with (rev (c :: t)).
  destruct (rev (c :: t)) as [|x l] eqn:E.
  { apply (f_equal (@List.length N)) in E. rewrite rev_length in E. discriminate. }
  assert (last (c :: t) 0%N = x) as Hx.
  { rewrite <- (rev_involutive (c :: t)), E. cbn [rev]. apply last_last. }
  rewrite Hx in H2. rewrite (trim_left_nonspace x l H2), <- E. apply rev_involutive.
Qed.

Lemma errline_of_err text : errline_of (err_payload text) = Some (PEerrline (trim_space (text ++ [NL]))).
Proof. reflexivity. Qed.
