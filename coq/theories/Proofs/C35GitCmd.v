(* Proofs/C35GitCmd.v — go-git's v2 command requests (ls-refs, fetch) are in
   git's documented grammar (Spec/GitProto.v git_cmdreq / git_lsargs /
   git_fetchargs) and mean the request. *)
From Coq Require Import List Arith NArith ZArith Bool Lia String.
From GoGit Require Import Base.Out Base.GoInt Gen.C34 Model.PktLine Model.C35Utf8 Model.Packp Model.PackpV2 Spec.GitProto
  Proofs.C34Pkt Proofs.C35Base Proofs.C35Utf8 Proofs.C35U Proofs.C35Msgs Proofs.C35Caps Proofs.C35Dec Proofs.C35Adv Proofs.C35Ul
  Proofs.C35V2Base Proofs.C35V2Caps Proofs.C35V2Fetch Proofs.C35V2Ls Proofs.C35Git Proofs.C35GitV2 Proofs.C35GitV0.
Import ListNotations.

(* ---------- the request frame ---------- *)
Theorem git_cmdreq_enc c ps : cmdreq_ok c = true -> cmdreq_encode c = Some ps ->
  exists al, cargs_encode (cr_args c) = Some al /\
             git_cmdreq ps = Some (Some (cr_command c, map cap2_abs (cr_caps c), al ++ [PFlush])).
Proof.
  unfold cmdreq_ok. intros H He. apply andb_prop in H. destruct H as [H Ha]. apply andb_prop in H. destruct H as [Hc Hcaps].
  apply negb_true_iff in Hc. apply Nat.eqb_neq in Hc.
  destruct c as [cmd caps args]. cbn [cr_command cr_caps cr_args] in *.
  unfold cmdreq_encode in He. cbn [cr_command cr_caps cr_args] in He. destruct cmd as [|c0 cmd']; [cbn in Hc; contradiction|].
  destruct (cargs_encode args) as [al|] eqn:Ea; [|discriminate]. exists al. split; [reflexivity|].
  apply (f_equal (fun o => match o with Some x => x | None => [] end)) in He. cbv beta iota in He. subst ps.
  unfold caps2_ok in Hcaps. apply andb_prop in Hcaps. destruct Hcaps as [H1 _].
  assert (forallb (fun e => key_ok (fst e)) caps = true) as Hk.
  { rewrite forallb_forall in *. intros e He. specialize (H1 e He). now apply andb_prop in H1. }
  unfold git_cmdreq. change (B "command=" ++ (c0 :: cmd') ++ [NL]) with ((B "command=" ++ c0 :: cmd') ++ [NL]).
  rewrite chomp_app, has_prefix_app, (skipn_app_exact (B "command=") (c0 :: cmd') 8 eq_refl).
  rewrite (git_caps2_lines caps ([PDelim] ++ al ++ [PFlush]) [] Hk I). reflexivity.
Qed.

(* ---------- ls-refs arguments ---------- *)
Lemma git_lsargs_prefixes : forall ps a, forallb prefix_ok ps = true ->
  git_lsargs (map (fun p => PData (B "ref-prefix " ++ p ++ [NL])) ps ++ [PFlush]) a
  = Some (mkglsargs (gl_peel a) (gl_symrefs a) (gl_unborn a) (gl_prefixes a ++ ps)).
Proof.
  induction ps as [|p ps IH]; intros a H; [cbn; rewrite app_nil_r; now destruct a|].
  cbn [forallb] in H. apply andb_prop in H. destruct H as [H1 H2]. cbn [map app].
  assert (forall q r0, r0 <> [] -> git_lsargs (PData q :: r0) a =
    (let line := chomp q in
     if beq line (B "peel") then git_lsargs r0 (mkglsargs true (gl_symrefs a) (gl_unborn a) (gl_prefixes a))
     else if beq line (B "symrefs") then git_lsargs r0 (mkglsargs (gl_peel a) true (gl_unborn a) (gl_prefixes a))
     else if beq line (B "unborn") then git_lsargs r0 (mkglsargs (gl_peel a) (gl_symrefs a) true (gl_prefixes a))
     else if has_prefix (B "ref-prefix ") line then
       match skipn 11 line with
       | [] => None
       | pre => git_lsargs r0 (mkglsargs (gl_peel a) (gl_symrefs a) (gl_unborn a) (gl_prefixes a ++ [pre]))
       end
     else None)) as K by (intros q [|x r0] Hne; [contradiction|reflexivity]).
  rewrite K by (destruct ps; discriminate). cbv zeta.
  change (B "ref-prefix " ++ p ++ [NL]) with ((B "ref-prefix " ++ p) ++ [NL]). rewrite chomp_app.
  change (beq (B "ref-prefix " ++ p) (B "peel")) with false.
  change (beq (B "ref-prefix " ++ p) (B "symrefs")) with false.
  change (beq (B "ref-prefix " ++ p) (B "unborn")) with false. cbv iota.
  rewrite has_prefix_app, (skipn_app_exact (B "ref-prefix ") p 11 eq_refl).
  unfold prefix_ok in H1. destruct p as [|c p']; [discriminate|].
  rewrite (IH _ H2). cbn [gl_peel gl_symrefs gl_unborn gl_prefixes]. now rewrite <- app_assoc.
Qed.

Definition ls_abs (a : lsargs) : glsargs := mkglsargs (la_peel a) (la_symrefs a) (la_unborn a) (la_prefixes a).

Theorem git_lsargs_enc a al : lsargs_ok a = true -> lsargs_encode a = Some al ->
  git_lsargs (al ++ [PFlush]) (mkglsargs false false false []) = Some (ls_abs a).
Proof.
  intros Hok He. unfold lsargs_ok in Hok. unfold lsargs_encode in He.
  assert (forallb ref_prefix_ok (la_prefixes a) = true) as Hr.
  { rewrite forallb_forall in *. intros p Hp. now apply prefix_ok_ref, Hok. }
  rewrite Hr in He. apply (f_equal (fun o => match o with Some x => x | None => [] end)) in He. cbv beta iota in He. subst al.
  destruct a as [peel sym unb pre]. cbn [la_peel la_symrefs la_unborn la_prefixes] in *. unfold ls_abs. cbn [la_peel la_symrefs la_unborn la_prefixes].
  rewrite <- !app_assoc.
  assert (forall a0, git_lsargs (map (fun p => PData (B "ref-prefix " ++ p ++ [NL])) pre ++ [PFlush]) a0
                     = Some (mkglsargs (gl_peel a0) (gl_symrefs a0) (gl_unborn a0) (gl_prefixes a0 ++ pre))) as Kp
    by (intros a0; now apply git_lsargs_prefixes).
  destruct pre as [|p0 pre'].
  - destruct peel, sym, unb; reflexivity.
  - destruct peel, sym, unb; cbn [app]; rewrite ?Kp;
      repeat (match goal with |- git_lsargs (PData ?q :: ?r) ?a = _ =>
                change (git_lsargs (PData q :: r) a) with
                  (git_lsargs r (if beq (chomp q) (B "peel") then mkglsargs true (gl_symrefs a) (gl_unborn a) (gl_prefixes a)
                                 else if beq (chomp q) (B "symrefs") then mkglsargs (gl_peel a) true (gl_unborn a) (gl_prefixes a)
                                 else mkglsargs (gl_peel a) (gl_symrefs a) true (gl_prefixes a))) end);
      try (rewrite Kp); reflexivity.
Qed.

(* ---------- fetch arguments ---------- *)
Definition gfa_app_flag a f := mkgfetchargs (gf_wants a) (gf_haves a) (gf_shallows a) (gf_flags a ++ [f]) (gf_deepen a) (gf_since a) (gf_not a) (gf_filter a).

Lemma git_fa_step hexsz q r0 a : r0 <> [] ->
  git_fetchargs hexsz (PData q :: r0) a =
    (let line := chomp q in
    if fetch_flag line then git_fetchargs hexsz r0 (gfa_app_flag a line)
    else if has_prefix (B "want ") line then
      match git_oid hexsz (skipn 5 line) with
      | Some h => git_fetchargs hexsz r0 (mkgfetchargs (gf_wants a ++ [h]) (gf_haves a) (gf_shallows a) (gf_flags a) (gf_deepen a) (gf_since a) (gf_not a) (gf_filter a))
      | None => None
      end
    else if has_prefix (B "have ") line then
      match git_oid hexsz (skipn 5 line) with
      | Some h => git_fetchargs hexsz r0 (mkgfetchargs (gf_wants a) (gf_haves a ++ [h]) (gf_shallows a) (gf_flags a) (gf_deepen a) (gf_since a) (gf_not a) (gf_filter a))
      | None => None
      end
    else if has_prefix (B "shallow ") line then
      match git_oid hexsz (skipn 8 line) with
      | Some h => git_fetchargs hexsz r0 (mkgfetchargs (gf_wants a) (gf_haves a) (gf_shallows a ++ [h]) (gf_flags a) (gf_deepen a) (gf_since a) (gf_not a) (gf_filter a))
      | None => None
      end
    else if has_prefix (B "deepen ") line then
      match git_number (skipn 7 line) with
      | Some n => if (0 <? n)%Z && (n <? 2 ^ 31)%Z
                  then git_fetchargs hexsz r0 (mkgfetchargs (gf_wants a) (gf_haves a) (gf_shallows a) (gf_flags a) (Some n) (gf_since a) (gf_not a) (gf_filter a))
                  else None
      | None => None
      end
    else if has_prefix (B "deepen-since ") line then
      match git_number (skipn 13 line) with
      | Some t => if (0 <? t)%Z && (t <? 2 ^ 63)%Z
                  then git_fetchargs hexsz r0 (mkgfetchargs (gf_wants a) (gf_haves a) (gf_shallows a) (gf_flags a) (gf_deepen a) (Some t) (gf_not a) (gf_filter a))
                  else None
      | None => None
      end
    else if has_prefix (B "deepen-not ") line then
      match skipn 11 line with
      | [] => None
      | ref => git_fetchargs hexsz r0 (mkgfetchargs (gf_wants a) (gf_haves a) (gf_shallows a) (gf_flags a) (gf_deepen a) (gf_since a) (gf_not a ++ [ref]) (gf_filter a))
      end
    else if has_prefix (B "filter ") line then
      match skipn 7 line with
      | [] => None
      | spec => git_fetchargs hexsz r0 (mkgfetchargs (gf_wants a) (gf_haves a) (gf_shallows a) (gf_flags a) (gf_deepen a) (gf_since a) (gf_not a) (Some spec))
      end
    else None).
Proof. intros H. destruct r0; [contradiction|reflexivity]. Qed.

Lemma git_fa_hashes hexsz (kw : string) (upd : gfetchargs -> hash -> gfetchargs) :
  (forall h r0 a, r0 <> [] -> sized hexsz h = true ->
     git_fetchargs hexsz (PData (B kw ++ hash_str h ++ [NL]) :: r0) a = git_fetchargs hexsz r0 (upd a h)) ->
  forall hs rest a, rest <> [] -> Forall (fun h => sized hexsz h = true) hs ->
  git_fetchargs hexsz (map (fun h => PData (B kw ++ hash_str h ++ [NL])) hs ++ rest) a = git_fetchargs hexsz rest (fold_left upd hs a).
Proof.
  intros Hstep. induction hs as [|h hs IH]; intros rest a Hr H; [reflexivity|].
  inversion H; subst. cbn [map app fold_left]. rewrite Hstep; [|destruct hs; [exact Hr|discriminate]|assumption]. now apply IH.
Qed.

Lemma git_fa_want hexsz h r0 a : r0 <> [] -> sized hexsz h = true ->
  git_fetchargs hexsz (PData (B "want " ++ hash_str h ++ [NL]) :: r0) a
  = git_fetchargs hexsz r0 (mkgfetchargs (gf_wants a ++ [h]) (gf_haves a) (gf_shallows a) (gf_flags a) (gf_deepen a) (gf_since a) (gf_not a) (gf_filter a)).
Proof.
  intros Hr Hs. rewrite (git_fa_step hexsz _ r0 a Hr). cbv zeta.
  change (B "want " ++ hash_str h ++ [NL]) with ((B "want " ++ hash_str h) ++ [NL]). rewrite chomp_app.
  assert (fetch_flag (B "want " ++ hash_str h) = false) as -> by reflexivity.
  rewrite has_prefix_app, (skipn_app_exact (B "want ") (hash_str h) 5 eq_refl), (git_oid_str hexsz h Hs). reflexivity.
Qed.
Lemma git_fa_have hexsz h r0 a : r0 <> [] -> sized hexsz h = true ->
  git_fetchargs hexsz (PData (B "have " ++ hash_str h ++ [NL]) :: r0) a
  = git_fetchargs hexsz r0 (mkgfetchargs (gf_wants a) (gf_haves a ++ [h]) (gf_shallows a) (gf_flags a) (gf_deepen a) (gf_since a) (gf_not a) (gf_filter a)).
Proof.
  intros Hr Hs. rewrite (git_fa_step hexsz _ r0 a Hr). cbv zeta.
  change (B "have " ++ hash_str h ++ [NL]) with ((B "have " ++ hash_str h) ++ [NL]). rewrite chomp_app.
  assert (fetch_flag (B "have " ++ hash_str h) = false) as -> by reflexivity.
  change (has_prefix (B "want ") (B "have " ++ hash_str h)) with false. cbv iota.
  rewrite has_prefix_app, (skipn_app_exact (B "have ") (hash_str h) 5 eq_refl), (git_oid_str hexsz h Hs). reflexivity.
Qed.
Lemma git_fa_shallow hexsz h r0 a : r0 <> [] -> sized hexsz h = true ->
  git_fetchargs hexsz (PData (B "shallow " ++ hash_str h ++ [NL]) :: r0) a
  = git_fetchargs hexsz r0 (mkgfetchargs (gf_wants a) (gf_haves a) (gf_shallows a ++ [h]) (gf_flags a) (gf_deepen a) (gf_since a) (gf_not a) (gf_filter a)).
Proof.
  intros Hr Hs. rewrite (git_fa_step hexsz _ r0 a Hr). cbv zeta.
  change (B "shallow " ++ hash_str h ++ [NL]) with ((B "shallow " ++ hash_str h) ++ [NL]). rewrite chomp_app.
  assert (fetch_flag (B "shallow " ++ hash_str h) = false) as -> by reflexivity.
  change (has_prefix (B "want ") (B "shallow " ++ hash_str h)) with false.
  change (has_prefix (B "have ") (B "shallow " ++ hash_str h)) with false. cbv iota.
  rewrite has_prefix_app, (skipn_app_exact (B "shallow ") (hash_str h) 8 eq_refl), (git_oid_str hexsz h Hs). reflexivity.
Qed.

Lemma gfold_wants hs a : fold_left (fun a h => mkgfetchargs (gf_wants a ++ [h]) (gf_haves a) (gf_shallows a) (gf_flags a) (gf_deepen a) (gf_since a) (gf_not a) (gf_filter a)) hs a
  = mkgfetchargs (gf_wants a ++ hs) (gf_haves a) (gf_shallows a) (gf_flags a) (gf_deepen a) (gf_since a) (gf_not a) (gf_filter a).
Proof. revert a. induction hs as [|h hs IH]; intros a; [destruct a; cbn; now rewrite app_nil_r|]. cbn [fold_left]. rewrite IH. cbn. now rewrite <- app_assoc. Qed.
Lemma gfold_haves hs a : fold_left (fun a h => mkgfetchargs (gf_wants a) (gf_haves a ++ [h]) (gf_shallows a) (gf_flags a) (gf_deepen a) (gf_since a) (gf_not a) (gf_filter a)) hs a
  = mkgfetchargs (gf_wants a) (gf_haves a ++ hs) (gf_shallows a) (gf_flags a) (gf_deepen a) (gf_since a) (gf_not a) (gf_filter a).
Proof. revert a. induction hs as [|h hs IH]; intros a; [destruct a; cbn; now rewrite app_nil_r|]. cbn [fold_left]. rewrite IH. cbn. now rewrite <- app_assoc. Qed.
Lemma gfold_shallows hs a : fold_left (fun a h => mkgfetchargs (gf_wants a) (gf_haves a) (gf_shallows a ++ [h]) (gf_flags a) (gf_deepen a) (gf_since a) (gf_not a) (gf_filter a)) hs a
  = mkgfetchargs (gf_wants a) (gf_haves a) (gf_shallows a ++ hs) (gf_flags a) (gf_deepen a) (gf_since a) (gf_not a) (gf_filter a).
Proof. revert a. induction hs as [|h hs IH]; intros a; [destruct a; cbn; now rewrite app_nil_r|]. cbn [fold_left]. rewrite IH. cbn. now rewrite <- app_assoc. Qed.

(* a flag line *)
Lemma git_fa_flag hexsz (b : bool) (name : string) rest a : rest <> [] -> fetch_flag (B name) = true ->
  git_fetchargs hexsz (flag_line b name ++ rest) a
  = git_fetchargs hexsz rest (mkgfetchargs (gf_wants a) (gf_haves a) (gf_shallows a) (gf_flags a ++ (if b then [B name] else []))
                                           (gf_deepen a) (gf_since a) (gf_not a) (gf_filter a)).
Proof.
  intros Hr Hf. destruct b.
  - unfold flag_line. cbn [app]. rewrite (git_fa_step hexsz _ rest a Hr). cbv zeta. now rewrite chomp_app, Hf.
  - cbn [flag_line app]. rewrite app_nil_r. now destruct a.
Qed.

Lemma git_fa_nots hexsz : forall ns rest a, rest <> [] -> forallb word_ok ns = true ->
  git_fetchargs hexsz (map (fun r => PData (B "deepen-not " ++ r ++ [NL])) ns ++ rest) a
  = git_fetchargs hexsz rest (mkgfetchargs (gf_wants a) (gf_haves a) (gf_shallows a) (gf_flags a) (gf_deepen a) (gf_since a) (gf_not a ++ ns) (gf_filter a)).
Proof.
  induction ns as [|n ns IH]; intros rest a Hr H; [cbn [map app]; rewrite app_nil_r; now destruct a|].
  cbn [forallb] in H. apply andb_prop in H. destruct H as [H1 H2]. cbn [map app].
  rewrite git_fa_step by (destruct ns; [exact Hr|discriminate]). cbv zeta.
  change (B "deepen-not " ++ n ++ [NL]) with ((B "deepen-not " ++ n) ++ [NL]). rewrite chomp_app.
  assert (fetch_flag (B "deepen-not " ++ n) = false) as -> by reflexivity.
  change (has_prefix (B "want ") (B "deepen-not " ++ n)) with false.
  change (has_prefix (B "have ") (B "deepen-not " ++ n)) with false.
  change (has_prefix (B "shallow ") (B "deepen-not " ++ n)) with false.
  change (has_prefix (B "deepen ") (B "deepen-not " ++ n)) with false.
  change (has_prefix (B "deepen-since ") (B "deepen-not " ++ n)) with false. cbv iota.
  rewrite has_prefix_app, (skipn_app_exact (B "deepen-not ") n 11 eq_refl).
  unfold word_ok in H1. destruct n as [|c n']; [discriminate|].
  rewrite (IH rest _ Hr H2). cbn [gf_wants gf_haves gf_shallows gf_flags gf_deepen gf_since gf_not gf_filter]. now rewrite <- app_assoc.
Qed.

Definition flag_words (a : fetchargs) : list bytes :=
  (if fa_done a then [B "done"] else []) ++ (if fa_thin a then [B "thin-pack"] else []) ++
  (if fa_noprogress a then [B "no-progress"] else []) ++ (if fa_includetag a then [B "include-tag"] else []) ++
  (if fa_ofsdelta a then [B "ofs-delta"] else []) ++ (if fa_deepenrel a then [B "deepen-relative"] else []) ++
  (if fa_waitdone a then [B "wait-for-done"] else []).

Definition fa_abs (a : fetchargs) : gfetchargs :=
  mkgfetchargs (fa_wants a) (fa_haves a) (fa_shallows a) (flag_words a)
               (if (fa_deepen a >? 0)%Z then Some (fa_deepen a) else None) (fa_since a) (fa_not a)
               (match fa_filter a with [] => None | f => Some f end).

Definition fa_git_ok (hexsz : nat) (a : fetchargs) : bool :=
  forallb (sized hexsz) (fa_wants a) && forallb (sized hexsz) (fa_haves a) && forallb (sized hexsz) (fa_shallows a) &&
  (fa_deepen a <? 2 ^ 31)%Z && match fa_since a with Some t => (0 <? t)%Z | None => true end.

Theorem git_fetchargs_enc hexsz a al : fetchargs_ok a = true -> fa_git_ok hexsz a = true -> fetchargs_encode a = Some al ->
  git_fetchargs hexsz (al ++ [PFlush]) (mkgfetchargs [] [] [] [] None None [] None) = Some (fa_abs (fetchargs_canon a)).
Proof.
  unfold fetchargs_ok, fa_git_ok. intros H G He.
  repeat (apply andb_prop in H; let X := fresh "K" in destruct H as [H X]).
  rename K into Hfil, K0 into Hnot, K1 into Hsi, K2 into Hi, K3 into H0, K4 into Hsh, K5 into Hhv, K6 into Hw.
  repeat (apply andb_prop in G; let X := fresh "J" in destruct G as [G X]).
  rename G into Gw, J2 into Gh, J1 into Gs, J0 into Gd, J into Gt.
  apply Z.leb_le in H0. apply Z.ltb_lt in Gd. apply negb_true_iff in H. apply Nat.eqb_neq in H.
  unfold fetchargs_encode in He. destruct (fa_wants a) as [|w0 ws] eqn:Ew; [contradiction|]. rewrite <- Ew in *.
  apply (f_equal (fun o => match o with Some x => x | None => [] end)) in He. cbv beta iota in He. subst al.
  set (D := if (fa_deepen a >? 0)%Z then [PData (B "deepen " ++ dec_bytes (fa_deepen a) ++ [NL])] else []).
  set (SI := match fa_since a with Some t => [PData (B "deepen-since " ++ dec_bytes t ++ [NL])] | None => [] end).
  set (FI := match fa_filter a with [] => [] | n :: l => [PData (B "filter " ++ (n :: l) ++ [NL])] end).
  rewrite <- !app_assoc.
  rewrite (git_fa_hashes hexsz "want " _ (git_fa_want hexsz)) by (try ne_tail; now apply sized_sorted). rewrite gfold_wants.
  rewrite (git_fa_hashes hexsz "have " _ (git_fa_have hexsz)) by (try ne_tail; now apply sized_sorted). rewrite gfold_haves.
  cbn [gf_wants gf_haves gf_shallows gf_flags gf_deepen gf_since gf_not gf_filter app].
  rewrite (git_fa_flag hexsz (fa_done a) "done") by (try ne_tail; reflexivity). cbn [gf_wants gf_haves gf_shallows gf_flags gf_deepen gf_since gf_not gf_filter].
  rewrite (git_fa_flag hexsz (fa_thin a) "thin-pack") by (try ne_tail; reflexivity). cbn [gf_wants gf_haves gf_shallows gf_flags gf_deepen gf_since gf_not gf_filter].
  rewrite (git_fa_flag hexsz (fa_noprogress a) "no-progress") by (try ne_tail; reflexivity). cbn [gf_wants gf_haves gf_shallows gf_flags gf_deepen gf_since gf_not gf_filter].
  rewrite (git_fa_flag hexsz (fa_includetag a) "include-tag") by (try ne_tail; reflexivity). cbn [gf_wants gf_haves gf_shallows gf_flags gf_deepen gf_since gf_not gf_filter].
  rewrite (git_fa_flag hexsz (fa_ofsdelta a) "ofs-delta") by (try ne_tail; reflexivity). cbn [gf_wants gf_haves gf_shallows gf_flags gf_deepen gf_since gf_not gf_filter].
  rewrite (git_fa_hashes hexsz "shallow " _ (git_fa_shallow hexsz)) by (try ne_tail; now apply sized_sorted). rewrite gfold_shallows. cbn [gf_wants gf_haves gf_shallows gf_flags gf_deepen gf_since gf_not gf_filter].
  (* deepen *)
  assert (forall rest a0, rest <> [] -> git_fetchargs hexsz (D ++ rest) a0 =
            git_fetchargs hexsz rest (mkgfetchargs (gf_wants a0) (gf_haves a0) (gf_shallows a0) (gf_flags a0)
                                                   (if (fa_deepen a >? 0)%Z then Some (fa_deepen a) else gf_deepen a0) (gf_since a0) (gf_not a0) (gf_filter a0))) as KD.
  { intros rest a0 Hr. unfold D. destruct (Z.gtb_spec (fa_deepen a) 0) as [Hp|Hp]; [|now destruct a0]. cbn [app].
    rewrite (git_fa_step hexsz _ rest a0 Hr). cbv zeta.
    change (B "deepen " ++ dec_bytes (fa_deepen a) ++ [NL]) with ((B "deepen " ++ dec_bytes (fa_deepen a)) ++ [NL]). rewrite chomp_app.
    assert (fetch_flag (B "deepen " ++ dec_bytes (fa_deepen a)) = false) as -> by reflexivity.
    change (has_prefix (B "want ") (B "deepen " ++ dec_bytes (fa_deepen a))) with false.
    change (has_prefix (B "have ") (B "deepen " ++ dec_bytes (fa_deepen a))) with false.
    change (has_prefix (B "shallow ") (B "deepen " ++ dec_bytes (fa_deepen a))) with false. cbv iota.
    rewrite has_prefix_app, (skipn_app_exact (B "deepen ") (dec_bytes (fa_deepen a)) 7 eq_refl), (git_number_dec _ H0).
    assert ((0 <? fa_deepen a)%Z && (fa_deepen a <? 2 ^ 31)%Z = true) as -> by (apply andb_true_intro; split; now apply Z.ltb_lt).
    reflexivity. }
  rewrite KD by ne_tail. cbn [gf_wants gf_haves gf_shallows gf_flags gf_deepen gf_since gf_not gf_filter].
  (* deepen-relative cannot be decided by fetch_flag on an open term: it is a closed word *)
  rewrite (git_fa_flag hexsz (fa_deepenrel a) "deepen-relative") by (try ne_tail; reflexivity). cbn [gf_wants gf_haves gf_shallows gf_flags gf_deepen gf_since gf_not gf_filter].
  assert (forall rest a0, rest <> [] -> git_fetchargs hexsz (SI ++ rest) a0 =
            git_fetchargs hexsz rest (mkgfetchargs (gf_wants a0) (gf_haves a0) (gf_shallows a0) (gf_flags a0) (gf_deepen a0)
                                                   (match fa_since a with Some t => Some t | None => gf_since a0 end) (gf_not a0) (gf_filter a0))) as KS.
  { intros rest a0 Hr. unfold SI. destruct (fa_since a) as [t|]; [|now destruct a0]. cbn [app]. apply Z.ltb_lt in Gt.
    rewrite (git_fa_step hexsz _ rest a0 Hr). cbv zeta.
    change (B "deepen-since " ++ dec_bytes t ++ [NL]) with ((B "deepen-since " ++ dec_bytes t) ++ [NL]). rewrite chomp_app.
    assert (fetch_flag (B "deepen-since " ++ dec_bytes t) = false) as -> by reflexivity.
    change (has_prefix (B "want ") (B "deepen-since " ++ dec_bytes t)) with false.
    change (has_prefix (B "have ") (B "deepen-since " ++ dec_bytes t)) with false.
    change (has_prefix (B "shallow ") (B "deepen-since " ++ dec_bytes t)) with false.
    change (has_prefix (B "deepen ") (B "deepen-since " ++ dec_bytes t)) with false. cbv iota.
    rewrite has_prefix_app, (skipn_app_exact (B "deepen-since ") (dec_bytes t) 13 eq_refl), (git_number_dec t (Z.lt_le_incl _ _ Gt)).
    assert ((0 <? t)%Z && (t <? 2 ^ 63)%Z = true) as ->.
    { unfold since_ok, int64_ok in Hsi. apply andb_prop in Hsi. destruct Hsi as [Hsi _]. apply andb_prop in Hsi. destruct Hsi as [_ B'].
      apply andb_true_intro. split; [now apply Z.ltb_lt|exact B']. }
    reflexivity. }
  rewrite KS by ne_tail. cbn [gf_wants gf_haves gf_shallows gf_flags gf_deepen gf_since gf_not gf_filter].
  rewrite (git_fa_nots hexsz (fa_not a)) by (try ne_tail; exact Hnot). cbn [gf_wants gf_haves gf_shallows gf_flags gf_deepen gf_since gf_not gf_filter].
  assert (forall rest a0, rest <> [] -> git_fetchargs hexsz (FI ++ rest) a0 =
            git_fetchargs hexsz rest (mkgfetchargs (gf_wants a0) (gf_haves a0) (gf_shallows a0) (gf_flags a0) (gf_deepen a0) (gf_since a0) (gf_not a0)
                                                   (match fa_filter a with [] => gf_filter a0 | n :: l => Some (n :: l) end))) as KF.
  { intros rest a0 Hr. unfold FI. destruct (fa_filter a) as [|n l]; [now destruct a0|]. cbn [app].
    rewrite (git_fa_step hexsz _ rest a0 Hr). cbv zeta.
    change (B "filter " ++ n :: l ++ [NL]) with ((B "filter " ++ n :: l) ++ [NL]). rewrite chomp_app.
    assert (fetch_flag (B "filter " ++ n :: l) = false) as -> by reflexivity.
    change (has_prefix (B "want ") (B "filter " ++ n :: l)) with false.
    change (has_prefix (B "have ") (B "filter " ++ n :: l)) with false.
    change (has_prefix (B "shallow ") (B "filter " ++ n :: l)) with false.
    change (has_prefix (B "deepen ") (B "filter " ++ n :: l)) with false.
    change (has_prefix (B "deepen-since ") (B "filter " ++ n :: l)) with false.
    change (has_prefix (B "deepen-not ") (B "filter " ++ n :: l)) with false. cbv iota.
    now rewrite has_prefix_app, (skipn_app_exact (B "filter ") (n :: l) 7 eq_refl). }
  rewrite KF by ne_tail. cbn [gf_wants gf_haves gf_shallows gf_flags gf_deepen gf_since gf_not gf_filter].
  rewrite (git_fa_flag hexsz (fa_waitdone a) "wait-for-done" [PFlush]) by (try discriminate; reflexivity). cbn [gf_wants gf_haves gf_shallows gf_flags gf_deepen gf_since gf_not gf_filter].
  unfold fa_abs, fetchargs_canon, flag_words.
  cbn [fa_wants fa_haves fa_done fa_thin fa_noprogress fa_includetag fa_ofsdelta fa_shallows fa_deepen fa_deepenrel fa_since fa_not fa_filter fa_waitdone git_fetchargs app].
  rewrite <- !app_assoc. cbn [app].
  destruct (fa_since a), (fa_filter a); reflexivity.
Qed.
