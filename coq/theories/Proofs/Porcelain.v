(* Proofs/Porcelain.v — what Reset and Checkout of Model/Porcelain.v do to a
   state; shared by C25, C29 and C30. *)
From Coq Require Import List NArith ZArith Bool Lia.
From GoGit Require Import Base.Out Model.Porcelain Proofs.PorcelainMaps.
Import ListNotations.
Local Open Scope N_scope.
Arguments beqb : simpl never.

(* ---------- setHEADCommit *)

Lemma set_head_commit_err : forall c s e s1, set_head_commit c s = (Some e, s1) -> s1 = s.
Proof.
  intros c s e s1. unfold set_head_commit.
  destruct (head s); [|intro H; inversion H].
  destruct (lookup b (refs s)); [|intro H; now inversion H].
  destruct (is_branch b); intro H; now inversion H.
Qed.

Lemma set_head_commit_ok : forall c s s1, set_head_commit c s = (None, s1) ->
  objs s1 = objs s /\ idx s1 = idx s /\ wt s1 = wt s /\ head_commit s1 = Some c.
Proof.
  intros c s s1. unfold set_head_commit, head_commit.
  destruct (head s) eqn:Eh.
  - destruct (lookup b (refs s)); [|intro H; inversion H].
    destruct (is_branch b); intro H; inversion H; subst; cbn.
    rewrite Eh. repeat split. apply lookup_insert_eq.
  - intro H; inversion H; subst; cbn. repeat split.
Qed.

(* ---------- the worktree updates *)

Lemma reset_worktree_to_tree_spec : forall prev t ix w,
  agree ix t ->
  exists ix' w',
    reset_worktree_to_tree prev t ix w = (None, (ix', w')) /\ agree ix' t /\
    forall p, lookup p w' =
      match lookup p t with
      | Some e => Some e
      | None => if mem p (keys prev) then None else lookup p w
      end.
Proof.
  intros prev t ix w Hag. unfold reset_worktree_to_tree.
  set (dels := filter (fun p => match lookup p t with None => true | Some _ => false end) (keys prev)).
  set (w1 := fold_left (fun acc p => remove p acc) dels w).
  set (ch := filter (fun p => match lookup p ix with Some _ => true | None => false end) (changed_paths w1 ix)).
  destruct (checkout_fold t ch ix w1 Hag) as (ix' & w' & H1 & H2 & H3).
  exists ix', w'. repeat split; auto.
  intro p. rewrite H3. destruct (lookup p t) eqn:Et.
  - destruct (mem p ch) eqn:Em; [reflexivity|].
    apply mem_false in Em. unfold ch in Em. rewrite filter_In, in_changed_paths in Em.
    rewrite (Hag p), Et in Em.
    destruct (lookup p w1) as [g|] eqn:Ew.
    + destruct (ofent_eqb (Some g) (Some f)) eqn:E.
      * now apply ofent_eqb_true in E.
      * exfalso. apply Em. split; [|reflexivity]. intro H. rewrite H in E.
        now rewrite (proj2 (ofent_eqb_true (Some f) (Some f)) eq_refl) in E.
    + exfalso. apply Em. split; [discriminate | reflexivity].
  - assert (Em : mem p ch = false).
    { apply mem_false. unfold ch. rewrite filter_In. rewrite (Hag p), Et. intros [_ H]. discriminate. }
    rewrite Em. unfold w1. rewrite remove_fold.
    assert (Ed : mem p dels = mem p (keys prev)).
    { destruct (mem p (keys prev)) eqn:E.
      - apply mem_in. unfold dels. rewrite filter_In. rewrite Et. split; [now apply mem_in | reflexivity].
      - apply mem_false. unfold dels. rewrite filter_In. intros [H _]. apply mem_in in H. congruence. }
    now rewrite Ed.
Qed.

Lemma reset_worktree_spec : forall t files ix w,
  agree ix t ->
  exists ix' w',
    reset_worktree t files ix w = (None, (ix', w')) /\ agree ix' t /\
    forall p, lookup p w' = if mem p files && differs w ix p then lookup p t else lookup p w.
Proof.
  intros t files ix w Hag. unfold reset_worktree.
  set (ch := filter (fun p => existsb (beqb p) files) (changed_paths w ix)).
  destruct (checkout_fold t ch ix w Hag) as (ix' & w' & H1 & H2 & H3).
  exists ix', w'. repeat split; auto.
  intro p. rewrite H3.
  assert (E : mem p ch = mem p files && differs w ix p).
  { destruct (mem p files && differs w ix p) eqn:E.
    - apply andb_true_iff in E. destruct E as [E1 E2].
      apply mem_in. unfold ch. rewrite filter_In, in_changed_paths. split.
      + now apply differs_true.
      + exact E1.
    - apply mem_false. unfold ch. rewrite filter_In, in_changed_paths. intros [Hd Hm].
      apply differs_true in Hd. fold (mem p files) in Hm. rewrite Hd, Hm in E. discriminate. }
  now rewrite E.
Qed.

(* ---------- apply_reset *)

Lemma apply_reset_err : forall c t pv m s e s', apply_reset c t pv m s = (Some e, s') -> s' = s.
Proof.
  intros c t pv m s e s'. unfold apply_reset.
  destruct (set_head_commit c s) as [[e1|] s1] eqn:Eh.
  - intro H. inversion H; subst. eapply set_head_commit_err; eauto.
  - pose proof (reset_index_lookup t (idx s1)) as Hag.
    destruct m.
    + intro H; inversion H.
    + destruct (reset_worktree_to_tree_spec pv t _ (wt (set_idx s1 (fst (reset_index t (idx s1))))) Hag)
        as (ix' & w' & H1 & _). rewrite H1. cbn. intro H; inversion H.
    + destruct (snd (reset_index t (idx s1))) as [|q0 l0]; [intro H; inversion H|].
      destruct (reset_worktree_spec t (q0 :: l0) _ (wt (set_idx s1 (fst (reset_index t (idx s1))))) Hag)
        as (ix' & w' & H1 & _). rewrite H1. cbn. intro H; inversion H.
    + intro H; inversion H.
    + destruct (reset_worktree_to_tree_spec pv t _ (wt (set_idx s1 (fst (reset_index t (idx s1))))) Hag)
        as (ix' & w' & H1 & _). rewrite H1. cbn. intro H; inversion H.
Qed.

(* what a successful apply_reset leaves, mode by mode *)
Definition wt_after (m : rmode) (t pv ix w : fmap) (p : bytes) : option fent :=
  match m with
  | Mixed | Soft => lookup p w
  | Merge => if negb (ofent_eqb (lookup p ix) (lookup p t)) && negb (ofent_eqb (lookup p w) (lookup p t))
             then lookup p t else lookup p w
  | Hard | Keep =>
    match lookup p t with
    | Some e => Some e
    | None => if mem p (keys pv) then None else lookup p w
    end
  end.

Lemma apply_reset_ok : forall c t pv m s s', apply_reset c t pv m s = (None, s') ->
  exists s1, set_head_commit c s = (None, s1) /\
    objs s' = objs s /\ refs s' = refs s1 /\ head s' = head s1 /\
    agree (idx s') t /\
    forall p, lookup p (wt s') = wt_after m t pv (idx s) (wt s) p.
Proof.
  intros c t pv m s s'. unfold apply_reset.
  destruct (set_head_commit c s) as [[e1|] s1] eqn:Eh; [intro H; inversion H|].
  destruct (set_head_commit_ok _ _ _ Eh) as (Hc & Hi & Hw & _).
  pose proof (reset_index_lookup t (idx s1)) as Hag.
  intro H. exists s1. split; [reflexivity|].
  destruct m.
  - inversion H; subst; cbn. repeat split; auto. intro p. now rewrite Hw.
  - destruct (reset_worktree_to_tree_spec pv t _ (wt (set_idx s1 (fst (reset_index t (idx s1))))) Hag)
      as (ix' & w' & H1 & H2 & H3). rewrite H1 in H. cbn in H. inversion H; subst; cbn.
    repeat split; auto. intro p. rewrite H3. cbn [wt set_idx]. now rewrite Hw.
  - destruct (snd (reset_index t (idx s1))) eqn:Er.
    + inversion H; subst; cbn. repeat split; auto. intro p.
      rewrite Hw. rewrite reset_index_removed in Er.
      assert (Hn : ~ In p (changed_paths (idx s1) t)) by (rewrite Er; intros []).
      rewrite in_changed_paths in Hn. rewrite Hi in Hn.
      assert (E : lookup p (idx s) = lookup p t).
      { destruct (ofent_eqb (lookup p (idx s)) (lookup p t)) eqn:E; [now apply ofent_eqb_true|].
        exfalso. apply Hn. intro X. rewrite X in E.
        now rewrite (proj2 (ofent_eqb_true _ _) eq_refl) in E. }
      rewrite (proj2 (ofent_eqb_true _ _) E). reflexivity.
    + rewrite <- Er in H.
      destruct (reset_worktree_spec t (snd (reset_index t (idx s1))) _ (wt (set_idx s1 (fst (reset_index t (idx s1))))) Hag)
        as (ix' & w' & H1 & H2 & H3). rewrite H1 in H. cbn in H. inversion H; subst; cbn.
      repeat split; auto. intro p. rewrite H3. cbn [wt set_idx wt_after]. rewrite Hw, Hi.
      rewrite reset_index_removed.
      assert (E1 : mem p (changed_paths (idx s) t) = negb (ofent_eqb (lookup p (idx s)) (lookup p t))).
      { destruct (ofent_eqb (lookup p (idx s)) (lookup p t)) eqn:E; cbn.
        - apply mem_false. rewrite in_changed_paths. apply ofent_eqb_true in E. congruence.
        - apply mem_in. rewrite in_changed_paths. intro X. rewrite X in E.
          now rewrite (proj2 (ofent_eqb_true _ _) eq_refl) in E. }
      rewrite E1. unfold differs. rewrite (reset_index_lookup t (idx s) p). reflexivity.
  - inversion H; subst; cbn. repeat split; auto. intro p. now rewrite Hw.
  - destruct (reset_worktree_to_tree_spec pv t _ (wt (set_idx s1 (fst (reset_index t (idx s1))))) Hag)
      as (ix' & w' & H1 & H2 & H3). rewrite H1 in H. cbn in H. inversion H; subst; cbn.
    repeat split; auto. intro p. rewrite H3. cbn [wt set_idx]. now rewrite Hw.
Qed.

(* ---------- Reset *)

Ltac dmatch H :=
  repeat match type of H with
  | (if ?b then _ else _) = _ => destruct b eqn:?
  | match ?x with _ => _ end = _ => destruct x eqn:?
  end.

(* a refused Reset leaves the state exactly as it was *)
Lemma reset_err_unchanged : forall commit m from s e s',
  reset commit m from s = (Some e, s') -> s' = s.
Proof.
  intros commit m from s e s' H. unfold reset in H.
  destruct (reset_commit commit s) as [[e1|] c]; [now inversion H|].
  destruct m; unfold prev_tree in H; cbv beta iota in H; dmatch H;
    try (now inversion H); try (eapply apply_reset_err; eassumption);
    try (eapply set_head_commit_err; eassumption).
Qed.

(* the commit a Reset lands on *)
Definition reset_target (commit : Z) (s : state) : option Z :=
  if (commit =? -1)%Z then head_commit s else Some commit.

Definition prev_of (m : rmode) (from : option fmap) (s : state) : fmap :=
  tree_or_empty (prev_tree m from s).

Lemma reset_commit_target : forall commit s c, reset_commit commit s = (None, c) ->
  reset_target commit s = Some c.
Proof.
  intros commit s c. unfold reset_commit, reset_target. destruct (commit =? -1)%Z.
  - destruct (head_commit s); intro H; now inversion H.
  - destruct (commit_exists s commit); intro H; now inversion H.
Qed.

Lemma reset_ok : forall commit m from s s',
  reset commit m from s = (None, s') -> m <> Soft ->
  exists c t s1,
    reset_target commit s = Some c /\ tree_of s c = Some t /\
    set_head_commit c s = (None, s1) /\
    objs s' = objs s /\ refs s' = refs s1 /\ head s' = head s1 /\
    agree (idx s') t /\
    (forall p, lookup p (wt s') = wt_after m t (prev_of m from s) (idx s) (wt s) p) /\
    (m = Merge -> unstaged s = false) /\
    (m = Keep -> keep_conflict (tree_or_empty (head_tree s)) (prev_of m from s) t (idx s) (wt s) = false).
Proof.
  intros commit m from s s' H Hm. unfold reset in H.
  destruct (reset_commit commit s) as [[e1|] c] eqn:Erc; [now inversion H|].
  apply reset_commit_target in Erc.
  destruct m; try contradiction; unfold prev_of, prev_tree in *; cbv beta iota in H; dmatch H;
    try (now inversion H);
    (destruct (apply_reset_ok _ _ _ _ _ _ H) as (s1 & A1 & A2 & A3 & A4 & A5 & A6));
    match goal with Ht : tree_of s c = Some ?t |- _ => exists c, t, s1 end;
    (repeat split; auto); try discriminate.
Qed.

Lemma reset_soft : forall commit from s r, reset commit Soft from s = r ->
  idx (snd r) = idx s /\ wt (snd r) = wt s.
Proof.
  intros commit from s r <-. unfold reset.
  destruct (reset_commit commit s) as [[e1|] c]; cbn; [auto|].
  destruct (set_head_commit c s) as [[e|] s1] eqn:E.
  - apply set_head_commit_err in E. now subst.
  - destruct (set_head_commit_ok _ _ _ E) as (_ & A & B & _). auto.
Qed.

(* ---------- Checkout: the phase before Reset *)

Lemma tree_of_commits : forall s1 s c, objs s1 = objs s -> tree_of s1 c = tree_of s c.
Proof. intros s1 s c H. unfold objs in H. inversion H as [[H1 H2]]. unfold tree_of. now rewrite H1, H2. Qed.

Lemma commit_exists_objs : forall s1 s c, objs s1 = objs s -> commit_exists s1 c = commit_exists s c.
Proof. intros s1 s c H. unfold objs in H. inversion H as [[H1 H2]]. unfold commit_exists. now rewrite H1. Qed.

Lemma checkoutable_objs : forall s1 s c, objs s1 = objs s -> checkoutable s1 c = checkoutable s c.
Proof. intros s1 s c H. unfold checkoutable. now rewrite (tree_of_commits s1 s c H). Qed.

Lemma tree_of_exists : forall s c t, tree_of s c = Some t -> commit_exists s c = true.
Proof.
  intros s c t. unfold tree_of, commit_exists. destruct (c <? 0)%Z; [discriminate|].
  destruct (existsb (Z.eqb c) (notree s)); [discriminate|]. now intros ->.
Qed.

Lemma checkoutable_tree : forall s c, checkoutable s c = None -> exists t, tree_of s c = Some t.
Proof.
  intros s c. unfold checkoutable. destruct (is_noncommit c); [discriminate|].
  destruct (tree_of s c); [eauto|discriminate].
Qed.

Lemma unstaged_frame : forall s1 s, idx s1 = idx s -> wt s1 = wt s -> unstaged s1 = unstaged s.
Proof. intros s1 s H1 H2. unfold unstaged. now rewrite H1, H2. Qed.

Lemma create_branch_spec : forall o br s e h s1, create_branch o br s = (e, (h, s1)) ->
  objs s1 = objs s /\ head s1 = head s /\ idx s1 = idx s /\ wt s1 = wt s /\
  (forall n, n <> br -> lookup n (refs s1) = lookup n (refs s)) /\
  (co_create o = false -> s1 = s /\ h = co_hash o /\ e = None) /\
  (e <> None -> s1 = s) /\
  (e = None -> co_create o = true ->
     lookup br (refs s) = None /\ refs s1 = insert br h (refs s) /\
     checkoutable s h = None /\
     (co_hash o = (-1)%Z -> head_commit s = Some h) /\ (co_hash o <> (-1)%Z -> h = co_hash o)).
Proof.
  intros o br s e h s1. unfold create_branch.
  destruct (co_create o).
  - destruct (lookup br (refs s)) eqn:El.
    + intro H; inversion H; subst. repeat split; auto; try discriminate.
    + destruct (co_hash o =? -1)%Z eqn:Ez.
      * destruct (head_commit s) as [hc|] eqn:Eh.
        -- destruct (checkoutable s hc) eqn:Et; intro H; inversion H; subst; cbn;
             repeat split; auto; try discriminate; try congruence.
           ++ intros n Hn. now apply lookup_insert_neq.
           ++ intro X. apply Z.eqb_eq in Ez. congruence.
        -- intro H; inversion H; subst. repeat split; auto; try discriminate; congruence.
      * destruct (checkoutable s (co_hash o)) eqn:Et; intro H; inversion H; subst; cbn;
          repeat split; auto; try discriminate; try congruence.
        -- intros n Hn. now apply lookup_insert_neq.
        -- intro X. apply Z.eqb_neq in Ez. congruence.
  - intro H; inversion H; subst. repeat split; auto; try discriminate; congruence.
Qed.

Lemma move_head_spec : forall o br hash c s e s2, move_head o br hash c s = (e, s2) ->
  objs s2 = objs s /\ refs s2 = refs s /\ idx s2 = idx s /\ wt s2 = wt s /\
  (e <> None -> s2 = s).
Proof.
  intros o br hash c s e s2. unfold move_head.
  destruct (negb (hash =? -1)%Z && negb (co_create o)).
  - intro H; inversion H; subst; cbn. repeat split; auto. congruence.
  - destruct (lookup br (refs s)); intro H; inversion H; subst; cbn; repeat split; auto; congruence.
Qed.

(* everything checkout_pre can be, in one inversion lemma *)
Lemma checkout_pre_inv : forall o s e x s2, checkout_pre o s = (e, (x, s2)) ->
  (e <> None /\ s2 = s) \/
  (exists h sa c e3,
     co_validate o = None /\
     (co_mode o = Merge -> unstaged s = false) /\
     (co_mode o = Hard -> head_tree s <> HTErr) /\
     create_branch o (co_branch_name o) s = (None, (h, sa)) /\
     (if (h =? -1)%Z then lookup (co_branch_name o) (refs sa) else Some h) = Some c /\
     checkoutable sa c = None /\
     move_head o (co_branch_name o) h c sa = (e3, s2) /\ e = e3 /\
     (e3 = None ->
        x = (c, co_mode o, match (match co_mode o with Hard => head_tree s | _ => HTNone end) with HTTree f => Some f | _ => None end))).
Proof.
  intros o s e x s2 H. unfold checkout_pre in H.
  destruct (co_validate o) eqn:Ev; [left; inversion H; split; [discriminate|reflexivity]|].
  destruct (match co_mode o with Merge => unstaged s | _ => false end) eqn:Eu;
    [left; inversion H; split; [discriminate|reflexivity]|].
  destruct (match co_mode o with Hard => head_tree s | _ => HTNone end) eqn:Ef;
    try (left; inversion H; split; [discriminate|reflexivity]);
  (destruct (create_branch o (co_branch_name o) s) as [e1 [h sa]] eqn:Ec;
   destruct (create_branch_spec _ _ _ _ _ _ Ec) as (_ & _ & _ & _ & _ & _ & A7 & _);
   destruct e1; [left; inversion H; subst; split; [discriminate | apply A7; discriminate]|];
   unfold resolve_commit in H;
   destruct (if (h =? -1)%Z then lookup (co_branch_name o) (refs sa) else Some h) as [c|] eqn:Er;
   [destruct (checkoutable sa c) as [ek|] eqn:Et |];
   [ | destruct (move_head o (co_branch_name o) h c sa) as [e3 sb] eqn:Em;
     right; exists h, sa, c, e3;
     assert (s2 = sb /\ e = e3) as [-> ->] by (destruct e3; inversion H; auto);
     repeat split; eauto;
     [ intro X; rewrite X in Eu; exact Eu
     | intro X; rewrite X in Ef; rewrite Ef; discriminate
     | intro X; subst e3; inversion H; reflexivity ]
   | ]).
  (* the two resolve_commit errors: possible only without Create (then sa = s) *)
  all: destruct (co_create o) eqn:Ecr.
  all: try (destruct (create_branch_spec _ _ _ _ _ _ Ec) as (_ & _ & _ & _ & _ & A6 & _);
            destruct (A6 Ecr) as (-> & _ & _); left; inversion H; split; [discriminate|reflexivity]).
  all: exfalso; destruct (create_branch_spec _ _ _ _ _ _ Ec) as (B1 & _ & _ & _ & _ & _ & _ & A8);
       destruct (A8 eq_refl Ecr) as (_ & B2 & Bt & _ & _).
  all: try (assert (c = h) by (destruct (h =? -1)%Z; [rewrite B2, lookup_insert_eq in Er|]; congruence); subst c;
            rewrite (checkoutable_objs sa s _ B1) in Et; congruence).
  all: destruct (h =? -1)%Z; [rewrite B2, lookup_insert_eq in Er|]; discriminate.
Qed.

(* the commit a Checkout asks for *)
Definition checkout_target (o : copts) (s : state) : option Z :=
  if (co_hash o =? -1)%Z
  then (if co_create o then head_commit s else lookup (co_branch_name o) (refs s))
  else Some (co_hash o).

(* a refusal before Reset leaves the state untouched (repaired order) *)
Lemma checkout_pre_err_unchanged : forall o s e x s2,
  checkout_pre o s = (Some e, (x, s2)) -> s2 = s.
Proof.
  intros o s e x s2 H. destruct (checkout_pre_inv _ _ _ _ _ H) as [[_ ?]|(h & sa & c & e3 & _ & _ & _ & Ec & Er & _ & Em & He & _)]; [assumption|].
  subst e3. destruct (move_head_spec _ _ _ _ _ _ _ Em) as (_ & _ & _ & _ & B5).
  rewrite (B5 ltac:(discriminate)).
  destruct (create_branch_spec _ _ _ _ _ _ Ec) as (_ & _ & _ & _ & _ & A6 & _ & A8).
  destruct (co_create o) eqn:Ecr; [|now destruct (A6 eq_refl)].
  exfalso. destruct (A8 eq_refl eq_refl) as (_ & B2 & _).
  unfold move_head in Em. rewrite Ecr in Em. rewrite andb_false_r in Em.
  rewrite B2, lookup_insert_eq in Em. discriminate.
Qed.

Lemma checkout_pre_ok : forall o s c m from s2,
  checkout_pre o s = (None, ((c, m, from), s2)) ->
  m = co_mode o /\ (exists t, tree_of s c = Some t) /\ head_commit s2 = Some c /\
  objs s2 = objs s /\ idx s2 = idx s /\ wt s2 = wt s /\
  (m = Merge -> unstaged s = false) /\
  (m = Hard -> prev_of Hard from s2 = tree_or_empty (head_tree s) \/
               tree_of s c = Some (prev_of Hard from s2)) /\
  checkout_target o s = Some c /\
  match head s2 with
  | HDet _ => True
  | HSym b => is_branch b = true /\ exists x, lookup b (refs s2) = Some x
  end.
Proof.
  intros o s c m from s2 H.
  destruct (checkout_pre_inv _ _ _ _ _ H) as [[X _]|(h & sa & c1 & e3 & _ & Hu & Hh & Ec & Er & Hck & Em & He & Hx)];
    [now contradiction X|].
  destruct (checkoutable_tree _ _ Hck) as (t & Ht).
  subst e3. specialize (Hx eq_refl). inversion Hx; subst c1 m from. clear Hx.
  destruct (create_branch_spec _ _ _ _ _ _ Ec) as (A1 & A2 & A3 & A4 & A5 & A6 & _ & A8).
  destruct (move_head_spec _ _ _ _ _ _ _ Em) as (C1 & C2 & C3 & C4 & _).
  rewrite (tree_of_commits sa s _ A1) in Ht.
  (* HEAD after the move *)
  assert (Hhead : head_commit s2 = Some c /\
                  match head s2 with HDet _ => True | HSym b => is_branch b = true /\ exists x, lookup b (refs s2) = Some x end).
  { unfold move_head in Em. destruct (h =? -1)%Z eqn:Ez; cbn [negb andb] in Em.
    - rewrite Er in Em. destruct (is_branch (co_branch_name o)) eqn:Eb; inversion Em; subst; unfold head_commit; cbn; eauto.
    - inversion Er; subst c. destruct (co_create o) eqn:Ecr; cbn [negb] in Em.
      + destruct (A8 eq_refl eq_refl) as (_ & B2 & _).
        rewrite B2, lookup_insert_eq in Em.
        destruct (is_branch (co_branch_name o)) eqn:Eb; inversion Em; subst; unfold head_commit; cbn; auto.
        rewrite B2, lookup_insert_eq. eauto.
      + inversion Em; subst. unfold head_commit; cbn. auto. }
  destruct Hhead as [Hc Hshape].
  repeat split; eauto; try congruence.
  - (* the from-tree *)
    intros Hhard. unfold prev_of, prev_tree. rewrite Hhard.
    destruct (head_tree s) as [| |f] eqn:Eh.
    + right. unfold head_tree. rewrite Hc, (tree_of_commits s2 s c) by congruence. now rewrite Ht.
    + now contradiction (Hh Hhard).
    + left. reflexivity.
  - (* the target *)
    unfold checkout_target. destruct (co_create o) eqn:Ecr.
    + destruct (A8 eq_refl eq_refl) as (_ & B2 & _ & B3 & B4).
      destruct (co_hash o =? -1)%Z eqn:Ez.
      * apply Z.eqb_eq in Ez. rewrite (B3 Ez). destruct (h =? -1)%Z; [rewrite B2, lookup_insert_eq in Er|]; exact Er.
      * apply Z.eqb_neq in Ez. rewrite <- (B4 Ez).
        assert ((h =? -1)%Z = false) as X by (apply Z.eqb_neq; rewrite (B4 Ez); exact Ez).
        now rewrite X in Er.
    + destruct (A6 eq_refl) as (-> & -> & _). exact Er.
Qed.

(* once the pre-phase has passed, the final Reset cannot refuse *)
Lemma apply_reset_succeeds : forall c t pv m s s1,
  set_head_commit c s = (None, s1) -> exists s', apply_reset c t pv m s = (None, s').
Proof.
  intros c t pv m s s1 Eh. unfold apply_reset. rewrite Eh.
  pose proof (reset_index_lookup t (idx s1)) as Hag.
  destruct m; eauto.
  - destruct (reset_worktree_to_tree_spec pv t _ (wt (set_idx s1 (fst (reset_index t (idx s1))))) Hag) as (ix' & w' & H1 & _).
    rewrite H1. cbn. eauto.
  - destruct (snd (reset_index t (idx s1))) as [|q0 l0]; eauto.
    destruct (reset_worktree_spec t (q0 :: l0) _ (wt (set_idx s1 (fst (reset_index t (idx s1))))) Hag) as (ix' & w' & H1 & _).
    rewrite H1. cbn. eauto.
  - destruct (reset_worktree_to_tree_spec pv t _ (wt (set_idx s1 (fst (reset_index t (idx s1))))) Hag) as (ix' & w' & H1 & _).
    rewrite H1. cbn. eauto.
Qed.

Lemma reset_after_pre_succeeds : forall o s c m from s2,
  checkout_pre o s = (None, ((c, m, from), s2)) -> exists s', reset c m from s2 = (None, s').
Proof.
  intros o s c m from s2 H.
  destruct (checkout_pre_ok _ _ _ _ _ _ H) as (Hm & (t & Ht) & Hc & F1 & F2 & F3 & Hu & _ & _ & Hshape).
  assert (Hset : exists s1, set_head_commit c s2 = (None, s1)).
  { unfold set_head_commit. destruct (head s2) as [b0|]; [|eauto].
    destruct Hshape as (Hb & x0 & Hl). rewrite Hl, Hb. eauto. }
  destruct Hset as (s1 & Hset).
  unfold reset.
  assert (Erc : reset_commit c s2 = (None, c)).
  { unfold reset_commit. destruct (c =? -1)%Z.
    - now rewrite Hc.
    - now rewrite (commit_exists_objs s2 s c F1), (tree_of_exists _ _ _ Ht). }
  rewrite Erc. rewrite (tree_of_commits s2 s c F1), Ht.
  unfold co_mode in Hm. destruct (co_force o).
  - subst m. cbv beta iota. unfold prev_tree.
    destruct from as [f|].
    + cbv beta iota. eapply apply_reset_succeeds; eauto.
    + unfold head_tree. rewrite Hc, (tree_of_commits s2 s c F1), Ht. cbv beta iota.
      eapply apply_reset_succeeds; eauto.
  - destruct (co_keep o); subst m; cbv beta iota.
    + eauto.
    + rewrite (unstaged_frame s2 s F2 F3), (Hu eq_refl). unfold prev_tree. cbv beta iota.
      eapply apply_reset_succeeds; eauto.
Qed.

(* a refused Checkout leaves the whole state as it was *)
Lemma checkout_err_unchanged : forall o s e s', checkout o s = (Some e, s') -> s' = s.
Proof.
  intros o s e s' H. unfold checkout in H.
  destruct (checkout_pre o s) as [[e1|] [[[c m] from] s2]] eqn:Ep.
  - inversion H; subst. eapply checkout_pre_err_unchanged; eauto.
  - destruct (reset_after_pre_succeeds _ _ _ _ _ _ Ep) as (s'' & X). rewrite X in H. discriminate.
Qed.

(* a successful Checkout that runs a real Reset (Force, or neither Force nor Keep) *)
Lemma checkout_ok : forall o s s', checkout o s = (None, s') -> co_mode o <> Soft ->
  exists c t pv,
    checkout_target o s = Some c /\ tree_of s c = Some t /\ objs s' = objs s /\
    head_commit s' = Some c /\ agree (idx s') t /\
    (forall p, lookup p (wt s') = wt_after (co_mode o) t pv (idx s) (wt s) p) /\
    (co_mode o = Hard -> pv = tree_or_empty (head_tree s) \/ pv = t) /\
    (co_mode o = Merge -> unstaged s = false).
Proof.
  intros o s s' H Hm. unfold checkout in H.
  destruct (checkout_pre o s) as [[e|] [[[c m] from] s2]] eqn:Ep; [now inversion H|].
  destruct (checkout_pre_ok _ _ _ _ _ _ Ep) as (-> & (t & Ht) & Hh & F1 & F2 & F3 & Hu & Hpv & Htg & _).
  destruct (reset_ok _ _ _ _ _ H Hm) as (c' & t' & s1 & R1 & R2 & R3 & R4 & R5 & R6 & R7 & R8 & R9 & _).
  assert (c' = c).
  { unfold reset_target in R1. destruct (c =? -1)%Z; congruence. }
  subst c'. rewrite (tree_of_commits s2 s _ F1), Ht in R2. inversion R2; subst t'.
  destruct (set_head_commit_ok _ _ _ R3) as (_ & _ & _ & S4).
  exists c, t, (prev_of (co_mode o) from s2). repeat split; auto.
  - congruence.
  - unfold head_commit in *. now rewrite R5, R6.
  - intro p. rewrite R8, F2, F3. reflexivity.
  - intro X. rewrite X in *. destruct (Hpv eq_refl) as [Y|Y]; [now left|right]. congruence.
Qed.
