(* Proofs/Porcelain.v — what Reset and Checkout of Model/Porcelain.v do to a
   state; shared by C25, C29 and C30. *)
From Coq Require Import List NArith ZArith Bool Lia.
From GoGit Require Import Base.Out Model.Porcelain Proofs.PorcelainMaps.
Import ListNotations.
Local Open Scope N_scope.
Arguments beqb : simpl never.

(* ---------- setHEADCommit *)

Lemma set_head_commit_err : forall c s e s1, set_head_commit c s = (Some e, s1) -> s1 = s.
Proof.
  intros c s e s1. unfold set_head_commit.
  destruct (head s); [|intro H; inversion H].
  destruct (lookup b (refs s)); [|intro H; now inversion H].
  destruct (is_branch b); intro H; now inversion H.
Qed.

Lemma set_head_commit_ok : forall c s s1, set_head_commit c s = (None, s1) ->
  commits s1 = commits s /\ idx s1 = idx s /\ wt s1 = wt s /\ head_commit s1 = Some c.
Proof.
  intros c s s1. unfold set_head_commit, head_commit.
  destruct (head s) eqn:Eh.
  - destruct (lookup b (refs s)); [|intro H; inversion H].
    destruct (is_branch b); intro H; inversion H; subst; cbn.
    rewrite Eh. repeat split. apply lookup_insert_eq.
  - intro H; inversion H; subst; cbn. repeat split.
Qed.

(* ---------- the worktree updates *)

Lemma reset_worktree_to_tree_spec : forall prev t ix w,
  agree ix t ->
  exists ix' w',
    reset_worktree_to_tree prev t ix w = (None, (ix', w')) /\ agree ix' t /\
    forall p, lookup p w' =
      match lookup p t with
      | Some e => Some e
      | None => if mem p (keys prev) then None else lookup p w
      end.
Proof.
  intros prev t ix w Hag. unfold reset_worktree_to_tree.
  set (dels := filter (fun p => match lookup p t with None => true | Some _ => false end) (keys prev)).
  set (w1 := fold_left (fun acc p => remove p acc) dels w).
  set (ch := filter (fun p => match lookup p ix with Some _ => true | None => false end) (changed_paths w1 ix)).
  destruct (checkout_fold t ch ix w1 Hag) as (ix' & w' & H1 & H2 & H3).
  exists ix', w'. repeat split; auto.
  intro p. rewrite H3. destruct (lookup p t) eqn:Et.
  - destruct (mem p ch) eqn:Em; [reflexivity|].
    apply mem_false in Em. unfold ch in Em. rewrite filter_In, in_changed_paths in Em.
    rewrite (Hag p), Et in Em.
    destruct (lookup p w1) as [g|] eqn:Ew.
    + destruct (ofent_eqb (Some g) (Some f)) eqn:E.
      * now apply ofent_eqb_true in E.
      * exfalso. apply Em. split; [|reflexivity]. intro H. rewrite H in E.
        now rewrite (proj2 (ofent_eqb_true (Some f) (Some f)) eq_refl) in E.
    + exfalso. apply Em. split; [discriminate | reflexivity].
  - assert (Em : mem p ch = false).
    { apply mem_false. unfold ch. rewrite filter_In. rewrite (Hag p), Et. intros [_ H]. discriminate. }
    rewrite Em. unfold w1. rewrite remove_fold.
    assert (Ed : mem p dels = mem p (keys prev)).
    { destruct (mem p (keys prev)) eqn:E.
      - apply mem_in. unfold dels. rewrite filter_In. rewrite Et. split; [now apply mem_in | reflexivity].
      - apply mem_false. unfold dels. rewrite filter_In. intros [H _]. apply mem_in in H. congruence. }
    now rewrite Ed.
Qed.

Lemma reset_worktree_spec : forall t files ix w,
  agree ix t ->
  exists ix' w',
    reset_worktree t files ix w = (None, (ix', w')) /\ agree ix' t /\
    forall p, lookup p w' = if mem p files && differs w ix p then lookup p t else lookup p w.
Proof.
  intros t files ix w Hag. unfold reset_worktree.
  set (ch := filter (fun p => existsb (beqb p) files) (changed_paths w ix)).
  destruct (checkout_fold t ch ix w Hag) as (ix' & w' & H1 & H2 & H3).
  exists ix', w'. repeat split; auto.
  intro p. rewrite H3.
  assert (E : mem p ch = mem p files && differs w ix p).
  { destruct (mem p files && differs w ix p) eqn:E.
    - apply andb_true_iff in E. destruct E as [E1 E2].
      apply mem_in. unfold ch. rewrite filter_In, in_changed_paths. split.
      + now apply differs_true.
      + exact E1.
    - apply mem_false. unfold ch. rewrite filter_In, in_changed_paths. intros [Hd Hm].
      apply differs_true in Hd. fold (mem p files) in Hm. rewrite Hd, Hm in E. discriminate. }
  now rewrite E.
Qed.

(* ---------- apply_reset *)

Lemma apply_reset_err : forall c t pv m s e s', apply_reset c t pv m s = (Some e, s') -> s' = s.
Proof.
  intros c t pv m s e s'. unfold apply_reset.
  destruct (set_head_commit c s) as [[e1|] s1] eqn:Eh.
  - intro H. inversion H; subst. eapply set_head_commit_err; eauto.
  - pose proof (reset_index_lookup t (idx s1)) as Hag.
    destruct m.
    + intro H; inversion H.
    + destruct (reset_worktree_to_tree_spec pv t _ (wt (set_idx s1 (fst (reset_index t (idx s1))))) Hag)
        as (ix' & w' & H1 & _). rewrite H1. cbn. intro H; inversion H.
    + destruct (snd (reset_index t (idx s1))) as [|q0 l0]; [intro H; inversion H|].
      destruct (reset_worktree_spec t (q0 :: l0) _ (wt (set_idx s1 (fst (reset_index t (idx s1))))) Hag)
        as (ix' & w' & H1 & _). rewrite H1. cbn. intro H; inversion H.
    + intro H; inversion H.
    + destruct (reset_worktree_to_tree_spec pv t _ (wt (set_idx s1 (fst (reset_index t (idx s1))))) Hag)
        as (ix' & w' & H1 & _). rewrite H1. cbn. intro H; inversion H.
Qed.

(* what a successful apply_reset leaves, mode by mode *)
Definition wt_after (m : rmode) (t pv ix w : fmap) (p : bytes) : option fent :=
  match m with
  | Mixed | Soft => lookup p w
  | Merge => if negb (ofent_eqb (lookup p ix) (lookup p t)) && negb (ofent_eqb (lookup p w) (lookup p t))
             then lookup p t else lookup p w
  | Hard | Keep =>
    match lookup p t with
    | Some e => Some e
    | None => if mem p (keys pv) then None else lookup p w
    end
  end.

Lemma apply_reset_ok : forall c t pv m s s', apply_reset c t pv m s = (None, s') ->
  exists s1, set_head_commit c s = (None, s1) /\
    commits s' = commits s /\ refs s' = refs s1 /\ head s' = head s1 /\
    agree (idx s') t /\
    forall p, lookup p (wt s') = wt_after m t pv (idx s) (wt s) p.
Proof.
  intros c t pv m s s'. unfold apply_reset.
  destruct (set_head_commit c s) as [[e1|] s1] eqn:Eh; [intro H; inversion H|].
  destruct (set_head_commit_ok _ _ _ Eh) as (Hc & Hi & Hw & _).
  pose proof (reset_index_lookup t (idx s1)) as Hag.
  intro H. exists s1. split; [reflexivity|].
  destruct m.
  - inversion H; subst; cbn. repeat split; auto. intro p. now rewrite Hw.
  - destruct (reset_worktree_to_tree_spec pv t _ (wt (set_idx s1 (fst (reset_index t (idx s1))))) Hag)
      as (ix' & w' & H1 & H2 & H3). rewrite H1 in H. cbn in H. inversion H; subst; cbn.
    repeat split; auto. intro p. rewrite H3. cbn [wt set_idx]. now rewrite Hw.
  - destruct (snd (reset_index t (idx s1))) eqn:Er.
    + inversion H; subst; cbn. repeat split; auto. intro p.
      rewrite Hw. rewrite reset_index_removed in Er.
      assert (Hn : ~ In p (changed_paths (idx s1) t)) by (rewrite Er; intros []).
      rewrite in_changed_paths in Hn. rewrite Hi in Hn.
      assert (E : lookup p (idx s) = lookup p t).
      { destruct (ofent_eqb (lookup p (idx s)) (lookup p t)) eqn:E; [now apply ofent_eqb_true|].
        exfalso. apply Hn. intro X. rewrite X in E.
        now rewrite (proj2 (ofent_eqb_true _ _) eq_refl) in E. }
      rewrite (proj2 (ofent_eqb_true _ _) E). reflexivity.
    + rewrite <- Er in H.
      destruct (reset_worktree_spec t (snd (reset_index t (idx s1))) _ (wt (set_idx s1 (fst (reset_index t (idx s1))))) Hag)
        as (ix' & w' & H1 & H2 & H3). rewrite H1 in H. cbn in H. inversion H; subst; cbn.
      repeat split; auto. intro p. rewrite H3. cbn [wt set_idx wt_after]. rewrite Hw, Hi.
      rewrite reset_index_removed.
      assert (E1 : mem p (changed_paths (idx s) t) = negb (ofent_eqb (lookup p (idx s)) (lookup p t))).
      { destruct (ofent_eqb (lookup p (idx s)) (lookup p t)) eqn:E; cbn.
        - apply mem_false. rewrite in_changed_paths. apply ofent_eqb_true in E. congruence.
        - apply mem_in. rewrite in_changed_paths. intro X. rewrite X in E.
          now rewrite (proj2 (ofent_eqb_true _ _) eq_refl) in E. }
      rewrite E1. unfold differs. rewrite (reset_index_lookup t (idx s) p). reflexivity.
  - inversion H; subst; cbn. repeat split; auto. intro p. now rewrite Hw.
  - destruct (reset_worktree_to_tree_spec pv t _ (wt (set_idx s1 (fst (reset_index t (idx s1))))) Hag)
      as (ix' & w' & H1 & H2 & H3). rewrite H1 in H. cbn in H. inversion H; subst; cbn.
    repeat split; auto. intro p. rewrite H3. cbn [wt set_idx]. now rewrite Hw.
Qed.

(* ---------- Reset *)

Ltac dmatch H :=
  repeat match type of H with
  | (if ?b then _ else _) = _ => destruct b eqn:?
  | match ?x with _ => _ end = _ => destruct x eqn:?
  end.

(* a refused Reset leaves the state exactly as it was *)
Lemma reset_err_unchanged : forall commit m from s e s',
  reset commit m from s = (Some e, s') -> s' = s.
Proof.
  intros commit m from s e s' H. unfold reset in H.
  destruct (reset_commit commit s) as [[e1|] c]; [now inversion H|].
  destruct m; unfold prev_tree in H; cbv beta iota in H; dmatch H;
    try (now inversion H); try (eapply apply_reset_err; eassumption);
    try (eapply set_head_commit_err; eassumption).
Qed.

(* the commit a Reset lands on *)
Definition reset_target (commit : Z) (s : state) : option Z :=
  if (commit =? -1)%Z then head_commit s else Some commit.

Definition prev_of (m : rmode) (from : option fmap) (s : state) : fmap :=
  tree_or_empty (prev_tree m from s).

Lemma reset_commit_target : forall commit s c, reset_commit commit s = (None, c) ->
  reset_target commit s = Some c.
Proof.
  intros commit s c. unfold reset_commit, reset_target. destruct (commit =? -1)%Z.
  - destruct (head_commit s); intro H; now inversion H.
  - destruct (tree_of s commit); intro H; now inversion H.
Qed.

Lemma reset_ok : forall commit m from s s',
  reset commit m from s = (None, s') -> m <> Soft ->
  exists c t s1,
    reset_target commit s = Some c /\ tree_of s c = Some t /\
    set_head_commit c s = (None, s1) /\
    commits s' = commits s /\ refs s' = refs s1 /\ head s' = head s1 /\
    agree (idx s') t /\
    (forall p, lookup p (wt s') = wt_after m t (prev_of m from s) (idx s) (wt s) p) /\
    (m = Merge -> unstaged s = false) /\
    (m = Keep -> keep_conflict (tree_or_empty (head_tree s)) (prev_of m from s) t (idx s) (wt s) = false).
Proof.
  intros commit m from s s' H Hm. unfold reset in H.
  destruct (reset_commit commit s) as [[e1|] c] eqn:Erc; [now inversion H|].
  apply reset_commit_target in Erc.
  destruct m; try contradiction; unfold prev_of, prev_tree in *; cbv beta iota in H; dmatch H;
    try (now inversion H);
    (destruct (apply_reset_ok _ _ _ _ _ _ H) as (s1 & A1 & A2 & A3 & A4 & A5 & A6));
    match goal with Ht : tree_of s c = Some ?t |- _ => exists c, t, s1 end;
    (repeat split; auto); try discriminate.
Qed.

Lemma reset_soft : forall commit from s r, reset commit Soft from s = r ->
  idx (snd r) = idx s /\ wt (snd r) = wt s.
Proof.
  intros commit from s r <-. unfold reset.
  destruct (reset_commit commit s) as [[e1|] c]; cbn; [auto|].
  destruct (set_head_commit c s) as [[e|] s1] eqn:E.
  - apply set_head_commit_err in E. now subst.
  - destruct (set_head_commit_ok _ _ _ E) as (_ & A & B & _). auto.
Qed.

(* ---------- Checkout: the phase before Reset *)

Lemma tree_of_commits : forall s1 s c, commits s1 = commits s -> tree_of s1 c = tree_of s c.
Proof. intros s1 s c H. unfold tree_of. now rewrite H. Qed.

Lemma unstaged_frame : forall s1 s, idx s1 = idx s -> wt s1 = wt s -> unstaged s1 = unstaged s.
Proof. intros s1 s H1 H2. unfold unstaged. now rewrite H1, H2. Qed.

Lemma create_branch_spec : forall o br s e h s1, create_branch o br s = (e, (h, s1)) ->
  commits s1 = commits s /\ head s1 = head s /\ idx s1 = idx s /\ wt s1 = wt s /\
  (forall n, n <> br -> lookup n (refs s1) = lookup n (refs s)) /\
  (co_create o = false -> s1 = s /\ h = co_hash o /\ e = None) /\
  (e <> None -> s1 = s) /\
  (e = None -> co_create o = true ->
     lookup br (refs s) = None /\ refs s1 = insert br h (refs s) /\
     (co_hash o = (-1)%Z -> head_commit s = Some h) /\ (co_hash o <> (-1)%Z -> h = co_hash o)).
Proof.
  intros o br s e h s1. unfold create_branch.
  destruct (co_create o).
  - destruct (lookup br (refs s)) eqn:El.
    + intro H; inversion H; subst. repeat split; auto; try discriminate.
    + destruct (co_hash o =? -1)%Z eqn:Ez.
      * destruct (head_commit s) eqn:Eh; intro H; inversion H; subst; cbn.
        -- repeat split; auto; try discriminate; try congruence.
           ++ intros n Hn. now apply lookup_insert_neq.
           ++ intro X. apply Z.eqb_eq in Ez. congruence.
        -- repeat split; auto; try discriminate; congruence.
      * intro H; inversion H; subst; cbn. repeat split; auto; try discriminate; try congruence.
        -- intros n Hn. now apply lookup_insert_neq.
        -- intro X. apply Z.eqb_neq in Ez. congruence.
  - intro H; inversion H; subst. repeat split; auto; try discriminate; congruence.
Qed.

Lemma move_head_spec : forall o br hash c s e s2, move_head o br hash c s = (e, s2) ->
  commits s2 = commits s /\ refs s2 = refs s /\ idx s2 = idx s /\ wt s2 = wt s /\
  (e <> None -> s2 = s).
Proof.
  intros o br hash c s e s2. unfold move_head.
  destruct (negb (hash =? -1)%Z && negb (co_create o)).
  - intro H; inversion H; subst; cbn. repeat split; auto. congruence.
  - destruct (lookup br (refs s)); intro H; inversion H; subst; cbn; repeat split; auto; congruence.
Qed.

Lemma checkout_pre_frame : forall o s e x s1, checkout_pre o s = (e, (x, s1)) ->
  commits s1 = commits s /\ idx s1 = idx s /\ wt s1 = wt s /\
  (forall n, n <> co_branch_name o -> lookup n (refs s1) = lookup n (refs s)).
Proof.
  intros o s e x s1 H. unfold checkout_pre in H.
  destruct (co_validate o); [inversion H; subst; repeat split; auto|].
  destruct (create_branch o (co_branch_name o) s) as [e1 [h sa]] eqn:Ec.
  destruct (create_branch_spec _ _ _ _ _ _ Ec) as (A1 & A2 & A3 & A4 & A5 & _).
  destruct e1; [inversion H; subst; repeat split; auto|].
  destruct (resolve_commit (co_branch_name o) h sa) as [[e2|] c]; [inversion H; subst; repeat split; auto|].
  destruct (match co_mode o with Hard => head_tree sa | _ => HTNone end);
    try (inversion H; subst; repeat split; now auto);
    (destruct (move_head o (co_branch_name o) h c sa) as [e3 sb] eqn:Em;
     destruct (move_head_spec _ _ _ _ _ _ _ Em) as (B1 & B2 & B3 & B4 & _);
     destruct e3; inversion H; subst; repeat split; try congruence;
     intros n Hn; rewrite B2; now apply A5).
Qed.

(* an error before Reset, without Create, leaves the state untouched *)
Lemma checkout_pre_err_nocreate : forall o s e x s1,
  checkout_pre o s = (Some e, (x, s1)) -> co_create o = false -> s1 = s.
Proof.
  intros o s e x s1 H Hc. unfold checkout_pre in H.
  destruct (co_validate o); [now inversion H|].
  destruct (create_branch o (co_branch_name o) s) as [e1 [h sa]] eqn:Ec.
  destruct (create_branch_spec _ _ _ _ _ _ Ec) as (_ & _ & _ & _ & _ & A6 & _).
  destruct (A6 Hc) as (-> & -> & ->).
  destruct (resolve_commit (co_branch_name o) (co_hash o) s) as [[e2|] c]; [now inversion H|].
  destruct (match co_mode o with Hard => head_tree s | _ => HTNone end);
    try (now inversion H);
    (destruct (move_head o (co_branch_name o) (co_hash o) c s) as [e3 sb] eqn:Em;
     destruct (move_head_spec _ _ _ _ _ _ _ Em) as (_ & _ & _ & _ & B5);
     destruct e3; inversion H; subst; apply B5; discriminate).
Qed.

(* the three validation errors are raised before anything is written *)
Definition early_err (e : err) : bool :=
  match e with EBranchHashExclusive | ECreateRequiresBranch | EBranchExists => true | _ => false end.

Lemma checkout_pre_early : forall o s e x s1,
  checkout_pre o s = (Some e, (x, s1)) -> early_err e = true -> s1 = s.
Proof.
  intros o s e x s1 H He. unfold checkout_pre in H.
  destruct (co_validate o); [now inversion H|].
  destruct (create_branch o (co_branch_name o) s) as [e1 [h sa]] eqn:Ec.
  destruct (create_branch_spec _ _ _ _ _ _ Ec) as (_ & _ & _ & _ & _ & _ & A7 & _).
  destruct e1; [inversion H; subst; apply A7; discriminate|].
  unfold resolve_commit in H.
  destruct (if (h =? -1)%Z then lookup (co_branch_name o) (refs sa) else Some h);
    [|inversion H; subst; discriminate].
  destruct (tree_of sa z); [|inversion H; subst; discriminate].
  destruct (match co_mode o with Hard => head_tree sa | _ => HTNone end);
    try (inversion H; subst; discriminate);
    (unfold move_head in H;
     destruct (negb (h =? -1)%Z && negb (co_create o)); [now inversion H|];
     destruct (lookup (co_branch_name o) (refs sa)); inversion H; subst; discriminate).
Qed.

Lemma checkout_pre_ok : forall o s c m from s2,
  checkout_pre o s = (None, ((c, m, from), s2)) ->
  m = co_mode o /\ (exists t, tree_of s c = Some t) /\ head_commit s2 = Some c /\
  (m = Hard -> prev_of Hard from s2 = tree_or_empty (head_tree s) \/
               tree_of s c = Some (prev_of Hard from s2)).
Proof.
  intros o s c m from s2 H. unfold checkout_pre in H.
  destruct (co_validate o); [now inversion H|].
  destruct (create_branch o (co_branch_name o) s) as [e1 [h sa]] eqn:Ec.
  destruct (create_branch_spec _ _ _ _ _ _ Ec) as (A1 & A2 & A3 & A4 & A5 & A6 & A7 & A8).
  destruct e1; [now inversion H|].
  destruct (resolve_commit (co_branch_name o) h sa) as [[e2|] c1] eqn:Er; [now inversion H|].
  assert (Hres : (if (h =? -1)%Z then lookup (co_branch_name o) (refs sa) else Some h) = Some c1 /\
                 exists t, tree_of sa c1 = Some t).
  { unfold resolve_commit in Er.
    destruct (if (h =? -1)%Z then lookup (co_branch_name o) (refs sa) else Some h); [|now inversion Er].
    destruct (tree_of sa z) eqn:Et; inversion Er; subst. split; eauto. }
  destruct Hres as (Hr1 & t & Ht).
  assert (Hmove : forall sb, move_head o (co_branch_name o) h c1 sa = (None, sb) -> head_commit sb = Some c1).
  { intros sb. unfold move_head. destruct (h =? -1)%Z eqn:Ez; cbn [negb andb].
    - rewrite Hr1. destruct (is_branch (co_branch_name o)); intro X; inversion X; subst; unfold head_commit; cbn; auto.
    - inversion Hr1; subst c1. destruct (co_create o) eqn:Ecr; cbn [negb].
      + destruct (A8 eq_refl eq_refl) as (B1 & B2 & _).
        rewrite B2, lookup_insert_eq.
        destruct (is_branch (co_branch_name o)); intro X; inversion X; subst; unfold head_commit; cbn; auto.
        rewrite B2. apply lookup_insert_eq.
      + intro X; inversion X; subst. reflexivity. }
  assert (Hht : head_tree sa = head_tree s \/ head_tree sa = HTTree t).
  { destruct (co_create o) eqn:Ecr.
    - destruct (A8 eq_refl eq_refl) as (B1 & B2 & B3 & B4).
      unfold head_tree, head_commit. rewrite A2. destruct (head s) eqn:Eh; [|left; now rewrite (tree_of_commits sa s)].
      destruct (beqb b (co_branch_name o)) eqn:Eb.
      + apply beqb_true in Eb. subst b. right.
        rewrite B2, lookup_insert_eq.
        destruct (Z.eq_dec (co_hash o) (-1)) as [Ez|Ez].
        * specialize (B3 Ez). unfold head_commit in B3. rewrite Eh, B1 in B3. discriminate.
        * specialize (B4 Ez). subst h.
          assert ((co_hash o =? -1)%Z = false) as Ez' by now apply Z.eqb_neq.
          rewrite Ez' in Hr1. inversion Hr1; subst c1. now rewrite Ht.
      + apply beqb_false in Eb. left. rewrite (A5 b Eb).
        destruct (lookup b (refs s)); [now rewrite (tree_of_commits sa s)|reflexivity].
    - destruct (A6 eq_refl) as (-> & _). now left. }
  rewrite (tree_of_commits sa s _ A1) in Ht.
  destruct (co_mode o) eqn:Em.
  1,3,4,5: (destruct (move_head o (co_branch_name o) h c1 sa) as [[e3|] sb] eqn:Emv; inversion H; subst;
            repeat split; eauto; discriminate).
  destruct (head_tree sa) eqn:Eh; [| now inversion H |];
    (destruct (move_head o (co_branch_name o) h c1 sa) as [[e3|] sb] eqn:Emv; inversion H; subst;
     repeat split; eauto; intros _).
  - (* unborn HEAD: Reset diffs from the new HEAD, i.e. from the target itself *)
    right. unfold prev_of, prev_tree, head_tree. rewrite (Hmove s2 eq_refl).
    destruct (move_head_spec _ _ _ _ _ _ _ Emv) as (C1 & _).
    rewrite (tree_of_commits s2 sa _ C1), (tree_of_commits sa s _ A1), Ht. reflexivity.
  - unfold prev_of, prev_tree. cbn [tree_or_empty].
    destruct Hht as [X|X].
    + left. now rewrite <- X.
    + right. inversion X; subst. exact Ht.
Qed.

(* the commit a Checkout asks for *)
Definition checkout_target (o : copts) (s : state) : option Z :=
  if (co_hash o =? -1)%Z
  then (if co_create o then head_commit s else lookup (co_branch_name o) (refs s))
  else Some (co_hash o).

Lemma checkout_pre_target : forall o s c m from s2,
  checkout_pre o s = (None, ((c, m, from), s2)) -> checkout_target o s = Some c.
Proof.
  intros o s c m from s2 H. unfold checkout_pre in H.
  destruct (co_validate o); [now inversion H|].
  destruct (create_branch o (co_branch_name o) s) as [e1 [h sa]] eqn:Ec.
  destruct (create_branch_spec _ _ _ _ _ _ Ec) as (A1 & A2 & A3 & A4 & A5 & A6 & A7 & A8).
  destruct e1; [now inversion H|].
  destruct (resolve_commit (co_branch_name o) h sa) as [[e2|] c1] eqn:Er; [now inversion H|].
  assert (Hc : c1 = c).
  { destruct (match co_mode o with Hard => head_tree sa | _ => HTNone end); try (now inversion H);
    (destruct (move_head o (co_branch_name o) h c1 sa) as [[e3|] sb]; now inversion H). }
  subst c1. clear H.
  unfold resolve_commit in Er.
  destruct (if (h =? -1)%Z then lookup (co_branch_name o) (refs sa) else Some h) as [c2|] eqn:E2; [|now inversion Er].
  assert (c2 = c) by (destruct (tree_of sa c2); now inversion Er). subst c2.
  unfold checkout_target. destruct (co_create o) eqn:Ecr.
  - destruct (A8 eq_refl eq_refl) as (B1 & B2 & B3 & B4).
    destruct (co_hash o =? -1)%Z eqn:Ez.
    + apply Z.eqb_eq in Ez. rewrite (B3 Ez). destruct (h =? -1)%Z.
      * rewrite B2, lookup_insert_eq in E2. exact E2.
      * exact E2.
    + apply Z.eqb_neq in Ez. rewrite <- (B4 Ez).
      assert ((h =? -1)%Z = false) as X by (apply Z.eqb_neq; rewrite (B4 Ez); exact Ez).
      now rewrite X in E2.
  - destruct (A6 eq_refl) as (-> & -> & _). exact E2.
Qed.

(* a successful Checkout that runs a real Reset (Force, or neither Force nor Keep) *)
Lemma checkout_ok : forall o s s', checkout o s = (None, s') -> co_mode o <> Soft ->
  exists c t pv,
    checkout_target o s = Some c /\ tree_of s c = Some t /\ commits s' = commits s /\
    head_commit s' = Some c /\ agree (idx s') t /\
    (forall p, lookup p (wt s') = wt_after (co_mode o) t pv (idx s) (wt s) p) /\
    (co_mode o = Hard -> pv = tree_or_empty (head_tree s) \/ pv = t) /\
    (co_mode o = Merge -> unstaged s = false).
Proof.
  intros o s s' H Hm. unfold checkout in H.
  destruct (checkout_pre o s) as [[e|] [[[c m] from] s2]] eqn:Ep; [now inversion H|].
  destruct (checkout_pre_ok _ _ _ _ _ _ Ep) as (-> & (t & Ht) & Hh & Hpv).
  pose proof (checkout_pre_target _ _ _ _ _ _ Ep) as Htg.
  destruct (checkout_pre_frame _ _ _ _ _ Ep) as (F1 & F2 & F3 & _).
  destruct (reset_ok _ _ _ _ _ H Hm) as (c' & t' & s1 & R1 & R2 & R3 & R4 & R5 & R6 & R7 & R8 & R9 & _).
  assert (c' = c).
  { unfold reset_target in R1. destruct (c =? -1)%Z; congruence. }
  subst c'. rewrite (tree_of_commits s2 s _ F1), Ht in R2. inversion R2; subst t'.
  destruct (set_head_commit_ok _ _ _ R3) as (_ & _ & _ & S4).
  exists c, t, (prev_of (co_mode o) from s2). repeat split; auto.
  - congruence.
  - unfold head_commit in *. now rewrite R5, R6.
  - intro p. rewrite R8, F2, F3. reflexivity.
  - intro X. rewrite X in *. destruct (Hpv eq_refl) as [Y|Y]; [now left|right]. congruence.
  - intro X. rewrite <- (unstaged_frame s2 s F2 F3). auto.
Qed.
