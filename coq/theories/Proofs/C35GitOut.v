(* Proofs/C35GitOut.v — go-git's v2 fetch output (up to the packfile data) is in
   git's documented grammar (Spec/GitProto.v git_fetchout) and means the message. *)
From Coq Require Import List Arith NArith ZArith Bool Lia String.
From GoGit Require Import Base.Out Base.GoInt Gen.C34 Model.PktLine Model.C35Utf8 Model.Packp Model.PackpV2 Spec.GitProto
  Proofs.C34Pkt Proofs.C35Base Proofs.C35Utf8 Proofs.C35U Proofs.C35Msgs Proofs.C35Caps Proofs.C35Dec Proofs.C35Adv Proofs.C35Ul
  Proofs.C35V2Base Proofs.C35V2Caps Proofs.C35V2Fetch Proofs.C35V2Ls Proofs.C35V2Out Proofs.C35Git Proofs.C35GitV2 Proofs.C35GitV0.
Import ListNotations.

(* the lines of a section body *)
Lemma section_body_lines : forall (ls : list bytes) (term : pkt) rest acc, (term = PDelim \/ term = PFlush) ->
  section_body (map (fun l => PData (l ++ [NL])) ls ++ term :: rest) acc = Some (acc ++ ls, term, rest).
Proof.
  induction ls as [|l ls IH]; intros term rest acc Ht.
  - cbn [map app]. rewrite app_nil_r. destruct Ht as [-> | ->]; reflexivity.
  - cbn [map app section_body]. rewrite chomp_app, (IH term rest _ Ht). now rewrite <- app_assoc.
Qed.

(* acknowledgments: (nak | *ack) [ready] *)
Lemma git_acks_acks hexsz : forall hs acc (tail : list bytes), forallb (sized hexsz) hs = true ->
  (tail = [] \/ tail = [B "ready"]) ->
  git_acks hexsz (map (fun h => B "ACK " ++ hash_str h) hs ++ tail) acc
  = Some (acc ++ hs, match tail with [] => false | _ => true end).
Proof.
  induction hs as [|h hs IH]; intros acc tail H Ht.
  - cbn [map app]. rewrite app_nil_r. destruct Ht as [-> | ->]; reflexivity.
  - cbn [forallb] in H. apply andb_prop in H. destruct H as [H1 H2]. cbn [map app].
    change (B "ACK " ++ hash_str h) with ((B "ACK" ++ [SP]) ++ hash_str h).
    destruct (map (fun h0 => B "ACK " ++ hash_str h0) hs ++ tail) as [|l2 r2] eqn:E.
    + (* the last line *)
      assert (hs = [] /\ tail = []) as [-> ->].
      { destruct hs; [|discriminate]. cbn in E. destruct Ht as [-> | ->]; [auto|discriminate]. }
      cbn [git_acks]. assert (beq ((B "ACK" ++ [SP]) ++ hash_str h) (B "ready") = false) as -> by reflexivity.
      assert (beq ((B "ACK" ++ [SP]) ++ hash_str h) (B "NAK") = false) as -> by reflexivity.
      now rewrite (kw_oid_str hexsz "ACK" h H1).
    + assert (git_acks hexsz (((B "ACK" ++ [SP]) ++ hash_str h) :: l2 :: r2) acc =
              match kw_oid hexsz "ACK" ((B "ACK" ++ [SP]) ++ hash_str h) with Some h0 => git_acks hexsz (l2 :: r2) (acc ++ [h0]) | None => None end) as ->.
      { cbn [git_acks]. assert (beq ((B "ACK" ++ [SP]) ++ hash_str h) (B "NAK") = false) as -> by reflexivity. reflexivity. }
      rewrite (kw_oid_str hexsz "ACK" h H1), <- E, (IH _ tail H2 Ht). now rewrite <- app_assoc.
Qed.

Definition acks_lines (a : list hash * bool) : list bytes :=
  map (fun h => B "ACK " ++ hash_str h) (fst a) ++
  (if snd a then [B "ready"] else match fst a with [] => [B "NAK"] | _ => [] end).

Lemma acks_encode_lines a : acks_encode a = map (fun l => PData (l ++ [NL])) (acks_lines a).
Proof.
  unfold acks_encode, acks_lines. rewrite map_app, map_map.
  replace (map (fun h => PData (B "ACK " ++ hash_str h ++ [NL])) (fst a)) with (map (fun x => PData ((B "ACK " ++ hash_str x) ++ [NL])) (fst a))
    by (apply map_ext; intros; now rewrite <- app_assoc).
  destruct (snd a); [reflexivity|]. destruct (fst a); reflexivity.
Qed.

Lemma git_acks_lines hexsz a : forallb (sized hexsz) (fst a) = true -> git_acks hexsz (acks_lines a) [] = Some a.
Proof.
  intros H. destruct a as [hs ready]. cbn [fst snd] in *. unfold acks_lines. cbn [fst snd]. destruct ready.
  - now rewrite (git_acks_acks hexsz hs [] [B "ready"] H (or_intror eq_refl)).
  - destruct hs as [|h hs]; [reflexivity|]. rewrite app_nil_r.
    pose proof (git_acks_acks hexsz (h :: hs) [] [] H (or_introl eq_refl)) as K. rewrite app_nil_r in K. exact K.
Qed.

(* shallow-info and wanted-refs bodies *)
Lemma git_shinfo_sh hexsz : forall hs rest sh uns, forallb (sized hexsz) hs = true ->
  git_shinfo hexsz (map (fun h => B "shallow " ++ hash_str h) hs ++ rest) sh uns = git_shinfo hexsz rest (sh ++ hs) uns.
Proof.
  induction hs as [|h hs IH]; intros rest sh uns H; [cbn [map app]; now rewrite app_nil_r|].
  cbn [forallb] in H. apply andb_prop in H. destruct H as [H1 H2]. cbn [map app git_shinfo].
  change (B "shallow " ++ hash_str h) with ((B "shallow" ++ [SP]) ++ hash_str h).
  rewrite (kw_oid_str hexsz "shallow" h H1), (IH rest _ uns H2). now rewrite <- app_assoc.
Qed.
Lemma git_shinfo_un hexsz : forall hs sh uns, forallb (sized hexsz) hs = true ->
  git_shinfo hexsz (map (fun h => B "unshallow " ++ hash_str h) hs) sh uns = Some (sh, uns ++ hs).
Proof.
  induction hs as [|h hs IH]; intros sh uns H; [cbn; now rewrite app_nil_r|].
  cbn [forallb] in H. apply andb_prop in H. destruct H as [H1 H2]. cbn [map git_shinfo].
  change (B "unshallow " ++ hash_str h) with ((B "unshallow" ++ [SP]) ++ hash_str h).
  rewrite kw_shallow_unshallow, (kw_oid_str hexsz "unshallow" h H1), (IH sh _ H2). now rewrite <- app_assoc.
Qed.

Definition shinfo_lines (s : list hash * list hash) : list bytes :=
  map (fun h => B "shallow " ++ hash_str h) (fst s) ++ map (fun h => B "unshallow " ++ hash_str h) (snd s).
Lemma shinfo_encode_lines s : shinfo_encode s = map (fun l => PData (l ++ [NL])) (shinfo_lines s).
Proof.
  unfold shinfo_encode, shinfo_lines. rewrite map_app, !map_map.
  replace (map (fun h => PData (B "shallow " ++ hash_str h ++ [NL])) (fst s)) with (map (fun x => PData ((B "shallow " ++ hash_str x) ++ [NL])) (fst s))
    by (apply map_ext; intros; now rewrite <- app_assoc).
  replace (map (fun h => PData (B "unshallow " ++ hash_str h ++ [NL])) (snd s)) with (map (fun x => PData ((B "unshallow " ++ hash_str x) ++ [NL])) (snd s))
    by (apply map_ext; intros; now rewrite <- app_assoc).
  reflexivity.
Qed.

Definition wanted_lines_of (w : list (bytes * hash)) : list bytes := map (fun r => hash_str (snd r) ++ [SP] ++ fst r) w.
Lemma wanted_encode_lines w : wanted_encode w = map (fun l => PData (l ++ [NL])) (wanted_lines_of w).
Proof. unfold wanted_encode, wanted_lines_of. rewrite map_map. apply map_ext. intros r. now rewrite <- !app_assoc. Qed.

Lemma git_wanted_lines hexsz : forall w acc, forallb wanted_ok w = true -> forallb (fun r => sized hexsz (snd r)) w = true ->
  git_wanted hexsz (wanted_lines_of w) acc = Some (acc ++ w).
Proof.
  induction w as [|[name h] w IH]; intros acc H Hs; [cbn; now rewrite app_nil_r|].
  cbn [forallb] in H, Hs. apply andb_prop in H, Hs. destruct H as [H1 H2], Hs as [S1 S2]. cbn [snd] in S1.
  unfold wanted_ok in H1. cbn [fst snd] in H1. apply andb_prop in H1. destruct H1 as [Hn _].
  unfold wanted_lines_of. cbn [map fst snd git_wanted]. fold (wanted_lines_of w).
  change (hash_str h ++ [SP] ++ name) with (hash_str h ++ SP :: name). rewrite (oid_sp_str hexsz h name S1).
  unfold word_ok in Hn. destruct name as [|c name']; [discriminate|]. rewrite (IH _ H2 S2). now rewrite <- app_assoc.
Qed.

Definition uris_lines_of (u : list bytes) : list bytes := u.
Lemma uris_encode_lines u : uris_encode u = map (fun l => PData (l ++ [NL])) u.
Proof. reflexivity. Qed.

(* ---------- the value git learns ---------- *)
Definition fo_abs (o : fetchout) : gfetchout :=
  mkgfetchout (fo_acks o) (fo_shallow o) (fo_wanted o) (fo_uris o) (fo_packfile o).

Definition fo_git_ok (hexsz : nat) (o : fetchout) : bool :=
  opt_ok (fun a : list hash * bool => forallb (sized hexsz) (fst a)) (fo_acks o) &&
  opt_ok (fun s : list hash * list hash => forallb (sized hexsz) (fst s) && forallb (sized hexsz) (snd s)) (fo_shallow o) &&
  opt_ok (fun w : list (bytes * hash) => forallb (fun r => sized hexsz (snd r)) w) (fo_wanted o).

Lemma git_sections_step hexsz f p r rank o : r <> [] ->
  git_sections hexsz (S f) (PData p :: r) rank o =
  (let hdr := chomp p in
   match section_body r [] with
   | Some (ls, PDelim, r') =>
     if beq hdr (B "shallow-info") && Nat.ltb rank 2 then
       match git_shinfo hexsz ls [] [] with
       | Some s => git_sections hexsz f r' 2 (mkgfetchout (go_acks o) (Some s) (go_wanted o) (go_uris o) false)
       | None => None
       end
     else if beq hdr (B "wanted-refs") && Nat.ltb rank 3 then
       match git_wanted hexsz ls [] with
       | Some w => git_sections hexsz f r' 3 (mkgfetchout (go_acks o) (go_shallow o) (Some w) (go_uris o) false)
       | None => None
       end
     else if beq hdr (B "packfile-uris") && Nat.ltb rank 4 then
       git_sections hexsz f r' 4 (mkgfetchout (go_acks o) (go_shallow o) (go_wanted o) (Some ls) false)
     else None
   | _ => None
   end).
Proof. intros H. destruct r; [contradiction|reflexivity]. Qed.

(* the sections after the acknowledgments *)
Lemma git_sections_tail hexsz sh wr ur (acks : option (list hash * bool)) rank0 f :
  opt_ok (fun s : list hash * list hash => forallb (sized hexsz) (fst s) && forallb (sized hexsz) (snd s)) sh = true ->
  opt_ok (forallb wanted_ok) wr = true -> opt_ok (fun w : list (bytes * hash) => forallb (fun r => sized hexsz (snd r)) w) wr = true ->
  (rank0 <= 1)%nat ->
  git_sections hexsz (4 + f) (section "shallow-info" shinfo_encode sh ++ section "wanted-refs" wanted_encode wr ++
                              section "packfile-uris" uris_encode ur ++ [PData (B "packfile" ++ [NL])]) rank0
               (mkgfetchout acks None None None false)
  = Some (mkgfetchout acks sh wr ur true).
Proof.
  intros Hs Hw Hws Hr.
  assert (forall fu rk o, git_sections hexsz (S fu) [PData (B "packfile" ++ [NL])] rk o
                          = Some (mkgfetchout (go_acks o) (go_shallow o) (go_wanted o) (go_uris o) true)) as Kp by reflexivity.
  assert (forall fu rk o u, (rk <= 3)%nat ->
            git_sections hexsz (S (S fu)) (section "packfile-uris" uris_encode (Some u) ++ [PData (B "packfile" ++ [NL])]) rk o
            = Some (mkgfetchout (go_acks o) (go_shallow o) (go_wanted o) (Some u) true)) as Ku.
  { intros fu rk o u Hrk. unfold section. rewrite uris_encode_lines. cbn [app]. rewrite <- app_assoc. cbn [app].
    rewrite git_sections_step by (apply app_ne_r; discriminate). cbv zeta.
    change (chomp (B "packfile-uris" ++ [NL])) with (B "packfile-uris").
    rewrite (section_body_lines u PDelim _ [] (or_introl eq_refl)). cbn [app].
    change (beq (B "packfile-uris") (B "shallow-info")) with false. change (beq (B "packfile-uris") (B "wanted-refs")) with false.
    change (beq (B "packfile-uris") (B "packfile-uris")) with true. cbn [andb].
    assert (Nat.ltb rk 4 = true) as -> by (apply Nat.ltb_lt; lia). apply Kp. }
  assert (forall fu rk o, (rk <= 3)%nat ->
            git_sections hexsz (S (S fu)) (section "packfile-uris" uris_encode ur ++ [PData (B "packfile" ++ [NL])]) rk
                         (mkgfetchout (go_acks o) (go_shallow o) (go_wanted o) None false)
            = Some (mkgfetchout (go_acks o) (go_shallow o) (go_wanted o) ur true)) as Ku'.
  { intros fu rk o Hrk. destruct ur as [u|]; [now rewrite Ku|]. cbn [section app]. now rewrite Kp. }
  assert (forall fu rk o, (rk <= 2)%nat ->
            git_sections hexsz (S (S (S fu))) (section "wanted-refs" wanted_encode wr ++ section "packfile-uris" uris_encode ur ++ [PData (B "packfile" ++ [NL])]) rk
                         (mkgfetchout (go_acks o) (go_shallow o) None None false)
            = Some (mkgfetchout (go_acks o) (go_shallow o) wr ur true)) as Kw.
  { intros fu rk o Hrk. destruct wr as [w|].
    - cbn [opt_ok] in Hw, Hws. unfold section at 1. rewrite wanted_encode_lines. cbn [app]. rewrite <- app_assoc. cbn [app].
      rewrite git_sections_step by (apply app_ne_r; discriminate). cbv zeta.
      change (chomp (B "wanted-refs" ++ [NL])) with (B "wanted-refs").
      rewrite (section_body_lines _ PDelim _ [] (or_introl eq_refl)). cbn [app].
      change (beq (B "wanted-refs") (B "shallow-info")) with false. change (beq (B "wanted-refs") (B "wanted-refs")) with true. cbn [andb].
      assert (Nat.ltb rk 3 = true) as -> by (apply Nat.ltb_lt; lia).
      rewrite (git_wanted_lines hexsz w [] Hw Hws). cbn [app].
      apply (Ku' fu 3%nat (mkgfetchout (go_acks o) (go_shallow o) (Some w) None false)). lia.
    - cbn [section app]. apply (Ku' (S fu) rk (mkgfetchout (go_acks o) (go_shallow o) None None false)). lia. }
  destruct sh as [s|].
  - cbn [opt_ok] in Hs. apply andb_prop in Hs. destruct Hs as [Hs1 Hs2]. unfold section at 1. rewrite shinfo_encode_lines.
    cbn [plus app]. rewrite <- app_assoc. cbn [app].
    rewrite git_sections_step by (apply app_ne_r; discriminate). cbv zeta.
    change (chomp (B "shallow-info" ++ [NL])) with (B "shallow-info").
    rewrite (section_body_lines _ PDelim _ [] (or_introl eq_refl)). cbn [app].
    change (beq (B "shallow-info") (B "shallow-info")) with true. cbn [andb].
    assert (Nat.ltb rank0 2 = true) as -> by (apply Nat.ltb_lt; lia).
    unfold shinfo_lines. rewrite (git_shinfo_sh hexsz _ _ [] [] Hs1). cbn [app]. rewrite (git_shinfo_un hexsz _ _ [] Hs2). cbn [app].
    pose proof (Kw f 2%nat (mkgfetchout acks (Some s) None None false) (le_n 2)) as K. cbn [go_acks go_shallow] in K. destruct s. exact K.
  - cbn [section app plus]. apply (Kw (S f) rank0 (mkgfetchout acks None None None false)). lia.
Qed.

Theorem git_fetchout_enc hexsz o ps : fetchout_ok o = true -> fo_git_ok hexsz o = true -> fetchout_encode o = Some ps ->
  git_fetchout hexsz ps = Some (fo_abs o).
Proof.
  unfold fetchout_ok, fo_git_ok. intros H G He.
  repeat (apply andb_prop in H; let X := fresh "K" in destruct H as [H X]).
  rename H into Ha, K2 into Hs, K1 into Hw, K0 into Hu, K into Hshape.
  apply andb_prop in G. destruct G as [G Gw]. apply andb_prop in G. destruct G as [Ga Gs].
  destruct o as [acks sh wr ur pf]. cbn [fo_acks fo_shallow fo_wanted fo_uris fo_packfile] in *. unfold fo_abs. cbn [fo_acks fo_shallow fo_wanted fo_uris fo_packfile].
  unfold fetchout_encode in He. cbn [fo_acks fo_shallow fo_wanted fo_uris fo_packfile] in He.
  destruct pf.
  - apply (f_equal (fun x => match x with Some y => y | None => [] end)) in He. cbv beta iota in He. subst ps.
    destruct acks as [a|].
    + cbn [opt_ok] in Hshape, Ga. unfold section at 1. rewrite acks_encode_lines. cbn [app].
      unfold git_fetchout. change (chomp (B "acknowledgments" ++ [NL])) with (B "acknowledgments").
      change (beq (B "acknowledgments") (B "acknowledgments")) with true. cbv iota.
      rewrite <- app_assoc. cbn [app]. rewrite (section_body_lines _ PDelim _ [] (or_introl eq_refl)). cbn [app].
      rewrite (git_acks_lines hexsz a Ga). destruct a as [hs rd]. cbn [snd] in Hshape. subst rd.
      apply (git_sections_tail hexsz sh wr ur (Some (hs, true)) 1%nat 1%nat Gs Hw Gw (le_n 1)).
    + (* no acknowledgments: the first packet is a section header or the packfile header *)
      cbn [section app]. unfold git_fetchout.
      destruct (section "shallow-info" shinfo_encode sh ++ section "wanted-refs" wanted_encode wr ++
                section "packfile-uris" uris_encode ur ++ [PData (B "packfile" ++ [NL])]) as [|x0 r0] eqn:E.
      { destruct sh, wr, ur; discriminate. }
      assert (exists p0, x0 = PData p0 /\ beq (chomp p0) (B "acknowledgments") = false) as (p0 & -> & Hp0).
      { destruct sh as [s|]; [cbn [section app] in E; injection E as <- _; eexists; split; reflexivity|].
        destruct wr as [w|]; [cbn [section app] in E; injection E as <- _; eexists; split; reflexivity|].
        destruct ur as [u|]; [cbn [section app] in E; injection E as <- _; eexists; split; reflexivity|].
        cbn [section app] in E. injection E as <- _. eexists; split; reflexivity. }
      rewrite Hp0. rewrite <- E.
      apply (git_sections_tail hexsz sh wr ur None 1%nat 1%nat Gs Hw Gw (le_n 1)).
  - destruct acks as [a|]; [|discriminate]. destruct sh; [discriminate|]. destruct wr; [discriminate|]. destruct ur; [discriminate|].
    cbn [opt_ok] in *. apply negb_true_iff in Hshape. rewrite Hshape in He.
    apply (f_equal (fun x => match x with Some y => y | None => [] end)) in He. cbv beta iota in He. subst ps.
    rewrite acks_encode_lines. unfold git_fetchout. change (chomp (B "acknowledgments" ++ [NL])) with (B "acknowledgments").
    change (beq (B "acknowledgments") (B "acknowledgments")) with true. cbv iota.
    rewrite (section_body_lines _ PFlush [] [] (or_intror eq_refl)). cbn [app].
    rewrite (git_acks_lines hexsz a Ga). destruct a as [hs rd]. cbn [snd] in Hshape. subst rd. reflexivity.
Qed.
