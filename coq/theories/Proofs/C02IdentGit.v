(* Proofs/C02IdentGit.v — identity lines: for every value that passes the
   boolean clauses person_ok / date_ok of Spec/ObjWf, go-git's
   Signature.Decode yields the name, e-mail and raw date git reports
   (ident.c split_ident_line + pretty.c show_ident_date). *)
From Coq Require Import List NArith ZArith Bool Lia ZifyBool ZifyNat ZifyN.
From GoGit Require Import Base.Out Model.ObjLines Model.Ident Model.Commit Spec.GitFields Spec.ObjWf
     Proofs.ObjLinesFacts Proofs.C02Dec Proofs.C02Ident.
Import ListNotations.
Local Open Scope N_scope.

(* what go-git's fields print as, in git's raw date format; "" for the zero time *)
Definition go_date (i : ident) : bytes :=
  if ((id_ts i =? zero_ts) && (id_tz i =? 0))%Z then []
  else print_dec (Z.to_N (id_ts i)) ++ [SPC] ++ fmt_zone (id_tz i).

(* ---- generic list facts ---- *)
Lemma take_drop (f : N -> bool) b : b = take_while f b ++ skipn (List.length (take_while f b)) b.
Proof. induction b as [|c r IH]; [reflexivity|]. cbn [take_while]. destruct (f c); [|reflexivity]. cbn [List.length skipn app]. now rewrite <- IH. Qed.

Lemma take_while_all (f : N -> bool) b : forallb f (take_while f b) = true.
Proof. induction b as [|c r IH]; [reflexivity|]. cbn [take_while]. destruct (f c) eqn:E; [|reflexivity]. cbn [forallb]. rewrite E. exact IH. Qed.

Lemma take_while_app (f : N -> bool) a b : forallb f a = true -> (match b with c :: _ => f c = false | [] => True end) ->
  take_while f (a ++ b) = a.
Proof.
  intros Ha Hb. induction a as [|x a IH]; cbn [app take_while].
  - destruct b as [|c b]; [reflexivity|]. cbn [take_while]. now rewrite Hb.
  - cbn [forallb] in Ha. apply andb_true_iff in Ha as [H1 H2]. now rewrite H1, (IH H2).
Qed.

Lemma drop_while_head (f : N -> bool) b : (match b with c :: _ => f c = false | [] => True end) -> drop_while f b = b.
Proof. destruct b as [|c b]; [reflexivity|]. cbn. now intros ->. Qed.

Lemma count_unique c v : count_byte c v = 1%nat ->
  exists x y, v = x ++ c :: y /\ has_byte c x = false /\ has_byte c y = false.
Proof.
  unfold count_byte. induction v as [|a v IH]; cbn [filter List.length]; [discriminate|].
  destruct (c =? a) eqn:E.
  - cbn [List.length]. intros H. apply N.eqb_eq in E. subst a. exists [], v. repeat split.
    assert (L : List.length (filter (N.eqb c) v) = 0%nat) by lia.
    apply length_zero_iff_nil in L. unfold has_byte.
    destruct (existsb (N.eqb c) v) eqn:X; [|reflexivity]. apply existsb_exists in X as [z [Hz Hc]].
    assert (In z (filter (N.eqb c) v)) by (apply filter_In; now split). rewrite L in H0. contradiction.
  - intros H. destruct (IH H) as [x [y [-> [Hx Hy]]]]. exists (a :: x), y. repeat split; [|exact Hy].
    rewrite has_byte_cons, E, Hx. reflexivity.
Qed.

Lemma count_app c a b : count_byte c (a ++ b) = (count_byte c a + count_byte c b)%nat.
Proof. unfold count_byte. now rewrite filter_app, app_length. Qed.

Lemma count_zero c b : has_byte c b = false -> count_byte c b = 0%nat.
Proof.
  unfold count_byte, has_byte. induction b as [|x b IH]; [reflexivity|]. cbn [existsb filter]. intros H.
  apply orb_false_iff in H as [H1 H2]. rewrite H1. now apply IH.
Qed.

Lemma has_of_count c b : count_byte c b = 0%nat -> has_byte c b = false.
Proof.
  unfold count_byte, has_byte. induction b as [|x b IH]; [reflexivity|]. cbn [existsb filter].
  destruct (c =? x); cbn [List.length orb]; [discriminate|exact IH].
Qed.

Lemma index_of_none c b : has_byte c b = false -> index_of c b = None.
Proof.
  induction b as [|x b IH]; [reflexivity|]. rewrite has_byte_cons. intros H. apply orb_false_iff in H as [H1 H2].
  cbn [index_of]. rewrite N.eqb_sym in H1. now rewrite H1, (IH H2).
Qed.

Lemma index_of_lt c x y i : index_of c (x ++ y) = Some i -> has_byte c x = true -> (i < List.length x)%nat.
Proof.
  revert i. induction x as [|a x IH]; intros i H Hx; [discriminate|]. cbn [app index_of] in H. cbn [List.length].
  destruct (a =? c) eqn:E; [inversion H; lia|].
  rewrite has_byte_cons, N.eqb_sym, E in Hx. cbn [orb] in Hx.
  destruct (index_of c (x ++ y)) as [j|] eqn:Ej; [|discriminate]. inversion H; subst. specialize (IH _ eq_refl Hx). lia.
Qed.

Lemma index_of_split c v : forall i, index_of c v = Some i ->
  exists x y, v = x ++ c :: y /\ has_byte c x = false /\ i = List.length x.
Proof.
  induction v as [|a v IH]; intros i H; [discriminate|]. cbn [index_of] in H.
  destruct (a =? c) eqn:E.
  - apply N.eqb_eq in E. subst a. exists [], v. repeat split. now inversion H.
  - destruct (index_of c v) as [j|] eqn:Ej; [|discriminate]. destruct (IH _ eq_refl) as [x [y [-> [Hx Hj]]]].
    exists (a :: x), y. repeat split.
    + rewrite has_byte_cons, N.eqb_sym, E, Hx. reflexivity.
    + inversion H. subst j. reflexivity.
Qed.

(* the shape person_ok describes: the name part [x] may hold '>' *)
Lemma person_shape v : person_ok v = true ->
  exists x m a, v = x ++ LT :: m ++ GT :: a /\
    has_byte LT x = false /\ has_byte LT m = false /\ has_byte GT m = false /\
    has_byte LT a = false /\ has_byte GT a = false /\
    (trim_right SPC x = [] \/
     (first_is SPC x = false /\
      match rev (trim_right SPC x) with c :: _ => negb ((c =? 9) || (c =? 13)) = true | [] => True end)).
Proof.
  unfold person_ok. intros H.
  destruct (index_of LT v) as [lt|] eqn:El; [|discriminate].
  destruct (index_of_split _ _ _ El) as [x [y [-> [Hx ->]]]].
  rewrite firstn_app_exact in H.
  replace (skipn (S (List.length x)) (x ++ LT :: y)) with y in H.
  2:{ replace (x ++ LT :: y) with ((x ++ [LT]) ++ y) by (now rewrite <- app_assoc).
      replace (S (List.length x)) with (List.length (x ++ [LT])) by (clear; rewrite app_length; cbn [List.length]; lia).
      now rewrite skipn_app_exact. }
  apply andb_true_iff in H as [H Hm]. apply andb_true_iff in H as [H1 H2].
  apply negb_true_iff in H1. apply Nat.eqb_eq in H2.
  destruct (count_unique _ _ H2) as [m [a [-> [Hgm Hga]]]].
  rewrite has_byte_app, has_byte_cons in H1. apply orb_false_iff in H1 as [Hlm H1]. apply orb_false_iff in H1 as [_ Hla].
  exists x, m, a. repeat split; try assumption.
  destruct (trim_right SPC x) as [|t0 ts] eqn:Et; [now left|right].
  apply andb_true_iff in Hm as [Hf Hl]. apply negb_true_iff in Hf. split; [exact Hf|].
  unfold last_is in Hl. destruct (rev (t0 :: ts)) as [|c r]; [exact I|exact Hl].
Qed.

(* trim_right removes exactly the trailing run *)
Lemma trim_right_spec c b : exists n, b = trim_right c b ++ repeat c n /\ last_is c (trim_right c b) = false.
Proof.
  induction b as [|x b [n [Hb Hl]]].
  - exists 0%nat. now split.
  - cbn [trim_right]. destruct (trim_right c b) as [|t ts] eqn:E.
    + destruct (x =? c) eqn:Ex.
      * apply N.eqb_eq in Ex. subst x. exists (S n). split; [|reflexivity]. cbn [app repeat]. f_equal. exact Hb.
      * exists n. split; [cbn [app]; f_equal; exact Hb|]. unfold last_is. cbn. exact Ex.
    + exists n. split; [cbn [app]; f_equal; exact Hb|].
      unfold last_is in *. cbn [rev] in *. destruct (rev ts ++ [t]) eqn:R; [destruct (rev ts); discriminate|]. exact Hl.
Qed.

Lemma repeat_snoc {A} (c : A) n : repeat c n ++ [c] = c :: repeat c n.
Proof. induction n as [|n IH]; [reflexivity|]. cbn. now rewrite IH. Qed.
Lemma rev_repeat' {A} (c : A) n : rev (repeat c n) = repeat c n.
Proof. induction n as [|n IH]; [reflexivity|]. cbn. now rewrite IH, repeat_snoc. Qed.

Lemma drop_while_repeat (f : N -> bool) c n r : f c = true -> drop_while f (repeat c n ++ r) = drop_while f r.
Proof. intros H. induction n as [|n IH]; [reflexivity|]. cbn. now rewrite H. Qed.

Lemma rstrip_trim x : no_lf x = true ->
  match rev (trim_right SPC x) with c :: _ => negb ((c =? 9) || (c =? 13)) = true | [] => True end ->
  rstrip git_isspace x = trim_right SPC x.
Proof.
  intros Hlf Hc. destruct (trim_right_spec SPC x) as [n [Hx Hl]]. unfold rstrip.
  rewrite Hx at 1. rewrite rev_app_distr, rev_repeat', (drop_while_repeat git_isspace SPC n _ eq_refl).
  set (t := trim_right SPC x) in *.
  assert (Ht : no_lf t = true) by (rewrite Hx, no_lf_app in Hlf; now apply andb_true_iff in Hlf).
  assert (Hr : no_lf (rev t) = true).
  { unfold no_lf in *. rewrite forallb_forall in *. intros y Hy. apply Ht, in_rev, Hy. }
  unfold last_is in Hl. destruct (rev t) as [|z zs] eqn:R.
  - cbn. apply (f_equal (@rev N)) in R. now rewrite rev_involutive in R.
  - rewrite drop_while_head.
    + rewrite <- R. apply rev_involutive.
    + cbn in Hl. rewrite no_lf_cons in Hr. apply andb_true_iff in Hr as [Hz _].
      unfold git_isspace, LF, SPC in *. lia.
Qed.

Lemma trim_left_of_trim_right x : first_is SPC x = false -> trim_left SPC (trim_right SPC x) = trim_right SPC x.
Proof.
  intros H. apply trim_left_id. destruct (trim_right_spec SPC x) as [n [Hx _]].
  destruct (trim_right SPC x) as [|t ts]; [reflexivity|]. rewrite Hx in H. exact H.
Qed.

Lemma name_agree x : no_lf x = true ->
  (trim_right SPC x = [] \/
   (first_is SPC x = false /\
    match rev (trim_right SPC x) with c :: _ => negb ((c =? 9) || (c =? 13)) = true | [] => True end)) ->
  rstrip git_isspace x = trim_both SPC x.
Proof.
  intros Hlf [E|[Hf Hc]].
  - destruct (trim_right_spec SPC x) as [n [Hx _]]. unfold trim_both. rewrite E in *. cbn [app] in Hx. cbn [trim_left].
    unfold rstrip. rewrite Hx, rev_repeat', <- (app_nil_r (repeat SPC n)), (drop_while_repeat git_isspace SPC n [] eq_refl).
    reflexivity.
  - unfold trim_both. rewrite (trim_left_of_trim_right _ Hf). now apply rstrip_trim.
Qed.

(* ---- a text without digits holds no date, for git and for go-git ---- *)
Lemma no_digit_take f a : existsb is_digit a = false -> take_while is_digit (drop_while f a) = [].
Proof.
  induction a as [|c r IH]; [reflexivity|]. cbn [existsb]. intros H. apply orb_false_iff in H as [H1 H2].
  cbn [drop_while]. destruct (f c); [now apply IH|]. cbn [take_while]. now rewrite H1.
Qed.

Lemma no_digit_firstn n : forall a, existsb is_digit a = false -> existsb is_digit (firstn n a) = false.
Proof.
  induction n as [|n IH]; intros [|c r] H; try reflexivity. cbn [existsb] in H. apply orb_false_iff in H as [H1 H2].
  cbn [firstn existsb]. now rewrite H1, (IH _ H2).
Qed.

Lemma no_digit_tl a : existsb is_digit a = false -> existsb is_digit (tl a) = false.
Proof. destruct a as [|c r]; [reflexivity|]. cbn [existsb tl]. intros H. now apply orb_false_iff in H as [_ H]. Qed.

Lemma no_digit_digits_val b : existsb is_digit b = false -> digits_val b = None.
Proof.
  destruct b as [|c r]; [reflexivity|]. cbn [existsb]. intros H. apply orb_false_iff in H as [H1 _].
  unfold digits_val. cbn [digits_acc]. now rewrite H1.
Qed.

Lemma no_digit_parse b : existsb is_digit b = false -> parse_int64 b = None.
Proof.
  destruct b as [|c r]; [reflexivity|]. intros H. pose proof (no_digit_digits_val _ H) as Hb.
  pose proof (no_digit_digits_val _ (no_digit_tl _ H)) as Hr. cbn [tl] in Hr.
  unfold parse_int64. destruct (c =? 43); [now rewrite Hr|]. destruct (c =? 45); [now rewrite Hr|]. now rewrite Hb.
Qed.

Lemma no_digit_time nm em b : existsb is_digit b = false -> decode_time nm em b = mk_ident nm em zero_ts 0.
Proof. intros H. unfold decode_time. now rewrite (no_digit_parse _ (no_digit_firstn _ _ H)). Qed.

(* ---- zones: Go's "-0700" of the decoded offset is git's "%+05d" ---- *)
Definition zone_row (hh : N) : bool :=
  forallb (fun k => let mm := N.of_nat k in
            beqb (fmt_zone (Z.of_N (60 * hh + mm))) (fmt_plus05 (Z.of_N (100 * hh + mm))) &&
            beqb (fmt_zone (- Z.of_N (60 * hh + mm))) (fmt_plus05 (- Z.of_N (100 * hh + mm))) &&
            beqb (fmt_zone (Z.of_N (60 * hh + mm))) (43 :: pad2 hh ++ pad2 mm)) (seq 0 60).
Lemma zone_table : forallb (fun k => zone_row (N.of_nat k)) (seq 0 100) = true.
Proof. vm_compute. reflexivity. Qed.

Lemma zone_agree hh mm : hh < 100 -> mm < 60 ->
  fmt_zone (Z.of_N (60 * hh + mm)) = fmt_plus05 (Z.of_N (100 * hh + mm)) /\
  fmt_zone (- Z.of_N (60 * hh + mm)) = fmt_plus05 (- Z.of_N (100 * hh + mm)).
Proof.
  intros Hh Hm. pose proof zone_table as T. rewrite forallb_forall in T.
  specialize (T (N.to_nat hh) ltac:(apply in_seq; lia)). rewrite N2Nat.id in T. unfold zone_row in T.
  rewrite forallb_forall in T. specialize (T (N.to_nat mm) ltac:(apply in_seq; lia)). cbv zeta in T. rewrite N2Nat.id in T.
  apply andb_true_iff in T as [T _]. apply andb_true_iff in T as [T1 T2]. now apply beqb_eq in T1, T2.
Qed.

Lemma two_digits_facts a b n : two_digits a b = Some n ->
  is_digit a = true /\ is_digit b = true /\ n = 10 * (a - 48) + (b - 48) /\ n < 100 /\ digits_val [a; b] = Some n.
Proof.
  unfold two_digits. destruct (is_digit a) eqn:Ea, (is_digit b) eqn:Eb; try discriminate. cbn [andb]. intros H.
  assert (Hn : 10 * (a - 48) + (b - 48) = n) by (now injection H). clear H. subst n.
  repeat split; try (unfold is_digit in *; lia).
  unfold digits_val. cbn [digits_acc]. rewrite Ea, Eb. f_equal; lia.
Qed.

Lemma digits_acc_fold l : forall a, forallb is_digit l = true ->
  digits_acc a l = Some (fold_left (fun a c => 10 * a + (c - 48)) l a).
Proof.
  induction l as [|x l IH]; intros a Hd; [reflexivity|].
  cbn [forallb] in Hd. apply andb_true_iff in Hd as [H1 H2]. cbn [digits_acc fold_left]. rewrite H1. now apply IH.
Qed.

Lemma dval_digits ds : forallb is_digit ds = true -> ds <> [] -> digits_val ds = Some (dval ds).
Proof.
  intros Hd Hne. unfold digits_val, dval. destruct ds as [|c r]; [contradiction|]. now apply digits_acc_fold.
Qed.

(* decodeTimeAndTimeZone on "<digits> <sign>hhmm<rest>" *)
Lemma decode_time_canon nm em ds sg h1 h2 m1 m2 rest ts :
  has_byte SPC ds = false -> parse_int64 ds = Some ts ->
  decode_time nm em (ds ++ SPC :: sg :: h1 :: h2 :: m1 :: m2 :: rest) =
  match parse_int64 [sg; h1; h2], parse_int64 [m1; m2] with
  | Some h, Some m => mk_ident nm em ts (h * 60 + (if (h <? 0)%Z then (- m)%Z else m))%Z
  | _, _ => mk_ident nm em ts 0
  end.
Proof.
  intros Hsp Hp. unfold decode_time.
  rewrite (index_of_first _ _ _ Hsp), firstn_app_exact, Hp.
  rewrite app_length. cbn [List.length].
  replace (Nat.leb (List.length ds + S (S (S (S (S (S (List.length rest))))))) (S (List.length ds)) ||
           Nat.ltb (List.length ds + S (S (S (S (S (S (List.length rest))))))) (S (List.length ds) + 5))%bool
    with false by (clear; symmetry; apply orb_false_iff; split; [apply Nat.leb_gt|apply Nat.ltb_ge]; lia).
  unfold slice. replace (S (List.length ds) + 5 - S (List.length ds))%nat with 5%nat by (clear; lia).
  replace (skipn (S (List.length ds)) (ds ++ SPC :: sg :: h1 :: h2 :: m1 :: m2 :: rest)) with (sg :: h1 :: h2 :: m1 :: m2 :: rest).
  - reflexivity.
  - replace (ds ++ SPC :: sg :: h1 :: h2 :: m1 :: m2 :: rest) with ((ds ++ [SPC]) ++ sg :: h1 :: h2 :: m1 :: m2 :: rest)
      by (now rewrite <- app_assoc).
    replace (S (List.length ds)) with (List.length (ds ++ [SPC])) by (clear; rewrite app_length; cbn [List.length]; lia).
    now rewrite skipn_app_exact.
Qed.

(* the date part: what follows '>' *)
Lemma date_matches nm em a : date_canon a = true ->
  let i := decode_time nm em (tl a) in
  exists ds s zs,
    (let t1 := drop_while git_isspace a in
     let d := take_while is_digit t1 in
     let t2 := drop_while git_isspace (skipn (List.length d) t1) in
     d = ds /\ ds <> [] /\ exists t3, t2 = s :: t3 /\ ((s =? 43) || (s =? 45)) = true /\ take_while is_digit t3 = zs /\ zs <> []) /\
    git_show_date (ds, s, zs) = go_date i /\ id_name i = nm /\ id_email i = em.
Proof.
  unfold date_canon. destruct a as [|sp t]; [discriminate|]. intros H. apply andb_true_iff in H as [Hsp H].
  apply N.eqb_eq in Hsp. subst sp. cbn [tl].
  pose proof (take_drop is_digit t) as Ht. pose proof (take_while_all is_digit t) as Hds.
  set (ds := take_while is_digit t) in *.
  destruct ds as [|d0 ds0] eqn:Eds; [discriminate|]. rewrite <- Eds in *.
  destruct (skipn (List.length ds) t) as [|sp2 [|s [|h1 [|h2 [|m1 [|m2 rest]]]]]] eqn:Esk; try discriminate.
  apply andb_true_iff in H as [H Hz]. apply andb_true_iff in H as [H Hv]. apply andb_true_iff in H as [Hsp2 Hs].
  apply N.eqb_eq in Hsp2. subst sp2.
  destruct (two_digits h1 h2) as [hh|] eqn:Ehh; [|discriminate]. destruct (two_digits m1 m2) as [mm|] eqn:Emm; [|discriminate].
  apply andb_true_iff in Hz as [Hz Hrest]. apply andb_true_iff in Hz as [Hmm Hneg0].
  destruct (two_digits_facts _ _ _ Ehh) as [Dh1 [Dh2 [Vh [Bh Ph]]]].
  destruct (two_digits_facts _ _ _ Emm) as [Dm1 [Dm2 [Vm [Bm Pm]]]].
  assert (Hne : ds <> []) by (rewrite Eds; discriminate).
  assert (Hspds : has_byte SPC ds = false).
  { apply (has_byte_forall is_digit); [|exact Hds]. intros x Hx. now apply digit_not_sign in Hx. }
  assert (Hpts : parse_int64 ds = Some (Z.of_N (dval ds))).
  { apply parse_int64_digits; [exact Hne|exact Hds|now apply dval_digits|lia]. }
  (* go-git *)
  rewrite Ht. rewrite (decode_time_canon nm em ds s h1 h2 m1 m2 rest _ Hspds Hpts).
  assert (Pmm : parse_int64 [m1; m2] = Some (Z.of_N mm)).
  { apply parse_int64_digits; [discriminate| |exact Pm|lia]. cbn [forallb]. now rewrite Dm1, Dm2. }
  rewrite Pmm.
  exists ds, s, [h1; h2; m1; m2]. split; [|].
  - (* git's scan of the same bytes *)
    cbv zeta.
    assert (Ed : drop_while git_isspace (SPC :: ds ++ SPC :: s :: h1 :: h2 :: m1 :: m2 :: rest) = ds ++ SPC :: s :: h1 :: h2 :: m1 :: m2 :: rest).
    { cbn [drop_while]. replace (git_isspace SPC) with true by reflexivity. apply drop_while_head.
      rewrite Eds. cbn [app]. rewrite Eds in Hds. cbn [forallb] in Hds. apply andb_true_iff in Hds as [Hd0 _].
      unfold git_isspace, is_digit in *. lia. }
    rewrite Ed.
    assert (Etw : take_while is_digit (ds ++ SPC :: s :: h1 :: h2 :: m1 :: m2 :: rest) = ds) by (apply take_while_app; [exact Hds|reflexivity]).
    rewrite Etw. split; [reflexivity|]. split; [exact Hne|].
    rewrite skipn_app_exact. exists (h1 :: h2 :: m1 :: m2 :: rest). split.
    + assert (Hss : git_isspace s = false)
        by (apply orb_true_iff in Hs as [Hs|Hs]; apply N.eqb_eq in Hs; subst s; reflexivity).
      cbn [drop_while]. replace (git_isspace SPC) with true by reflexivity. now rewrite Hss.
    + split; [exact Hs|]. split; [|discriminate].
      change (h1 :: h2 :: m1 :: m2 :: rest) with ([h1; h2; m1; m2] ++ rest). apply take_while_app.
      * cbn [forallb]. now rewrite Dh1, Dh2, Dm1, Dm2.
      * destruct rest as [|r0 rest']; [exact I|]. now apply negb_true_iff in Hrest.
  - (* the printed dates agree *)
    assert (Hdz : dval [h1; h2; m1; m2] = 100 * hh + mm).
    { unfold dval. cbn [fold_left]. unfold is_digit in *. lia. }
    destruct (zone_agree hh mm Bh ltac:(lia)) as [Zp Zn].
    unfold git_show_date. replace (2 ^ 63 <=? dval ds) with false by lia. rewrite Hdz.
    apply orb_true_iff in Hs as [Hs|Hs]; apply N.eqb_eq in Hs; subst s.
    + replace (43 =? 45) with false by reflexivity.
      unfold parse_int64. replace (43 =? 43) with true by reflexivity. rewrite Ph.
      replace ((- 2 ^ 63 <=? Z.of_N hh) && (Z.of_N hh <? 2 ^ 63))%Z with true by lia.
      replace (Z.of_N hh <? 0)%Z with false by lia.
      replace ((2147483647 <=? Z.of_N (100 * hh + mm)) || (Z.of_N (100 * hh + mm) <=? -2147483648))%Z with false by lia.
      unfold go_date. cbn [id_ts id_tz id_name id_email].
      replace ((Z.of_N (dval ds) =? zero_ts) && (Z.of_N hh * 60 + Z.of_N mm =? 0))%Z with false by (unfold zero_ts; lia).
      rewrite N2Z.id. replace (Z.of_N hh * 60 + Z.of_N mm)%Z with (Z.of_N (60 * hh + mm)) by lia.
      rewrite Zp. repeat split.
    + replace (45 =? 45) with true by reflexivity.
      unfold parse_int64. replace (45 =? 43) with false by reflexivity. replace (45 =? 45) with true by reflexivity. rewrite Ph.
      replace ((- 2 ^ 63 <=? - Z.of_N hh) && (- Z.of_N hh <? 2 ^ 63))%Z with true by lia.
      replace ((2147483647 <=? - Z.of_N (100 * hh + mm)) || (- Z.of_N (100 * hh + mm) <=? -2147483648))%Z with false by lia.
      unfold go_date. cbn [id_ts id_tz id_name id_email].
      replace (45 =? 45) with true in Hneg0 by reflexivity. cbn [andb] in Hneg0.
      destruct (hh =? 0) eqn:Eh0.
      * (* -00mm: the guard forces mm = 0 *)
        apply N.eqb_eq in Eh0. subst hh. cbn [andb negb] in Hneg0. apply negb_true_iff, negb_false_iff, N.eqb_eq in Hneg0. subst mm.
        replace (- Z.of_N 0 <? 0)%Z with false by reflexivity.
        replace ((Z.of_N (dval ds) =? zero_ts) && (- Z.of_N 0 * 60 + Z.of_N 0 =? 0))%Z with false by (unfold zero_ts; lia).
        rewrite N2Z.id. replace (- Z.of_N 0 * 60 + Z.of_N 0)%Z with (- Z.of_N (60 * 0 + 0))%Z by reflexivity.
        rewrite Zn. repeat split.
      * apply N.eqb_neq in Eh0. replace (- Z.of_N hh <? 0)%Z with true by lia.
        replace ((Z.of_N (dval ds) =? zero_ts) && (- Z.of_N hh * 60 + - Z.of_N mm =? 0))%Z with false by (unfold zero_ts; lia).
        rewrite N2Z.id. replace (- Z.of_N hh * 60 + - Z.of_N mm)%Z with (- Z.of_N (60 * hh + mm))%Z by lia.
        rewrite Zn. repeat split.
Qed.

Lemma skipn_S_tl {A} n : forall l : list A, skipn (S n) l = tl (skipn n l).
Proof. induction n as [|n IH]; intros [|x l]; try reflexivity. cbn [skipn]. destruct n; [now destruct l|apply IH]. Qed.

Theorem ident_matches_git : forall v,
  no_lf v = true -> person_ok v = true -> date_ok v = true ->
  let i := decode_ident v in
  git_person (Some v) = (id_name i, id_email i, go_date i).
Proof.
  intros v Hlf Hp Hd.
  destruct (person_shape _ Hp) as [x [m [a [-> [Hlx [Hlm [Hgm [Hla [Hga Hnx]]]]]]]]].
  assert (Hlfx : no_lf x = true) by (rewrite no_lf_app in Hlf; now apply andb_true_iff in Hlf).
  assert (A1 : has_byte LT (m ++ GT :: a) = false) by (rewrite has_byte_app, has_byte_cons, Hlm, Hla; reflexivity).
  assert (A2 : last_index_of GT (x ++ LT :: m ++ GT :: a) = Some (List.length (x ++ LT :: m))).
  { replace (x ++ LT :: m ++ GT :: a) with ((x ++ LT :: m) ++ GT :: a) by (now rewrite <- app_assoc).
    now apply last_index_of_unique. }
  assert (A3 : skipn (S (List.length (x ++ LT :: m))) (x ++ LT :: m ++ GT :: a) = a).
  { replace (x ++ LT :: m ++ GT :: a) with (((x ++ LT :: m) ++ [GT]) ++ a) by (now rewrite <- !app_assoc).
    replace (S (List.length (x ++ LT :: m))) with (List.length ((x ++ LT :: m) ++ [GT])) by (clear; rewrite !app_length; cbn [List.length]; lia).
    apply skipn_app_exact. }
  (* git *)
  unfold git_person, git_split_ident. change 60 with LT. change 62 with GT.
  rewrite (index_of_first _ _ _ Hlx), firstn_app_exact.
  replace (skipn (S (List.length x)) (x ++ LT :: m ++ GT :: a)) with (m ++ GT :: a).
  2:{ replace (x ++ LT :: m ++ GT :: a) with ((x ++ [LT]) ++ m ++ GT :: a) by (now rewrite <- app_assoc).
      replace (S (List.length x)) with (List.length (x ++ [LT])) by (clear; rewrite app_length; cbn [List.length]; lia).
      now rewrite skipn_app_exact. }
  rewrite (index_of_first _ _ _ Hgm), firstn_app_exact, A2, A3.
  rewrite (name_agree _ Hlfx Hnx).
  (* go-git *)
  cbv zeta. unfold decode_ident.
  rewrite (last_index_of_unique _ _ _ A1), A2.
  replace (Nat.ltb (List.length (x ++ LT :: m)) (List.length x)) with false
    by (clear; symmetry; apply Nat.ltb_ge; rewrite app_length; lia).
  rewrite firstn_app_exact.
  unfold slice.
  replace (skipn (S (List.length x)) (x ++ LT :: m ++ GT :: a)) with (m ++ GT :: a).
  2:{ replace (x ++ LT :: m ++ GT :: a) with ((x ++ [LT]) ++ m ++ GT :: a) by (now rewrite <- app_assoc).
      replace (S (List.length x)) with (List.length (x ++ [LT])) by (clear; rewrite app_length; cbn [List.length]; lia).
      now rewrite skipn_app_exact. }
  replace (List.length (x ++ LT :: m) - S (List.length x))%nat with (List.length m)
    by (clear; rewrite app_length; cbn [List.length]; lia).
  rewrite firstn_app_exact.
  replace (skipn (List.length (x ++ LT :: m) + 2) (x ++ LT :: m ++ GT :: a)) with (tl a).
  2:{ replace (List.length (x ++ LT :: m) + 2)%nat with (S (S (List.length (x ++ LT :: m)))) by (clear; lia).
      now rewrite skipn_S_tl, A3. }
  unfold date_ok in Hd. rewrite A2, A3 in Hd. cbv zeta in Hd. apply orb_true_iff in Hd as [Hd|Hd].
  - (* no digit after the last '>': no date on either side *)
    apply negb_true_iff in Hd.
    rewrite (no_digit_take git_isspace _ Hd), (no_digit_time _ _ _ (no_digit_tl _ Hd)).
    cbn [g_name g_mail g_date].
    destruct (Nat.ltb (List.length (x ++ LT :: m) + 2) (List.length (x ++ LT :: m ++ GT :: a))); reflexivity.
  - destruct a as [|a0 a']; [discriminate Hd|].
    destruct (date_matches (trim_both SPC x) m (a0 :: a') Hd) as [ds [s [zs [G [E [En Em]]]]]].
    cbv zeta in G. destruct G as [G1 [G2 [t3 [G3 [G4 [G5 G6]]]]]].
    rewrite G1 in G3. rewrite G1. destruct ds as [|d0 ds0]; [contradiction|]. rewrite G3, G4, G5.
    destruct zs as [|z0 zs0]; [contradiction|].
    cbn [tl] in *.
    destruct (Nat.ltb (List.length (x ++ LT :: m) + 2) (List.length (x ++ LT :: m ++ GT :: a0 :: a'))) eqn:Elen.
    + cbn [g_name g_mail g_date]. rewrite En, Em. f_equal. exact E.
    + (* a single byte after '>' cannot be a canonical date *)
      exfalso. apply Nat.ltb_ge in Elen. rewrite !app_length in Elen. cbn [List.length] in Elen. rewrite app_length in Elen.
      cbn [List.length] in Elen. assert (a' = []) by (destruct a'; [reflexivity|cbn [List.length] in Elen; lia]). subst a'.
      unfold date_canon in Hd. cbn [take_while List.length skipn] in Hd. rewrite andb_false_r in Hd. discriminate Hd.
Qed.
