(* Proofs/C49Trim.v — the repaired trailing-space rule of ParsePattern
   (trimTrailingSpaces, model: Gitignore.trim_trailing_spaces, the loop with
   lastSpace) computes git's trim_trailing_spaces (Spec: GitIgnore.gtrim). *)
From Coq Require Import List NArith Bool Lia PeanoNat.
From GoGit Require Import Base.Out Model.Gitignore Spec.GitIgnore.
Import ListNotations.
Local Open Scope N_scope.

Definition all_sp (s : bytes) : bool := forallb (N.eqb cSP) s.

Lemma eqb_sp_sym c : (cSP =? c) = (c =? cSP).
Proof. apply N.eqb_sym. Qed.

Definition P_none (s : bytes) (j : nat) : Prop :=
  match tts_loop s j None with
  | Some k' => (j <= k')%nat /\ gtrim s = firstn (k' - j) s
  | None => gtrim s = s
  end.

(* the state "inside a run of spaces that began at k" *)
Lemma tts_run n : (forall s j, (List.length s <= n)%nat -> P_none s j) ->
  forall s i k, (List.length s <= n)%nat -> (k <= i)%nat ->
  match tts_loop s i (Some k) with
  | Some k' => (k' = k /\ all_sp s = true) \/
               ((i <= k')%nat /\ all_sp s = false /\ gtrim s = firstn (k' - i) s)
  | None => all_sp s = false /\ gtrim s = s
  end.
Proof.
  intros Hnone. induction s as [|c r IH]; intros i k Hn Hk.
  - cbn. now left.
  - cbn [tts_loop]. destruct (c =? cSP) eqn:Ec.
    + assert (Hr : (List.length r <= n)%nat) by (cbn in Hn; lia).
      specialize (IH (S i) k Hr ltac:(lia)).
      cbn [all_sp forallb gtrim]. rewrite eqb_sp_sym, Ec. cbn [andb]. fold (all_sp r).
      destruct (tts_loop r (S i) (Some k)) as [k'|].
      * destruct IH as [[-> Ha]|(Hle & Ha & Hg)].
        -- now left.
        -- right. split; [lia|]. split; [assumption|]. rewrite Ha, Hg.
           replace (k' - i)%nat with (S (k' - S i)) by lia. reflexivity.
      * destruct IH as [Ha Hg]. split; [assumption|]. now rewrite Ha, Hg.
    + cbn [all_sp forallb]. rewrite eqb_sp_sym, Ec. cbn [andb].
      (* a non-space byte resets lastSpace: same as the None state *)
      pose proof (Hnone (c :: r) i Hn) as H. unfold P_none in H. cbn [tts_loop] in H. rewrite Ec in H.
      destruct (c =? cBSL).
      * destruct r as [|d r']; [split; [reflexivity|exact H]|].
        destruct (tts_loop r' (S (S i)) None) as [k'|].
        -- right. destruct H as [A B]. split; [exact A|]. split; [reflexivity|exact B].
        -- split; [reflexivity|exact H].
      * destruct (tts_loop r (S i) None) as [k'|].
        -- right. destruct H as [A B]. split; [exact A|]. split; [reflexivity|exact B].
        -- split; [reflexivity|exact H].
Qed.

Lemma tts_none : forall n s j, (List.length s <= n)%nat -> P_none s j.
Proof.
  induction n as [|n IH]; intros s j Hn.
  - destruct s; [reflexivity|cbn in Hn; lia].
  - destruct s as [|c r]; [reflexivity|].
    assert (Hr : (List.length r <= n)%nat) by (cbn in Hn; lia).
    unfold P_none. cbn [tts_loop gtrim]. destruct (c =? cSP) eqn:Ec.
    + pose proof (tts_run n IH r (S j) j Hr ltac:(lia)) as H.
      fold (all_sp r).
      destruct (tts_loop r (S j) (Some j)) as [k'|].
      * destruct H as [[-> Ha]|(Hle & Ha & Hg)].
        -- rewrite Ha. split; [lia|]. now rewrite Nat.sub_diag.
        -- rewrite Ha, Hg. split; [lia|].
           replace (k' - j)%nat with (S (k' - S j)) by lia. reflexivity.
      * destruct H as [Ha Hg]. now rewrite Ha, Hg.
    + destruct (c =? cBSL).
      * destruct r as [|d r']; [reflexivity|].
        assert (Hr' : (List.length r' <= n)%nat) by (cbn in Hr; lia).
        pose proof (IH r' (S (S j)) Hr') as H. unfold P_none in H.
        destruct (tts_loop r' (S (S j)) None) as [k'|].
        -- destruct H as [Hle Hg]. split; [lia|]. rewrite Hg.
           replace (k' - j)%nat with (S (S (k' - S (S j)))) by lia. reflexivity.
        -- now rewrite H.
      * pose proof (IH r (S j) Hr) as H. unfold P_none in H.
        destruct (tts_loop r (S j) None) as [k'|].
        -- destruct H as [Hle Hg]. split; [lia|]. rewrite Hg.
           replace (k' - j)%nat with (S (k' - S j)) by lia. reflexivity.
        -- now rewrite H.
Qed.

Theorem trim_eq_git p : trim_trailing_spaces p = gtrim p.
Proof.
  unfold trim_trailing_spaces. pose proof (tts_none (List.length p) p O (le_n _)) as H. unfold P_none in H.
  destruct (tts_loop p O None) as [k|].
  - destruct H as [_ H]. now rewrite H, Nat.sub_0_r.
  - now rewrite H.
Qed.
