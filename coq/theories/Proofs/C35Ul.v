(* Proofs/C35Ul.v — UploadRequest: decode (encode m) = canon m
   (wants and shallows sorted and de-duplicated; every depth form; the filter line). *)
From Coq Require Import List NArith ZArith Bool Lia Arith String.
From GoGit Require Import Base.Out Model.PktLine Model.Packp Proofs.C34Pkt Proofs.C35Base Proofs.C35Msgs
  Proofs.C35Caps Proofs.C35Adv Proofs.C35Dec.
Import ListNotations.

Definition int64_ok (z : Z) : bool := ((- 2 ^ 63 <=? z) && (z <? 2 ^ 63))%Z.

(* a DeepenSince that Go can hold: time.Unix(t, 0) is the zero time ("unset") for exactly one t *)
Definition since_ok (t : Z) : bool := int64_ok t && negb (t =? -62135596800)%Z.

Lemma since_of_ok t : since_ok t = true -> since_of t = Some t.
Proof. unfold since_ok, since_of. intros H. apply andb_prop in H. destruct H as [_ H]. apply negb_true_iff in H. now rewrite H. Qed.

Definition ul_ok (u : ulreq) : bool :=
  caps_ok (ul_caps u) && negb (Nat.eqb (List.length (ul_wants u)) 0) &&
  forallb hash_ok (ul_wants u) && forallb hash_ok (ul_shallows u) &&
  (0 <=? ul_deepen u)%Z && int64_ok (ul_deepen u) &&
  match ul_since u with Some t => since_ok t | None => true end &&
  (negb (ul_deepen u >? 0)%Z || (match ul_since u with None => true | _ => false end && Nat.eqb (List.length (ul_not u)) 0)).

Definition ul_canon (u : ulreq) : ulreq :=
  mkulreq (ul_caps u)
          (match sort_hashes (ul_wants u) with [] => [] | w0 :: ws => w0 :: dedup_from w0 ws end)
          (dedup_from zero_hash (sort_hashes (ul_shallows u)))
          (ul_deepen u) (ul_since u) (ul_not u) (ul_filter u).

(* what every loop of the decoder does after nextLine *)
Definition after_line (items : list item) (u : ulreq) : ulreq + derr :=
  match items with
  | [] => inr (ul_eof None)
  | it :: r => match ul_line it with
               | None => inl u
               | Some [] => inl u
               | Some l' => ul_shallow_go l' r None u
               end
  end.

Lemma ul_line_data b : b <> [] -> ul_line (item_of (PData (b ++ [NL]))) = Some b.
Proof.
  intros Hne. rewrite item_of_ne by (rewrite app_length; cbn; lia). unfold ul_line. cbn [fst snd].
  now rewrite item_nz, trim_eol_app.
Qed.

Lemma read_hash_only h : hash_ok h = true -> ul_read_hash (hash_str h) = Some (h, []).
Proof.
  intros Hok. destruct (hash_str_nospace h Hok) as [Hns _]. pose proof (hash_str_length h Hok) as HL.
  unfold ul_read_hash, hash_from. rewrite (index_byte_none SP _ Hns), HL.
  assert (Nat.eqb (hash_hexsize h) 40 || Nat.eqb (hash_hexsize h) 64 = true) as -> by (unfold hash_hexsize, hash_size; destruct (h256 h); reflexivity).
  replace (firstn (hash_hexsize h) (hash_str h)) with (hash_str h) by (rewrite <- HL; now rewrite firstn_all).
  rewrite (from_hex_str h Hok).
  replace (skipn (hash_hexsize h) (hash_str h)) with (@nil N) by (rewrite <- HL; now rewrite skipn_all). reflexivity.
Qed.

Lemma read_hash_sp h x : hash_ok h = true -> ul_read_hash (hash_str h ++ SP :: x) = Some (h, SP :: x).
Proof.
  intros Hok. destruct (hash_str_nospace h Hok) as [Hns _]. pose proof (hash_str_length h Hok) as HL.
  unfold ul_read_hash, hash_from. rewrite (index_byte_app SP _ x Hns), HL.
  assert (Nat.eqb (hash_hexsize h) 40 || Nat.eqb (hash_hexsize h) 64 = true) as -> by (unfold hash_hexsize, hash_size; destruct (h256 h); reflexivity).
  rewrite (firstn_app_exact (hash_str h) (SP :: x) _ HL), (from_hex_str h Hok), (skipn_app_exact (hash_str h) (SP :: x) _ HL). reflexivity.
Qed.

Definition add_want (u : ulreq) (h : hash) := mkulreq (ul_caps u) (ul_wants u ++ [h]) (ul_shallows u) (ul_deepen u) (ul_since u) (ul_not u) (ul_filter u).
Definition add_shallow (u : ulreq) (h : hash) := mkulreq (ul_caps u) (ul_wants u) (ul_shallows u ++ [h]) (ul_deepen u) (ul_since u) (ul_not u) (ul_filter u).

(* ---------- want lines ---------- *)
Lemma ul_wants_lines : forall hs tail u, forallb hash_ok hs = true ->
  ul_wants_go (map item_of (map (fun h => PData (B "want " ++ hash_str h ++ [NL])) hs) ++ tail) None u
  = ul_wants_go tail None (mkulreq (ul_caps u) (ul_wants u ++ hs) (ul_shallows u) (ul_deepen u) (ul_since u) (ul_not u) (ul_filter u)).
Proof.
  induction hs as [|h hs IH]; intros tail u H.
  - cbn [map app]. rewrite app_nil_r. destruct u; reflexivity.
  - cbn [forallb] in H. apply andb_prop in H. destruct H as [Hh Hs]. cbn [map app ul_wants_go].
    change (B "want " ++ hash_str h ++ [NL]) with ((B "want " ++ hash_str h) ++ [NL]).
    rewrite ul_line_data by discriminate.
    destruct (B "want " ++ hash_str h) as [|c0 l0] eqn:E; [discriminate|]. rewrite <- E.
    rewrite has_prefix_app, (skipn_app_exact (B "want ") (hash_str h) 5 eq_refl), (read_hash_only h Hh).
    rewrite IH by assumption. cbn [ul_caps ul_wants ul_shallows ul_deepen ul_since ul_not ul_filter]. now rewrite <- app_assoc.
Qed.

(* a line that is not a want line hands over to the shallow / deepen loops *)
Lemma ul_wants_handover items u : 
  (match items with it :: _ => match ul_line it with Some l => has_prefix (B "want ") l = false | None => True end | [] => True end) ->
  ul_wants_go items None u = after_line items u.
Proof.
  destruct items as [|it r]; [reflexivity|]. cbn [ul_wants_go after_line]. destruct (ul_line it) as [[|c l]|]; try reflexivity.
  intros ->. reflexivity.
Qed.

(* ---------- shallow lines ---------- *)
Lemma after_shallow h tail u : hash_ok h = true ->
  after_line (item_of (PData (B "shallow " ++ hash_str h ++ [NL])) :: tail) u = after_line tail (add_shallow u h).
Proof.
  intros Hh. unfold after_line at 1.
  change (B "shallow " ++ hash_str h ++ [NL]) with ((B "shallow " ++ hash_str h) ++ [NL]).
  rewrite ul_line_data by discriminate.
  destruct (B "shallow " ++ hash_str h) as [|c0 l0] eqn:E; [discriminate|]. rewrite <- E.
  destruct tail as [|it r]; cbn [ul_shallow_go];
    rewrite has_prefix_app, (skipn_app_exact (B "shallow ") (hash_str h) 8 eq_refl), (read_hash_only h Hh); reflexivity.
Qed.

Lemma after_shallows : forall hs tail u, forallb hash_ok hs = true ->
  after_line (map item_of (map (fun h => PData (B "shallow " ++ hash_str h ++ [NL])) hs) ++ tail) u
  = after_line tail (mkulreq (ul_caps u) (ul_wants u) (ul_shallows u ++ hs) (ul_deepen u) (ul_since u) (ul_not u) (ul_filter u)).
Proof.
  induction hs as [|h hs IH]; intros tail u H.
  - cbn [map app]. rewrite app_nil_r. destruct u; reflexivity.
  - cbn [forallb] in H. apply andb_prop in H. destruct H as [Hh Hs]. cbn [map app].
    rewrite after_shallow, IH by assumption. unfold add_shallow. cbn [ul_caps ul_wants ul_shallows ul_deepen ul_since ul_not ul_filter].
    now rewrite <- app_assoc.
Qed.

(* ---------- depth lines and the filter line ---------- *)
Definition set_not (u : ulreq) (ns : list bytes) := mkulreq (ul_caps u) (ul_wants u) (ul_shallows u) (ul_deepen u) (ul_since u) ns (ul_filter u).
Definition set_filter (u : ulreq) (f : bytes) := mkulreq (ul_caps u) (ul_wants u) (ul_shallows u) (ul_deepen u) (ul_since u) (ul_not u) f.

(* what Encode writes after the depth lines *)
Definition ftail (f : bytes) : list pkt :=
  match f with [] => [] | _ => [PData (B "filter " ++ f ++ [NL])] end ++ [PFlush].

Lemma filter_line_go f rev u :
  ul_deepen_go (B "filter " ++ f) (map item_of [PFlush]) None rev u = inl (set_filter u f).
Proof.
  cbn [map item_of ul_deepen_go].
  change (has_prefix (B "deepen") (B "filter " ++ f)) with false. cbn [negb].
  destruct (B "filter " ++ f) as [|c0 l0] eqn:E; [discriminate|]. rewrite <- E.
  rewrite has_prefix_app. unfold ul_filter_go. cbn [ul_line fst Z.eqb].
  rewrite (skipn_app_exact (B "filter ") f 7 eq_refl). reflexivity.
Qed.

Lemma shallow_go_other line items u : has_prefix (B "shallow ") line = false ->
  ul_shallow_go line items None u = ul_deepen_go line items None false u.
Proof. intros H. destruct items; cbn [ul_shallow_go]; rewrite H; reflexivity. Qed.

(* no depth line at all: the tail alone *)
Lemma after_ftail f u : ul_filter u = [] -> after_line (map item_of (ftail f)) u = inl (set_filter u f).
Proof.
  intros Hf. destruct f as [|c f'].
  - cbn. destruct u; cbn in *; subst; reflexivity.
  - unfold ftail. cbn [app map]. unfold after_line.
    change (B "filter " ++ c :: f' ++ [NL]) with ((B "filter " ++ c :: f') ++ [NL]).
    rewrite ul_line_data by discriminate.
    destruct (B "filter " ++ c :: f') as [|c0 l0] eqn:E; [discriminate|]. rewrite <- E.
    rewrite shallow_go_other by reflexivity. apply (filter_line_go (c :: f') false u).
Qed.

(* the filter line met by the deepen loop after a deepen-since / deepen-not line *)
Lemma next_filter c f' (u : ulreq) (rv : bool) : (ul_deepen u >? 0)%Z = false ->
    match ul_line (item_of (PData (B "filter " ++ c :: f' ++ [NL]))) with
    | None => inl u
    | Some [] => inl u
    | Some l' =>
      if (ul_deepen u >? 0)%Z then
        if has_prefix (B "filter ") l' then ul_filter_go l' (map item_of [PFlush]) None u else
        (if has_prefix (B "deepen-since ") l' || has_prefix (B "deepen-not ") l' then inr EOther else inr EUnexpected)
      else if rv && has_prefix (B "deepen") l' && negb (has_prefix (B "deepen-since ") l')
              && negb (has_prefix (B "deepen-not ") l') then inr EOther
      else ul_deepen_go l' (map item_of [PFlush]) None rv u
    end = inl (set_filter u (c :: f')).
Proof.
  intros Hd.
  change (B "filter " ++ c :: f' ++ [NL]) with ((B "filter " ++ c :: f') ++ [NL]).
  rewrite ul_line_data by discriminate.
  destruct (B "filter " ++ c :: f') as [|c0 l0] eqn:E; [discriminate|]. rewrite <- E. rewrite Hd.
  change (has_prefix (B "deepen") (B "filter " ++ c :: f')) with false. rewrite andb_false_r. cbn [andb].
  apply (filter_line_go (c :: f') rv u).
Qed.

Lemma deepen_not_lines : forall ns rev u f, ul_deepen u = 0%Z -> ul_filter u = [] ->
  forall r0, ul_deepen_go (B "deepen-not " ++ r0)
               (map item_of (map (fun r => PData (B "deepen-not " ++ r ++ [NL])) ns ++ ftail f)) None rev u
  = inl (set_filter (set_not u (ul_not u ++ r0 :: ns)) f).
Proof.
  induction ns as [|n ns IH]; intros rev u f Hd Hf r0.
  - destruct f as [|c f']; unfold ftail; cbn [map app ul_deepen_go];
    change (has_prefix (B "deepen") (B "deepen-not " ++ r0)) with true;
    change (has_prefix (B "deepen ") (B "deepen-not " ++ r0)) with false;
    change (has_prefix (B "deepen-since ") (B "deepen-not " ++ r0)) with false;
    rewrite has_prefix_app; cbv iota; replace (ul_deepen u >? 0)%Z with false by (now rewrite Hd); cbn [negb];
    rewrite (skipn_app_exact (B "deepen-not ") r0 11 eq_refl).
    + cbn [ul_line item_of fst Z.eqb]. destruct u; cbn in *; subst; reflexivity.
    + apply (next_filter c f' (mkulreq (ul_caps u) (ul_wants u) (ul_shallows u) (ul_deepen u) (ul_since u) (ul_not u ++ [r0]) (ul_filter u)) true).
      cbn [ul_deepen]. now rewrite Hd.
  - cbn [map app ul_deepen_go].
    change (has_prefix (B "deepen") (B "deepen-not " ++ r0)) with true.
    change (has_prefix (B "deepen ") (B "deepen-not " ++ r0)) with false.
    change (has_prefix (B "deepen-since ") (B "deepen-not " ++ r0)) with false.
    rewrite has_prefix_app. cbv iota. replace (ul_deepen u >? 0)%Z with false by (now rewrite Hd). cbn [negb].
    rewrite (skipn_app_exact (B "deepen-not ") r0 11 eq_refl).
    change (B "deepen-not " ++ n ++ [NL]) with ((B "deepen-not " ++ n) ++ [NL]). rewrite ul_line_data by discriminate.
    destruct (B "deepen-not " ++ n) as [|c0 l0] eqn:E; [discriminate|]. rewrite <- E.
    cbn [ul_deepen]. replace (ul_deepen u >? 0)%Z with false by (now rewrite Hd).
    change (has_prefix (B "deepen-not ") (B "deepen-not " ++ n)) with true. cbn [negb andb]. rewrite andb_false_r.
    rewrite IH by (cbn [ul_deepen ul_filter]; assumption). unfold set_filter, set_not. cbn [ul_caps ul_wants ul_shallows ul_deepen ul_since ul_not ul_filter].
    now rewrite <- app_assoc.
Qed.

Lemma dec_line_ne pre z : pre ++ dec_bytes z <> [].
Proof. destruct (dec_bytes_chars z) as [_ H]. destruct pre; [exact H|discriminate]. Qed.

(* the depth section and the filter line of a well-formed request, starting
   from a decoded request without depth and filter *)
Lemma after_depth u0 deepen since nots f :
  ul_deepen u0 = 0%Z -> ul_since u0 = None -> ul_not u0 = [] -> ul_filter u0 = [] ->
  (0 <= deepen)%Z -> int64_ok deepen = true -> match since with Some t => since_ok t | None => true end = true ->
  ((deepen >? 0)%Z = false \/ (since = None /\ nots = [])) ->
  after_line (map item_of ((if (deepen >? 0)%Z then [PData (B "deepen " ++ dec_bytes deepen ++ [NL])] else []) ++
                           match since with Some t => [PData (B "deepen-since " ++ dec_bytes t ++ [NL])] | None => [] end ++
                           map (fun r => PData (B "deepen-not " ++ r ++ [NL])) nots ++ ftail f)) u0
  = inl (mkulreq (ul_caps u0) (ul_wants u0) (ul_shallows u0) deepen since nots f).
Proof.
  intros Hd Hs Hn Hfl H0 Hi Hsi Hex. unfold int64_ok in *.
  destruct (Z.gtb_spec deepen 0) as [Hpos|Hz].
  - (* deepen n *)
    destruct Hex as [Hex|[-> ->]]; [discriminate|]. cbn [app map]. unfold after_line.
    change (B "deepen " ++ dec_bytes deepen ++ [NL]) with ((B "deepen " ++ dec_bytes deepen) ++ [NL]).
    rewrite ul_line_data by discriminate.
    destruct (B "deepen " ++ dec_bytes deepen) as [|c0 l0] eqn:E; [discriminate|]. rewrite <- E.
    rewrite shallow_go_other by reflexivity.
    destruct f as [|c f']; unfold ftail; cbn [app map ul_deepen_go];
    change (has_prefix (B "deepen") (B "deepen " ++ dec_bytes deepen)) with true; cbn [negb];
    rewrite has_prefix_app, (skipn_app_exact (B "deepen ") (dec_bytes deepen) 7 eq_refl);
    rewrite (parse_int_dec deepen) by (apply andb_prop in Hi; destruct Hi as [A B']; apply Z.leb_le in A; apply Z.ltb_lt in B'; lia);
    (destruct (Z.ltb_spec deepen 0); [lia|]); rewrite Hi.
    + cbn [ul_line item_of fst Z.eqb]. destruct u0; cbn in *; subst; reflexivity.
    + change (B "filter " ++ c :: f' ++ [NL]) with ((B "filter " ++ c :: f') ++ [NL]).
      rewrite ul_line_data by discriminate.
      destruct (B "filter " ++ c :: f') as [|c1 l1] eqn:E1; [discriminate|]. rewrite <- E1.
      cbn [ul_deepen]. replace (deepen >? 0)%Z with true by (symmetry; apply Z.gtb_lt; lia).
      rewrite has_prefix_app. unfold ul_filter_go. cbn [map item_of ul_line fst Z.eqb].
      rewrite (skipn_app_exact (B "filter ") (c :: f') 7 eq_refl).
      destruct u0; cbn in *; subst; reflexivity.
  - assert (deepen = 0%Z) as -> by lia. cbn [app]. destruct since as [t|].
    + (* deepen-since, then the deepen-not lines *)
      cbn [app map]. unfold after_line.
      change (B "deepen-since " ++ dec_bytes t ++ [NL]) with ((B "deepen-since " ++ dec_bytes t) ++ [NL]).
      rewrite ul_line_data by discriminate.
      destruct (B "deepen-since " ++ dec_bytes t) as [|c0 l0] eqn:E; [discriminate|]. rewrite <- E.
      rewrite shallow_go_other by reflexivity.
      assert (Hpi : parse_int (dec_bytes t) = Some t).
      { apply parse_int_dec. unfold since_ok, int64_ok in Hsi. apply andb_prop in Hsi. destruct Hsi as [Hsi _].
        apply andb_prop in Hsi. destruct Hsi as [A B']. apply Z.leb_le in A. apply Z.ltb_lt in B'. lia. }
      pose proof (since_of_ok t Hsi) as Hso.
      destruct nots as [|n nots].
      * destruct f as [|c f']; unfold ftail; cbn [map app ul_deepen_go];
        change (has_prefix (B "deepen") (B "deepen-since " ++ dec_bytes t)) with true;
        change (has_prefix (B "deepen ") (B "deepen-since " ++ dec_bytes t)) with false; cbn [negb];
        rewrite has_prefix_app, Hd; cbn [Z.gtb Z.compare]; rewrite (skipn_app_exact (B "deepen-since ") (dec_bytes t) 13 eq_refl), Hpi, Hso.
        -- cbn [ul_line item_of fst Z.eqb]. destruct u0; cbn in *; subst; reflexivity.
        -- etransitivity; [apply (next_filter c f' (mkulreq (ul_caps u0) (ul_wants u0) (ul_shallows u0) 0 (Some t) (ul_not u0) (ul_filter u0)) true); reflexivity|].
           unfold set_filter. cbn [ul_caps ul_wants ul_shallows ul_deepen ul_since ul_not ul_filter]. now rewrite Hn.
      * cbn [map app ul_deepen_go]. change (has_prefix (B "deepen") (B "deepen-since " ++ dec_bytes t)) with true.
        change (has_prefix (B "deepen ") (B "deepen-since " ++ dec_bytes t)) with false. cbn [negb].
        rewrite has_prefix_app, Hd. cbn [Z.gtb Z.compare]. rewrite (skipn_app_exact (B "deepen-since ") (dec_bytes t) 13 eq_refl), Hpi, Hso.
        change (B "deepen-not " ++ n ++ [NL]) with ((B "deepen-not " ++ n) ++ [NL]). rewrite ul_line_data by discriminate.
        destruct (B "deepen-not " ++ n) as [|c1 l1] eqn:E1; [discriminate|]. rewrite <- E1.
        cbn [ul_deepen]. cbn [Z.gtb Z.compare].
        change (has_prefix (B "deepen-not ") (B "deepen-not " ++ n)) with true. cbn [negb andb]. rewrite andb_false_r.
        rewrite deepen_not_lines by (cbn [ul_deepen ul_filter]; auto).
        unfold set_filter, set_not. cbn [ul_caps ul_wants ul_shallows ul_deepen ul_since ul_not ul_filter]. rewrite ?Hn. reflexivity.
    + destruct nots as [|n nots].
      * cbn [map app]. rewrite after_ftail by assumption. unfold set_filter. rewrite Hd, Hs, Hn. reflexivity.
      * cbn [map app]. unfold after_line.
        change (B "deepen-not " ++ n ++ [NL]) with ((B "deepen-not " ++ n) ++ [NL]). rewrite ul_line_data by discriminate.
        destruct (B "deepen-not " ++ n) as [|c1 l1] eqn:E1; [discriminate|]. rewrite <- E1.
        rewrite shallow_go_other by reflexivity.
        rewrite deepen_not_lines by assumption.
        unfold set_filter, set_not. cbn [ul_caps ul_wants ul_shallows ul_deepen ul_since ul_not ul_filter]. rewrite Hn, Hd, Hs. reflexivity.
Qed.

(* ---------- the whole request ---------- *)
Lemma insert_by_length {A} lt (x : A) l : List.length (insert_by lt x l) = S (List.length l).
Proof. induction l as [|y l IH]; [reflexivity|]. cbn. destruct (lt x y); cbn; [reflexivity|now rewrite IH]. Qed.

Lemma sort_by_length {A} lt (l : list A) : List.length (sort_by lt l) = List.length l.
Proof.
  unfold sort_by. assert (forall acc, List.length (fold_left (fun a x => insert_by lt x a) l acc) = (List.length acc + List.length l)%nat) as K.
  { induction l as [|x l IH]; intros acc; [cbn; lia|]. cbn [fold_left List.length]. rewrite IH, insert_by_length. lia. }
  now rewrite K.
Qed.

Definition starts_ok (p : pkt) : bool :=
  match p with PData (c :: _) => negb (N.eqb 119 c) | PData [] => false | _ => true end.

Lemma want_prefix_trim c b : N.eqb 119 c = false -> has_prefix (B "want ") (trim_eol (c :: b)) = false.
Proof.
  intros Hc. unfold trim_eol, trim_suffix. destruct (has_suffix [NL] (c :: b)).
  - cbn [List.length]. destruct (S (List.length b) - 1)%nat; [reflexivity|]. cbn [firstn].
    change (B "want ") with (119%N :: skipn 1 (B "want ")). cbn [has_prefix]. now rewrite Hc.
  - change (B "want ") with (119%N :: skipn 1 (B "want ")). cbn [has_prefix]. now rewrite Hc.
Qed.

Lemma handover_ok L : forallb starts_ok L = true ->
  match map item_of (L ++ [PFlush]) with
  | it :: _ => match ul_line it with Some l => has_prefix (B "want ") l = false | None => True end
  | [] => True
  end.
Proof.
  destruct L as [|p L]; [intros _; exact I|]. cbn [forallb]. intros H. apply andb_prop in H. destruct H as [Hp _].
  cbn [app map]. destruct p as [[|c b]| | |]; try discriminate; try exact I; try reflexivity.
  cbn [starts_ok] in Hp. apply negb_true_iff in Hp.
  rewrite item_of_ne by (cbn; lia). unfold ul_line. cbn [fst snd]. rewrite item_nz. now apply want_prefix_trim.
Qed.

Lemma handover_tail L f : forallb starts_ok L = true ->
  match map item_of (L ++ ftail f) with
  | it :: _ => match ul_line it with Some l => has_prefix (B "want ") l = false | None => True end
  | [] => True
  end.
Proof.
  intros H. destruct f as [|c f'].
  - apply handover_ok. exact H.
  - change (L ++ ftail (c :: f')) with (L ++ [PData (B "filter " ++ (c :: f') ++ [NL])] ++ [PFlush]).
    rewrite app_assoc. apply handover_ok. rewrite forallb_app, H. reflexivity.
Qed.

Theorem ul_roundtrip u : ul_ok u = true ->
  exists ps, ul_encode u = ULok ps /\ forallb no_errline ps = true /\
             ul_decode (mksrc (map item_of ps) None) = inl (ul_canon u).
Proof.
  unfold ul_ok. intros H.
  repeat (apply andb_prop in H; let X := fresh "G" in destruct H as [H X]).
  rename G into Hex, G0 into Hsi, G1 into Hi, G2 into H0, G3 into Hsh, G4 into Hw, G5 into Hne.
  assert (caps_ok (ul_caps u) = true) as Hcaps by (unfold caps_ok; now rewrite H, G6).
  apply Z.leb_le in H0. apply negb_true_iff in Hne. apply Nat.eqb_neq in Hne.
  unfold ul_encode, ul_canon.
  destruct (sort_hashes (ul_wants u)) as [|w0 ws] eqn:Es.
  { apply (f_equal (@List.length hash)) in Es. unfold sort_hashes in Es. rewrite sort_by_length in Es. cbn in Es. contradiction. }
  assert (Forall (fun h => hash_ok h = true) (w0 :: ws)) as Hws.
  { rewrite <- Es. apply sort_by_Forall. now apply forallb_Forall. }
  pose proof (Forall_inv Hws) as Hw0. pose proof (Forall_inv_tail Hws) as Hws'.
  assert (forallb hash_ok (dedup_from w0 ws) = true) as Hdw by (apply forallb_Forall, dedup_from_Forall; assumption).
  assert (forallb hash_ok (dedup_from zero_hash (sort_hashes (ul_shallows u))) = true) as Hds.
  { apply forallb_Forall, dedup_from_Forall, sort_by_Forall. now apply forallb_Forall. }
  assert ((ul_deepen u >? 0)%Z && (match ul_since u with Some _ => true | None => false end || negb (Nat.eqb (List.length (ul_not u)) 0)) = false) as ->.
  { apply orb_prop in Hex. destruct Hex as [E|E]; [apply negb_true_iff in E; now rewrite E|].
    apply andb_prop in E. destruct E as [E1 E2]. destruct (ul_since u); [discriminate|]. rewrite E2. now rewrite andb_false_r. }
  eexists. split; [reflexivity|].
  set (D := (if (ul_deepen u >? 0)%Z then [PData (B "deepen " ++ dec_bytes (ul_deepen u) ++ [NL])] else []) ++
            match ul_since u with Some t => [PData (B "deepen-since " ++ dec_bytes t ++ [NL])] | None => [] end ++
            map (fun r => PData (B "deepen-not " ++ r ++ [NL])) (ul_not u)).
  set (SH := map (fun h => PData (B "shallow " ++ hash_str h ++ [NL])) (dedup_from zero_hash (sort_hashes (ul_shallows u)))).
  set (WS := map (fun h => PData (B "want " ++ hash_str h ++ [NL])) (dedup_from w0 ws)).
  assert (forallb starts_ok (SH ++ D) = true) as Hstart.
  { unfold SH, D. rewrite !forallb_app. repeat (apply andb_true_intro; split).
    - apply forallb_forall. intros p Hp. apply in_map_iff in Hp. destruct Hp as (h & <- & _). reflexivity.
    - destruct (ul_deepen u >? 0)%Z; reflexivity.
    - destruct (ul_since u); reflexivity.
    - apply forallb_forall. intros p Hp. apply in_map_iff in Hp. destruct Hp as (r & <- & _). reflexivity. }
  assert (forall first, first :: WS ++ SH ++ (if (ul_deepen u >? 0)%Z then [PData (B "deepen " ++ dec_bytes (ul_deepen u) ++ [NL])] else []) ++
            match ul_since u with Some t => [PData (B "deepen-since " ++ dec_bytes t ++ [NL])] | None => [] end ++
            map (fun r => PData (B "deepen-not " ++ r ++ [NL])) (ul_not u) ++
            match ul_filter u with [] => [] | n :: l => [PData (B "filter " ++ (n :: l) ++ [NL])] end ++ [PFlush]
          = first :: WS ++ SH ++ D ++ ftail (ul_filter u)) as Hshape.
  { intros first. unfold D, ftail. destruct (ul_filter u); now rewrite <- !app_assoc. }
  fold WS SH. rewrite Hshape. split.
  { (* no line starts with "ERR " *)
    cbn [forallb]. apply andb_true_intro. split; [destruct (ul_caps u); reflexivity|].
    rewrite !forallb_app. repeat (apply andb_true_intro; split); try reflexivity.
    - apply forallb_forall. intros p Hp. apply in_map_iff in Hp. destruct Hp as (h & <- & _). reflexivity.
    - apply forallb_forall. intros p Hp. apply in_map_iff in Hp. destruct Hp as (h & <- & _). reflexivity.
    - unfold D. rewrite !forallb_app. repeat (apply andb_true_intro; split).
      + destruct (ul_deepen u >? 0)%Z; reflexivity.
      + destruct (ul_since u); reflexivity.
      + apply forallb_forall. intros p Hp. apply in_map_iff in Hp. destruct Hp as (r & <- & _). reflexivity.
    - unfold ftail. destruct (ul_filter u); reflexivity. }
  (* decoding *)
  assert (forall u1, ul_wants u1 = [w0] -> ul_shallows u1 = [] -> ul_deepen u1 = 0%Z -> ul_since u1 = None -> ul_not u1 = [] ->
            ul_filter u1 = [] -> ul_caps u1 = ul_caps u ->
            ul_wants_go (map item_of (WS ++ SH ++ D ++ ftail (ul_filter u))) None u1
            = inl (mkulreq (ul_caps u) (w0 :: dedup_from w0 ws) (dedup_from zero_hash (sort_hashes (ul_shallows u)))
                           (ul_deepen u) (ul_since u) (ul_not u) (ul_filter u))) as Hrest.
  { intros u1 E1 E2 E3 E4 E5 E6 E7. rewrite map_app. unfold WS. rewrite ul_wants_lines by assumption.
    rewrite app_assoc, ul_wants_handover by (apply handover_tail; exact Hstart).
    rewrite <- app_assoc, map_app. unfold SH. rewrite after_shallows by assumption.
    cbn [ul_caps ul_wants ul_shallows ul_deepen ul_since ul_not ul_filter]. unfold D. rewrite <- !app_assoc.
    rewrite after_depth; cbn [ul_caps ul_wants ul_shallows ul_deepen ul_since ul_not ul_filter]; auto.
    - rewrite E1, E2, E7. reflexivity.
    - apply orb_prop in Hex. destruct Hex as [E|E]; [left; now apply negb_true_iff|right].
      apply andb_prop in E. destruct E as [Ea Eb]. apply Nat.eqb_eq in Eb. split.
      + destruct (ul_since u); [discriminate|reflexivity].
      + destruct (ul_not u); [reflexivity|discriminate]. }
  unfold ul_decode. cbn [s_items s_fin map].
  destruct (ul_caps u) as [|e caps'] eqn:Ec.
  - change (B "want " ++ hash_str w0 ++ [NL]) with ((B "want " ++ hash_str w0) ++ [NL]). rewrite ul_line_data by discriminate.
    rewrite has_prefix_app. cbn [negb]. rewrite (skipn_app_exact (B "want ") (hash_str w0) 5 eq_refl), (read_hash_only w0 Hw0).
    change (cap_decode (trim_prefix [SP] []) []) with (@nil (bytes * list bytes)).
    apply Hrest; reflexivity.
  - rewrite <- Ec in *. pose proof (caps_roundtrip _ Hcaps) as Hcr.
    assert (B "want " ++ hash_str w0 ++ [SP] ++ cap_encode (ul_caps u) ++ [NL]
            = (B "want " ++ hash_str w0 ++ SP :: cap_encode (ul_caps u)) ++ [NL]) as -> by (cbn [app]; now rewrite <- !app_assoc).
    rewrite ul_line_data by discriminate.
    rewrite has_prefix_app. cbn [negb].
    rewrite (skipn_app_exact (B "want ") (hash_str w0 ++ SP :: cap_encode (ul_caps u)) 5 eq_refl), (read_hash_sp w0 _ Hw0).
    change (trim_prefix [SP] (SP :: cap_encode (ul_caps u))) with (cap_encode (ul_caps u)). rewrite Hcr.
    apply Hrest; reflexivity.
Qed.
