(* Proofs/C27Trie.v — Worktree.status computed by the merkletrie walk over the HEAD
   tree, the index tree and the (ignore-pruned) worktree tree is Worktree.status
   of the flattened state (Model/Status.v), hence git's listing under ok_path.
   The walk is the recursive merge of Model/DiffTree.v; its characterisation
   (C44: the changes are exactly the differences of the flattened trees, each
   once) is imported from Proofs/C44_*. *)
From Coq Require Import List NArith ZArith Bool Arith Lia.
From GoGit Require Import Base.Out Model.Status Model.StatusTrie Spec.GitStatus Proofs.C27.
From GoGit Require Model.DiffTree Spec.MapDiff Proofs.C44_order Proofs.C44_diff Proofs.C44_spec Proofs.C44_nodup Proofs.C44_paths.
Import ListNotations.
Local Open Scope N_scope.

Notation fmapd := (list (dpath * dleaf)).
Notation pren := C44_diff.pren.

(* ------------------------------------------------------------ leaves *)

Lemma modes_distinct :
  (DiffTree.canon_mode M_REG =? DiffTree.canon_mode M_EXEC) = false /\
  (DiffTree.canon_mode M_REG =? DiffTree.canon_mode M_LINK) = false /\
  (DiffTree.canon_mode M_EXEC =? DiffTree.canon_mode M_LINK) = false /\
  (M_REG =? M_EXEC) = false /\ (M_REG =? M_LINK) = false.
Proof. vm_compute. repeat split; reflexivity. Qed.

Lemma canon_mode_num a b :
  (DiffTree.canon_mode (mode_num a) =? DiffTree.canon_mode (mode_num b)) = fmode_eqb a b.
Proof.
  destruct modes_distinct as (H1 & H2 & H3 & _).
  destruct a, b; cbn [mode_num fmode_eqb]; rewrite ?N.eqb_refl; try reflexivity;
    try assumption; rewrite N.eqb_sym; assumption.
Qed.

Lemma dec_mode_num m : dec_mode (mode_num m) = m.
Proof.
  destruct modes_distinct as (_ & _ & _ & H4 & H5).
  destruct m; unfold dec_mode, mode_num; try rewrite H4; try rewrite H5; try reflexivity.
Qed.

Lemma leaf_eqb_enc a b : DiffTree.leaf_eqb (enc a) (enc b) = nhash_eqb a b.
Proof.
  destruct a as [[fa ca] ma], b as [[fb cb] mb]. unfold DiffTree.leaf_eqb, enc, nhash_eqb, hash_eqb.
  cbn [fst snd h_fmt h_cid]. rewrite canon_mode_num.
  assert (E : DiffTree.bytes_eqb [fa; ca] [fb; cb] = (fa =? fb) && (ca =? cb)).
  { unfold DiffTree.bytes_eqb. cbn [DiffTree.bytes_cmp].
    destruct (N.compare_spec fa fb) as [->|H|H].
    - rewrite N.eqb_refl. destruct (N.compare_spec ca cb) as [->|H|H].
      + now rewrite N.eqb_refl.
      + symmetry. cbn. apply N.eqb_neq. lia.
      + symmetry. cbn. apply N.eqb_neq. lia.
    - symmetry. apply andb_false_iff. left. apply N.eqb_neq. lia.
    - symmetry. apply andb_false_iff. left. apply N.eqb_neq. lia. }
  rewrite E. apply andb_comm.
Qed.

(* a HEAD leaf is the encoding of its own noder hash *)
Definition head_leaf_ok (l : dleaf) : bool :=
  ((fst l =? M_REG) || (fst l =? M_EXEC) || (fst l =? M_LINK)) && Nat.eqb (List.length (snd l)) 2.

Lemma head_leaf_enc p l : head_leaf_ok l = true -> enc (tnode_hash (dec_t (p, l))) = l.
Proof.
  destruct l as [m d]. unfold head_leaf_ok. cbn [fst snd]. intros H. apply andb_true_iff in H as [Hm Hd].
  destruct d as [|a [|b [|c d]]]; try discriminate.
  unfold enc, tnode_hash, dec_t. cbn [fst snd te_hash te_mode h_fmt h_cid nth0 nth].
  f_equal. destruct modes_distinct as (_ & _ & _ & H4 & H5).
  apply orb_true_iff in Hm as [Hm|Hm]; [apply orb_true_iff in Hm as [Hm|Hm]|]; apply N.eqb_eq in Hm; subst m.
  - unfold dec_mode. rewrite H4, H5. reflexivity.
  - unfold dec_mode. rewrite N.eqb_refl. reflexivity.
  - unfold dec_mode. assert (X : (M_LINK =? M_EXEC) = false) by reflexivity. rewrite X, N.eqb_refl. reflexivity.
Qed.

(* ------------------------------------------------------------ flattening a mapped / filtered tree *)

Definition ffm (f : dpath -> dleaf -> option dleaf) (pre : dpath) (m : fmapd) : fmapd :=
  flat_map (fun pl => match f (pre ++ fst pl) (snd pl) with Some l' => [(fst pl, l')] | None => [] end) m.

Lemma ffm_app f pre a b : ffm f pre (a ++ b) = ffm f pre a ++ ffm f pre b.
Proof. unfold ffm. apply flat_map_app. Qed.

Lemma ffm_pren f pre n X : ffm f pre (map (pren n) X) = map (pren n) (ffm f (pre ++ [n]) X).
Proof.
  induction X as [|[q l] X IH]; [reflexivity|].
  cbn [map]. unfold ffm in *. cbn [flat_map]. rewrite IH, map_app. f_equal.
  unfold pren. cbn [fst snd]. rewrite <- app_assoc. cbn [app].
  destruct (f (pre ++ n :: q) l); reflexivity.
Qed.

Ltac dnfm := match goal with |- context [nfm ?a ?b ?c] => destruct (nfm a b c) eqn:?E end.

Lemma nfm_dir f pre cs : nfm f pre (DiffTree.Dir cs) = Some (DiffTree.Dir (tfm f pre cs)).
Proof.
  cbn [nfm]. f_equal. f_equal. induction cs as [|c r IH]; [reflexivity|].
  cbn [tfm]. rewrite <- IH. reflexivity.
Qed.

Lemma files_nfm f x : forall pre,
  match nfm f pre x with Some x' => DiffTree.files x' | None => [] end = ffm f pre (DiffTree.files x).
Proof.
  induction x as [l|cs IH] using C44_diff.node_ind'; intros pre.
  - cbn [nfm DiffTree.files]. unfold ffm. cbn [flat_map fst snd]. rewrite !app_nil_r.
    destruct (f pre l); reflexivity.
  - rewrite nfm_dir. rewrite !C44_diff.files_dir.
    induction cs as [|[n c] r IHr]; [reflexivity|].
    inversion IH as [|? ? Hc Hr]; subst. cbn [fst snd] in Hc.
    cbn [tfm fst snd]. rewrite C44_diff.files_l_cons, ffm_app, ffm_pren, <- (Hc (pre ++ [n])), <- (IHr Hr).
    dnfm; [rewrite C44_diff.files_l_cons; reflexivity|reflexivity].
Qed.

Lemma files_tfm f pre t : fl (tfm f pre t) = ffm f pre (fl t).
Proof.
  unfold fl. rewrite <- !C44_diff.files_dir.
  pose proof (files_nfm f (DiffTree.Dir t) pre) as H. rewrite nfm_dir in H. exact H.
Qed.

Lemma in_ffm f m p l' :
  In (p, l') (ffm f [] m) <-> exists l, In (p, l) m /\ f p l = Some l'.
Proof.
  unfold ffm. rewrite in_flat_map. split.
  - intros ([q l] & Hi & H). cbn [fst snd app] in H. destruct (f q l) as [x|] eqn:E; [|destruct H].
    destruct H as [H|[]]. inversion H; subst. exists l. auto.
  - intros (l & Hi & E). exists (p, l). split; [exact Hi|]. cbn [fst snd app]. rewrite E. now left.
Qed.

(* names survive as a sub-list, so a well-formed tree stays well-formed *)
Lemma tfm_names f pre t n : In n (map fst (tfm f pre t)) -> In n (map fst t).
Proof.
  induction t as [|c r IH]; [intros []|]. cbn [tfm].
  dnfm; cbn [map fst In]; intros H.
  - destruct H as [H|H]; [now left|right; now apply IH].
  - right. now apply IH.
Qed.

Lemma nodupb_tfm f pre t : MapDiff.nodupb (map fst t) = true -> MapDiff.nodupb (map fst (tfm f pre t)) = true.
Proof.
  induction t as [|c r IH]; [reflexivity|]. cbn [map MapDiff.nodupb]. intros H. apply andb_true_iff in H as [H1 H2].
  cbn [tfm]. dnfm; [|now apply IH].
  cbn [map fst MapDiff.nodupb]. rewrite (IH H2), andb_true_r. apply negb_true_iff in H1. apply negb_true_iff.
  apply not_true_is_false. intros C. apply existsb_exists in C as [n0 [Hn He]].
  apply tfm_names in Hn. assert (X : existsb (DiffTree.bytes_eqb (fst c)) (map fst r) = true) by (apply existsb_exists; eauto).
  congruence.
Qed.

Lemma node_ok_dir cs :
  MapDiff.node_ok (DiffTree.Dir cs) = MapDiff.nodupb (map fst cs) && forallb (fun c => MapDiff.node_ok (snd c)) cs.
Proof.
  reflexivity.
Qed.

Lemma node_ok_nfm f x : forall pre x', MapDiff.node_ok x = true -> nfm f pre x = Some x' -> MapDiff.node_ok x' = true.
Proof.
  induction x as [l|cs IH] using C44_diff.node_ind'; intros pre x' Hok H.
  - cbn [nfm] in H. destruct (f pre l); inversion H. reflexivity.
  - rewrite nfm_dir in H. inversion H; subst. rewrite node_ok_dir in *.
    apply andb_true_iff in Hok as [H1 H2]. rewrite (nodupb_tfm f pre cs H1). cbn [andb].
    clear H H1. induction cs as [|c r IHr]; [reflexivity|].
    inversion IH as [|? ? Hc Hr]; subst. cbn [forallb] in H2. apply andb_true_iff in H2 as [H2 H3].
    cbn [tfm]. dnfm; [|now apply IHr].
    cbn [forallb snd]. rewrite (Hc _ _ H2 E). now apply IHr.
Qed.

Lemma tree_ok_tfm f t : MapDiff.tree_ok t = true -> MapDiff.tree_ok (tfm f [] t) = true.
Proof.
  unfold MapDiff.tree_ok. intros H. apply (node_ok_nfm f (DiffTree.Dir t) [] _ H). apply nfm_dir.
Qed.

(* ------------------------------------------------------------ lookups by joined path *)

Definition find_j (m : fmapd) (q : path) : option (dpath * dleaf) :=
  find (fun pl => bytes_eqb (jpath (fst pl)) q) m.

Lemma find_t_dec m q : find_t (map dec_t m) q = option_map dec_t (find_j m q).
Proof.
  induction m as [|pl m IH]; [reflexivity|]. cbn [map find_t find_j find]. cbn [dec_t te_path].
  destruct (bytes_eqb (jpath (fst pl)) q); [reflexivity|exact IH].
Qed.
Lemma find_i_dec m q : find_i (map dec_i m) q = option_map dec_i (find_j m q).
Proof.
  induction m as [|pl m IH]; [reflexivity|]. cbn [map find_i find_j find]. cbn [dec_i ie_path].
  destruct (bytes_eqb (jpath (fst pl)) q); [reflexivity|exact IH].
Qed.
Lemma find_w_dec ts ig m q : find_w (map (dec_w ts ig) m) q = option_map (dec_w ts ig) (find_j m q).
Proof.
  induction m as [|pl m IH]; [reflexivity|]. cbn [map find_w find_j find]. cbn [dec_w wf_path].
  destruct (bytes_eqb (jpath (fst pl)) q); [reflexivity|exact IH].
Qed.

Definition paths_ok (m : fmapd) : Prop := forall p l, In (p, l) m -> C44_paths.path_ok p = true.

Lemma find_j_some m q p l : find_j m q = Some (p, l) -> In (p, l) m /\ jpath p = q.
Proof.
  unfold find_j. intros H. apply find_some in H as [H1 H2]. cbn [fst] in H2. apply bytes_eqb_eq in H2. auto.
Qed.

Lemma find_j_in m p l :
  paths_ok m -> C44_spec.keys_unique m -> In (p, l) m -> find_j m (jpath p) = Some (p, l).
Proof.
  intros Hp Hk Hi. destruct (find_j m (jpath p)) as [[p' l']|] eqn:E.
  - apply find_j_some in E as [E1 E2].
    assert (p' = p) by (apply C44_paths.join_path_inj; [eapply Hp; eassumption|eapply Hp; eassumption|exact E2]).
    subst p'. f_equal. f_equal. eapply Hk; eassumption.
  - exfalso. unfold find_j in E. apply (find_none _ _ E) in Hi. cbn [fst] in Hi. rewrite bytes_eqb_refl in Hi. discriminate.
Qed.

Lemma find_j_none m q : find_j m q = None -> forall p l, In (p, l) m -> jpath p <> q.
Proof.
  unfold find_j. intros E p l Hi C. apply (find_none _ _ E) in Hi. cbn [fst] in Hi. subst q. rewrite bytes_eqb_refl in Hi. discriminate.
Qed.

(* ------------------------------------------------------------ one diff, characterised per joined path *)

Notation SpecF := C44_diff.SpecF.

Section OneDiff.
(* data maps X, Y (paths well-formed, keys unique), the noder hashes hx, hy of their entries
   (hy None: the entry is left out of the walk) *)
Variables (X Y : fmapd) (hx : dpath * dleaf -> nhash) (hy : dpath * dleaf -> option nhash).
Hypothesis HpX : paths_ok X.
Hypothesis HpY : paths_ok Y.
Hypothesis HkX : C44_spec.keys_unique X.
Hypothesis HkY : C44_spec.keys_unique Y.

Let A : fmapd := ffm (fun p l => Some (enc (hx (p, l)))) [] X.
Let B : fmapd := ffm (fun p l => option_map enc (hy (p, l))) [] Y.

Definition chg (q : path) : option action :=
  change1 (option_map hx (find_j X q))
          (match find_j Y q with Some pl => hy pl | None => None end).

Lemma inA p l' : In (p, l') A <-> exists l, In (p, l) X /\ l' = enc (hx (p, l)).
Proof.
  unfold A. rewrite in_ffm. split; intros (l & H1 & H2); exists l; split; auto; congruence.
Qed.
Lemma inB p l' : In (p, l') B <-> exists l h, In (p, l) Y /\ hy (p, l) = Some h /\ l' = enc h.
Proof.
  unfold B. rewrite in_ffm. split.
  - intros (l & H1 & H2). destruct (hy (p, l)) as [h|] eqn:E; [|discriminate]. inversion H2. eauto.
  - intros (l & h & H1 & H2 & ->). exists l. rewrite H2. auto.
Qed.

Lemma spec_to_chg c : SpecF A B c -> chg (fst (change_of c)) = Some (snd (change_of c)).
Proof.
  destruct c as [p l'|p l'|p a b]; cbn [SpecF change_of fst snd]; unfold chg.
  - (* insert *)
    intros [HB HA]. apply inB in HB as (l & h & Hi & Hh & ->).
    rewrite (find_j_in Y p l HpY HkY Hi), Hh.
    destruct (find_j X (jpath p)) as [[p0 l0]|] eqn:E; [|reflexivity].
    exfalso. apply find_j_some in E as [E1 E2].
    assert (p0 = p) by (apply C44_paths.join_path_inj; [eapply HpX; eassumption|eapply HpY; eassumption|exact E2]).
    subst p0. apply HA. eexists. apply inA. eauto.
  - (* delete *)
    intros [HA HB]. apply inA in HA as (l & Hi & ->).
    rewrite (find_j_in X p l HpX HkX Hi). cbn [option_map].
    destruct (find_j Y (jpath p)) as [[p0 l0]|] eqn:E; [|reflexivity].
    apply find_j_some in E as [E1 E2].
    assert (p0 = p) by (apply C44_paths.join_path_inj; [eapply HpY; eassumption|eapply HpX; eassumption|exact E2]).
    subst p0. destruct (hy (p, l0)) as [h|] eqn:Hh; [|reflexivity].
    exfalso. apply HB. eexists. apply inB. eauto.
  - (* modify *)
    intros (HA & HB & Hne). apply inA in HA as (l & Hi & ->). apply inB in HB as (l2 & h & Hi2 & Hh & ->).
    rewrite (find_j_in X p l HpX HkX Hi), (find_j_in Y p l2 HpY HkY Hi2), Hh. cbn [option_map change1].
    rewrite leaf_eqb_enc in Hne. now rewrite Hne.
Qed.

Lemma chg_to_spec q a : chg q = Some a -> exists c, SpecF A B c /\ change_of c = (q, a).
Proof.
  unfold chg.
  destruct (find_j X q) as [[p l]|] eqn:EX; destruct (find_j Y q) as [[p2 l2]|] eqn:EY; cbn [option_map].
  - apply find_j_some in EX as [EX1 EX2]. apply find_j_some in EY as [EY1 EY2].
    assert (p2 = p) by (apply C44_paths.join_path_inj; [eapply HpY; eassumption|eapply HpX; eassumption|etransitivity; [exact EY2|symmetry; exact EX2]]).
    subst p2. destruct (hy (p, l2)) as [h|] eqn:Hh; cbn [change1].
    + destruct (nhash_eqb (hx (p, l)) h) eqn:E; [discriminate|]. intros H; inversion H; subst a.
      exists (DiffTree.MMod p (enc (hx (p, l))) (enc h)). split; [|cbn [change_of]; now rewrite EX2].
      cbn [SpecF]. repeat split; [apply inA; eauto|apply inB; eauto|now rewrite leaf_eqb_enc].
    + intros H; inversion H; subst a.
      exists (DiffTree.MDel p (enc (hx (p, l)))). split; [|cbn [change_of]; now rewrite EX2].
      cbn [SpecF]. split; [apply inA; eauto|]. intros (l' & Hl'). apply inB in Hl' as (l3 & h & H3 & H4 & _).
      assert (l3 = l2) by (eapply HkY; eassumption). subst l3. congruence.
  - apply find_j_some in EX as [EX1 EX2]. cbn [change1]. intros H; inversion H; subst a.
    exists (DiffTree.MDel p (enc (hx (p, l)))). split; [|cbn [change_of]; now rewrite EX2].
    cbn [SpecF]. split; [apply inA; eauto|]. intros (l' & Hl'). apply inB in Hl' as (l3 & h & H3 & _).
    eapply (find_j_none Y q EY); [exact H3|exact EX2].
  - apply find_j_some in EY as [EY1 EY2]. destruct (hy (p2, l2)) as [h|] eqn:Hh; cbn [change1]; [|discriminate].
    intros H; inversion H; subst a.
    exists (DiffTree.MIns p2 (enc h)). split; [|cbn [change_of]; now rewrite EY2].
    cbn [SpecF]. split; [apply inB; eauto|]. intros (l' & Hl'). apply inA in Hl' as (l3 & H3 & _).
    eapply (find_j_none X q EX); [exact H3|exact EY2].
  - discriminate.
Qed.

Lemma keysA : C44_spec.keys_unique A.
Proof.
  intros p a b Ha Hb. apply inA in Ha as (l1 & H1 & ->). apply inA in Hb as (l2 & H2 & ->).
  now rewrite (HkX p l1 l2 H1 H2).
Qed.
Lemma keysB : C44_spec.keys_unique B.
Proof.
  intros p a b Ha Hb. apply inB in Ha as (l1 & h1 & H1 & E1 & ->). apply inB in Hb as (l2 & h2 & H2 & E2 & ->).
  rewrite (HkY p l1 l2 H1 H2) in E1. congruence.
Qed.
Lemma pathsA p l : In (p, l) A -> C44_paths.path_ok p = true.
Proof. intros H. apply inA in H as (l0 & H & _). eapply HpX; eassumption. Qed.
Lemma pathsB p l : In (p, l) B -> C44_paths.path_ok p = true.
Proof. intros H. apply inB in H as (l0 & h & H & _). eapply HpY; eassumption. Qed.

Definition cpath (c : DiffTree.mchange) : dpath :=
  match c with DiffTree.MIns p _ | DiffTree.MDel p _ | DiffTree.MMod p _ _ => p end.

Lemma spec_path_ok c : SpecF A B c -> C44_paths.path_ok (cpath c) = true.
Proof.
  destruct c; cbn [SpecF cpath]; intros H.
  - destruct H as [H _]. eapply pathsB; eassumption.
  - destruct H as [H _]. eapply pathsA; eassumption.
  - destruct H as [H _]. eapply pathsA; eassumption.
Qed.

(* two reported changes with the same joined path are the same change *)
Lemma spec_same_path c c' :
  SpecF A B c -> SpecF A B c' -> fst (change_of c) = fst (change_of c') -> c = c'.
Proof.
  intros H H' E.
  assert (P : cpath c = cpath c').
  { apply C44_paths.join_path_inj; [now apply spec_path_ok|now apply spec_path_ok|].
    destruct c, c'; exact E. }
  destruct c as [p l|p l|p a b], c' as [p' l'|p' l'|p' a' b']; cbn [cpath] in P; subst p'; cbn [SpecF] in H, H'.
  - f_equal. destruct H, H'. eapply keysB; eassumption.
  - exfalso. destruct H as [_ H]. destruct H' as [H' _]. apply H. eauto.
  - exfalso. destruct H as [_ H]. destruct H' as [H' _]. apply H. eauto.
  - exfalso. destruct H' as [_ H']. destruct H as [H _]. apply H'. eauto.
  - f_equal. destruct H, H'. eapply keysA; eassumption.
  - exfalso. destruct H as [_ H]. destruct H' as (_ & H' & _). apply H. eauto.
  - exfalso. destruct H' as [_ H']. destruct H as [H _]. apply H'. eauto.
  - exfalso. destruct H' as [_ H']. destruct H as (_ & H & _). apply H'. eauto.
  - destruct H as (H1 & H2 & _), H' as (H1' & H2' & _). f_equal; [eapply keysA|eapply keysB]; eassumption.
Qed.

End OneDiff.

(* ------------------------------------------------------------ the fold over an arbitrary change list *)

Definition assoc (q : path) (L : list (path * action)) : option action :=
  option_map snd (find (fun x => bytes_eqb (fst x) q) L).

Lemma fold_left_gen L : forall m q,
  NoDup (map fst L) ->
  sget (fold_left left_apply L m) q = match assoc q L with Some a => Some (stg a, CUnmod) | None => sget m q end.
Proof.
  induction L as [|[p a] L IH]; intros m q Hn; [reflexivity|].
  inversion Hn as [|? ? Hnin Hn']; subst. cbn [fold_left]. rewrite IH by exact Hn'.
  unfold assoc. cbn [find fst]. destruct (bytes_eqb p q) eqn:E.
  - apply bytes_eqb_eq in E. subst q. cbn [option_map snd].
    assert (N : find (fun x => bytes_eqb (fst x) p) L = None).
    { destruct (find (fun x => bytes_eqb (fst x) p) L) as [[p' a']|] eqn:F; [|reflexivity].
      apply find_some in F as [F1 F2]. cbn [fst] in F2. apply bytes_eqb_eq in F2. subst p'.
      exfalso. apply Hnin. apply in_map_iff. exists (p, a'). auto. }
    rewrite N. cbn [option_map]. unfold left_apply. destruct (sfile m p). rewrite sget_sset, bytes_eqb_refl.
    destruct a; reflexivity.
  - destruct (option_map snd (find (fun x => bytes_eqb (fst x) q) L)); [reflexivity|].
    unfold left_apply. destruct (sfile m p). now rewrite sget_sset, E.
Qed.

Lemma fold_right_gen L : forall m q,
  NoDup (map fst L) ->
  sget (fold_left right_apply L m) q = match assoc q L with Some a => Some (rapply (sfile m q) a) | None => sget m q end.
Proof.
  induction L as [|[p a] L IH]; intros m q Hn; [reflexivity|].
  inversion Hn as [|? ? Hnin Hn']; subst. cbn [fold_left]. rewrite IH by exact Hn'.
  unfold assoc. cbn [find fst]. destruct (bytes_eqb p q) eqn:E.
  - apply bytes_eqb_eq in E. subst q. cbn [option_map snd].
    assert (N : find (fun x => bytes_eqb (fst x) p) L = None).
    { destruct (find (fun x => bytes_eqb (fst x) p) L) as [[p' a']|] eqn:F; [|reflexivity].
      apply find_some in F as [F1 F2]. cbn [fst] in F2. apply bytes_eqb_eq in F2. subst p'.
      exfalso. apply Hnin. apply in_map_iff. exists (p, a'). auto. }
    rewrite N. cbn [option_map]. unfold right_apply, rapply. destruct (sfile m p) as [st0 w0]. cbn [fst].
    destruct a; rewrite sget_sset, bytes_eqb_refl; reflexivity.
  - assert (Hs : sget (right_apply m (p, a)) q = sget m q).
    { unfold right_apply. destruct (sfile m p) as [st0 w0]. destruct a; rewrite sget_sset, E; reflexivity. }
    unfold sfile. rewrite Hs. reflexivity.
Qed.

Lemma NoDup_map_in {A B} (g : A -> B) l :
  NoDup l -> (forall x y, In x l -> In y l -> g x = g y -> x = y) -> NoDup (map g l).
Proof.
  induction l as [|x l IH]; intros Hn Hi; [constructor|].
  inversion Hn as [|? ? Hx Hl]; subst. cbn [map]. constructor.
  - intros C. apply in_map_iff in C as (y & Hy & Hyl). apply Hx.
    rewrite (Hi x y (or_introl eq_refl) (or_intror Hyl) (eq_sym Hy)). exact Hyl.
  - apply IH; [exact Hl|]. intros a b Ha Hb. apply Hi; now right.
Qed.

(* a change list that is, per joined path, the function [f] *)
Lemma assoc_char L (f : path -> option action) :
  NoDup (map fst L) ->
  (forall q a, In (q, a) L <-> f q = Some a) ->
  forall q, assoc q L = f q.
Proof.
  intros Hn Hc q. unfold assoc. destruct (find (fun x => bytes_eqb (fst x) q) L) as [[p a]|] eqn:F.
  - apply find_some in F as [F1 F2]. cbn [fst] in F2. apply bytes_eqb_eq in F2. subst p.
    cbn [option_map snd]. symmetry. now apply Hc.
  - cbn [option_map]. destruct (f q) as [a|] eqn:E; [|reflexivity].
    apply Hc in E. apply (find_none _ _ F) in E. cbn [fst] in E. rewrite bytes_eqb_refl in E. discriminate.
Qed.
