(* Proofs/C27Small.v — the two formulations of merkletrie.DiffTree agree on a small scope:
   the two-iterator loop of Model/StatusTrie.v (flat_difftree, no noder skipped, either
   skip rule) and the recursive merge of Model/DiffTree.v return the same change list for
   EVERY pair of trees over two names, two leaf values and depth <= 2 (144 x 144 pairs,
   empty directories, file/directory conflicts and unequal depths included).  By computation. *)
From Coq Require Import List NArith Bool.
From GoGit Require Import Base.Out Model.Status Model.StatusTrie.
From GoGit Require Model.DiffTree.
Import ListNotations.
Local Open Scope N_scope.

Definition leaves : list DiffTree.leaf := [(33188, [0; 1]); (33188, [0; 2])].
Definition names : list DiffTree.name := [[97]; [98]].

(* all ways to populate the names with an optional node each *)
Fixpoint populate (ns : list DiffTree.name) (opts : list (option DiffTree.node)) : list DiffTree.tree :=
  match ns with
  | [] => [[]]
  | n :: r =>
    flat_map (fun t => map (fun o => match o with Some x => (n, x) :: t | None => t end) opts) (populate r opts)
  end.

Definition files0 : list (option DiffTree.node) := None :: map (fun l => Some (DiffTree.File l)) leaves.
Definition level1 : list (option DiffTree.node) :=
  files0 ++ map (fun t => Some (DiffTree.Dir t)) (populate names files0).
Definition all_trees : list DiffTree.tree := populate names level1.

Definition leaf_b (a b : DiffTree.leaf) : bool := (fst a =? fst b) && DiffTree.bytes_eqb (snd a) (snd b).
Fixpoint path_b (a b : dpath) : bool :=
  match a, b with
  | [], [] => true
  | x :: a', y :: b' => DiffTree.bytes_eqb x y && path_b a' b'
  | _, _ => false
  end.
Definition mchange_b (a b : DiffTree.mchange) : bool :=
  match a, b with
  | DiffTree.MIns p l, DiffTree.MIns q m => path_b p q && leaf_b l m
  | DiffTree.MDel p l, DiffTree.MDel q m => path_b p q && leaf_b l m
  | DiffTree.MMod p l1 l2, DiffTree.MMod q m1 m2 => path_b p q && leaf_b l1 m1 && leaf_b l2 m2
  | _, _ => false
  end.
Fixpoint list_b (a b : list DiffTree.mchange) : bool :=
  match a, b with
  | [], [] => true
  | x :: a', y :: b' => mchange_b x y && list_b a' b'
  | _, _ => false
  end.
Definition res_b (a b : option (list DiffTree.mchange)) : bool :=
  match a, b with Some x, Some y => list_b x y | _, _ => false end.

Definition agree (x y : DiffTree.tree) : bool :=
  res_b (flat_difftree true no_skip no_skip x y) (DiffTree.difftree x y) &&
  res_b (flat_difftree false no_skip no_skip x y) (DiffTree.difftree x y).

Lemma walks_agree_small :
  List.length all_trees = 144%nat /\
  forallb (fun x => forallb (fun y => agree x y) all_trees) all_trees = true.
Proof. vm_compute. split; reflexivity. Qed.
