(* Proofs/C04Dot.v — the whole-name level: what ValidTreePath accepts, git's
   fsck_tree does not call .git (on well-formed UTF-8); what Validate accepts for
   a symlink, git does not call .gitmodules; hence written trees are fsck-clean.
   Also: the 7-digit mode limit is the only difference between the two readers. *)
From Coq Require Import List NArith ZArith Bool Lia ZifyBool ZifyNat ZifyN.
From GoGit Require Import Base.Out Gen.C04 Model.TreeObj Spec.GitTree Proofs.C04 Proofs.C04Utf8 Proofs.C04Hfs Proofs.C04Ntfs.
Import ListNotations.
Local Open Scope N_scope.

(* ================================================================ strings.FieldsFunc *)
Definition nosep (s : bytes) : bool := forallb (fun c => negb (is_sep c)) s.

Lemma nosep_cons c s : nosep (c :: s) = true <-> is_sep c = false /\ nosep s = true.
Proof. unfold nosep. cbn [forallb]. rewrite andb_true_iff, negb_true_iff. tauto. Qed.

Lemma nosep_tlacks s : tlacks 47 s = true -> tlacks 92 s = true -> nosep s = true.
Proof.
  induction s as [|c s IH]; intros H1 H2; [reflexivity|].
  apply tlacks_cons in H1 as [C1 H1]. apply tlacks_cons in H2 as [C2 H2].
  apply nosep_cons. split; [unfold is_sep; lia|auto].
Qed.

Lemma tlacks_nosep s : nosep s = true -> tlacks 47 s = true /\ tlacks 92 s = true.
Proof.
  induction s as [|c s IH]; intros H; [split; reflexivity|].
  apply nosep_cons in H as [C H]. destruct (IH H) as [A B]. unfold is_sep in C.
  split; apply tlacks_cons; split; auto; lia.
Qed.

(* the first field and what follows it *)
Fixpoint seg (s : bytes) : bytes :=
  match s with [] => [] | c :: r => if is_sep c then [] else c :: seg r end.
Fixpoint after_seg (s : bytes) : bytes :=
  match s with [] => [] | c :: r => if is_sep c then s else after_seg r end.

Lemma seg_split s : s = seg s ++ after_seg s /\ nosep (seg s) = true /\
  match after_seg s with [] => True | c :: _ => is_sep c = true end.
Proof.
  induction s as [|c s (E & N & A)]; [repeat split|]. cbn [seg after_seg].
  destruct (is_sep c) eqn:S.
  - repeat split. exact S.
  - repeat split; [cbn [app]; now rewrite <- E|apply nosep_cons; auto|exact A].
Qed.

Lemma seg_nosep s : nosep s = true -> seg s = s.
Proof.
  induction s as [|c s IH]; intros H; [reflexivity|]. apply nosep_cons in H as [C H].
  cbn [seg]. now rewrite C, IH.
Qed.

Definition flush (cur : bytes) : list bytes := match cur with [] => [] | _ => [rev cur] end.

Lemma parts_go_nosep s : forall t cur, nosep s = true -> parts_go (s ++ t) cur = parts_go t (rev s ++ cur).
Proof.
  induction s as [|c s IH]; intros t cur H; [reflexivity|]. apply nosep_cons in H as [C H].
  cbn [app parts_go rev]. rewrite C, IH by exact H. now rewrite <- app_assoc.
Qed.

Lemma parts_go_sep pre : forall c r cur, is_sep c = true ->
  parts_go (pre ++ c :: r) cur = parts_go pre cur ++ parts_go r [].
Proof.
  induction pre as [|x pre IH]; intros c r cur S.
  - cbn [app parts_go]. rewrite S. destruct cur; reflexivity.
  - cbn [app parts_go]. destruct (is_sep x).
    + destruct cur; rewrite IH by exact S; reflexivity.
    + now apply IH.
Qed.

Lemma parts_seg s : seg s <> [] -> exists tl, parts s = seg s :: tl.
Proof.
  intros NE. destruct (seg_split s) as (E & N & A). unfold parts.
  assert (P0 : parts_go s [] = parts_go (seg s ++ after_seg s) []) by now rewrite <- E.
  rewrite P0, (parts_go_nosep _ _ _ N), app_nil_r. clear P0 E.
  assert (R : rev (seg s) <> []).
  { intros K. apply NE. rewrite <- (rev_involutive (seg s)), K. reflexivity. }
  destruct (after_seg s) as [|c r].
  - cbn [parts_go]. destruct (rev (seg s)) eqn:K; [now elim R|]. rewrite <- K, rev_involutive. now exists [].
  - cbn [parts_go]. rewrite A. destruct (rev (seg s)) eqn:K; [now elim R|]. rewrite <- K, rev_involutive. eexists. reflexivity.
Qed.

(* a field of a suffix that follows a separator is a field of the whole *)
Lemma parts_after_sep pre c r p : is_sep c = true -> In p (parts r) -> In p (parts (pre ++ c :: r)).
Proof. intros S H. unfold parts. rewrite parts_go_sep by exact S. apply in_or_app. now right. Qed.

(* ================================================================ ValidTreePath: every field is tested *)
Lemma valid_parts n : valid_tree_path n = true -> forall p, In p (parts n) -> bad_part p = false.
Proof.
  unfold valid_tree_path. intros H p Hp. apply andb_true_iff in H as [_ H].
  destruct (parts n) as [|q ps] eqn:P; [discriminate|]. apply negb_true_iff in H.
  destruct (bad_part p) eqn:B; [|reflexivity].
  assert (existsb bad_part (q :: ps) = true); [|congruence]. apply existsb_exists. now exists p.
Qed.

Lemma bad_hfs p : is_hfs_dot p N_git = true -> bad_part p = true.
Proof. intros H. unfold bad_part. rewrite H. now rewrite !orb_true_r. Qed.
Lemma bad_ntfs p : is_ntfs_dotgit p = true -> bad_part p = true.
Proof. intros H. unfold bad_part. rewrite H. now rewrite !orb_true_r. Qed.

(* ================================================================ an HFS+ ".git" holds no separator *)
Lemma is_ign_high a b c : is_ign a b c = true -> is_sep a = false /\ is_sep b = false /\ is_sep c = false.
Proof. intros H. apply is_ign_cases in H. unfold is_sep. lia. Qed.

Lemma skip_ign_nosep : forall n s, (List.length s <= n)%nat -> nosep (skip_ign s) = true -> nosep s = true.
Proof.
  induction n as [|n IH]; intros s L.
  - destruct s; [auto|cbn in L; lia].
  - rewrite skip_ign_eq. destruct s as [|a [|b [|c r]]]; auto.
    destruct (is_ign a b c) eqn:I; auto. intros H. destruct (is_ign_high a b c I) as (A & B & C).
    apply nosep_cons. split; [exact A|]. apply nosep_cons. split; [exact B|]. apply nosep_cons. split; [exact C|].
    apply IH; [cbn [List.length] in L; lia|exact H].
Qed.

Lemma lower_sep c : is_sep c = true -> lower c = c.
Proof. intros H. rewrite lower_c. unfold c_tolower, is_sep in *. destruct ((65 <=? c) && (c <=? 90)) eqn:E; lia. Qed.

Lemma hfs_needle_nosep : forall f ns s, nosep ns = true -> hfs_needle f s ns = true -> nosep s = true.
Proof.
  induction f as [|f IH]; intros ns s N H; [discriminate|]. cbn [hfs_needle] in H.
  apply (skip_ign_nosep _ s (Nat.le_refl _)).
  destruct ns as [|e ns].
  - destruct (skip_ign s); [reflexivity|discriminate].
  - destruct (skip_ign s) as [|c r]; [discriminate|].
    apply andb_true_iff in H as [H H3]. apply andb_true_iff in H as [H1 H2].
    apply nosep_cons in N as [Ne N]. apply nosep_cons. split; [|now apply (IH ns)].
    destruct (is_sep c) eqn:S; [|reflexivity]. rewrite (lower_sep c S) in H2.
    assert (c = e) by lia. subst. congruence.
Qed.

Lemma hfs_dot_nosep n needle : nosep needle = true -> is_hfs_dot n needle = true -> nosep n = true /\ n <> [].
Proof.
  intros N H. unfold is_hfs_dot in H. split.
  - apply (skip_ign_nosep _ n (Nat.le_refl _)). destruct (skip_ign n) as [|c r]; [discriminate|].
    apply andb_true_iff in H as [C H]. apply nosep_cons. split; [unfold is_sep; lia|].
    now apply (hfs_needle_nosep (S (List.length needle)) needle).
  - intros ->. discriminate H.
Qed.

(* ================================================================ git's is_ntfs_dotgit only looks at the first field *)
Lemma ntfs_tail_seg r : ntfs_tail (seg r) = ntfs_tail r.
Proof.
  induction r as [|c r IH]; [reflexivity|]. cbn [seg]. destruct (is_sep c) eqn:S.
  - cbn [ntfs_tail]. unfold is_sep in S. assert (E : (c =? 47) || (c =? 92) || (c =? 58) = true) by lia. now rewrite E.
  - cbn [ntfs_tail]. now rewrite IH.
Qed.

Lemma is_ch_nosep c x : 97 <= x <= 122 -> is_ch c x = true -> is_sep c = false.
Proof. unfold is_ch, is_sep. lia. Qed.

Lemma git_ntfs_seg r : git_is_ntfs_dotgit r = true -> git_is_ntfs_dotgit (seg r) = true /\ seg r <> [].
Proof.
  unfold git_is_ntfs_dotgit at 1. destruct r as [|c p1]; [discriminate|].
  destruct (c =? 46) eqn:C46.
  - destruct p1 as [|g [|i [|t r']]]; try discriminate.
    destruct (is_ch g 103) eqn:G; [|discriminate]. destruct (is_ch i 105) eqn:I; [|discriminate].
    destruct (is_ch t 116) eqn:T; [|discriminate]. cbn [negb orb]. intros H.
    assert (Sc : is_sep c = false) by (unfold is_sep; lia).
    pose proof (is_ch_nosep g 103 ltac:(lia) G) as Sg. pose proof (is_ch_nosep i 105 ltac:(lia) I) as Si.
    pose proof (is_ch_nosep t 116 ltac:(lia) T) as St.
    cbn [seg]. rewrite Sc, Sg, Si, St. split; [|discriminate].
    unfold git_is_ntfs_dotgit. rewrite C46, G, I, T. cbn [negb orb]. now rewrite ntfs_tail_seg.
  - destruct (is_ch c 103) eqn:G; [|discriminate].
    destruct p1 as [|i [|t [|d [|e r']]]]; try discriminate.
    destruct (is_ch i 105) eqn:I; [|discriminate]. destruct (is_ch t 116) eqn:T; [|discriminate].
    destruct (d =? 126) eqn:D; [|discriminate]. destruct (e =? 49) eqn:E; [|discriminate]. cbn [negb orb]. intros H.
    pose proof (is_ch_nosep c 103 ltac:(lia) G) as Sc. pose proof (is_ch_nosep i 105 ltac:(lia) I) as Si.
    pose proof (is_ch_nosep t 116 ltac:(lia) T) as St.
    assert (Sd : is_sep d = false) by (unfold is_sep; lia). assert (Se : is_sep e = false) by (unfold is_sep; lia).
    cbn [seg]. rewrite Sc, Si, St, Sd, Se. split; [|discriminate].
    unfold git_is_ntfs_dotgit. rewrite C46, G, I, T, D, E. cbn [negb orb]. now rewrite ntfs_tail_seg.
Qed.

(* whenever git's is_ntfs_dotgit says yes, some field of the string is refused by go-git *)
Lemma git_ntfs_bad_part r : git_is_ntfs_dotgit r = true -> exists p, In p (parts r) /\ bad_part p = true.
Proof.
  intros H. destruct (git_ntfs_seg r H) as [G NE]. destruct (parts_seg r NE) as [tl P].
  exists (seg r). split; [rewrite P; now left|]. apply bad_ntfs.
  destruct (seg_split r) as (_ & N & _). destruct (tlacks_nosep _ N) as [A B].
  now rewrite ntfs_dotgit_eq_git.
Qed.

Lemma after_bs_inv n r : In r (after_backslashes n) -> exists pre, n = pre ++ 92 :: r.
Proof.
  induction n as [|c n IH]; [intros []|]. cbn [after_backslashes]. intros H. apply in_app_or in H as [H|H].
  - destruct (c =? 92) eqn:E; [|destruct H]. destruct H as [<-|[]]. exists []. cbn. f_equal. lia.
  - destruct (IH H) as [pre ->]. now exists (c :: pre).
Qed.

(* ================================================================ hasDotgit *)
Lemma has_dotgit_refused n :
  is_bytes n = true -> utf8_guard n = true -> tlacks 0 n = true -> tlacks 47 n = true ->
  valid_tree_path n = true -> git_has_dotgit n = false.
Proof.
  intros HB HW H0 H47 V. pose proof (valid_parts n V) as VP.
  unfold git_has_dotgit. rewrite <- (hfs_dot_eq_git2 n N_git HB HW H0 H47).
  destruct (is_hfs_dot n N_git) eqn:HF.
  { exfalso. destruct (hfs_dot_nosep n N_git eq_refl HF) as [N NE].
    assert (SE : seg n <> []) by now rewrite seg_nosep.
    destruct (parts_seg n SE) as [tl P]. rewrite (seg_nosep n N) in P.
    assert (B : bad_part n = false) by (apply VP; rewrite P; now left).
    rewrite (bad_hfs n HF) in B. discriminate. }
  destruct (git_is_ntfs_dotgit n) eqn:NT.
  { exfalso. destruct (git_ntfs_bad_part n NT) as (p & Hp & B). rewrite (VP p Hp) in B. discriminate. }
  cbn [orb]. destruct (existsb git_is_ntfs_dotgit (after_backslashes n)) eqn:EX; [|reflexivity].
  exfalso. apply existsb_exists in EX as (r & Hr & G). destruct (after_bs_inv n r Hr) as [pre ->].
  destruct (git_ntfs_bad_part r G) as (p & Hp & B).
  rewrite (VP p) in B; [discriminate|]. apply parts_after_sep; [reflexivity|exact Hp].
Qed.

(* ================================================================ .gitmodules *)
Lemma existsb_ext_in {A} (f g : A -> bool) l : (forall x, In x l -> f x = g x) -> existsb f l = existsb g l.
Proof.
  induction l as [|x l IH]; intros H; [reflexivity|]. cbn [existsb].
  rewrite (H x (or_introl eq_refl)), IH; [reflexivity|]. intros y Hy. apply H. now right.
Qed.

Lemma is_bytes_app a b : is_bytes (a ++ b) = is_bytes a && is_bytes b.
Proof. apply forallb_app. Qed.

Definition ntfs_gitmodules_after_backslash (n : bytes) : bool :=
  existsb (fun s => is_ntfs_dot s N_gitmodules S_gi7eba) (after_backslashes n).

(* git's verdict on a name, in go-git's terms *)
Lemma dotgitmodules_eq n :
  is_bytes n = true -> utf8_guard n = true -> tlacks 0 n = true -> tlacks 47 n = true ->
  git_is_dotgitmodules n =
  is_hfs_dot n N_gitmodules || is_ntfs_dot n N_gitmodules S_gi7eba || ntfs_gitmodules_after_backslash n.
Proof.
  intros HB HW H0 H47. unfold git_is_dotgitmodules, ntfs_gitmodules_after_backslash.
  rewrite <- (hfs_dot_eq_git2 n N_gitmodules HB HW H0 H47), <- (ntfs_gitmodules_eq n HB H0).
  f_equal. apply existsb_ext_in. intros r Hr. destruct (after_bs_inv n r Hr) as [pre ->].
  symmetry. apply ntfs_gitmodules_eq.
  - rewrite is_bytes_app in HB. apply andb_true_iff in HB as [_ HB]. now apply is_bytes_cons in HB.
  - rewrite tlacks_app in H0. apply andb_true_iff in H0 as [_ H0]. now apply tlacks_cons in H0.
Qed.

Lemma no_backslash_after n : tlacks 92 n = true -> after_backslashes n = [].
Proof.
  induction n as [|c n IH]; intros H; [reflexivity|]. apply tlacks_cons in H as [C H].
  cbn [after_backslashes]. rewrite (IH H). assert (E : (c =? 92) = false) by lia. now rewrite E.
Qed.

Lemma dotgitmodules_symlink n :
  is_bytes n = true -> utf8_guard n = true -> tlacks 0 n = true -> tlacks 47 n = true -> tlacks 92 n = true ->
  git_is_dotgitmodules n = true -> dot_symlink_name n = true.
Proof.
  intros HB HW H0 H47 H92. rewrite (dotgitmodules_eq n HB HW H0 H47).
  unfold ntfs_gitmodules_after_backslash. rewrite (no_backslash_after n H92). cbn [existsb]. rewrite orb_false_r.
  intros H. unfold dot_symlink_name. rewrite <- !orb_assoc in *. apply orb_true_iff in H as [->| ->]; [reflexivity|].
  now rewrite orb_true_r.
Qed.

(* ================================================================ written trees are fsck-clean *)
Definition link_ok (e : tentry) : Prop :=
  ((t_mode e =? fmode_Symlink)%Z && dot_symlink_name (t_name e)) = false.

Lemma validate_entry_link seen prev e : v_invalid (validate_entry seen prev e) = false -> link_ok e.
Proof.
  unfold validate_entry, link_ok. cbv zeta. cbn [v_invalid]. intros H.
  apply orb_false_iff in H as [H _]. now apply orb_false_iff in H as [_ H].
Qed.

Lemma validate_go_link es : forall seen prev acc,
  v_invalid (validate_go es seen prev acc) = false -> Forall link_ok es.
Proof.
  induction es as [|e es IH]; intros seen prev acc H; [constructor|]. cbn [validate_go] in H.
  pose proof H as H'. apply validate_go_inv in H' as [Hacc _]. cbn [v_invalid] in Hacc.
  apply orb_false_iff in Hacc as [_ Hv]. constructor; [now apply (validate_entry_link seen prev)|now apply IH in H].
Qed.

(* the guard: the name is a byte string, well-formed UTF-8 if it starts like a
   dot-file (HFS+-ignorable code points skipped), and, for a symlink, no
   suffix that follows a backslash is an NTFS variant of .gitmodules *)
Definition name_guard (e : tentry) : bool :=
  is_bytes (t_name e) && utf8_guard (t_name e) &&
  (negb (t_mode e =? fmode_Symlink)%Z || negb (ntfs_gitmodules_after_backslash (t_name e))).

Lemma symlink_mode m : In m valid_modes -> (Z.land m 61440 =? 40960)%Z = (m =? fmode_Symlink)%Z.
Proof. unfold valid_modes. intros H. repeat (destruct H as [<-|H]; [reflexivity|]). destruct H. Qed.

Lemma written_clean_wf es b :
  Forall (fun e => List.length (t_hash e) = 20%nat) es ->
  encode es = Some b -> forallb name_guard es = true ->
  git_fsck_tree 20 b = [].
Proof.
  intros Hlen Henc G. rewrite (written_fsck_shape es b Hlen Henc).
  unfold encode in Henc. destruct (v_invalid (validate es)) eqn:V; [discriminate|]. clear Henc.
  pose proof (validate_all_ok es V) as Hok. pose proof (validate_go_link es [] None _ V) as Hlk.
  rewrite forallb_forall in G. rewrite Forall_forall in Hok, Hlk.
  assert (facts : forall e, In e es ->
            git_has_dotgit (t_name e) = false /\
            ((Z.land (t_mode e) 61440 =? 40960)%Z && git_is_dotgitmodules (t_name e)) = false).
  { intros e He. destruct (Hok e He) as (_ & N0 & N47 & M & _ & VP). specialize (Hlk e He). specialize (G e He).
    unfold name_guard in G. apply andb_true_iff in G as [G G3]. apply andb_true_iff in G as [G1 G2].
    split; [now apply has_dotgit_refused|].
    rewrite (symlink_mode _ (valid_mode_in _ M)). unfold link_ok in Hlk.
    destruct (t_mode e =? fmode_Symlink)%Z; [|reflexivity]. cbn [andb negb orb] in *.
    rewrite (dotgitmodules_eq _ G1 G2 N0 N47). apply negb_true_iff in G3. rewrite G3, orb_false_r.
    unfold dot_symlink_name in Hlk. rewrite <- !orb_assoc in Hlk.
    apply orb_false_iff in Hlk as [L1 Hlk]. apply orb_false_iff in Hlk as [L2 _]. now rewrite L1, L2. }
  rewrite (existsb_map_false raw_of (fun e => git_has_dotgit (r_name e))) by (intros e He; apply (facts e He)).
  rewrite (existsb_map_false raw_of (fun e => (Z.land (r_mode e) 61440 =? 40960)%Z && git_is_dotgitmodules (r_name e)))
    by (intros e He; apply (facts e He)).
  reflexivity.
Qed.

(* ================================================================ decoding: the 7-digit limit is the only difference *)
Lemma git_decode_exact b rs : git_parse 20 b = inr rs ->
  ((exists es, decode 20 b = inr es) <-> short_modes rs = true).
Proof.
  intros GP. split.
  - intros [es D]. unfold decode in D. apply decode_go_inv in D as (rs' & -> & Hwf & _).
    unfold git_parse, git_parse_partial in GP.
    rewrite (git_parse_wf rs' _ [] Hwf (Nat.lt_succ_diag_r _)) in GP. cbn [rev app] in GP. injection GP as <-.
    unfold short_modes. rewrite forallb_forall. intros r Hr. apply in_map_iff in Hr as (r' & <- & Hr').
    cbn [r_mtext]. rewrite Forall_forall in Hwf. destruct (Hwf r' Hr') as [Wm _ _ _].
    apply mode_of_bytes_octal in Wm as (_ & L & _). apply Nat.leb_le. lia.
  - intros S. eexists. apply git_is_decode; [now rewrite GP|]. unfold git_ls_tree. rewrite GP. reflexivity.
Qed.
