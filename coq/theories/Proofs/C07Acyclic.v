(* Proofs/C07Acyclic.v — on an acyclic base-pointer graph the encoder never
   un-deltifies: every entry keeps the base the selector chose. *)
From Coq Require Import List NArith Arith Lia Bool.
From GoGit Require Import Base.Out Model.PackEnc Proofs.C07.
Import ListNotations.

Section Acyclic.
Variable base0 : nat -> option nat.
Variable esize : nat -> N.
Variable rank : nat -> nat.
Hypothesis acyclic : forall k b, base0 k = Some b -> rank b < rank k.

Definition kept (s : state) : Prop :=
  (forall k, base_of s k = base0 k) /\
  (forall e, In e (emitted s) -> e_base e = base0 (e_node e)).

Lemma entry_acyclic : forall fuel s o s',
  kept s -> (forall w, is_want s w = true -> rank o < rank w) ->
  entry fuel esize s o = Some s' ->
  kept s' /\ (forall w, is_want s' w = is_want s w).
Proof.
  induction fuel as [|f IH]; intros s o s' K Hw H; [discriminate|].
  cbn [entry] in H.
  assert (Hno : is_want s o = false).
  { destruct (is_want s o) eqn:E; [|reflexivity]. specialize (Hw o E). lia. }
  rewrite Hno in H.
  destruct (is_written s o) eqn:Hwr.
  { inversion H; subst. auto. }
  set (s2 := mark_want s o) in *.
  assert (K2 : kept s2) by (destruct K as [K1 K2]; split; [exact K1|exact K2]).
  assert (W2 : forall w, is_want s2 w = if Nat.eqb w o then true else is_want s w).
  { intros w. unfold s2, is_want, mark_want. cbn. unfold upd. destruct (Nat.eqb w o); reflexivity. }
  assert (R : exists s3,
    (match base_of s2 o with
     | Some b => if is_written s2 b then Some s2 else entry f esize s2 b
     | None => Some s2 end) = Some s3 /\ kept s3 /\ (forall w, is_want s3 w = is_want s2 w)).
  { destruct (base_of s2 o) as [b|] eqn:Eb.
    - destruct (is_written s2 b).
      + exists s2. auto.
      + destruct (entry f esize s2 b) as [s3|] eqn:He; [|discriminate].
        assert (Hb0 : base0 o = Some b) by (destruct K2 as [K21 _]; rewrite <- K21; exact Eb).
        assert (Hlt : rank b < rank o) by (apply acyclic; exact Hb0).
        destruct (IH s2 b s3 K2) as (K3 & W3); [|exact He|].
        * intros w Hw2. rewrite W2 in Hw2. destruct (Nat.eqb w o) eqn:E.
          -- apply Nat.eqb_eq in E. subst w. exact Hlt.
          -- specialize (Hw w Hw2). lia.
        * exists s3. auto.
    - exists s2. auto. }
  destruct R as (s3 & HR & K3 & W3). rewrite HR in H.
  assert (Ho3 : is_want s3 o = true) by (rewrite W3, W2, Nat.eqb_refl; reflexivity).
  assert (Hnw : is_written s3 o = false).
  { unfold is_want in Ho3. unfold is_written. destruct (st_of s3 o); try discriminate; reflexivity. }
  rewrite Hnw in H. inversion H; subst s'. split.
  - destruct K3 as [K31 K32]. split; [exact K31|].
    intros e [He|He]; [subst e; unfold e_base, e_node; cbn; apply K31|apply K32; exact He].
  - intros w. destruct (Nat.eqb w o) eqn:E.
    + apply Nat.eqb_eq in E. subst w. rewrite Hno. unfold is_want, write_entry. cbn. rewrite upd_same. reflexivity.
    + transitivity (is_want s3 w); [unfold is_want, write_entry; cbn; unfold upd; rewrite E; reflexivity|].
      rewrite W3, W2, E. reflexivity.
Qed.

Lemma encode_loop_acyclic fuel : forall objs s s',
  kept s -> (forall w, is_want s w = false) -> encode_loop fuel esize s objs = Some s' ->
  kept s' /\ (forall w, is_want s' w = false).
Proof.
  induction objs as [|o rest IH]; intros s s' K Hw H; cbn [encode_loop] in H.
  - inversion H; subst. auto.
  - destruct (entry fuel esize s o) as [s1|] eqn:He; [|discriminate].
    destruct (entry_acyclic fuel s o s1 K) as (K1 & W1); [|exact He|].
    + intros w E. rewrite Hw in E. discriminate.
    + apply (IH s1 s' K1); [|exact H]. intros w. rewrite W1. apply Hw.
Qed.

Lemma encode_acyclic n es :
  encode n base0 esize = Some es -> forall k b off, In (k, b, off) es -> b = base0 k.
Proof.
  unfold encode. destruct (encode_loop (n + 2) esize (init_state base0) (seq 0 n)) as [s|] eqn:H; [|discriminate].
  intros E k b off Hin. inversion E; subst es. clear E.
  assert (K0 : kept (init_state base0)) by (split; [intros; reflexivity|intros e []]).
  destruct (encode_loop_acyclic _ _ _ _ K0 (fun _ => eq_refl) H) as ((_ & K) & _).
  apply in_rev in Hin. apply (K (k, b, off) Hin).
Qed.

End Acyclic.
