(* Proofs/C08Unique.v — the resolution relation is a function of the pack.
   The scanner announces strictly increasing offsets; on entries with distinct offsets, a
   store that files objects under their own ids and no id collision among the objects of
   this pack and store, [Resolves] assigns at most one (type, content, chain depth) to an
   offset; hence the depth boundary: a pack with a chain of more than maxDeltaChainDepth
   links is never accepted, whatever the order of the walk. *)
From Coq Require Import List NArith ZArith Bool String Lia ZifyBool ZifyNat ZifyN.
From GoGit Require Import Base.Out Base.GoInt Model.PackBytes Model.Idx Model.PackParse Proofs.C09 Proofs.C08.
Import ListNotations.
Local Open Scope N_scope.

Section Unique.
Variable hs : nat.
Variable Hsz : nat -> bytes -> bytes.
Variable inflate : bytes -> option (bytes * N).
Variable crc32 : bytes -> N.

Notation obj_id := (obj_id hs Hsz).
Notation Resolves := (Resolves hs Hsz).

(* ---- the scanner's offsets are distinct ---- *)
Lemma scan_entries_offsets : forall fuel pack count idx pos acc es end_,
  (forall e, In e acc -> oh_off e < pos) -> NoDup (map oh_off acc) ->
  scan_entries hs Hsz inflate crc32 fuel pack count idx pos acc = Some (es, end_) ->
  NoDup (map oh_off es).
Proof.
  induction fuel as [|f IH]; intros pack count idx pos acc es end_ Hlt Hnd E; cbn [scan_entries] in E; [discriminate|].
  destruct (count <=? idx).
  - inversion E; subst. rewrite map_rev. now apply NoDup_rev.
  - destruct (PackParse.scan_entry hs Hsz inflate crc32 pack pos (skipn (N.to_nat pos) pack)) as [[oh next]|] eqn:Ee; [|discriminate].
    destruct (next <=? pos) eqn:En; [discriminate|].
    apply (scan_entry_ok hs Hsz inflate crc32) in Ee. destruct Ee as [_ Eo].
    eapply IH; [| |exact E].
    + intros e [<-|He]; [lia|]. specialize (Hlt e He). lia.
    + cbn [map]. constructor; [|exact Hnd]. intros Hin. apply in_map_iff in Hin.
      destruct Hin as (e & Ee' & He). specialize (Hlt e He). lia.
Qed.

Theorem scan_pack_offsets pack es sum :
  scan_pack hs Hsz inflate crc32 pack = Some (es, sum) -> NoDup (map oh_off es).
Proof.
  unfold scan_pack. intros E.
  destruct (take 4 pack) as [[sg r1]|]; [|discriminate].
  destruct (negb (bytes_eqb sg PACK_SIG)); [discriminate|].
  destruct (take 4 r1) as [[vb r2]|]; [|discriminate].
  destruct (negb (get32 vb =? PACK_VERSION)); [discriminate|].
  destruct (take 4 r2) as [[qb r3]|]; [|discriminate].
  destruct (scan_entries hs Hsz inflate crc32 _ pack (get32 qb) 0 12 []) as [[es' pos]|] eqn:Ee; [|discriminate].
  destruct (take (N.of_nat hs) (skipn (N.to_nat pos) pack)) as [[sm r4]|]; [|discriminate].
  destruct (bytes_eqb sm (Hsz hs (firstn (N.to_nat pos) pack))); [|discriminate].
  inversion E; subst; clear E.
  eapply scan_entries_offsets; [| |exact Ee]; [intros e []|constructor].
Qed.

(* ---- functionality ---- *)

Lemma same_offset es e e' :
  NoDup (map oh_off es) -> In e es -> In e' es -> oh_off e = oh_off e' -> e = e'.
Proof.
  induction es as [|x es IH]; intros Hnd He He' Eo; [contradiction|].
  cbn [map] in Hnd. inversion Hnd as [|? ? Hn Hnd']; subst.
  destruct He as [<-|He]; destruct He' as [<-|He']; auto.
  - exfalso. apply Hn. rewrite Eo. now apply in_map.
  - exfalso. apply Hn. rewrite <- Eo. now apply in_map.
Qed.

(* objects of this pack and of the store *)
Definition known (es : list ohdr) (ext : store) (t : otype) (c : bytes) : Prop :=
  (exists off d, Resolves es ext off t c d) \/ (exists id, store_get ext id = Some (t, c)).

(* no two of them share an id *)
Definition no_collision (es : list ohdr) (ext : store) : Prop :=
  forall t c t' c', known es ext t c -> known es ext t' c' ->
    obj_id t (blen c) c = obj_id t' (blen c') c' -> t = t' /\ c = c'.

(* the store files every object under its own id *)
Definition store_ok (ext : store) : Prop :=
  forall id t c, store_get ext id = Some (t, c) -> obj_id t (blen c) c = id.

(* content first: REF deltas find their base by id, so its depth is not yet determined *)
Lemma resolves_content es ext :
  NoDup (map oh_off es) -> store_ok ext -> no_collision es ext ->
  forall off t c d, Resolves es ext off t c d ->
  forall t' c' d', Resolves es ext off t' c' d' -> t = t' /\ c = c'.
Proof.
  intros Hnd Hst Hnc off t c d R.
  induction R as [e He Hb | e t c d tsz out He Ht Rb IH Ha | e boff t c d tsz out He Ht Rb IH Hid Ha | e t c tsz out He Ht Hg Ha];
    intros t' c' d' R'.
  - inversion R' as [e' He' Hb' Eo | e' t2 c2 d2 tsz2 out2 He' Ht' Rb' Ha' Eo | e' boff2 t2 c2 d2 tsz2 out2 He' Ht' Rb' Hid' Ha' Eo | e' t2 c2 tsz2 out2 He' Ht' Hg' Ha' Eo];
      subst; pose proof (same_offset es e' e Hnd He' He Eo) as ->; auto;
      rewrite Ht' in Hb; discriminate.
  - inversion R' as [e' He' Hb' Eo | e' t2 c2 d2 tsz2 out2 He' Ht' Rb' Ha' Eo | e' boff2 t2 c2 d2 tsz2 out2 He' Ht' Rb' Hid' Ha' Eo | e' t2 c2 tsz2 out2 He' Ht' Hg' Ha' Eo];
      subst; pose proof (same_offset es e' e Hnd He' He Eo) as ->; try congruence.
    + rewrite Ht in Hb'. discriminate.
    + destruct (IH _ _ _ Rb') as [-> ->]. rewrite Ha in Ha'. inversion Ha'. auto.
  - inversion R' as [e' He' Hb' Eo | e' t2 c2 d2 tsz2 out2 He' Ht' Rb' Ha' Eo | e' boff2 t2 c2 d2 tsz2 out2 He' Ht' Rb' Hid' Ha' Eo | e' t2 c2 tsz2 out2 He' Ht' Hg' Ha' Eo];
      subst; pose proof (same_offset es e' e Hnd He' He Eo) as ->; try congruence.
    + rewrite Ht in Hb'. discriminate.
    + destruct (Hnc t c t' c2) as [-> ->]; [left; eauto|left; eauto|congruence|].
      rewrite Ha in Ha'. inversion Ha'. auto.
    + destruct (Hnc t c t' c2) as [-> ->]; [left; eauto|right; eauto|rewrite (Hst _ _ _ Hg'); exact Hid|].
      rewrite Ha in Ha'. inversion Ha'. auto.
  - inversion R' as [e' He' Hb' Eo | e' t2 c2 d2 tsz2 out2 He' Ht' Rb' Ha' Eo | e' boff2 t2 c2 d2 tsz2 out2 He' Ht' Rb' Hid' Ha' Eo | e' t2 c2 tsz2 out2 He' Ht' Hg' Ha' Eo];
      subst; pose proof (same_offset es e' e Hnd He' He Eo) as ->; try congruence.
    + rewrite Ht in Hb'. discriminate.
    + destruct (Hnc t c t' c2) as [-> ->]; [right; eauto|left; eauto|rewrite (Hst _ _ _ Hg); now rewrite Hid'|].
      rewrite Ha in Ha'. inversion Ha'. auto.
    + rewrite Hg in Hg'. inversion Hg'; subst. rewrite Ha in Ha'. inversion Ha'. auto.
Qed.

Theorem resolves_functional es ext :
  NoDup (map oh_off es) -> store_ok ext -> no_collision es ext ->
  forall off t c d, Resolves es ext off t c d ->
  forall t' c' d', Resolves es ext off t' c' d' -> t = t' /\ c = c'.
Proof. exact (resolves_content es ext). Qed.

(* ---- the depth boundary ---- *)

(* the entry a resolved offset belongs to *)
Lemma resolves_entry es ext off t c d : Resolves es ext off t c d -> exists e, In e es /\ oh_off e = off.
Proof. intros R; inversion R; subst; eauto. Qed.

(* the chain under an OFS-only offset has one length: for chains made of OFS links (what git writes
   by default) no assumption on ids is needed *)
Inductive OfsChain (es : list ohdr) : N -> N -> Prop :=
| C_base e : In e es -> is_delta (oh_type e) = false -> OfsChain es (oh_off e) 0
| C_ofs e d : In e es -> oh_type e = TOfs -> OfsChain es (oh_base_off e) d -> OfsChain es (oh_off e) (d + 1).

Lemma ofs_chain_depth es ext : NoDup (map oh_off es) ->
  forall off n, OfsChain es off n -> forall t c d, Resolves es ext off t c d -> d = n.
Proof.
  intros Hnd off n C. induction C as [e He Hb | e n He Ht C IH]; intros t c d R.
  - inversion R as [e' He' Hb' Eo | e' t2 c2 d2 tsz2 out2 He' Ht' Rb' Ha' Eo | e' boff2 t2 c2 d2 tsz2 out2 He' Ht' Rb' Hid' Ha' Eo | e' t2 c2 tsz2 out2 He' Ht' Hg' Ha' Eo];
      subst; pose proof (same_offset es e' e Hnd He' He Eo) as ->; auto; rewrite Ht' in Hb; discriminate.
  - inversion R as [e' He' Hb' Eo | e' t2 c2 d2 tsz2 out2 He' Ht' Rb' Ha' Eo | e' boff2 t2 c2 d2 tsz2 out2 He' Ht' Rb' Hid' Ha' Eo | e' t2 c2 tsz2 out2 He' Ht' Hg' Ha' Eo];
      subst; pose proof (same_offset es e' e Hnd He' He Eo) as ->; try congruence.
    + rewrite Ht in Hb'. discriminate.
    + f_equal. eapply IH; eauto.
Qed.

(* accepted packs: every object's recorded depth is within the bound, so an offset whose chain is longer
   cannot belong to an accepted pack *)
Theorem deep_chain_rejected ext pack es sum off n :
  scan_pack hs Hsz inflate crc32 pack = Some (es, sum) ->
  OfsChain es off n -> MAX_DEPTH < n ->
  parse hs Hsz inflate crc32 ext pack = None.
Proof.
  intros Es C Hn. destruct (parse hs Hsz inflate crc32 ext pack) as [[objs sm]|] eqn:Ep; [|reflexivity]. exfalso.
  pose proof (scan_pack_offsets _ _ _ Es) as Hnd.
  unfold parse in Ep. rewrite Es in Ep.
  destruct (resolve hs Hsz ext es) as [s|] eqn:Er; [|discriminate].
  assert (He : exists e, In e es /\ oh_off e = off) by (inversion C; subst; eauto).
  destruct He as (e & He & Eo).
  destruct (resolve_complete hs Hsz ext es s Er e He) as (o & Ho & Eoff).
  pose proof (scan_pack_wellformed hs Hsz inflate crc32 pack es sum Es) as (_ & _ & Hok & _).
  destruct (resolve_inv hs Hsz inflate crc32 ext es s Hok Er) as [Ig _].
  rewrite Forall_forall in Ig. destruct (Ig o Ho) as (_ & _ & Hd & R).
  rewrite Eoff, Eo in R. pose proof (ofs_chain_depth es ext Hnd off n C _ _ _ R) as E. lia.
Qed.

(* one link: with the parent at depth pd the delta is taken iff pd + 1 <= maxDeltaChainDepth
   (so the link that completes a chain of exactly maxDeltaChainDepth is taken, the next one is not) *)
Lemma process_delta_ofs_depth ext s d p :
  oh_type d = TOfs -> by_offset s (oh_base_off d) = Some p ->
  (MAX_DEPTH < r_depth p + 1 -> process_delta hs Hsz ext s d = None) /\
  (r_depth p + 1 <= MAX_DEPTH -> oh_data d <> [] ->
   forall tsz out, apply_delta (r_content p) (oh_data d) = Some (tsz, out) ->
   exists s' o, process_delta hs Hsz ext s d = Some s' /\ by_offset s' (oh_off d) = Some o /\
                r_depth o = r_depth p + 1 /\ r_content o = out).
Proof.
  intros Ht Ep. unfold process_delta. rewrite Ht, Ep, (chain_depth_spec hs Hsz). split.
  - intros Hd. replace (r_depth p + 1 <=? MAX_DEPTH) with false by lia. reflexivity.
  - intros Hd Hne tsz out Ea. replace (r_depth p + 1 <=? MAX_DEPTH) with true by lia.
    destruct (oh_data d) as [|x dd] eqn:Edata; [congruence|]. first [rewrite Ea | rewrite <- Edata, Ea].
    eexists. eexists. split; [reflexivity|]. unfold by_offset. cbn [p_oi find r_off].
    rewrite N.eqb_refl. repeat split; reflexivity.
Qed.

End Unique.

(* the link-by-link walk of a chain of n links (the boundary cases of the suite): accepted iff n <= maxDeltaChainDepth *)
Lemma chain_walk_from : forall n pd, pd <= MAX_DEPTH ->
  chain_walk n pd = if pd + N.of_nat n <=? MAX_DEPTH then Some (pd + N.of_nat n) else None.
Proof.
  induction n as [|n IH]; intros pd Hpd; cbn [chain_walk].
  - rewrite N.add_0_r. replace (pd <=? MAX_DEPTH) with true by lia. reflexivity.
  - rewrite (chain_depth_spec 0%nat (fun _ b => b)). destruct (pd + 1 <=? MAX_DEPTH) eqn:E.
    + rewrite IH by lia. replace (pd + 1 + N.of_nat n) with (pd + N.of_nat (S n)) by lia. reflexivity.
    + replace (pd + N.of_nat (S n) <=? MAX_DEPTH) with false by lia. reflexivity.
Qed.

Lemma chain_walk_spec n : chain_walk n 0 = if N.of_nat n <=? MAX_DEPTH then Some (N.of_nat n) else None.
Proof. rewrite chain_walk_from by (unfold MAX_DEPTH; cbn; lia). reflexivity. Qed.
