(* Proofs/C08Unique.v — the resolution relation is a function of the pack.
   The scanner announces strictly increasing offsets; on entries with distinct offsets, a
   store that files objects under their own ids and no id collision among the objects of
   this pack and store, [Resolves] assigns at most one (type, content) to an offset. *)
From Coq Require Import List NArith ZArith Bool String Lia ZifyBool ZifyNat ZifyN.
From GoGit Require Import Base.Out Base.GoInt Model.PackBytes Model.Idx Model.PackParse Proofs.C09.
Import ListNotations.
Local Open Scope N_scope.

Section Unique.
Variable hs : nat.
Variable Hsz : nat -> bytes -> bytes.
Variable inflate : bytes -> option (bytes * N).
Variable crc32 : bytes -> N.

Notation obj_id := (obj_id hs Hsz).
Notation Resolves := (Resolves hs Hsz).

(* ---- the scanner's offsets are distinct ---- *)
Lemma scan_entries_offsets : forall fuel pack count idx pos acc es end_,
  (forall e, In e acc -> oh_off e < pos) -> NoDup (map oh_off acc) ->
  scan_entries hs Hsz inflate crc32 fuel pack count idx pos acc = Some (es, end_) ->
  NoDup (map oh_off es).
Proof.
  induction fuel as [|f IH]; intros pack count idx pos acc es end_ Hlt Hnd E; cbn [scan_entries] in E; [discriminate|].
  destruct (count <=? idx).
  - inversion E; subst. rewrite map_rev. now apply NoDup_rev.
  - destruct (PackParse.scan_entry hs Hsz inflate crc32 pack pos (skipn (N.to_nat pos) pack)) as [[oh next]|] eqn:Ee; [|discriminate].
    destruct (next <=? pos) eqn:En; [discriminate|].
    apply (scan_entry_ok hs Hsz inflate crc32) in Ee. destruct Ee as [_ Eo].
    eapply IH; [| |exact E].
    + intros e [<-|He]; [lia|]. specialize (Hlt e He). lia.
    + cbn [map]. constructor; [|exact Hnd]. intros Hin. apply in_map_iff in Hin.
      destruct Hin as (e & Ee' & He). specialize (Hlt e He). lia.
Qed.

Theorem scan_pack_offsets pack es sum :
  scan_pack hs Hsz inflate crc32 pack = Some (es, sum) -> NoDup (map oh_off es).
Proof.
  unfold scan_pack. intros E.
  destruct (take 4 pack) as [[sg r1]|]; [|discriminate].
  destruct (negb (bytes_eqb sg PACK_SIG)); [discriminate|].
  destruct (take 4 r1) as [[vb r2]|]; [|discriminate].
  destruct (negb (get32 vb =? PACK_VERSION)); [discriminate|].
  destruct (take 4 r2) as [[qb r3]|]; [|discriminate].
  destruct (scan_entries hs Hsz inflate crc32 _ pack (get32 qb) 0 12 []) as [[es' pos]|] eqn:Ee; [|discriminate].
  destruct (take (N.of_nat hs) (skipn (N.to_nat pos) pack)) as [[sm r4]|]; [|discriminate].
  destruct (bytes_eqb sm (Hsz hs (firstn (N.to_nat pos) pack))); [|discriminate].
  inversion E; subst; clear E.
  eapply scan_entries_offsets; [| |exact Ee]; [intros e []|constructor].
Qed.

(* ---- functionality ---- *)

Lemma same_offset es e e' :
  NoDup (map oh_off es) -> In e es -> In e' es -> oh_off e = oh_off e' -> e = e'.
Proof.
  induction es as [|x es IH]; intros Hnd He He' Eo; [contradiction|].
  cbn [map] in Hnd. inversion Hnd as [|? ? Hn Hnd']; subst.
  destruct He as [<-|He]; destruct He' as [<-|He']; auto.
  - exfalso. apply Hn. rewrite Eo. now apply in_map.
  - exfalso. apply Hn. rewrite <- Eo. now apply in_map.
Qed.

(* objects of this pack and of the store *)
Definition known (es : list ohdr) (ext : store) (t : otype) (c : bytes) : Prop :=
  (exists off, Resolves es ext off t c) \/ (exists id, store_get ext id = Some (t, c)).

(* no two of them share an id *)
Definition no_collision (es : list ohdr) (ext : store) : Prop :=
  forall t c t' c', known es ext t c -> known es ext t' c' ->
    obj_id t (blen c) c = obj_id t' (blen c') c' -> t = t' /\ c = c'.

(* the store files every object under its own id *)
Definition store_ok (ext : store) : Prop :=
  forall id t c, store_get ext id = Some (t, c) -> obj_id t (blen c) c = id.

Theorem resolves_functional es ext :
  NoDup (map oh_off es) -> store_ok ext -> no_collision es ext ->
  forall off t c, Resolves es ext off t c ->
  forall t' c', Resolves es ext off t' c' -> t = t' /\ c = c'.
Proof.
  intros Hnd Hst Hnc off t c R.
  induction R as [e He Hb | e t c tsz out He Ht Rb IH Ha | e boff t c tsz out He Ht Rb IH Hid Ha | e t c tsz out He Ht Hg Ha];
    intros t' c' R'.
  - (* base *)
    inversion R' as [e' He' Hb' Eo | e' t2 c2 tsz2 out2 He' Ht' Rb' Ha' Eo | e' boff2 t2 c2 tsz2 out2 He' Ht' Rb' Hid' Ha' Eo | e' t2 c2 tsz2 out2 He' Ht' Hg' Ha' Eo];
      subst; pose proof (same_offset es e' e Hnd He' He Eo) as ->; auto;
      rewrite Ht' in Hb; discriminate.
  - (* OFS delta *)
    inversion R' as [e' He' Hb' Eo | e' t2 c2 tsz2 out2 He' Ht' Rb' Ha' Eo | e' boff2 t2 c2 tsz2 out2 He' Ht' Rb' Hid' Ha' Eo | e' t2 c2 tsz2 out2 He' Ht' Hg' Ha' Eo];
      subst; pose proof (same_offset es e' e Hnd He' He Eo) as ->; try congruence.
    + rewrite Ht in Hb'. discriminate.
    + destruct (IH _ _ Rb') as [-> ->]. rewrite Ha in Ha'. inversion Ha'. auto.
  - (* REF delta, base in the pack *)
    inversion R' as [e' He' Hb' Eo | e' t2 c2 tsz2 out2 He' Ht' Rb' Ha' Eo | e' boff2 t2 c2 tsz2 out2 He' Ht' Rb' Hid' Ha' Eo | e' t2 c2 tsz2 out2 He' Ht' Hg' Ha' Eo];
      subst; pose proof (same_offset es e' e Hnd He' He Eo) as ->; try congruence.
    + rewrite Ht in Hb'. discriminate.
    + destruct (Hnc t c t' c2) as [-> ->]; [left; eauto|left; eauto|congruence|].
      rewrite Ha in Ha'. inversion Ha'. auto.
    + destruct (Hnc t c t' c2) as [-> ->]; [left; eauto|right; eauto|rewrite (Hst _ _ _ Hg'); exact Hid|].
      rewrite Ha in Ha'. inversion Ha'. auto.
  - (* REF delta, base in the store *)
    inversion R' as [e' He' Hb' Eo | e' t2 c2 tsz2 out2 He' Ht' Rb' Ha' Eo | e' boff2 t2 c2 tsz2 out2 He' Ht' Rb' Hid' Ha' Eo | e' t2 c2 tsz2 out2 He' Ht' Hg' Ha' Eo];
      subst; pose proof (same_offset es e' e Hnd He' He Eo) as ->; try congruence.
    + rewrite Ht in Hb'. discriminate.
    + destruct (Hnc t c t' c2) as [-> ->]; [right; eauto|left; eauto|rewrite (Hst _ _ _ Hg); now rewrite Hid'|].
      rewrite Ha in Ha'. inversion Ha'. auto.
    + rewrite Hg in Hg'. inversion Hg'; subst. rewrite Ha in Ha'. inversion Ha'. auto.
Qed.

End Unique.
