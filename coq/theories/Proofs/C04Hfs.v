(* Proofs/C04Hfs.v — go-git's pathutil.IsHFSDot is git's is_hfs_dot_generic on
   well-formed UTF-8 (and differs exactly on a malformed tail). *)
From Coq Require Import List NArith ZArith Bool Lia ZifyBool ZifyNat ZifyN.
From GoGit Require Import Base.Out Gen.C04 Model.TreeObj Spec.GitTree Proofs.C04 Proofs.C04Utf8.
Import ListNotations.
Local Open Scope N_scope.

(* asciiToLower (regenerated from the Go source) is C's tolower on a byte *)
Lemma lower_c c : lower c = c_tolower c.
Proof.
  unfold lower, pathutil_asciiToLower, c_tolower, Base.GoInt.wrapu.
  destruct ((Z.of_N c >=? 65)%Z && (Z.of_N c <=? 90)%Z) eqn:E.
  - assert (E' : (65 <=? c) && (c <=? 90) = true) by lia. rewrite E'.
    rewrite Z.mod_small by (change (2 ^ 8)%Z with 256%Z; lia). lia.
  - assert (E' : (65 <=? c) && (c <=? 90) = false) by lia. rewrite E'. lia.
Qed.

(* ================================================================ skip_ign *)
Lemma skip_ign_eq s : skip_ign s =
  match s with a :: b :: c :: r => if is_ign a b c then skip_ign r else s | _ => s end.
Proof. destruct s as [|a [|b [|c r]]]; reflexivity. Qed.

Lemma skip_ign_stop s : head_ign s = false -> skip_ign s = s.
Proof. rewrite skip_ign_eq. destruct s as [|a [|b [|c r]]]; try reflexivity. cbn [head_ign]. now intros ->. Qed.

(* skip_ign s is a suffix of s whose head is not an ignored triple; is_bytes,
   wf_utf8 and the absence of a byte carry over *)
Lemma skip_ign_props : forall n s, (List.length s <= n)%nat ->
  head_ign (skip_ign s) = false /\
  (is_bytes s = true -> is_bytes (skip_ign s) = true) /\
  (wf_utf8 s = true -> wf_utf8 (skip_ign s) = true) /\
  (forall x, tlacks x s = true -> tlacks x (skip_ign s) = true) /\
  (List.length (skip_ign s) <= List.length s)%nat.
Proof.
  induction n as [|n IH]; intros s L.
  - destruct s; [|cbn in L; lia]. cbn. repeat split; auto.
  - rewrite skip_ign_eq. destruct s as [|a [|b [|c r]]]; try (cbn; repeat split; auto; fail).
    destruct (is_ign a b c) eqn:I.
    + cbn [List.length] in L. destruct (IH r ltac:(lia)) as (H1 & H2 & H3 & H4 & H5).
      split; [exact H1|]. split; [|split; [|split]].
      * intros B. apply H2. apply is_bytes_cons in B as [_ B]. apply is_bytes_cons in B as [_ B].
        now apply is_bytes_cons in B as [_ B].
      * intros W. apply H3. now rewrite (wf_utf8_ign a b c r I) in W.
      * intros x T. apply H4. unfold tlacks in *. cbn [forallb] in T.
        apply andb_true_iff in T as [_ T]. apply andb_true_iff in T as [_ T]. now apply andb_true_iff in T as [_ T].
      * cbn [List.length]. lia.
    + repeat split; auto.
Qed.

(* ================================================================ next_hfs = classify (skip_ign s) *)
Lemma pick_utf8_not_ign s : is_bytes s = true -> head_ign s = false -> fst (pick_utf8 s) <> UIgnored.
Proof.
  intros HB HI. destruct s as [|a r]; [cbn; discriminate|].
  destruct (a <? 128) eqn:A.
  - rewrite (pick_utf8_ascii a r ltac:(lia)). discriminate.
  - destruct (pick_utf8_high a r HB ltac:(lia) HI) as [[-> _]|(n & -> & _)]; discriminate.
Qed.

Lemma next_hfs_stop f s : is_bytes s = true -> head_ign s = false ->
  next_hfs (S f) s = (fst (pick_utf8 s), skipn (snd (pick_utf8 s)) s).
Proof.
  intros HB HI. pose proof (pick_utf8_not_ign s HB HI) as N. cbn [next_hfs].
  destruct (pick_utf8 s) as [[] n]; try reflexivity. now elim N.
Qed.

Lemma next_hfs_skip : forall fuel s, (List.length s < fuel)%nat -> is_bytes s = true ->
  next_hfs fuel s = (fst (pick_utf8 (skip_ign s)), skipn (snd (pick_utf8 (skip_ign s))) (skip_ign s)).
Proof.
  induction fuel as [|f IH]; intros s L HB; [lia|].
  destruct (head_ign s) eqn:HI.
  - destruct s as [|a [|b [|c r]]]; try discriminate. cbn [head_ign] in HI.
    rewrite skip_ign_eq, HI. cbn [next_hfs]. rewrite (pick_utf8_ign a b c r HI). cbn [skipn].
    apply IH; [cbn [List.length] in L; lia|].
    apply is_bytes_cons in HB as [_ HB]. apply is_bytes_cons in HB as [_ HB]. now apply is_bytes_cons in HB as [_ HB].
  - rewrite (skip_ign_stop s HI). now apply next_hfs_stop.
Qed.

(* what git's next_hfs_char returns, in terms of go-git's view of the string *)
Lemma next_hfs_class s : is_bytes s = true ->
  match skip_ign s with
  | [] => next_hfs (S (List.length s)) s = (UEnd, [])
  | c :: r =>
    if c <? 128 then next_hfs (S (List.length s)) s = (UAscii c, r)
    else (exists r', next_hfs (S (List.length s)) s = (UInvalid, r') /\ pick_cp (c :: r) = PInvalid) \/
         (exists r', next_hfs (S (List.length s)) s = (UOther, r'))
  end.
Proof.
  intros HB. rewrite (next_hfs_skip _ s (Nat.lt_succ_diag_r _) HB).
  destruct (skip_ign_props _ s (Nat.le_refl _)) as (HI & HB' & _). specialize (HB' HB).
  destruct (skip_ign s) as [|c r]; [reflexivity|].
  destruct (c <? 128) eqn:A.
  - rewrite (pick_utf8_ascii c r ltac:(lia)). reflexivity.
  - destruct (pick_utf8_high c r HB' ltac:(lia) HI) as [[-> P]|(n & -> & _)]; cbn [fst snd].
    + left. eexists. split; [reflexivity|exact P].
    + right. eexists. reflexivity.
Qed.

(* ================================================================ the needle loop *)
Lemma tlacks_cons x c s : tlacks x (c :: s) = true <-> c <> x /\ tlacks x s = true.
Proof. unfold tlacks. cbn [forallb]. rewrite andb_true_iff. split; intros [A B]; split; auto; lia. Qed.

Lemma hfs_needle_eq : forall ns fuel s,
  (List.length ns < fuel)%nat -> is_bytes s = true -> wf_utf8 s = true -> tlacks 0 s = true -> tlacks 47 s = true ->
  hfs_needle fuel s ns = hfs_needle_git s ns.
Proof.
  induction ns as [|e ns IH]; intros fuel s L HB HW H0 H47; (destruct fuel as [|f]; [cbn in L; lia|]).
  - cbn [hfs_needle hfs_needle_git]. pose proof (next_hfs_class s HB) as C.
    destruct (skip_ign_props _ s (Nat.le_refl _)) as (_ & _ & W & T & _).
    specialize (W HW). pose proof (T 0 H0) as T0. pose proof (T 47 H47) as T47.
    destruct (skip_ign s) as [|c r]; [now rewrite C|].
    apply tlacks_cons in T0 as [C0 _]. apply tlacks_cons in T47 as [C47 _].
    destruct (c <? 128).
    + rewrite C. lia.
    + destruct C as [(r' & -> & P)|(r' & ->)]; [|reflexivity]. now apply wf_utf8_valid in W.
  - cbn [hfs_needle hfs_needle_git]. pose proof (next_hfs_class s HB) as C.
    destruct (skip_ign_props _ s (Nat.le_refl _)) as (_ & B & W & T & _).
    specialize (B HB). specialize (W HW). pose proof (T 0 H0) as T0. pose proof (T 47 H47) as T47.
    destruct (skip_ign s) as [|c r]; [now rewrite C|].
    apply tlacks_cons in T0 as [_ T0]. apply tlacks_cons in T47 as [_ T47].
    apply is_bytes_cons in B as [Bc B].
    destruct (c <? 128) eqn:A.
    + rewrite C. rewrite (lower_c c). rewrite (wf_utf8_ascii c r ltac:(lia)) in W.
      cbn [andb]. rewrite (IH f r); auto. cbn [List.length] in L. lia.
    + cbn [andb]. destruct C as [(r' & -> & _)|(r' & ->)]; reflexivity.
Qed.

(* the needle loop without the well-formedness hypothesis: the two sides can
   only differ by git saying yes *)
Lemma hfs_needle_le : forall ns fuel s,
  (List.length ns < fuel)%nat -> is_bytes s = true ->
  hfs_needle fuel s ns = true -> hfs_needle_git s ns = true.
Proof.
  induction ns as [|e ns IH]; intros fuel s L HB; (destruct fuel as [|f]; [cbn in L; lia|]).
  - cbn [hfs_needle hfs_needle_git]. pose proof (next_hfs_class s HB) as C.
    destruct (skip_ign s) as [|c r]; [now rewrite C|discriminate].
  - cbn [hfs_needle hfs_needle_git]. pose proof (next_hfs_class s HB) as C.
    destruct (skip_ign_props _ s (Nat.le_refl _)) as (_ & B & _). specialize (B HB).
    destruct (skip_ign s) as [|c r]; [discriminate|]. apply is_bytes_cons in B as [Bc B].
    destruct (c <? 128) eqn:A; [|discriminate]. rewrite C, (lower_c c). cbn [andb].
    intros H. apply andb_true_iff in H as [H1 H2]. rewrite H1. cbn [andb]. apply (IH f r); auto. cbn [List.length] in L. lia.
Qed.

(* ================================================================ IsHFSDot = is_hfs_dot_generic *)
Lemma hfs_dot_eq_git name needle :
  is_bytes name = true -> wf_utf8 name = true -> tlacks 0 name = true -> tlacks 47 name = true ->
  is_hfs_dot name needle = git_is_hfs_dot name needle.
Proof.
  intros HB HW H0 H47. unfold is_hfs_dot, git_is_hfs_dot. pose proof (next_hfs_class name HB) as C.
  destruct (skip_ign_props _ name (Nat.le_refl _)) as (_ & B & W & T & _).
  specialize (B HB). specialize (W HW). pose proof (T 0 H0) as T0. pose proof (T 47 H47) as T47.
  destruct (skip_ign name) as [|c r]; [now rewrite C|].
  apply tlacks_cons in T0 as [_ T0]. apply tlacks_cons in T47 as [_ T47]. apply is_bytes_cons in B as [Bc B].
  destruct (c <? 128) eqn:A.
  - rewrite C. rewrite (wf_utf8_ascii c r ltac:(lia)) in W.
    destruct (c =? 46); [|reflexivity]. cbn [andb]. apply hfs_needle_eq; auto.
  - assert (E : (c =? 46) = false) by lia. rewrite E. cbn [andb].
    destruct C as [(r' & -> & _)|(r' & ->)]; reflexivity.
Qed.

(* without well-formedness go-git's detector is still included in git's *)
Lemma hfs_dot_le_git name needle :
  is_bytes name = true -> is_hfs_dot name needle = true -> git_is_hfs_dot name needle = true.
Proof.
  intros HB. unfold is_hfs_dot, git_is_hfs_dot. pose proof (next_hfs_class name HB) as C.
  destruct (skip_ign_props _ name (Nat.le_refl _)) as (_ & B & _). specialize (B HB).
  destruct (skip_ign name) as [|c r]; [discriminate|]. apply is_bytes_cons in B as [Bc B].
  intros H. apply andb_true_iff in H as [H1 H2].
  assert (A : (c <? 128) = true) by lia. rewrite A in C. rewrite C, H1. cbn [andb].
  apply (hfs_needle_le needle (S (List.length needle)) r); auto.
Qed.

(* well-formedness only matters for names that start like a dot-file *)
Lemma git_hfs_no_head name needle : git_hfs_head name = false -> git_is_hfs_dot name needle = false.
Proof.
  unfold git_hfs_head, git_is_hfs_dot. destruct (next_hfs (S (List.length name)) name) as [[| |c| |] r]; try reflexivity.
  now intros ->.
Qed.

Lemma hfs_dot_eq_git2 name needle :
  is_bytes name = true -> utf8_guard name = true -> tlacks 0 name = true -> tlacks 47 name = true ->
  is_hfs_dot name needle = git_is_hfs_dot name needle.
Proof.
  intros HB G H0 H47. unfold utf8_guard in G. destruct (wf_utf8 name) eqn:W; [now apply hfs_dot_eq_git|].
  cbn [orb] in G. apply negb_true_iff in G. rewrite (git_hfs_no_head name needle G).
  destruct (is_hfs_dot name needle) eqn:E; [|reflexivity].
  apply (hfs_dot_le_git name needle HB) in E. now rewrite (git_hfs_no_head name needle G) in E.
Qed.

Lemma wf_utf8_guard name : wf_utf8 name = true -> utf8_guard name = true.
Proof. unfold utf8_guard. now intros ->. Qed.

(* the malformed tails on which the two differ (known finding hfs-dotgit-malformed-tail) *)
Lemma hfs_dot_malformed :
  let ff := [46; 103; 105; 116; 255] in
  let fffe := [46; 103; 105; 116; 239; 191; 190] in
  (wf_utf8 ff = false /\ is_hfs_dot ff N_git = false /\ git_is_hfs_dot ff N_git = true) /\
  (wf_utf8 fffe = false /\ is_hfs_dot fffe N_git = false /\ git_is_hfs_dot fffe N_git = true).
Proof. vm_compute. repeat split. Qed.
