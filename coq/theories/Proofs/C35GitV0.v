(* Proofs/C35GitV0.v — go-git's upload-request is in git's documented grammar
   (Spec/GitProto.v git_ulreq) and means the request. *)
From Coq Require Import List Arith NArith ZArith Bool Lia String.
From GoGit Require Import Base.Out Base.GoInt Gen.C34 Model.PktLine Model.C35Utf8 Model.Packp Spec.GitProto
  Proofs.C34Pkt Proofs.C35Base Proofs.C35Utf8 Proofs.C35U Proofs.C35Msgs Proofs.C35Caps Proofs.C35Dec Proofs.C35Adv Proofs.C35Ul
  Proofs.C35Git.
Import ListNotations.

(* ---------- the capability words ---------- *)
Lemma filter_nonempty_id (l : list bytes) : Forall (fun t => t <> []) l ->
  filter (fun w => negb (Nat.eqb (List.length w) 0)) l = l.
Proof.
  induction 1 as [|t l Ht Hl IH]; [reflexivity|]. cbn [filter]. destruct t as [|c t]; [contradiction|]. cbn. now rewrite IH.
Qed.

Lemma cap_words_encode l : caps_ok l = true -> cap_words (cap_encode l) = cap_tokens l.
Proof.
  unfold caps_ok. intros H. apply andb_prop in H. destruct H as [H1 _]. pose proof (tokens_props l H1) as Ht.
  unfold cap_words, cap_encode. destruct (cap_tokens l) as [|t0 toks] eqn:E; [reflexivity|]. rewrite <- E in *.
  rewrite split_join.
  - apply filter_nonempty_id. eapply Forall_impl; [|exact Ht]. intros t [Hne _]. exact Hne.
  - rewrite E. discriminate.
  - apply forallb_forall. intros t Hin. rewrite Forall_forall in Ht. destruct (Ht t Hin) as [_ Htt].
    unfold no_byte. rewrite forallb_forall in *. intros x Hx. destruct (tokc_facts _ (Htt x Hx)) as [_ ->]. reflexivity.
Qed.

(* ---------- the lines after the first want ---------- *)
Definition gset_wants u v := mkgulreq (gu_caps u) v (gu_shallows u) (gu_deepen u) (gu_since u) (gu_not u) (gu_filter u).
Definition gset_shallows u v := mkgulreq (gu_caps u) (gu_wants u) v (gu_deepen u) (gu_since u) (gu_not u) (gu_filter u).

Lemma git_ul_step hexsz p r phase u : r <> [] ->
  git_ul_lines hexsz (PData p :: r) phase u =
    (let line := chomp p in
    if has_prefix (B "want ") line then
      if Nat.ltb 0 phase then None
      else match git_oid hexsz (skipn 5 line) with
      | Some h => git_ul_lines hexsz r 0 (mkgulreq (gu_caps u) (gu_wants u ++ [h]) (gu_shallows u) (gu_deepen u) (gu_since u) (gu_not u) (gu_filter u))
      | None => None
      end
    else if has_prefix (B "shallow ") line then
      if Nat.ltb 1 phase then None
      else match git_oid hexsz (skipn 8 line) with
      | Some h => git_ul_lines hexsz r 1 (mkgulreq (gu_caps u) (gu_wants u) (gu_shallows u ++ [h]) (gu_deepen u) (gu_since u) (gu_not u) (gu_filter u))
      | None => None
      end
    else if has_prefix (B "deepen ") line then
      if Nat.ltb 2 phase then None
      else match git_number (skipn 7 line), gu_deepen u, gu_since u, gu_not u with
      | Some n, None, None, [] =>
        if (0 <? n)%Z && (n <? 2 ^ 31)%Z
        then git_ul_lines hexsz r 2 (mkgulreq (gu_caps u) (gu_wants u) (gu_shallows u) (Some n) None [] (gu_filter u))
        else None
      | _, _, _, _ => None
      end
    else if has_prefix (B "deepen-since ") line then
      if Nat.ltb 2 phase then None
      else match git_number (skipn 13 line), gu_deepen u, gu_since u with
      | Some t, None, None =>
        if (0 <? t)%Z && (t <? 2 ^ 63)%Z
        then git_ul_lines hexsz r 2 (mkgulreq (gu_caps u) (gu_wants u) (gu_shallows u) None (Some t) (gu_not u) (gu_filter u))
        else None
      | _, _, _ => None
      end
    else if has_prefix (B "deepen-not ") line then
      if Nat.ltb 2 phase then None
      else match skipn 11 line, gu_deepen u with
      | c :: ref, None => git_ul_lines hexsz r 2 (mkgulreq (gu_caps u) (gu_wants u) (gu_shallows u) None (gu_since u) (gu_not u ++ [c :: ref]) (gu_filter u))
      | _, _ => None
      end
    else if has_prefix (B "filter ") line then
      if Nat.ltb 2 phase then None
      else match skipn 7 line with
      | c :: spec => git_ul_lines hexsz r 3 (mkgulreq (gu_caps u) (gu_wants u) (gu_shallows u) (gu_deepen u) (gu_since u) (gu_not u) (Some (c :: spec)))
      | [] => None
      end
    else None).
Proof. intros H. destruct r; [contradiction|reflexivity]. Qed.

Lemma git_ul_wants hexsz : forall hs rest u, rest <> [] -> forallb (sized hexsz) hs = true ->
  git_ul_lines hexsz (map (fun h => PData (B "want " ++ hash_str h ++ [NL])) hs ++ rest) 0 u
  = git_ul_lines hexsz rest 0 (gset_wants u (gu_wants u ++ hs)).
Proof.
  induction hs as [|h hs IH]; intros rest u Hr H.
  - cbn [map app]. rewrite app_nil_r. destruct u; reflexivity.
  - cbn [forallb] in H. apply andb_prop in H. destruct H as [H1 H2]. cbn [map app].
    rewrite git_ul_step by (destruct hs; [exact Hr|discriminate]). cbv zeta.
    change (B "want " ++ hash_str h ++ [NL]) with ((B "want " ++ hash_str h) ++ [NL]). rewrite chomp_app, has_prefix_app.
    cbn [Nat.ltb Nat.leb]. rewrite (skipn_app_exact (B "want ") (hash_str h) 5 eq_refl), (git_oid_str hexsz h H1).
    rewrite (IH rest _ Hr H2). unfold gset_wants. cbn [gu_caps gu_wants gu_shallows gu_deepen gu_since gu_not gu_filter]. now rewrite <- app_assoc.
Qed.

Lemma git_ul_shallows hexsz : forall hs rest phase u, rest <> [] -> (phase <= 1)%nat -> forallb (sized hexsz) hs = true ->
  git_ul_lines hexsz (map (fun h => PData (B "shallow " ++ hash_str h ++ [NL])) hs ++ rest) phase u
  = git_ul_lines hexsz rest (match hs with [] => phase | _ => 1%nat end) (gset_shallows u (gu_shallows u ++ hs)).
Proof.
  induction hs as [|h hs IH]; intros rest phase u Hr Hp H.
  - cbn [map app]. rewrite app_nil_r. destruct u; reflexivity.
  - cbn [forallb] in H. apply andb_prop in H. destruct H as [H1 H2]. cbn [map app].
    rewrite git_ul_step by (destruct hs; [exact Hr|discriminate]). cbv zeta.
    change (B "shallow " ++ hash_str h ++ [NL]) with ((B "shallow " ++ hash_str h) ++ [NL]). rewrite chomp_app.
    change (has_prefix (B "want ") (B "shallow " ++ hash_str h)) with false. cbv iota. rewrite has_prefix_app.
    assert (Nat.ltb 1 phase = false) as -> by (destruct (Nat.ltb_spec 1 phase); [lia|reflexivity]).
    rewrite (skipn_app_exact (B "shallow ") (hash_str h) 8 eq_refl), (git_oid_str hexsz h H1).
    rewrite (IH rest 1%nat _ Hr (le_n 1) H2). unfold gset_shallows. cbn [gu_caps gu_wants gu_shallows gu_deepen gu_since gu_not gu_filter].
    rewrite <- app_assoc. destruct hs; reflexivity.
Qed.

(* decimal numbers *)
Lemma git_number_dec z : (0 <= z)%Z -> git_number (dec_bytes z) = Some z.
Proof.
  intros Hz. unfold dec_bytes, dec_of_Z. destruct z as [|p|p]; [reflexivity| |lia].
  destruct (dec_of_N_spec (N.pos p)) as (ds & <- & Hne & Hd & Hp).
  unfold git_number. destruct (bytes_of_string (dec_of_N (N.pos p))) as [|c t] eqn:E; [contradiction|].
  assert (forallb isdigit (c :: t) = true) as -> by exact Hd.
  rewrite Hp. reflexivity.
Qed.

Lemma app_ne_r {A} (a b : list A) : b <> [] -> a ++ b <> [].
Proof. intros H E. apply app_eq_nil in E. destruct E as [_ E]. contradiction. Qed.
Ltac ne_tail := repeat (match goal with |- _ ++ _ <> [] => apply app_ne_r end); discriminate.

Lemma ltb_ge_false a b : (b <= a)%nat -> Nat.ltb a b = false.
Proof. intros H. destruct (Nat.ltb_spec a b); [lia|reflexivity]. Qed.
Lemma le12 p : (p <= 1)%nat -> (p <= 2)%nat.
Proof. lia. Qed.

Lemma git_ul_flush hexsz phase u : git_ul_lines hexsz [PFlush] phase u = Some u.
Proof. reflexivity. Qed.

Lemma git_ul_nots hexsz : forall ns rest phase u, rest <> [] -> (phase <= 2)%nat -> gu_deepen u = None ->
  forallb (fun r => negb (Nat.eqb (List.length r) 0)) ns = true ->
  git_ul_lines hexsz (map (fun r => PData (B "deepen-not " ++ r ++ [NL])) ns ++ rest) phase u
  = git_ul_lines hexsz rest (match ns with [] => phase | _ => 2%nat end)
      (mkgulreq (gu_caps u) (gu_wants u) (gu_shallows u) None (gu_since u) (gu_not u ++ ns) (gu_filter u)).
Proof.
  induction ns as [|n ns IH]; intros rest phase u Hr Hp Hd H.
  - cbn [map app]. rewrite app_nil_r. destruct u as [a1 a2 a3 a4 a5 a6 a7]. cbn [gu_deepen] in Hd. subst a4. reflexivity.
  - cbn [forallb] in H. apply andb_prop in H. destruct H as [H1 H2]. cbn [map app].
    rewrite git_ul_step by (destruct ns; [exact Hr|discriminate]). cbv zeta.
    change (B "deepen-not " ++ n ++ [NL]) with ((B "deepen-not " ++ n) ++ [NL]). rewrite chomp_app.
    change (has_prefix (B "want ") (B "deepen-not " ++ n)) with false.
    change (has_prefix (B "shallow ") (B "deepen-not " ++ n)) with false.
    change (has_prefix (B "deepen ") (B "deepen-not " ++ n)) with false.
    change (has_prefix (B "deepen-since ") (B "deepen-not " ++ n)) with false. cbv iota. rewrite has_prefix_app.
    assert (Nat.ltb 2 phase = false) as -> by (destruct (Nat.ltb_spec 2 phase); [lia|reflexivity]).
    rewrite (skipn_app_exact (B "deepen-not ") n 11 eq_refl), Hd.
    destruct n as [|c n']; [discriminate|].
    rewrite (IH rest 2%nat (mkgulreq (gu_caps u) (gu_wants u) (gu_shallows u) None (gu_since u) (gu_not u ++ [c :: n']) (gu_filter u)) Hr (le_n 2) eq_refl H2).
    cbn [gu_caps gu_wants gu_shallows gu_deepen gu_since gu_not gu_filter].
    rewrite <- app_assoc. destruct ns; reflexivity.
Qed.

(* what git learns from an upload-request *)
Definition ul_abs (u : ulreq) : gulreq :=
  mkgulreq (cap_tokens (ul_caps u)) (ul_wants u) (ul_shallows u)
           (if (ul_deepen u >? 0)%Z then Some (ul_deepen u) else None) (ul_since u) (ul_not u)
           (match ul_filter u with [] => None | f => Some f end).

(* beyond ul_ok: one object format, a depth git's int holds, a positive deepen-since, non-empty deepen-not references *)
Definition ul_git_ok (hexsz : nat) (u : ulreq) : bool :=
  forallb (sized hexsz) (ul_wants u) && forallb (sized hexsz) (ul_shallows u) &&
  (ul_deepen u <? 2 ^ 31)%Z && match ul_since u with Some t => (0 <? t)%Z | None => true end &&
  forallb (fun r => negb (Nat.eqb (List.length r) 0)) (ul_not u).

Lemma sized_sorted hexsz hs : forallb (sized hexsz) hs = true -> Forall (fun h => sized hexsz h = true) (sort_hashes hs).
Proof. intros H. apply sort_by_Forall. now apply forallb_Forall. Qed.

Theorem git_ulreq_enc hexsz u : ul_ok u = true -> ul_git_ok hexsz u = true ->
  exists ps, ul_encode u = ULok ps /\ git_ulreq hexsz ps = Some (ul_abs (ul_canon u)).
Proof.
  unfold ul_ok, ul_git_ok. intros H G.
  repeat (apply andb_prop in H; let X := fresh "K" in destruct H as [H X]).
  rename K into Hex, K0 into Hsi, K1 into Hi, K2 into H0, K3 into Hsh, K4 into Hw, K5 into Hne.
  assert (caps_ok (ul_caps u) = true) as Hcaps by (unfold caps_ok; now rewrite H, K6).
  repeat (apply andb_prop in G; let X := fresh "J" in destruct G as [G X]).
  rename G into Gw, J2 into Gs, J1 into Gd, J0 into Gt, J into Gn.
  apply Z.leb_le in H0. apply Z.ltb_lt in Gd. apply negb_true_iff in Hne. apply Nat.eqb_neq in Hne.
  unfold ul_encode.
  destruct (sort_hashes (ul_wants u)) as [|w0 ws] eqn:Es.
  { apply (f_equal (@List.length hash)) in Es. unfold sort_hashes in Es. rewrite sort_by_length in Es. cbn in Es. contradiction. }
  assert (Forall (fun h => sized hexsz h = true) (w0 :: ws)) as Hws by (rewrite <- Es; now apply sized_sorted).
  pose proof (Forall_inv Hws) as Hw0. pose proof (Forall_inv_tail Hws) as Hws'.
  assert (forallb (sized hexsz) (dedup_from w0 ws) = true) as Hdw by (apply forallb_Forall, dedup_from_Forall; assumption).
  assert (forallb (sized hexsz) (dedup_from zero_hash (sort_hashes (ul_shallows u))) = true) as Hds.
  { apply forallb_Forall, dedup_from_Forall. now apply sized_sorted. }
  assert ((ul_deepen u >? 0)%Z && (match ul_since u with Some _ => true | None => false end || negb (Nat.eqb (List.length (ul_not u)) 0)) = false) as ->.
  { apply orb_prop in Hex. destruct Hex as [E|E]; [apply negb_true_iff in E; now rewrite E|].
    apply andb_prop in E. destruct E as [E1 E2]. destruct (ul_since u); [discriminate|]. rewrite E2. now rewrite andb_false_r. }
  eexists. split; [reflexivity|].
  (* the lines after the first want *)
  set (WS := map (fun h => PData (B "want " ++ hash_str h ++ [NL])) (dedup_from w0 ws)).
  set (SH := map (fun h => PData (B "shallow " ++ hash_str h ++ [NL])) (dedup_from zero_hash (sort_hashes (ul_shallows u)))).
  set (NS := map (fun r => PData (B "deepen-not " ++ r ++ [NL])) (ul_not u)).
  set (FL := match ul_filter u with [] => [] | n :: l => [PData (B "filter " ++ (n :: l) ++ [NL])] end).
  set (D1 := if (ul_deepen u >? 0)%Z then [PData (B "deepen " ++ dec_bytes (ul_deepen u) ++ [NL])] else []).
  set (D2 := match ul_since u with Some t => [PData (B "deepen-since " ++ dec_bytes t ++ [NL])] | None => [] end).
  assert (forall caps0, git_ul_lines hexsz (WS ++ SH ++ D1 ++ D2 ++ NS ++ FL ++ [PFlush]) 0 (mkgulreq caps0 [w0] [] None None [] None)
          = Some (mkgulreq caps0 (w0 :: dedup_from w0 ws) (dedup_from zero_hash (sort_hashes (ul_shallows u)))
                           (if (ul_deepen u >? 0)%Z then Some (ul_deepen u) else None) (ul_since u) (ul_not u)
                           (match ul_filter u with [] => None | f => Some f end))) as Hrest.
  { intros caps0. unfold WS. rewrite (git_ul_wants hexsz _ (SH ++ D1 ++ D2 ++ NS ++ FL ++ [PFlush]) _ ltac:(ne_tail) Hdw).
    unfold SH. rewrite (git_ul_shallows hexsz _ (D1 ++ D2 ++ NS ++ FL ++ [PFlush]) 0%nat _ ltac:(ne_tail) (Nat.le_0_l 1) Hds).
    unfold gset_wants, gset_shallows. cbn [gu_caps gu_wants gu_shallows gu_deepen gu_since gu_not gu_filter app].
    set (ph := match dedup_from zero_hash (sort_hashes (ul_shallows u)) with [] => 0%nat | _ => 1%nat end).
    assert (ph <= 1)%nat as Hph by (unfold ph; destruct (dedup_from zero_hash (sort_hashes (ul_shallows u))); [apply Nat.le_0_l|apply le_n]).
    clearbody ph.
    (* the tail: filter line, flush *)
    assert (forall phase v, (phase <= 2)%nat -> gu_filter v = None ->
              git_ul_lines hexsz (FL ++ [PFlush]) phase v
              = Some (mkgulreq (gu_caps v) (gu_wants v) (gu_shallows v) (gu_deepen v) (gu_since v) (gu_not v)
                               (match ul_filter u with [] => None | f => Some f end))) as Htail.
    { intros phase v Hp2 Hfv. unfold FL. destruct (ul_filter u) as [|n l].
      - cbn [app]. rewrite git_ul_flush. destruct v as [a1 a2 a3 a4 a5 a6 a7]. cbn [gu_filter] in Hfv. subst a7. reflexivity.
      - cbn [app]. rewrite git_ul_step by discriminate. cbv zeta.
        change (B "filter " ++ n :: l ++ [NL]) with ((B "filter " ++ n :: l) ++ [NL]). rewrite chomp_app.
        change (has_prefix (B "want ") (B "filter " ++ n :: l)) with false.
        change (has_prefix (B "shallow ") (B "filter " ++ n :: l)) with false.
        change (has_prefix (B "deepen ") (B "filter " ++ n :: l)) with false.
        change (has_prefix (B "deepen-since ") (B "filter " ++ n :: l)) with false.
        change (has_prefix (B "deepen-not ") (B "filter " ++ n :: l)) with false. cbv iota. rewrite has_prefix_app.
        rewrite (ltb_ge_false 2 phase Hp2).
        rewrite (skipn_app_exact (B "filter ") (n :: l) 7 eq_refl). now rewrite git_ul_flush. }
    destruct (Z.gtb_spec (ul_deepen u) 0) as [Hpos|Hz].
    - (* deepen n excludes the other depth forms *)
      apply orb_prop in Hex. destruct Hex as [E|E]; [discriminate|].
      apply andb_prop in E. destruct E as [E1 E2]. destruct (ul_since u) as [t|]; [discriminate|]. apply Nat.eqb_eq in E2.
      assert (ul_not u = []) as En by (destruct (ul_not u); [reflexivity|discriminate]).
      unfold NS, D1, D2. rewrite En. cbn [map app].
      rewrite git_ul_step by (apply app_ne_r; discriminate). cbv zeta.
      change (B "deepen " ++ dec_bytes (ul_deepen u) ++ [NL]) with ((B "deepen " ++ dec_bytes (ul_deepen u)) ++ [NL]). rewrite chomp_app.
      change (has_prefix (B "want ") (B "deepen " ++ dec_bytes (ul_deepen u))) with false.
      change (has_prefix (B "shallow ") (B "deepen " ++ dec_bytes (ul_deepen u))) with false. cbv iota. rewrite has_prefix_app.
      rewrite (ltb_ge_false 2 ph (le12 ph Hph)).
      rewrite (skipn_app_exact (B "deepen ") (dec_bytes (ul_deepen u)) 7 eq_refl), (git_number_dec _ H0).
      cbn [gu_deepen gu_since gu_not].
      assert ((0 <? ul_deepen u)%Z && (ul_deepen u <? 2 ^ 31)%Z = true) as ->.
      { apply andb_true_intro. split; [now apply Z.ltb_lt|now apply Z.ltb_lt]. }
      rewrite Htail; [reflexivity|apply le_n|reflexivity].
    - assert (ul_deepen u = 0%Z) as Ed by (clear - Hz H0; lia). unfold D1, D2. cbn [app].
      destruct (ul_since u) as [t|] eqn:Esi.
      + apply Z.ltb_lt in Gt. cbn [app].
        rewrite git_ul_step by (apply app_ne_r, app_ne_r; discriminate). cbv zeta.
        change (B "deepen-since " ++ dec_bytes t ++ [NL]) with ((B "deepen-since " ++ dec_bytes t) ++ [NL]). rewrite chomp_app.
        change (has_prefix (B "want ") (B "deepen-since " ++ dec_bytes t)) with false.
        change (has_prefix (B "shallow ") (B "deepen-since " ++ dec_bytes t)) with false.
        change (has_prefix (B "deepen ") (B "deepen-since " ++ dec_bytes t)) with false. cbv iota. rewrite has_prefix_app.
        rewrite (ltb_ge_false 2 ph (le12 ph Hph)).
        rewrite (skipn_app_exact (B "deepen-since ") (dec_bytes t) 13 eq_refl), (git_number_dec t (Z.lt_le_incl _ _ Gt)).
        cbn [gu_deepen gu_since gu_not].
        assert ((0 <? t)%Z && (t <? 2 ^ 63)%Z = true) as ->.
        { unfold since_ok, int64_ok in Hsi. apply andb_prop in Hsi. destruct Hsi as [Hsi _]. apply andb_prop in Hsi. destruct Hsi as [_ B'].
          apply andb_true_intro. split; [now apply Z.ltb_lt|exact B']. }
        unfold NS. rewrite (git_ul_nots hexsz (ul_not u) (FL ++ [PFlush]) 2%nat); [|apply app_ne_r; discriminate|apply le_n|reflexivity|exact Gn].
        cbn [gu_caps gu_wants gu_shallows gu_deepen gu_since gu_not gu_filter app].
        rewrite Htail; [reflexivity|destruct (ul_not u); apply le_n|reflexivity].
      + unfold NS. rewrite (git_ul_nots hexsz (ul_not u) (FL ++ [PFlush]) ph); [|apply app_ne_r; discriminate|exact (le12 ph Hph)|reflexivity|exact Gn].
        cbn [gu_caps gu_wants gu_shallows gu_deepen gu_since gu_not gu_filter app].
        rewrite Htail; [reflexivity|destruct (ul_not u); [exact (le12 ph Hph)|apply le_n]|reflexivity]. }
  (* the first want line *)
  unfold ul_abs, ul_canon. cbn [ul_caps ul_wants ul_shallows ul_deepen ul_since ul_not ul_filter]. rewrite Es.
  destruct (sized_spec hexsz w0 Hw0) as [Hok0 Hl0].
  assert (forall cps rest0, git_ulreq hexsz (PData (B "want " ++ hash_str w0 ++ cps ++ [NL]) :: rest0) =
            match skipn (5 + hexsz) (B "want " ++ hash_str w0 ++ cps) with
            | [] => git_ul_lines hexsz rest0 0 (mkgulreq [] [w0] [] None None [] None)
            | c :: capstr => if N.eqb c SP then git_ul_lines hexsz rest0 0 (mkgulreq (cap_words capstr) [w0] [] None None [] None) else None
            end) as Kfirst.
  { intros cps rest0. unfold git_ulreq.
    assert (B "want " ++ hash_str w0 ++ cps ++ [NL] = (B "want " ++ hash_str w0 ++ cps) ++ [NL]) as -> by (now rewrite <- !app_assoc).
    rewrite chomp_app, has_prefix_app, (skipn_app_exact (B "want ") _ 5 eq_refl).
    rewrite (firstn_app_exact (hash_str w0) cps _ Hl0), (git_oid_str hexsz w0 Hw0). reflexivity. }
  assert (forall cps, skipn (5 + hexsz) (B "want " ++ hash_str w0 ++ cps) = cps) as Kskip.
  { intros cps. change (5 + hexsz)%nat with (List.length (B "want ") + hexsz)%nat. rewrite <- Hl0, <- app_length, app_assoc. apply skipn_app_len. }
  destruct (ul_caps u) as [|e caps'] eqn:Ec.
  - pose proof (Kfirst []) as K1. cbn [app] in K1. rewrite K1. rewrite (Kskip []).
    apply (Hrest []).
  - rewrite <- Ec in *.
    assert (B "want " ++ hash_str w0 ++ [SP] ++ cap_encode (ul_caps u) ++ [NL] = B "want " ++ hash_str w0 ++ (SP :: cap_encode (ul_caps u)) ++ [NL]) as -> by reflexivity.
    rewrite Kfirst, Kskip, N.eqb_refl, (cap_words_encode _ Hcaps). apply Hrest.
Qed.
