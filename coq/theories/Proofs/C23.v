(* Proofs/C23.v — safety of the index publication protocol for every interleaving. *)
From Coq Require Import List NArith Bool Lia PeanoNat.
From GoGit Require Import Model.IndexPublish.
Import ListNotations.
Local Open Scope N_scope.
Local Arguments Nat.ltb : simpl never.

Section Inv.
(* the repository when the storage was opened *)
Variable ipacks : list pid.
Variable iloose : N.

Definition sub (a b : N) : Prop := forall k, memo k a = true -> memo k b = true.

(* what may only grow / never go back *)
Record sh_le (s s' : shared) : Prop := {
  le_disk : incl (disk s) (disk s');
  le_loose : sub (dloose s) (dloose s');
  le_pub : pub s <> None -> pub s' <> None;
  le_gen : (gen_pop s <= gen_pop s')%nat
}.

Definition list_ok (s : shared) (l : list pid) : Prop := incl ipacks l /\ incl l (disk s).

Definition rq_ok (s : shared) (r : rq) : Prop :=
  match r with
  | RqPublish local => list_ok s local
  | RqLeave | RqDone => pub s <> None
  | _ => True
  end.

Definition init_has (k : N) : bool := in_packs k ipacks || memo k iloose.
Definition now_has (s : shared) (k : N) : bool := in_packs k (disk s) || memo k (dloose s).

Definition thread_ok (s : shared) (t : thread) : Prop :=
  match t with
  | TLookup _ r | TNotify _ r => rq_ok s r
  | TLookupSnap _ | TNotifyWrite _ => pub s <> None
  | TNotifyPublish p => pub s <> None /\ In p (disk s)
  | TLookupSearch _ snap => list_ok s snap
  | TLookupDone k b => (init_has k = true -> b = true) /\ (b = true -> now_has s k = true)
  | TRePublish local => list_ok s local
  | _ => True
  end.

(* ---- basic facts ---- *)

Lemma sh_le_refl : forall s, sh_le s s.
Proof. intros. constructor; auto using incl_refl. intros k H; exact H. Qed.

Lemma has_pack_In : forall p l, has_pack p l = true <-> In p l.
Proof.
  intros p l. unfold has_pack. rewrite existsb_exists. split.
  - intros [x [Hx He]]. apply N.eqb_eq in He. now subst.
  - intros H. exists p. split; [assumption | apply N.eqb_refl].
Qed.

Lemma incl_add_pack : forall p l, incl l (add_pack p l).
Proof. intros p l. unfold add_pack. destruct (has_pack p l); [apply incl_refl | apply incl_appl, incl_refl]. Qed.

Lemma in_add_pack : forall p l, In p (add_pack p l).
Proof.
  intros p l. unfold add_pack. destruct (has_pack p l) eqn:E.
  - now apply has_pack_In.
  - apply in_or_app. right. now left.
Qed.

Lemma add_pack_incl : forall p l m, incl l m -> In p m -> incl (add_pack p l) m.
Proof.
  intros p l m H Hp. unfold add_pack. destruct (has_pack p l); [assumption|].
  apply incl_app; [assumption|]. intros x [->|[]]. assumption.
Qed.

Lemma in_packs_incl : forall k a b, incl a b -> in_packs k a = true -> in_packs k b = true.
Proof.
  intros k a b H E. unfold in_packs in *. apply existsb_exists in E. destruct E as [p [Hp Hm]].
  apply existsb_exists. exists p. split; [now apply H | assumption].
Qed.

Lemma sub_setbit : forall a k, sub a (N.setbit a k).
Proof.
  intros a k j H. unfold memo in *. rewrite N.setbit_eqb, H. apply orb_true_r.
Qed.

Lemma list_ok_le : forall s s' l, sh_le s s' -> list_ok s l -> list_ok s' l.
Proof. intros s s' l L [A B]. split; [assumption|]. eapply incl_tran; [exact B | apply L]. Qed.

Lemma now_has_le : forall s s' k, sh_le s s' -> now_has s k = true -> now_has s' k = true.
Proof.
  intros s s' k L H. unfold now_has in *. apply orb_true_iff in H. apply orb_true_iff. destruct H as [H|H].
  - left. eapply in_packs_incl; [apply L | exact H].
  - right. now apply L.
Qed.

Lemma thread_ok_le : forall s s' t, sh_le s s' -> thread_ok s t -> thread_ok s' t.
Proof.
  intros s s' t L H. destruct t; cbn in *; auto;
    try (destruct r; cbn in *; auto; try (now apply L); eapply list_ok_le; eauto; fail);
    try (now apply L); try (eapply list_ok_le; eauto; fail).
  - destruct H as [A B]. split; [assumption|]. intros E. eapply now_has_le; eauto.
  - destruct H as [A B]. split; [now apply L | now apply L].
Qed.

(* ---- requireIndex ---- *)

Definition sinv (s : shared) : Prop :=
  incl ipacks (disk s) /\ sub iloose (dloose s) /\
  (forall l, pub s = Some l -> incl ipacks l /\ incl l (disk s)) /\
  ((0 < gen_pop s)%nat -> pub s <> None) /\ panicked s = false.

Definition inv (st : state) : Prop :=
  sinv (sh st) /\ Forall (thread_ok (sh st)) (threads st).

Lemma sub_refl : forall a, sub a a.
Proof. intros a k H; exact H. Qed.

Ltac fin :=
  unfold sinv, list_ok, sub in *; cbn in *; unfold list_ok in *; cbn in *;
  repeat match goal with
         | |- _ /\ _ => split
         | |- sh_le _ _ => constructor; cbn
         end;
  auto using incl_refl; try discriminate; try lia; try congruence.

Lemma rq_step_ok : forall s s' r r',
  sinv s -> rq_ok s r -> rq_step s r = (s', r') ->
  sh_le s s' /\ rq_ok s' r' /\ sinv s'.
Proof.
  intros s s' r r' I R.
  destruct s as [dk dl pb fp gp fr gr no np nc pn].
  destruct I as (ID & IL & IP & IG & IN). cbn in *.
  destruct r; cbn.
  - (* RqCheck *) intros H; inversion H; subst; clear H. destruct pb; fin.
  - (* RqFlight *) destruct fp; intros H; inversion H; subst; clear H; fin.
  - (* RqWait *) intros H; inversion H; subst; clear H.
    destruct (Nat.ltb g gp) eqn:E; fin. apply Nat.ltb_lt in E. apply IG. lia.
  - (* RqRecheck *) intros H; inversion H; subst; clear H. destruct pb; fin.
  - (* RqPopulate *) intros H; inversion H; subst; clear H. fin.
  - (* RqPublish *) destruct R as [R1 R2]. destruct pb as [l0|]; intros H; inversion H; subst; clear H; fin.
    + intros l Hl. inversion Hl; subst. auto.
  - (* RqLeave *) intros H; inversion H; subst; clear H. fin.
  - (* RqDone *) intros H; inversion H; subst; clear H. fin.
Qed.

(* ---- one thread step ---- *)

Lemma in_packs_init : forall s k l, list_ok s l -> sub iloose (dloose s) ->
  init_has k = true -> in_packs k l || memo k (dloose s) = true.
Proof.
  intros s k l [A _] B H. unfold init_has in H. apply orb_true_iff in H. apply orb_true_iff.
  destruct H as [H|H]; [left; eapply in_packs_incl; eauto | right; now apply B].
Qed.

Lemma step_thread_ok : forall s s' t t',
  sinv s -> thread_ok s t -> step_thread s t = (s', t') ->
  sh_le s s' /\ thread_ok s' t' /\ sinv s'.
Proof.
  intros s s' t t' I T. destruct t; cbn [step_thread].
  - (* TLookup *)
    destruct r; try (destruct (rq_step s _) as [s1 r1] eqn:E; intros H; inversion H; subst; clear H;
                     destruct (rq_step_ok _ _ _ _ I T E) as (A & B & C); auto).
    intros H; inversion H; subst; clear H. cbn in T. split; [apply sh_le_refl | split; [exact T | exact I]].
  - (* TLookupSnap *)
    intros H; inversion H; subst; clear H. cbn in T.
    split; [apply sh_le_refl | split; [| exact I]].
    destruct I as (ID & IL & IP & IG & IN).
    destruct (pub s') as [l|] eqn:P; try congruence. cbn. apply (IP l eq_refl).
  - (* TLookupSearch *)
    intros H; inversion H; subst; clear H. cbn in T.
    split; [apply sh_le_refl|]. split; [|assumption]. cbn. destruct I as (ID & IL & IP & IG & IN). split.
    + intros Hk. eapply in_packs_init; eauto.
    + intros Hf. unfold now_has. apply orb_true_iff in Hf. apply orb_true_iff. destruct Hf as [Hf|Hf]; [left|right; assumption].
      eapply in_packs_incl; [apply T | exact Hf].
  - (* TLookupDone *) intros H; inversion H; subst. split; [apply sh_le_refl | split; [exact T | exact I]].
  - (* TReFlight *)
    destruct s as [dk dl pb fp gp fr gr no np nc pn]. destruct I as (ID & IL & IP & IG & IN). cbn in *.
    destruct fr; intros H; inversion H; subst; clear H; fin.
  - (* TReWait *) intros H; inversion H; subst; clear H.
    split; [apply sh_le_refl | split; [| exact I]]. destruct (Nat.ltb g (gen_re s')); exact Logic.I.
  - (* TRePopulate *)
    destruct s as [dk dl pb fp gp fr gr no np nc pn]. destruct I as (ID & IL & IP & IG & IN). cbn in *.
    intros H; inversion H; subst; clear H; fin.
  - (* TRePublish *)
    destruct s as [dk dl pb fp gp fr gr no np nc pn]. destruct I as (ID & IL & IP & IG & IN). cbn in *.
    destruct T as [T1 T2]. intros H; inversion H; subst; clear H; fin.
    intros l Hl. inversion Hl; subst. auto.
  - (* TReLeave *)
    destruct s as [dk dl pb fp gp fr gr no np nc pn]. destruct I as (ID & IL & IP & IG & IN). cbn in *.
    intros H; inversion H; subst; clear H; fin.
  - (* TReDone *) intros H; inversion H; subst. split; [apply sh_le_refl | split; [exact T | exact I]].
  - (* TNotify *)
    destruct r; try (destruct (rq_step s _) as [s1 r1] eqn:E; intros H; inversion H; subst; clear H;
                     destruct (rq_step_ok _ _ _ _ I T E) as (A & B & C); auto).
    intros H; inversion H; subst; clear H. cbn in T. split; [apply sh_le_refl | split; [exact T | exact I]].
  - (* TNotifyWrite *)
    destruct s as [dk dl pb fp gp fr gr no np nc pn]. destruct I as (ID & IL & IP & IG & IN). cbn in *.
    intros H; inversion H; subst; clear H; fin;
      try apply in_add_pack;
      try (match goal with |- incl _ _ => apply incl_add_pack end);
      try (eapply incl_tran; [exact ID | apply incl_add_pack]).
    intros l Hl. destruct (IP l Hl). split; [assumption|]. eapply incl_tran; [eassumption | apply incl_add_pack].
  - (* TNotifyPublish *)
    destruct s as [dk dl pb fp gp fr gr no np nc pn]. destruct I as (ID & IL & IP & IG & IN). cbn in *.
    destruct T as [T1 T2]. destruct pb as [l0|]; [|congruence].
    intros H; inversion H; subst; clear H; fin.
    intros l Hl. inversion Hl; subst. destruct (IP l0 eq_refl) as [A B]. split.
    + eapply incl_tran; [exact A | apply incl_add_pack].
    + now apply add_pack_incl.
  - (* TNotifyDone *) intros H; inversion H; subst. split; [apply sh_le_refl | split; [exact T | exact I]].
  - (* TExtPack *)
    destruct s as [dk dl pb fp gp fr gr no np nc pn]. destruct I as (ID & IL & IP & IG & IN). cbn in *.
    intros H; inversion H; subst; clear H; fin.
    + apply incl_add_pack.
    + eapply incl_tran; [exact ID | apply incl_add_pack].
    + intros l Hl. destruct (IP l Hl). split; [assumption|]. eapply incl_tran; [eassumption | apply incl_add_pack].
  - (* TExtLoose *)
    destruct s as [dk dl pb fp gp fr gr no np nc pn]. destruct I as (ID & IL & IP & IG & IN). cbn in *.
    intros H; inversion H; subst; clear H; fin.
    + intros j Hj. now apply sub_setbit.
    + intros j Hj. apply sub_setbit. auto.
  - (* TExtDone *) intros H; inversion H; subst. split; [apply sh_le_refl | split; [exact T | exact I]].
Qed.

(* ---- the scheduler ---- *)

Lemma Forall_upd : forall A (P : A -> Prop) l i x, Forall P l -> P x -> Forall P (upd l i x).
Proof.
  intros A P l. induction l as [|y r IH]; intros i x F Hx; cbn; [constructor|].
  inversion F; subst. destruct i; constructor; auto.
Qed.

Lemma step_inv : forall st i, inv st -> inv (step st i) /\ sh_le (sh st) (sh (step st i)).
Proof.
  intros [s ts] i [I F]. unfold step. cbn [threads sh] in *.
  destruct (nth_error ts i) as [t|] eqn:N; [|split; [split; assumption | apply sh_le_refl]].
  destruct (step_thread s t) as [s' t'] eqn:E.
  assert (T : thread_ok s t) by (eapply Forall_forall; [exact F | eapply nth_error_In; eauto]).
  destruct (step_thread_ok _ _ _ _ I T E) as (L & T' & I').
  split; [|exact L]. split; [exact I'|]. cbn.
  apply Forall_upd; [|exact T'].
  eapply Forall_impl; [|exact F]. intros a Ha. eapply thread_ok_le; eauto.
Qed.

Lemma sh_le_trans : forall a b c, sh_le a b -> sh_le b c -> sh_le a c.
Proof.
  intros a b c [A1 A2 A3 A4] [B1 B2 B3 B4]. constructor; auto.
  - eapply incl_tran; eauto.
  - intros k H. auto.
  - lia.
Qed.

Lemma run_inv : forall sched st, inv st -> inv (run st sched) /\ sh_le (sh st) (sh (run st sched)).
Proof.
  induction sched as [|i r IH]; intros st I; cbn.
  - split; [assumption | apply sh_le_refl].
  - destruct (step_inv st i I) as [I1 L1]. destruct (IH _ I1) as [I2 L2].
    split; [assumption | eapply sh_le_trans; eauto].
Qed.

(* every thread at the start of its program *)
Definition starting (t : thread) : bool :=
  match t with
  | TLookup _ RqCheck | TNotify _ RqCheck | TReFlight | TExtPack _ | TExtLoose _ => true
  | _ => false
  end.

Lemma inv_init : forall ts, forallb starting ts = true -> inv (init_state ipacks iloose ts).
Proof.
  intros ts H. split.
  - unfold sinv. cbn. repeat split; auto using incl_refl; try discriminate; try lia. intros k Hk; exact Hk.
  - cbn. apply Forall_forall. intros t Ht. rewrite forallb_forall in H. specialize (H t Ht).
    destruct t; cbn in *; try discriminate; auto; destruct r; cbn in *; try discriminate; auto.
Qed.

End Inv.

(* ---- the theorems ---- *)

Theorem lookup_stable : forall ipacks iloose ts sched k b,
  forallb starting ts = true ->
  let st := run (init_state ipacks iloose ts) sched in
  In (TLookupDone k b) (threads st) ->
  (init_has ipacks iloose k = true -> b = true) /\
  (now_has (sh st) k = false -> b = false).
Proof.
  intros ipacks iloose ts sched k b S st H.
  destruct (run_inv ipacks iloose sched _ (inv_init ipacks iloose ts S)) as [[I F] _].
  fold st in I, F. rewrite Forall_forall in F. specialize (F _ H). cbn in F. destruct F as [A B].
  split; [assumption|]. intros N. destruct b; [|reflexivity]. rewrite (B eq_refl) in N. discriminate.
Qed.

Theorem snapshot_consistent : forall ipacks iloose ts sched,
  forallb starting ts = true ->
  let st := run (init_state ipacks iloose ts) sched in
  (forall l, pub (sh st) = Some l -> incl ipacks l /\ incl l (disk (sh st))) /\
  (forall k snap, In (TLookupSearch k snap) (threads st) -> incl ipacks snap /\ incl snap (disk (sh st))) /\
  (forall k, In (TLookupSnap k) (threads st) -> pub (sh st) <> None) /\
  (forall p, In (TNotifyPublish p) (threads st) -> pub (sh st) <> None) /\
  panicked (sh st) = false.
Proof.
  intros ipacks iloose ts sched S st.
  destruct (run_inv ipacks iloose sched _ (inv_init ipacks iloose ts S)) as [[I F] _].
  fold st in I, F. rewrite Forall_forall in F. destruct I as (ID & IL & IP & IG & IN).
  repeat split; auto.
  - apply (IP l H). - apply (IP l H).
  - apply (F _ H). - apply (F _ H).
  - intros k H. apply (F _ H).
  - intros p H. apply (F _ H).
Qed.

Theorem published_forever : forall ipacks iloose ts sched1 sched2,
  forallb starting ts = true ->
  pub (sh (run (init_state ipacks iloose ts) sched1)) <> None ->
  pub (sh (run (init_state ipacks iloose ts) (sched1 ++ sched2))) <> None.
Proof.
  intros ipacks iloose ts sched1 sched2 S H. unfold run in *. rewrite fold_left_app.
  destruct (run_inv ipacks iloose sched1 _ (inv_init ipacks iloose ts S)) as [I1 _].
  destruct (run_inv ipacks iloose sched2 _ I1) as [_ L]. now apply L.
Qed.

(* index sets built by populateIndex are installed or closed, never lost *)
Definition holds (t : thread) : nat :=
  match t with
  | TLookup _ (RqPublish _) | TNotify _ (RqPublish _) | TRePublish _ => 1
  | _ => 0
  end.
Definition holders (ts : list thread) : nat := fold_right (fun t n => holds t + n)%nat O ts.

Lemma rq_step_count : forall s r s' r', rq_step s r = (s', r') ->
  (n_open s' + n_pub s + n_closed s + match r with RqPublish _ => 1 | _ => 0 end =
   n_open s + n_pub s' + n_closed s' + match r' with RqPublish _ => 1 | _ => 0 end)%nat.
Proof.
  intros s r s' r' H. destruct s. destruct r; cbn in *;
    repeat match goal with H : context [match ?x with _ => _ end] |- _ => destruct x end;
    inversion H; subst; cbn; lia.
Qed.

Lemma step_thread_count : forall s t s' t', step_thread s t = (s', t') ->
  (n_open s' + n_pub s + n_closed s + holds t = n_open s + n_pub s' + n_closed s' + holds t')%nat.
Proof.
  intros s t s' t' H. destruct t; cbn [step_thread] in H.
  - destruct r; try (destruct (rq_step s _) as [s1 r1] eqn:E; inversion H; subst; clear H;
                     apply rq_step_count in E; cbn in *; destruct r1; cbn in *; lia).
    inversion H; subst; cbn; lia.
  - inversion H; subst; cbn; lia.
  - inversion H; subst; cbn; lia.
  - inversion H; subst; cbn; lia.
  - destruct s; cbn in *. destruct fl_re; inversion H; subst; cbn; lia.
  - inversion H; subst. destruct (Nat.ltb g (gen_re s')); cbn; lia.
  - destruct s; inversion H; subst; cbn; lia.
  - destruct s; inversion H; subst; cbn; lia.
  - destruct s; inversion H; subst; cbn; lia.
  - inversion H; subst; cbn; lia.
  - destruct r; try (destruct (rq_step s _) as [s1 r1] eqn:E; inversion H; subst; clear H;
                     apply rq_step_count in E; cbn in *; destruct r1; cbn in *; lia).
    inversion H; subst; cbn; lia.
  - destruct s; inversion H; subst; cbn; lia.
  - destruct s; cbn in *. destruct pub; inversion H; subst; cbn; lia.
  - inversion H; subst; cbn; lia.
  - destruct s; inversion H; subst; cbn; lia.
  - destruct s; inversion H; subst; cbn; lia.
  - inversion H; subst; cbn; lia.
Qed.

Lemma holders_upd : forall ts i t t', nth_error ts i = Some t ->
  (holders (upd ts i t') + holds t = holders ts + holds t')%nat.
Proof.
  induction ts as [|y r IH]; intros i t t' H; destruct i; cbn in *; try discriminate.
  - inversion H; subst. lia.
  - specialize (IH _ _ t' H). unfold holders in *. lia.
Qed.

Definition balanced (st : state) : Prop :=
  (n_open (sh st) = n_pub (sh st) + n_closed (sh st) + holders (threads st))%nat.

Lemma step_balanced : forall st i, balanced st -> balanced (step st i).
Proof.
  intros [s ts] i B. unfold step, balanced in *. cbn [threads sh] in *.
  destruct (nth_error ts i) as [t|] eqn:N; [|exact B].
  destruct (step_thread s t) as [s' t'] eqn:E. cbn.
  pose proof (step_thread_count _ _ _ _ E). pose proof (holders_upd _ _ _ t' N). unfold holders in *. lia.
Qed.

Theorem no_leak : forall ipacks iloose ts sched,
  forallb starting ts = true ->
  balanced (run (init_state ipacks iloose ts) sched).
Proof.
  intros ipacks iloose ts sched S.
  assert (B0 : balanced (init_state ipacks iloose ts)).
  { unfold balanced. cbn. induction ts as [|t r IH]; cbn in *; [reflexivity|].
    apply andb_true_iff in S. destruct S as [S1 S2]. specialize (IH S2).
    destruct t; cbn in *; try discriminate; try lia; destruct r0; cbn in *; try discriminate; lia. }
  revert B0. generalize (init_state ipacks iloose ts). induction sched as [|i r IH]; intros st B; cbn; [exact B|].
  apply IH. now apply step_balanced.
Qed.

