(* Proofs/C06Apply.v — the delta appliers of go-git against git's patch_delta. *)
From Coq Require Import List NArith Arith Lia Bool.
From Coq Require Import ZifyBool ZifyNat ZifyN.
From GoGit Require Import Base.Out Model.Delta Spec.GitDelta.
Import ListNotations.
Local Open Scope N_scope.

Definition bytes_ok (b : bytes) : bool := forallb (fun x => x <? 256) b.
Definition to_g (r : res bytes) : gres := match r with Ok b => GOk b | Err _ => GReject end.

(* ---------------------------------------------------------------- lists *)
Lemma take_firstn n b : take n b = firstn (N.to_nat n) b.
Proof.
  unfold take, len. destruct (N.le_gt_cases n (N.of_nat (List.length b))) as [H|H].
  - rewrite N.min_l by lia. reflexivity.
  - rewrite N.min_r by lia. rewrite Nat2N.id, firstn_all. symmetry. apply firstn_all2. lia.
Qed.

Lemma drop_skipn n b : drop n b = skipn (N.to_nat n) b.
Proof.
  unfold drop, len. destruct (N.le_gt_cases n (N.of_nat (List.length b))) as [H|H].
  - rewrite N.min_l by lia. reflexivity.
  - rewrite N.min_r by lia. rewrite Nat2N.id, skipn_all. symmetry. apply skipn_all2. lia.
Qed.

Lemma slice_spec b off sz : slice b off sz = firstn (N.to_nat sz) (skipn (N.to_nat off) b).
Proof. unfold slice. rewrite take_firstn, drop_skipn. reflexivity. Qed.

Lemma len_app a b : len (a ++ b) = len a + len b.
Proof. unfold len. rewrite app_length. lia. Qed.

Lemma len_take n b : n <= len b -> len (take n b) = n.
Proof. intros H. rewrite take_firstn. unfold len in *. rewrite firstn_length. lia. Qed.

Lemma len_drop n b : len (drop n b) = len b - n.
Proof. rewrite drop_skipn. unfold len. rewrite skipn_length. lia. Qed.

Lemma take_drop n b : take n b ++ drop n b = b.
Proof. rewrite take_firstn, drop_skipn. apply firstn_skipn. Qed.

Lemma bytes_ok_app a b : bytes_ok (a ++ b) = bytes_ok a && bytes_ok b.
Proof. apply forallb_app. Qed.

Lemma bytes_ok_skipn n b : bytes_ok b = true -> bytes_ok (skipn n b) = true.
Proof.
  intros H. rewrite <- (firstn_skipn n b), bytes_ok_app in H.
  apply andb_true_iff in H. tauto.
Qed.

Lemma bytes_ok_drop n b : bytes_ok b = true -> bytes_ok (drop n b) = true.
Proof. rewrite drop_skipn. apply bytes_ok_skipn. Qed.

Lemma to_g_prefix p r : to_g (prefix_res p r) = gprefix p (to_g r).
Proof. destruct r; reflexivity. Qed.

Lemma is_nil_g {A} (l : list A) : g_nil l = is_nil l.
Proof. destruct l; reflexivity. Qed.

(* ---------------------------------------------------------------- bit bounds *)
Lemma lt_pow2_shiftr a n : a < 2 ^ n <-> N.shiftr a n = 0.
Proof.
  rewrite N.shiftr_div_pow2. symmetry. apply N.div_small_iff. apply N.pow_nonzero. discriminate.
Qed.

Lemma lor_lt_pow2 a b n : a < 2 ^ n -> b < 2 ^ n -> N.lor a b < 2 ^ n.
Proof.
  rewrite !lt_pow2_shiftr. intros Ha Hb. rewrite N.shiftr_lor, Ha, Hb. reflexivity.
Qed.

Lemma shiftl_byte_lt b s n : b < 256 -> s + 8 <= n -> N.shiftl b s < 2 ^ n.
Proof.
  intros Hb Hs. rewrite N.shiftl_mul_pow2.
  apply N.lt_le_trans with (256 * 2 ^ s).
  - assert (Hp : 0 < 2 ^ s) by (apply N.neq_0_lt_0, N.pow_nonzero; discriminate).
    exact (proj1 (N.mul_lt_mono_pos_r (2 ^ s) b 256 Hp) Hb).
  - change 256 with (2 ^ 8). rewrite <- N.pow_add_r. apply N.pow_le_mono_r; [discriminate|lia].
Qed.

Lemma land127_le c : N.land c 127 <= 127.
Proof.
  change 127 with (N.ones 7) at 1. rewrite N.land_ones.
  pose proof (N.mod_upper_bound c (2 ^ 7)) as H. change (2 ^ 7) with 128 in *.
  assert (128 <> 0) by discriminate. specialize (H H0). lia.
Qed.

Lemma shiftr_ones_ge k : (k <= 8)%nat -> 127 <= N.shiftr (2 ^ 64 - 1) (7 * N.of_nat k).
Proof.
  intros H.
  assert (E : (k = 0 \/ k = 1 \/ k = 2 \/ k = 3 \/ k = 4 \/ k = 5 \/ k = 6 \/ k = 7 \/ k = 8)%nat) by lia.
  repeat (destruct E as [E|E]; [subst k; vm_compute; discriminate|]). subst k; vm_compute; discriminate.
Qed.

(* ---------------------------------------------------------------- copy operands *)
Lemma git_params_eq tbl cmd d acc : git_params tbl cmd d acc = dec_params tbl cmd d acc.
Proof.
  revert d acc. induction tbl as [|[m s] t IH]; intros d acc; cbn [git_params dec_params]; [reflexivity|].
  destruct (N.land cmd m =? 0); [apply IH|]. destruct d; [reflexivity|apply IH].
Qed.

Lemma dec_params_bound n tbl :
  (forall m s, In (m, s) tbl -> s + 8 <= n) ->
  forall cmd d acc v r, bytes_ok d = true -> acc < 2 ^ n ->
  dec_params tbl cmd d acc = Some (v, r) ->
  v < 2 ^ n /\ bytes_ok r = true /\ (List.length r <= List.length d)%nat.
Proof.
  induction tbl as [|[m s] t IH]; intros Ht cmd d acc v r Hd Ha H; cbn [dec_params] in H.
  - inversion H; subst. auto.
  - assert (Ht' : forall m s, In (m, s) t -> s + 8 <= n) by (intros m' s' Hin; apply (Ht m' s'); right; exact Hin).
    destruct (N.land cmd m =? 0); [eapply IH; eauto|].
    destruct d as [|b d']; [discriminate|].
    cbn [bytes_ok forallb] in Hd. apply andb_true_iff in Hd as [Hb Hd'].
    apply N.ltb_lt in Hb.
    specialize (IH Ht' cmd d' (N.lor acc (N.shiftl b s)) v r Hd').
    destruct IH as (Hv & Hr & Hl); [|exact H|].
    + apply lor_lt_pow2; [assumption|]. apply shiftl_byte_lt; [assumption|]. apply (Ht m s). left. reflexivity.
    + cbn [List.length]. auto with arith.
Qed.

Lemma dec_offset_bound cmd d off r :
  bytes_ok d = true -> dec_offset cmd d = Some (off, r) ->
  off < 2 ^ 32 /\ bytes_ok r = true /\ (List.length r <= List.length d)%nat.
Proof.
  intros Hd H. unfold dec_offset in H. eapply (dec_params_bound 32); [|exact Hd| |exact H].
  - unfold offsets_tbl. cbn [In]. intros m s Hin.
    repeat (destruct Hin as [Hin|Hin]; [inversion Hin; subst; vm_compute; discriminate|]). destruct Hin.
  - vm_compute. reflexivity.
Qed.

Lemma dec_size_bound cmd d sz r :
  bytes_ok d = true -> dec_size cmd d = Some (sz, r) ->
  1 <= sz /\ sz < 2 ^ 24 /\ bytes_ok r = true /\ (List.length r <= List.length d)%nat.
Proof.
  intros Hd H. unfold dec_size in H.
  destruct (dec_params sizes_tbl cmd d 0) as [[sz0 r0]|] eqn:E; [|discriminate].
  inversion H; subst; clear H.
  destruct (dec_params_bound 24 sizes_tbl) with (cmd := cmd) (d := d) (acc := 0) (v := sz0) (r := r)
    as (Hv & Hr & Hl); try assumption.
  - unfold sizes_tbl. cbn [In]. intros m s Hin.
    repeat (destruct Hin as [Hin|Hin]; [inversion Hin; subst; vm_compute; discriminate|]). destruct Hin.
  - vm_compute. reflexivity.
  - unfold max_copy_size. destruct (sz0 =? 0) eqn:Ez.
    + repeat split; try assumption; vm_compute; try reflexivity; discriminate.
    + apply N.eqb_neq in Ez. repeat split; try assumption. lia.
Qed.

(* ---------------------------------------------------------------- size headers *)
Lemma leb_git_hdr inp : forall k acc v r, inp <> [] ->
  leb_buf_go inp k acc = Ok (v, r) -> git_hdr inp (7 * N.of_nat k) acc = HOk v r.
Proof.
  induction inp as [|c t IH]; intros k acc v r Hne H; [congruence|].
  cbn [leb_buf_go] in H. cbn [git_hdr].
  destruct (Nat.ltb 8 k) eqn:Hk; [discriminate|]. apply Nat.ltb_ge in Hk.
  assert (H0 : 64 <=? 7 * N.of_nat k = false) by (apply N.leb_gt; lia). rewrite H0.
  assert (H1 : N.shiftr (2 ^ 64 - 1) (7 * N.of_nat k) <? N.land c 127 = false).
  { apply N.ltb_ge. pose proof (shiftr_ones_ge k Hk). pose proof (land127_le c). lia. }
  rewrite H1. unfold leb_step in H. rewrite is_nil_g.
  destruct ((N.land c 128 =? 0) || is_nil t) eqn:E.
  - inversion H; reflexivity.
  - replace (7 * N.of_nat k + 7) with (7 * N.of_nat (S k)) by lia.
    apply IH; [|exact H]. destruct t; [|congruence].
    cbn [is_nil] in E. rewrite orb_true_r in E. discriminate.
Qed.

(* the reader variant succeeds only where the buffer variant does, with the same answer *)
Lemma leb_rd_buf inp : forall k acc v r,
  leb_rd_go inp k acc = Ok (v, r) -> leb_buf_go inp k acc = Ok (v, r).
Proof.
  induction inp as [|c t IH]; intros k acc v r H; cbn [leb_rd_go] in H.
  - destruct (Nat.ltb 8 k); discriminate.
  - cbn [leb_buf_go]. destruct (Nat.ltb 8 k); [discriminate|].
    destruct (N.land c 128 =? 0) eqn:E; cbn [orb]; [assumption|].
    destruct t as [|c' t']; [|cbn [is_nil]; apply IH; exact H].
    cbn [leb_rd_go] in H. destruct (Nat.ltb 8 (S k)); discriminate.
Qed.

Lemma leb_buf_go_props inp : forall k acc v r, bytes_ok inp = true ->
  leb_buf_go inp k acc = Ok (v, r) ->
  bytes_ok r = true /\ (List.length r <= List.length inp)%nat /\ (inp <> [] -> (List.length r < List.length inp)%nat).
Proof.
  induction inp as [|c t IH]; intros k acc v r Hok H; cbn [leb_buf_go] in H.
  - inversion H; subst. repeat split; auto. congruence.
  - cbn [bytes_ok forallb] in Hok. apply andb_true_iff in Hok as [_ Ht].
    destruct (Nat.ltb 8 k); [discriminate|].
    destruct ((N.land c 128 =? 0) || is_nil t).
    + inversion H; subst. cbn [List.length]. repeat split; auto with arith.
    + destruct (IH _ _ _ _ Ht H) as (A & B & _). cbn [List.length]. repeat split; auto with arith.
Qed.

(* ---------------------------------------------------------------- G1 = S on the command loop *)
Lemma copy_check_eq src off sz rem :
  off < 2 ^ 32 -> sz < 2 ^ 24 ->
  invalid_size sz rem || invalid_offset_size off sz (len src)
  = (2 ^ 64 <=? off + sz) || (glen src <? off + sz) || (rem <? sz).
Proof.
  intros Ho Hs. unfold invalid_size, invalid_offset_size, sum_overflows, glen, len.
  assert (Hlt : off + sz < 2 ^ 64).
  { apply N.lt_trans with (2 ^ 32 + 2 ^ 24); [lia|]. vm_compute. reflexivity. }
  rewrite (N.mod_small _ _ Hlt).
  assert (E1 : (2 ^ 64 <=? off + sz) = false) by (apply N.leb_gt; exact Hlt).
  assert (E2 : (off + sz <? off) = false) by (apply N.ltb_ge; lia).
  rewrite E1, E2. cbn [orb].
  destruct (rem <? sz), (N.of_nat (List.length src) <? off + sz); reflexivity.
Qed.

Lemma pd_git_loop src : forall f g d rem,
  bytes_ok d = true -> (List.length d < f)%nat -> (List.length d <= g)%nat ->
  to_g (pd_loop f src (len src) d rem) = git_loop g src d rem.
Proof.
  induction f as [|f IH]; intros g d rem Hok Hf Hg; [lia|].
  destruct d as [|cmd r].
  - destruct g; cbn [pd_loop git_loop is_nil]; destruct (rem =? 0); reflexivity.
  - destruct g as [|g]; [cbn in Hg; lia|].
    cbn [bytes_ok forallb] in Hok. apply andb_true_iff in Hok as [Hc Hr].
    cbn [List.length] in Hf, Hg.
    cbn [pd_loop git_loop is_nil].
    unfold is_copy_src, is_copy_delta, mask_continue, dec_offset.
    change git_params with dec_params.
    change [(1, 0); (2, 8); (4, 16); (8, 24)] with offsets_tbl.
    change [(16, 0); (32, 8); (64, 16)] with sizes_tbl.
    destruct (rem =? 0) eqn:Hrem.
    + (* nothing left to produce but the delta goes on: both refuse *)
      apply N.eqb_eq in Hrem; subst rem. cbn [to_g].
      destruct (N.land cmd 128 =? 0) eqn:Hm; cbn [negb].
      * destruct (cmd =? 0) eqn:Hz; cbn [negb]; [reflexivity|].
        apply N.eqb_neq in Hz. assert (Hp : 0 <? cmd = true) by (apply N.ltb_lt; lia).
        rewrite Hp. reflexivity.
      * destruct (dec_params offsets_tbl cmd r 0) as [[off r1]|] eqn:Ho; [|reflexivity].
        destruct (dec_offset_bound cmd r off r1 Hr Ho) as (_ & Hr1 & _).
        destruct (dec_params sizes_tbl cmd r1 0) as [[sz0 r2]|] eqn:Hs; [|reflexivity].
        assert (Hsz : dec_size cmd r1 = Some (if sz0 =? 0 then max_copy_size else sz0, r2))
          by (unfold dec_size; rewrite Hs; reflexivity).
        destruct (dec_size_bound _ _ _ _ Hr1 Hsz) as (H1 & _).
        unfold max_copy_size in H1.
        assert (Hp : 0 <? (if sz0 =? 0 then 65536 else sz0) = true) by (apply N.ltb_lt; lia).
        rewrite Hp, !orb_true_r. reflexivity.
    + destruct (N.land cmd 128 =? 0) eqn:Hm; cbn [negb andb].
      * (* insert *)
        destruct (cmd =? 0) eqn:Hz; cbn [negb]; [reflexivity|].
        unfold invalid_size. fold (len r). unfold glen. fold (len r).
        destruct (rem <? cmd); cbn [orb]; [reflexivity|].
        destruct (len r <? cmd) eqn:Hl; [reflexivity|].
        rewrite to_g_prefix. unfold gtake, gdrop. rewrite take_firstn, drop_skipn. f_equal.
        apply IH.
        -- apply bytes_ok_skipn. assumption.
        -- rewrite skipn_length. lia.
        -- rewrite skipn_length. lia.
      * (* copy *)
        destruct (dec_params offsets_tbl cmd r 0) as [[off r1]|] eqn:Ho; [|reflexivity].
        destruct (dec_offset_bound cmd r off r1 Hr Ho) as (Hoff & Hr1 & Hl1).
        unfold dec_size.
        destruct (dec_params sizes_tbl cmd r1 0) as [[sz0 r2]|] eqn:Hs; [|reflexivity].
        assert (Hsz : dec_size cmd r1 = Some (if sz0 =? 0 then max_copy_size else sz0, r2))
          by (unfold dec_size; rewrite Hs; reflexivity).
        destruct (dec_size_bound _ _ _ _ Hr1 Hsz) as (H1 & H2 & Hr2 & Hl2).
        unfold max_copy_size in *.
        rewrite (copy_check_eq src off _ rem Hoff H2).
        destruct ((2 ^ 64 <=? off + (if sz0 =? 0 then 65536 else sz0))
                  || (glen src <? off + (if sz0 =? 0 then 65536 else sz0))
                  || (rem <? (if sz0 =? 0 then 65536 else sz0))); [reflexivity|].
        rewrite to_g_prefix, slice_spec. unfold gtake, gdrop. f_equal.
        apply IH; [assumption|lia|lia].
Qed.

(* ---------------------------------------------------------------- the guard and the main theorem for G1 *)
(* both size headers decode (at most 9 bytes each), the first one ends before the
   end of the delta, and the delta has git's minimum length *)
Definition git_guard (d : bytes) : bool :=
  (4 <=? len d) &&
  match leb_buf d with
  | Ok (_, d1) => negb (is_nil d1) && match leb_buf d1 with Ok _ => true | Err _ => false end
  | Err _ => false
  end.

Lemma apply_eq_git src d :
  bytes_ok d = true -> git_guard d = true -> to_g (patch_delta src d) = git_patch_delta src d.
Proof.
  intros Hok Hg. unfold git_guard in Hg. apply andb_true_iff in Hg as [Hlen Hg].
  unfold patch_delta, git_patch_delta, DELTA_SIZE_MIN. unfold glen. fold (len d).
  assert (E : len d <? 4 = false) by (apply N.ltb_ge; apply N.leb_le; exact Hlen). rewrite E.
  unfold leb_buf in *.
  destruct (leb_buf_go d 0 0) as [[s d1]|] eqn:H1; [|discriminate].
  apply andb_true_iff in Hg as [Hn Hg].
  assert (Hd : d <> []) by (intro; subst; vm_compute in Hlen; discriminate).
  rewrite (leb_git_hdr d 0 0 s d1 Hd H1 : git_hdr d 0 0 = HOk s d1).
  fold (len src). destruct (s =? len src) eqn:Es; cbn [negb]; [|reflexivity].
  apply N.eqb_eq in Es. subst s.
  destruct (leb_buf_go_props d 0 0 _ d1 Hok H1) as (Hok1 & _).
  destruct d1 as [|c1 t1]; [discriminate|].
  destruct (leb_buf_go (c1 :: t1) 0 0) as [[t d2]|] eqn:H2; [|discriminate].
  rewrite (leb_git_hdr (c1 :: t1) 0 0 t d2 ltac:(congruence) H2 : git_hdr (c1 :: t1) 0 0 = HOk t d2).
  destruct (leb_buf_go_props _ 0 0 t d2 Hok1 H2) as (Hok2 & _).
  apply pd_git_loop; [assumption|lia|lia].
Qed.

(* ---------------------------------------------------------------- G2 (streaming) against G1 *)
Lemma skipn_skipn_add {A} (a b : nat) (l : list A) : skipn a (skipn b l) = skipn (b + a) l.
Proof.
  revert l. induction b as [|b IH]; intros l; [reflexivity|].
  destruct l; [rewrite !skipn_nil; reflexivity|]. cbn [skipn plus]. apply IH.
Qed.

Lemma base_seek_spec src pos off : base_seek src (drop pos src) pos off = drop off src.
Proof.
  unfold base_seek. destruct (off <? pos) eqn:E; [reflexivity|].
  apply N.ltb_ge in E. rewrite !drop_skipn, skipn_skipn_add. f_equal. lia.
Qed.

Lemma rfd_pd_loop src srcsz : forall f d rem pos,
  rfd_loop f src srcsz (drop pos src) pos d rem = pd_loop f src srcsz d rem.
Proof.
  induction f as [|f IH]; intros d rem pos; [reflexivity|].
  cbn [rfd_loop pd_loop]. destruct (rem =? 0); [reflexivity|].
  destruct d as [|cmd r]; [reflexivity|].
  destruct (is_copy_src cmd).
  - destruct (dec_offset cmd r) as [[off r1]|]; [|reflexivity].
    destruct (dec_size cmd r1) as [[sz r2]|]; [|reflexivity].
    destruct (invalid_size sz rem || invalid_offset_size off sz srcsz); [reflexivity|].
    cbv zeta. rewrite base_seek_spec. unfold slice. f_equal.
    replace (drop sz (drop off src)) with (drop (off + sz) src).
    + apply IH.
    + rewrite !drop_skipn, skipn_skipn_add. f_equal. lia.
  - destruct (is_copy_delta cmd); [|reflexivity].
    destruct (invalid_size cmd rem); [reflexivity|]. destruct (len r <? cmd); [reflexivity|].
    f_equal. apply IH.
Qed.

(* whenever the streaming applier gets past the two size headers it IS the buffer applier *)
Lemma stream_eq_buffer src d s d1 t d2 :
  leb_rd d = Ok (s, d1) -> leb_rd d1 = Ok (t, d2) ->
  reader_from_delta src d = patch_delta src d.
Proof.
  intros H1 H2. unfold reader_from_delta, patch_delta.
  unfold leb_rd in *. unfold leb_buf.
  rewrite (leb_rd_buf _ _ _ _ _ H1), H1. cbn [eof_invalid].
  destruct (negb (s =? len src)); [reflexivity|].
  rewrite (leb_rd_buf _ _ _ _ _ H2), H2. cbn [eof_invalid].
  rewrite <- (rfd_pd_loop src s (S (List.length d2)) d2 t 0). rewrite drop_skipn. reflexivity.
Qed.

Lemma stream_rejects_otherwise src d :
  (forall s d1 t d2, leb_rd d = Ok (s, d1) -> leb_rd d1 = Ok (t, d2) -> False) ->
  exists e, reader_from_delta src d = Err e.
Proof.
  intros H. unfold reader_from_delta.
  destruct (leb_rd d) as [[s d1]|e] eqn:H1.
  - cbn [eof_invalid]. destruct (negb (s =? len src)); [eexists; reflexivity|].
    destruct (leb_rd d1) as [[t d2]|e] eqn:H2.
    + exfalso. eapply H; eauto.
    + destruct e; cbn [eof_invalid]; eexists; reflexivity.
  - destruct e; cbn [eof_invalid]; eexists; reflexivity.
Qed.

(* ---------------------------------------------------------------- G3 (parser's applier) against G1 *)
Lemma pdw_pd_loop src srcsz : forall f d rem,
  to_g (pdw_loop f src srcsz d rem) = to_g (pd_loop f src srcsz d rem).
Proof.
  induction f as [|f IH]; intros d rem; [reflexivity|].
  cbn [pdw_loop pd_loop]. destruct (rem =? 0); [reflexivity|].
  destruct d as [|cmd r]; [reflexivity|].
  destruct (is_copy_src cmd).
  - destruct (dec_offset cmd r) as [[off r1]|]; [|reflexivity].
    destruct (dec_size cmd r1) as [[sz r2]|]; [|reflexivity].
    destruct (invalid_size sz rem || invalid_offset_size off sz srcsz); [reflexivity|].
    rewrite !to_g_prefix, IH. reflexivity.
  - destruct (is_copy_delta cmd); [|reflexivity].
    destruct (invalid_size cmd rem); [reflexivity|]. destruct (len r <? cmd); [reflexivity|].
    rewrite !to_g_prefix, IH. reflexivity.
Qed.

Lemma take_all b : take (len b) b = b.
Proof. rewrite take_firstn. unfold len. rewrite Nat2N.id. apply firstn_all. Qed.

Lemma writer_eq_buffer src d s d1 t d2 :
  leb_rd d = Ok (s, d1) -> leb_rd d1 = Ok (t, d2) ->
  to_g (patch_delta_writer true src d) = to_g (patch_delta src d).
Proof.
  intros H1 H2. unfold patch_delta_writer, patch_delta.
  unfold leb_rd in *. unfold leb_buf.
  rewrite (leb_rd_buf _ _ _ _ _ H1), H1. cbn [eof_invalid andb].
  destruct (s =? len src) eqn:E; cbn [negb]; [|reflexivity].
  apply N.eqb_eq in E. subst s.
  rewrite (leb_rd_buf _ _ _ _ _ H2), H2. cbn [eof_invalid]. rewrite take_all. apply pdw_pd_loop.
Qed.

(* a base that is not a *bytes.Reader: same behaviour as long as the declared source size is right *)
Lemma writer_other_eq src d s d1 :
  leb_rd d = Ok (s, d1) -> s = len src ->
  patch_delta_writer false src d = patch_delta_writer true src d.
Proof.
  intros H1 E. unfold patch_delta_writer. rewrite H1. cbn [eof_invalid andb].
  subst s. rewrite N.eqb_refl. reflexivity.
Qed.

Definition stream_guard (d : bytes) : bool :=
  (4 <=? len d) &&
  match leb_rd d with
  | Ok (_, d1) => match leb_rd d1 with Ok _ => true | Err _ => false end
  | Err _ => false
  end.

Lemma stream_guard_git d : stream_guard d = true ->
  git_guard d = true /\ exists s d1 t d2, leb_rd d = Ok (s, d1) /\ leb_rd d1 = Ok (t, d2).
Proof.
  unfold stream_guard, git_guard. intros H. apply andb_true_iff in H as [Hl H].
  destruct (leb_rd d) as [[s d1]|] eqn:H1; [|discriminate].
  destruct (leb_rd d1) as [[t d2]|] eqn:H2; [|discriminate].
  split; [|eauto 8]. rewrite Hl. cbn [andb]. unfold leb_rd, leb_buf in *.
  rewrite (leb_rd_buf _ _ _ _ _ H1), (leb_rd_buf _ _ _ _ _ H2).
  destruct d1; [cbn in H2; discriminate|reflexivity].
Qed.

Lemma stream_eq_git src d :
  bytes_ok d = true -> stream_guard d = true -> to_g (reader_from_delta src d) = git_patch_delta src d.
Proof.
  intros Hok Hg. destruct (stream_guard_git d Hg) as (Hgg & s & d1 & t & d2 & H1 & H2).
  rewrite (stream_eq_buffer src d s d1 t d2 H1 H2). apply apply_eq_git; assumption.
Qed.

Lemma writer_eq_git src d :
  bytes_ok d = true -> stream_guard d = true -> to_g (patch_delta_writer true src d) = git_patch_delta src d.
Proof.
  intros Hok Hg. destruct (stream_guard_git d Hg) as (Hgg & s & d1 & t & d2 & H1 & H2).
  rewrite (writer_eq_buffer src d s d1 t d2 H1 H2). apply apply_eq_git; assumption.
Qed.

(* ---------------------------------------------------------------- the PatchDelta wrapper *)
Lemma wrapper_eq src d :
  src <> [] -> 2 <= len d -> patch_delta_wrapper src d = patch_delta src d.
Proof.
  intros Hs Hd. unfold patch_delta_wrapper. destruct src; [congruence|]. cbn [is_nil orb].
  assert (E : len d <? 2 = false) by (apply N.ltb_ge; exact Hd). rewrite E. reflexivity.
Qed.

(* ---------------------------------------------------------------- no partial success *)
Definition target_size (d : bytes) : option N :=
  match leb_buf d with
  | Ok (_, d1) => match leb_buf d1 with Ok (t, _) => Some t | Err _ => None end
  | Err _ => None
  end.

Lemma pd_loop_len src : forall f d rem out,
  bytes_ok d = true -> pd_loop f src (len src) d rem = Ok out -> len out = rem.
Proof.
  induction f as [|f IH]; intros d rem out Hok H.
  - cbn [pd_loop] in H. destruct (rem =? 0) eqn:E; [|discriminate].
    apply N.eqb_eq in E. destruct (is_nil d); inversion H. subst. reflexivity.
  - cbn [pd_loop] in H. destruct (rem =? 0) eqn:E.
    + apply N.eqb_eq in E. destruct (is_nil d); inversion H. subst. reflexivity.
    + destruct d as [|cmd r]; [discriminate|].
      cbn [bytes_ok forallb] in Hok. apply andb_true_iff in Hok as [_ Hr].
      destruct (is_copy_src cmd).
      * destruct (dec_offset cmd r) as [[off r1]|] eqn:Ho; [|discriminate].
        destruct (dec_offset_bound _ _ _ _ Hr Ho) as (Hoff & Hr1 & _).
        destruct (dec_size cmd r1) as [[sz r2]|] eqn:Hs; [|discriminate].
        destruct (dec_size_bound _ _ _ _ Hr1 Hs) as (H1 & H2 & Hr2 & _).
        destruct (invalid_size sz rem || invalid_offset_size off sz (len src)) eqn:Hc; [discriminate|].
        rewrite copy_check_eq in Hc by assumption.
        apply orb_false_iff in Hc as [Hc Hc3]. apply orb_false_iff in Hc as [Hc1 Hc2].
        apply N.ltb_ge in Hc2, Hc3. unfold glen in Hc2. fold (len src) in Hc2.
        destruct (pd_loop f src (len src) r2 (rem - sz)) as [o|] eqn:Hrec; [|discriminate].
        cbn [prefix_res] in H. inversion H; subst. rewrite len_app, (IH _ _ _ Hr2 Hrec).
        rewrite slice_spec. unfold len in *. rewrite firstn_length, skipn_length. lia.
      * destruct (is_copy_delta cmd); [|discriminate].
        destruct (invalid_size cmd rem) eqn:Hc; [discriminate|].
        destruct (len r <? cmd) eqn:Hl; [discriminate|].
        unfold invalid_size in Hc. apply N.ltb_ge in Hc, Hl.
        destruct (pd_loop f src (len src) (drop cmd r) (rem - cmd)) as [o|] eqn:Hrec; [|discriminate].
        cbn [prefix_res] in H. inversion H; subst.
        rewrite len_app, (IH _ _ _ (bytes_ok_drop _ _ Hr) Hrec), len_take by assumption. lia.
Qed.

Lemma no_partial_success src d out :
  bytes_ok d = true -> patch_delta src d = Ok out -> target_size d = Some (len out).
Proof.
  intros Hok H. unfold patch_delta in H. unfold target_size.
  destruct (leb_buf d) as [[s d1]|] eqn:H1; [|discriminate].
  destruct (negb (s =? len src)) eqn:E; [discriminate|].
  apply negb_false_iff, N.eqb_eq in E. subst s.
  destruct (leb_buf_go_props d 0 0 _ d1 Hok H1) as (Hok1 & _).
  destruct (leb_buf d1) as [[t d2]|] eqn:H2; [|discriminate].
  destruct (leb_buf_go_props d1 0 0 _ d2 Hok1 H2) as (Hok2 & _).
  rewrite (pd_loop_len _ _ _ _ _ Hok2 H). reflexivity.
Qed.

Lemma no_partial_success_stream src d out :
  bytes_ok d = true -> reader_from_delta src d = Ok out -> target_size d = Some (len out).
Proof.
  intros Hok H.
  destruct (leb_rd d) as [[s d1]|e] eqn:H1.
  - destruct (leb_rd d1) as [[t d2]|e] eqn:H2.
    + rewrite (stream_eq_buffer src d s d1 t d2 H1 H2) in H. apply (no_partial_success src); assumption.
    + unfold reader_from_delta in H. rewrite H1 in H. cbn [eof_invalid] in H.
      destruct (negb (s =? len src)); [discriminate|]. rewrite H2 in H.
      destruct e; cbn [eof_invalid] in H; discriminate.
  - unfold reader_from_delta in H. rewrite H1 in H. destruct e; cbn [eof_invalid] in H; discriminate.
Qed.

Lemma to_g_ok r out : to_g r = GOk out <-> r = Ok out.
Proof. destruct r; cbn; split; intros H; inversion H; reflexivity. Qed.

Lemma no_partial_success_writer src d out :
  bytes_ok d = true -> patch_delta_writer true src d = Ok out -> target_size d = Some (len out).
Proof.
  intros Hok H.
  destruct (leb_rd d) as [[s d1]|e] eqn:H1.
  - destruct (leb_rd d1) as [[t d2]|e] eqn:H2.
    + apply (no_partial_success src); [assumption|].
      apply to_g_ok. rewrite <- (writer_eq_buffer src d s d1 t d2 H1 H2). apply to_g_ok. exact H.
    + unfold patch_delta_writer in H. rewrite H1 in H. cbn [eof_invalid] in H.
      destruct (true && negb (s =? len src)); [discriminate|]. rewrite H2 in H.
      destruct e; cbn [eof_invalid] in H; discriminate.
  - unfold patch_delta_writer in H. rewrite H1 in H. destruct e; cbn [eof_invalid] in H; discriminate.
Qed.

(* ---------------------------------------------------------------- fuel is sufficient (never EFuel) *)
Lemma pd_loop_fuel src srcsz : forall f d rem,
  bytes_ok d = true -> (List.length d < f)%nat -> pd_loop f src srcsz d rem <> Err EFuel.
Proof.
  induction f as [|f IH]; intros d rem Hok Hf; [lia|].
  cbn [pd_loop]. destruct (rem =? 0); [destruct (is_nil d); discriminate|].
  destruct d as [|cmd r]; [discriminate|].
  cbn [bytes_ok forallb] in Hok. apply andb_true_iff in Hok as [_ Hr]. cbn [List.length] in Hf.
  destruct (is_copy_src cmd).
  - destruct (dec_offset cmd r) as [[off r1]|] eqn:Ho; [|discriminate].
    destruct (dec_offset_bound _ _ _ _ Hr Ho) as (_ & Hr1 & Hl1).
    destruct (dec_size cmd r1) as [[sz r2]|] eqn:Hs; [|discriminate].
    destruct (dec_size_bound _ _ _ _ Hr1 Hs) as (_ & _ & Hr2 & Hl2).
    destruct (invalid_size sz rem || invalid_offset_size off sz srcsz); [discriminate|].
    specialize (IH r2 (rem - sz) Hr2 ltac:(lia)).
    destruct (pd_loop f src srcsz r2 (rem - sz)); cbn [prefix_res]; congruence.
  - destruct (is_copy_delta cmd); [|discriminate].
    destruct (invalid_size cmd rem); [discriminate|]. destruct (len r <? cmd); [discriminate|].
    assert (Hl : (List.length (drop cmd r) < f)%nat) by (rewrite drop_skipn, skipn_length; lia).
    specialize (IH (drop cmd r) (rem - cmd) (bytes_ok_drop _ _ Hr) Hl).
    destruct (pd_loop f src srcsz (drop cmd r) (rem - cmd)); cbn [prefix_res]; congruence.
Qed.

Lemma patch_delta_fuel src d : bytes_ok d = true -> patch_delta src d <> Err EFuel.
Proof.
  intros Hok. unfold patch_delta.
  destruct (leb_buf d) as [[s d1]|e] eqn:H1.
  - destruct (negb (s =? len src)); [discriminate|].
    destruct (leb_buf_go_props d 0 0 _ d1 Hok H1) as (Hok1 & _).
    destruct (leb_buf d1) as [[t d2]|e] eqn:H2.
    + destruct (leb_buf_go_props d1 0 0 _ d2 Hok1 H2) as (Hok2 & _).
      apply pd_loop_fuel; [assumption|lia].
    + intro E. inversion E; subst. clear -H2. unfold leb_buf in H2.
      revert H2. generalize 0%nat, 0. induction d1 as [|c t IH]; intros k acc H; cbn [leb_buf_go] in H; [discriminate|].
      destruct (Nat.ltb 8 k); [discriminate|]. destruct ((N.land c 128 =? 0) || is_nil t); [discriminate|].
      eapply IH; eassumption.
  - intro E. inversion E; subst. clear -H1. unfold leb_buf in H1.
    revert H1. generalize 0%nat, 0. induction d as [|c t IH]; intros k acc H; cbn [leb_buf_go] in H; [discriminate|].
    destruct (Nat.ltb 8 k); [discriminate|]. destruct ((N.land c 128 =? 0) || is_nil t); [discriminate|].
    eapply IH; eassumption.
Qed.
