(* Proofs/C06Leaf.v — the leaf predicates and constants that gotrans regenerates
   from plumbing/format/packfile (Gen/C06.v) mean what Model/Delta.v says.
   A source edit that changes a mask, a bound or a comparison breaks a lemma here. *)
From Coq Require Import List NArith ZArith Lia Bool.
From GoGit Require Import Base.GoInt Base.Out Gen.C06 Model.Delta.
Import ListNotations.

Local Open Scope Z_scope.

Lemma Zeqb_N (a : N) : (Z.of_N a =? 0) = (a =? 0)%N.
Proof. destruct a; reflexivity. Qed.

Lemma Zland_N (a b : N) : Z.land (Z.of_N a) (Z.of_N b) = Z.of_N (N.land a b).
Proof. destruct a, b; reflexivity. Qed.

Lemma isCopyFromSrc_gen_spec (c : N) : packfile_isCopyFromSrc (Z.of_N c) = is_copy_src c.
Proof.
  unfold packfile_isCopyFromSrc, is_copy_src, packfile_maskContinue, mask_continue.
  change 128 with (Z.of_N 128). rewrite Zland_N, Zeqb_N. reflexivity.
Qed.

Lemma isCopyFromDelta_gen_spec (c : N) : packfile_isCopyFromDelta (Z.of_N c) = is_copy_delta c.
Proof.
  unfold packfile_isCopyFromDelta, is_copy_delta, packfile_maskContinue, mask_continue.
  change 128 with (Z.of_N 128). rewrite Zland_N, !Zeqb_N. reflexivity.
Qed.

Lemma invalidSize_gen_spec (sz r : N) : packfile_invalidSize (Z.of_N sz) (Z.of_N r) = invalid_size sz r.
Proof.
  unfold packfile_invalidSize, invalid_size.
  destruct (N.ltb_spec r sz); [apply Z.gtb_lt | rewrite Z.gtb_ltb; apply Z.ltb_ge]; lia.
Qed.

Lemma wrapu64_N (a : N) : wrapu 64 (Z.of_N a) = Z.of_N (a mod 2 ^ 64)%N.
Proof. unfold wrapu. rewrite N2Z.inj_mod. reflexivity. Qed.

Lemma sumOverflows_gen_spec (a b : N) : packfile_sumOverflows (Z.of_N a) (Z.of_N b) = sum_overflows a b.
Proof.
  unfold packfile_sumOverflows, sum_overflows. rewrite <- N2Z.inj_add, wrapu64_N.
  destruct (N.ltb_spec ((a + b) mod 2 ^ 64) a); [apply Z.ltb_lt | apply Z.ltb_ge]; lia.
Qed.

Lemma invalidOffsetSize_gen_spec (o s n : N) :
  packfile_invalidOffsetSize (Z.of_N o) (Z.of_N s) (Z.of_N n) = invalid_offset_size o s n.
Proof.
  unfold packfile_invalidOffsetSize, invalid_offset_size. rewrite sumOverflows_gen_spec.
  rewrite <- N2Z.inj_add, wrapu64_N. f_equal.
  destruct (N.ltb_spec n ((o + s) mod 2 ^ 64)); [apply Z.gtb_lt | rewrite Z.gtb_ltb; apply Z.ltb_ge]; lia.
Qed.

(* the LEB128 length rule of packutil: `sz*7 > uintBits-7` with uintBits = 64 *)
Lemma leb_rule_gen_spec (k : nat) :
  (Z.of_nat k * 7 >? packutil_uintBits - 7) = Nat.ltb 8 k.
Proof.
  unfold packutil_uintBits.
  destruct (Nat.ltb_spec 8 k); [apply Z.gtb_lt | rewrite Z.gtb_ltb; apply Z.ltb_ge]; lia.
Qed.

Lemma c06_leaves_tied :
  (forall c, packfile_isCopyFromSrc (Z.of_N c) = is_copy_src c) /\
  (forall c, packfile_isCopyFromDelta (Z.of_N c) = is_copy_delta c) /\
  (forall sz r, packfile_invalidSize (Z.of_N sz) (Z.of_N r) = invalid_size sz r) /\
  (forall a b, packfile_sumOverflows (Z.of_N a) (Z.of_N b) = sum_overflows a b) /\
  (forall o s n, packfile_invalidOffsetSize (Z.of_N o) (Z.of_N s) (Z.of_N n) = invalid_offset_size o s n) /\
  (forall k, (Z.of_nat k * 7 >? packutil_uintBits - 7) = Nat.ltb 8 k) /\
  packfile_maskContinue = Z.of_N mask_continue /\
  packutil_maskContinue = 128 /\ packutil_maskPayload = 127 /\
  packfile_maxCopySize = Z.of_N max_copy_size /\
  packfile_minDeltaSize = 2 /\
  packfile_s = Z.of_nat blk /\ packfile_blksz = Z.of_nat blk.
Proof.
  repeat split; auto using isCopyFromSrc_gen_spec, isCopyFromDelta_gen_spec, invalidSize_gen_spec,
    sumOverflows_gen_spec, invalidOffsetSize_gen_spec, leb_rule_gen_spec.
Qed.

(* the (mask, shift) tables decodeOffset / decodeSize walk are the ones in the source *)
Definition tbl_to_Z (t : list (N * N)) : list (Z * Z) := map (fun p => (Z.of_N (fst p), Z.of_N (snd p))) t.
Lemma offsets_tbl_gen_spec : packfile_offsets = tbl_to_Z offsets_tbl.
Proof. reflexivity. Qed.
Lemma sizes_tbl_gen_spec : packfile_sizes = tbl_to_Z sizes_tbl.
Proof. reflexivity. Qed.
