(* Proofs/C10Prefix.v — EntriesWithPrefix: the lower-bound search for the prefix padded
   with zeros followed by the stop-at-first-mismatch walk enumerates exactly the entries
   whose id starts with the prefix, in id order (LazyIndex and MemoryIndex). *)
From Coq Require Import List NArith ZArith Bool Lia ZifyBool ZifyNat ZifyN Sorting.Sorted.
From GoGit Require Import Base.Out Base.GoInt Model.PackBytes Model.Idx Spec.IdxFormat
  Proofs.C10Search Proofs.C10Order Proofs.C10Bytes Proofs.C10Table Proofs.C10Layout Proofs.C10Lazy
  Proofs.C10Splits Proofs.C10Decode Proofs.C10Memory.
Import ListNotations.
Local Open Scope N_scope.

(* ---- prefixes and the order ---- *)

Lemma pad_to_cons k y p : pad_to (S k) (y :: p) = y :: pad_to k p.
Proof. unfold pad_to. cbn [firstn List.length Nat.sub app]. reflexivity. Qed.

Lemma cmp_zeros h : bytes_cmp h (repeat 0 (List.length h)) <> Lt.
Proof.
  induction h as [|x h IH]; cbn; [discriminate|].
  destruct (x ?= 0) eqn:E; try discriminate; [exact IH|].
  rewrite N.compare_lt_iff in E. lia.
Qed.

(* (P1) an id that starts with p is not below p padded with zeros *)
Lemma prefix_ge_target : forall p h,
  has_prefix h p = true -> bytes_cmp h (pad_to (List.length h) p) <> Lt.
Proof.
  induction p as [|y p IH]; intros h Hp.
  - unfold pad_to. rewrite firstn_nil. cbn [app List.length]. rewrite Nat.sub_0_r. apply cmp_zeros.
  - destruct h as [|x h]; [discriminate|]. cbn [has_prefix] in Hp. apply andb_true_iff in Hp. destruct Hp as [Exy Hp].
    apply N.eqb_eq in Exy. subst y. cbn [List.length]. rewrite pad_to_cons. cbn [bytes_cmp].
    rewrite N.compare_refl. now apply IH.
Qed.

(* (P2) past the first id at or above the target that does not start with p, no id starts with p *)
Lemma no_prefix_after : forall p h h',
  List.length h = List.length h' ->
  bytes_cmp h (pad_to (List.length h) p) <> Lt -> has_prefix h p = false -> bytes_cmp h h' = Lt ->
  has_prefix h' p = false.
Proof.
  induction p as [|y p IH]; intros h h' Hl Hge Hnp Hlt.
  - destruct h; discriminate.
  - destruct h as [|x h]; destruct h' as [|x' h']; try (cbn in *; discriminate).
    cbn [List.length] in *. rewrite pad_to_cons in Hge. cbn [bytes_cmp has_prefix] in *.
    destruct (x ?= y) eqn:Cxy.
    + apply N.compare_eq in Cxy. subst y. rewrite N.eqb_refl in Hnp. cbn [andb] in Hnp.
      destruct (x ?= x') eqn:Cxx.
      * apply N.compare_eq in Cxx. subst x'. rewrite N.eqb_refl. cbn [andb].
        apply (IH h h'); [lia|exact Hge|exact Hnp|exact Hlt].
      * rewrite N.compare_lt_iff in Cxx. replace (x' =? x) with false by lia. reflexivity.
      * discriminate.
    + congruence.
    + rewrite N.compare_gt_iff in Cxy.
      destruct (x ?= x') eqn:Cxx.
      * apply N.compare_eq in Cxx. subst x'. replace (x =? y) with false by lia. reflexivity.
      * rewrite N.compare_lt_iff in Cxx. replace (x' =? y) with false by lia. reflexivity.
      * discriminate.
Qed.

(* an id starting with a non-empty p has p's first byte *)
Lemma prefix_first_byte h y p : has_prefix h (y :: p) = true -> hd 0 h = y.
Proof. destruct h as [|x h]; [discriminate|]. cbn. intros E. apply andb_true_iff in E. destruct E as [E _]. now apply N.eqb_eq. Qed.

(* ---- the walk as a list function ---- *)
Fixpoint take_while (f : entry -> bool) (l : list entry) : list entry :=
  match l with [] => [] | e :: r => if f e then e :: take_while f r else [] end.

(* on a strictly sorted run of ids at or above the target, stopping at the first mismatch loses nothing *)
Lemma take_while_filter p hs : forall l,
  sorted_tbl l -> (forall e, In e l -> List.length (e_hash e) = hs) ->
  (forall e, In e l -> bytes_cmp (e_hash e) (pad_to hs p) <> Lt) ->
  take_while (fun e => has_prefix (e_hash e) p) l = filter (fun e => has_prefix (e_hash e) p) l.
Proof.
  induction l as [|e l IH]; intros Hs Hl Hge; [reflexivity|].
  inversion Hs as [|? ? Hs' F]; subst. cbn [take_while filter].
  destruct (has_prefix (e_hash e) p) eqn:Ep.
  - f_equal. apply IH; auto; intros; [apply Hl|apply Hge]; now right.
  - symmetry. rewrite Forall_forall in F.
    assert (G : forall x, In x l -> has_prefix (e_hash x) p = false).
    { intros x Hx. apply (no_prefix_after p (e_hash e) (e_hash x)).
      - rewrite (Hl e), (Hl x); auto; [now right|now left].
      - rewrite (Hl e) by now left. apply Hge. now left.
      - exact Ep.
      - apply F. exact Hx. }
    clear - G. induction l as [|x l IHl]; cbn; [reflexivity|].
    rewrite G by now left. apply IHl. intros; apply G; now right.
Qed.

Lemma filter_none {A} (f : A -> bool) l : (forall x, In x l -> f x = false) -> filter f l = [].
Proof.
  induction l as [|x l IH]; intros G; cbn; [reflexivity|]. rewrite G by now left. apply IH. intros; apply G; now right.
Qed.

Lemma filter_prefix_nil (l : list entry) : filter (fun e => has_prefix (e_hash e) []) l = l.
Proof.
  induction l as [|e l IH]; cbn [filter]; [reflexivity|].
  replace (has_prefix (e_hash e) []) with true by (destruct (e_hash e); reflexivity). now rewrite IH.
Qed.

Definition wf_prefix (p : bytes) : Prop := forall b, In b p -> b < 256.

(* ---- the run of ids with the prefix inside a sorted table ---- *)
Section PrefixTbl.
Variable hs : nat.
Variable tbl : list entry.
Hypothesis WF : wf_tbl hs tbl.
Let n : N := N.of_nat (List.length tbl).
Set Default Proof Using "hs tbl WF".

Lemma hash_len i : i < n -> List.length (e_hash (nth (N.to_nat i) tbl d0)) = hs.
Proof. intros Hi. apply (wf_size _ _ WF). apply nth_In. unfold n in Hi. lia. Qed.

Lemma sorted_sub a c : sorted_tbl (firstn c (skipn a tbl)).
Proof.
  pose proof (wf_sorted _ _ WF) as Hs. unfold sorted_tbl in *.
  assert (G : forall (l : list entry) k, StronglySorted hlt l -> StronglySorted hlt (skipn k l)).
  { intros l k. revert l. induction k as [|k IHk]; intros l S; [exact S|].
    destruct l as [|x l]; [constructor|]. inversion S; subst. cbn [skipn]. now apply IHk. }
  assert (G2 : forall (l : list entry) k, StronglySorted hlt l -> StronglySorted hlt (firstn k l)).
  { intros l k. revert l. induction k as [|k IHk]; intros l S; [constructor|].
    destruct l as [|x l]; [constructor|]. inversion S as [|? ? S' F]; subst. cbn [firstn]. constructor; [now apply IHk|].
    rewrite Forall_forall in *. intros y Hy. apply F.
    rewrite <- (firstn_skipn k l). apply in_or_app. now left. }
  apply G2, G, Hs.
Qed.

Lemma in_sub a c e : In e (firstn c (skipn a tbl)) -> exists i, (a <= i < a + c)%nat /\ (i < List.length tbl)%nat /\ nth i tbl d0 = e.
Proof.
  intros He. destruct (In_nth _ _ d0 He) as (j & Hj & Ej).
  rewrite firstn_length, skipn_length in Hj.
  exists (a + j)%nat. split; [lia|]. split; [lia|].
  rewrite <- Ej. symmetry. apply nth_firstn_skipn. lia.
Qed.

(* ids below position k are below the target, ids in [k,hi) are not, ids with the prefix lie in [lo,hi):
   the stop-at-first-mismatch walk from k collects exactly the entries with the prefix *)
Lemma prefix_run p lo k hi :
  lo <= k -> k <= hi -> hi <= n ->
  (forall i, i < n -> has_prefix (e_hash (nth (N.to_nat i) tbl d0)) p = true -> lo <= i < hi) ->
  (forall i, lo <= i -> i < k -> bytes_cmp (e_hash (nth (N.to_nat i) tbl d0)) (pad_to hs p) = Lt) ->
  (forall i, k <= i -> i < hi -> bytes_cmp (e_hash (nth (N.to_nat i) tbl d0)) (pad_to hs p) <> Lt) ->
  take_while (fun e => has_prefix (e_hash e) p) (firstn (N.to_nat (hi - k)) (skipn (N.to_nat k) tbl))
  = with_prefix tbl p.
Proof.
  intros Hlk Hkh Hhn Hout Hbelow Habove. unfold with_prefix.
  assert (Hno_lt : forall i, i < n -> i < k \/ hi <= i -> has_prefix (e_hash (nth (N.to_nat i) tbl d0)) p = false).
  { intros i Hi Hor. destruct (has_prefix (e_hash (nth (N.to_nat i) tbl d0)) p) eqn:Epre; [|reflexivity]. exfalso.
    pose proof (Hout i Hi Epre) as Hr. destruct Hor as [Hlt|Hge]; [|lia].
    specialize (Hbelow i ltac:(lia) Hlt).
    pose proof (prefix_ge_target p _ Epre) as Hge. rewrite hash_len in Hge by exact Hi. congruence. }
  assert (Hfirst : filter (fun e => has_prefix (e_hash e) p) (firstn (N.to_nat k) tbl) = []).
  { apply filter_none. intros e He.
    assert (He' : In e (firstn (N.to_nat k) (skipn 0 tbl))) by exact He.
    destruct (in_sub 0 (N.to_nat k) e He') as (i & Hi1 & Hi2 & Ei). rewrite <- Ei.
    rewrite <- (Nat2N.id i). apply Hno_lt; unfold n; lia. }
  assert (Hlast : filter (fun e => has_prefix (e_hash e) p) (skipn (N.to_nat hi) tbl) = []).
  { apply filter_none. intros e He.
    assert (He' : In e (firstn (List.length tbl) (skipn (N.to_nat hi) tbl))).
    { rewrite firstn_all2; [exact He|]. rewrite skipn_length. lia. }
    destruct (in_sub (N.to_nat hi) (List.length tbl) e He') as (i & Hi1 & Hi2 & Ei). rewrite <- Ei.
    rewrite <- (Nat2N.id i). apply Hno_lt; unfold n; lia. }
  assert (Hmid : filter (fun e => has_prefix (e_hash e) p) tbl
                 = filter (fun e => has_prefix (e_hash e) p) (firstn (N.to_nat (hi - k)) (skipn (N.to_nat k) tbl))).
  { rewrite <- (firstn_skipn (N.to_nat k) tbl) at 1. rewrite filter_app, Hfirst. cbn [app].
    rewrite <- (firstn_skipn (N.to_nat (hi - k)) (skipn (N.to_nat k) tbl)) at 1.
    rewrite filter_app.
    replace (skipn (N.to_nat (hi - k)) (skipn (N.to_nat k) tbl)) with (skipn (N.to_nat hi) tbl).
    - now rewrite Hlast, app_nil_r.
    - clear - Hkh. assert (G : forall b a (l : list entry), skipn a (skipn b l) = skipn (b + a) l).
      { induction b as [|b IHb]; intros a l; [reflexivity|]. destruct l as [|x l]; cbn [skipn plus]; [now destruct a|]. apply IHb. }
      rewrite G. f_equal. lia. }
  rewrite Hmid. apply (take_while_filter p hs).
  - apply sorted_sub.
  - intros e He. destruct (in_sub _ _ e He) as (i & _ & Hi2 & Ei). rewrite <- Ei. apply (wf_size _ _ WF), nth_In. exact Hi2.
  - intros e He. destruct (in_sub _ _ e He) as (i & Hi1 & Hi2 & Ei). rewrite <- Ei.
    rewrite <- (Nat2N.id i). apply Habove; lia.
Qed.

(* no position carries the prefix *)
Lemma prefix_empty p : (forall i, i < n -> has_prefix (e_hash (nth (N.to_nat i) tbl d0)) p = false) -> with_prefix tbl p = [].
Proof.
  intros Hno. unfold with_prefix. apply filter_none. intros e He.
  destruct (In_nth tbl e d0 He) as (j & Hj & Ej). rewrite <- Ej, <- (Nat2N.id j). apply Hno. unfold n. lia.
Qed.

End PrefixTbl.

(* ---- LazyIndex.EntriesWithPrefix ---- *)
Section PrefixLazy.
Variable hs : nat.
Variable H : bytes -> bytes.
Variable tbl : list entry.
Variable pack rev : bytes.
Hypothesis WF : wf_tbl hs tbl.
Hypothesis Hpack : List.length pack = hs.
Hypothesis Hrev : exists hf t, rev = ([82; 73; 68; 88] ++ be32 1 ++ hf) ++ t /\ List.length hf = 4%nat.

Let n : N := N.of_nat (List.length tbl).
Let L := the_lazy hs H tbl pack rev.
Set Default Proof Using "hs H tbl pack rev WF Hpack Hrev".

Let LazyName := lazy_name_ok hs H tbl pack rev WF Hpack Hrev.
Let LazyEntry := lazy_entry_ok hs H tbl pack rev WF Hpack Hrev.
Let LazyBounds := lazy_bounds_ok hs H tbl pack rev WF Hpack Hrev.
Let BucketRange := bucket_range hs H tbl pack rev WF Hpack Hrev.
Let HashSorted := hash_at_sorted hs H tbl pack rev WF Hpack Hrev.
Let FLeN := F_le_n hs H tbl pack rev WF Hpack Hrev.
Let Entries := lazy_entries_map hs H tbl pack rev WF Hpack Hrev.

(* the walk of lazyPrefixIter *)
Lemma lazy_prefix_walk_ok p : forall c pos,
  pos + N.of_nat c <= n ->
  lazy_prefix_walk hs L p pos c
  = (take_while (fun e => has_prefix (e_hash e) p) (firstn c (skipn (N.to_nat pos) tbl)), None).
Proof.
  induction c as [|c IH]; intros pos Hp; cbn [lazy_prefix_walk]; [now rewrite firstn_O|].
  unfold L. rewrite LazyEntry by (unfold n in *; lia). fold L.
  assert (Hl : (N.to_nat pos < List.length tbl)%nat) by (unfold n in Hp; lia).
  rewrite (skipn_nth_cons tbl (N.to_nat pos) d0 Hl). cbn [firstn take_while].
  destruct (has_prefix (e_hash (nth (N.to_nat pos) tbl d0)) p); cbn [negb]; [|reflexivity].
  rewrite IH by lia. replace (N.to_nat (pos + 1)) with (S (N.to_nat pos)) by lia. reflexivity.
Qed.

Theorem lazy_prefix_map p : wf_prefix p -> lazy_prefix hs L p = (with_prefix tbl p, None).
Proof.
  intros Hwp.
  assert (Hp0' : forall y r, p = y :: r -> (N.to_nat y < 256)%nat).
  { intros y r E. assert (Hy : y < 256) by (apply Hwp; rewrite E; now left). lia. }
  unfold lazy_prefix.
  destruct p as [|p0 p'] eqn:Ep.
  - unfold L. rewrite Entries. f_equal. symmetry. apply filter_prefix_nil.
  - rewrite <- Ep in *.
    assert (Hp0 : (N.to_nat p0 < 256)%nat) by (apply (Hp0' p0 p'); first [exact Ep | reflexivity]).
    unfold L. rewrite LazyBounds by exact Hp0. fold L.
    set (lo := if Nat.eqb (N.to_nat p0) 0 then 0 else F tbl (N.to_nat p0 - 1)).
    set (hi := F tbl (N.to_nat p0)).
    assert (Hhn : hi <= n) by apply FLeN.
    assert (Hout : forall i, i < n -> has_prefix (e_hash (nth (N.to_nat i) tbl d0)) p = true -> lo <= i < hi).
    { intros i Hi Hpre. apply (BucketRange i (N.to_nat p0) Hi Hp0).
      unfold first_of. rewrite Ep in Hpre. rewrite (prefix_first_byte _ _ _ Hpre). lia. }
    destruct (hi <=? lo) eqn:Ehl.
    + f_equal. symmetry. apply (prefix_empty hs tbl WF). intros i Hi.
      destruct (has_prefix (e_hash (nth (N.to_nat i) tbl d0)) p) eqn:Epre; [|reflexivity].
      specialize (Hout i Hi Epre). lia.
    + set (target := pad_to hs p).
      set (below := fun mid => match lazy_name hs L mid with None => None | Some nm => Some (is_lt (bytes_cmp nm target)) end).
      assert (Bv : forall i, i < n -> below i = Some (is_lt (bytes_cmp (e_hash (nth (N.to_nat i) tbl d0)) target))).
      { intros i Hi. unfold below, L. now rewrite LazyName by exact Hi. }
      assert (Sp : lb_spec below lo hi (lower_bound (bs_fuel lo hi) below lo hi)).
      { apply lower_bound_fuel; [lia| |].
        - intros i j Hi Hij Hj Eb. rewrite Bv in * by lia. f_equal. injection Eb as Eb.
          destruct (N.eq_dec i j) as [->|Hne]; [exact Eb|].
          assert (Hs := HashSorted i j ltac:(lia) ltac:(lia)).
          unfold is_lt in *. destruct (bytes_cmp (e_hash (nth (N.to_nat j) tbl d0)) target) eqn:Cj; try discriminate.
          now rewrite (bytes_cmp_trans _ _ _ Hs Cj).
        - intros i Hi Hj. rewrite Bv by lia. discriminate. }
      destruct (lower_bound (bs_fuel lo hi) below lo hi) as [k| | |]; cbn in Sp; try contradiction.
      destruct Sp as (Hk & Hbelow & Habove).
      assert (Run := prefix_run hs tbl WF p lo k hi ltac:(lia) ltac:(lia) Hhn Hout).
      assert (Hb' : forall i, lo <= i -> i < k -> bytes_cmp (e_hash (nth (N.to_nat i) tbl d0)) (pad_to hs p) = Lt).
      { intros i Hi1 Hi2. specialize (Hbelow i Hi1 Hi2). rewrite Bv in Hbelow by lia. injection Hbelow as Hb.
        fold target. unfold is_lt in Hb. destruct (bytes_cmp (e_hash (nth (N.to_nat i) tbl d0)) target); congruence. }
      assert (Ha' : forall i, k <= i -> i < hi -> bytes_cmp (e_hash (nth (N.to_nat i) tbl d0)) (pad_to hs p) <> Lt).
      { intros i Hi1 Hi2. specialize (Habove i Hi1 Hi2). rewrite Bv in Habove by lia. injection Habove as Ha.
        fold target. unfold is_lt in Ha. destruct (bytes_cmp (e_hash (nth (N.to_nat i) tbl d0)) target); congruence. }
      specialize (Run Hb' Ha').
      destruct (hi <=? k) eqn:Ehk.
      * f_equal. rewrite <- Run. replace (N.to_nat (hi - k)) with 0%nat by lia. reflexivity.
      * rewrite lazy_prefix_walk_ok by lia. f_equal. exact Run.
Qed.

End PrefixLazy.

(* ---- MemoryIndex.EntriesWithPrefix ---- *)
Section PrefixMemory.
Variable hs : nat.
Variable Hsz : nat -> bytes -> bytes.
Variable tbl : list entry.
Variable pack sum : bytes.
Hypothesis WF : wf_tbl hs tbl.
Hypothesis Hpack : List.length pack = hs.

Let H := Hsz hs.
Let n : N := N.of_nat (List.length tbl).
Let HS : N := N.of_nat hs.
Let m := spec_index tbl pack sum.
Set Default Proof Using "hs Hsz tbl pack sum WF Hpack".

Let NameAt := name_at_ok hs Hsz tbl pack sum WF Hpack.
Let EntryAt := entry_at_ok hs Hsz tbl pack sum WF Hpack.
Let BucketSome := bucket_some hs Hsz tbl pack sum WF Hpack.
Let BucketNone := bucket_none hs Hsz tbl pack sum WF Hpack.
Let PosLt := pos_lt hs Hsz tbl pack sum WF Hpack.
Let PosSorted := pos_sorted hs Hsz tbl pack sum WF Hpack.
Let GLen := G_len hs Hsz tbl pack sum WF Hpack.
Let GIn := G_in hs Hsz tbl pack sum WF Hpack.
Let FMono := F_mono hs Hsz tbl pack sum WF Hpack.
Let FLe := F_le hs Hsz tbl pack sum WF Hpack.
Let Entries := mem_entries_map hs Hsz tbl pack sum WF Hpack.
Let BucketRange := bucket_range hs H tbl pack rev0 WF Hpack (rev0_ok hs Hsz tbl pack sum WF Hpack).

Lemma names_len k : blen (b_names (bucket_of tbl k)) = cnt tbl k * HS.
Proof.
  unfold bucket_of. cbn [b_names]. rewrite (blen_flat_map e_hash HS), GLen; [reflexivity|].
  intros e He. apply (blen_hash hs H tbl pack WF Hpack). now apply (GIn k).
Qed.

Lemma HS_pos : 0 < HS.
Proof. pose proof (wf_hs _ _ WF). unfold HS. lia. Qed.

Lemma mem_prefix_walk_ok p k : forall c pos,
  pos <= cnt tbl k -> (N.to_nat (cnt tbl k - pos) < c)%nat ->
  mem_prefix_walk hs m (bucket_of tbl k) p pos c
  = (take_while (fun e => has_prefix (e_hash e) p)
       (firstn (N.to_nat (cnt tbl k - pos)) (skipn (N.to_nat (Fp tbl k + pos)) tbl)), None).
Proof.
  pose proof HS_pos as Hpos.
  induction c as [|c IH]; intros pos Hp Hc; [lia|]. cbn [mem_prefix_walk]. fold HS.
  rewrite names_len.
  destruct (N.eq_dec pos (cnt tbl k)) as [->|Hne].
  - replace (cnt tbl k * HS <? cnt tbl k * HS + HS) with true by lia.
    rewrite N.sub_diag. reflexivity.
  - assert (Hlt : pos < cnt tbl k) by lia.
    assert (Hmul : (pos + 1) * HS <= cnt tbl k * HS) by (apply N.mul_le_mono_r; lia).
    replace (cnt tbl k * HS <? pos * HS + HS) with false by lia.
    rewrite NameAt, EntryAt by exact Hlt.
    pose proof (PosLt k pos Hlt) as Hg.
    assert (Hl : (N.to_nat (Fp tbl k + pos) < List.length tbl)%nat) by (unfold n in Hg; lia).
    rewrite (skipn_nth_cons tbl (N.to_nat (Fp tbl k + pos)) d0 Hl).
    replace (N.to_nat (cnt tbl k - pos)) with (S (N.to_nat (cnt tbl k - (pos + 1)))) by lia.
    cbn [firstn take_while].
    destruct (has_prefix (e_hash (nth (N.to_nat (Fp tbl k + pos)) tbl d0)) p); cbn [negb]; [|reflexivity].
    rewrite IH by lia.
    replace (N.to_nat (Fp tbl k + (pos + 1))) with (S (N.to_nat (Fp tbl k + pos))) by lia. reflexivity.
Qed.

Theorem mem_prefix_map p : wf_prefix p -> mem_prefix hs m p = (with_prefix tbl p, None).
Proof.
  intros Hwp. pose proof HS_pos as Hpos.
  assert (Hp0' : forall y r, p = y :: r -> (N.to_nat y < 256)%nat).
  { intros y r E. assert (Hy : y < 256) by (apply Hwp; rewrite E; now left). lia. }
  unfold mem_prefix.
  destruct p as [|p0 p'] eqn:Ep.
  - unfold m. rewrite Entries. f_equal. symmetry. apply filter_prefix_nil.
  - rewrite <- Ep in *.
    assert (Hp0 : (N.to_nat p0 < 256)%nat) by (apply (Hp0' p0 p'); first [exact Ep | reflexivity]).
    set (k := N.to_nat p0) in *.
    pose proof (FMono k) as Hfm. pose proof (FLe k) as Hfl. fold n in Hfl.
    assert (Hout : forall i, i < n -> has_prefix (e_hash (nth (N.to_nat i) tbl d0)) p = true -> Fp tbl k <= i < F tbl k).
    { intros i Hi Hpre. apply (BucketRange i k Hi Hp0).
      unfold first_of. rewrite Ep in Hpre. rewrite (prefix_first_byte _ _ _ Hpre). unfold k. lia. }
    destruct (N.eq_dec (cnt tbl k) 0) as [Hc|Hc].
    + unfold m. rewrite (BucketNone k Hp0 Hc). f_equal. symmetry. apply (prefix_empty hs tbl WF). intros i Hi.
      destruct (has_prefix (e_hash (nth (N.to_nat i) tbl d0)) p) eqn:Epre; [|reflexivity].
      specialize (Hout i Hi Epre). unfold cnt in Hc. lia.
    + destruct (BucketSome k Hp0 Hc) as (r & R1 & R2 & R3). unfold m. rewrite R1. cbv zeta. rewrite R3. fold m.
      fold HS. rewrite names_len. rewrite N.div_mul by lia.
      set (target := pad_to hs p).
      set (below := fun mid => Some (is_lt (bytes_cmp (name_at hs (bucket_of tbl k) mid) target))).
      assert (Bv : forall i, i < cnt tbl k -> below i = Some (is_lt (bytes_cmp (e_hash (nth (N.to_nat (Fp tbl k + i)) tbl d0)) target))).
      { intros i Hi. unfold below. now rewrite NameAt by exact Hi. }
      assert (Sp : lb_spec below 0 (cnt tbl k) (lower_bound (bs_fuel 0 (cnt tbl k)) below 0 (cnt tbl k))).
      { apply lower_bound_fuel; [lia| |].
        - intros i j Hi Hij Hj Eb. rewrite Bv in * by lia. f_equal. injection Eb as Eb.
          destruct (N.eq_dec i j) as [->|Hne]; [exact Eb|].
          assert (Hs := PosSorted (Fp tbl k + i) (Fp tbl k + j) ltac:(lia) (PosLt k j Hj)).
          unfold is_lt in *. destruct (bytes_cmp (e_hash (nth (N.to_nat (Fp tbl k + j)) tbl d0)) target) eqn:Cj; try discriminate.
          now rewrite (bytes_cmp_trans _ _ _ Hs Cj).
        - intros i Hi Hj. discriminate. }
      destruct (lower_bound (bs_fuel 0 (cnt tbl k)) below 0 (cnt tbl k)) as [lo| | |]; cbn in Sp; try contradiction.
      destruct Sp as (Hk & Hbelow & Habove).
      rewrite mem_prefix_walk_ok by lia. f_equal.
      assert (Run := prefix_run hs tbl WF p (Fp tbl k) (Fp tbl k + lo) (F tbl k) ltac:(lia) ltac:(unfold cnt in *; lia) Hfl Hout).
      replace (F tbl k - (Fp tbl k + lo)) with (cnt tbl k - lo) in Run by (unfold cnt; lia).
      apply Run.
      * intros i Hi1 Hi2. specialize (Hbelow (i - Fp tbl k) ltac:(lia) ltac:(lia)). rewrite Bv in Hbelow by lia.
        replace (Fp tbl k + (i - Fp tbl k)) with i in Hbelow by lia. injection Hbelow as Hb.
        fold target. unfold is_lt in Hb. destruct (bytes_cmp (e_hash (nth (N.to_nat i) tbl d0)) target); congruence.
      * intros i Hi1 Hi2. specialize (Habove (i - Fp tbl k) ltac:(lia) ltac:(unfold cnt; lia)). rewrite Bv in Habove by (unfold cnt; lia).
        replace (Fp tbl k + (i - Fp tbl k)) with i in Habove by lia. injection Habove as Ha.
        fold target. unfold is_lt in Ha. destruct (bytes_cmp (e_hash (nth (N.to_nat i) tbl d0)) target); congruence.
Qed.

End PrefixMemory.
