(* Proofs/C49Segs.v — the path-glob semantics on a path joined with slashes is
   a component-wise matching of segments against components. *)
From Coq Require Import List NArith Bool Lia PeanoNat.
From GoGit Require Import Base.Out Model.Gitignore Spec.Glob Spec.PathGlob Spec.GitIgnore
     Proofs.C49Total Proofs.C49Wild Proofs.C49Path Proofs.C49Names Proofs.C49Walk.
Import ListNotations.
Local Open Scope N_scope.

Inductive pseg := SReg (g : list item) | SDirs.

Fixpoint flatten (F : list pseg) : list pitem :=
  match F with
  | [] => []
  | SReg g :: r => map PIt g ++ match r with [] => [] | _ => PSep :: flatten r end
  | SDirs :: r => PDirs :: flatten r
  end.

(* segments against the components of a non-empty path *)
Inductive SMatch : list pseg -> list bytes -> Prop :=
| SM_last : forall g c, Gmatch g c -> SMatch [SReg g] [c]
| SM_reg : forall g c F cs, F <> [] -> Gmatch g c -> SMatch F cs -> SMatch (SReg g :: F) (c :: cs)
| SM_dirs0 : forall F cs, SMatch F cs -> SMatch (SDirs :: F) cs
| SM_dirsS : forall F c cs, SMatch (SDirs :: F) cs -> SMatch (SDirs :: F) (c :: cs).

Lemma SMatch_nonempty F cs : SMatch F cs -> cs <> [].
Proof. induction 1; try discriminate; assumption. Qed.

Lemma SMatch_dirs_iff F cs : SMatch (SDirs :: F) cs <-> exists k, SMatch F (skipn k cs).
Proof.
  split.
  - intros H. remember (SDirs :: F) as G eqn:EG. induction H; inversion EG; subst.
    + exists O. assumption.
    + destruct (IHSMatch eq_refl) as [k Hk]. exists (S k). exact Hk.
  - intros [k Hk]. revert cs Hk. induction k as [|k IH]; intros cs Hk.
    + now apply SM_dirs0.
    + destruct cs as [|c cs']; [cbn in Hk; now apply SM_dirs0|]. apply SM_dirsS. now apply IH.
Qed.

(* ------------------------------------------------------------------ *)
(* one segment                                                         *)

Lemma Gmatch_noslash_split g : forall c, Gmatch (IStar :: g) c -> noslash c ->
  exists s c1, c = s ++ c1 /\ noslash s /\ noslash c1 /\ Gmatch g c1.
Proof.
  intros c H Hc. apply Gmatch_star_iff in H. destruct H as (c1 & (s & ->) & Hm).
  exists s, c1. split; [reflexivity|]. unfold noslash in *.
  repeat split; try assumption; intros Hin; apply Hc; apply in_or_app; tauto.
Qed.

Lemma PM_seg g : forall rest t,
  PMatch (map PIt g ++ rest) t <->
  exists c t', t = c ++ t' /\ noslash c /\ Gmatch g c /\ PMatch rest t'.
Proof.
  induction g as [|it g IH]; intros rest t; cbn [map app].
  - split.
    + intros H. exists [], t. repeat split; [apply noslash_nil|constructor|assumption].
    + intros (c & t' & -> & _ & Hg & Hm). apply Gmatch_nil_inv in Hg. now subst.
  - destruct (is_star it) eqn:Es.
    + destruct it; try discriminate. rewrite PM_star_iff. split.
      * intros (t1 & (s & -> & Hs) & Hm). apply IH in Hm.
        destruct Hm as (c1 & t' & -> & Hc1 & Hg & Hr).
        exists (s ++ c1), t'. split; [now rewrite app_assoc|]. split; [now apply noslash_app|].
        split; [now constructor|assumption].
      * intros (c & t' & -> & Hc & Hg & Hr).
        destruct (Gmatch_noslash_split _ _ Hg Hc) as (s & c1 & -> & Hs & Hc1 & Hg1).
        exists (c1 ++ t'). split; [exists s; split; [now rewrite app_assoc|assumption]|].
        apply IH. exists c1, t'. repeat split; assumption.
    + split.
      * intros H. apply PM_item_inv in H; [|assumption].
        destruct H as (c0 & t0 & -> & Hok & Hc0 & Hm). apply IH in Hm.
        destruct Hm as (c1 & t' & -> & Hc1 & Hg & Hr).
        exists (c0 :: c1), t'. split; [reflexivity|]. split; [now apply noslash_cons|].
        split; [now constructor|assumption].
      * intros (c & t' & -> & Hc & Hg & Hr).
        apply Gmatch_one_inv in Hg; [|assumption].
        destruct Hg as (c0 & c1 & -> & Hok & Hg1).
        apply noslash_cons_inv in Hc. destruct Hc as [Hc0 Hc1].
        cbn [app]. constructor; try assumption.
        apply IH. exists c1, t'. repeat split; assumption.
Qed.

(* ------------------------------------------------------------------ *)
(* joined paths                                                        *)

Lemma join_cons c cs : cs <> [] -> join_slash (c :: cs) = c ++ 47 :: join_slash cs.
Proof. destruct cs; [congruence|reflexivity]. Qed.

Lemma comp_ok_noslash c : comp_ok c = true -> noslash c /\ c <> [].
Proof.
  unfold comp_ok. rewrite !andb_true_iff. intros [[H1 H2] _]. split.
  - apply noslash_has_slash. now apply negb_true_iff in H2.
  - destruct c; [discriminate|discriminate].
Qed.

Lemma first_slash' s : forall w a b, noslash s -> s ++ 47 :: a = w ++ 47 :: b ->
  (w = s /\ b = a) \/ exists x, w = s ++ 47 :: x /\ a = x ++ 47 :: b.
Proof.
  induction s as [|c s IH]; intros w a b Hs H.
  - destruct w as [|y w]; cbn in H; inversion H; subst.
    + left. split; reflexivity.
    + right. exists w. split; reflexivity.
  - apply noslash_cons_inv in Hs. destruct Hs as [Hc Hs].
    destruct w as [|y w]; cbn in H; inversion H; subst; [congruence|].
    destruct (IH _ _ _ Hs H2) as [[-> ->]|(x & -> & ->)]; [left; split; reflexivity|].
    right. exists x. split; reflexivity.
Qed.

Lemma join_noslash_single cs : path_ok cs = true -> noslash (join_slash cs) -> (List.length cs <= 1)%nat.
Proof.
  destruct cs as [|c [|c2 r]]; cbn [List.length]; try lia.
  intros _ H. exfalso. rewrite join_cons in H by discriminate. apply H.
  apply in_or_app. right. now left.
Qed.

Lemma join_split cs : path_ok cs = true -> forall s t', join_slash cs = s ++ 47 :: t' ->
  exists k, (0 < k < List.length cs)%nat /\ s = join_slash (firstn k cs) /\ t' = join_slash (skipn k cs).
Proof.
  induction cs as [|c cs IH]; intros Hok s t' H.
  - destruct s; discriminate.
  - cbn [path_ok forallb] in Hok. apply andb_true_iff in Hok. destruct Hok as [Hc Hok].
    destruct (comp_ok_noslash _ Hc) as [Hns _].
    destruct cs as [|c2 r].
    + exfalso. cbn in H. apply Hns. rewrite H. apply in_or_app. right. now left.
    + rewrite join_cons in H by discriminate.
      destruct (first_slash' _ _ _ _ Hns H) as [[-> ->]|(x & -> & Hx)].
      * exists 1%nat. cbn [List.length]. split; [lia|]. split; reflexivity.
      * destruct (IH Hok _ _ Hx) as (k & Hk & -> & ->).
        exists (S k). cbn [List.length] in *. split; [lia|]. split; [|reflexivity].
        cbn [firstn]. rewrite join_cons; [reflexivity|].
        destruct k; [lia|]. discriminate.
Qed.

Lemma join_app_split cs k : (0 < k < List.length cs)%nat ->
  join_slash cs = join_slash (firstn k cs) ++ 47 :: join_slash (skipn k cs).
Proof.
  revert k. induction cs as [|c cs IH]; intros k Hk; [cbn in Hk; lia|].
  destruct k as [|k]; [lia|]. cbn [List.length] in Hk.
  destruct cs as [|c2 r]; [cbn in Hk; lia|].
  rewrite (join_cons c (c2 :: r)) by discriminate. cbn [skipn].
  destruct k as [|k].
  - reflexivity.
  - change (firstn (S (S k)) (c :: c2 :: r)) with (c :: firstn (S k) (c2 :: r)).
    rewrite (join_cons c (firstn (S k) (c2 :: r))) by (cbn; discriminate).
    rewrite <- app_assoc. cbn [app]. f_equal. f_equal.
    apply IH. cbn [List.length] in *. lia.
Qed.

(* ------------------------------------------------------------------ *)
(* the whole pattern                                                   *)

(* no "**" at the end *)
Fixpoint wfF (F : list pseg) : bool :=
  match F with
  | [] => false
  | [SReg _] => true
  | [SDirs] => false
  | _ :: r => wfF r
  end.

Lemma wfF_cons_ne x F : F <> [] -> wfF (x :: F) = wfF F.
Proof. destruct F; [congruence|]. destruct x; reflexivity. Qed.

Lemma flatten_match : forall F cs, wfF F = true -> path_ok cs = true -> cs <> [] ->
  (PMatch (flatten F) (join_slash cs) <-> SMatch F cs).
Proof.
  induction F as [|x F IH]; intros cs Hwf Hok Hne; [discriminate|].
  destruct x as [g|].
  - destruct F as [|y F'].
    + (* the last segment *)
      cbn [flatten]. rewrite PM_seg. split.
      * intros (c & t' & E & Hc & Hg & Hm). apply PM_nil_inv in Hm. subst t'.
        rewrite app_nil_r in E.
        assert (Hl : (List.length cs <= 1)%nat) by (apply join_noslash_single; [assumption|now rewrite E]).
        destruct cs as [|c0 [|c1 r]]; [congruence| |cbn in Hl; lia].
        cbn in E. subst. now constructor.
      * intros H. inversion H; subst; [|congruence].
        exists c, []. cbn [join_slash]. rewrite app_nil_r.
        cbn in Hok. rewrite andb_true_r in Hok. destruct (comp_ok_noslash _ Hok) as [Hns _].
        repeat split; try assumption. constructor.
    + assert (Hwf' : wfF (y :: F') = true) by (rewrite wfF_cons_ne in Hwf by discriminate; exact Hwf).
      change (flatten (SReg g :: y :: F')) with (map PIt g ++ PSep :: flatten (y :: F')).
      rewrite PM_seg. split.
      * intros (c & t' & E & Hc & Hg & Hm). apply PM_sep_inv in Hm. destruct Hm as (t'' & -> & Hm).
        destruct cs as [|c0 cs']; [congruence|].
        cbn [path_ok forallb] in Hok. apply andb_true_iff in Hok. destruct Hok as [Hc0 Hok'].
        destruct (comp_ok_noslash _ Hc0) as [Hns0 _].
        destruct cs' as [|c1 r].
        { exfalso. cbn in E. apply Hns0. rewrite E. apply in_or_app. right. now left. }
        rewrite join_cons in E by discriminate.
        destruct (first_slash_unique _ _ _ _ Hns0 Hc E) as [E1 E2]. subst c t''.
        apply SM_reg; [discriminate|assumption|].
        apply IH; [assumption|assumption|discriminate|assumption].
      * intros H. inversion H; subst.
        cbn [path_ok forallb] in Hok. apply andb_true_iff in Hok. destruct Hok as [Hc0 Hok'].
        destruct (comp_ok_noslash _ Hc0) as [Hns0 _].
        pose proof (SMatch_nonempty _ _ H5) as Hne'.
        exists c, (47 :: join_slash cs0). split; [now apply join_cons|].
        repeat split; try assumption. constructor.
        apply IH; assumption.
  - (* "**/" *)
    assert (HFne : F <> []) by (destruct F; [discriminate|discriminate]).
    assert (Hwf' : wfF F = true) by (rewrite wfF_cons_ne in Hwf by assumption; exact Hwf).
    cbn [flatten]. rewrite PM_dirs_iff, SMatch_dirs_iff. split.
    + intros [H|(s & t' & E & H)].
      * exists O. apply IH; assumption.
      * destruct (join_split _ Hok _ _ E) as (k & Hk & -> & ->).
        exists k. apply IH; [assumption|now apply path_ok_skipn| |assumption].
        intros E0. assert (List.length (skipn k cs) = O) by now rewrite E0.
        rewrite skipn_length in H0. lia.
    + intros [k Hk]. pose proof (SMatch_nonempty _ _ Hk) as Hne'.
      destruct k as [|k]; [left; apply IH; assumption|].
      assert (Hlen : (S k < List.length cs)%nat).
      { destruct (Nat.lt_ge_cases (S k) (List.length cs)); [assumption|].
        rewrite skipn_all2 in Hne' by assumption. congruence. }
      right. exists (join_slash (firstn (S k) cs)), (join_slash (skipn (S k) cs)).
      split; [apply join_app_split; lia|].
      apply IH; [assumption|now apply path_ok_skipn|assumption|assumption].
Qed.
