(* Proofs/BitPack.v — reusable lemmas about fields packed into machine words with
   lor / land / shiftl / shiftr (binary naturals, stdlib only).

   Two patterns occur in git's on-disk formats:
     * two fields in one word:   w = low | (high << k)     with low < 2^k
       (commit-graph: commit time | generation << 34);
     * a flag bit on a position: w = v | 2^k               with v < 2^k
       (commit-graph: parentOctopusUsed / parentLast on 31-bit positions, the
        generation-data overflow bit).
   Reading back is   w & (2^k - 1),  w >> k,  w & 2^k.                         *)
From Coq Require Import NArith Bool Lia.
Local Open Scope N_scope.

Lemma testbit_above : forall a k i, a < 2 ^ k -> k <= i -> N.testbit a i = false.
Proof.
  intros a k i H Hi. destruct (N.eq_dec a 0) as [->|Ha]; [apply N.bits_0|].
  apply N.bits_above_log2. apply N.log2_lt_pow2; [lia|].
  eapply N.lt_le_trans; [exact H|]. apply N.pow_le_mono_r; lia.
Qed.

(* a value below 2^k shares no bit with a value shifted left by k *)
Lemma land_shiftl_low : forall a b k, a < 2 ^ k -> N.land a (N.shiftl b k) = 0.
Proof.
  intros a b k H. apply N.bits_inj. intros i. rewrite N.land_spec, N.bits_0.
  destruct (N.lt_ge_cases i k) as [Hi|Hi].
  - rewrite N.shiftl_spec_low by exact Hi. apply andb_false_r.
  - rewrite (testbit_above a k i H Hi). reflexivity.
Qed.

Lemma lor_shiftl_add : forall a b k, a < 2 ^ k -> N.lor a (N.shiftl b k) = a + b * 2 ^ k.
Proof.
  intros a b k H. pose proof (land_shiftl_low a b k H) as D.
  rewrite <- (N.lxor_lor _ _ D), <- (N.add_nocarry_lxor _ _ D). now rewrite N.shiftl_mul_pow2.
Qed.

(* ---- two fields in one word *)
Lemma unpack_low : forall a b k, a < 2 ^ k -> N.land (N.lor a (N.shiftl b k)) (N.ones k) = a.
Proof.
  intros a b k H. rewrite (lor_shiftl_add a b k H), N.land_ones.
  rewrite N.mod_add by (apply N.pow_nonzero; lia). now apply N.mod_small.
Qed.

Lemma unpack_high : forall a b k, a < 2 ^ k -> N.shiftr (N.lor a (N.shiftl b k)) k = b.
Proof.
  intros a b k H. rewrite (lor_shiftl_add a b k H), N.shiftr_div_pow2.
  rewrite N.div_add by (apply N.pow_nonzero; lia). rewrite (N.div_small a) by exact H. reflexivity.
Qed.

Lemma pack_bound : forall a b k m, a < 2 ^ k -> b < 2 ^ m -> N.lor a (N.shiftl b k) < 2 ^ (k + m).
Proof.
  intros a b k m Ha Hb. rewrite (lor_shiftl_add a b k Ha), N.pow_add_r.
  assert (0 < 2 ^ k) by (apply N.neq_0_lt_0, N.pow_nonzero; lia). nia.
Qed.

Lemma shiftl_bound : forall b k m, b < 2 ^ m -> N.shiftl b k < 2 ^ (k + m).
Proof.
  intros b k m Hb. rewrite N.shiftl_mul_pow2, N.pow_add_r.
  assert (0 < 2 ^ k) by (apply N.neq_0_lt_0, N.pow_nonzero; lia). nia.
Qed.

(* ---- a flag bit above a k-bit value *)
Lemma mask_small : forall a k, a < 2 ^ k -> N.land a (N.ones k) = a.
Proof. intros a k H. rewrite N.land_ones. now apply N.mod_small. Qed.

Lemma flag_absent : forall a k, a < 2 ^ k -> N.land a (2 ^ k) = 0.
Proof. intros a k H. rewrite <- (N.shiftl_1_l k). now apply land_shiftl_low. Qed.

Lemma flag_add : forall a k, a < 2 ^ k -> N.lor a (2 ^ k) = a + 2 ^ k.
Proof. intros a k H. rewrite <- (N.shiftl_1_l k), (lor_shiftl_add a 1 k H), N.shiftl_1_l, N.mul_1_l. reflexivity. Qed.

Lemma flag_present : forall a k, a < 2 ^ k -> N.land (N.lor a (2 ^ k)) (2 ^ k) = 2 ^ k.
Proof.
  intros a k H. rewrite N.land_lor_distr_l, (flag_absent a k H), N.land_diag. apply N.lor_0_l.
Qed.

Lemma flag_strip : forall a k, a < 2 ^ k -> N.land (N.lor a (2 ^ k)) (N.ones k) = a.
Proof. intros a k H. rewrite <- (N.shiftl_1_l k). now apply unpack_low. Qed.

Lemma flag_bound : forall a k, a < 2 ^ k -> N.lor a (2 ^ k) < 2 ^ (k + 1).
Proof. intros a k H. rewrite (flag_add a k H), N.pow_add_r. change (2 ^ 1) with 2. lia. Qed.

(* the k-bit mask of any word is below 2^k *)
Lemma mask_bound : forall a k, N.land a (N.ones k) < 2 ^ k.
Proof. intros a k. rewrite N.land_ones. apply N.mod_lt, N.pow_nonzero. lia. Qed.

(* ---- unsigned subtraction / addition modulo 2^w (uint64 wrap-around): (t + (g - t)) = g *)
Lemma wrap_sub_add : forall g t M, g < M -> t < M -> (t + (g + M - t) mod M) mod M = g.
Proof.
  intros g t M Hg Ht. assert (HM : M <> 0) by lia.
  destruct (N.le_gt_cases t g) as [Hle|Hgt].
  - replace (g + M - t) with ((g - t) + 1 * M) by lia. rewrite N.mod_add by exact HM.
    rewrite (N.mod_small (g - t)) by lia. replace (t + (g - t)) with g by lia. now apply N.mod_small.
  - rewrite (N.mod_small (g + M - t)) by lia. replace (t + (g + M - t)) with (g + 1 * M) by lia.
    rewrite N.mod_add by exact HM. now apply N.mod_small.
Qed.

(* when the wrapped difference is small, no wrap happened *)
Lemma wrap_sub_small : forall g t M B, g < M -> t < M -> t + B <= M -> (g + M - t) mod M < B -> t + (g + M - t) mod M = g.
Proof.
  intros g t M B Hg Ht HB H. assert (HM : M <> 0) by lia.
  destruct (N.le_gt_cases t g) as [Hle|Hgt].
  - replace (g + M - t) with ((g - t) + 1 * M) in * by lia. rewrite N.mod_add in * by exact HM.
    rewrite (N.mod_small (g - t)) in * by lia. lia.
  - rewrite (N.mod_small (g + M - t)) in H by lia. lia.
Qed.
