(* Proofs/C20.v — the cached index view equals the on-disk index: invariant of the
   aliasing model for every history (deep copyIndex), for histories without writes
   through returned entries (shallow copyIndex), and the shallow counter-example. *)
From Coq Require Import List NArith Arith Lia Bool.
From GoGit Require Import Base.Out Model.IndexCache.
Import ListNotations.

(* ---- the statement ---- *)
(* the cache is consulted only when its key equals the file's key; then it must hold the file's content *)
Definition cache_ok (s : st) : Prop :=
  match cache s, disk s with
  | Some (addrs, k), Some (content, k') => k = k' -> view s addrs = content
  | _, _ => True
  end.
(* what Index() returns now is what decoding .git/index returns *)
Definition reads_disk (deep : bool) (s : st) : Prop := fst (read_now deep s) = disk_content s.

Fixpoint no_mutate (ops : list op) : bool :=
  match ops with
  | [] => true
  | OMutate _ _ _ :: _ => false
  | _ :: r => no_mutate r
  end.

(* ---- heap lemmas ---- *)
Definition bounded (s : st) : Prop := forall a v, In (a, v) (heap s) -> a < next s.

Lemma lookup_app_fresh a n vals h :
  a < n -> lookup a (combine (seq n (List.length vals)) vals ++ h) = lookup a h.
Proof.
  revert n. induction vals as [|v vals IH]; intros n Ha; cbn; [reflexivity|].
  destruct (Nat.eqb a n) eqn:E; [apply Nat.eqb_eq in E; lia|]. apply IH. lia.
Qed.

Lemma deref_alloc_old s vals a : a < next s -> deref (snd (alloc vals s)) a = deref s a.
Proof. intros Ha. unfold deref, alloc. cbn [snd heap]. now rewrite lookup_app_fresh. Qed.

Lemma view_alloc_old s vals l :
  Forall (fun a => a < next s) l -> view (snd (alloc vals s)) l = view s l.
Proof.
  intros Hl. unfold view. apply map_ext_in. intros a Ha.
  apply deref_alloc_old. rewrite Forall_forall in Hl. now apply Hl.
Qed.

Lemma view_new_aux vals : forall n h,
  map (fun a => match lookup a (combine (seq n (List.length vals)) vals ++ h) with Some v => v | None => (0%N, 0%N) end)
      (seq n (List.length vals)) = vals.
Proof.
  induction vals as [|x vals IH]; intros n h; [reflexivity|].
  cbn [List.length seq combine app map lookup]. rewrite Nat.eqb_refl. f_equal.
  rewrite <- (IH (S n) h) at 2. apply map_ext_in. intros a Ha. apply in_seq in Ha.
  destruct (Nat.eqb a n) eqn:E; [apply Nat.eqb_eq in E; lia|reflexivity].
Qed.

Lemma view_alloc_new s vals : view (snd (alloc vals s)) (fst (alloc vals s)) = vals.
Proof. unfold view, alloc, deref. cbn [fst snd heap]. apply view_new_aux. Qed.

(* ---- invariants ---- *)
Definition lt_all (n : nat) (l : list nat) : Prop := Forall (fun a => a < n) l.

Record WF (s : st) : Prop := mkWF {
  wf_handles : forall l, In l (handles s) -> lt_all (next s) l;
  wf_cache : match cache s with Some (l, k) => lt_all (next s) l /\ k <= clock s | None => True end;
  wf_disk : match disk s with Some (_, k) => k <= clock s | None => True end }.

(* deep copies: no cell of the cache is reachable from a caller's slice *)
Definition SEP (s : st) : Prop :=
  match cache s with
  | Some (c, _) => forall h a, In h (handles s) -> In a c -> ~ In a h
  | None => True
  end.

Lemma lt_all_mono n m l : lt_all n l -> n <= m -> lt_all m l.
Proof. unfold lt_all. rewrite !Forall_forall. intros H Hle a Ha. specialize (H a Ha). lia. Qed.

Lemma lt_all_seq n k : lt_all (n + k) (seq n k).
Proof. unfold lt_all. rewrite Forall_forall. intros a Ha. apply in_seq in Ha. lia. Qed.

Lemma alloc_fst vals s : fst (alloc vals s) = seq (next s) (List.length vals).
Proof. reflexivity. Qed.
Lemma alloc_next vals s : next (snd (alloc vals s)) = next s + List.length vals.
Proof. reflexivity. Qed.
Lemma alloc_disk vals s : disk (snd (alloc vals s)) = disk s. Proof. reflexivity. Qed.
Lemma alloc_clock vals s : clock (snd (alloc vals s)) = clock s. Proof. reflexivity. Qed.
Lemma alloc_cache vals s : cache (snd (alloc vals s)) = cache s. Proof. reflexivity. Qed.
Lemma alloc_handles vals s : handles (snd (alloc vals s)) = handles s. Proof. reflexivity. Qed.

Lemma view_length s l : List.length (view s l) = List.length l.
Proof. apply map_length. Qed.

Lemma WF_alloc vals s : WF s -> WF (snd (alloc vals s)).
Proof.
  intros [Hh Hc Hd]. split.
  - rewrite alloc_handles, alloc_next. intros l Hl. eapply lt_all_mono; [now apply Hh|lia].
  - rewrite alloc_cache, alloc_next, alloc_clock. destruct (cache s) as [[l k]|]; [|exact I].
    destruct Hc as [Hc Hk]. split; [eapply lt_all_mono; [exact Hc|lia]|exact Hk].
  - now rewrite alloc_disk, alloc_clock.
Qed.

Lemma cache_ok_alloc vals s : WF s -> cache_ok s -> cache_ok (snd (alloc vals s)).
Proof.
  intros [_ Hc _] Hok. unfold cache_ok in *. rewrite alloc_cache, alloc_disk.
  destruct (cache s) as [[l k]|]; [|exact I]. destruct (disk s) as [[c k']|]; [|exact I].
  intros E. rewrite view_alloc_old; [now apply Hok|apply Hc].
Qed.

(* ---- Index() ---- *)
Record index_post (s : st) (l : list nat) (s1 : st) : Prop := mkIP {
  ip_wf : WF s1;
  ip_ok : cache_ok s1;
  ip_handles : handles s1 = handles s;
  ip_disk : disk s1 = disk s;
  ip_l : lt_all (next s1) l;
  ip_view : view s1 l = disk_content s1 }.

Lemma set_cache_fields c s :
  heap (set_cache c s) = heap s /\ next (set_cache c s) = next s /\ disk (set_cache c s) = disk s /\
  clock (set_cache c s) = clock s /\ cache (set_cache c s) = c /\ handles (set_cache c s) = handles s.
Proof. repeat split. Qed.

Lemma view_set_cache c s l : view (set_cache c s) l = view s l.
Proof. reflexivity. Qed.

(* the decode path: fresh cells holding the file's content, cached under the file's key *)
Lemma decode_path s content key :
  WF s -> disk s = Some (content, key) ->
  let s1 := set_cache (Some (fst (alloc content s), key)) (snd (alloc content s)) in
  WF s1 /\ cache_ok s1 /\ view s1 (fst (alloc content s)) = content.
Proof.
  intros Hwf Hd s1. pose proof (WF_alloc content s Hwf) as [Hh Hc Hdk].
  assert (Hv : view s1 (fst (alloc content s)) = content) by apply view_alloc_new.
  split; [|split].
  - split.
    + exact Hh.
    + cbn [cache s1 set_cache]. rewrite alloc_fst. split; [apply lt_all_seq|].
      cbn. destruct Hwf as [_ _ Hd']. rewrite Hd in Hd'. exact Hd'.
    + exact Hdk.
  - unfold cache_ok. cbn [cache disk s1 set_cache]. rewrite alloc_disk, Hd. intros _. exact Hv.
  - exact Hv.
Qed.

Lemma index_core_shallow s :
  WF s -> cache_ok s -> index_post s (fst (index_core false s)) (snd (index_core false s)).
Proof.
  intros Hwf Hok. unfold index_core. destruct (disk s) as [[content key]|] eqn:Hd.
  - assert (Hmiss : forall p, p = (let '(addrs', s1) := alloc content s in copy_index false addrs' (set_cache (Some (addrs', key)) s1)) ->
      index_post s (fst p) (snd p)).
    { intros p ->. destruct (decode_path s content key Hwf Hd) as (W & O & V).
      change (alloc content s) with (fst (alloc content s), snd (alloc content s)). cbn [copy_index fst snd].
      split; auto.
      - destruct W as [_ Hc _]. apply Hc.
      - rewrite V. unfold disk_content. change (disk (set_cache (Some (fst (alloc content s), key)) (snd (alloc content s)))) with (disk s). now rewrite Hd. }
    destruct (cache s) as [[addrs k]|] eqn:Hc; [|now apply Hmiss].
    destruct (Nat.eqb k key) eqn:E; [|now apply Hmiss].
    apply Nat.eqb_eq in E. subst k. cbn [copy_index fst snd].
    assert (Hl : lt_all (next s) addrs) by (destruct Hwf as [_ Hc' _]; rewrite Hc in Hc'; apply Hc').
    assert (Hv : view s addrs = disk_content s)
      by (unfold cache_ok in Hok; rewrite Hc, Hd in Hok; unfold disk_content; rewrite Hd; now apply Hok).
    split; auto.
  - cbn [fst snd].
    assert (W : WF (set_cache None s)) by (destruct Hwf as [Hh _ Hdk]; split; cbn; auto).
    assert (O : cache_ok (set_cache None s)) by (unfold cache_ok; cbn; exact I).
    assert (V : view (set_cache None s) [] = disk_content (set_cache None s)) by (unfold disk_content; cbn; now rewrite Hd).
    split; auto. constructor.
Qed.

(* copyIndex with fresh cells *)
Lemma copy_deep s c :
  WF s -> cache_ok s ->
  let l := fst (alloc (view s c) s) in let s1 := snd (alloc (view s c) s) in
  WF s1 /\ cache_ok s1 /\ view s1 l = view s c /\ lt_all (next s1) l /\ (forall a, In a l -> next s <= a) /\
  handles s1 = handles s /\ disk s1 = disk s /\ cache s1 = cache s /\ next s <= next s1.
Proof.
  intros W O l s1.
  split; [now apply WF_alloc|]. split; [now apply cache_ok_alloc|].
  split; [apply view_alloc_new|]. split.
  { unfold l, s1. rewrite alloc_fst, alloc_next. apply lt_all_seq. }
  split.
  { intros a Ha. unfold l in Ha. rewrite alloc_fst in Ha. apply in_seq in Ha. lia. }
  repeat split. unfold s1. rewrite alloc_next. lia.
Qed.

Definition fresh_for_cache (l : list nat) (s : st) : Prop :=
  match cache s with Some (c, _) => forall a, In a l -> ~ In a c | None => True end.

Lemma index_core_deep s :
  WF s -> SEP s -> cache_ok s ->
  let l := fst (index_core true s) in let s1 := snd (index_core true s) in
  index_post s l s1 /\ SEP s1 /\ fresh_for_cache l s1.
Proof.
  intros Hwf Hsep Hok. unfold index_core. destruct (disk s) as [[content key]|] eqn:Hd.
  - assert (Hmiss : forall p, p = (let '(addrs', s1) := alloc content s in copy_index true addrs' (set_cache (Some (addrs', key)) s1)) ->
      index_post s (fst p) (snd p) /\ SEP (snd p) /\ fresh_for_cache (fst p) (snd p)).
    { intros p ->. destruct (decode_path s content key Hwf Hd) as (W & O & V).
      change (alloc content s) with (fst (alloc content s), snd (alloc content s)). cbn iota. cbn [copy_index].
      set (s' := set_cache (Some (fst (alloc content s), key)) (snd (alloc content s))) in *.
      destruct (copy_deep s' (fst (alloc content s)) W O) as (W1 & O1 & V1 & L1 & F1 & H1 & D1 & C1 & N1).
      set (l := fst (alloc (view s' (fst (alloc content s))) s')) in *.
      set (s1 := snd (alloc (view s' (fst (alloc content s))) s')) in *.
      change (alloc (view s' (fst (alloc content s))) s') with (l, s1). cbn [fst snd].
      assert (Hc1 : cache s1 = Some (seq (next s) (List.length content), key)) by (rewrite C1; reflexivity).
      assert (Hn' : next s' = next s + List.length content) by reflexivity.
      split; [|split].
      - refine (mkIP _ _ _ W1 O1 _ _ L1 _).
        + rewrite H1. reflexivity.
        + rewrite D1. reflexivity.
        + rewrite V1, V. unfold disk_content. rewrite D1. change (disk s') with (disk s). now rewrite Hd.
      - unfold SEP. rewrite Hc1, H1. change (handles s') with (handles s).
        intros h a Hh Ha Hin. apply in_seq in Ha.
        destruct Hwf as [Hhs _ _]. specialize (Hhs h Hh). unfold lt_all in Hhs. rewrite Forall_forall in Hhs.
        specialize (Hhs a Hin). lia.
      - unfold fresh_for_cache. rewrite Hc1. intros a Ha Hin. apply in_seq in Hin. specialize (F1 a Ha). lia. }
    destruct (cache s) as [[addrs k]|] eqn:Hc; [|now apply Hmiss].
    destruct (Nat.eqb k key) eqn:E; [|now apply Hmiss].
    apply Nat.eqb_eq in E. subst k. cbn [copy_index].
    destruct (copy_deep s addrs Hwf Hok) as (W1 & O1 & V1 & L1 & F1 & H1 & D1 & C1 & N1).
    set (l := fst (alloc (view s addrs) s)) in *. set (s1 := snd (alloc (view s addrs) s)) in *.
    change (alloc (view s addrs) s) with (l, s1). cbn [fst snd].
    assert (Hl : lt_all (next s) addrs) by (destruct Hwf as [_ Hc' _]; rewrite Hc in Hc'; apply Hc').
    assert (Hv : view s addrs = disk_content s)
      by (unfold cache_ok in Hok; rewrite Hc, Hd in Hok; unfold disk_content; rewrite Hd; now apply Hok).
    split; [|split].
    + refine (mkIP _ _ _ W1 O1 H1 D1 L1 _). rewrite V1, Hv. unfold disk_content. now rewrite D1.
    + unfold SEP in *. rewrite C1, Hc, H1. rewrite Hc in Hsep. exact Hsep.
    + unfold fresh_for_cache. rewrite C1, Hc. intros a Ha Hin. specialize (F1 a Ha).
      unfold lt_all in Hl. rewrite Forall_forall in Hl. specialize (Hl a Hin). lia.
  - cbn [fst snd].
    assert (W : WF (set_cache None s)) by (destruct Hwf as [Hh _ Hdk]; split; cbn; auto).
    assert (O : cache_ok (set_cache None s)) by (unfold cache_ok; cbn; exact I).
    assert (V : view (set_cache None s) [] = disk_content (set_cache None s)) by (unfold disk_content; cbn; now rewrite Hd).
    split; [|split].
    + refine (mkIP s [] (set_cache None s) W O eq_refl eq_refl _ V). constructor.
    + unfold SEP. cbn. exact I.
    + unfold fresh_for_cache. cbn. exact I.
Qed.

(* ---- list helpers ---- *)
Lemma In_set_nth {A} k (y : A) l x : In x (set_nth k y l) -> x = y \/ In x l.
Proof.
  revert k. induction l as [|z l IH]; intros k H; destruct k; cbn in H; try contradiction.
  - destruct H as [<-|H]; auto. right. now right.
  - destruct H as [<-|H]; [right; now left|]. destruct (IH _ H); auto. right. now right.
Qed.

Lemma In_remove_nth {A} k (l : list A) x : In x (remove_nth k l) -> In x l.
Proof.
  revert k. induction l as [|z l IH]; intros k H; destruct k; cbn in H; try contradiction.
  - now right.
  - destruct H as [<-|H]; [now left|]. right. eapply IH; eauto.
Qed.

Lemma In_insert_by key x l y : In y (insert_by key x l) -> y = x \/ In y l.
Proof.
  induction l as [|z l IH]; cbn; intros H.
  - destruct H as [<-|[]]. now left.
  - destruct (N.leb (key x) (key z)); cbn in H.
    + destruct H as [<-|H]; auto.
    + destruct H as [<-|H]; [right; now left|]. destruct (IH H) as [->|H']; [now left|right; now right].
Qed.

Lemma In_sort_addrs s l y : In y (sort_addrs s l) -> In y l.
Proof.
  unfold sort_addrs. induction l as [|x l IH]; cbn; intros H; [contradiction|].
  apply In_insert_by in H. destruct H as [->|H]; auto.
Qed.

Lemma lt_all_In n l : lt_all n l <-> forall a, In a l -> a < n.
Proof. unfold lt_all. apply Forall_forall. Qed.

(* ---- one step, deep copies: every operation keeps the invariant ---- *)
Definition Inv (s : st) : Prop := WF s /\ SEP s /\ cache_ok s.

Lemma deref_cons s a v b nx dk ck ca hs :
  b <> a -> deref (mkSt ((a, v) :: heap s) nx dk ck ca hs) b = deref s b.
Proof.
  intros Hne. unfold deref. cbn [heap lookup].
  destruct (Nat.eqb b a) eqn:E; [apply Nat.eqb_eq in E; contradiction|reflexivity].
Qed.

Lemma Inv_init : Inv init.
Proof.
  split; [|split].
  - split; cbn; auto. intros l [].
  - exact I.
  - exact I.
Qed.

Lemma step_deep_inv s o : Inv s -> Inv (step true s o).
Proof.
  intros Hinv. pose proof Hinv as (W & Sp & O). destruct o as [|h k v|h k x|h x|h k|h|content|]; cbn [step].
  - (* OIndex *)
    destruct (index_core_deep s W Sp O) as (P & S1 & F1).
    destruct (index_core true s) as [l s1]. cbn [fst snd] in *.
    destruct P as [W1 O1 H1 D1 L1 V1].
    split; [|split].
    + destruct W1 as [Hh Hc Hd]. split; cbn; auto.
      intros l' Hl'. apply in_app_iff in Hl'. destruct Hl' as [Hl'|[<-|[]]]; auto.
    + unfold SEP, fresh_for_cache in *. cbn [cache handles set_handles]. destruct (cache s1) as [[c kk]|]; [|exact I].
      intros h a Hh Ha. apply in_app_iff in Hh. destruct Hh as [Hh|[<-|[]]]; [now apply S1|].
      intros Hin. now apply (F1 a Hin).
    + exact O1.
  - (* OMutate *)
    destruct (nth_error (handles s) h) as [l|] eqn:Hl; [|exact Hinv].
    destruct (nth_error l k) as [a|] eqn:Ha; [|exact Hinv].
    apply nth_error_In in Hl. apply nth_error_In in Ha.
    split; [|split].
    + destruct W as [Hh Hc Hd]. split; cbn; auto.
    + exact Sp.
    + unfold cache_ok in *. cbn [cache disk]. destruct (cache s) as [[c kk]|] eqn:Hc; [|exact I].
      destruct (disk s) as [[ct kd]|]; [|exact I]. intros E. rewrite <- (O E).
      unfold view. apply map_ext_in. intros b Hb. apply deref_cons.
      intros ->. unfold SEP in Sp. rewrite Hc in Sp. exact (Sp l a Hl Hb Ha).
  - (* OReplace *)
    destruct (nth_error (handles s) h) as [l|] eqn:Hl; [|exact Hinv].
    destruct (Nat.ltb k (List.length l)); [|exact Hinv].
    apply nth_error_In in Hl.
    change (alloc [x] s) with (fst (alloc [x] s), snd (alloc [x] s)). cbn iota.
    pose proof (WF_alloc [x] s W) as W1. pose proof (cache_ok_alloc [x] s W O) as O1.
    set (s1 := snd (alloc [x] s)) in *. cbn [fst alloc hd seq List.length].
    assert (Hnew : forall l', In l' (set_nth h (set_nth k (next s) l) (handles s1)) ->
                    forall a, In a l' -> a = next s \/ exists l0, In l0 (handles s) /\ In a l0).
    { intros l' Hl' a Ha. apply In_set_nth in Hl'. destruct Hl' as [->|Hl'].
      - apply In_set_nth in Ha. destruct Ha as [->|Ha]; [now left|]. right. now exists l.
      - right. now exists l'. }
    split; [|split].
    + destruct W1 as [Hh Hc Hd]. destruct W as [Hh0 _ _]. split; cbn [handles set_handles next cache disk clock]; auto.
      intros l' Hl'. apply lt_all_In. intros a Ha. destruct (Hnew l' Hl' a Ha) as [->|[l0 [Hl0 Ha0]]].
      * cbn. lia.
      * specialize (Hh0 l0 Hl0). rewrite lt_all_In in Hh0. specialize (Hh0 a Ha0). cbn. lia.
    + unfold SEP in *. cbn [cache set_handles handles]. change (cache s1) with (cache s).
      destruct (cache s) as [[c kk]|] eqn:Hc; [|exact I].
      intros h' a Hh' Ha Hin. destruct (Hnew h' Hh' a Hin) as [->|[l0 [Hl0 Ha0]]].
      * destruct W as [_ Hcw _]. rewrite Hc in Hcw. destruct Hcw as [Hcw _]. rewrite lt_all_In in Hcw. specialize (Hcw _ Ha). lia.
      * exact (Sp l0 a Hl0 Ha Ha0).
    + exact O1.
  - (* OAppend *)
    destruct (nth_error (handles s) h) as [l|] eqn:Hl; [|exact Hinv].
    apply nth_error_In in Hl.
    change (alloc [x] s) with (fst (alloc [x] s), snd (alloc [x] s)). cbn iota.
    pose proof (WF_alloc [x] s W) as W1. pose proof (cache_ok_alloc [x] s W O) as O1.
    set (s1 := snd (alloc [x] s)) in *. cbn [fst alloc seq List.length].
    assert (Hnew : forall l', In l' (set_nth h (l ++ [next s]) (handles s1)) ->
                    forall a, In a l' -> a = next s \/ exists l0, In l0 (handles s) /\ In a l0).
    { intros l' Hl' a Ha. apply In_set_nth in Hl'. destruct Hl' as [->|Hl'].
      - apply in_app_iff in Ha. destruct Ha as [Ha|[<-|[]]]; [right; now exists l|now left].
      - right. now exists l'. }
    split; [|split].
    + destruct W1 as [Hh Hc Hd]. destruct W as [Hh0 _ _]. split; cbn [handles set_handles next cache disk clock]; auto.
      intros l' Hl'. apply lt_all_In. intros a Ha. destruct (Hnew l' Hl' a Ha) as [->|[l0 [Hl0 Ha0]]].
      * cbn. lia.
      * specialize (Hh0 l0 Hl0). rewrite lt_all_In in Hh0. specialize (Hh0 a Ha0). cbn. lia.
    + unfold SEP in *. cbn [cache set_handles handles]. change (cache s1) with (cache s).
      destruct (cache s) as [[c kk]|] eqn:Hc; [|exact I].
      intros h' a Hh' Ha Hin. destruct (Hnew h' Hh' a Hin) as [->|[l0 [Hl0 Ha0]]].
      * destruct W as [_ Hcw _]. rewrite Hc in Hcw. destruct Hcw as [Hcw _]. rewrite lt_all_In in Hcw. specialize (Hcw _ Ha). lia.
      * exact (Sp l0 a Hl0 Ha Ha0).
    + exact O1.
  - (* ORemove *)
    destruct (nth_error (handles s) h) as [l|] eqn:Hl; [|exact Hinv].
    apply nth_error_In in Hl.
    assert (Hnew : forall l', In l' (set_nth h (remove_nth k l) (handles s)) ->
                    forall a, In a l' -> exists l0, In l0 (handles s) /\ In a l0).
    { intros l' Hl' a Ha. apply In_set_nth in Hl'. destruct Hl' as [->|Hl'].
      - exists l. split; auto. eapply In_remove_nth; eauto.
      - now exists l'. }
    split; [|split].
    + destruct W as [Hh Hc Hd]. split; cbn; auto.
      intros l' Hl'. apply lt_all_In. intros a Ha. destruct (Hnew l' Hl' a Ha) as [l0 [Hl0 Ha0]].
      specialize (Hh l0 Hl0). rewrite lt_all_In in Hh. now apply Hh.
    + unfold SEP in *. cbn [cache set_handles handles]. destruct (cache s) as [[c kk]|]; [|exact I].
      intros h' a Hh' Ha Hin. destruct (Hnew h' Hh' a Hin) as [l0 [Hl0 Ha0]]. exact (Sp l0 a Hl0 Ha Ha0).
    + exact O.
  - (* OSetIndex *)
    destruct (nth_error (handles s) h) as [l|] eqn:Hl; [|exact Hinv].
    apply nth_error_In in Hl.
    set (l' := sort_addrs s l). set (key := S (clock s)).
    set (s1 := mkSt (heap s) (next s) (Some (view s l', key)) key (cache s) (set_nth h l' (handles s))).
    cbn [copy_index].
    change (alloc (view s1 l') s1) with (fst (alloc (view s1 l') s1), snd (alloc (view s1 l') s1)). cbn iota.
    assert (Hl' : lt_all (next s) l').
    { destruct W as [Hh _ _]. specialize (Hh l Hl). rewrite lt_all_In in *. intros a Ha. apply Hh. eapply In_sort_addrs; eauto. }
    assert (Hhs : forall h0, In h0 (set_nth h l' (handles s)) -> lt_all (next s) h0).
    { intros h0 Hh0. apply In_set_nth in Hh0. destruct Hh0 as [->|Hh0]; auto. destruct W as [Hh _ _]. now apply Hh. }
    split; [|split].
    + split.
      * intros h0 Hh0. eapply lt_all_mono; [apply Hhs; exact Hh0|cbn; lia].
      * cbn. split; [apply lt_all_seq|lia].
      * cbn. lia.
    + unfold SEP. cbn [cache set_cache handles snd alloc fst].
      intros h0 a Hh0 Ha Hin. apply in_seq in Ha. specialize (Hhs h0 Hh0). rewrite lt_all_In in Hhs. specialize (Hhs a Hin). cbn in Ha. lia.
    + unfold cache_ok. cbn [cache disk set_cache snd alloc fst]. intros _.
      exact (view_alloc_new s1 (view s1 l')).
  - (* OExternal *)
    split; [|split].
    + destruct W as [Hh Hc Hd]. split; cbn; auto. destruct (cache s) as [[c kk]|]; auto. destruct Hc. split; auto.
    + exact Sp.
    + unfold cache_ok. cbn [cache disk]. destruct W as [_ Hc _]. destruct (cache s) as [[c kk]|]; [|exact I].
      destruct Hc as [_ Hk]. intros E. lia.
  - (* OExtDelete *)
    split; [|split].
    + destruct W as [Hh Hc Hd]. split; cbn; auto.
    + exact Sp.
    + unfold cache_ok. cbn [cache disk]. destruct (cache s) as [[c kk]|]; exact I.
Qed.

Lemma fold_inv (P : st -> Prop) (f : st -> op -> st) (ok : op -> bool) :
  (forall s o, ok o = true -> P s -> P (f s o)) ->
  forall ops s, forallb ok ops = true -> P s -> P (fold_left f ops s).
Proof.
  intros Hstep. induction ops as [|o ops IH]; intros s Hok Hs; [exact Hs|].
  cbn in Hok. apply andb_true_iff in Hok as [Ho Hops]. cbn. apply IH; auto.
Qed.

Lemma run_deep_inv ops : Inv (run true ops).
Proof.
  unfold run. apply (fold_inv Inv (step true) (fun _ => true)).
  - intros s o _. apply step_deep_inv.
  - now apply forallb_forall.
  - exact Inv_init.
Qed.

Lemma reads_disk_deep s : Inv s -> reads_disk true s.
Proof.
  intros (W & Sp & O). unfold reads_disk, read_now.
  destruct (index_core_deep s W Sp O) as (P & _ & _).
  destruct (index_core true s) as [l s1]. cbn [fst snd] in *.
  destruct P as [_ _ _ D _ V]. rewrite V. unfold disk_content. now rewrite D.
Qed.

Lemma deep_all_histories ops : reads_disk true (run true ops) /\ cache_ok (run true ops).
Proof. pose proof (run_deep_inv ops) as I. split; [now apply reads_disk_deep|apply I]. Qed.

(* ---- shallow copies: true as long as nobody writes through a returned entry ---- *)
Definition Inv' (s : st) : Prop := WF s /\ cache_ok s.

Definition not_mutate (o : op) : bool := match o with OMutate _ _ _ => false | _ => true end.

Lemma no_mutate_forallb ops : no_mutate ops = forallb not_mutate ops.
Proof. induction ops as [|o ops IH]; [reflexivity|]. destruct o; cbn; auto. Qed.

Lemma step_shallow_inv s o : not_mutate o = true -> Inv' s -> Inv' (step false s o).
Proof.
  intros Hnm Hinv. pose proof Hinv as (W & O). destruct o as [|h k v|h k x|h x|h k|h|content|]; cbn [step]; try discriminate.
  - (* OIndex *)
    pose proof (index_core_shallow s W O) as P.
    destruct (index_core false s) as [l s1]. cbn [fst snd] in *.
    destruct P as [W1 O1 H1 D1 L1 V1]. split; [|exact O1].
    destruct W1 as [Hh Hc Hd]. split; cbn; auto.
    intros l' Hl'. apply in_app_iff in Hl'. destruct Hl' as [Hl'|[<-|[]]]; auto.
  - (* OReplace *)
    destruct (nth_error (handles s) h) as [l|] eqn:Hl; [|exact Hinv].
    destruct (Nat.ltb k (List.length l)); [|exact Hinv].
    apply nth_error_In in Hl.
    change (alloc [x] s) with (fst (alloc [x] s), snd (alloc [x] s)). cbn iota.
    pose proof (WF_alloc [x] s W) as W1. pose proof (cache_ok_alloc [x] s W O) as O1.
    set (s1 := snd (alloc [x] s)) in *. cbn [fst alloc hd seq List.length].
    split; [|exact O1].
    destruct W1 as [Hh Hc Hd]. destruct W as [Hh0 _ _]. split; cbn [handles set_handles next cache disk clock]; auto.
    intros l' Hl'. apply lt_all_In. intros a Ha. apply In_set_nth in Hl'. destruct Hl' as [->|Hl'].
    + apply In_set_nth in Ha. destruct Ha as [->|Ha]; [cbn; lia|].
      specialize (Hh0 l Hl). rewrite lt_all_In in Hh0. specialize (Hh0 a Ha). cbn. lia.
    + specialize (Hh l' Hl'). rewrite lt_all_In in Hh. now apply Hh.
  - (* OAppend *)
    destruct (nth_error (handles s) h) as [l|] eqn:Hl; [|exact Hinv].
    apply nth_error_In in Hl.
    change (alloc [x] s) with (fst (alloc [x] s), snd (alloc [x] s)). cbn iota.
    pose proof (WF_alloc [x] s W) as W1. pose proof (cache_ok_alloc [x] s W O) as O1.
    set (s1 := snd (alloc [x] s)) in *. cbn [fst alloc seq List.length].
    split; [|exact O1].
    destruct W1 as [Hh Hc Hd]. destruct W as [Hh0 _ _]. split; cbn [handles set_handles next cache disk clock]; auto.
    intros l' Hl'. apply lt_all_In. intros a Ha. apply In_set_nth in Hl'. destruct Hl' as [->|Hl'].
    + apply in_app_iff in Ha. destruct Ha as [Ha|[<-|[]]]; [|cbn; lia].
      specialize (Hh0 l Hl). rewrite lt_all_In in Hh0. specialize (Hh0 a Ha). cbn. lia.
    + specialize (Hh l' Hl'). rewrite lt_all_In in Hh. now apply Hh.
  - (* ORemove *)
    destruct (nth_error (handles s) h) as [l|] eqn:Hl; [|exact Hinv].
    apply nth_error_In in Hl. split; [|exact O].
    destruct W as [Hh Hc Hd]. split; cbn; auto.
    intros l' Hl'. apply lt_all_In. intros a Ha. apply In_set_nth in Hl'. destruct Hl' as [->|Hl'].
    + apply In_remove_nth in Ha. specialize (Hh l Hl). rewrite lt_all_In in Hh. now apply Hh.
    + specialize (Hh l' Hl'). rewrite lt_all_In in Hh. now apply Hh.
  - (* OSetIndex: the cache shares the caller's cells *)
    destruct (nth_error (handles s) h) as [l|] eqn:Hl; [|exact Hinv].
    apply nth_error_In in Hl.
    set (l' := sort_addrs s l). cbn [copy_index].
    assert (Hl' : lt_all (next s) l').
    { destruct W as [Hh _ _]. specialize (Hh l Hl). rewrite lt_all_In in *. intros a Ha. apply Hh. eapply In_sort_addrs; eauto. }
    split.
    + split.
      * cbn. intros h0 Hh0. apply In_set_nth in Hh0. destruct Hh0 as [->|Hh0]; auto. destruct W as [Hh _ _]. now apply Hh.
      * cbn. split; [exact Hl'|lia].
      * cbn. lia.
    + unfold cache_ok. cbn. intros _. reflexivity.
  - (* OExternal *)
    split.
    + destruct W as [Hh Hc Hd]. split; cbn; auto. destruct (cache s) as [[c kk]|]; auto. destruct Hc. split; auto.
    + unfold cache_ok. cbn [cache disk]. destruct W as [_ Hc _]. destruct (cache s) as [[c kk]|]; [|exact I].
      destruct Hc as [_ Hk]. intros E. lia.
  - (* OExtDelete *)
    split.
    + destruct W as [Hh Hc Hd]. split; cbn; auto.
    + unfold cache_ok. cbn [cache disk]. destruct (cache s) as [[c kk]|]; exact I.
Qed.

Lemma Inv'_init : Inv' init.
Proof. split; [split; cbn; auto; intros l []|exact I]. Qed.

Lemma reads_disk_shallow s : Inv' s -> reads_disk false s.
Proof.
  intros (W & O). unfold reads_disk, read_now.
  pose proof (index_core_shallow s W O) as P.
  destruct (index_core false s) as [l s1]. cbn [fst snd] in *.
  destruct P as [_ _ _ D _ V]. rewrite V. unfold disk_content. now rewrite D.
Qed.

Lemma shallow_without_mutation ops :
  no_mutate ops = true -> reads_disk false (run false ops) /\ cache_ok (run false ops).
Proof.
  intros Hnm. rewrite no_mutate_forallb in Hnm.
  assert (I : Inv' (run false ops)).
  { unfold run. apply (fold_inv Inv' (step false) not_mutate); auto using step_shallow_inv, Inv'_init. }
  split; [now apply reads_disk_shallow|apply I].
Qed.

(* ---- the counter-example: Index(); write through the returned entry; no SetIndex; Index() ---- *)
Definition alias_witness : list op := [OExternal [(1%N, 10%N)]; OIndex; OMutate 0 0 99%N].

Lemma shallow_alias_refuted :
  exists ops, fst (read_now false (run false ops)) <> disk_content (run false ops)
              /\ disk_content (run false ops) = [(1%N, 10%N)].
Proof. exists alias_witness. split; [vm_compute; discriminate|vm_compute; reflexivity]. Qed.

(* the same history is harmless with deep copies *)
Lemma deep_alias_witness : fst (read_now true (run true alias_witness)) = [(1%N, 10%N)].
Proof. vm_compute. reflexivity. Qed.
