(* Proofs/C49Total.v — the fuel of the wildmatch model always suffices:
   every recursive call of dowild is on a strictly shorter pattern. *)
From Coq Require Import List NArith Bool Lia.
From GoGit Require Import Base.Out Model.Gitignore.
Import ListNotations.
Local Open Scope N_scope.

Lemma split_rb_len s a b : split_rb s = Some (a, b) -> (List.length b < List.length s)%nat.
Proof.
  revert a b. induction s as [|c r IH]; intros a b H; cbn in H; [discriminate|].
  destruct (c =? cRB).
  - inversion H; subst. cbn. lia.
  - destruct (split_rb r) as [[a' b']|] eqn:E; [|discriminate].
    inversion H; subst. specialize (IH _ _ eq_refl). cbn. lia.
Qed.

(* the bracket loop never runs out of fuel and consumes pattern bytes *)
Lemma cls_loop_ok : forall fuel cf tch prev matched pch rest,
  (List.length rest < fuel)%nat ->
  cls_loop fuel cf tch prev matched pch rest <> CFuel /\
  (forall m r, cls_loop fuel cf tch prev matched pch rest = CDone m r ->
               (List.length r < List.length rest)%nat).
Proof.
  induction fuel as [|f IH]; intros cf tch prev matched pch rest Hf; [lia|].
  assert (Htail : forall pch' m' rest', (List.length rest' <= List.length rest)%nat ->
            match rest' with
            | [] => CAbort
            | c :: r => if c =? cRB then CDone m' r else cls_loop f cf tch pch' m' c r
            end <> CFuel /\
            (forall m r, match rest' with
                         | [] => CAbort
                         | c :: r => if c =? cRB then CDone m' r else cls_loop f cf tch pch' m' c r
                         end = CDone m r -> (List.length r < List.length rest')%nat)).
  { intros pch' m' rest' Hl. destruct rest' as [|c r]; [split; [discriminate|intros; discriminate]|].
    destruct (c =? cRB).
    - split; [discriminate|]. intros m r0 H; inversion H; subst; cbn; lia.
    - cbn in Hl. destruct (IH cf tch pch' m' c r ltac:(lia)) as [A B]. split; [exact A|].
      intros m r0 H. specialize (B _ _ H). cbn. lia. }
  cbn [cls_loop].
  destruct (pch =? cBSL).
  { destruct rest as [|e r]; [split; [discriminate|intros; discriminate]|].
    destruct (Htail e (matched || (tch =? e)) r ltac:(cbn; lia)) as [A B]. split; [exact A|].
    intros m r0 H. specialize (B _ _ H). cbn. lia. }
  destruct ((pch =? cDASH) && negb (prev =? 0) &&
            match rest with [] => false | c :: _ => negb (c =? cRB) end).
  { destruct rest as [|e r]; [split; [discriminate|intros; discriminate]|].
    destruct (e =? cBSL).
    - destruct r as [|e2 r2]; [split; [discriminate|intros; discriminate]|].
      match goal with |- context [match r2 with [] => _ | _ => _ end] => idtac | _ => idtac end.
      destruct (Htail 0 (matched || ((tch <=? e2) && (prev <=? tch)
                  || cf && is_lower tch && ((tch - 32 <=? e2) && (prev <=? tch - 32)))) r2 ltac:(cbn; lia)) as [A B].
      split; [exact A|]. intros m r0 H. specialize (B _ _ H). cbn. lia.
    - destruct (Htail 0 (matched || ((tch <=? e) && (prev <=? tch)
                  || cf && is_lower tch && ((tch - 32 <=? e) && (prev <=? tch - 32)))) r ltac:(cbn; lia)) as [A B].
      split; [exact A|]. intros m r0 H. specialize (B _ _ H). cbn. lia. }
  destruct ((pch =? cLB) && match rest with c :: _ => c =? cCOLON | [] => false end).
  { destruct rest as [|c0 r]; [split; [discriminate|intros; discriminate]|].
    destruct (split_rb r) as [[name' after]|] eqn:E; [|split; [discriminate|intros; discriminate]].
    pose proof (split_rb_len _ _ _ E) as Hlen.
    destruct (rev name') as [|lastc rname].
    - apply (Htail cLB (matched || (tch =? cLB)) (c0 :: r)). lia.
    - destruct (negb (lastc =? cCOLON)).
      + apply (Htail cLB (matched || (tch =? cLB)) (c0 :: r)). lia.
      + destruct (posix_class (rev rname) tch cf) as [m|]; [|split; [discriminate|intros; discriminate]].
        destruct (Htail 0 (matched || m) after ltac:(cbn; lia)) as [A B].
        split; [exact A|]. intros m0 r0 H. specialize (B _ _ H). cbn. lia. }
  apply (Htail pch (matched || (tch =? pch)) rest). lia.
Qed.

Lemma bracket_ok cf tch q :
  fst (bracket cf tch q) <> CFuel /\
  (forall m r n, bracket cf tch q = (CDone m r, n) -> (List.length r < List.length q)%nat).
Proof.
  unfold bracket. destruct q as [|c q1]; [split; [discriminate|intros; discriminate]|].
  destruct ((if c =? cCARET then cBANG else c) =? cBANG).
  - destruct q1 as [|c2 q2]; [split; [discriminate|intros; discriminate]|].
    destruct (cls_loop_ok (S (List.length q2)) cf tch 0 false c2 q2 ltac:(lia)) as [A B].
    split; [exact A|]. intros m r n H. inversion H; subst. specialize (B _ _ H1). cbn. lia.
  - destruct (cls_loop_ok (S (List.length q1)) cf tch 0 false (if c =? cCARET then cBANG else c) q1 ltac:(lia)) as [A B].
    split; [exact A|]. intros m r n H. inversion H; subst. specialize (B _ _ H1). cbn. lia.
Qed.

Lemma drop_stars_len p : (List.length (drop_stars p) <= List.length p)%nat.
Proof. induction p as [|c r IH]; cbn; [lia|]. destruct (c =? cSTAR); cbn; lia. Qed.

(* star_loop only returns what its recursive call or its parameters return *)
Lemma star_loop_nofuel rec ms lit cf pcf litfail :
  (forall t, rec t <> WFuel) -> litfail <> WFuel ->
  forall t skipped, star_loop rec ms lit cf pcf litfail skipped t <> WFuel.
Proof.
  intros Hrec Hlf. induction t as [|c t' IH]; intros skipped; cbn [star_loop].
  - destruct skipped; [exact Hlf|discriminate].
  - assert (Htry : forall tch,
      (let m := rec (c :: t') in
       if negb (wm_eqb m WNoMatch)
       then if negb ms || negb (wm_eqb m WAbortStarStar) then m
            else star_loop rec ms lit cf pcf litfail false t'
       else if negb ms && (tch =? cSLASH) then WAbortStarStar
            else star_loop rec ms lit cf pcf litfail false t') <> WFuel).
    { intros tch. cbv zeta. destruct (negb (wm_eqb (rec (c :: t')) WNoMatch)).
      - destruct (negb ms || negb (wm_eqb (rec (c :: t')) WAbortStarStar)); [apply Hrec|apply IH].
      - destruct (negb ms && (tch =? cSLASH)); [discriminate|apply IH]. }
    destruct lit.
    + destruct (negb ms && (c =? cSLASH)); [exact Hlf|].
      destruct (fold cf c =? pcf); [apply Htry|apply IH].
    + apply Htry.
Qed.

Lemma star_case_nofuel rec pn cf c1 c2 c3 prev p1 t :
  (forall pv p' t', (List.length p' <= List.length p1)%nat -> rec pv p' t' <> WFuel) ->
  c1 <> WFuel -> c2 <> WFuel -> (forall b, c3 b <> WFuel) ->
  star_case rec pn cf c1 c2 c3 prev p1 t <> WFuel.
Proof.
  intros Hrec H1 H2 H3. unfold star_case.
  pose proof (drop_stars_len p1) as Hd.
  set (ms := if match p1 with [] => false | c :: _ => c =? cSTAR end then _ else negb pn).
  set (bd := match prev with Some c => c =? cSLASH | None => true end && _).
  clearbody ms bd.
  destruct (drop_stars p1) as [|q0 q1] eqn:Ed.
  - destruct (_ && pn && bd); destruct (negb ms && has_slash t); congruence.
  - assert (Hbody :
      (if negb ms && (q0 =? cSLASH)
       then match after_slash t with Some t' => rec (Some cSLASH) q1 t' | None => c2 end
       else star_loop (rec None (q0 :: q1)) ms (negb (is_glob_special q0)) cf (fold cf q0) (c3 ms) false t)
      <> WFuel).
    { destruct (negb ms && (q0 =? cSLASH)).
      - destruct (after_slash t); [apply Hrec; cbn in Hd; lia|exact H2].
      - apply star_loop_nofuel; [intros t0; apply Hrec; exact Hd|apply H3]. }
    destruct (_ && pn && bd).
    + destruct (q0 =? cSLASH).
      * pose proof (Hrec None q1 t ltac:(cbn in Hd; lia)) as Hs.
        destruct (rec None q1 t); try exact Hbody; congruence.
      * exact Hbody.
    + exact Hbody.
Qed.

Theorem dowild_total : forall fuel flags prev p t,
  (List.length p < fuel)%nat -> dowild fuel flags prev p t <> WFuel.
Proof.
  induction fuel as [|f IH]; intros flags prev p t Hf; [lia|].
  cbn [dowild]. destruct p as [|pc0 p1]; [destruct t; discriminate|].
  cbn in Hf.
  destruct ((match t with [] => true | _ => false end) && negb (pc0 =? cSTAR)); [discriminate|].
  destruct (fold (fl_casefold flags) pc0 =? cBSL).
  { destruct p1 as [|e p2]; [discriminate|].
    destruct (negb (fold (fl_casefold flags) match t with [] => 0 | c :: _ => c end =? e)); [discriminate|].
    apply IH. cbn in Hf. lia. }
  destruct (fold (fl_casefold flags) pc0 =? cQM).
  { destruct (fl_pathname flags && _); [discriminate|]. apply IH. lia. }
  destruct (fold (fl_casefold flags) pc0 =? cSTAR).
  { apply star_case_nofuel; try discriminate.
    - intros pv p' t' Hl. apply IH. lia.
    - intros b; destruct b; discriminate. }
  destruct (fold (fl_casefold flags) pc0 =? cLB).
  { destruct (bracket_ok (fl_casefold flags)
               (fold (fl_casefold flags) match t with [] => 0 | c :: _ => c end) p1) as [A B].
    destruct (bracket _ _ p1) as [[| |m r] n] eqn:E; cbn in A; try discriminate; [congruence|].
    destruct (eqb m n || _); [discriminate|]. apply IH. specialize (B _ _ _ eq_refl). lia. }
  destruct (negb _); [discriminate|]. apply IH. lia.
Qed.

Corollary wildmatch_total p t flags : dowild (wm_fuel p) flags None p t <> WFuel.
Proof. apply dowild_total. unfold wm_fuel. lia. Qed.
