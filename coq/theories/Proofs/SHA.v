(* Proofs/SHA.v — structural facts about Spec/SHA (shape of digests and the
   Merkle–Damgard extension property).  Nothing here depends on the round
   functions; the concrete digests are validated by test vectors and by the
   correspondence with Go / git. *)
From Coq Require Import List NArith Arith Lia ZifyNat ZifyN.
From GoGit Require Import Base.Out Spec.SHA.
Import ListNotations.
Local Open Scope N_scope.

(* ---------- digest shape ---------- *)
Lemma be32_length x : List.length (be32 x) = 4%nat.
Proof. reflexivity. Qed.

Lemma sha1_length m : List.length (sha1 m) = 20%nat.
Proof.
  unfold sha1, out1. destruct (absorb1 iv1 (pad m)) as [[[[a b] c] d] e].
  repeat rewrite app_length. reflexivity.
Qed.

Lemma sha256_length m : List.length (sha256 m) = 32%nat.
Proof.
  unfold sha256, out256. destruct (absorb256 iv256 (pad m)) as [[[[[[[a b] c] d] e] f] g] h].
  repeat rewrite app_length. reflexivity.
Qed.

Lemma H_length f m : List.length (H f m) = hsize f.
Proof. destruct f; [apply sha1_length | apply sha256_length]. Qed.

Lemma land255_lt x : N.land x 255 < 256.
Proof.
  change 255 with (N.ones 8). rewrite N.land_ones. apply N.mod_lt. discriminate.
Qed.

Lemma be32_bytes x : Forall (fun b => b < 256) (be32 x).
Proof. unfold be32. repeat constructor; apply land255_lt. Qed.

Lemma sha1_bytes m : Forall (fun b => b < 256) (sha1 m).
Proof.
  unfold sha1, out1. destruct (absorb1 iv1 (pad m)) as [[[[a b] c] d] e].
  repeat (apply Forall_app; split); apply be32_bytes.
Qed.

Lemma sha256_bytes m : Forall (fun b => b < 256) (sha256 m).
Proof.
  unfold sha256, out256. destruct (absorb256 iv256 (pad m)) as [[[[[[[a b] c] d] e] f] g] h].
  repeat (apply Forall_app; split); apply be32_bytes.
Qed.

(* ---------- blocking ---------- *)
Lemma blocks_nil f : blocks f [] = [].
Proof. destruct f; reflexivity. Qed.

Lemma blocks_S f (l : bytes) :
  l <> [] -> blocks (S f) l = firstn 64 l :: blocks f (skipn 64 l).
Proof. destruct l; [congruence | reflexivity]. Qed.

Lemma length_pos_nonnil (l : bytes) : (0 < List.length l)%nat -> l <> [].
Proof. destruct l; cbn; [lia | congruence]. Qed.

Lemma blocks_enough : forall f g (l : bytes),
  (List.length l <= 64 * f)%nat -> (List.length l <= 64 * g)%nat -> blocks f l = blocks g l.
Proof.
  induction f as [|f IH]; intros g l Hf Hg.
  - destruct l; [now rewrite !blocks_nil | cbn in Hf; lia].
  - destruct l as [|x l]; [now rewrite !blocks_nil|].
    destruct g as [|g]; [cbn in Hg; lia|].
    rewrite !blocks_S by congruence. f_equal. apply IH.
    + rewrite skipn_length. lia.
    + rewrite skipn_length. lia.
Qed.

Lemma blocks_app : forall k f (a b : bytes),
  List.length a = (64 * k)%nat -> (List.length a + List.length b <= 64 * f)%nat ->
  blocks f (a ++ b) = blocks k a ++ blocks (f - k) b.
Proof.
  induction k as [|k IH]; intros f a b Ha Hf.
  - destruct a; [|cbn in Ha; lia]. cbn. now rewrite Nat.sub_0_r.
  - destruct f as [|f]; [lia|].
    assert (Hne : a <> []) by (apply length_pos_nonnil; lia).
    assert (Hne' : a ++ b <> []) by (apply length_pos_nonnil; rewrite app_length; lia).
    rewrite !blocks_S by assumption.
    rewrite firstn_app, skipn_app.
    replace (64 - List.length a)%nat with 0%nat by lia.
    rewrite firstn_O, skipn_O, app_nil_r.
    change (S f - S k)%nat with (f - k)%nat.
    rewrite <- app_comm_cons. f_equal.
    apply IH.
    + rewrite skipn_length. lia.
    + rewrite skipn_length. lia.
Qed.

Lemma blocks_of_app k (a b : bytes) :
  List.length a = (64 * k)%nat -> blocks_of (a ++ b) = blocks_of a ++ blocks_of b.
Proof.
  intros Ha. unfold blocks_of. rewrite app_length, Ha.
  replace ((64 * k + List.length b) / 64)%nat with (k + List.length b / 64)%nat
    by (rewrite (Nat.mul_comm 64 k), Nat.div_add_l; lia).
  rewrite (blocks_app k) by
    (try assumption; rewrite Ha;
     pose proof (Nat.div_mod (List.length b) 64 ltac:(lia));
     pose proof (Nat.mod_upper_bound (List.length b) 64 ltac:(lia)); lia).
  f_equal.
  - apply blocks_enough; [lia|].
    replace (64 * k / 64)%nat with k by (rewrite Nat.mul_comm, Nat.div_mul; lia). lia.
  - f_equal. lia.
Qed.

Lemma absorb1_app k st (a b : bytes) :
  List.length a = (64 * k)%nat -> absorb1 st (a ++ b) = absorb1 (absorb1 st a) b.
Proof. intros Ha. unfold absorb1. now rewrite (blocks_of_app k), fold_left_app. Qed.

Lemma absorb256_app k st (a b : bytes) :
  List.length a = (64 * k)%nat -> absorb256 st (a ++ b) = absorb256 (absorb256 st a) b.
Proof. intros Ha. unfold absorb256. now rewrite (blocks_of_app k), fold_left_app. Qed.

(* ---------- Merkle–Damgard extension ----------
   Two block-aligned prefixes of the same length with the same chaining value
   collide under EVERY common suffix. *)
Lemma sha1_extend k (a1 a2 : bytes) :
  List.length a1 = (64 * k)%nat -> List.length a2 = (64 * k)%nat ->
  sha1_state a1 = sha1_state a2 ->
  forall s, sha1 (a1 ++ s) = sha1 (a2 ++ s).
Proof.
  intros H1 H2 E s. unfold sha1, pad. rewrite <- !app_assoc.
  rewrite (absorb1_app k _ a1), (absorb1_app k _ a2) by assumption.
  unfold sha1_state in E. rewrite E. rewrite !app_length, H1, H2. reflexivity.
Qed.

Lemma sha256_extend k (a1 a2 : bytes) :
  List.length a1 = (64 * k)%nat -> List.length a2 = (64 * k)%nat ->
  sha256_state a1 = sha256_state a2 ->
  forall s, sha256 (a1 ++ s) = sha256 (a2 ++ s).
Proof.
  intros H1 H2 E s. unfold sha256, pad. rewrite <- !app_assoc.
  rewrite (absorb256_app k _ a1), (absorb256_app k _ a2) by assumption.
  unfold sha256_state in E. rewrite E. rewrite !app_length, H1, H2. reflexivity.
Qed.

From Coq Require Import String.
(* ---------- FIPS 180-4 / RFC 3174 test vectors ---------- *)
Example sha1_abc : sha1 [97;98;99] = unhex "a9993e364706816aba3e25717850c26c9cd0d89d"%string.
Proof. vm_compute. reflexivity. Qed.
Example sha1_empty : sha1 [] = unhex "da39a3ee5e6b4b0d3255bfef95601890afd80709"%string.
Proof. vm_compute. reflexivity. Qed.
Example sha1_two_blocks :
  sha1 (bytes_of_string "abcdbcdecdefdefgefghfghighijhijkijkljklmklmnlmnomnopnopq"%string)
  = unhex "84983e441c3bd26ebaae4aa1f95129e5e54670f1"%string.
Proof. vm_compute. reflexivity. Qed.
Example sha256_abc :
  sha256 [97;98;99] = unhex "ba7816bf8f01cfea414140de5dae2223b00361a396177a9cb410ff61f20015ad"%string.
Proof. vm_compute. reflexivity. Qed.
Example sha256_empty :
  sha256 [] = unhex "e3b0c44298fc1c149afbf4c8996fb92427ae41e4649b934ca495991b7852b855"%string.
Proof. vm_compute. reflexivity. Qed.
Example sha256_two_blocks :
  sha256 (bytes_of_string "abcdbcdecdefdefgefghfghighijhijkijkljklmklmnlmnomnopnopq"%string)
  = unhex "248d6a61d20638b8e5c026930c3e6039a33ce45964ff2167f6ecedd419db06c1"%string.
Proof. vm_compute. reflexivity. Qed.
(* git's well-known IDs: the empty blob and the empty tree *)
Example sha1_empty_blob :
  sha1 (bytes_of_string "blob 0"%string ++ [0])%list = unhex "e69de29bb2d1d6434b8b29ae775ad8c2e48c5391"%string.
Proof. vm_compute. reflexivity. Qed.
Example sha1_empty_tree :
  sha1 (bytes_of_string "tree 0"%string ++ [0])%list = unhex "4b825dc642cb6eb9a060e54bf8d69288fbee4904"%string.
Proof. vm_compute. reflexivity. Qed.
Example sha256_empty_blob :
  sha256 (bytes_of_string "blob 0"%string ++ [0])%list
  = unhex "473a0f4c3be8a93681a267e3b1e9a7dcda1185436fe141f7749120a303721813"%string.
Proof. vm_compute. reflexivity. Qed.
