(* Proofs/C10Create.v — Writer.createIndex followed by Encode writes exactly
   git's idx v2 layout of the sorted table (Spec/IdxFormat.idx_file):
   loop invariant of createIndex, then the traversal of Encode. *)
From Coq Require Import List NArith ZArith Bool Lia ZifyBool ZifyNat ZifyN Sorting.Sorted.
From GoGit Require Import Base.Out Base.GoInt Model.PackBytes Model.Idx Spec.IdxFormat
  Proofs.C10Order Proofs.C10Bytes Proofs.C10Table Proofs.C10Layout.
Import ListNotations.
Local Open Scope N_scope.
Ltac Zify.zify_post_hook ::= Z.div_mod_to_equations.

(* the Some-values of f 0 .. f (k-1), in order *)
Fixpoint somes (f : nat -> option N) (k : nat) : list N :=
  match k with
  | O => []
  | S k' => somes f k' ++ match f k' with Some v => [v] | None => [] end
  end.

Lemma somes_ext f g k : (forall j, (j < k)%nat -> f j = g j) -> somes f k = somes g k.
Proof.
  induction k as [|k IH]; intros E; cbn; [reflexivity|].
  rewrite IH by (intros; apply E; lia). now rewrite E by lia.
Qed.

Lemma somes_none_tail f a : forall k, (a <= k)%nat -> (forall j, (a <= j)%nat -> f j = None) -> somes f k = somes f a.
Proof.
  induction k as [|k IH]; intros Hk Hn.
  - now replace a with 0%nat by lia.
  - destruct (Nat.eq_dec a (S k)) as [->|Hne]; [reflexivity|].
    cbn. rewrite (Hn k) by lia. rewrite app_nil_r. apply IH; [lia|assumption].
Qed.

(* enc_tables over FanoutMapping = the buckets picked by the Some-values, in order *)
Definition pick (sel : bucket -> bytes) (bk : list bucket) (ps : list N) : bytes :=
  flat_map (fun p => sel (nthN bk p emptyB)) ps.

Lemma enc_tables_app sel m : forall a b x y,
  enc_tables sel m a = Some x -> enc_tables sel m b = Some y -> enc_tables sel m (a ++ b) = Some (x ++ y).
Proof.
  induction a as [|[p|] a IH]; intros b x y Ha Hb; cbn [app enc_tables] in *.
  - inversion Ha; subst. exact Hb.
  - destruct (N.of_nat (List.length (m_bk m)) <=? p); [discriminate|].
    destruct (enc_tables sel m a) as [t|] eqn:E; [|discriminate]. inversion Ha; subst.
    rewrite (IH b t y eq_refl Hb). now rewrite app_assoc.
  - now apply IH.
Qed.

Lemma enc_tables_somes sel m f : forall k,
  (forall p, In p (somes f k) -> p < N.of_nat (List.length (m_bk m))) ->
  enc_tables sel m (map f (seq 0 k)) = Some (pick sel (m_bk m) (somes f k)).
Proof.
  induction k as [|k IH]; intros Hb; [reflexivity|].
  rewrite seq_S, map_app. cbn [somes map plus].
  unfold pick. rewrite flat_map_app.
  apply enc_tables_app.
  - apply IH. intros p Hp. apply Hb. cbn. apply in_or_app. now left.
  - cbn [enc_tables]. destruct (f k) as [v|] eqn:E; cbn [flat_map]; [|reflexivity].
    assert (Hv : v < N.of_nat (List.length (m_bk m))).
    { apply Hb. cbn. rewrite E. apply in_or_app. right. now left. }
    replace (N.of_nat (List.length (m_bk m)) <=? v) with false by lia. now rewrite app_nil_r.
Qed.

Fixpoint nseq (a : N) (len : nat) : list N :=
  match len with O => [] | S l => a :: nseq (a + 1) l end.

Lemma nseq_snoc : forall len a, nseq a (S len) = nseq a len ++ [a + N.of_nat len].
Proof.
  induction len as [|len IH]; intros a.
  - cbn. now rewrite N.add_0_r.
  - change (nseq a (S (S len))) with (a :: nseq (a + 1) (S len)). rewrite IH. cbn [nseq app].
    do 3 f_equal. lia.
Qed.

Lemma pick_nseq sel : forall bk a,
  pick sel (a ++ bk) (nseq (N.of_nat (List.length a)) (List.length bk)) = flat_map sel bk.
Proof.
  induction bk as [|b bk IH]; intros a; [reflexivity|].
  cbn [List.length nseq pick flat_map]. f_equal.
  - unfold nthN. rewrite Nat2N.id. rewrite app_nth2 by lia. now rewrite Nat.sub_diag.
  - specialize (IH (a ++ [b])). rewrite <- app_assoc in IH. cbn [app] in IH.
    rewrite app_length in IH. cbn [List.length] in IH.
    replace (N.of_nat (List.length a + 1)) with (N.of_nat (List.length a) + 1) in IH by lia. exact IH.
Qed.

(* appending one record to the current (or a fresh) bucket appends it to the concatenation of the table *)
Lemma bucket_push (sel : bucket -> bytes) (upd : bucket -> bucket) (bks : list bucket) (newb : bool) (x : bytes) :
  sel emptyB = [] -> (forall b, sel (upd b) = sel b ++ x) -> (newb = false -> bks <> []) ->
  flat_map sel (rev (match (if newb then emptyB :: bks else bks) with [] => [] | b :: r => upd b :: r end))
  = flat_map sel (rev bks) ++ x.
Proof.
  intros He Hu Hn. destruct newb.
  - cbn [rev]. rewrite flat_map_app. cbn [flat_map]. now rewrite Hu, He, app_nil_r.
  - destruct bks as [|b r]; [now specialize (Hn eq_refl)|].
    cbn [rev]. rewrite !flat_map_app. cbn [flat_map]. now rewrite Hu, !app_nil_r, app_assoc.
Qed.

Section Create.
Variable hs : nat.

Definition lastb (P : list entry) : Z :=
  match rev P with [] => (-1)%Z | e :: _ => Z.of_nat (first_byte (e_hash e)) end.

(* what the state of createIndex means after the prefix P of the sorted objects *)
Record cinv (P : list entry) (s : cstate) : Prop := mkCI {
  ci_last : c_last s = lastb P;
  ci_fan : forall j, (Z.of_nat j <= c_last s)%Z -> c_fan s j = count_le P (N.of_nat j);
  ci_fnone : forall j, (c_last s < Z.of_nat j)%Z -> c_fmap s j = None;
  ci_somes : somes (c_fmap s) 256 = nseq 0 (List.length (c_bk s));
  ci_names : flat_map b_names (rev (c_bk s)) = flat_map e_hash P;
  ci_crc : flat_map b_crc32 (rev (c_bk s)) = flat_map (fun e => be32 (e_crc e)) P;
  ci_o32 : flat_map b_off32 (rev (c_bk s)) = flat_map be32 (off32_codes P 0);
  ci_o64 : c_off64 s = flat_map be64 (big_offsets P);
  ci_n64 : c_n64 s = n_big P;
  ci_nonempty : P <> [] -> c_bk s <> [] }.

Lemma cinv_init : cinv [] cinit.
Proof. constructor; cbn; try reflexivity; intros; try lia; try congruence. Qed.

Lemma lastb_snoc P o : lastb (P ++ [o]) = Z.of_nat (first_byte (e_hash o)).
Proof. unfold lastb. now rewrite rev_unit. Qed.

Lemma off32_codes_snoc P o : forall n0,
  off32_codes (P ++ [o]) n0 = off32_codes P n0 ++ [if is_big o then n0 + n_big P + 2147483648 else e_off o].
Proof.
  unfold n_big. induction P as [|e l IH]; intros n0; cbn [app off32_codes filter List.length].
  - destruct (is_big o); cbn; f_equal; f_equal; lia.
  - destruct (is_big e); cbn [app List.length]; rewrite IH; do 3 f_equal; destruct (is_big o); lia.
Qed.

Lemma big_offsets_snoc P o : big_offsets (P ++ [o]) = big_offsets P ++ (if is_big o then [e_off o] else []).
Proof. unfold big_offsets. rewrite filter_app, map_app. cbn. now destruct (is_big o). Qed.

Lemma n_big_snoc P o : n_big (P ++ [o]) = n_big P + (if is_big o then 1 else 0).
Proof. unfold n_big. rewrite filter_app, app_length. cbn. destruct (is_big o); cbn; lia. Qed.

Lemma count_le_snoc P o k : count_le (P ++ [o]) k = count_le P k + (if first_of o <=? k then 1 else 0).
Proof. unfold count_le. rewrite filter_app, app_length. cbn. destruct (first_of o <=? k); cbn; lia. Qed.

Lemma first_of_byte o : first_of o < 256 -> N.of_nat (first_byte (e_hash o)) = first_of o.
Proof. unfold first_byte, first_of. lia. Qed.

(* all of a sorted prefix is at or below its last first byte *)
Lemma sorted_le_last P o : sorted_tbl (P ++ [o]) -> (forall e, In e (P ++ [o]) -> e_hash e <> []) ->
  forall e, In e P -> first_of e <= first_of o.
Proof.
  intros S Hne. unfold sorted_tbl in S.
  induction P as [|x P IH]; intros e He; [contradiction|].
  cbn in S. inversion S as [|? ? S' F]; subst. destruct He as [<-|He].
  - rewrite Forall_forall in F.
    assert (Ho : In o (P ++ [o])) by (apply in_or_app; right; now left).
    specialize (F o Ho). unfold hlt in F.
    apply bytes_cmp_hd in F; [exact F|apply Hne; now left|apply Hne; right; exact Ho].
  - apply IH; auto. intros y Hy. apply Hne. now right.
Qed.

Lemma cstep_inv P o s :
  cinv P s -> sorted_tbl (P ++ [o]) -> (forall e, In e (P ++ [o]) -> e_hash e <> []) ->
  first_of o < 256 -> N.of_nat (List.length P) + 1 < 2147483648 ->
  cinv (P ++ [o]) (cstep s (N.of_nat (List.length P)) o).
Proof.
  intros I Hsrt Hne Hb Hcnt. destruct I as [I1 I2 I3 I4 I5 I6 I7 I8 I9 I10].
  set (fan := first_byte (e_hash o)).
  assert (Hfan : N.of_nat fan = first_of o) by now apply first_of_byte.
  assert (Hle : forall e, In e P -> first_of e <= first_of o) by now apply sorted_le_last.
  assert (Hlast : (c_last s <= Z.of_nat fan)%Z).
  { rewrite I1. unfold lastb. destruct (rev P) as [|e r] eqn:E; [lia|].
    assert (He : In e P) by (apply in_rev; rewrite E; now left).
    specialize (Hle e He). pose proof (first_of_byte e ltac:(lia)). lia. }
  assert (HallP : forall j, (c_last s <= Z.of_nat j)%Z -> count_le P (N.of_nat j) = N.of_nat (List.length P)).
  { intros j Hj. apply count_le_all. intros e He. rewrite I1 in Hj. unfold lastb in Hj.
    assert (Hr : In e (rev P)) by now apply in_rev in He.
    destruct (rev P) as [|x r] eqn:E; [contradiction|].
    assert (Hx : In x P) by (apply in_rev; rewrite E; now left).
    (* e <= x since x is the last of the sorted prefix *)
    assert (Hex : first_of e <= first_of x).
    { assert (Sx : sorted_tbl P).
      { unfold sorted_tbl in *. clear - Hsrt. induction P as [|y P IH]; [constructor|].
        cbn in Hsrt. inversion Hsrt; subst. constructor; [now apply IH|].
        rewrite Forall_forall in *. intros z Hz. match goal with K : forall z, In z _ -> hlt y z |- _ => apply K end. apply in_or_app. now left. }
      assert (HP : P = rev r ++ [x]) by (rewrite <- (rev_involutive P), E; reflexivity).
      destruct Hr as [<-|Hr]; [lia|].
      rewrite HP in Sx. apply (sorted_le_last (rev r) x Sx).
      - intros y Hy. apply Hne. apply in_or_app. left. now rewrite HP.
      - now apply in_rev in Hr. }
    pose proof (first_of_byte x ltac:(specialize (Hle x Hx); lia)). lia. }
  assert (Hnb : n_big P <= N.of_nat (List.length P)).
  { unfold n_big. assert (List.length (filter is_big P) <= List.length P)%nat.
    { clear. induction P as [|e l IH]; cbn; [lia|]. destruct (is_big e); cbn; lia. }
    lia. }
  unfold cstep. fold fan. cbv zeta.
  set (newb := negb (c_last s =? Z.of_nat fan)%Z).
  assert (Hsame : newb = false -> c_bk s <> []).
  { intros En. unfold newb in En. assert (Hl : c_last s = Z.of_nat fan) by lia.
    rewrite I1 in Hl. unfold lastb in Hl. destruct (rev P) as [|x r'] eqn:E; [lia|].
    apply I10. intros ->. discriminate. }
  constructor; cbn [c_last c_fan c_fmap c_bk c_off64 c_n64].
  - now rewrite lastb_snoc.
  - intros j Hj. rewrite count_le_snoc.
    destruct (Nat.eqb j fan) eqn:Ej.
    + apply Nat.eqb_eq in Ej. subst j. rewrite Hfan. replace (first_of o <=? first_of o) with true by lia.
      rewrite <- Hfan. rewrite HallP by lia. reflexivity.
    + apply Nat.eqb_neq in Ej. replace (first_of o <=? N.of_nat j) with false by lia.
      destruct ((c_last s <? Z.of_nat j)%Z && (Z.of_nat j <? Z.of_nat fan)%Z) eqn:Eg.
      * rewrite HallP by lia. lia.
      * rewrite I2 by lia. lia.
  - intros j Hj. destruct newb.
    + replace (Nat.eqb j fan) with false by lia. apply I3. lia.
    + apply I3. lia.
  - assert (Hf256 : (fan < 256)%nat) by lia.
    destruct newb eqn:En.
    + (* new bucket: byte fan gets position length(c_bk s) *)
      assert (Hlt : (c_last s < Z.of_nat fan)%Z) by (unfold newb in En; lia).
      cbn [List.length]. rewrite nseq_snoc, <- I4, N.add_0_l.
      match goal with |- somes ?g 256 = _ => set (gg := g) end.
      assert (E1 : somes gg 256 = somes gg (S fan)).
      { apply somes_none_tail; [lia|]. intros j Hj. unfold gg. replace (Nat.eqb j fan) with false by lia. apply I3. lia. }
      assert (E2 : somes gg fan = somes (c_fmap s) fan).
      { apply somes_ext. intros j Hj. unfold gg. now replace (Nat.eqb j fan) with false by lia. }
      assert (E3 : somes (c_fmap s) 256 = somes (c_fmap s) fan).
      { apply somes_none_tail; [lia|]. intros j Hj. apply I3. lia. }
      rewrite E1. cbn [somes]. rewrite E2, <- E3. unfold gg. now rewrite Nat.eqb_refl.
    + (* same bucket *)
      destruct (c_bk s) as [|b r] eqn:Eb; [|exact I4].
      exfalso. unfold newb in En. assert (Hl : c_last s = Z.of_nat fan) by lia.
      rewrite I1 in Hl. unfold lastb in Hl. destruct (rev P) as [|x r'] eqn:E; [lia|].
      apply I10; [|reflexivity]. intros ->. discriminate.
  - rewrite flat_map_app. cbn [flat_map]. rewrite app_nil_r, <- I5.
    apply (bucket_push b_names); [reflexivity|reflexivity|exact Hsame].
  - rewrite flat_map_app. cbn [flat_map]. rewrite app_nil_r, <- I6.
    apply (bucket_push b_crc32); [reflexivity|reflexivity|exact Hsame].
  - rewrite off32_codes_snoc, flat_map_app. cbn [flat_map]. rewrite app_nil_r, <- I7, N.add_0_l.
    assert (Ecode : (if MAXINT32 <? e_off o then N.lor (c_n64 s) O64MASK else e_off o)
                    = (if is_big o then n_big P + 2147483648 else e_off o)).
    { unfold is_big. change MAXINT32 with 2147483647. destruct (2147483647 <? e_off o); [|reflexivity].
      rewrite I9. change O64MASK with P31. rewrite lor_mask31; [reflexivity|]. unfold P31. lia. }
    rewrite <- Ecode.
    apply (bucket_push b_off32); [reflexivity|reflexivity|exact Hsame].
  - rewrite big_offsets_snoc, flat_map_app, <- I8. unfold is_big. change MAXINT32 with 2147483647.
    destruct (2147483647 <? e_off o); cbn [flat_map]; now rewrite ?app_nil_r.
  - rewrite n_big_snoc, <- I9. unfold is_big. change MAXINT32 with 2147483647.
    destruct (2147483647 <? e_off o); [|lia]. rewrite I9. rewrite N.mod_small; lia.
  - intros _. destruct newb; [discriminate|]. destruct (c_bk s) eqn:Eb; [|discriminate].
    exfalso. now apply Hsame.
Qed.

Lemma sorted_app_l (a b : list entry) : sorted_tbl (a ++ b) -> sorted_tbl a.
Proof.
  unfold sorted_tbl. induction a as [|x a IH]; intros Hs; [constructor|].
  cbn in Hs. inversion Hs as [|? ? S' F]; subst. constructor; [now apply IH|].
  rewrite Forall_forall in *. intros y Hy. apply F. apply in_or_app. now left.
Qed.

Lemma cloop_inv : forall os P s,
  cinv P s -> sorted_tbl (P ++ os) -> (forall e, In e (P ++ os) -> e_hash e <> []) ->
  (forall e, In e (P ++ os) -> first_of e < 256) -> N.of_nat (List.length (P ++ os)) < 2147483648 ->
  cinv (P ++ os) (cloop s (N.of_nat (List.length P)) os).
Proof.
  induction os as [|o r IH]; intros P s I Hs Hne Hb Hc; cbn [cloop].
  - now rewrite app_nil_r.
  - replace (P ++ o :: r) with ((P ++ [o]) ++ r) in * by (rewrite <- app_assoc; reflexivity).
    replace (N.of_nat (List.length P) + 1) with (N.of_nat (List.length (P ++ [o]))) by (rewrite app_length; cbn; lia).
    apply IH; auto.
    apply cstep_inv; auto.
    + now apply sorted_app_l in Hs.
    + intros e He. apply Hne. apply in_or_app. now left.
    + apply Hb. apply in_or_app. left. apply in_or_app. right. now left.
    + rewrite !app_length in Hc. cbn in Hc. lia.
Qed.

Lemma nseq_in : forall len a p, In p (nseq a len) -> a <= p < a + N.of_nat len.
Proof.
  induction len as [|len IH]; intros a p Hp; cbn in Hp; [contradiction|].
  destruct Hp as [<-|Hp]; [lia|]. apply IH in Hp. lia.
Qed.

(* Writer.createIndex + Encode = git's idx v2 layout *)
Theorem create_encode_layout (Hsz : nat -> bytes -> bytes) (added tbl : list entry) (pack : bytes) :
  sort_entries added = tbl -> wf_tbl hs tbl ->
  exists m, create_index hs added pack = Ok m /\ encode hs Hsz m = Ok (idx_file (Hsz hs) tbl pack).
Proof.
  intros Es WF. unfold create_index. rewrite Es.
  assert (Hsize : forallb (fun o => Nat.eqb (List.length (e_hash o)) hs) tbl = true).
  { apply forallb_forall. intros e He. apply Nat.eqb_eq. now apply (wf_size _ _ WF). }
  rewrite Hsize. cbn [negb].
  assert (Hne : forall e, In e tbl -> e_hash e <> []).
  { intros e He E. pose proof (wf_size _ _ WF e He) as L. rewrite E in L. cbn in L. pose proof (wf_hs _ _ WF). lia. }
  assert (Hb : forall e, In e tbl -> first_of e < 256).
  { intros e He. unfold first_of. destruct (e_hash e) as [|b r] eqn:E; [now apply Hne in He|].
    cbn. apply (wf_bytes _ _ WF e b He). rewrite E. now left. }
  pose proof (cloop_inv tbl [] cinit cinv_init (wf_sorted _ _ WF) Hne Hb (wf_count _ _ WF)) as I.
  cbn [app List.length] in I. change (N.of_nat 0) with 0 in I.
  set (s := cloop cinit 0 tbl) in *.
  destruct I as [I1 I2 I3 I4 I5 I6 I7 I8 I9 I10].
  eexists. split; [reflexivity|].
  unfold encode, encode_body. cbn [m_fmap m_bk m_fanout m_off64 m_pack].
  assert (Hpick : forall sel, enc_tables sel
            (mkM (map (fun j => if (c_last s <? Z.of_nat j)%Z then N.of_nat (List.length tbl) else c_fan s j) (seq 0 NFANOUT))
                 (map (c_fmap s) (seq 0 NFANOUT)) (rev (c_bk s)) (c_off64 s) pack (repeat 0 hs))
            (map (c_fmap s) (seq 0 NFANOUT)) = Some (flat_map sel (rev (c_bk s)))).
  { intros sel. change NFANOUT with 256%nat. rewrite enc_tables_somes; cbn [m_bk].
    - rewrite I4. f_equal. rewrite <- (rev_length (c_bk s)).
      apply (pick_nseq sel (rev (c_bk s)) []).
    - intros p Hp. rewrite I4 in Hp. apply nseq_in in Hp. rewrite rev_length. lia. }
  rewrite !Hpick. f_equal.
  assert (Hfan : map (fun j => if (c_last s <? Z.of_nat j)%Z then N.of_nat (List.length tbl) else c_fan s j) (seq 0 NFANOUT)
                 = fanout_of tbl).
  { unfold fanout_of. change NFANOUT with 256%nat. apply map_ext_in. intros j Hj.
    destruct (c_last s <? Z.of_nat j)%Z eqn:E.
    - symmetry. apply count_le_all. intros e He.
      rewrite I1 in E. unfold lastb in E. destruct (rev tbl) as [|x r] eqn:Er.
      + apply in_rev in He. rewrite Er in He. contradiction.
      + assert (HT : tbl = rev r ++ [x]) by (rewrite <- (rev_involutive tbl), Er; reflexivity).
        assert (Hx : In x tbl) by (apply in_rev; rewrite Er; now left).
        assert (first_of e <= first_of x).
        { apply in_rev in He. rewrite Er in He. destruct He as [<-|He]; [lia|].
          apply (sorted_le_last (rev r) x).
          - rewrite <- HT. apply (wf_sorted _ _ WF).
          - intros y Hy. apply Hne. now rewrite HT.
          - now apply in_rev in He. }
        pose proof (first_of_byte x (Hb x Hx)). lia.
    - apply I2. lia. }
  rewrite Hfan, I5, I6, I7, I8.
  unfold idx_file, idx_body. reflexivity.
Qed.

End Create.
