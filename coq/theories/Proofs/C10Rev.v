(* Proofs/C10Rev.v — the reverse index: revfile.Encode writes git's rev v1 layout
   (positions of the table's entries in offset order); with distinct offsets below 2^63,
   LazyIndex.FindHash (binary search through the .rev) and EntriesByOffset answer like the map. *)
From Coq Require Import List NArith ZArith Bool Lia ZifyBool ZifyNat ZifyN Sorting.Sorted Sorting.Permutation.
From GoGit Require Import Base.Out Base.GoInt Model.PackBytes Model.Idx Spec.IdxFormat
  Proofs.C10Search Proofs.C10Order Proofs.C10Bytes Proofs.C10Table Proofs.C10Layout Proofs.C10Lazy.
Import ListNotations.
Local Open Scope N_scope.
Ltac Zify.zify_post_hook ::= Z.div_mod_to_equations.

(* ---- S: git's rev v1 layout ---- *)
Definition pos_of (tbl : list entry) (o : N) : N := assoc_get (pos_of_offset tbl 0 []) o.
Definition rev_positions (tbl : list entry) : list N := map (fun e => pos_of tbl (e_off e)) (sort_by_off tbl).
Definition rev_body (hf : N) (tbl : list entry) (pack : bytes) : bytes :=
  ([82; 73; 68; 88] ++ be32 1 ++ be32 hf) ++ flat_map be32 (rev_positions tbl) ++ pack.
Definition rev_file (H : bytes -> bytes) (hf : N) (tbl : list entry) (pack : bytes) : bytes :=
  rev_body hf tbl pack ++ H (rev_body hf tbl pack).

(* revfile.Encode of an index whose Entries() are the table *)
Lemma rev_encode_layout hs Hsz m tbl :
  mem_entries hs m = (tbl, None) ->
  rev_encode hs Hsz m = Ok (rev_file (Hsz hs) (rev_hf hs) tbl (m_pack m)).
Proof.
  intros E. unfold rev_encode. rewrite E. unfold rev_file, rev_body, rev_positions, pos_of.
  assert (Fm : forall (g : entry -> N) l, flat_map be32 (map g l) = flat_map (fun e => be32 (g e)) l).
  { intros g l. induction l as [|x l IH]; cbn; [reflexivity|]. now rewrite IH. }
  rewrite Fm. rewrite <- !app_assoc. reflexivity.
Qed.

(* ---- sorting by offset ---- *)
Definition distinct_offsets (l : list entry) : Prop := NoDup (map e_off l).
Definition olt (a b : entry) : Prop := e_off a < e_off b.

Lemma insert_off_perm e l : Permutation (e :: l) (insert_by_off e l).
Proof.
  induction l as [|x l IH]; cbn; [reflexivity|].
  destruct (off_le e x); [reflexivity|]. rewrite perm_swap. now constructor.
Qed.

Lemma sort_off_perm l : Permutation l (sort_by_off l).
Proof.
  induction l as [|e l IH]; cbn; [reflexivity|]. rewrite <- insert_off_perm. now constructor.
Qed.

Lemma off_le_false a b : e_off a <> e_off b -> off_le a b = false -> e_off b < e_off a.
Proof.
  unfold off_le. intros Hne. destruct (e_off a <? e_off b) eqn:E1; [discriminate|].
  destruct (e_off b <? e_off a) eqn:E2; [lia|]. lia.
Qed.

Lemma off_le_true a b : e_off a <> e_off b -> off_le a b = true -> e_off a < e_off b.
Proof.
  unfold off_le. intros Hne. destruct (e_off a <? e_off b) eqn:E1; [lia|].
  destruct (e_off b <? e_off a) eqn:E2; [discriminate|]. lia.
Qed.

Lemma insert_off_sorted e : forall l,
  StronglySorted olt l -> (forall x, In x l -> e_off x <> e_off e) -> StronglySorted olt (insert_by_off e l).
Proof.
  induction l as [|x l IH]; intros S D; cbn.
  - constructor; constructor.
  - inversion S as [|? ? S' F]; subst.
    assert (Hne : e_off e <> e_off x) by (intros E; apply (D x); [now left|congruence]).
    destruct (off_le e x) eqn:C.
    + apply off_le_true in C; [|exact Hne]. constructor; [assumption|]. constructor; [exact C|].
      rewrite Forall_forall in *. intros y Hy. specialize (F y Hy). unfold olt in *. lia.
    + apply off_le_false in C; [|exact Hne]. constructor.
      * apply IH; [assumption|]. intros y Hy. apply D. now right.
      * eapply Permutation_Forall; [apply insert_off_perm|]. constructor; assumption.
Qed.

Lemma sort_off_sorted l : distinct_offsets l -> StronglySorted olt (sort_by_off l).
Proof.
  induction l as [|e l IH]; intros D; cbn; [constructor|].
  inversion D as [|? ? Hn D']; subst. apply insert_off_sorted; [auto|].
  intros x Hx E. apply Hn. rewrite <- E. apply in_map.
  eapply Permutation_in; [symmetry; apply sort_off_perm|exact Hx].
Qed.

Lemma sorted_off_nth l : StronglySorted olt l -> forall i j d,
  (i < j)%nat -> (j < List.length l)%nat -> e_off (nth i l d) < e_off (nth j l d).
Proof.
  induction 1 as [|x l Hs IH F]; intros i j d Hij Hj; cbn in Hj; [lia|].
  destruct j as [|j]; [lia|]. destruct i as [|i]; cbn.
  - rewrite Forall_forall in F. apply F. apply nth_In. lia.
  - apply IH; lia.
Qed.

(* ---- positions: offsetToPos of buildReverseIndex ---- *)
Lemma pos_of_offset_absent : forall l i acc o,
  ~ In o (map e_off l) -> assoc_get (pos_of_offset l i acc) o = assoc_get acc o.
Proof.
  induction l as [|e l IH]; intros i acc o Hn; cbn [pos_of_offset]; [reflexivity|].
  rewrite IH by (intros Hi; apply Hn; now right). cbn [assoc_get].
  destruct (e_off e =? o) eqn:E; [|reflexivity]. apply N.eqb_eq in E. exfalso. apply Hn. now left.
Qed.

Lemma pos_of_offset_nth : forall l i acc k d,
  NoDup (map e_off l) -> (k < List.length l)%nat ->
  assoc_get (pos_of_offset l i acc) (e_off (nth k l d)) = i + N.of_nat k.
Proof.
  induction l as [|e l IH]; intros i acc k d Hd Hk; cbn in Hk; [lia|].
  inversion Hd as [|? ? Hn Hd']; subst. cbn [pos_of_offset]. destruct k as [|k]; cbn [nth].
  - rewrite pos_of_offset_absent by exact Hn. cbn [assoc_get]. rewrite N.eqb_refl. lia.
  - rewrite IH by (try assumption; lia). lia.
Qed.

Lemma pos_of_nth tbl k d : distinct_offsets tbl -> (k < List.length tbl)%nat ->
  pos_of tbl (e_off (nth k tbl d)) = N.of_nat k.
Proof. intros Hd Hk. unfold pos_of. rewrite pos_of_offset_nth by assumption. lia. Qed.

(* the i-th entry by offset sits at position rev_positions[i] of the table *)
Lemma rev_positions_nth tbl i : distinct_offsets tbl -> (i < List.length tbl)%nat ->
  exists p, nth i (rev_positions tbl) 0 = N.of_nat p /\ (p < List.length tbl)%nat /\
            nth p tbl d0 = nth i (sort_by_off tbl) d0.
Proof.
  intros Hd Hi. unfold rev_positions.
  assert (Hl : List.length (sort_by_off tbl) = List.length tbl) by (symmetry; apply Permutation_length, sort_off_perm).
  rewrite (nth_map_N (fun e => pos_of tbl (e_off e)) (sort_by_off tbl) i d0 0) by lia.
  assert (Hin : In (nth i (sort_by_off tbl) d0) tbl).
  { eapply Permutation_in; [symmetry; apply sort_off_perm|]. apply nth_In. lia. }
  destruct (In_nth tbl _ d0 Hin) as (p & Hp & Ep).
  exists p. rewrite <- Ep. rewrite pos_of_nth by assumption. auto.
Qed.

Lemma rev_positions_length tbl : List.length (rev_positions tbl) = List.length tbl.
Proof. unfold rev_positions. rewrite map_length. symmetry. apply Permutation_length, sort_off_perm. Qed.

(* the map by offset *)
Lemma lookup_off_nth tbl k : distinct_offsets tbl -> (k < List.length tbl)%nat ->
  lookup_off tbl (e_off (nth k tbl d0)) = Some (nth k tbl d0).
Proof.
  unfold lookup_off, distinct_offsets. revert k. induction tbl as [|e l IH]; intros k Hd Hk; cbn in Hk; [lia|].
  inversion Hd as [|? ? Hn Hd']; subst. destruct k as [|k]; cbn [nth find].
  - now rewrite N.eqb_refl.
  - destruct (e_off e =? e_off (nth k l d0)) eqn:E.
    + apply N.eqb_eq in E. exfalso. apply Hn. rewrite E. apply in_map, nth_In. lia.
    + apply IH; [assumption|lia].
Qed.

Lemma lookup_off_none tbl o : (forall e, In e tbl -> e_off e <> o) -> lookup_off tbl o = None.
Proof.
  unfold lookup_off. induction tbl as [|e l IH]; intros Hn; cbn; [reflexivity|].
  replace (e_off e =? o) with false by (symmetry; apply N.eqb_neq, Hn; now left).
  apply IH. intros; apply Hn; now right.
Qed.

(* the domain of the offset-to-id theorems, decidable: distinct offsets below 2^63 *)
Fixpoint nodupb (l : list N) : bool :=
  match l with [] => true | x :: r => negb (existsb (N.eqb x) r) && nodupb r end.
Definition offsets_okb (tbl : list entry) : bool :=
  nodupb (map e_off tbl) && forallb (fun e => e_off e <? 9223372036854775808) tbl.

Lemma nodupb_NoDup l : nodupb l = true -> NoDup l.
Proof.
  induction l as [|x l IH]; intros E; [constructor|]. cbn in E. apply andb_true_iff in E. destruct E as [E1 E2].
  constructor; [|auto]. intros Hi. apply negb_true_iff in E1.
  assert (existsb (N.eqb x) l = true) by (apply existsb_exists; exists x; split; [exact Hi|apply N.eqb_refl]). congruence.
Qed.

Lemma offsets_okb_spec tbl : offsets_okb tbl = true ->
  distinct_offsets tbl /\ forall e, In e tbl -> e_off e < 9223372036854775808.
Proof.
  unfold offsets_okb. intros E. apply andb_true_iff in E. destruct E as [E1 E2]. split.
  - now apply nodupb_NoDup.
  - rewrite forallb_forall in E2. intros e He. specialize (E2 e He). lia.
Qed.

Section RevLazy.
Variable hs : nat.
Variable H : bytes -> bytes.
Variable tbl : list entry.
Variable pack : bytes.
Variable hf : N.
Hypothesis WF : wf_tbl hs tbl.
Hypothesis Hpack : List.length pack = hs.
Hypothesis Hdist : distinct_offsets tbl.
Hypothesis Hsmall : forall e, In e tbl -> e_off e < 9223372036854775808.

Let n : N := N.of_nat (List.length tbl).
Let HS : N := N.of_nat hs.
Let rev := rev_file H hf tbl pack.
Let L := the_lazy hs H tbl pack rev.
Set Default Proof Using "hs H tbl pack hf WF Hpack Hdist Hsmall".

Lemma rev_hdr_ok : exists hfb t, rev = ([82; 73; 68; 88] ++ be32 1 ++ hfb) ++ t /\ List.length hfb = 4%nat.
Proof.
  exists (be32 hf), (flat_map be32 (rev_positions tbl) ++ pack ++ H (rev_body hf tbl pack)).
  split; [|reflexivity]. unfold rev, rev_file, rev_body. now rewrite <- !app_assoc.
Qed.

Let LazyEntry := lazy_entry_ok hs H tbl pack rev WF Hpack rev_hdr_ok.
Let LazyOffset := lazy_offset_ok hs H tbl pack rev WF Hpack rev_hdr_ok.
Let LazyName := lazy_name_ok hs H tbl pack rev WF Hpack rev_hdr_ok.

Lemma sorted_len : List.length (sort_by_off tbl) = List.length tbl.
Proof. symmetry. apply Permutation_length, sort_off_perm. Qed.

(* one entry of the .rev file *)
Lemma lazy_rev_at_ok i : i < n ->
  exists p, lazy_rev_at L i = Ok (N.of_nat p) /\ (p < List.length tbl)%nat /\
            nth p tbl d0 = nth (N.to_nat i) (sort_by_off tbl) d0.
Proof.
  intros Hi. destruct (rev_positions_nth tbl (N.to_nat i) Hdist ltac:(unfold n in Hi; lia)) as (p & Ep & Hp & En).
  exists p. split; [|split; assumption].
  unfold lazy_rev_at, L, the_lazy. cbn [l_rev l_count]. change L_REVHDR with 12.
  unfold rev, rev_file, rev_body. rewrite <- !app_assoc.
  rewrite (app_assoc [82; 73; 68; 88]), (app_assoc _ (be32 hf)).
  replace 12 with (blen (([82; 73; 68; 88] ++ be32 1) ++ be32 hf)) by reflexivity.
  rewrite (record_read_at be32 4 (rev_positions tbl) _ _ i 0);
    [|apply blen_be32|rewrite rev_positions_length; exact Hi].
  rewrite Ep. rewrite get32_be32' by (pose proof (wf_count _ _ WF); lia).
  replace (N.of_nat (List.length tbl) <=? N.of_nat p) with false by lia. reflexivity.
Qed.

Lemma i64_small o : o < 9223372036854775808 -> to_i64 o = Z.of_N o.
Proof.
  intros Ho. unfold to_i64, wraps. change (2 ^ 64)%Z with 18446744073709551616%Z.
  change (2 ^ (64 - 1))%Z with 9223372036854775808%Z.
  rewrite Z.mod_small by lia. replace (Z.of_N o <? 9223372036854775808)%Z with true by lia. reflexivity.
Qed.

Lemma sorted_in i : i < n -> In (nth (N.to_nat i) (sort_by_off tbl) d0) tbl.
Proof.
  intros Hi. eapply Permutation_in; [symmetry; apply sort_off_perm|]. apply nth_In. rewrite sorted_len. unfold n in Hi. lia.
Qed.

(* LazyIndex.FindHash *)
Theorem lazy_find_hash_map o : o < 9223372036854775808 ->
  lazy_find_hash hs L (Z.of_N o) =
    match lookup_off tbl o with Some e => Ok (e_hash e) | None => Err ENotFound end.
Proof.
  intros Ho. unfold lazy_find_hash.
  set (probe := fun mid => match lazy_rev_at L mid with
                           | Err _ => None
                           | Ok p => match lazy_offset L p with
                                     | Err _ => None
                                     | Ok got => Some (Z.compare (Z.of_N o) (to_i64 got))
                                     end
                           end).
  assert (Pv : forall i, i < n -> probe i = Some (Z.compare (Z.of_N o) (Z.of_N (e_off (nth (N.to_nat i) (sort_by_off tbl) d0))))).
  { intros i Hi. unfold probe. destruct (lazy_rev_at_ok i Hi) as (p & -> & Hp & En).
    unfold L. rewrite LazyOffset by (unfold n; lia). rewrite Nat2N.id, En.
    rewrite i64_small by (apply Hsmall, sorted_in, Hi). reflexivity. }
  assert (Pm : mono probe 0 n).
  { intros i j Hi Hij Hj. rewrite !Pv by lia.
    destruct (N.eq_dec i j) as [<-|Hne]; [split; auto|].
    assert (Hs := sorted_off_nth _ (sort_off_sorted tbl Hdist) (N.to_nat i) (N.to_nat j) d0
                    ltac:(lia) ltac:(rewrite sorted_len; unfold n in Hj; lia)).
    split; intros E; injection E as E1; f_equal.
    - rewrite Z.compare_lt_iff in *. lia.
    - rewrite Z.compare_gt_iff in *. lia. }
  assert (Pt : total probe 0 n) by (intros i Hi Hj; rewrite Pv by lia; discriminate).
  change (l_count L) with n.
  pose proof (bs_while_fuel probe 0 n Pm Pt) as Sp.
  destruct (bs_while (bs_fuel 0 n) probe 0 n) as [mid| | |] eqn:Eb; cbn in Sp; try contradiction.
  - destruct Sp as [Hr Hp]. rewrite Pv in Hp by lia. injection Hp as Hc. apply Z.compare_eq in Hc.
    destruct (lazy_rev_at_ok mid ltac:(lia)) as (p & -> & Hpl & En).
    unfold L. rewrite LazyName by (unfold n; lia). rewrite Nat2N.id.
    assert (Eo : e_off (nth p tbl d0) = o) by (rewrite En; lia).
    rewrite <- Eo. now rewrite lookup_off_nth by assumption.
  - rewrite lookup_off_none; [reflexivity|]. intros e He Eo.
    assert (Hin : In e (sort_by_off tbl)) by (eapply Permutation_in; [apply sort_off_perm|exact He]).
    destruct (In_nth _ _ d0 Hin) as (i & Hi & Ei). rewrite sorted_len in Hi.
    apply (Sp (N.of_nat i)); [lia|unfold n; lia|]. rewrite Pv by (unfold n; lia).
    rewrite Nat2N.id, Ei, Eo. now rewrite Z.compare_refl.
Qed.

(* LazyIndex.EntriesByOffset *)
Lemma lazy_rev_walk_ok : forall k i,
  i + N.of_nat k <= n -> lazy_rev_walk hs L i k = (firstn k (skipn (N.to_nat i) (sort_by_off tbl)), None).
Proof.
  induction k as [|k IH]; intros i Hi; cbn [lazy_rev_walk]; [now rewrite firstn_O|].
  destruct (lazy_rev_at_ok i ltac:(lia)) as (p & -> & Hp & En).
  unfold L. rewrite LazyEntry by (unfold n; lia). fold L. rewrite IH by lia.
  rewrite Nat2N.id, En.
  assert (Hl : (N.to_nat i < List.length (sort_by_off tbl))%nat) by (rewrite sorted_len; unfold n in Hi; lia).
  rewrite (skipn_nth_cons (sort_by_off tbl) (N.to_nat i) d0 Hl). cbn [firstn].
  replace (N.to_nat (i + 1)) with (S (N.to_nat i)) by lia. reflexivity.
Qed.

Theorem lazy_by_offset_map : lazy_by_offset hs L = (sort_by_off tbl, None).
Proof.
  unfold lazy_by_offset. change (l_count L) with n. rewrite lazy_rev_walk_ok by lia.
  unfold n. rewrite Nat2N.id. cbn [skipn]. rewrite <- sorted_len. now rewrite firstn_all.
Qed.

End RevLazy.
