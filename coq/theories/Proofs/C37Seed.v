(* Proofs/C37Seed.v — seedHaves and seedWants. *)
From Coq Require Import List NArith ZArith Bool Lia.
From GoGit Require Import Model.RevList Spec.ObjReach Proofs.C37Queue Proofs.C37Trees.
Import ListNotations.
Local Open Scope N_scope.

Lemma conj4 : forall A B C D : Prop, A -> B -> C -> D -> A /\ B /\ C /\ D.
Proof. tauto. Qed.

Section Seed.
  Variable st : store.
  Variable sh : list oid.
  Variables wants haves : list oid.
  Hypothesis Hwf : wf_store st = true.

  Notation Had := (Had st sh haves).
  Notation I1 := (I1 st sh haves).
  Notation I2 := (I2 st sh haves).
  Definition Wanted (o : oid) : Prop := reach_set st sh wants o.

  (* a queue entry is the decoded form of a stored commit *)
  Definition cok (c : cinfo) : Prop := get_commit st (c_id c) = Some (c_tree c, c_parents c, c_time c).

  Lemma Wanted_closed : forall a b, Wanted a -> reach st sh a b -> Wanted b.
  Proof. intros; eapply reach_set_closed; eauto. Qed.

  (* ---------------- seedHaves ---------------- *)
  Lemma seed_haves_spec : forall fuel hv hseen hq seen hq' seen',
    seed_haves fuel st hv hseen hq seen = Ok (hq', seen') ->
    (forall h, In h hv -> Had h) -> (forall x, In x seen -> Had x) ->
    (forall c, In c hq -> cok c /\ Had (c_id c)) ->
    (forall x, In x seen' -> Had x) /\ (forall c, In c hq' -> cok c /\ Had (c_id c)).
  Proof.
    induction fuel as [|f IH]; intros hv hseen hq seen hq' seen' H Hhv Hseen Hq; cbn [seed_haves] in H; [discriminate|].
    destruct hv as [|h r]; [inversion H; subst; auto|].
    assert (Hr : forall x, In x r -> Had x) by (intros; apply Hhv; now right).
    assert (Hh : Had h) by (apply Hhv; now left).
    destruct (mem h hseen || mem h seen); [eapply IH; eauto|].
    destruct (get st h) as [[t ps tm|es| |tg]|] eqn:G.
    - (* commit *)
      assert (Hq' : forall c, In c (insert_sorted hq (mkC h t ps tm)) -> cok c /\ Had (c_id c)).
      { intros c Hc. apply insert_sorted_In in Hc. destruct Hc as [->|Hc]; [|now apply Hq].
        split; [unfold cok; cbn; now apply get_commit_get | exact Hh]. }
      destruct (get_tree st t) as [es|] eqn:T.
      + destruct (mark_tree (tree_fuel st) st t es seen) as [sn|] eqn:M; [|discriminate].
        eapply IH; eauto. intros x Hx.
        destruct (mark_tree_spec st sh _ _ _ _ _ M T) as [_ B]. destruct (B x Hx) as [|Hr']; [now apply Hseen|].
        eapply Had_closed; [exact Hh|]. econstructor; [eapply ch_tree; eauto | exact Hr'].
      + eapply IH; eauto.
    - (* tree *)
      destruct (mark_tree (tree_fuel st) st h es seen) as [sn|] eqn:M; [|discriminate].
      eapply IH; eauto. intros x Hx.
      destruct (mark_tree_spec st sh _ _ _ _ _ M (proj2 (get_tree_get _ _ _) G)) as [_ B].
      destruct (B x Hx) as [|Hr']; [now apply Hseen | eapply Had_closed; eauto].
    - (* blob *)
      eapply IH; eauto. intros x [<-|Hx]; auto.
    - (* tag *)
      eapply IH; eauto.
      + intros x Hx. apply in_app_or in Hx. destruct Hx as [Hx|[<-|[]]]; [now apply Hr|].
        eapply Had_closed; [exact Hh|]. apply reach_child. eapply ch_tag; eauto.
      + intros x [<-|Hx]; auto.
    - eapply IH; eauto.
  Qed.

  (* ---------------- seedWants ---------------- *)
  (* handled: held by the receiver, already selected, or queued as a commit *)
  Definition Hd (s : wstate) (wseen : list oid) (x : oid) : Prop := Had x \/ In x (snd s) \/ In x wseen.

  Record winv (wl wseen : list oid) (wq : list cinfo) (s : wstate) : Prop := {
    wi_I1 : I1 s;
    wi_I2 : I2 [] s;
    wi_RS : RS s;
    wi_nd : NoDup (snd s);
    wi_nc : forall x, In x (snd s) -> get_commit st x = None;
    wi_q : forall c, In c wq -> cok c /\ Wanted (c_id c) /\ In (c_id c) wseen;
    wi_seen : forall x, In x wseen -> exists c, In c wq /\ c_id c = x;
    wi_res : forall x, In x (snd s) -> Wanted x;
    wi_wl : forall w, In w wl -> Wanted w;
    wi_tag : forall g tg, In g (snd s) -> get st g = Some (Tag tg) -> In tg wl \/ Hd s wseen tg }.

  Lemma Hd_mono : forall s s' ws ws' x, mono s s' -> incl ws ws' -> Hd s ws x -> Hd s' ws' x.
  Proof. intros s s' ws ws' x [_ B] C [H|[H|H]]; [now left | right; left; now apply B | right; right; now apply C]. Qed.

  Lemma I1_emit : forall h s, I1 s -> I1 (emit h s).
  Proof.
    intros h s H x [<-|Hx]; [left; cbn; now left|]. destruct (H x Hx); [left; cbn; now right | now right].
  Qed.

  (* emitting a leaf want (a tag or a blob) *)
  Lemma winv_emit : forall h r wl' wseen wq s,
    winv (h :: r) wseen wq s -> mem h (fst s) = false ->
    get_tree st h = None -> get_commit st h = None ->
    (forall w, In w wl' -> In w r \/ (exists tg, get st h = Some (Tag tg) /\ w = tg)) ->
    (forall tg, get st h = Some (Tag tg) -> In tg wl') ->
    (forall w, In w r -> In w wl') ->
    winv wl' wseen wq (emit h s).
  Proof.
    intros h r wl' wseen wq s [i1 i2 rs nd nc q sn rsn wl tg] M Ht Hc Hwl' Htg Hinc.
    assert (Wh : Wanted h) by (apply wl; now left).
    constructor.
    - now apply I1_emit.
    - now apply I2_emit_leaf.
    - intros x [<-|Hx]; [cbn; now left | cbn; right; now apply rs].
    - cbn. constructor; [|assumption]. intro Hin. apply rs in Hin. apply mem_false in M. contradiction.
    - intros x [<-|Hx]; auto.
    - exact q.
    - exact sn.
    - intros x [<-|Hx]; auto.
    - intros w Hw. destruct (Hwl' w Hw) as [Hr|(t & G & ->)]; [apply wl; now right|].
      eapply Wanted_closed; [exact Wh|]. apply reach_child. eapply ch_tag; eauto.
    - intros g t [<-|Hg] G.
      + left. now apply Htg.
      + destruct (tg g t Hg G) as [[<-|Hr]|Hh].
        * right. right. left. cbn. now left.
        * left. now apply Hinc.
        * right. eapply Hd_mono; [apply mono_emit | apply incl_refl | exact Hh].
  Qed.

  Lemma seed_wants_spec : forall fuel wl wseen wq s wseen' wq' s',
    seed_wants fuel st wl wseen wq s = Ok (wseen', wq', s') ->
    winv wl wseen wq s ->
    winv [] wseen' wq' s' /\ (forall w, In w wl -> Hd s' wseen' w) /\ mono s s' /\ incl wseen wseen'.
  Proof.
    induction fuel as [|f IH]; intros wl wseen wq s wseen' wq' s' H Inv; cbn [seed_wants] in H; [discriminate|].
    destruct wl as [|h r].
    { inversion H; subst. apply conj4; [exact Inv | intros w [] | apply mono_refl | apply incl_refl]. }
    destruct (mem h wseen || mem h (fst s)) eqn:M.
    - (* already seen *)
      assert (Hh : Hd s wseen h).
      { apply orb_true_iff in M. destruct M as [M|M]; apply mem_In in M.
        - right; right; exact M.
        - destruct (wi_I1 _ _ _ _ Inv h M); [right; left; assumption | left; assumption]. }
      assert (Inv' : winv r wseen wq s).
      { destruct Inv as [i1 i2 rs nd nc q sn rsn wl tg]. constructor; auto.
        - intros w Hw. apply wl. now right.
        - intros g t Hg G. destruct (tg g t Hg G) as [[<-|Hr]|Hx]; [now right | now left | now right]. }
      destruct (IH _ _ _ _ _ _ _ H Inv') as (A & B & C & D). apply conj4; auto.
      intros w [<-|Hw]; [eapply Hd_mono; eauto | now apply B].
    - apply orb_false_iff in M. destruct M as [M1 M2].
      destruct (get st h) as [[t ps tm|es| |tg]|] eqn:G; [| | | |discriminate].
      + (* commit *)
        assert (Inv' : winv r (h :: wseen) (insert_sorted wq (mkC h t ps tm)) s).
        { destruct Inv as [i1 i2 rs nd nc q sn rsn wl tgi]. constructor; auto.
          - intros c Hc. apply insert_sorted_In in Hc. destruct Hc as [->|Hc].
            + split; [unfold cok; cbn; now apply get_commit_get|]. split; [apply wl; now left | cbn; now left].
            + destruct (q c Hc) as (a & b & c0). repeat split; auto. now right.
          - intros x [E|Hx].
            + exists (mkC h t ps tm). split; [apply insert_sorted_In; now left | exact E].
            + destruct (sn x Hx) as (c & Hc & E). exists c. split; [apply insert_sorted_In; now right | exact E].
          - intros w Hw. apply wl. now right.
          - intros g t0 Hg G0. destruct (tgi g t0 Hg G0) as [[<-|Hr]|Hx].
            + right. right. right. now left.
            + now left.
            + right. eapply Hd_mono; [apply mono_refl | | exact Hx]. apply incl_tl, incl_refl. }
        destruct (IH _ _ _ _ _ _ _ H Inv') as (A & B & C & D). apply conj4; auto.
        * intros w [<-|Hw]; [right; right; apply D; now left | now apply B].
        * eapply incl_tran; [|exact D]. apply incl_tl, incl_refl.
      + (* tree *)
        destruct (collect_all (tree_fuel st) st h es s) as [s1|] eqn:CA; [|discriminate].
        assert (Ht : get_tree st h = Some es) by now apply get_tree_get.
        destruct (collect_all_spec st sh haves Hwf _ _ _ _ _ CA Ht) as [[m fr i1 i2 nd nc] Hs].
        assert (Inv' : winv r wseen wq s1).
        { destruct Inv as [j1 j2 rs ndd ncc q sn rsn wl tgi]. constructor; auto.
          - apply nd; auto.
          - apply nd; auto.
          - intros x Hx. destruct (nc x Hx); auto.
          - intros x Hx. destruct (fr x Hx) as [|Hr]; [auto|]. eapply Wanted_closed; [apply wl; now left | exact Hr].
          - intros w Hw. apply wl. now right.
          - intros g t0 Hg G0. destruct (fr g Hg) as [Hg'|Hr].
            + destruct (tgi g t0 Hg' G0) as [[<-|Hr']|Hx].
              * right. destruct (i1 j1 _ Hs); [right; now left | now left].
              * now left.
              * right. eapply Hd_mono; [exact m | apply incl_refl | exact Hx].
            + (* a tag below a tree: impossible in a typed store *)
              exfalso. clear - Hwf Hr G0 Ht.
              assert (forall a b, reach st sh a b -> forall es0, get_tree st a = Some es0 ->
                        get st b = Some (Tag t0) -> False) as K.
              { induction 1 as [a|a b c Hc Hr' IHr]; intros es0 Ha Hb.
                - apply get_tree_get in Ha. congruence.
                - destruct (tree_children st sh _ _ _ Ha Hc) as (e & Hi & Hk & ->).
                  destruct (e_kind e) eqn:K; [| |congruence].
                  + destruct (get_tree st (e_id e)) as [es1|] eqn:T1; [eapply IHr; eauto|].
                    inversion Hr'; subst.
                    * pose proof (entry_typed_of st Hwf _ _ _ Ha Hi) as Ty. unfold entry_typed in Ty. rewrite K, Hb in Ty. discriminate.
                    * pose proof (entry_typed_of st Hwf _ _ _ Ha Hi) as Ty. unfold entry_typed in Ty. rewrite K in Ty.
                      unfold get_tree in T1.
                      inversion H; subst; match goal with X : get st (e_id e) = _ |- _ => rewrite X in Ty, T1 end; try discriminate.
                  + rewrite (file_entry_reach st sh Hwf _ _ _ _ Ha Hi K Hr') in Hb.
                    destruct (file_entry_get st Hwf _ _ _ Ha Hi K) as [[X|X] _]; congruence. }
              eapply K; eauto. }
        destruct (IH _ _ _ _ _ _ _ H Inv') as (A & B & C & D). apply conj4; auto.
        * intros w [<-|Hw]; [|now apply B].
          eapply Hd_mono; [exact C | exact D |]. destruct (i1 (wi_I1 _ _ _ _ Inv) _ Hs); [right; now left | now left].
        * eapply mono_trans; eauto.
      + (* blob *)
        assert (Inv' : winv r wseen wq (emit h s)).
        { assert (Gt : get_tree st h = None) by (unfold get_tree; now rewrite G).
          assert (Gc : get_commit st h = None) by (unfold get_commit; now rewrite G).
          apply (winv_emit h r r wseen wq s Inv M2 Gt Gc).
          - intros w Hw. now left.
          - intros t G0. congruence.
          - auto. }
        destruct (IH _ _ _ _ _ _ _ H Inv') as (A & B & C & D). apply conj4; auto.
        * intros w [<-|Hw]; [|now apply B]. right. left. apply C. cbn. now left.
        * eapply mono_trans; [apply mono_emit | exact C].
      + (* tag *)
        assert (Inv' : winv (r ++ [tg]) wseen wq (emit h s)).
        { assert (Gt : get_tree st h = None) by (unfold get_tree; now rewrite G).
          assert (Gc : get_commit st h = None) by (unfold get_commit; now rewrite G).
          apply (winv_emit h r (r ++ [tg]) wseen wq s Inv M2 Gt Gc).
          - intros w Hw. apply in_app_or in Hw. destruct Hw as [|[<-|[]]]; [now left | right; eauto].
          - intros t G0. rewrite G in G0. inversion G0; subst. apply in_or_app. right. now left.
          - intros w Hw. apply in_or_app. now left. }
        destruct (IH _ _ _ _ _ _ _ H Inv') as (A & B & C & D). apply conj4; auto.
        * intros w [<-|Hw]; [|apply B, in_or_app; now left]. right. left. apply C. cbn. now left.
        * eapply mono_trans; [apply mono_emit | exact C].
  Qed.
End Seed.
