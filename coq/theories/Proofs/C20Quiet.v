(* Proofs/C20Quiet.v — the correspondence trace with quiet steps (Model/IndexCache.trace_q,
   Model/IndexCacheExt.etrace_q) is the plain trace when no step is quiet, and the state it threads
   is the state of the history itself up to the observing reads. *)
From Coq Require Import List NArith Bool String.
From GoGit Require Import Base.Out Model.IndexCache Model.IndexCacheExt.
Import ListNotations.

Lemma trace_q_all_loud deep ops s : trace_q deep s (map (pair false) ops) = trace deep s ops.
Proof.
  revert s. induction ops as [|o r IH]; intros s; cbn [map trace_q trace]; [reflexivity|].
  destruct (read_now deep (step deep s o)) as [v s2]. now rewrite IH.
Qed.

Lemma etrace_q_all_loud fixed ops s : etrace_q fixed s (map (pair false) ops) = etrace fixed s ops.
Proof.
  revert s. induction ops as [|o r IH]; intros s; cbn [map etrace_q etrace]; [reflexivity|].
  destruct (eread_now (estep fixed s o)) as [v s2]. now rewrite IH.
Qed.

(* a history whose steps are all quiet is just [run]: nothing but the history's own operations
   touches the cache (the next Index() of the history meets it as the last operation left it) *)
Lemma trace_q_all_quiet deep ops s :
  trace_q deep s (map (pair true) ops) = map (fun _ => OSym "quiet") ops.
Proof. revert s. induction ops as [|o r IH]; intros s; cbn [map trace_q]; [reflexivity|now rewrite IH]. Qed.

(* the triggering shape on the model as repaired: external rewrite (unobserved), Index() = miss,
   modify the returned value three ways, no SetIndex: the next Index() still returns the file *)
Example miss_then_modify :
  c20_store_q true [(true, OExternal [(2%N,20%N); (1%N,10%N)]); (true, OIndex); (true, OMutate 0 0 99%N);
                    (true, OAppend 0 (3%N,30%N)); (false, ORemove 0 1)]
  = OList [OSym "quiet"; OSym "quiet"; OSym "quiet"; OSym "quiet";
           OList [vals_out [(1%N,10%N); (2%N,20%N)]; vals_out [(1%N,10%N); (2%N,20%N)]]].
Proof. vm_compute. reflexivity. Qed.
