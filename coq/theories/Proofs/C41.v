(* Proofs/C41.v — shell quoting is injection-free. *)
From Coq Require Import List NArith Arith Lia Bool.
From GoGit Require Import Base.Out Model.ShellQuote Spec.ShWords.
Import ListNotations.
Local Open Scope N_scope.

Lemma lex_plain w r cur acc :
  forallb plain w = true ->
  lex (w ++ r) false cur acc =
  lex r false (match w, cur with [], _ => cur | _, Some c => Some (c ++ w) | _, None => Some w end) acc.
Proof.
  revert cur. induction w as [|c w IH]; intros cur Hp; [reflexivity|].
  cbn [forallb] in Hp. apply andb_true_iff in Hp as [Hc Hw].
  unfold plain in Hc. apply negb_true_iff in Hc.
  apply orb_false_iff in Hc as [Hc Hbs]. apply orb_false_iff in Hc as [Hc Hsq].
  apply orb_false_iff in Hc as [Hsp Hbl].
  cbn [app lex]. rewrite Hsq, Hbs, Hbl, Hsp. rewrite IH by assumption.
  destruct w, cur; cbn; rewrite <- ?app_assoc; reflexivity.
Qed.

Lemma lex_inq body r w acc :
  lex (flat_map quote1 body ++ SQ :: r) true (Some w) acc = lex r false (Some (w ++ body)) acc.
Proof.
  revert w. induction body as [|c b IH]; intros w.
  - cbn. rewrite app_nil_r. reflexivity.
  - cbn [flat_map]. rewrite <- app_assoc. unfold quote1 at 1.
    destruct ((c =? SQ) || (c =? BANG)) eqn:E.
    + cbn. rewrite IH. rewrite <- app_assoc. reflexivity.
    + apply orb_false_iff in E as [E1 E2]. cbn [app lex]. rewrite E1. rewrite IH.
      rewrite <- app_assoc. reflexivity.
Qed.

Lemma lex_quote s r cur acc :
  lex (quote s ++ r) false cur acc =
  lex r false (Some ((match cur with Some w => w | None => [] end) ++ s)) acc.
Proof.
  unfold quote. cbn [app lex]. rewrite <- app_assoc. cbn [app]. apply lex_inq.
Qed.

Lemma lex_args args : forall cur0 acc,
  lex (flat_map (fun a => SP :: quote a) args) false (Some cur0) acc
  = Some (rev acc ++ cur0 :: args).
Proof.
  induction args as [|a args IH]; intros cur0 acc.
  - cbn. reflexivity.
  - cbn [flat_map]. rewrite <- app_comm_cons.
    assert (E : forall r, lex (SP :: r) false (Some cur0) acc = lex r false None (cur0 :: acc))
      by (intro r; reflexivity).
    rewrite E, lex_quote. cbn [app]. rewrite IH. cbn [rev]. rewrite <- app_assoc. reflexivity.
Qed.

Lemma sh_words_build cmd path args :
  cmd <> [] -> forallb plain cmd = true ->
  sh_words (build cmd path args) = Some (cmd :: path :: args).
Proof.
  intros Hne Hp. unfold sh_words, build. rewrite lex_plain by assumption.
  destruct cmd as [|c cmd]; [congruence|].
  assert (E : forall r, lex ([SP] ++ r) false (Some (c :: cmd)) [] = lex r false None [c :: cmd])
    by (intro r; reflexivity).
  rewrite E, lex_quote. cbn [app]. rewrite lex_args. reflexivity.
Qed.

(* ---- git-shell's sq_dequote ---- *)

Definition no_nul (s : bytes) : bool := forallb (fun c => negb (c =? 0)) s.

Definition after_close (hn : bool) (acc tail : bytes) : option (bytes * option bytes) :=
  match tail with
  | [] => Some (acc, None)
  | _ => if hn then Some (acc, Some tail) else None
  end.

(* inside a quote: the quoted body, the closing quote, then a tail that does
   not resume (empty, or not starting with a backslash) *)
Lemma sq_step_body hn body : forall fuel tail acc,
  (List.length (flat_map quote1 body) < fuel)%nat ->
  match tail with [] => True | d :: _ => (d =? BS) = false end ->
  sq_step hn fuel (flat_map quote1 body ++ SQ :: tail) acc = after_close hn (acc ++ body) tail.
Proof.
  induction body as [|c b IH]; intros fuel tail acc Hf Ht.
  - cbn [flat_map app List.length] in *. rewrite app_nil_r.
    destruct fuel as [|fuel]; [lia|]. cbn [sq_step]. rewrite N.eqb_refl.
    destruct tail as [|d r]; [reflexivity|]. rewrite Ht. reflexivity.
  - cbn [flat_map] in *. rewrite <- app_assoc. rewrite app_length in Hf.
    unfold quote1 at 1. unfold quote1 at 1 in Hf.
    destruct ((c =? SQ) || (c =? BANG)) eqn:E.
    + cbn [List.length] in Hf.
      destruct fuel as [|fuel]; [lia|].
      cbn [app sq_step]. rewrite !N.eqb_refl. rewrite E. cbn [andb].
      rewrite IH; [|simpl in Hf; lia|assumption].
      rewrite <- app_assoc. reflexivity.
    + apply orb_false_iff in E as [E1 E2]. cbn [List.length] in Hf.
      destruct fuel as [|fuel]; [lia|].
      cbn [app sq_step]. rewrite E1. rewrite IH; [|simpl in Hf; lia|assumption].
      rewrite <- app_assoc. reflexivity.
Qed.

Lemma quote_length s : (List.length (flat_map quote1 s) <= 4 * List.length s)%nat.
Proof.
  induction s as [|c s IH]; cbn [flat_map List.length]; [lia|].
  rewrite app_length. unfold quote1 at 1. destruct ((c =? SQ) || (c =? BANG)); simpl List.length; lia.
Qed.

Lemma sq_dequote_step_quote hn s tail :
  match tail with [] => True | d :: _ => (d =? BS) = false end ->
  sq_dequote_step hn (quote s ++ tail) = after_close hn s tail.
Proof.
  intros Ht. unfold sq_dequote_step, quote. cbn [app]. rewrite N.eqb_refl.
  rewrite <- app_assoc. cbn [app].
  rewrite sq_step_body; [reflexivity| |assumption].
  rewrite !app_length. cbn [List.length]. lia.
Qed.

Lemma sq_dequote_quote s : sq_dequote (quote s) = Some s.
Proof.
  unfold sq_dequote. rewrite <- (app_nil_r (quote s)).
  rewrite sq_dequote_step_quote by exact I. reflexivity.
Qed.

Lemma sq_dequote_argv_quotes args : forall a fuel acc,
  (List.length args < fuel)%nat ->
  sq_dequote_argv fuel (quote a ++ flat_map (fun x => SP :: quote x) args) acc
  = Some (rev acc ++ a :: args).
Proof.
  induction args as [|b args IH]; intros a fuel acc Hf.
  - cbn [flat_map]. destruct fuel as [|fuel]; [cbn in Hf; lia|].
    cbn [sq_dequote_argv]. rewrite sq_dequote_step_quote by exact I.
    cbn. reflexivity.
  - cbn [flat_map List.length] in *. destruct fuel as [|fuel]; [lia|].
    cbn [sq_dequote_argv]. rewrite sq_dequote_step_quote by reflexivity.
    cbn [after_close app].
    change (gspace SP) with true. cbn iota.
    change (skip_gspace (quote b ++ flat_map (fun x => SP :: quote x) args))
      with (quote b ++ flat_map (fun x => SP :: quote x) args).
    rewrite IH by lia. cbn [rev]. rewrite <- app_assoc. reflexivity.
Qed.
