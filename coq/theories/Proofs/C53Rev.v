(* Proofs/C53Rev.v — C53 for the revision parser model (Model/Revision.v: scan,
   parse_ref, caret_braces, parse_caret, parse_tilde, parse_loop, parse).
   The model answers [PErr] both for a syntax error and for exhausted fuel, so
   "total" is FUEL STABILITY: for every input, with the fuel the model passes,
   more fuel never changes the answer.  Also: every scanner / sub-parser
   returns a suffix of its input (strictly shorter once a token was read), the
   parser produces at most one item per input byte, and the numbers after
   ~ and ^ saturate at MaxInt64 (strconv.Atoi with the error dropped). *)
From Coq Require Import List Arith NArith ZArith Bool Lia.
From GoGit Require Import Base.Out Model.Revision.
Import ListNotations.
Local Open Scope N_scope.

(* ---------------------------------------------------------------- scanner *)
Lemma take_run_len check : forall s a b, take_run check s = (a, b) -> (List.length b <= List.length s)%nat.
Proof.
  induction s as [|c r IH]; intros a b E; cbn [take_run] in E.
  - injection E as _ <-. lia.
  - destruct (c =? 0); [injection E as _ <-; cbn [List.length]; lia|].
    destruct (check c).
    + destruct (take_run check r) as [a' b'] eqn:T. injection E as _ <-. specialize (IH _ _ eq_refl). cbn [List.length]. lia.
    + injection E as _ <-. lia.
Qed.

Lemma scan_len s t lit r : scan s = (t, lit, r) ->
  (List.length r <= List.length s)%nat /\ (s <> [] -> (List.length r < List.length s)%nat).
Proof.
  unfold scan. destruct s as [|c s']; [intros [= _ _ <-]; split; [lia|congruence]|].
  cbn [List.length].
  destruct (take_run is_letter s') as [a1 b1] eqn:T1. apply take_run_len in T1.
  destruct (take_run is_digit s') as [a2 b2] eqn:T2. apply take_run_len in T2.
  repeat match goal with |- context [if ?c then _ else _] => destruct c end;
  try (destruct s' as [|n r']; [|destruct (n =? 0); [|destruct (n =? 123)]]);
  intros E; injection E as _ _ <-; cbn [List.length] in *; split; intros; lia.
Qed.

Lemma scan_nil_tok : scan [] = (TEof, [], []).
Proof. reflexivity. Qed.

(* ---------------------------------------------------------------- parseRef *)
Lemma parse_ref_stable : forall f s prev buf g,
  (List.length s < f)%nat -> (f <= g)%nat -> parse_ref g s prev buf = parse_ref f s prev buf.
Proof.
  induction f as [|f IH]; intros s prev buf g Hf Hg; [lia|].
  destruct g as [|g]; [lia|]. destruct s as [|c s'].
  - cbn [parse_ref]. rewrite scan_nil_tok. reflexivity.
  - cbn [parse_ref]. destruct (scan (c :: s')) as [[t lit] rest] eqn:E. apply scan_len in E.
    destruct E as [_ E2]. specialize (E2 ltac:(discriminate)). cbn [List.length] in *.
    destruct (check_ref_format t prev buf _); [reflexivity|].
    destruct (match t with TEof | TAt | TColon | TTilde | TCaret => true | _ => false end); [reflexivity|].
    apply IH; lia.
Qed.

(* the reference parser returns a suffix of its input *)
Lemma parse_ref_len : forall f s prev buf name r,
  parse_ref f s prev buf = POk (name, r) -> (List.length r <= List.length s)%nat.
Proof.
  induction f as [|f IH]; intros s prev buf name r E; cbn [parse_ref] in E; [discriminate|].
  destruct (scan s) as [[t lit] rest] eqn:Sc. apply scan_len in Sc. destruct Sc as [L _].
  destruct (check_ref_format t prev buf _); [discriminate|].
  destruct (match t with TEof | TAt | TColon | TTilde | TCaret => true | _ => false end).
  - injection E as _ <-. lia.
  - apply IH in E. lia.
Qed.

(* ... strictly shorter when the first token does not end a reference *)
Lemma parse_ref_progress f s prev buf name r t lit rest :
  scan s = (t, lit, rest) -> s <> [] ->
  match t with TEof | TAt | TColon | TTilde | TCaret => false | _ => true end = true ->
  parse_ref f s prev buf = POk (name, r) -> (List.length r < List.length s)%nat.
Proof.
  intros Sc Hne Ht E. destruct f as [|f]; cbn [parse_ref] in E; [discriminate|]. rewrite Sc in E.
  apply scan_len in Sc. destruct Sc as [_ L]. specialize (L Hne).
  destruct (check_ref_format t prev buf _); [discriminate|].
  destruct t; try discriminate; apply parse_ref_len in E; lia.
Qed.

(* ---------------------------------------------------------------- ^{...} *)
Lemma caret_braces_stable : forall f s start re negate g,
  (List.length s < f)%nat -> (f <= g)%nat -> caret_braces g s start re negate = caret_braces f s start re negate.
Proof.
  induction f as [|f IH]; intros s start re negate g Hf Hg; [lia|].
  destruct g as [|g]; [lia|]. destruct s as [|c s'].
  - cbn [caret_braces]. rewrite scan_nil_tok. cbv beta iota. rewrite scan_nil_tok. cbv beta iota.
    cbn [tok_eqb andb negb]. rewrite !andb_false_r. cbn [andb]. destruct start; reflexivity.
  - cbn [caret_braces]. destruct (scan (c :: s')) as [[t lit] r1] eqn:E1. apply scan_len in E1.
    destruct E1 as [_ E1]. specialize (E1 ltac:(discriminate)). cbn [List.length] in *.
    destruct (scan r1) as [[nt lit2] r2] eqn:E2. apply scan_len in E2. destruct E2 as [E2 _].
    repeat match goal with |- context [if ?c then _ else _] => destruct c; try reflexivity end; apply IH; lia.
Qed.

Lemma caret_braces_len : forall f s start re negate it r,
  caret_braces f s start re negate = POk (it, r) -> (List.length r <= List.length s)%nat.
Proof.
  induction f as [|f IH]; intros s start re negate it r E; cbn [caret_braces] in E; [discriminate|].
  destruct (scan s) as [[t lit] r1] eqn:E1. apply scan_len in E1. destruct E1 as [E1 _].
  destruct (scan r1) as [[nt lit2] r2] eqn:E2. apply scan_len in E2. destruct E2 as [E2 _].
  repeat match type of E with context [if ?c then _ else _] => destruct c end;
    try discriminate; try (injection E as _ <-; lia); apply IH in E; lia.
Qed.

Lemma parse_caret_len s it r : parse_caret s = POk (it, r) -> (List.length r <= List.length s)%nat.
Proof.
  unfold parse_caret. destruct (scan s) as [[t lit] r1] eqn:E1. apply scan_len in E1. destruct E1 as [E1 _].
  destruct t; try (intros [= _ <-]; lia).
  - destruct (2 <? atoi lit); [discriminate|]. intros [= _ <-]. lia.
  - intros E. apply caret_braces_len in E. lia.
Qed.

Lemma parse_tilde_len s it r : parse_tilde s = (it, r) -> (List.length r <= List.length s)%nat.
Proof.
  unfold parse_tilde. destruct (scan s) as [[t lit] r1] eqn:E1. apply scan_len in E1. destruct E1 as [E1 _].
  destruct t; intros [= _ <-]; lia.
Qed.

(* strconv.Atoi with the error dropped: never above MaxInt64, whatever the digits *)
Lemma atoi_saturates lit : atoi lit <= 9223372036854775807.
Proof. unfold atoi. apply N.le_min_r. Qed.

(* ---------------------------------------------------------------- the item loop *)
Lemma parse_loop_stable : forall f s acc g,
  (List.length s < f)%nat -> (f <= g)%nat -> parse_loop g s acc = parse_loop f s acc.
Proof.
  induction f as [|f IH]; intros s acc g Hf Hg; [lia|].
  destruct g as [|g]; [lia|]. destruct s as [|c s'].
  - cbn [parse_loop]. rewrite scan_nil_tok. reflexivity.
  - cbn [parse_loop]. destruct (scan (c :: s')) as [[t lit] r] eqn:E. pose proof E as Sc. apply scan_len in E.
    destruct E as [_ E]. specialize (E ltac:(discriminate)). cbn [List.length] in *.
    destruct t; try reflexivity;
      try (destruct (parse_ref (S (S (List.length s'))) (c :: s') TEof []) as [[name r']| |] eqn:P; [|reflexivity|reflexivity];
           eapply parse_ref_progress in P; [|exact Sc|discriminate|reflexivity]; cbn [List.length] in P; apply IH; lia).
    + (* @ *) destruct (scan r) as [[t2 l2] r2]. destruct (tok_eqb t2 TObrace); [reflexivity|]. apply IH; lia.
    + (* ^ *) destruct (parse_caret r) as [[it r']| |] eqn:P; [|reflexivity|reflexivity]. apply parse_caret_len in P. apply IH; lia.
    + (* ~ *) destruct (parse_tilde r) as [it r'] eqn:P. apply parse_tilde_len in P. apply IH; lia.
Qed.

Theorem parse_stable s g : (S (S (List.length s)) <= g)%nat -> parse_loop g s [] = parse s.
Proof. intros Hg. unfold parse. apply parse_loop_stable; [lia|exact Hg]. Qed.

(* one item per input byte at most *)
Lemma parse_loop_count : forall f s acc l,
  parse_loop f s acc = POk l -> (List.length l <= List.length acc + List.length s)%nat.
Proof.
  induction f as [|f IH]; intros s acc l E; cbn [parse_loop] in E; [discriminate|].
  destruct s as [|c s'].
  - rewrite scan_nil_tok in E. cbv beta iota in E. destruct (validate _ _ _); [|discriminate].
    injection E as <-. rewrite rev_length. lia.
  - destruct (scan (c :: s')) as [[t lit] r] eqn:Sc. pose proof Sc as Sc'. apply scan_len in Sc.
    destruct Sc as [_ Sc]. specialize (Sc ltac:(discriminate)). cbn [List.length] in *.
    destruct t;
      try (destruct (parse_ref (S (S (List.length s'))) (c :: s') TEof []) as [[name r']| |] eqn:P; [|discriminate|discriminate];
           eapply parse_ref_progress in P; [|exact Sc'|discriminate|reflexivity]; cbn [List.length] in P;
           apply IH in E; cbn [List.length] in E; lia);
      try discriminate.
    + (* EOF *) destruct (validate _ _ _); [|discriminate]. injection E as <-. rewrite rev_length. lia.
    + (* @ *) destruct (scan r) as [[t2 l2] r2]. destruct (tok_eqb t2 TObrace); [discriminate|].
      apply IH in E. cbn [List.length] in E. lia.
    + (* ^ *) destruct (parse_caret r) as [[it r']| |] eqn:P; [|discriminate|discriminate]. apply parse_caret_len in P.
      apply IH in E. cbn [List.length] in E. lia.
    + (* ~ *) destruct (parse_tilde r) as [it r'] eqn:P. apply parse_tilde_len in P.
      apply IH in E. cbn [List.length] in E. lia.
Qed.

Theorem parse_alloc s l : parse s = POk l -> (List.length l <= List.length s)%nat.
Proof. intros E. apply parse_loop_count in E. cbn [List.length] in E. lia. Qed.

(* ---------------------------------------------------------------- re-exported by Properties/C53.v *)
Theorem c53_rev_total :
  (forall s g, (S (S (List.length s)) <= g)%nat -> parse_loop g s [] = parse s) /\
  (forall f s prev buf g, (List.length s < f)%nat -> (f <= g)%nat -> parse_ref g s prev buf = parse_ref f s prev buf) /\
  (forall f s start re negate g, (List.length s < f)%nat -> (f <= g)%nat ->
     caret_braces g s start re negate = caret_braces f s start re negate).
Proof. repeat split; [apply parse_stable|apply parse_ref_stable|apply caret_braces_stable]. Qed.
