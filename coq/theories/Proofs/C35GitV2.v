(* Proofs/C35GitV2.v — go-git's protocol-v2 encodings are in git's documented
   grammars (Spec/GitProto.v) and mean the message. *)
From Coq Require Import List Arith NArith ZArith Bool Lia String.
From GoGit Require Import Base.Out Base.GoInt Gen.C34 Model.PktLine Model.C35Utf8 Model.Packp Model.PackpV2 Spec.GitProto
  Proofs.C34Pkt Proofs.C35Base Proofs.C35Utf8 Proofs.C35U Proofs.C35Msgs Proofs.C35Caps Proofs.C35Dec Proofs.C35Adv
  Proofs.C35V2Base Proofs.C35V2Caps Proofs.C35V2Fetch Proofs.C35V2Ls Proofs.C35Git.
Import ListNotations.

(* ================= capability advertisement ================= *)
Definition cap2_abs (e : bytes * list bytes) : bytes * option bytes :=
  (fst e, match snd e with [] => None | vs => Some (join [SP] vs) end).

Lemma git_cap2_line e : key_ok (fst e) = true -> git_cap2 (cap2_line e) = Some (cap2_abs e).
Proof.
  destruct e as [k vs]. cbn [fst]. intros Hk. destruct (key_noeq k Hk) as [Hne Hnn]. unfold EQ in *.
  unfold cap2_line, cap2_abs, git_cap2. cbn [fst snd]. unfold EQ. destruct vs as [|v vs].
  - destruct k as [|c k]; [contradiction|]. now rewrite (cut_none 61%N _ Hne).
  - destruct (k ++ [61%N] ++ join [SP] (v :: vs)) as [|c0 t0] eqn:E; [destruct k; discriminate|]. rewrite <- E.
    change (k ++ [61%N] ++ join [SP] (v :: vs)) with (k ++ 61%N :: join [SP] (v :: vs)). rewrite (cut_app 61%N k _ Hne).
    destruct k as [|c k]; [contradiction|reflexivity].
Qed.

Lemma git_caps2_lines : forall l rest acc, forallb (fun e => key_ok (fst e)) l = true ->
  (match rest with PData _ :: _ => False | _ => True end) ->
  git_caps2 (caps2_encode l ++ rest) acc = Some (acc ++ map cap2_abs l, rest).
Proof.
  intros l rest. rewrite caps2_encode_eq. induction l as [|e l IH]; intros acc H Hr.
  - cbn [map app]. rewrite app_nil_r. destruct rest as [|[p| | |] r]; try reflexivity. contradiction.
  - cbn [forallb] in H. apply andb_prop in H. destruct H as [H1 H2]. cbn [map app git_caps2].
    rewrite chomp_app, (git_cap2_line e H1), (IH _ H2 Hr). now rewrite <- app_assoc.
Qed.

Theorem git_capadv_enc l ps : caps2_ok l = true -> capadv_encode 2 l = Some ps -> git_capadv ps = Some (map cap2_abs l).
Proof.
  intros Hok He. unfold capadv_encode in He. cbn [Z.eqb Pos.eqb] in He.
  apply (f_equal (fun o => match o with Some x => x | None => [] end)) in He. cbv beta iota in He. subst ps.
  unfold caps2_ok in Hok. apply andb_prop in Hok. destruct Hok as [H1 _].
  assert (forallb (fun e => key_ok (fst e)) l = true) as Hk.
  { rewrite forallb_forall in *. intros e He. specialize (H1 e He). now apply andb_prop in H1. }
  unfold git_capadv. change (chomp (B "version 2" ++ [NL])) with (B "version 2"). cbn [beq N.eqb Pos.eqb andb].
  change (beq (B "version 2") (B "version 2")) with true. cbv iota.
  now rewrite (git_caps2_lines l [PFlush] [] Hk I).
Qed.

(* ================= ls-refs output ================= *)
Definition gls_of (refs : list lsref) (x : lsref) : list glsref :=
  let (name, v) := x in
  if is_peeled name then []
  else match v with
  | RSym t => [(name, match hash_by_name refs t None with
                      | Some h => if hash_is_zero h then None else Some h
                      | None => None
                      end, Some t, None)]
  | RHash h => [(name, Some h, None, hash_by_name refs (name ++ peeled_suffix) None)]
  end.

Definition lsref_sized (hexsz : nat) (x : lsref) : bool := match snd x with RHash h => sized hexsz h | RSym _ => true end.

Lemma word_nospace w : word_ok w = true -> no_byte SP w = true /\ w <> [].
Proof.
  unfold word_ok. destruct w as [|c w]; [discriminate|]. intros H. split; [|discriminate].
  unfold no_byte. rewrite forallb_forall in *. intros x Hx. destruct (tokc_facts _ (H x Hx)) as [_ ->]. reflexivity.
Qed.

Lemma hash_by_name_sized hexsz : forall refs name found h, forallb (lsref_sized hexsz) refs = true ->
  (forall h0, found = Some h0 -> sized hexsz h0 = true) ->
  hash_by_name refs name found = Some h -> sized hexsz h = true.
Proof.
  induction refs as [|[n v] refs IH]; intros name found h Hr Hf E; [cbn in E; now apply Hf|].
  cbn [forallb] in Hr. apply andb_prop in Hr. destruct Hr as [H1 H2].
  cbn [hash_by_name] in E. destruct v as [h1|t].
  - destruct (beq n name).
    + apply (IH name (Some h1) h H2); [|exact E]. intros h0 [= <-]. exact H1.
    + now apply (IH name found h H2).
  - now apply (IH name found h H2).
Qed.

Lemma no_byte_app' c a b : no_byte c (a ++ b) = no_byte c a && no_byte c b.
Proof. unfold no_byte. apply forallb_app. Qed.

Lemma git_lsref_sym hexsz oid name t (o : option hash) : no_byte SP oid = true -> word_ok name = true -> word_ok t = true ->
  ((oid = B "unborn" /\ o = None) \/ (exists h, o = Some h /\ git_oid hexsz oid = Some h /\ beq oid (B "unborn") = false)) ->
  git_lsref hexsz (oid ++ [SP] ++ name ++ [SP] ++ B "symref-target:" ++ t) = Some (name, o, Some t, None).
Proof.
  intros Ho Hn Ht Hoid. destruct (word_nospace name Hn) as [Hns Hnn]. destruct (word_nospace t Ht) as [Hts Htn].
  unfold git_lsref. change (oid ++ [SP] ++ name ++ [SP] ++ B "symref-target:" ++ t) with (join [SP] [oid; name; B "symref-target:" ++ t]).
  rewrite split_join; [|discriminate|].
  2:{ cbn [forallb]. rewrite Ho, Hns, no_byte_app', Hts. reflexivity. }
  destruct name as [|c name]; [contradiction|]. cbn [git_ref_attrs].
  rewrite has_prefix_app, (skipn_app_exact (B "symref-target:") t 14 eq_refl). cbn [git_ref_attrs].
  destruct Hoid as [[-> ->] | (h & -> & Hg & Hb)]; [reflexivity|]. now rewrite Hb, Hg.
Qed.

Lemma git_lsref_hash hexsz h name : sized hexsz h = true -> word_ok name = true ->
  git_lsref hexsz (hash_str h ++ [SP] ++ name) = Some (name, Some h, None, None).
Proof.
  intros Hh Hn. destruct (word_nospace name Hn) as [Hns Hnn]. destruct (sized_spec hexsz h Hh) as [Hok _].
  destruct (hash_str_nospace h Hok) as [Hhs _].
  unfold git_lsref. change (hash_str h ++ [SP] ++ name) with (join [SP] [hash_str h; name]).
  rewrite split_join; [|discriminate|cbn [forallb]; now rewrite Hhs, Hns].
  destruct name as [|c name]; [contradiction|]. cbn [git_ref_attrs].
  change (B "unborn") with UNBORN. now rewrite (hash_not_unborn h Hok), (git_oid_str hexsz h Hh).
Qed.

Lemma git_lsref_peeled hexsz h name ph : sized hexsz h = true -> word_ok name = true -> sized hexsz ph = true ->
  git_lsref hexsz (hash_str h ++ [SP] ++ name ++ [SP] ++ B "peeled:" ++ hash_str ph) = Some (name, Some h, None, Some ph).
Proof.
  intros Hh Hn Hp. destruct (word_nospace name Hn) as [Hns Hnn]. destruct (sized_spec hexsz h Hh) as [Hok _].
  destruct (sized_spec hexsz ph Hp) as [Hpok _].
  destruct (hash_str_nospace h Hok) as [Hhs _]. destruct (hash_str_nospace ph Hpok) as [Hps _].
  unfold git_lsref. change (hash_str h ++ [SP] ++ name ++ [SP] ++ B "peeled:" ++ hash_str ph) with (join [SP] [hash_str h; name; B "peeled:" ++ hash_str ph]).
  rewrite split_join; [|discriminate|].
  2:{ cbn [forallb]. rewrite Hhs, Hns, no_byte_app', Hps. reflexivity. }
  destruct name as [|c name]; [contradiction|]. cbn [git_ref_attrs].
  change (has_prefix (B "symref-target:") (B "peeled:" ++ hash_str ph)) with false. cbv iota.
  rewrite has_prefix_app, (skipn_app_exact (B "peeled:") (hash_str ph) 7 eq_refl), (git_oid_str hexsz ph Hp). cbn [git_ref_attrs].
  change (B "unborn") with UNBORN. now rewrite (hash_not_unborn h Hok), (git_oid_str hexsz h Hh).
Qed.

Lemma git_lsout_step hexsz L r acc x : git_lsref hexsz L = Some x ->
  git_lsout hexsz (PData (L ++ [NL]) :: r) acc = git_lsout hexsz r (acc ++ [x]).
Proof. intros H. cbn [git_lsout]. rewrite chomp_app, H. destruct r; reflexivity. Qed.

Lemma git_lsout_lines hexsz refs : forallb lsref_ok refs = true -> forallb (lsref_sized hexsz) refs = true ->
  forall l acc, forallb lsref_ok l = true -> forallb (lsref_sized hexsz) l = true ->
  git_lsout hexsz (flat_map (lsout_line refs) l ++ [PFlush]) acc = Some (acc ++ flat_map (gls_of refs) l).
Proof.
  intros Hrefs Hsz. induction l as [|[name v] l IH]; intros acc Hl Hs; [cbn; now rewrite app_nil_r|].
  cbn [forallb] in Hl, Hs. apply andb_prop in Hl, Hs. destruct Hl as [Hx Hl], Hs as [Hsx Hs].
  unfold lsref_ok in Hx. cbn [fst snd] in Hx. apply andb_prop in Hx. destruct Hx as [Hn Hv].
  unfold lsref_sized in Hsx. cbn [snd] in Hsx.
  cbn [flat_map]. unfold lsout_line at 1, gls_of at 1. destruct (is_peeled name).
  { cbn [app]. now apply IH. }
  destruct v as [h|t].
  - destruct (hash_by_name refs (name ++ peeled_suffix) None) as [ph|] eqn:Ep.
    + assert (sized hexsz ph = true) as Hp by (apply (hash_by_name_sized hexsz refs (name ++ peeled_suffix) None ph Hsz); [discriminate|exact Ep]).
      cbn [app].
      change ((hash_str h ++ SP :: name) ++ SP :: B "peeled:" ++ hash_str ph ++ [NL])
        with ((hash_str h ++ [SP] ++ name) ++ [SP] ++ B "peeled:" ++ hash_str ph ++ [NL]).
      assert ((hash_str h ++ [SP] ++ name) ++ [SP] ++ B "peeled:" ++ hash_str ph ++ [NL]
              = (hash_str h ++ [SP] ++ name ++ [SP] ++ B "peeled:" ++ hash_str ph) ++ [NL]) as -> by (now rewrite <- !app_assoc).
      rewrite (git_lsout_step hexsz _ _ acc _ (git_lsref_peeled hexsz h name ph Hsx Hn Hp)).
      rewrite (IH _ Hl Hs). now rewrite <- app_assoc.
    + cbn [app]. change (hash_str h ++ SP :: name) with (hash_str h ++ [SP] ++ name).
      rewrite (git_lsout_step hexsz _ _ acc _ (git_lsref_hash hexsz h name Hsx Hn)).
      rewrite (IH _ Hl Hs). now rewrite <- app_assoc.
  - set (oid := match hash_by_name refs t None with
                | Some h => if hash_is_zero h then UNBORN else hash_str h
                | None => UNBORN
                end).
    set (o := match hash_by_name refs t None with
              | Some h => if hash_is_zero h then None else Some h
              | None => None
              end).
    assert (no_byte SP oid = true /\
            ((oid = B "unborn" /\ o = None) \/ (exists h, o = Some h /\ git_oid hexsz oid = Some h /\ beq oid (B "unborn") = false))) as (Ho & Hoid).
    { unfold oid, o. destruct (hash_by_name refs t None) as [h|] eqn:Eh.
      - assert (sized hexsz h = true) as Hh by (apply (hash_by_name_sized hexsz refs t None h Hsz); [discriminate|exact Eh]).
        destruct (sized_spec hexsz h Hh) as [Hok _]. destruct (hash_is_zero h).
        + split; [reflexivity|now left].
        + split; [now destruct (hash_str_nospace h Hok)|]. right. exists h. repeat split; [now apply git_oid_str|now apply hash_not_unborn].
      - split; [reflexivity|now left]. }
    cbn [app].
    change (oid ++ SP :: name ++ SP :: B "symref-target:" ++ t ++ [NL]) with (oid ++ [SP] ++ name ++ [SP] ++ B "symref-target:" ++ t ++ [NL]).
    assert (oid ++ [SP] ++ name ++ [SP] ++ B "symref-target:" ++ t ++ [NL]
            = (oid ++ [SP] ++ name ++ [SP] ++ B "symref-target:" ++ t) ++ [NL]) as -> by (now rewrite <- !app_assoc).
    rewrite (git_lsout_step hexsz _ _ acc _ (git_lsref_sym hexsz oid name t o Ho Hn Hv Hoid)).
    rewrite (IH _ Hl Hs). now rewrite <- app_assoc.
Qed.

Theorem git_lsout_enc hexsz refs : forallb lsref_ok refs = true -> forallb (lsref_sized hexsz) refs = true ->
  git_lsout hexsz (lsout_encode refs ++ [PFlush]) [] = Some (flat_map (gls_of refs) refs).
Proof. intros H Hs. unfold lsout_encode. now rewrite (git_lsout_lines hexsz refs H Hs refs [] H Hs). Qed.
