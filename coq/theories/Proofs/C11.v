(* Proofs/C11.v — every read path of Model/ObjStore.v returns the content of
   the content-addressed store (Spec/ObjContent.v), whatever the cache holds,
   whatever the MRU hints say, in whatever order the reads come. *)
From Coq Require Import List NArith Bool Lia PeanoNat String.
From GoGit Require Import Base.Out Model.ObjStore Spec.ObjContent.
Import ListNotations.
Local Open Scope N_scope.

(* ---- equalities ---- *)

Lemma bytes_eqb_eq : forall a b, bytes_eqb a b = true <-> a = b.
Proof.
  induction a as [|x a IH]; destruct b as [|y b]; cbn; split; intros H; try discriminate; auto.
  - apply andb_true_iff in H. destruct H as [H1 H2]. apply N.eqb_eq in H1. apply IH in H2. now subst.
  - inversion H; subst. rewrite N.eqb_refl. cbn. now apply IH.
Qed.

Lemma bytes_eqb_refl : forall a, bytes_eqb a a = true.
Proof. intros. now apply bytes_eqb_eq. Qed.

Lemma otype_eqb_eq : forall a b, otype_eqb a b = true -> a = b.
Proof. destruct a, b; cbn; intros; try discriminate; reflexivity. Qed.

Lemma obj_eqb_eq : forall a b, obj_eqb a b = true -> a = b.
Proof.
  intros [ta da] [tb db] H. unfold obj_eqb in H. cbn in H. apply andb_true_iff in H. destruct H as [H1 H2].
  apply otype_eqb_eq in H1. apply bytes_eqb_eq in H2. now subst.
Qed.

(* ---- packs ---- *)

Lemma existsb_eqb_In : forall x l, existsb (N.eqb x) l = true <-> In x l.
Proof.
  intros x l. rewrite existsb_exists. split.
  - intros [y [Hy E]]. apply N.eqb_eq in E. now subst.
  - intros H. exists x. split; [assumption | apply N.eqb_refl].
Qed.

Lemma find_entry_unique : forall p e, nodup_N (map e_off p) = true -> In e p ->
  find_entry p (e_off e) = Some e.
Proof.
  induction p as [|x p IH]; intros e N I; [destruct I|].
  cbn in N. apply andb_true_iff in N. destruct N as [N1 N2]. unfold find_entry. cbn.
  destruct I as [->|I].
  - now rewrite N.eqb_refl.
  - destruct (e_off x =? e_off e) eqn:E.
    + apply N.eqb_eq in E. apply negb_true_iff in N1.
      assert (existsb (N.eqb (e_off x)) (map e_off p) = true).
      { apply existsb_eqb_In. rewrite E. now apply in_map. }
      congruence.
    + now apply IH.
Qed.

Lemma find_entry_In : forall p off e, find_entry p off = Some e -> In e p /\ e_off e = off.
Proof.
  intros p off e H. unfold find_entry in H. apply find_some in H. destruct H as [H1 H2].
  apply N.eqb_eq in H2. auto.
Qed.

Lemma find_off_some : forall p id off, find_off p id = Some off ->
  exists e, In e p /\ e_id e = id /\ e_off e = off.
Proof.
  intros p id off H. unfold find_off in H.
  destruct (find (fun e => bytes_eqb (e_id e) id) p) as [e|] eqn:F; [|discriminate].
  inversion H; subst. apply find_some in F. destruct F as [F1 F2]. apply bytes_eqb_eq in F2. eauto.
Qed.

Lemma find_off_none : forall p id, find_off p id = None -> forall e, In e p -> e_id e <> id.
Proof.
  intros p id H e I E. unfold find_off in H.
  destruct (find (fun e => bytes_eqb (e_id e) id) p) as [x|] eqn:F; [discriminate|].
  pose proof (find_none _ _ F e I) as N. cbn in N. rewrite E, bytes_eqb_refl in N. discriminate.
Qed.

Lemma find_off_In : forall p e, In e p -> exists off, find_off p (e_id e) = Some off.
Proof.
  intros p e I. unfold find_off.
  destruct (find (fun x => bytes_eqb (e_id x) (e_id e)) p) as [x|] eqn:F; [eexists; reflexivity|].
  pose proof (find_none _ _ F e I) as N. cbn in N. rewrite bytes_eqb_refl in N. discriminate.
Qed.

(* more fuel never changes a successful resolution *)
Lemma presolve_mono : forall f p e o, presolve f p e = Some o -> presolve (S f) p e = Some o.
Proof.
  induction f as [|f IH]; intros p e o H; [discriminate|].
  cbn [presolve] in *. destruct (e_kind e) as [t d|b delta|bid delta]; auto.
  - destruct (find_entry p b) as [pe|]; [|discriminate].
    destruct (presolve f p pe) as [po|] eqn:P; [|discriminate]. now rewrite (IH _ _ _ P).
  - destruct (find_off p bid) as [off|]; [|discriminate].
    destruct (find_entry p off) as [pe|]; [|discriminate].
    destruct (presolve f p pe) as [po|] eqn:P; [|discriminate]. now rewrite (IH _ _ _ P).
Qed.

Lemma presolve_mono_le : forall f f' p e o, (f <= f')%nat -> presolve f p e = Some o -> presolve f' p e = Some o.
Proof.
  intros f f' p e o L. induction L; intros H; [assumption|]. apply presolve_mono. auto.
Qed.

Lemma presolve_fuel_irrelevant : forall f f' p e o o',
  presolve f p e = Some o -> presolve f' p e = Some o' -> o = o'.
Proof.
  intros f f' p e o o' H H'. destruct (Nat.le_ge_cases f f') as [L|L].
  - apply (presolve_mono_le _ _ _ _ _ L) in H. congruence.
  - apply (presolve_mono_le _ _ _ _ _ L) in H'. congruence.
Qed.

(* ---- resolution through any cache ---- *)

Section Cache.
Variable pol : cache -> cache.
Hypothesis pol_ok : forall c x, In x (pol c) -> In x c.
(* the truth the cache may hold *)
Variable T : bytes -> option obj.

Definition cache_ok (c : cache) : Prop := forall id o, In (id, o) c -> T id = Some o.

Lemma cache_get_In : forall c id o, cache_get c id = Some o -> In (id, o) c.
Proof.
  induction c as [|[i x] c IH]; intros id o H; cbn in *; [discriminate|].
  destruct (bytes_eqb i id) eqn:E.
  - inversion H; subst. apply bytes_eqb_eq in E. subst. now left.
  - right. now apply IH.
Qed.

Lemma cache_ok_get : forall c id o, cache_ok c -> cache_get c id = Some o -> T id = Some o.
Proof. intros c id o C H. apply C. now apply cache_get_In. Qed.

Lemma cache_ok_put : forall c id o, cache_ok c -> T id = Some o -> cache_ok (cache_put pol c id o).
Proof.
  intros c id o C H i x I. unfold cache_put in I. apply pol_ok in I. destruct I as [E|I].
  - inversion E; subst. assumption.
  - now apply C.
Qed.

(* the pack agrees with the truth: whenever an entry resolves, it resolves to T of its id *)
Definition pack_ok (p : pack) : Prop :=
  nodup_N (map e_off p) = true /\
  forall e f o, In e p -> presolve f p e = Some o -> T (e_id e) = Some o.

Lemma finish_ok : forall p c par delta e o f,
  pack_ok p -> In e p -> cache_ok c ->
  presolve (S f) p e = Some o ->
  option_map (Obj (o_type par)) (apply_delta (o_data par) delta) = Some o ->
  exists c', finish pol c (Some par) delta e = (c', Some o) /\ cache_ok c'.
Proof.
  intros p c par delta e o f [_ P] I C R H. unfold finish.
  destruct (apply_delta (o_data par) delta) as [d|]; [|discriminate]. cbn in H. inversion H; subst.
  eexists. split; [reflexivity|]. apply cache_ok_put; [assumption|]. eapply P; eauto.
Qed.

Lemma resolve_ok : forall f p c e o,
  pack_ok p -> In e p -> cache_ok c -> presolve f p e = Some o ->
  exists c', resolve pol f p c e = (c', Some o) /\ cache_ok c'.
Proof.
  induction f as [|f IH]; intros p c e o PK I C R; [discriminate|].
  pose proof R as R0. cbn [presolve] in R. cbn [resolve].
  destruct (e_kind e) as [t d|b delta|bid delta] eqn:K.
  - inversion R; subst. eexists. split; [reflexivity|].
    apply cache_ok_put; [assumption|]. destruct PK as [_ P]. eapply P; eauto.
  - destruct (find_entry p b) as [pe|] eqn:F; [|discriminate].
    destruct (presolve f p pe) as [po|] eqn:P; [|discriminate].
    destruct (find_entry_In _ _ _ F) as [Ipe _].
    destruct (cache_get c (e_id pe)) as [o'|] eqn:G.
    + assert (o' = po).
      { pose proof (cache_ok_get _ _ _ C G) as T1. destruct PK as [_ PP].
        pose proof (PP _ _ _ Ipe P) as T2. congruence. }
      subst. eapply finish_ok; eauto.
    + destruct (IH _ c _ _ PK Ipe C P) as [c1 [E1 C1]]. rewrite E1.
      eapply finish_ok; eauto.
  - destruct (find_off p bid) as [off|] eqn:FO; [|discriminate].
    destruct (find_entry p off) as [pe|] eqn:F; [|discriminate].
    destruct (presolve f p pe) as [po|] eqn:P; [|discriminate].
    destruct (find_entry_In _ _ _ F) as [Ipe Ope].
    (* the entry found at the base's offset IS the entry named bid *)
    assert (Eid : e_id pe = bid).
    { destruct (find_off_some _ _ _ FO) as [e1 [I1 [Id1 Of1]]].
      destruct PK as [ND _]. pose proof (find_entry_unique _ _ ND I1) as U.
      rewrite Of1 in U. rewrite U in F. inversion F; subst. reflexivity. }
    destruct (cache_get c bid) as [o'|] eqn:G.
    + assert (o' = po).
      { pose proof (cache_ok_get _ _ _ C G) as T1. destruct PK as [_ PP].
        pose proof (PP _ _ _ Ipe P) as T2. rewrite Eid in T2. congruence. }
      subst. eapply finish_ok; eauto.
    + destruct (IH _ c _ _ PK Ipe C P) as [c1 [E1 C1]]. rewrite E1.
      eapply finish_ok; eauto.
Qed.

(* Packfile.GetByOffset at the offset of an entry that resolves *)
Lemma get_by_offset_ok : forall p c e o,
  pack_ok p -> In e p -> cache_ok c -> presolve (S (List.length p)) p e = Some o ->
  exists c', get_by_offset pol p c (e_off e) = (c', Some o) /\ cache_ok c'.
Proof.
  intros p c e o PK I C R. unfold get_by_offset.
  destruct PK as [ND PP]. rewrite (find_entry_unique _ _ ND I).
  destruct (cache_get c (e_id e)) as [o'|] eqn:G.
  - pose proof (cache_ok_get _ _ _ C G) as T1. pose proof (PP _ _ _ I R) as T2.
    assert (o' = o) by congruence. subst. eauto.
  - apply resolve_ok; auto. split; assumption.
Qed.

End Cache.

(* ---- the store as a content-addressed map ---- *)

Lemma assoc_app : forall A (l1 l2 : list (bytes * A)) id,
  assoc (l1 ++ l2) id = match assoc l1 id with Some x => Some x | None => assoc l2 id end.
Proof.
  induction l1 as [|[i x] l1 IH]; intros l2 id; cbn; [reflexivity|].
  destruct (bytes_eqb i id); auto.
Qed.

Lemma assoc_In : forall A (l : list (bytes * A)) id v, In (id, v) l -> exists v', assoc l id = Some v' /\ In (id, v') l.
Proof.
  induction l as [|[i x] l IH]; intros id v I; [destruct I|]. cbn.
  destruct (bytes_eqb i id) eqn:E.
  - apply bytes_eqb_eq in E. subst. exists x. split; [reflexivity | now left].
  - destruct I as [I|I]; [inversion I; subst; rewrite bytes_eqb_refl in E; discriminate|].
    destruct (IH _ _ I) as [v' [A0 B0]]. exists v'. split; [assumption | now right].
Qed.

Lemma assoc_none : forall A (l : list (bytes * A)) id, assoc l id = None -> forall v, ~ In (id, v) l.
Proof.
  intros A l id H v I. destruct (assoc_In _ _ _ _ I) as [v' [E _]]. congruence.
Qed.

Lemma assoc_none_intro : forall A (l : list (bytes * A)) id, (forall i v, In (i, v) l -> i <> id) -> assoc l id = None.
Proof.
  induction l as [|[i x] l IH]; intros id H; cbn; [reflexivity|].
  destruct (bytes_eqb i id) eqn:E.
  - apply bytes_eqb_eq in E. exfalso. eapply H; [left; reflexivity | exact E].
  - apply IH. intros j v I. eapply H. right. exact I.
Qed.

Definition stores (r : repo) : list store := r_main r :: r_alts r.

Lemma copies_stores : forall r x, In x (copies r) <-> exists s, In s (stores r) /\ In x (store_copies s).
Proof.
  intros r x. unfold copies, stores. rewrite in_app_iff, in_flat_map. split.
  - intros [H|[s [A B]]]; [exists (r_main r); split; [now left | assumption] | exists s; split; [now right | assumption]].
  - intros [s [[<-|A] B]]; [now left | right; eauto].
Qed.

Lemma all_packs_stores : forall r p, In p (all_packs r) <-> exists s, In s (stores r) /\ In p (s_packs s).
Proof.
  intros r p. unfold all_packs, stores. rewrite in_app_iff, in_flat_map. split.
  - intros [H|[s [A B]]]; [exists (r_main r); split; [now left | assumption] | exists s; split; [now right | assumption]].
  - intros [s [[<-|A] B]]; [now left | right; eauto].
Qed.

Section Store.
Variable r : repo.
Hypothesis OK : store_ok r = true.

Lemma ok_nodup : forall p, In p (all_packs r) -> nodup_N (map e_off p) = true.
Proof.
  intros p I. unfold store_ok in OK. apply andb_true_iff in OK. destruct OK as [A _].
  rewrite forallb_forall in A. now apply A.
Qed.

Lemma ok_agree : forall i v w, In (i, v) (copies r) -> In (i, w) (copies r) -> exists o, v = Some o /\ w = Some o.
Proof.
  intros i v w Iv Iw. unfold store_ok in OK. apply andb_true_iff in OK. destruct OK as [_ B].
  rewrite forallb_forall in B. specialize (B _ Iv). rewrite forallb_forall in B. specialize (B _ Iw).
  cbn in B. rewrite bytes_eqb_refl in B. cbn in B.
  destruct v as [x|], w as [y|]; cbn in B; try discriminate.
  apply obj_eqb_eq in B. subst. eauto.
Qed.

Lemma copy_content : forall i v, In (i, v) (copies r) -> exists o, v = Some o /\ content r i = Some o.
Proof.
  intros i v I. destruct (assoc_In _ _ _ _ I) as [v' [A B]].
  destruct (ok_agree _ _ _ I B) as [o [E1 E2]]. exists o. split; [assumption|].
  unfold content. rewrite A, E2. reflexivity.
Qed.

Lemma content_none : forall id, content r id = None -> forall v, ~ In (id, v) (copies r).
Proof.
  intros id H v I. destruct (copy_content _ _ I) as [o [_ E]]. congruence.
Qed.

Lemma pack_in_copies : forall s p e, In s (stores r) -> In p (s_packs s) -> In e p ->
  In (e_id e, presolve (S (List.length p)) p e) (copies r).
Proof.
  intros s p e Is Ip Ie. apply copies_stores. exists s. split; [assumption|].
  unfold store_copies. apply in_or_app. right. apply in_flat_map. exists p. split; [assumption|].
  unfold pack_copies. apply in_map_iff. exists e. auto.
Qed.

Lemma store_pack_ok : forall s p, In s (stores r) -> In p (s_packs s) -> pack_ok (content r) p.
Proof.
  intros s p Is Ip. split.
  - apply ok_nodup. apply all_packs_stores. eauto.
  - intros e f o Ie R.
    destruct (copy_content _ _ (pack_in_copies _ _ _ Is Ip Ie)) as [o0 [E C]].
    rewrite (presolve_fuel_irrelevant _ _ _ _ _ _ R E). exact C.
Qed.

Lemma entry_resolves : forall s p e, In s (stores r) -> In p (s_packs s) -> In e p ->
  exists o, presolve (S (List.length p)) p e = Some o /\ content r (e_id e) = Some o.
Proof.
  intros s p e Is Ip Ie. destruct (copy_content _ _ (pack_in_copies _ _ _ Is Ip Ie)) as [o [E C]]. eauto.
Qed.

Lemma loose_content : forall s id o, In s (stores r) -> loose_get s id = Some o -> content r id = Some o.
Proof.
  intros s id o Is H. unfold loose_get in H. apply cache_get_In in H.
  assert (I : In (id, Some o) (copies r)).
  { apply copies_stores. exists s. split; [assumption|]. unfold store_copies. apply in_or_app. left.
    apply in_map_iff. exists (id, o). auto. }
  destruct (copy_content _ _ I) as [o' [E C]]. inversion E; subst. exact C.
Qed.

(* "s holds no copy of id" *)
Definition absent (s : store) (id : bytes) : Prop :=
  loose_get s id = None /\ forall p, In p (s_packs s) -> find_off p id = None.

Lemma cache_get_none : forall c id, cache_get c id = None -> forall i o, In (i, o) c -> i <> id.
Proof.
  induction c as [|[j x] c IH]; intros id H i o I E; [destruct I|]. cbn in H.
  destruct (bytes_eqb j id) eqn:B; [discriminate|].
  destruct I as [I|I].
  - inversion I; subst. rewrite bytes_eqb_refl in B. discriminate.
  - eapply IH; eauto.
Qed.

Lemma absent_everywhere : forall id, (forall s, In s (stores r) -> absent s id) -> content r id = None.
Proof.
  intros id H. unfold content.
  rewrite (assoc_none_intro _ (copies r) id); [reflexivity|].
  intros i v I E. subst i. apply copies_stores in I. destruct I as [s [Is I]].
  destruct (H s Is) as [L P]. unfold store_copies in I. apply in_app_or in I. destruct I as [I|I].
  - apply in_map_iff in I. destruct I as [[j o] [E I]]. inversion E; subst.
    eapply cache_get_none; eauto.
  - apply in_flat_map in I. destruct I as [p [Ip I]]. unfold pack_copies in I.
    apply in_map_iff in I. destruct I as [e [E Ie]]. inversion E; subst.
    eapply find_off_none; eauto.
Qed.

(* ---- findObjectInPackfile: the MRU hint changes the route, never the answer ---- *)

Lemma scan_packs_some : forall ps i skip id k p off,
  scan_packs ps i skip id = Some (k, p, off) -> In p ps /\ find_off p id = Some off.
Proof.
  induction ps as [|q ps IH]; intros i skip id k p off H; cbn in H; [discriminate|].
  destruct (match skip with Some h => Nat.eqb h i | None => false end).
  - destruct (IH _ _ _ _ _ _ H). split; [now right | assumption].
  - destruct (find_off q id) as [o|] eqn:F.
    + inversion H; subst. split; [now left | assumption].
    + destruct (IH _ _ _ _ _ _ H). split; [now right | assumption].
Qed.

Lemma scan_packs_none : forall ps i skip id,
  scan_packs ps i skip id = None ->
  forall j p, nth_error ps j = Some p -> skip = Some (i + j)%nat \/ find_off p id = None.
Proof.
  induction ps as [|q ps IH]; intros i skip id H j p N; [destruct j; discriminate|]. cbn in H.
  destruct j as [|j]; cbn in N.
  - inversion N; subst. rewrite Nat.add_0_r.
    destruct skip as [h|]; cbn in H.
    + destruct (Nat.eqb h i) eqn:E; [apply Nat.eqb_eq in E; subst; now left|].
      destruct (find_off p id); [discriminate | now right].
    + destruct (find_off p id); [discriminate | now right].
  - assert (H' : scan_packs ps (S i) skip id = None).
    { destruct (match skip with Some h => Nat.eqb h i | None => false end); [assumption|].
      destruct (find_off q id); [discriminate | assumption]. }
    destruct (IH _ _ _ H' _ _ N) as [E|E]; [left; rewrite E; f_equal; lia | now right].
Qed.

Lemma find_in_packs_some : forall s hint id h p off,
  find_in_packs s hint id = (h, Some (p, off)) -> In p (s_packs s) /\ find_off p id = Some off.
Proof.
  intros s hint id h p off H. unfold find_in_packs in H.
  destruct hint as [|hh].
  - destruct (scan_packs (s_packs s) 0 None id) as [[[k q] o]|] eqn:S; inversion H; subst.
    eapply scan_packs_some; eauto.
  - destruct (nth_error (s_packs s) hh) as [q|] eqn:N.
    + destruct (find_off q id) as [o|] eqn:F.
      * inversion H; subst. split; [eapply nth_error_In; eauto | assumption].
      * destruct (scan_packs (s_packs s) 0 _ id) as [[[k q'] o]|] eqn:S; inversion H; subst.
        eapply scan_packs_some; eauto.
    + destruct (scan_packs (s_packs s) 0 _ id) as [[[k q'] o]|] eqn:S; inversion H; subst.
      eapply scan_packs_some; eauto.
Qed.

Lemma find_in_packs_none : forall s hint id h,
  find_in_packs s hint id = (h, None) -> forall p, In p (s_packs s) -> find_off p id = None.
Proof.
  intros s hint id h H p I. unfold find_in_packs in H.
  apply In_nth_error in I. destruct I as [j N].
  destruct hint as [|hh].
  - destruct (scan_packs (s_packs s) 0 None id) as [[[k q] o]|] eqn:S; [discriminate|].
    destruct (scan_packs_none _ _ _ _ S _ _ N) as [E|E]; [discriminate | assumption].
  - destruct (nth_error (s_packs s) hh) as [q|] eqn:Nh.
    + destruct (find_off q id) as [o|] eqn:F; [discriminate|].
      destruct (scan_packs (s_packs s) 0 _ id) as [[[k q'] o]|] eqn:S; [discriminate|].
      destruct (scan_packs_none _ _ _ _ S _ _ N) as [E|E]; [|assumption].
      destruct (Nat.ltb hh (List.length (s_packs s))); [|discriminate].
      inversion E; subst. cbn in Nh. rewrite N in Nh. inversion Nh; subst. assumption.
    + destruct (scan_packs (s_packs s) 0 _ id) as [[[k q'] o]|] eqn:S; [discriminate|].
      destruct (scan_packs_none _ _ _ _ S _ _ N) as [E|E]; [|assumption].
      apply nth_error_None in Nh.
      destruct (Nat.ltb hh (List.length (s_packs s))) eqn:L; [|discriminate].
      apply Nat.ltb_lt in L. lia.
Qed.

End Store.

(* ---- HashesWithPrefix ---- *)

Lemma mem_id_In : forall id l, mem_id id l = true <-> In id l.
Proof.
  intros id l. unfold mem_id. rewrite existsb_exists. split.
  - intros [x [Hx E]]. apply bytes_eqb_eq in E. now subst.
  - intros H. exists id. split; [assumption | apply bytes_eqb_refl].
Qed.

Lemma NoDup_app_intro_single : forall A (l : list A) x, NoDup l -> ~ In x l -> NoDup (l ++ [x]).
Proof.
  induction l as [|y l IH]; intros x N H; cbn.
  - constructor; [intros [] | constructor].
  - inversion N; subst. constructor.
    + intros I. apply in_app_or in I. destruct I as [I|[<-|[]]]; [contradiction|]. apply H. now left.
    + apply IH; [assumption|]. intros I. apply H. now right.
Qed.

Lemma add_new_spec : forall ids acc,
  (forall x, In x (add_new acc ids) <-> In x acc \/ In x ids) /\ (NoDup acc -> NoDup (add_new acc ids)).
Proof.
  unfold add_new. induction ids as [|i ids IH]; intros acc; cbn.
  - split; [intros x; tauto | auto].
  - destruct (mem_id i acc) eqn:M.
    + destruct (IH acc) as [A B]. split; [|assumption].
      intros x. rewrite A. apply mem_id_In in M. split; [tauto|]. intros [H|[<-|H]]; auto.
    + destruct (IH (acc ++ [i])) as [A B]. split.
      * intros x. rewrite A, in_app_iff. cbn. tauto.
      * intros N. apply B. apply NoDup_app_intro_single; [assumption|].
        intros I. apply mem_id_In in I. congruence.
Qed.

Lemma fold_add_new_spec : forall A (f : A -> list bytes) l acc,
  (forall x, In x (fold_left (fun a p => add_new a (f p)) l acc) <-> In x acc \/ exists p, In p l /\ In x (f p)) /\
  (NoDup acc -> NoDup (fold_left (fun a p => add_new a (f p)) l acc)).
Proof.
  intros A f. induction l as [|p l IH]; intros acc; cbn.
  - split; [|auto]. intros x. split; [tauto|]. intros [H|[p [[] _]]]. assumption.
  - destruct (IH (add_new acc (f p))) as [I N]. destruct (add_new_spec (f p) acc) as [I0 N0]. split.
    + intros x. rewrite I, I0. split.
      * intros [[H|H]|[q [Hq Hx]]]; [now left | right; exists p; auto | right; exists q; auto].
      * intros [H|[q [[<-|Hq] Hx]]]; [left; now left | left; now right | right; eauto].
    + intros H. apply N, N0, H.
Qed.

Definition has_copy (s : store) (id : bytes) : Prop :=
  In id (map fst (s_loose s)) \/ exists p, In p (s_packs s) /\ In id (map e_id p).

Lemma store_prefix_spec : forall s pre acc,
  (forall x, In x (store_prefix s pre acc) <-> In x acc \/ (is_prefix pre x = true /\ has_copy s x)) /\
  (NoDup acc -> NoDup (store_prefix s pre acc)).
Proof.
  intros s pre acc. unfold store_prefix.
  destruct (add_new_spec (filter (is_prefix pre) (map fst (s_loose s))) acc) as [I0 N0].
  destruct (fold_add_new_spec _ (fun p => filter (is_prefix pre) (map e_id p)) (s_packs s)
              (add_new acc (filter (is_prefix pre) (map fst (s_loose s))))) as [I N].
  split.
  - intros x. rewrite I, I0. unfold has_copy. rewrite filter_In. split.
    + intros [[H|[H1 H2]]|[p [Hp Hx]]]; auto. apply filter_In in Hx. destruct Hx. right. split; eauto.
    + intros [H|[H1 [H2|[p [Hp Hx]]]]]; auto. right. exists p. split; [assumption|]. apply filter_In. auto.
  - intros H. apply N, N0, H.
Qed.

Lemma has_copy_copies : forall r id, (exists s, In s (stores r) /\ has_copy s id) <-> exists v, In (id, v) (copies r).
Proof.
  intros r id. split.
  - intros [s [Is [H|[p [Ip H]]]]].
    + apply in_map_iff in H. destruct H as [[i o] [E I]]. cbn in E. subst i.
      exists (Some o). apply copies_stores. exists s. split; [assumption|].
      unfold store_copies. apply in_or_app. left. apply in_map_iff. exists (id, o). auto.
    + apply in_map_iff in H. destruct H as [e [E I]]. subst id. eexists.
      eapply pack_in_copies; eauto.
  - intros [v I]. apply copies_stores in I. destruct I as [s [Is I]]. exists s. split; [assumption|].
    unfold store_copies in I. apply in_app_or in I. destruct I as [I|I].
    + left. apply in_map_iff in I. destruct I as [[i o] [E I]]. inversion E; subst.
      apply in_map_iff. exists (id, o). auto.
    + right. apply in_flat_map in I. destruct I as [p [Ip I]]. exists p. split; [assumption|].
      unfold pack_copies in I. apply in_map_iff in I. destruct I as [e [E I]]. inversion E; subst.
      now apply in_map.
Qed.

(* the prefix search lists exactly the stored ids with that prefix, each once *)
Theorem prefix_ids_ok : forall r pre, store_ok r = true ->
  NoDup (prefix_ids r pre) /\
  forall id, In id (prefix_ids r pre) <-> is_prefix pre id = true /\ content r id <> None.
Proof.
  intros r pre OK. unfold prefix_ids.
  destruct (store_prefix_spec (r_main r) pre []) as [I0 N0].
  destruct (fold_add_new_spec _ (fun s => store_prefix s pre []) (r_alts r) (store_prefix (r_main r) pre [])) as [I N].
  split; [apply N, N0; constructor|].
  intros id. rewrite I, I0.
  assert (E : (is_prefix pre id = true /\ exists s, In s (stores r) /\ has_copy s id) <->
              (is_prefix pre id = true /\ content r id <> None)).
  { rewrite has_copy_copies. split; intros [P H]; (split; [assumption|]).
    - destruct H as [v Hv]. destruct (copy_content r OK _ _ Hv) as [o [_ C]]. congruence.
    - unfold content in H. destruct (assoc (copies r) id) as [v|] eqn:A; [|congruence].
      destruct v as [o|]; [|congruence]. exists (Some o).
      clear - A. induction (copies r) as [|[i x] l IH]; cbn in A; [discriminate|].
      destruct (bytes_eqb i id) eqn:B; [apply bytes_eqb_eq in B; inversion A; subst; now left | right; auto]. }
  rewrite <- E. unfold stores. split.
  - intros [[[]|[P H]]|[s [Is Hs]]].
    + split; [assumption|]. exists (r_main r). split; [now left | assumption].
    + destruct (store_prefix_spec s pre []) as [Is0 _]. apply Is0 in Hs. destruct Hs as [[]|[P H]].
      split; [assumption|]. exists s. split; [now right | assumption].
  - intros [P [s [[<-|Is] H]]].
    + left. right. auto.
    + right. exists s. split; [assumption|]. destruct (store_prefix_spec s pre []) as [Is0 _]. apply Is0. right. auto.
Qed.

(* ---- the read paths ---- *)

Section Reads.
Variable pol : cache -> cache.
Hypothesis pol_ok : forall c x, In x (pol c) -> In x c.
Variable r : repo.
Hypothesis OK : store_ok r = true.

Notation cok := (cache_ok (content r)).

(* a located pack entry reads as the content of its id *)
Lemma located_ok : forall s p id off c, In s (stores r) -> In p (s_packs s) -> find_off p id = Some off -> cok c ->
  exists c' o, get_by_offset pol p c off = (c', Some o) /\ cok c' /\ content r id = Some o.
Proof.
  intros s p id off c Is Ip F C.
  destruct (find_off_some _ _ _ F) as [e [Ie [Eid Eoff]]]. subst.
  destruct (entry_resolves r OK _ _ _ Is Ip Ie) as [o [R Co]].
  destruct (get_by_offset_ok pol pol_ok (content r) p c e o (store_pack_ok r OK _ _ Is Ip) Ie C R) as [c' [G C']].
  eauto.
Qed.

Definition spec_opt (t : option otype) (id : bytes) (res : option rres) (s : store) : Prop :=
  match res with
  | Some x => x = spec_get r t id /\ content r id <> None
  | None => absent s id
  end.

Lemma get_local_ok : forall s c hint t id c' h' res, In s (stores r) -> cok c ->
  get_local pol s c hint t id = (c', h', res) -> cok c' /\ spec_opt t id res s.
Proof.
  intros s c hint t id c' h' res Is C H. unfold get_local in H.
  destruct (find_in_packs s hint id) as [h [[p off]|]] eqn:F.
  - destruct (find_in_packs_some _ _ _ _ _ _ F) as [Ip Fo].
    destruct (located_ok _ _ _ _ c Is Ip Fo C) as [c1 [o [G [C1 Co]]]].
    destruct (cache_get c id) as [o'|] eqn:CG.
    + inversion H; subst. split; [assumption|]. cbn. unfold spec_get.
      rewrite (cache_ok_get _ _ _ _ C CG). split; [reflexivity | discriminate].
    + rewrite G in H. inversion H; subst. split; [assumption|]. cbn. unfold spec_get. rewrite Co.
      split; [reflexivity | discriminate].
  - destruct (loose_get s id) as [o|] eqn:L.
    + pose proof (loose_content r OK _ _ _ Is L) as Co.
      destruct (cache_get c id) as [o'|] eqn:CG.
      * inversion H; subst. split; [assumption|]. cbn. unfold spec_get.
        rewrite (cache_ok_get _ _ _ _ C CG). split; [reflexivity | discriminate].
      * inversion H; subst. split; [apply cache_ok_put; assumption|]. cbn. unfold spec_get. rewrite Co.
        split; [reflexivity | discriminate].
    + inversion H; subst. split; [assumption|]. cbn. split; [assumption|].
      eapply find_in_packs_none; eauto.
Qed.

Lemma get_alts_ok : forall alts c hints t id c' hs res, incl alts (r_alts r) -> cok c ->
  get_alts pol alts c hints t id = (c', hs, res) ->
  cok c' /\ ((res = spec_get r t id /\ content r id <> None) \/
             (res = RNotFound /\ (spec_get r t id = RNotFound \/ forall a, In a alts -> absent a id))).
Proof.
  induction alts as [|a alts IH]; intros c hints t id c' hs res I C H; cbn in H.
  - inversion H; subst. split; [assumption|]. right. split; [reflexivity|]. right. intros a [].
  - assert (Ia : In a (stores r)) by (right; apply I; now left).
    assert (I' : incl alts (r_alts r)) by (intros x Hx; apply I; now right).
    destruct (get_local pol a c (hd 0%nat hints) t id) as [[c1 h1] res1] eqn:G.
    destruct (get_local_ok _ _ _ _ _ _ _ _ Ia C G) as [C1 S1].
    assert (CONT : forall x, (res1 = None \/ res1 = Some RNotFound) ->
              get_alts pol alts c1 (tl hints) t id = x ->
              (let '(c'', hs', res') := x in (c'', h1 :: hs', res')) = (c', hs, res) ->
              cok c' /\ ((res = spec_get r t id /\ content r id <> None) \/
                         (res = RNotFound /\ (spec_get r t id = RNotFound \/ forall b, In b (a :: alts) -> absent b id)))).
    { intros [[c2 hs2] res2] R1 G2 E. inversion E; subst.
      destruct (IH _ _ _ _ _ _ _ I' C1 G2) as [C2 [A|[A B]]]; split; auto.
      right. split; [assumption|].
      destruct R1 as [->| ->]; cbn in S1.
      - destruct B as [B|B]; [now left | right]. intros b [<-|Ib]; [assumption | now apply B].
      - left. now destruct S1 as [<- _]. }
    destruct res1 as [[o| |]|].
    + inversion H; subst. split; [assumption|]. left. exact S1.
    + eapply CONT; eauto.
    + inversion H; subst. split; [assumption|]. left. exact S1.
    + eapply CONT; eauto.
Qed.

(* EncodedObject: the content of id, for every cache content and every hint *)
Theorem get_object_ok : forall st t id st' res, cok (rs_cache st) ->
  get_object pol r st t id = (st', res) -> res = spec_get r t id /\ cok (rs_cache st').
Proof.
  intros st t id st' res C H. unfold get_object in H.
  destruct (get_local pol (r_main r) (rs_cache st) (rs_hint st) t id) as [[c h] res1] eqn:G.
  destruct (get_local_ok _ _ _ _ _ _ _ _ (or_introl eq_refl) C G) as [C1 S1].
  destruct res1 as [x|].
  - inversion H; subst. cbn in *. destruct S1. auto.
  - destruct (get_alts pol (r_alts r) c (rs_ahints st) t id) as [[c2 hs] res2] eqn:A.
    inversion H; subst. cbn.
    destruct (get_alts_ok _ _ _ _ _ _ _ _ (incl_refl _) C1 A) as [C2 [[E _]|[E [B|B]]]]; split; auto.
    + subst. now rewrite B.
    + subst. cbn in S1. unfold spec_get.
      rewrite (absent_everywhere r id); [reflexivity|].
      intros s [<-|Is]; [assumption | now apply B].
Qed.

(* EncodedObjectSize *)
Lemma size_local_ok : forall s c hint id c' h' res, In s (stores r) -> cok c ->
  size_local pol s c hint id = (c', h', res) -> cok c' /\ spec_opt None id res s.
Proof.
  intros s c hint id c' h' res Is C H. unfold size_local in H.
  destruct (find_in_packs s hint id) as [h [[p off]|]] eqn:F.
  - destruct (find_in_packs_some _ _ _ _ _ _ F) as [Ip Fo].
    destruct (located_ok _ _ _ _ c Is Ip Fo C) as [c1 [o [G [C1 Co]]]].
    destruct (cache_get c id) as [o'|] eqn:CG.
    + inversion H; subst. split; [assumption|]. cbn. unfold spec_get.
      rewrite (cache_ok_get _ _ _ _ C CG). split; [reflexivity | discriminate].
    + rewrite G in H. inversion H; subst. split; [assumption|]. cbn. unfold spec_get. rewrite Co.
      split; [reflexivity | discriminate].
  - destruct (loose_get s id) as [o|] eqn:L.
    + pose proof (loose_content r OK _ _ _ Is L) as Co.
      inversion H; subst. split; [assumption|]. cbn. unfold spec_get. rewrite Co. split; [reflexivity | discriminate].
    + inversion H; subst. split; [assumption|]. cbn. split; [assumption|].
      eapply find_in_packs_none; eauto.
Qed.

Lemma size_alts_ok : forall alts c hints id c' hs res, incl alts (r_alts r) -> cok c ->
  size_alts pol alts c hints id = (c', hs, res) ->
  cok c' /\ ((res = spec_get r None id /\ content r id <> None) \/
             (res = RNotFound /\ forall a, In a alts -> absent a id)).
Proof.
  induction alts as [|a alts IH]; intros c hints id c' hs res I C H; cbn in H.
  - inversion H; subst. split; [assumption|]. right. split; [reflexivity|]. intros a [].
  - assert (Ia : In a (stores r)) by (right; apply I; now left).
    assert (I' : incl alts (r_alts r)) by (intros x Hx; apply I; now right).
    destruct (size_local pol a c (hd 0%nat hints) id) as [[c1 h1] res1] eqn:G.
    destruct (size_local_ok _ _ _ _ _ _ _ Ia C G) as [C1 S1].
    destruct res1 as [x|].
    + inversion H; subst. split; [assumption|]. left. exact S1.
    + destruct (size_alts pol alts c1 (tl hints) id) as [[c2 hs2] res2] eqn:G2. inversion H; subst.
      destruct (IH _ _ _ _ _ _ I' C1 G2) as [C2 [A|[A B]]]; split; auto.
      right. split; [assumption|]. intros b [<-|Ib]; [assumption | now apply B].
Qed.

Theorem size_object_ok : forall st id st' res, cok (rs_cache st) ->
  size_object pol r st id = (st', res) -> res = spec_get r None id /\ cok (rs_cache st').
Proof.
  intros st id st' res C H. unfold size_object in H.
  destruct (size_local pol (r_main r) (rs_cache st) (rs_hint st) id) as [[c h] res1] eqn:G.
  destruct (size_local_ok _ _ _ _ _ _ _ (or_introl eq_refl) C G) as [C1 S1].
  destruct res1 as [x|].
  - inversion H; subst. cbn in *. destruct S1. auto.
  - destruct (size_alts pol (r_alts r) c (rs_ahints st) id) as [[c2 hs] res2] eqn:A.
    inversion H; subst. cbn.
    destruct (size_alts_ok _ _ _ _ _ _ _ (incl_refl _) C1 A) as [C2 [[E _]|[E B]]]; split; auto.
    subst. cbn in S1. unfold spec_get.
    rewrite (absent_everywhere r id); [reflexivity|].
    intros s [<-|Is]; [assumption | now apply B].
Qed.

(* HasEncodedObject *)
Lemma has_local_ok : forall s hint id h b, In s (stores r) ->
  has_local s hint id = (h, b) -> if b then content r id <> None else absent s id.
Proof.
  intros s hint id h b Is H. unfold has_local in H.
  destruct (find_in_packs s hint id) as [h0 [[p off]|]] eqn:F.
  - inversion H; subst. destruct (find_in_packs_some _ _ _ _ _ _ F) as [Ip Fo].
    destruct (find_off_some _ _ _ Fo) as [e [Ie [Eid _]]]. subst.
    destruct (entry_resolves r OK _ _ _ Is Ip Ie) as [o [_ Co]]. congruence.
  - inversion H; subst. destruct (loose_get s id) as [o|] eqn:L.
    + rewrite (loose_content r OK _ _ _ Is L). discriminate.
    + split; [assumption|]. eapply find_in_packs_none; eauto.
Qed.

Lemma has_alts_ok : forall alts hints id hs b, incl alts (r_alts r) ->
  has_alts alts hints id = (hs, b) ->
  if b then content r id <> None else forall a, In a alts -> absent a id.
Proof.
  induction alts as [|a alts IH]; intros hints id hs b I H; cbn in H.
  - inversion H; subst. intros a [].
  - assert (Ia : In a (stores r)) by (right; apply I; now left).
    assert (I' : incl alts (r_alts r)) by (intros x Hx; apply I; now right).
    destruct (has_local a (hd 0%nat hints) id) as [h1 b1] eqn:G.
    pose proof (has_local_ok _ _ _ _ _ Ia G) as S1.
    destruct b1.
    + inversion H; subst. exact S1.
    + destruct (has_alts alts (tl hints) id) as [hs2 b2] eqn:G2. inversion H; subst.
      pose proof (IH _ _ _ _ I' G2) as S2. destruct b; [exact S2|].
      intros x [<-|Ix]; [assumption | now apply S2].
Qed.

Theorem has_object_ok : forall st id st' b,
  has_object r st id = (st', b) -> b = spec_has r id /\ rs_cache st' = rs_cache st.
Proof.
  intros st id st' b H. unfold has_object in H.
  destruct (has_local (r_main r) (rs_hint st) id) as [h b1] eqn:G.
  pose proof (has_local_ok _ _ _ _ _ (or_introl eq_refl) G) as S1.
  destruct b1.
  - inversion H; subst. cbn. split; [|reflexivity]. unfold spec_has. destruct (content r id); congruence.
  - destruct (has_alts (r_alts r) (rs_ahints st) id) as [hs b2] eqn:A. inversion H; subst. cbn.
    split; [|reflexivity].
    pose proof (has_alts_ok _ _ _ _ _ (incl_refl _) A) as S2. unfold spec_has. destruct b.
    + destruct (content r id); congruence.
    + rewrite (absent_everywhere r id); [reflexivity|].
      intros s [<-|Is]; [assumption | now apply S2].
Qed.

(* a stand-alone Packfile.GetByOffset over a pack of the repository *)
Theorem by_offset_ok : forall s p c off c' res, In s (stores r) -> In p (s_packs s) -> cok c ->
  get_by_offset pol p c off = (c', res) ->
  cok c' /\ res = match find_entry p off with Some e => content r (e_id e) | None => None end.
Proof.
  intros s p c off c' res Is Ip C H.
  destruct (find_entry p off) as [e|] eqn:F.
  - destruct (find_entry_In _ _ _ F) as [Ie Eo]. subst off.
    destruct (entry_resolves r OK _ _ _ Is Ip Ie) as [o [R Co]].
    destruct (get_by_offset_ok pol pol_ok (content r) p c e o (store_pack_ok r OK _ _ Is Ip) Ie C R) as [c1 [G C1]].
    rewrite G in H. inversion H; subst. split; [assumption | now rewrite Co].
  - unfold get_by_offset in H. rewrite F in H. inversion H; subst. auto.
Qed.

(* IterEncodedObjects: everything listed is the content of its id, of the asked type;
   the cache stays truthful *)
Definition sound_list (t : option otype) (l : list (bytes * obj)) : Prop :=
  forall id o, In (id, o) l -> content r id = Some o /\ typed t o = RFound o.

Lemma iter_loose_ok : forall l c t acc c' acc',
  (forall id o, In (id, o) l -> content r id = Some o) -> cok c -> sound_list t acc ->
  iter_loose pol l c t acc = (c', acc') -> cok c' /\ sound_list t acc'.
Proof.
  induction l as [|[id o] l IH]; intros c t acc c' acc' L C S H; cbn in H.
  - inversion H; subst. auto.
  - assert (Co : content r id = Some o) by (apply L; now left).
    assert (L' : forall i x, In (i, x) l -> content r i = Some x) by (intros; apply L; now right).
    destruct (cache_get c id) as [o'|] eqn:G.
    + assert (o' = o) by (pose proof (cache_ok_get _ _ _ _ C G); congruence). subst.
      eapply IH; [exact L' | exact C | | exact H].
      destruct (typed t o) eqn:Ty; try assumption.
      intros i x I. apply in_app_or in I. destruct I as [I|[I|[]]]; [now apply S|]. inversion I; subst.
      split; [assumption|]. unfold typed in *. destruct t as [t0|]; [|congruence].
      destruct (otype_eqb t0 (o_type x)); congruence.
    + eapply IH; [exact L' | apply cache_ok_put; [exact pol_ok | exact C | exact Co] | | exact H].
      destruct (typed t o) eqn:Ty; try assumption.
      intros i x I. apply in_app_or in I. destruct I as [I|[I|[]]]; [now apply S|]. inversion I; subst.
      split; [assumption|]. unfold typed in *. destruct t as [t0|]; [|congruence].
      destruct (otype_eqb t0 (o_type x)); congruence.
Qed.

Lemma iter_pack_ok : forall s p es c t seen acc ok c' seen' acc' ok',
  In s (stores r) -> In p (s_packs s) -> incl es p -> cok c -> sound_list t acc ->
  iter_pack pol p es c t seen acc ok = (c', seen', acc', ok') ->
  cok c' /\ sound_list t acc' /\ ok' = ok.
Proof.
  intros s p es. induction es as [|e es IH]; intros c t seen acc ok c' seen' acc' ok' Is Ip I C S H; cbn [iter_pack] in H.
  - inversion H; subst. auto.
  - assert (Ie : In e p) by (apply I; now left).
    assert (I' : incl es p) by (intros x Hx; apply I; now right).
    destruct (match e_kind e, t with KBase t' _, Some t0 => negb (otype_eqb t0 t') | _, _ => false end).
    + eapply IH; eauto.
    + destruct (entry_resolves r OK _ _ _ Is Ip Ie) as [o [R Co]].
      destruct (resolve_ok pol pol_ok (content r) _ p c e o (store_pack_ok r OK _ _ Is Ip) Ie C R) as [c1 [E C1]].
      rewrite E in H.
      destruct (typed t o) eqn:Ty.
      * destruct (mem_id (e_id e) seen); [eapply IH; eauto|].
        eapply IH; [assumption | assumption | exact I' | exact C1 | | exact H].
        intros i x Hx. apply in_app_or in Hx. destruct Hx as [Hx|[Hx|[]]]; [now apply S|]. inversion Hx; subst.
        split; [assumption|]. unfold typed in *. destruct t as [t0|]; [|congruence].
        destruct (otype_eqb t0 (o_type x)); congruence.
      * eapply IH; eauto.
      * eapply IH; eauto.
Qed.

Lemma iter_packs_ok : forall s ps c t seen acc ok c' acc' ok',
  In s (stores r) -> incl ps (s_packs s) -> cok c -> sound_list t acc ->
  iter_packs pol ps c t seen acc ok = (c', acc', ok') ->
  cok c' /\ sound_list t acc' /\ ok' = ok.
Proof.
  intros s ps. induction ps as [|p ps IH]; intros c t seen acc ok c' acc' ok' Is I C S H; cbn in H.
  - inversion H; subst. auto.
  - destruct (iter_pack pol p p c t seen acc ok) as [[[c1 seen1] acc1] ok1] eqn:E.
    destruct (iter_pack_ok s p p _ _ _ _ _ _ _ _ _ Is (I p (or_introl eq_refl)) (incl_refl _) C S E) as (C1 & S1 & ->).
    eapply IH; eauto. intros x Hx. apply I. now right.
Qed.

Theorem iter_objects_ok : forall st t st' res, cok (rs_cache st) ->
  iter_objects pol r st t = (st', res) ->
  cok (rs_cache st') /\ exists l, res = Some l /\ sound_list t l.
Proof.
  intros st t st' res C H. unfold iter_objects in H.
  destruct (iter_loose pol (s_loose (r_main r)) (rs_cache st) t []) as [c1 acc1] eqn:E1.
  assert (L : forall id o, In (id, o) (s_loose (r_main r)) -> content r id = Some o).
  { intros id o I.
    assert (J : In (id, Some o) (copies r)).
    { apply copies_stores. exists (r_main r). split; [now left|]. unfold store_copies. apply in_or_app. left.
      apply in_map_iff. exists (id, o). auto. }
    destruct (copy_content r OK _ _ J) as [o' [E Co]]. inversion E; subst. exact Co. }
  destruct (iter_loose_ok _ _ _ _ _ _ L C (fun _ _ (F : In _ []) => match F with end) E1) as [C1 S1].
  destruct (iter_packs pol (s_packs (r_main r)) c1 t (map fst (s_loose (r_main r))) acc1 true) as [[c2 acc2] ok] eqn:E2.
  destruct (iter_packs_ok (r_main r) _ _ _ _ _ _ _ _ _ (or_introl eq_refl) (incl_refl _) C1 S1 E2) as (C2 & S2 & ->).
  inversion H; subst. cbn. split; [assumption|]. eauto.
Qed.

(* ---- sequences of reads: access order, cache content and hints are irrelevant ---- *)

Definition spec_read (rd : read) : option out :=
  match rd with
  | RdGet t id => Some (render_rres (spec_get r t id))
  | RdSize id =>
    Some (match spec_get r None id with
          | RFound o => OOk [ONat (List.length (o_data o))]
          | x => render_rres x
          end)
  | RdHas id => Some (OBool (spec_has r id))
  | RdPrefix pre =>
    Some (let ids := prefix_ids r pre in OOk [ONat (List.length ids); ON (sum64 (map (fnv fnv_init) ids))])
  | RdOff pk off =>
    Some (match nth_error (s_packs (r_main r)) pk with
          | None => OErr "other"%string
          | Some p =>
            match find_entry p off with
            | Some e => match content r (e_id e) with Some o => render_obj o | None => OErr "other"%string end
            | None => OErr "other"%string
            end
          end)
  | RdIter _ => None          (* see iter_objects_ok *)
  end.

Lemma do_read_ok : forall st rd st' o, cok (rs_cache st) -> do_read pol r st rd = (st', o) ->
  cok (rs_cache st') /\ (forall x, spec_read rd = Some x -> o = x).
Proof.
  intros st rd st' o C H. destruct rd; cbn [do_read spec_read] in *.
  - destruct (get_object pol r st t id) as [st1 res] eqn:G. inversion H; subst.
    destruct (get_object_ok _ _ _ _ _ C G) as [-> C1]. split; [assumption|]. intros x E. now inversion E.
  - destruct (size_object pol r st id) as [st1 res] eqn:G. inversion H; subst.
    destruct (size_object_ok _ _ _ _ C G) as [-> C1]. split; [assumption|]. intros x E. inversion E; subst.
    now destruct (spec_get r None id).
  - destruct (has_object r st id) as [st1 b] eqn:G. inversion H; subst.
    destruct (has_object_ok _ _ _ _ G) as [-> E1]. split; [now rewrite E1|]. intros x E. now inversion E.
  - destruct (iter_objects pol r st t) as [st1 res] eqn:G. inversion H; subst.
    destruct (iter_objects_ok _ _ _ _ C G) as [C1 _]. split; [assumption|]. intros x E. discriminate.
  - inversion H; subst. split; [assumption|]. intros x E. now inversion E.
  - destruct (nth_error (s_packs (r_main r)) pk) as [p|] eqn:N.
    + destruct (get_by_offset pol p (rs_cache st) off) as [c res] eqn:G. inversion H; subst. cbn.
      destruct (by_offset_ok (r_main r) p _ _ _ _ (or_introl eq_refl) (nth_error_In _ _ N) C G) as [C1 ->].
      split; [assumption|]. intros x E. inversion E; subst.
      destruct (find_entry p off) as [e|]; [|reflexivity]. now destruct (content r (e_id e)).
    + inversion H; subst. split; [assumption|]. intros x E. now inversion E.
Qed.

Theorem do_reads_ok : forall rds st, cok (rs_cache st) ->
  Forall2 (fun rd o => forall x, spec_read rd = Some x -> o = x) rds (snd (do_reads pol r st rds)).
Proof.
  induction rds as [|rd rds IH]; intros st C; cbn; [constructor|].
  destruct (do_read pol r st rd) as [st1 o] eqn:E.
  destruct (do_read_ok _ _ _ _ C E) as [C1 S].
  specialize (IH st1 C1). destruct (do_reads pol r st1 rds) as [st2 os]. cbn in *.
  constructor; assumption.
Qed.

End Reads.

(* ---- IterEncodedObjects: the listing is exactly the repository's own objects of the asked type ---- *)

Fixpoint nodup_ids (l : list bytes) : bool :=
  match l with
  | [] => true
  | x :: r => negb (mem_id x r) && nodup_ids r
  end.

Lemma nodup_ids_NoDup : forall l, nodup_ids l = true -> NoDup l.
Proof.
  induction l as [|x l IH]; cbn; intros H; [constructor|].
  apply andb_true_iff in H. destruct H as [H1 H2]. constructor; [|auto].
  intros I. apply mem_id_In in I. rewrite I in H1. discriminate.
Qed.

Section IterFull.
Variable pol : cache -> cache.
Hypothesis pol_ok : forall c x, In x (pol c) -> In x c.
Variable r : repo.
Hypothesis OK : store_ok r = true.
Variable t : option otype.

Notation cok := (cache_ok (content r)).

(* id is stored with the asked type *)
Definition wanted (id : bytes) : Prop := exists o, content r id = Some o /\ typed t o = RFound o.

Lemma typed_found : forall o x, typed t o = RFound x -> x = o.
Proof. intros o x H. unfold typed in H. destruct t as [t0|]; [destruct (otype_eqb t0 (o_type o))|]; congruence. Qed.

Lemma iter_loose_full : forall l c acc c' acc',
  (forall id o, In (id, o) l -> content r id = Some o) -> cok c ->
  iter_loose pol l c t acc = (c', acc') ->
  (forall id, In id (map fst acc') <-> In id (map fst acc) \/ (In id (map fst l) /\ wanted id)).
Proof.
  induction l as [|[id o] l IH]; intros c acc c' acc' L C H; cbn in H.
  - inversion H; subst. intros id. cbn. tauto.
  - assert (Co : content r id = Some o) by (apply L; now left).
    assert (L' : forall i x, In (i, x) l -> content r i = Some x) by (intros; apply L; now right).
    assert (STEP : forall c1 o1, o1 = o -> cok c1 ->
              iter_loose pol l c1 t (match typed t o1 with RFound _ => acc ++ [(id, o1)] | _ => acc end) = (c', acc') ->
              forall i, In i (map fst acc') <-> In i (map fst acc) \/ (In i (map fst ((id, o) :: l)) /\ wanted i)).
    { intros c1 o1 -> C1 H1 i. rewrite (IH _ _ _ _ L' C1 H1). cbn [map fst In].
      destruct (typed t o) eqn:Ty.
      - rewrite map_app, in_app_iff. cbn. pose proof (typed_found _ _ Ty); subst.
        split.
        + intros [[A|[<-|[]]]|[A W]]; auto. right. split; [now left|]. exists o. auto.
        + intros [A|[[<-|A] W]]; auto.
      - split.
        + intros [A|[A W]]; auto.
        + intros [A|[[<-|A] W]]; auto. destruct W as [o' [C' T']]. rewrite Co in C'. inversion C'; subst. congruence.
      - split.
        + intros [A|[A W]]; auto.
        + intros [A|[[<-|A] W]]; auto. destruct W as [o' [C' T']]. rewrite Co in C'. inversion C'; subst. congruence. }
    destruct (cache_get c id) as [o'|] eqn:G.
    + assert (o' = o) by (pose proof (cache_ok_get _ _ _ _ C G); congruence).
      eapply (STEP c o'); eauto.
    + eapply (STEP _ o); [reflexivity | apply cache_ok_put; [exact pol_ok | exact C | exact Co] | exact H].
Qed.

Lemma iter_loose_nodup : forall l acc c c' acc', NoDup (map fst acc ++ map fst l) ->
  (forall id o, In (id, o) l -> content r id = Some o) -> cok c ->
  iter_loose pol l c t acc = (c', acc') -> NoDup (map fst acc').
Proof.
  induction l as [|[id o] l IH]; intros acc c c' acc' N L C H; cbn in H.
  - inversion H; subst. now rewrite app_nil_r in N.
  - assert (Co : content r id = Some o) by (apply L; now left).
    assert (L' : forall i x, In (i, x) l -> content r i = Some x) by (intros; apply L; now right).
    assert (N1 : NoDup (map fst (acc ++ [(id, o)]) ++ map fst l)).
    { rewrite map_app, <- app_assoc. exact N. }
    assert (N2 : NoDup (map fst acc ++ map fst l)).
    { cbn in N. apply NoDup_remove_1 in N. exact N. }
    destruct (cache_get c id) as [o'|] eqn:Gt.
    + assert (o' = o) by (pose proof (cache_ok_get _ _ _ _ C Gt); congruence). subst.
      destruct (typed t o); [eapply (IH (acc ++ [(id, o)]) c) | eapply (IH acc c) | eapply (IH acc c)]; eauto.
    + assert (C1 : cok (cache_put pol c id o)) by (apply cache_ok_put; auto).
      destruct (typed t o); [eapply (IH (acc ++ [(id, o)]) (cache_put pol c id o)) | eapply (IH acc (cache_put pol c id o)) | eapply (IH acc (cache_put pol c id o))]; eauto.
Qed.

(* the pack phase: [seen] are the ids already decided, [acc] the listing so far *)
Record pinv (seen : list bytes) (acc : list (bytes * obj)) : Prop := {
  pi_src : forall id, In id (map fst acc) -> has_copy (r_main r) id;
  pi_sub : forall id, In id (map fst acc) -> In id seen;
  pi_nodup : NoDup (map fst acc);
  pi_seen : forall id, In id seen -> wanted id -> In id (map fst acc);
  pi_acc : forall id, In id (map fst acc) -> wanted id
}.

Lemma iter_pack_full : forall s p es c seen acc ok c' seen' acc' ok',
  s = r_main r -> In p (s_packs s) -> incl es p -> cok c -> pinv seen acc ->
  iter_pack pol p es c t seen acc ok = (c', seen', acc', ok') ->
  cok c' /\ pinv seen' acc' /\ (forall id, In id seen -> In id seen') /\
  (forall e, In e es -> wanted (e_id e) -> In (e_id e) seen').
Proof.
  intros s p es. induction es as [|e es IH]; intros c seen acc ok c' seen' acc' ok' Es Ip I C P H; cbn [iter_pack] in H.
  - inversion H; subst. split; [assumption|]. split; [assumption|]. split; [auto|]. intros e [].
  - assert (Ie : In e p) by (apply I; now left).
    assert (I' : incl es p) by (intros x Hx; apply I; now right).
    assert (Is : In s (stores r)) by (subst s; now left).
    destruct (entry_resolves r OK _ _ _ Is Ip Ie) as [o [R Co]].
    assert (NOTW : typed t o <> RFound o -> ~ wanted (e_id e)).
    { intros N [o' [C' T']]. rewrite Co in C'. inversion C'; subst. contradiction. }
    assert (REST : forall c1 seen1 acc1 ok1, cok c1 -> pinv seen1 acc1 -> (forall id, In id seen -> In id seen1) ->
               (wanted (e_id e) -> In (e_id e) seen1) ->
               iter_pack pol p es c1 t seen1 acc1 ok1 = (c', seen', acc', ok') ->
               cok c' /\ pinv seen' acc' /\ (forall id, In id seen -> In id seen') /\
               (forall x, In x (e :: es) -> wanted (e_id x) -> In (e_id x) seen')).
    { intros c1 seen1 acc1 ok1 C1 P1 S1 W1 H1.
      destruct (IH _ _ _ _ _ _ _ _ Es Ip I' C1 P1 H1) as (A & B & D & E).
      split; [assumption|]. split; [assumption|]. split; [auto|]. intros x [<-|Hx] Wx; [apply D; auto | apply E; auto]. }
    destruct (match e_kind e, t with KBase t' _, Some t0 => negb (otype_eqb t0 t') | _, _ => false end) eqn:SK.
    + (* skipped on its header: a base entry of another type *)
      eapply REST; eauto. intros W. exfalso.
      destruct (e_kind e) as [t' d| |] eqn:K; try discriminate. destruct t as [t0|]; try discriminate.
      assert (o = Obj t' d).
      { cbn [presolve] in R. rewrite K in R. congruence. }
      subst. apply (NOTW); [|exact W]. unfold typed. cbn. apply negb_true_iff in SK. rewrite SK. discriminate.
    + destruct (resolve_ok pol pol_ok (content r) _ p c e o (store_pack_ok r OK _ _ Is Ip) Ie C R) as [c1 [E C1]].
      rewrite E in H.
      destruct (typed t o) eqn:Ty.
      * pose proof (typed_found _ _ Ty); subst o0.
        destruct (mem_id (e_id e) seen) eqn:M.
        -- eapply REST; eauto. intros _. now apply mem_id_In.
        -- eapply REST; [exact C1 | | | | exact H].
           ++ assert (NS : ~ In (e_id e) seen) by (intros X; apply mem_id_In in X; congruence).
              destruct P as [P0 P1 P2 P3 P4]. constructor.
              ** intros id. rewrite map_app, in_app_iff. cbn. intros [A|[<-|[]]]; [now apply P0|].
                 right. exists p. split; [subst s; exact Ip | now apply in_map].
              ** intros id. rewrite map_app, in_app_iff. cbn. intros [A|[<-|[]]]; [right; now apply P1 | now left].
              ** rewrite map_app. cbn. apply NoDup_app_intro_single; [assumption|]. intros X. apply NS. now apply P1.
              ** intros id [<-|A] W; rewrite map_app, in_app_iff; [right; now left | left; now apply P3].
              ** intros id. rewrite map_app, in_app_iff. cbn. intros [A|[<-|[]]]; [now apply P4|]. exists o. auto.
           ++ intros id A. now right.
           ++ intros _. now left.
      * eapply REST; eauto. intros W. exfalso. apply NOTW; [congruence | exact W].
      * eapply REST; eauto. intros W. exfalso. apply NOTW; [congruence | exact W].
Qed.

Lemma iter_packs_full : forall s ps c seen acc ok c' acc' ok',
  s = r_main r -> incl ps (s_packs s) -> cok c -> pinv seen acc ->
  iter_packs pol ps c t seen acc ok = (c', acc', ok') ->
  exists seen', pinv seen' acc' /\ (forall id, In id seen -> In id seen') /\
  (forall p e, In p ps -> In e p -> wanted (e_id e) -> In (e_id e) seen').
Proof.
  intros s ps. induction ps as [|p ps IH]; intros c seen acc ok c' acc' ok' Is I C P H; cbn in H.
  - inversion H; subst. exists seen. split; [assumption|]. split; [auto|]. intros p e [].
  - destruct (iter_pack pol p p c t seen acc ok) as [[[c1 seen1] acc1] ok1] eqn:E.
    destruct (iter_pack_full s p p _ _ _ _ _ _ _ _ Is (I p (or_introl eq_refl)) (incl_refl _) C P E) as (C1 & P1 & S1 & W1).
    destruct (IH _ _ _ _ _ _ _ Is (fun x Hx => I x (or_intror Hx)) C1 P1 H) as [seen' (P' & S' & W')].
    exists seen'. split; [assumption|]. split; [auto|].
    intros q e [<-|Hq] He W; [apply S', W1; auto | eapply W'; eauto].
Qed.

Theorem iter_objects_full : forall st st' res,
  nodup_ids (map fst (s_loose (r_main r))) = true -> cok (rs_cache st) ->
  iter_objects pol r st t = (st', res) ->
  exists l, res = Some l /\ NoDup (map fst l) /\
  forall id, In id (map fst l) <-> (has_copy (r_main r) id /\ wanted id).
Proof.
  intros st st' res ND C H.
  destruct (iter_objects_ok pol pol_ok r OK st t st' res C H) as [_ [l [-> SL]]]. exists l. split; [reflexivity|].
  unfold iter_objects in H.
  destruct (iter_loose pol (s_loose (r_main r)) (rs_cache st) t []) as [c1 acc1] eqn:E1.
  assert (L : forall id o, In (id, o) (s_loose (r_main r)) -> content r id = Some o).
  { intros id o I.
    assert (J : In (id, Some o) (copies r)).
    { apply copies_stores. exists (r_main r). split; [now left|]. unfold store_copies. apply in_or_app. left.
      apply in_map_iff. exists (id, o). auto. }
    destruct (copy_content r OK _ _ J) as [o' [E Co]]. inversion E; subst. exact Co. }
  pose proof (iter_loose_full _ _ _ _ _ L C E1) as F1. cbn in F1.
  destruct (iter_loose_ok pol pol_ok r _ _ _ _ _ _ L C (fun _ _ (F : In _ []) => match F with end) E1) as [C1 S1].
  destruct (iter_packs pol (s_packs (r_main r)) c1 t (map fst (s_loose (r_main r))) acc1 true) as [[c2 acc2] ok] eqn:E2.
  assert (NL : NoDup (map fst acc1)).
  { eapply iter_loose_nodup; [| exact L | exact C | exact E1]. cbn. now apply nodup_ids_NoDup. }
  assert (P0 : pinv (map fst (s_loose (r_main r))) acc1).
  { constructor.
    - intros id I. apply F1 in I. destruct I as [[]|[I _]]. now left.
    - intros id I. apply F1 in I. destruct I as [[]|[I _]]. exact I.
    - exact NL.
    - intros id I W. apply F1. right. auto.
    - intros id I. apply F1 in I. destruct I as [[]|[_ W]]. exact W. }
  destruct (iter_packs_full (r_main r) _ _ _ _ _ _ _ _ eq_refl (incl_refl _) C1 P0 E2) as [seen' (P' & S' & W')].
  inversion H; subst. destruct P' as [P0' P1 P2 P3 P4].
  destruct ok; [|discriminate]. match goal with X : Some _ = Some _ |- _ => inversion X; subst end.
  split; [assumption|]. intros id. split.
  - intros I. split; [now apply P0' | now apply P4].
  - intros [[HL|[p [Ip He]]] W].
    + apply P3; [apply S'; exact HL | exact W].
    + apply in_map_iff in He. destruct He as [e [<- Ie]]. apply P3; [eapply W'; eauto | exact W].
Qed.

End IterFull.

(* two runs (different eviction policies, caches, hints) give the same answers *)
Lemma Forall2_spec_eq : forall (S : read -> option out) rds a b,
  Forall2 (fun rd o => forall x, S rd = Some x -> o = x) rds a ->
  Forall2 (fun rd o => forall x, S rd = Some x -> o = x) rds b ->
  Forall (fun rd => S rd <> None) rds -> a = b.
Proof.
  intros S rds. induction rds as [|rd rds IH]; intros a b Ha Hb F; inversion Ha; inversion Hb; subst; [reflexivity|].
  inversion F; subst. f_equal; [|now apply IH].
  destruct (S rd) as [x|] eqn:E; [|congruence].
  match goal with H1 : forall x, Some _ = Some x -> _, H2 : forall x, Some _ = Some x -> _ |- _ =>
    rewrite (H1 x eq_refl), (H2 x eq_refl) end. reflexivity.
Qed.

Theorem reads_independent : forall pol1 pol2 r st1 st2 rds,
  (forall c x, In x (pol1 c) -> In x c) -> (forall c x, In x (pol2 c) -> In x c) ->
  store_ok r = true ->
  cache_ok (content r) (rs_cache st1) -> cache_ok (content r) (rs_cache st2) ->
  Forall (fun rd => spec_read r rd <> None) rds ->
  snd (do_reads pol1 r st1 rds) = snd (do_reads pol2 r st2 rds).
Proof.
  intros pol1 pol2 r st1 st2 rds P1 P2 OK C1 C2 F.
  eapply Forall2_spec_eq; [| | exact F].
  - apply (do_reads_ok pol1 P1 r OK rds st1 C1).
  - apply (do_reads_ok pol2 P2 r OK rds st2 C2).
Qed.
