(* Proofs/C49Anc.v — inside the fragment go-git's verdict is EXACTLY git's
   algorithm in which a pattern also matches everything below what it matches:
   the only way the two can differ there is a negated pattern that matches an
   ancestor directory (the known finding negated-ancestor). *)
From Coq Require Import List NArith Bool Lia PeanoNat.
From GoGit Require Import Base.Out Model.Gitignore Spec.Glob Spec.PathGlob Spec.GitIgnore
     Proofs.C49Total Proofs.C49Wild Proofs.C49Names Proofs.C49Walk Proofs.C49Lines Proofs.C49Wide
     Proofs.C49Frag.
Import ListNotations.
Local Open Scope N_scope.

(* git's pattern, extended to the descendants of what it matches: the path or
   one of its ancestor directories below the pattern's base is matched *)
Definition gpat_match_anc (g : gpat) (path : list bytes) (isdir : bool) : bool :=
  existsb (fun k => gpat_match g (firstn k path) (dirflag k (List.length path) isdir))
          (seq (S (List.length (g_base g))) (List.length path - List.length (g_base g))).

Fixpoint glast_rev_a (gs : list gpat) (path : list bytes) (isdir : bool) : option bool :=
  match gs with
  | [] => None
  | g :: r => if gpat_match_anc g path isdir then Some (g_neg g) else glast_rev_a r path isdir
  end.
Definition glast_a (gs : list gpat) (path : list bytes) (isdir : bool) : option bool :=
  glast_rev_a (rev gs) path isdir.

(* Spec/GitIgnore.gwalk with gpat_match_anc in the place of gpat_match *)
Fixpoint gwalk_a (fs : files) (gs : list gpat) (pre rest : list bytes) (path : list bytes) (isdir : bool) : bool :=
  let gs' := match file_at fs pre with Some c => gs ++ gread c pre | None => gs end in
  match rest with
  | [] => false
  | [e] => match glast_a gs' path isdir with Some neg => negb neg | None => false end
  | e :: rest' =>
    let dir := pre ++ [e] in
    match glast_a gs' dir true with
    | Some false => true
    | _ => gwalk_a fs gs' dir rest' path isdir
    end
  end.

Definition git_anc_ignored (excl : option bytes) (fs : files) (path : list bytes) (isdir : bool) : bool :=
  gwalk_a fs (match excl with Some c => gread c [] | None => [] end) [] path path isdir.

(* ------------------------------------------------------------------ *)

Lemma existsb_seq_shift (f : nat -> bool) a n :
  existsb f (seq (S a) n) = true <-> exists k, (0 < k <= n)%nat /\ f (a + k)%nat = true.
Proof.
  rewrite existsb_exists. split.
  - intros (x & Hin & Hf). apply in_seq in Hin. exists (x - a)%nat. split; [lia|].
    replace (a + (x - a))%nat with x by lia. exact Hf.
  - intros (k & Hk & Hf). exists (a + k)%nat. split; [apply in_seq; lia|exact Hf].
Qed.

Lemma firstn_app_add {A} (a b : list A) k : firstn (List.length a + k) (a ++ b) = a ++ firstn k b.
Proof. induction a as [|x a IH]; cbn; [reflexivity|]. now f_equal. Qed.

Lemma coh_anc p g rel flag : coh p g -> rel <> [] -> path_ok rel = true ->
  (pat_match p (p_dom p ++ rel) flag <> NoMatch <-> gpat_match_anc g (p_dom p ++ rel) flag = true).
Proof.
  intros (Hb & _ & Hc) Hne Hok. rewrite (Hc rel flag Hne Hok).
  unfold gpat_match_anc. rewrite Hb, app_length.
  replace (List.length (p_dom p) + List.length rel - List.length (p_dom p))%nat with (List.length rel) by lia.
  rewrite existsb_seq_shift.
  split; intros (k & Hk & H); exists k; (split; [exact Hk|]).
  - rewrite firstn_app_add. unfold dirflag in *.
    replace (Nat.eqb (List.length (p_dom p) + k) (List.length (p_dom p) + List.length rel))
      with (Nat.eqb k (List.length rel)); [exact H|].
    destruct (Nat.eqb k (List.length rel)) eqn:E; symmetry;
      [apply Nat.eqb_eq in E; apply Nat.eqb_eq; lia|apply Nat.eqb_neq in E; apply Nat.eqb_neq; lia].
  - rewrite firstn_app_add in H. unfold dirflag in *.
    replace (Nat.eqb (List.length (p_dom p) + k) (List.length (p_dom p) + List.length rel))
      with (Nat.eqb k (List.length rel)) in H; [exact H|].
    destruct (Nat.eqb k (List.length rel)) eqn:E; symmetry;
      [apply Nat.eqb_eq in E; apply Nat.eqb_eq; lia|apply Nat.eqb_neq in E; apply Nat.eqb_neq; lia].
Qed.

Definition agree_a (path : list bytes) (d : bool) (p : pat) (g : gpat) : Prop :=
  g_neg g = p_incl p /\ (pat_match p path d <> NoMatch <-> gpat_match_anc g path d = true).

Lemma decide_agree_a path d : forall ps gs, Forall2 (agree_a path d) ps gs ->
  match mres_rev ps path d with
  | NoMatch => glast_rev_a gs path d = None
  | Exclude => glast_rev_a gs path d = Some false
  | Include => glast_rev_a gs path d = Some true
  end.
Proof.
  induction 1 as [|p g ps gs [Hn [Hm1 Hm2]] _ IH]; cbn [mres_rev glast_rev_a]; [reflexivity|].
  destruct (gpat_match_anc g path d) eqn:G.
  - specialize (Hm2 eq_refl).
    destruct (pat_match_res p path d) as [E|E]; [congruence|].
    rewrite E, Hn. destruct (p_incl p); reflexivity.
  - assert (E : pat_match p path d = NoMatch).
    { destruct (pat_match p path d) eqn:E'; [reflexivity| |];
        (assert (false = true) by (apply Hm1; discriminate); discriminate). }
    rewrite E. exact IH.
Qed.

Lemma decision_agree_a path d ps gs : Forall2 (agree_a path d) ps gs ->
  match decision ps path d with
  | NoMatch => glast_a gs path d = None
  | Exclude => glast_a gs path d = Some false
  | Include => glast_a gs path d = Some true
  end.
Proof. intros H. apply decide_agree_a. now apply Forall2_rev. Qed.

Lemma gwalk_a_unfold fs gs pre rest path isdir :
  gwalk_a fs gs pre rest path isdir =
  let gs' := gs ++ git_file fs pre in
  match rest with
  | [] => false
  | [e] => match glast_a gs' path isdir with Some neg => negb neg | None => false end
  | e :: rest' => match glast_a gs' (pre ++ [e]) true with
                  | Some false => true
                  | _ => gwalk_a fs gs' (pre ++ [e]) rest' path isdir
                  end
  end.
Proof.
  destruct rest as [|e [|e2 r]]; cbn [gwalk_a]; unfold git_file;
    destruct (file_at fs pre); rewrite ?app_nil_r; reflexivity.
Qed.

(* a pair in scope in directory pre: coherent, based at an ancestor of pre (or pre) *)
Definition cohD (pre : list bytes) (p : pat) (g : gpat) : Prop :=
  coh p g /\ exists x, pre = p_dom p ++ x.

Lemma anc_walk fs path isdir : files_coh fs -> path_ok path = true ->
  forall rest pre ps gs, path = pre ++ rest ->
    Forall2 (cohD pre) ps gs ->
    gw fs ps pre rest path isdir = gwalk_a fs gs pre rest path isdir.
Proof.
  intros Hfc Hok. induction rest as [|e rest IH]; intros pre ps gs Hpath HF.
  { rewrite gwalk_a_unfold. reflexivity. }
  rewrite gwalk_a_unfold. cbv zeta.
  set (ps' := ps ++ go_file fs pre). set (gs' := gs ++ git_file fs pre).
  assert (HF' : Forall2 (cohD pre) ps' gs').
  { apply Forall2_app; [exact HF|].
    specialize (Hfc pre). revert Hfc. generalize (go_file fs pre) (git_file fs pre).
    induction 1 as [|p g l1 l2 [Hc Hd] _ IHf]; constructor; [|exact IHf].
    split; [exact Hc|]. exists []. now rewrite Hd, app_nil_r. }
  assert (Hag : forall d, Forall2 (agree_a (pre ++ [e]) d) ps' gs').
  { intros d. clear - HF' Hok Hpath.
    induction HF' as [|p g l1 l2 [Hc (x & Hx)] _ IHf]; constructor; [|exact IHf].
    split; [destruct Hc as (_ & Hn & _); exact Hn|].
    rewrite Hx, <- app_assoc. apply coh_anc; [exact Hc|destruct x; discriminate|].
    rewrite Hpath, Hx, <- !app_assoc in Hok. rewrite path_ok_app in Hok.
    apply andb_true_iff in Hok. destruct Hok as [_ Hok].
    change (e :: rest) with ([e] ++ rest) in Hok. rewrite app_assoc, path_ok_app in Hok.
    apply andb_true_iff in Hok. tauto. }
  destruct rest as [|e2 r].
  - cbn [gw]. fold ps'. rewrite matcher_decision.
    assert (Hp : path = pre ++ [e]) by exact Hpath.
    rewrite Hp. pose proof (decision_agree_a _ isdir _ _ (Hag isdir)) as Hdec.
    destruct (decision ps' (pre ++ [e]) isdir); rewrite Hdec; reflexivity.
  - change (gw fs ps pre (e :: e2 :: r) path isdir)
      with (if matcher_match ps' (pre ++ [e]) true then true else gw fs ps' (pre ++ [e]) (e2 :: r) path isdir).
    rewrite matcher_decision.
    pose proof (decision_agree_a _ true _ _ (Hag true)) as Hdec.
    destruct (decision ps' (pre ++ [e]) true) eqn:Edec; rewrite Hdec; try reflexivity;
      (apply IH; [rewrite Hpath, <- app_assoc; reflexivity|]);
      (clear - HF'; induction HF' as [|p g l1 l2 [Hc (x & Hx)] _ IHf]; constructor; [|exact IHf];
       split; [exact Hc|]; exists (x ++ [e]); now rewrite Hx, app_assoc).
Qed.

Theorem anc_eq_git excl fs path isdir :
  wide_case excl fs = true -> path_ok path = true ->
  ignored excl fs path isdir = git_anc_ignored excl fs path isdir.
Proof.
  intros Hn Hok. destruct (wide_casew_ok wide_line _ _ Hn) as [Hfok Hex].
  unfold ignored, git_anc_ignored.
  destruct path as [|e0 rest0] eqn:Ep.
  { cbn [walk]. unfold scope_match. cbn [sc_excluded sc_pats]. rewrite matcher_nil.
    rewrite gwalk_a_unfold. reflexivity. }
  rewrite <- Ep in *.
  rewrite go_phase; [|rewrite Ep; discriminate|reflexivity|apply matcher_nil].
  cbn [sc_pats].
  assert (Hroot : root_patterns excl fs = excl_pats excl ++ go_file fs []) by reflexivity.
  rewrite Hroot, gw_root_dup.
  apply anc_walk; try assumption.
  - intros pre. unfold go_file, git_file. destruct (file_at fs pre) as [c|] eqn:E; [|constructor].
    apply (file_cohw wide_line wide_line_coh). eapply Hfok; eassumption.
  - reflexivity.
  - unfold excl_pats. destruct excl as [c|]; [|constructor].
    pose proof (file_cohw wide_line wide_line_coh c [] (Hex _ eq_refl)) as HF.
    induction HF as [|p g l1 l2 [Hc Hd] _ IHf]; constructor; [|exact IHf].
    split; [exact Hc|]. exists []. now rewrite Hd.
Qed.
