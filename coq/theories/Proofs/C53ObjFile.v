(* Proofs/C53ObjFile.v — C53 for the loose-object header reader (Model/ObjFile.v
   read_until / read_header; objfile.Reader.Header).  The model is structural
   (the budget is the code's own maxHeaderLen, ErrHeaderTooLong a real Go
   error), so totality is by construction; proved for EVERY inflated stream:
     total/alloc  the header is decided by at most max_header_len bytes: a
                  successful Header consumed k <= max_header_len bytes, the
                  rest of the stream is untouched, and the two tokens it
                  collected (type, size) are shorter than that together;
     no_oob       the size is an int64 (ParseInt range, no wrap), and it is only
                  RETURNED: nothing in the reader is sized by it. *)
From Coq Require Import List NArith ZArith Bool Lia ZifyBool ZifyNat ZifyN.
From GoGit Require Import Base.Out Spec.SHA Gen.C01 Model.ObjFile.
Import ListNotations.
Local Open Scope N_scope.

Lemma read_until_spec delim : forall budget l acc tok b r,
  read_until delim budget l acc = Ok (tok, b, r) ->
  exists k, l = firstn k l ++ delim :: r /\ tok = rev acc ++ firstn k l /\ budget = (b + S k)%nat /\ List.length (firstn k l) = k.
Proof.
  induction budget as [|bd IH]; intros l acc tok b r E; cbn [read_until] in E; [discriminate|].
  destruct l as [|c t]; [discriminate|]. destruct (N.eqb_spec c delim).
  - injection E as <- <- <-. exists 0%nat. subst c. cbn. rewrite app_nil_r. repeat split; lia.
  - apply IH in E. destruct E as (k & E1 & E2 & E3 & E4). exists (S k). cbn [firstn app List.length rev] in *.
    rewrite <- E1. repeat split; try lia. rewrite E2. cbn [rev]. rewrite <- app_assoc. reflexivity.
Qed.

(* a successful Header: type token, size token and their two delimiters are the
   first k <= 32 bytes of the stream; the content is what follows *)
Theorem read_header_bounded raw t n rest : read_header raw = Ok (t, n, rest) ->
  exists ty sz, raw = ty ++ 32 :: sz ++ 0 :: rest /\
    (List.length ty + List.length sz + 2 <= max_header_len)%nat /\
    parse_type ty = Some t /\ parse_int64 sz = Some n.
Proof.
  unfold read_header. destruct (read_until 32 max_header_len raw []) as [[[ty b1] r1]|] eqn:E1; [|discriminate].
  destruct (parse_type ty) as [t'|] eqn:Pt; [|discriminate].
  destruct (read_until 0 b1 r1 []) as [[[sz b2] r2]|] eqn:E2; [|discriminate].
  destruct (parse_int64 sz) as [n'|] eqn:Pn; [|discriminate]. intros [= <- <- <-].
  apply read_until_spec in E1, E2. destruct E1 as (k1 & A1 & A2 & A3 & A4), E2 as (k2 & B1 & B2 & B3 & B4).
  cbn [rev app] in A2, B2. subst ty sz. exists (firstn k1 raw), (firstn k2 r1).
  repeat split; try assumption; [|lia]. rewrite <- B1. exact A1.
Qed.

(* strconv.ParseInt(s, 10, 64): the value is an int64 *)
Lemma parse_int64_range s n : parse_int64 s = Some n -> (- 9223372036854775808 <= n < 9223372036854775808)%Z.
Proof.
  unfold parse_int64. destruct s as [|c r]; [discriminate|].
  assert (G : forall neg ds, match ds with
                             | [] => None
                             | _ => match parse_digits ds 0 with
                                    | None => None
                                    | Some u => if neg : bool then (if two63 <? u then None else Some (- Z.of_N u)%Z)
                                                else (if two63 <=? u then None else Some (Z.of_N u))
                                    end
                             end = Some n -> (- 9223372036854775808 <= n < 9223372036854775808)%Z).
  { intros neg ds. destruct ds as [|d ds']; [discriminate|]. destruct (parse_digits (d :: ds') 0) as [u|]; [|discriminate].
    unfold two63. destruct neg.
    - destruct (N.ltb_spec 9223372036854775808 u); [discriminate|]. intros [= <-]. lia.
    - destruct (N.leb_spec 9223372036854775808 u); [discriminate|]. intros [= <-]. lia. }
  destruct (c =? 43); [exact (G false r)|]. destruct (c =? 45); [exact (G true r)|exact (G false (c :: r))].
Qed.

Theorem read_header_size_int64 raw t n rest : read_header raw = Ok (t, n, rest) ->
  (- 9223372036854775808 <= n < 9223372036854775808)%Z /\ (List.length rest <= List.length raw)%nat.
Proof.
  intros E. apply read_header_bounded in E. destruct E as (ty & sz & -> & _ & _ & Pn).
  split; [eapply parse_int64_range; eassumption|]. rewrite !app_length. cbn [List.length]. rewrite app_length. cbn [List.length]. lia.
Qed.

(* the header never depends on more than max_header_len bytes: whatever follows them is irrelevant *)
Lemma read_until_prefix delim : forall budget l acc tail,
  (budget <= List.length l)%nat -> read_until delim budget (l ++ tail) acc =
  match read_until delim budget l acc with
  | Ok (tok, b, r) => Ok (tok, b, r ++ tail)
  | Err e => Err e
  end.
Proof.
  induction budget as [|bd IH]; intros l acc tail Hl; cbn [read_until]; [reflexivity|].
  destruct l as [|c t]; [cbn [List.length] in Hl; lia|]. cbn [app]. destruct (c =? delim); [reflexivity|].
  apply IH. cbn [List.length] in Hl. lia.
Qed.
