(* Proofs/C10MmapHash.v — mmap.PackScanner.FindHash: the closed-interval binary search
   of lookupOffset through the mapped .rev file answers like the map by offset. *)
From Coq Require Import List NArith ZArith Bool Lia ZifyBool ZifyNat ZifyN Sorting.Sorted Sorting.Permutation.
From GoGit Require Import Base.Out Base.GoInt Model.PackBytes Model.Idx Spec.IdxFormat
  Proofs.C10Search Proofs.C10Order Proofs.C10Bytes Proofs.C10Table Proofs.C10Layout Proofs.C10Lazy
  Proofs.C10Mmap Proofs.C10Rev.
Import ListNotations.
Local Open Scope N_scope.
Ltac Zify.zify_post_hook ::= Z.div_mod_to_equations.

(* ---- bs_closed against a monotone probe ---- *)
Definition zmono (probe : Z -> option comparison) (left right : Z) : Prop :=
  forall i j, (left <= i)%Z -> (i <= j)%Z -> (j <= right)%Z ->
    (probe i = Some Lt -> probe j = Some Lt) /\ (probe j = Some Gt -> probe i = Some Gt).
Definition ztotal (probe : Z -> option comparison) (left right : Z) : Prop :=
  forall i, (left <= i)%Z -> (i <= right)%Z -> probe i <> None.

Definition zsearch_spec (probe : Z -> option comparison) (left right : Z) (r : sres) : Prop :=
  match r with
  | Found i => (left <= Z.of_N i <= right)%Z /\ probe (Z.of_N i) = Some Eq
  | NotFound => forall i, (left <= i)%Z -> (i <= right)%Z -> probe i <> Some Eq
  | _ => False
  end.

Lemma zpow2_succ f : (2 ^ Z.of_nat (S f) = 2 * 2 ^ Z.of_nat f)%Z.
Proof. rewrite Nat2Z.inj_succ, Z.pow_succ_r by lia. reflexivity. Qed.

Lemma bs_closed_spec probe : forall f left right,
  (0 <= left)%Z -> (right - left + 1 < 2 ^ Z.of_nat f)%Z -> zmono probe left right -> ztotal probe left right ->
  zsearch_spec probe left right (bs_closed (S f) probe left right).
Proof.
  induction f as [|f IH]; intros left right H0 Hw M T.
  - cbn [bs_closed]. change (2 ^ Z.of_nat 0)%Z with 1%Z in Hw.
    destruct (left <=? right)%Z eqn:E; [lia|]. cbn. intros; lia.
  - rewrite zpow2_succ in Hw.
    change (bs_closed (S (S f)) probe left right) with
      (if (left <=? right)%Z then
         let mid := ((left + right) / 2)%Z in
         match probe mid with
         | None => NotFound
         | Some Eq => Found (Z.to_N mid)
         | Some Gt => bs_closed (S f) probe (mid + 1)%Z right
         | Some Lt => bs_closed (S f) probe left (mid - 1)%Z
         end
       else NotFound).
    destruct (left <=? right)%Z eqn:E; [|cbn; intros; lia].
    cbv zeta. set (mid := ((left + right) / 2)%Z).
    assert (Hm : (left <= mid <= right)%Z) by (unfold mid; lia).
    destruct (probe mid) as [[| |]|] eqn:P.
    + cbn. rewrite Z2N.id by lia. split; [lia|assumption].
    + assert (S1 : zsearch_spec probe left (mid - 1)%Z (bs_closed (S f) probe left (mid - 1)%Z)).
      { apply IH; [lia|unfold mid; lia| |].
        - intros i j Hi Hij Hj. apply M; lia.
        - intros i Hi Hj. apply T; lia. }
      destruct (bs_closed (S f) probe left (mid - 1)%Z); cbn in *; try assumption.
      * destruct S1 as [? ?]. split; [lia|assumption].
      * intros i Hi Hj. destruct (Z.lt_ge_cases i mid) as [L|G]; [apply S1; lia|].
        destruct (M mid i) as [ML _]; try lia. rewrite (ML P). discriminate.
    + assert (S1 : zsearch_spec probe (mid + 1)%Z right (bs_closed (S f) probe (mid + 1)%Z right)).
      { apply IH; [lia|unfold mid; lia| |].
        - intros i j Hi Hij Hj. apply M; lia.
        - intros i Hi Hj. apply T; lia. }
      destruct (bs_closed (S f) probe (mid + 1)%Z right); cbn in *; try assumption.
      * destruct S1 as [? ?]. split; [lia|assumption].
      * intros i Hi Hj. destruct (Z.lt_ge_cases mid i) as [L|G]; [apply S1; lia|].
        destruct (M i mid) as [_ MG]; try lia. rewrite (MG P). discriminate.
    + exfalso. apply (T mid); [lia|lia|assumption].
Qed.

Section MmapHash.
Variable hs : nat.
Variable H : bytes -> bytes.
Variable tbl : list entry.
Variable pack : bytes.
Variable hf : N.
Hypothesis WF : wf_tbl hs tbl.
Hypothesis Hpack : List.length pack = hs.
Hypothesis Hhs20 : (20 <= hs)%nat.
Hypothesis Hdigest : forall b, List.length (H b) = hs.
Hypothesis Hdist : distinct_offsets tbl.

Let n : N := N.of_nat (List.length tbl).
Let HS : N := N.of_nat hs.
Let file := idx_file H tbl pack.
Let rev := rev_file H hf tbl pack.
Set Default Proof Using "hs H tbl pack hf WF Hpack Hhs20 Hdigest Hdist".

Lemma rev_hdr : exists hfb t, rev = ([82; 73; 68; 88] ++ be32 1 ++ hfb) ++ t /\ List.length hfb = 4%nat.
Proof.
  exists (be32 hf), (flat_map be32 (rev_positions tbl) ++ pack ++ H (rev_body hf tbl pack)).
  split; [|reflexivity]. unfold rev, rev_file, rev_body. now rewrite <- !app_assoc.
Qed.

Lemma blen_rev : blen rev = 12 + n * 4 + HS + HS.
Proof.
  unfold rev, rev_file, rev_body. rewrite !blen_app.
  rewrite (blen_flat_map be32 4) by (intros; apply blen_be32). rewrite rev_positions_length.
  assert (E1 : blen pack = HS) by (unfold blen, HS; now rewrite Hpack).
  assert (E2 : forall b, blen (H b) = HS) by (intros b; unfold blen, HS; now rewrite Hdigest).
  rewrite E1, E2, !blen_be32. change (blen [82; 73; 68; 88]) with 4. unfold n. lia.
Qed.

Lemma rev16 : 16 <= blen rev.
Proof. rewrite blen_rev. unfold HS. lia. Qed.

Lemma sum_len : blen (S_SUM H tbl pack) = N.of_nat hs.
Proof. unfold S_SUM, blen. now rewrite Hdigest. Qed.

Let Sc := the_scanner hs H tbl pack rev.
Let ScanOffset := scan_offset_ok hs H tbl pack rev WF Hpack rev_hdr rev16 Hhs20 sum_len.
Let NameSlice := name_slice hs H tbl pack rev WF Hpack rev_hdr rev16 Hhs20 sum_len.

Lemma sorted_len' : List.length (sort_by_off tbl) = List.length tbl.
Proof. symmetry. apply Permutation_length, sort_off_perm. Qed.

(* one entry of the mapped .rev *)
Lemma rev_entry i : i < n ->
  exists p, read_at rev (12 + i * 4) 4 = Some (be32 (N.of_nat p)) /\ (p < List.length tbl)%nat /\
            nth p tbl d0 = nth (N.to_nat i) (sort_by_off tbl) d0.
Proof.
  intros Hi. destruct (rev_positions_nth tbl (N.to_nat i) Hdist ltac:(unfold n in Hi; lia)) as (p & Ep & Hp & En).
  exists p. split; [|split; assumption].
  unfold rev, rev_file, rev_body. rewrite <- !app_assoc.
  rewrite (app_assoc [82; 73; 68; 88]), (app_assoc _ (be32 hf)).
  replace 12 with (blen (([82; 73; 68; 88] ++ be32 1) ++ be32 hf)) by reflexivity.
  rewrite (record_read_at be32 4 (rev_positions tbl) _ _ i 0);
    [|apply blen_be32|rewrite rev_positions_length; exact Hi].
  now rewrite Ep.
Qed.

Theorem scan_find_hash_map o :
  scan_find_hash hs Sc o = match lookup_off tbl o with Some e => Ok (e_hash e) | None => Err ENotFound end.
Proof.
  unfold scan_find_hash, Sc, the_scanner. cbn [s_rev s_names s_crcs s_idx]. fold rev. fold file.
  change S_REVHDR with 12. rewrite blen_rev.
  replace (Z.of_N (12 + n * 4 + HS + HS) - Z.of_N 12 - 2 * Z.of_nat hs)%Z with (Z.of_N n * 4)%Z by (unfold HS; lia).
  rewrite Z.quot_mul by lia. rewrite N2Z.id.
  match goal with |- context [bs_closed _ ?p _ _] => set (probe := p) end.
  assert (Pv : forall i, (0 <= i)%Z -> (i <= Z.of_N n - 1)%Z ->
               probe i = Some (o ?= e_off (nth (Z.to_nat i) (sort_by_off tbl) d0))).
  { intros i H0 H1. unfold probe. destruct (rev_entry (Z.to_N i) ltac:(lia)) as (p & Er & Hp & En). rewrite Er.
    rewrite get32_be32' by (pose proof (wf_count _ _ WF); lia).
    change (scan_offset _ (N.of_nat p)) with (scan_offset (the_scanner hs H tbl pack rev) (N.of_nat p)).
    rewrite ScanOffset by (unfold n; lia). rewrite Nat2N.id, En.
    replace (N.to_nat (Z.to_N i)) with (Z.to_nat i) by lia. reflexivity. }
  assert (Pm : zmono probe 0 (Z.of_N n - 1)).
  { intros i j Hi Hij Hj. rewrite !Pv by lia.
    destruct (Z.eq_dec i j) as [<-|Hne]; [split; auto|].
    assert (Hs := sorted_off_nth _ (sort_off_sorted tbl Hdist) (Z.to_nat i) (Z.to_nat j) d0
                    ltac:(lia) ltac:(rewrite sorted_len'; unfold n in Hj; lia)).
    split; intros E; injection E as E1; f_equal.
    - rewrite N.compare_lt_iff in *. lia.
    - rewrite N.compare_gt_iff in *. lia. }
  assert (Pt : ztotal probe 0 (Z.of_N n - 1)) by (intros i Hi Hj; rewrite Pv by lia; discriminate).
  assert (Sp : zsearch_spec probe 0 (Z.of_N n - 1) (bs_closed (bs_fuel 0 n + 1) probe 0 (Z.of_N n - 1))).
  { unfold bs_fuel. replace (S (N.to_nat (N.size (n - 0))) + 1)%nat with (S (S (N.to_nat (N.size n)))) by (rewrite N.sub_0_r; lia).
    apply bs_closed_spec; [lia| |exact Pm|exact Pt].
    pose proof (size_bound n) as B. rewrite zpow2_succ.
    assert (Z.of_N n < 2 ^ Z.of_nat (N.to_nat (N.size n)))%Z.
    { rewrite <- (N2Z.id n) in B at 1. apply N2Z.inj_lt in B. rewrite N2Z.inj_pow in B.
      rewrite nat_N_Z in B. rewrite N2Z.id in B. exact B. }
    lia. }
  destruct (bs_closed (bs_fuel 0 n + 1) probe 0 (Z.of_N n - 1)) as [mid| | |] eqn:Eb; cbn in Sp; try contradiction.
  - destruct Sp as [Hr Hp]. rewrite Pv in Hp by lia. injection Hp as Hc. apply N.compare_eq in Hc.
    destruct (rev_entry mid ltac:(lia)) as (p & Er & Hpl & En).
    apply read_at_some in Er. destruct Er as [_ Er]. cbv zeta. rewrite <- Er.
    rewrite get32_be32' by (pose proof (wf_count _ _ WF); lia).
    fold HS.
    replace (1032 + N.of_nat (List.length tbl) * HS <? 1032 + N.of_nat p * HS + HS) with false by nia.
    fold file. unfold file. rewrite NameSlice by (unfold n; lia). rewrite Nat2N.id.
    assert (Eo : e_off (nth p tbl d0) = o).
    { rewrite En, Hc. replace (Z.to_nat (Z.of_N mid)) with (N.to_nat mid) by lia. reflexivity. }
    rewrite <- Eo. rewrite lookup_off_nth by assumption. reflexivity.
  - rewrite lookup_off_none; [reflexivity|]. intros e He Eo.
    assert (Hin : In e (sort_by_off tbl)) by (eapply Permutation_in; [apply sort_off_perm|exact He]).
    destruct (In_nth _ _ d0 Hin) as (i & Hi & Ei). rewrite sorted_len' in Hi.
    apply (Sp (Z.of_nat i)); [lia|unfold n; lia|]. rewrite Pv by (unfold n; lia).
    rewrite Nat2Z.id, Ei, Eo. now rewrite N.compare_refl.
Qed.

End MmapHash.
