(* Proofs/C49Names.v — ignore files made of plain name patterns give the same
   verdict in go-git (Scope walk) and in git (prep_exclude + last_matching_pattern). *)
From Coq Require Import List NArith Bool Lia PeanoNat.
From GoGit Require Import Base.Out Model.Gitignore Spec.Glob Spec.GitIgnore
     Proofs.C49Total Proofs.C49Wild Proofs.C49Git Proofs.C49Trim.
Import ListNotations.
Local Open Scope N_scope.

(* ------------------------------------------------------------------ *)
(* the fragment                                                        *)

(* the line without its optional trailing slash *)
Definition body_of_line (l : bytes) : bytes :=
  match rev l with c :: r => if c =? cSLASH then rev r else l | [] => l end.

(* empty line, comment, or a slash-free (but for a trailing slash), non-negated
   pattern whose glob is in the fragment of Spec/Glob *)
Definition name_line (l : bytes) : bool :=
  match l with
  | [] => true
  | c :: _ =>
    (c =? cHASH) ||
    (negb (c =? cBANG) && negb (has_slash (body_of_line l)) &&
     match glob_of (body_of_line l) with Some _ => true | None => false end)
  end.

(* no blank other than LF (so nothing to trim and no CR), no byte order mark *)
Definition content_ok (c : bytes) : bool :=
  forallb (fun b => (b =? cLF) || negb (is_space b)) c &&
  negb (match c with b :: _ => b =? 239 | [] => false end) &&
  forallb name_line (split_lf c []).

Definition names_case (excl : option bytes) (fs : files) : bool :=
  match excl with Some c => content_ok c | None => true end &&
  forallb (fun f => content_ok (snd f)) fs.

(* ------------------------------------------------------------------ *)
(* literal patterns and "star literal" patterns                        *)

Lemma beq_refl a : beq a a = true.
Proof. induction a as [|x a IH]; cbn; [reflexivity|]. now rewrite N.eqb_refl. Qed.

Lemma beq_eq a b : beq a b = true <-> a = b.
Proof.
  revert b. induction a as [|x a IH]; intros [|y b]; cbn; split; intros H; try reflexivity; try discriminate.
  - apply andb_true_iff in H. destruct H as [H1 H2]. apply N.eqb_eq in H1. apply IH in H2. now subst.
  - inversion H; subst. now rewrite N.eqb_refl, beq_refl.
Qed.

Lemma simple_all_parse : forall s f, simple_length s = List.length s -> (List.length s < f)%nat ->
  parse_glob f s = Some (map ILit s).
Proof.
  induction s as [|c r IH]; intros f Hs Hf.
  - destruct f; [cbn in Hf; lia|]. reflexivity.
  - destruct f as [|f0]; [cbn in Hf; lia|]. cbn [simple_length] in Hs.
    destruct (is_glob_special c) eqn:Sp; [cbn in Hs; lia|].
    unfold is_glob_special, cSTAR, cQM, cLB, cBSL in Sp. rewrite !orb_false_iff in Sp.
    destruct Sp as [[[S1 S2] S3] S4].
    cbn [parse_glob]. rewrite S4, S2, S1, S3.
    rewrite IH; [reflexivity|cbn in Hs; lia|cbn in Hf; lia].
Qed.

Lemma gmatch_lits s : forall t, gmatch (map ILit s) t = beq s t.
Proof.
  induction s as [|c r IH]; intros t; cbn; [destruct t; reflexivity|].
  destruct t as [|d t']; [reflexivity|]. rewrite IH. cbn. now rewrite N.eqb_sym.
Qed.

Lemma wildmatch_literal s t : simple_length s = List.length s -> wildmatch s t = beq s t.
Proof.
  intros Hs. rewrite (wildmatch_eq_gmatch s (map ILit s)).
  - apply gmatch_lits.
  - apply simple_all_parse; [assumption|lia].
Qed.

Lemma is_suffix_at_spec suf : forall s, is_suffix_at suf s = true <-> suffix suf s.
Proof.
  induction s as [|c r IH]; cbn [is_suffix_at].
  - rewrite orb_false_r, beq_eq. split.
    + intros ->. apply suffix_refl.
    + intros H. now apply suffix_nil in H.
  - rewrite orb_true_iff, beq_eq, IH. split.
    + intros [->|H]; [apply suffix_refl|now apply suffix_cons].
    + intros H. apply suffix_cons_inv in H. tauto.
Qed.

Lemma parse_glob_star f r :
  parse_glob (S f) (cSTAR :: r) = match parse_glob f r with Some g => Some (IStar :: g) | None => None end.
Proof. reflexivity. Qed.

Lemma wildmatch_star_literal r t : simple_length r = List.length r ->
  wildmatch (cSTAR :: r) t = is_suffix_at r t.
Proof.
  intros Hs.
  assert (Hg : glob_of (cSTAR :: r) = Some (IStar :: map ILit r)).
  { unfold glob_of. cbn [List.length]. rewrite parse_glob_star.
    rewrite simple_all_parse; [reflexivity|assumption|lia]. }
  pose proof (wildmatch_sound_complete _ _ t Hg) as H.
  pose proof (is_suffix_at_spec r t) as H2.
  assert (H3 : Gmatch (IStar :: map ILit r) t <-> suffix r t).
  { rewrite Gmatch_star_iff. split.
    - intros [t' [Hsuf Hm]]. apply gmatch_spec in Hm. rewrite gmatch_lits in Hm. apply beq_eq in Hm. now subst.
    - intros Hsuf. exists r. split; [assumption|]. apply gmatch_spec. rewrite gmatch_lits. apply beq_refl. }
  destruct (wildmatch (cSTAR :: r) t), (is_suffix_at r t); try reflexivity; intuition congruence.
Qed.

(* ------------------------------------------------------------------ *)
(* one name line, read by both sides                                   *)

Definition ends_slash (l : bytes) : bool :=
  match rev l with c :: _ => c =? cSLASH | [] => false end.

Lemma body_app l : exists tail, l = body_of_line l ++ tail /\ (tail = [] \/ tail = [cSLASH]) /\
                                (ends_slash l = match tail with [] => false | _ => true end).
Proof.
  unfold body_of_line, ends_slash. destruct (rev l) as [|c r] eqn:E.
  - exists []. rewrite app_nil_r. tauto.
  - assert (Hl : l = rev r ++ [c]).
    { rewrite <- (rev_involutive l), E. reflexivity. }
    destruct (c =? cSLASH) eqn:Ec.
    + apply N.eqb_eq in Ec. subst c. exists [cSLASH]. tauto.
    + exists []. rewrite app_nil_r. tauto.
Qed.

Lemma split_slash_noslash : forall s cur, has_slash s = false -> split_slash s cur = [rev cur ++ s].
Proof.
  induction s as [|c r IH]; intros cur H; cbn in *.
  - now rewrite app_nil_r.
  - apply orb_false_iff in H. destruct H as [H1 H2]. rewrite H1. rewrite IH by assumption.
    cbn. now rewrite <- app_assoc.
Qed.

Definition nospace (l : bytes) : Prop := forall c, In c l -> is_space c = false.

Lemma gtrim_id_n : forall n l, (List.length l <= n)%nat -> (forall x, In x l -> (x =? cSP) = false) -> gtrim l = l.
Proof.
  induction n as [|n IH]; intros l Hn Hl.
  - destruct l; [reflexivity|cbn in Hn; lia].
  - destruct l as [|c r]; [reflexivity|]. cbn [gtrim].
    rewrite (Hl c (or_introl eq_refl)).
    destruct (c =? cBSL).
    + destruct r as [|d r']; [reflexivity|]. rewrite IH; [reflexivity|cbn in Hn; lia|].
      intros x Hx. apply Hl. right. now right.
    + rewrite IH; [reflexivity|cbn in Hn; lia|]. intros x Hx. apply Hl. now right.
Qed.

Lemma nospace_sp l x : nospace l -> In x l -> (x =? cSP) = false /\ (x =? cCR) = false.
Proof.
  intros H Hx. specialize (H _ Hx). unfold is_space in H. rewrite !orb_false_iff in H.
  unfold cSP, cCR. tauto.
Qed.


Lemma parse_name l dir :
  nospace l -> (match l with c :: _ => c =? cBANG | [] => false end) = false ->
  has_slash (body_of_line l) = false ->
  parse_pattern l dir = mkPat dir [body_of_line l] false (ends_slash l) false.
Proof.
  intros Hns Hb Hs. unfold parse_pattern.
  assert (E0 : (match l with c :: r => if c =? cBANG then (true, r) else (false, l) | [] => (false, l) end)
               = (false, l)).
  { destruct l as [|c r]; [reflexivity|]. now rewrite Hb. }
  rewrite E0.
  assert (E1 : trim_trailing_spaces l = l).
  { rewrite trim_eq_git. apply (gtrim_id_n (List.length l)); [lia|].
    intros x Hx. exact (proj1 (nospace_sp _ _ Hns Hx)). }
  rewrite E1. unfold body_of_line, ends_slash in *.
  destruct (rev l) as [|c r] eqn:E.
  - cbn. assert (l = []) by (rewrite <- (rev_involutive l), E; reflexivity). subst. reflexivity.
  - destruct (c =? cSLASH).
    + rewrite Hs. now rewrite split_slash_noslash.
    + assert (El : rev (c :: r) = l) by (rewrite <- E; apply rev_involutive).
      rewrite El, Hs. now rewrite split_slash_noslash.
Qed.

Lemma gparse_name l dir :
  (match l with c :: _ => c =? cBANG | [] => false end) = false ->
  has_slash (body_of_line l) = false ->
  gparse l dir = mkG (body_of_line l) false (ends_slash l) true
                     (match l with c :: r => (c =? cSTAR) && no_wildcard r | [] => false end)
                     (Nat.min (simple_length l) (List.length (body_of_line l))) dir.
Proof.
  intros Hb Hs. unfold gparse.
  destruct l as [|c0 r0].
  - reflexivity.
  - rewrite Hb. unfold body_of_line, ends_slash in *.
    destruct (rev (c0 :: r0)) as [|c r]; [now rewrite Hs|].
    destruct (c =? cSLASH); now rewrite Hs.
Qed.

Lemma simple_length_le s : (simple_length s <= List.length s)%nat.
Proof. induction s as [|c r IH]; cbn; [lia|]. destruct (is_glob_special c); cbn; lia. Qed.

Lemma simple_length_app a b :
  simple_length (a ++ b) =
  if Nat.eqb (simple_length a) (List.length a) then (List.length a + simple_length b)%nat else simple_length a.
Proof.
  induction a as [|c r IH]; cbn [app simple_length List.length]; [reflexivity|].
  destruct (is_glob_special c); [reflexivity|]. rewrite IH. cbn [Nat.eqb].
  destruct (Nat.eqb (simple_length r) (List.length r)); reflexivity.
Qed.

Lemma is_suffix_len r t : is_suffix_at r t = true -> (List.length r <= List.length t)%nat.
Proof. intros H. apply is_suffix_at_spec in H. destruct H as [s ->]. rewrite app_length. lia. Qed.

(* match_basename with its two shortcuts is wildmatch on the body *)
Lemma basename_name l dir g name :
  (match l with c :: _ => c =? cBANG | [] => false end) = false ->
  has_slash (body_of_line l) = false ->
  glob_of (body_of_line l) = Some g ->
  match_basename (gparse l dir) name = wildmatch (body_of_line l) name.
Proof.
  intros Hb Hs Hg. rewrite gparse_name by assumption. unfold match_basename. cbn [g_pat g_nowild g_endswith].
  destruct (body_app l) as (tail & Hl & Htail & _).
  set (body := body_of_line l) in *.
  destruct (Nat.eqb (Nat.min (simple_length l) (List.length body)) (List.length body)) eqn:EA.
  { (* no wildcard at all *)
    apply Nat.eqb_eq in EA.
    assert (Hsl : simple_length body = List.length body).
    { pose proof (simple_length_le body) as Hle.
      rewrite Hl, simple_length_app in EA.
      destruct (Nat.eqb (simple_length body) (List.length body)) eqn:E; [now apply Nat.eqb_eq in E|].
      apply Nat.eqb_neq in E. lia. }
    now rewrite wildmatch_literal. }
  destruct l as [|c0 r0] eqn:El.
  { (* empty line: body empty, min = 0 = length *) cbn in EA. unfold body, body_of_line in EA. cbn in EA. discriminate. }
  destruct ((c0 =? cSTAR) && no_wildcard r0) eqn:EB.
  { (* "*literal" *)
    apply andb_true_iff in EB. destruct EB as [Ec Hnw]. apply N.eqb_eq in Ec. subst c0.
    unfold no_wildcard in Hnw. apply Nat.eqb_eq in Hnw.
    destruct body as [|b0 r'] eqn:Ebody.
    - (* body empty: the line is "/" , impossible with a leading star *)
      cbn in Hl. destruct Htail as [-> | ->]; inversion Hl.
    - cbn [app] in Hl. inversion Hl; subst b0.
      assert (Hr' : simple_length r' = List.length r').
      { pose proof (simple_length_le r') as Hle. rewrite H1, simple_length_app, app_length in Hnw.
        destruct (Nat.eqb (simple_length r') (List.length r')) eqn:E; [now apply Nat.eqb_eq in E|].
        apply Nat.eqb_neq in E. lia. }
      cbn [tl List.length]. rewrite wildmatch_star_literal by assumption.
      destruct (is_suffix_at r' name) eqn:Esuf; [|now rewrite andb_false_r].
      apply is_suffix_len in Esuf. rewrite andb_true_r. apply Nat.leb_le. lia. }
  symmetry. eapply wildmatch_eq_git. exact Hg.
Qed.

(* ------------------------------------------------------------------ *)
(* one ignore file, read by both sides                                 *)

(* a go pattern and a git pattern standing for the same name line *)
Definition PR (dir : list bytes) (p : pat) (g : gpat) : Prop :=
  p_incl p = false /\ p_isglob p = false /\ p_dom p = dir /\
  g_neg g = false /\ g_nodir g = true /\ g_mustdir g = p_dironly p /\
  exists body, p_segs p = [body] /\ forall name, match_basename g name = wildmatch body name.

Lemma keep_line_name l : nospace l -> l <> [] ->
  keep_line l = negb (match l with c :: _ => c =? cHASH | [] => false end).
Proof.
  intros Hns Hne. unfold keep_line. destruct l as [|c r]; [congruence|].
  assert (forallb is_space (c :: r) = false).
  { cbn. now rewrite (Hns c (or_introl eq_refl)). }
  rewrite H. now rewrite andb_true_r.
Qed.

Lemma gline_name l : nospace l -> l <> [] ->
  gline l = if (match l with c :: _ => c =? cHASH | [] => false end) then None else Some l.
Proof.
  intros Hns Hne. unfold gline. destruct l as [|c r]; [congruence|].
  destruct (c =? cHASH); [reflexivity|]. f_equal.
  assert (Hid : gtrim (c :: r) = c :: r).
  { apply (gtrim_id_n (List.length (c :: r))); [lia|].
    intros x Hx. exact (proj1 (nospace_sp _ _ Hns Hx)). }
  destruct (rev (c :: r)) as [|d r0] eqn:Er; [exact Hid|].
  assert (In d (c :: r)) by (apply in_rev; rewrite Er; now left).
  rewrite (proj2 (nospace_sp _ _ Hns H)). exact Hid.
Qed.

Lemma line_PR l dir : nospace l -> name_line l = true -> l <> [] ->
  (match l with c :: _ => c =? cHASH | [] => false end) = false ->
  PR dir (parse_pattern l dir) (gparse l dir).
Proof.
  intros Hns Hnl Hne Hh. destruct l as [|c r] eqn:El; [congruence|].
  unfold name_line in Hnl. rewrite Hh in Hnl. cbn [orb] in Hnl.
  rewrite !andb_true_iff in Hnl. destruct Hnl as [[Hb Hs] Hg].
  apply negb_true_iff in Hb. apply negb_true_iff in Hs.
  destruct (glob_of (body_of_line (c :: r))) as [g|] eqn:Eg; [|discriminate].
  rewrite parse_name by assumption.
  unfold PR. cbn [p_incl p_isglob p_dom p_dironly p_segs].
  rewrite gparse_name by assumption. cbn [g_neg g_nodir g_mustdir].
  repeat split; try reflexivity.
  exists (body_of_line (c :: r)). split; [reflexivity|]. intros name.
  rewrite <- gparse_name by assumption. eapply basename_name; eassumption.
Qed.

Lemma scan_eq_split : forall s cur,
  (forall x, In x s -> (x =? cCR) = false) -> (forall x, In x cur -> (x =? cCR) = false) ->
  scan_lines s cur = split_lf s cur.
Proof.
  assert (Hd : forall cur, (forall x, In x cur -> (x =? cCR) = false) -> drop_cr_rev cur = cur).
  { intros [|c r] H; [reflexivity|]. cbn. now rewrite (H c (or_introl eq_refl)). }
  induction s as [|c r IH]; intros cur Hs Hc; cbn [scan_lines split_lf].
  - destruct cur; [reflexivity|]. now rewrite Hd.
  - destruct (c =? cLF).
    + rewrite Hd by assumption. rewrite IH; [reflexivity| |intros x []].
      intros x Hx. apply Hs. now right.
    + apply IH.
      * intros x Hx. apply Hs. now right.
      * intros x [<-|Hx]; [apply Hs; now left|now apply Hc].
Qed.

Lemma split_lf_chars : forall s cur l, In l (split_lf s cur) -> forall x, In x l ->
  In x cur \/ (In x s /\ (x =? cLF) = false).
Proof.
  induction s as [|c r IH]; intros cur l Hl x Hx; cbn [split_lf] in Hl.
  - destruct cur as [|c0 cur0]; [destruct Hl|]. destruct Hl as [<-|[]].
    left. now apply in_rev.
  - destruct (c =? cLF) eqn:Ec.
    + destruct Hl as [<-|Hl].
      * left. now apply in_rev.
      * destruct (IH _ _ Hl _ Hx) as [[]|[A B]]. right. split; [now right|assumption].
    + destruct (IH _ _ Hl _ Hx) as [[<-|A]|[A B]].
      * right. split; [now left|assumption].
      * now left.
      * right. split; [now right|assumption].
Qed.

Lemma split_lf_first : forall s cur, cur <> [] ->
  exists tail rest, split_lf s cur = (rev cur ++ tail) :: rest.
Proof.
  induction s as [|c r IH]; intros cur Hc; cbn [split_lf].
  - destruct cur; [congruence|]. exists [], []. now rewrite app_nil_r.
  - destruct (c =? cLF).
    + exists [], (split_lf r []). now rewrite app_nil_r.
    + destruct (IH (c :: cur) ltac:(discriminate)) as (tail & rest & E).
      exists (c :: tail), rest. rewrite E. cbn [rev]. now rewrite <- app_assoc.
Qed.

Lemma strip_bom_first_id c : (match c with b :: _ => b =? 239 | [] => false end) = false ->
  strip_bom_first (split_lf c []) = split_lf c [].
Proof.
  intros Hb. destruct c as [|b r]; [reflexivity|]. cbn [split_lf].
  destruct (b =? cLF); [reflexivity|].
  destruct (split_lf_first r [b] ltac:(discriminate)) as (tail & rest & E). rewrite E.
  cbn [rev app strip_bom_first]. f_equal. unfold strip_bom.
  destruct tail as [|t1 [|t2 r2]]; try reflexivity. now rewrite Hb.
Qed.

Lemma content_lines c : content_ok c = true ->
  strip_bom_first (split_lf c []) = split_lf c [] /\
  scan_lines c [] = split_lf c [] /\ skip_bom c = c /\
  forall l, In l (split_lf c []) -> nospace l /\ name_line l = true.
Proof.
  unfold content_ok. rewrite !andb_true_iff. intros [[Hsp Hbom] Hnl].
  rewrite forallb_forall in Hsp. rewrite forallb_forall in Hnl.
  assert (Hcr : forall x, In x c -> (x =? cCR) = false).
  { intros x Hx. specialize (Hsp _ Hx). apply orb_true_iff in Hsp. destruct Hsp as [H|H].
    - apply N.eqb_eq in H. subst. reflexivity.
    - apply negb_true_iff in H. unfold is_space in H. rewrite !orb_false_iff in H. unfold cCR. tauto. }
  split; [apply strip_bom_first_id; now apply negb_true_iff in Hbom|].
  split; [apply scan_eq_split; [assumption|intros x []]|].
  split.
  { unfold skip_bom. destruct c as [|b [|b2 [|b3 r3]]]; try reflexivity.
    apply negb_true_iff in Hbom. now rewrite Hbom. }
  intros l Hl. split; [|now apply Hnl].
  intros x Hx. destruct (split_lf_chars _ _ _ Hl _ Hx) as [[]|[A B]].
  specialize (Hsp _ A). rewrite B in Hsp. cbn in Hsp. now apply negb_true_iff in Hsp.
Qed.

Lemma file_PR c dir : content_ok c = true -> Forall2 (PR dir) (read_ignore c dir) (gread c dir).
Proof.
  intros Hc. destruct (content_lines _ Hc) as (E0 & E1 & E2 & Hl).
  unfold read_ignore, gread. rewrite E1, E0, E2. clear E0 E1 E2.
  revert Hl. generalize (split_lf c []). intros L.
  induction L as [|l ls IH]; intros Hl; [constructor|].
  assert (Hl0 := Hl l (or_introl eq_refl)). destruct Hl0 as [Hns Hnl].
  assert (IH' := IH (fun l0 H => Hl l0 (or_intror H))).
  cbn [filter map flat_map].
  destruct l as [|c0 r0] eqn:El.
  - cbn. exact IH'.
  - rewrite keep_line_name by (assumption || discriminate).
    rewrite gline_name by (assumption || discriminate).
    destruct (c0 =? cHASH) eqn:Eh; cbn [negb map app]; [exact IH'|].
    constructor; [|exact IH'].
    apply line_PR; try assumption; discriminate.
Qed.

(* ------------------------------------------------------------------ *)
(* go-git's walk, phase-aligned with git's                             *)

Definition go_file (fs : files) (pre : list bytes) : list pat :=
  match file_at fs pre with Some c => read_ignore c pre | None => [] end.
Definition git_file (fs : files) (pre : list bytes) : list gpat :=
  match file_at fs pre with Some c => gread c pre | None => [] end.

(* ps: the patterns in scope when directory pre was entered (its own file not
   yet read); pre is known not to be excluded *)
Fixpoint gw (fs : files) (ps : list pat) (pre rest : list bytes) (path : list bytes) (isdir : bool) : bool :=
  let ps' := ps ++ go_file fs pre in
  match rest with
  | [] => false
  | [e] => matcher_match ps' path isdir
  | e :: rest' =>
    if matcher_match ps' (pre ++ [e]) true then true else gw fs ps' (pre ++ [e]) rest' path isdir
  end.

Lemma descend_eq fs s dir : sc_excluded s = false -> matcher_match (sc_pats s) dir true = false ->
  descend fs s dir = mkScope (sc_pats s ++ go_file fs dir) false.
Proof.
  intros He Hm. unfold descend, go_file. rewrite He, Hm. cbn [orb].
  destruct (file_at fs dir); [reflexivity|]. rewrite app_nil_r. destruct s; cbn in *. now subst.
Qed.

Lemma walk_excl_match fs rest s pre path isdir :
  sc_excluded s = true -> scope_match (walk fs s pre rest) path isdir = true.
Proof.
  intros H. unfold scope_match.
  assert (sc_excluded (walk fs s pre rest) = true).
  { revert s pre H. induction rest as [|e r IH]; intros s pre H; cbn [walk]; [exact H|].
    apply IH. unfold descend. now rewrite H. }
  now rewrite H0.
Qed.

Lemma go_phase fs path isdir : forall rest pre s, rest <> [] ->
  sc_excluded s = false -> matcher_match (sc_pats s) pre true = false ->
  scope_match (walk fs s pre rest) path isdir = gw fs (sc_pats s) pre rest path isdir.
Proof.
  induction rest as [|e rest IH]; intros pre s Hne He Hm; [congruence|].
  cbn [walk]. rewrite (descend_eq _ _ _ He Hm).
  destruct rest as [|e2 r].
  - cbn [walk gw]. unfold scope_match. reflexivity.
  - set (s' := mkScope (sc_pats s ++ go_file fs pre) false).
    change (gw fs (sc_pats s) pre (e :: e2 :: r) path isdir)
      with (if matcher_match (sc_pats s') (pre ++ [e]) true then true
            else gw fs (sc_pats s') (pre ++ [e]) (e2 :: r) path isdir).
    destruct (matcher_match (sc_pats s') (pre ++ [e]) true) eqn:Em.
    + cbn [walk]. apply walk_excl_match. unfold descend. rewrite Em. now rewrite orb_true_r.
    + apply IH; [discriminate|reflexivity|exact Em].
Qed.

Lemma pat_match_nil p d : pat_match p [] d = NoMatch.
Proof. reflexivity. Qed.

Lemma matcher_nil ps d : matcher_match ps [] d = false.
Proof.
  unfold matcher_match. induction (rev ps) as [|p r IH]; [reflexivity|]. cbn. exact IH.
Qed.

(* ------------------------------------------------------------------ *)
(* positive patterns only: the matchers are disjunctions               *)

Definition pmb (c : list bytes) (d : bool) (p : pat) : bool :=
  match pat_match p c d with NoMatch => false | _ => true end.

Lemma existsb_rev {A} (f : A -> bool) l : existsb f (rev l) = existsb f l.
Proof.
  induction l as [|x l IH]; [reflexivity|]. cbn [rev]. rewrite existsb_app, IH. cbn.
  rewrite orb_false_r. apply orb_comm.
Qed.

Lemma matcher_positive ps c d : (forall p, In p ps -> p_incl p = false) ->
  matcher_match ps c d = existsb (pmb c d) ps.
Proof.
  intros H. unfold matcher_match. rewrite <- (existsb_rev (pmb c d) ps).
  assert (H' : forall p, In p (rev ps) -> p_incl p = false).
  { intros p Hp. apply H. now apply in_rev. }
  induction (rev ps) as [|p r IH]; [reflexivity|].
  cbn [matcher_rev existsb]. unfold pmb at 1.
  assert (Hi := H' p (or_introl eq_refl)).
  destruct (pat_match p c d) eqn:E.
  - cbn. apply IH. intros q Hq. apply H'. now right.
  - reflexivity.
  - exfalso. unfold pat_match in E. rewrite Hi in E.
    destruct (Nat.leb _ _); [discriminate|]. destruct (strip_domain _ _); [|discriminate].
    destruct (if p_isglob p then _ else _); discriminate.
Qed.

Definition gex (gs : list gpat) (c : list bytes) (d : bool) : bool :=
  match glast gs c d with Some false => true | _ => false end.

Lemma glast_positive gs c d : (forall g, In g gs -> g_neg g = false) ->
  gex gs c d = existsb (fun g => gpat_match g c d) gs /\
  (match glast gs c d with Some neg => negb neg | None => false end) = gex gs c d.
Proof.
  intros H. unfold gex, glast. rewrite <- (existsb_rev _ gs).
  assert (H' : forall g, In g (rev gs) -> g_neg g = false).
  { intros g Hg. apply H. now apply in_rev. }
  induction (rev gs) as [|g r IH]; [split; reflexivity|].
  cbn [glast_rev existsb]. destruct (gpat_match g c d).
  - rewrite (H' g (or_introl eq_refl)). split; reflexivity.
  - apply IH. intros q Hq. apply H'. now right.
Qed.

Lemma existsb_corr {A B} (f : A -> bool) (h : B -> bool) (R : A -> B -> Prop) la lb :
  (forall a b, In a la -> R a b -> f a = h b) ->
  (forall a, In a la -> exists b, In b lb /\ R a b) ->
  (forall b, In b lb -> exists a, In a la /\ R a b) ->
  existsb f la = existsb h lb.
Proof.
  intros Hfh H1 H2.
  destruct (existsb f la) eqn:Ea.
  - apply existsb_exists in Ea. destruct Ea as [a [Ha Hf]].
    destruct (H1 _ Ha) as [b [Hb Hr]]. symmetry. apply existsb_exists. exists b. split; [assumption|].
    now rewrite <- (Hfh _ _ Ha Hr).
  - destruct (existsb h lb) eqn:Eb; [|reflexivity].
    apply existsb_exists in Eb. destruct Eb as [b [Hb Hh]].
    destruct (H2 _ Hb) as [a [Ha Hr]].
    assert (existsb f la = true) by (apply existsb_exists; exists a; split; [assumption|]; now rewrite (Hfh _ _ Ha Hr)).
    congruence.
Qed.

(* ------------------------------------------------------------------ *)
(* one pattern against pre ++ [e]                                      *)

Lemma strip_domain_app a x : strip_domain a (a ++ x) = Some x.
Proof. induction a as [|c a IH]; cbn; [reflexivity|]. now rewrite beq_refl. Qed.

Lemma simple_name_snoc g dironly d e : forall xs,
  simple_name_match g dironly d (xs ++ [e]) =
  existsb (wildmatch g) xs || (wildmatch g e && negb (dironly && negb d)).
Proof.
  induction xs as [|x xs IH]; cbn [app simple_name_match existsb].
  - destruct (wildmatch g e); [|reflexivity]. cbn. now rewrite andb_true_r.
  - destruct (wildmatch g x).
    + destruct (xs ++ [e]) eqn:E; [destruct xs; discriminate|]. cbn. now rewrite andb_false_r.
    + exact IH.
Qed.

(* what the walk knows about a go pattern when it stands in directory pre *)
Definition inv1 (pre : list bytes) (p : pat) : Prop :=
  exists body x, p_segs p = [body] /\ pre = p_dom p ++ x /\
                 forall comp, In comp x -> wildmatch body comp = false.

Lemma pm_step pre e d p g :
  inv1 pre p -> PR (p_dom p) p g ->
  pmb (pre ++ [e]) d p = (wildmatch (hd [] (p_segs p)) e && negb (p_dironly p && negb d)) /\
  gpat_match g (pre ++ [e]) d = (wildmatch (hd [] (p_segs p)) e && negb (p_dironly p && negb d)).
Proof.
  intros (body & x & Hsegs & Hpre & Hne) (Hincl & Hglob & _ & Hneg & Hnodir & Hmust & (body' & Hsegs' & Hbase)).
  rewrite Hsegs in Hsegs'. inversion Hsegs'; subst body'. rewrite Hsegs. cbn [hd].
  split.
  - unfold pmb, pat_match. rewrite Hpre, <- app_assoc.
    assert (Hlen : Nat.leb (List.length (p_dom p ++ x ++ [e])) (List.length (p_dom p)) = false).
    { apply Nat.leb_gt. rewrite !app_length. cbn. lia. }
    rewrite Hlen, strip_domain_app, Hglob, Hincl, Hsegs. cbn [hd].
    rewrite simple_name_snoc.
    assert (Hx : existsb (wildmatch body) x = false).
    { destruct (existsb (wildmatch body) x) eqn:E; [|reflexivity].
      apply existsb_exists in E. destruct E as [c [Hc Hw]]. rewrite (Hne _ Hc) in Hw. discriminate. }
    rewrite Hx. cbn [orb].
    destruct (wildmatch body e && negb (p_dironly p && negb d)); reflexivity.
  - unfold gpat_match. rewrite Hmust, Hnodir.
    unfold last_comp. rewrite last_last. rewrite Hbase.
    destruct (p_dironly p), d, (wildmatch body e); reflexivity.
Qed.

(* ------------------------------------------------------------------ *)
(* the two walks agree                                                 *)

Definition files_ok (fs : files) : Prop := forall dir c, file_at fs dir = Some c -> content_ok c = true.

Lemma names_case_ok excl fs : names_case excl fs = true ->
  files_ok fs /\ (forall c, excl = Some c -> content_ok c = true).
Proof.
  unfold names_case. rewrite andb_true_iff. intros [He Hf]. split.
  - intros dir c H. rewrite forallb_forall in Hf.
    induction fs as [|[d0 c0] r IH]; [discriminate|]. cbn [file_at] in H.
    destruct (path_eqb d0 dir).
    + inversion H; subst. exact (Hf (d0, c) (or_introl eq_refl)).
    + apply IH; [|exact H]. intros x Hx. apply Hf. now right.
  - intros c ->. exact He.
Qed.

Definition corr (ps : list pat) (gs : list gpat) : Prop :=
  (forall p, In p ps -> exists g, In g gs /\ PR (p_dom p) p g) /\
  (forall g, In g gs -> exists p, In p ps /\ PR (p_dom p) p g).

Lemma PR_dom dir p g : PR dir p g -> PR (p_dom p) p g.
Proof. intros H. assert (p_dom p = dir) by (destruct H as (_ & _ & H & _); exact H). now rewrite H0. Qed.

Lemma Forall2_corr dir ps gs : Forall2 (PR dir) ps gs -> corr ps gs.
Proof.
  induction 1 as [|p g ps gs H _ [IH1 IH2]]; [split; intros ? []|].
  split.
  - intros q [<-|Hq]; [exists g; split; [now left|eapply PR_dom; eassumption]|].
    destruct (IH1 _ Hq) as [g' [A B]]. exists g'. split; [now right|assumption].
  - intros q [<-|Hq]; [exists p; split; [now left|eapply PR_dom; eassumption]|].
    destruct (IH2 _ Hq) as [p' [A B]]. exists p'. split; [now right|assumption].
Qed.

Lemma file_corr fs pre : files_ok fs ->
  corr (go_file fs pre) (git_file fs pre) /\ (forall p, In p (go_file fs pre) -> p_dom p = pre).
Proof.
  intros Hok. unfold go_file, git_file. destruct (file_at fs pre) as [c|] eqn:E.
  - pose proof (file_PR c pre (Hok _ _ E)) as HF. split; [eapply Forall2_corr; eassumption|].
    intros p Hp. destruct (proj1 (Forall2_corr _ _ _ HF) _ Hp) as [g [_ Hpr]].
    clear - HF Hp. induction HF as [|p0 g0 ps gs H _ IH]; [destruct Hp|].
    destruct Hp as [<-|Hp]; [destruct H as (_ & _ & H & _); exact H|now apply IH].
  - split; [split; intros ? []|intros ? []].
Qed.

Lemma gwalk_unfold fs gs pre rest path isdir :
  gwalk fs gs pre rest path isdir =
  let gs' := gs ++ git_file fs pre in
  match rest with
  | [] => false
  | [e] => match glast gs' path isdir with Some neg => negb neg | None => false end
  | e :: rest' => if gex gs' (pre ++ [e]) true then true else gwalk fs gs' (pre ++ [e]) rest' path isdir
  end.
Proof.
  destruct rest as [|e [|e2 r]]; cbn [gwalk]; unfold git_file, gex;
    destruct (file_at fs pre); rewrite ?app_nil_r; try reflexivity.
  - destruct (glast _ _ true) as [[|]|]; reflexivity.
  - destruct (glast _ _ true) as [[|]|]; reflexivity.
Qed.

Lemma names_walk fs path isdir : files_ok fs ->
  forall rest pre ps gs, path = pre ++ rest ->
    (forall p, In p ps -> inv1 pre p) ->
    (forall p, In p ps -> exists g, In g (gs ++ git_file fs pre) /\ PR (p_dom p) p g) ->
    (forall g, In g gs -> exists p, In p ps /\ PR (p_dom p) p g) ->
    gw fs ps pre rest path isdir = gwalk fs gs pre rest path isdir.
Proof.
  intros Hok. induction rest as [|e rest IH]; intros pre ps gs Hpath Hinv Hc1 Hc2.
  { rewrite gwalk_unfold. reflexivity. }
  rewrite gwalk_unfold. cbv zeta.
  destruct (file_corr fs pre Hok) as [[Hf1 Hf2] Hfdom].
  set (ps' := ps ++ go_file fs pre). set (gs' := gs ++ git_file fs pre).
  assert (F1 : forall p, In p ps' -> inv1 pre p).
  { intros p Hp. apply in_app_or in Hp. destruct Hp as [Hp|Hp]; [now apply Hinv|].
    destruct (Hf1 _ Hp) as [g [_ (_ & _ & _ & _ & _ & _ & (body & Hs & _))]].
    exists body, []. split; [assumption|]. split; [now rewrite (Hfdom _ Hp), app_nil_r|intros ? []]. }
  assert (F2a : forall p, In p ps' -> exists g, In g gs' /\ PR (p_dom p) p g).
  { intros p Hp. apply in_app_or in Hp. destruct Hp as [Hp|Hp]; [now apply Hc1|].
    destruct (Hf1 _ Hp) as [g [A B]]. exists g. split; [apply in_or_app; now right|assumption]. }
  assert (F2b : forall g, In g gs' -> exists p, In p ps' /\ PR (p_dom p) p g).
  { intros g Hg. apply in_app_or in Hg. destruct Hg as [Hg|Hg].
    - destruct (Hc2 _ Hg) as [p [A B]]. exists p. split; [apply in_or_app; now left|assumption].
    - destruct (Hf2 _ Hg) as [p [A B]]. exists p. split; [apply in_or_app; now right|assumption]. }
  assert (F3 : forall p, In p ps' -> p_incl p = false).
  { intros p Hp. destruct (F2a _ Hp) as [g [_ (H & _)]]. exact H. }
  assert (F4 : forall g, In g gs' -> g_neg g = false).
  { intros g Hg. destruct (F2b _ Hg) as [p [_ (_ & _ & _ & H & _)]]. exact H. }
  assert (Hcheck : forall d, matcher_match ps' (pre ++ [e]) d = gex gs' (pre ++ [e]) d).
  { intros d. rewrite (matcher_positive _ _ _ F3).
    rewrite (proj1 (glast_positive gs' (pre ++ [e]) d F4)).
    apply (existsb_corr _ _ (fun p g => PR (p_dom p) p g)); try assumption.
    intros p g Hp Hpr. destruct (pm_step pre e d p g (F1 _ Hp) Hpr) as [A B]. now rewrite A, B. }
  destruct rest as [|e2 r].
  - cbn [gw]. fold ps'. rewrite Hpath, Hcheck.
    symmetry. exact (proj2 (glast_positive gs' (pre ++ [e]) isdir F4)).
  - change (gw fs ps pre (e :: e2 :: r) path isdir)
      with (if matcher_match ps' (pre ++ [e]) true then true else gw fs ps' (pre ++ [e]) (e2 :: r) path isdir).
    rewrite Hcheck. destruct (gex gs' (pre ++ [e]) true) eqn:Eg; [reflexivity|].
    apply IH.
    + rewrite Hpath, <- app_assoc. reflexivity.
    + intros p Hp. destruct (F1 _ Hp) as (body & x & Hs & Hpre & Hne).
      exists body, (x ++ [e]). split; [assumption|]. split; [now rewrite Hpre, app_assoc|].
      intros comp Hc. apply in_app_or in Hc. destruct Hc as [Hc|[<-|[]]]; [now apply Hne|].
      (* the directory pre ++ [e] was not excluded, so p does not match e *)
      pose proof (Hcheck true) as Hck. rewrite Eg in Hck.
      rewrite (matcher_positive _ _ _ F3) in Hck.
      assert (Hp0 : pmb (pre ++ [e]) true p = false).
      { destruct (pmb (pre ++ [e]) true p) eqn:E; [|reflexivity].
        assert (existsb (pmb (pre ++ [e]) true) ps' = true) by (apply existsb_exists; eauto). congruence. }
      destruct (F2a _ Hp) as [g [_ Hpr]].
      destruct (pm_step pre e true p g (F1 _ Hp) Hpr) as [A _]. rewrite A, Hs in Hp0. cbn [hd negb] in Hp0.
      now rewrite andb_false_r, andb_true_r in Hp0.
    + intros p Hp. destruct (F2a _ Hp) as [g [A B]]. exists g. split; [apply in_or_app; now left|assumption].
    + exact F2b.
Qed.

Theorem names_eq_git excl fs path isdir :
  names_case excl fs = true -> ignored excl fs path isdir = git_ignored excl fs path isdir.
Proof.
  intros Hn. destruct (names_case_ok _ _ Hn) as [Hok Hex].
  unfold ignored, git_ignored.
  destruct path as [|e0 rest0] eqn:Ep.
  { cbn [walk]. unfold scope_match. cbn [sc_excluded sc_pats]. rewrite matcher_nil.
    rewrite gwalk_unfold. reflexivity. }
  rewrite <- Ep.
  rewrite go_phase; [|rewrite Ep; discriminate|reflexivity|apply matcher_nil].
  cbn [sc_pats].
  set (ge := match excl with Some c => gread c [] | None => [] end).
  set (pe := match excl with Some c => read_ignore c [] | None => [] end).
  assert (Hroot : root_patterns excl fs = pe ++ go_file fs []) by reflexivity.
  rewrite Hroot.
  assert (Hec : corr pe ge /\ forall p, In p pe -> p_dom p = []).
  { unfold pe, ge. destruct excl as [c|].
    - pose proof (file_PR c [] (Hex _ eq_refl)) as HF. split; [eapply Forall2_corr; eassumption|].
      intros p Hp. clear - HF Hp. induction HF as [|p0 g0 ps gs H _ IH]; [destruct Hp|].
      destruct Hp as [<-|Hp]; [destruct H as (_ & _ & H & _); exact H|now apply IH].
    - split; [split; intros ? []|intros ? []]. }
  destruct Hec as [[He1 He2] Hedom].
  destruct (file_corr fs [] Hok) as [[Hf1 Hf2] Hfdom].
  apply names_walk; try assumption.
  - reflexivity.
  - intros p Hp.
    assert (Hd : p_dom p = []) by (apply in_app_or in Hp; destruct Hp; auto).
    assert (Hs : exists body, p_segs p = [body]).
    { apply in_app_or in Hp. destruct Hp as [Hp|Hp].
      - destruct (He1 _ Hp) as [g [_ (_ & _ & _ & _ & _ & _ & (body & Hs & _))]]. eauto.
      - destruct (Hf1 _ Hp) as [g [_ (_ & _ & _ & _ & _ & _ & (body & Hs & _))]]. eauto. }
    destruct Hs as [body Hs]. exists body, []. rewrite Hd. split; [assumption|]. split; [reflexivity|intros ? []].
  - intros p Hp. apply in_app_or in Hp. destruct Hp as [Hp|Hp].
    + destruct (He1 _ Hp) as [g [A B]]. exists g. split; [apply in_or_app; now left|assumption].
    + destruct (Hf1 _ Hp) as [g [A B]]. exists g. split; [apply in_or_app; now right|assumption].
  - intros g Hg. destruct (He2 _ Hg) as [p [A B]]. exists p. split; [apply in_or_app; now left|assumption].
Qed.
