(* Proofs/C52Lists.v — list/byte lemmas for C52: cut, cut_last, hex, decimal. *)
From Coq Require Import List NArith ZArith Bool Lia ZifyBool ZifyNat ZifyN.
From GoGit Require Import Base.Out Model.Reflog.
Import ListNotations.
Local Open Scope N_scope.

(* ------------------------------------------------------------ none_of *)
Definition lacks (c : N) (s : bytes) : bool := forallb (fun x => negb (x =? c)) s.

Lemma lacks_app c a b : lacks c (a ++ b) = lacks c a && lacks c b.
Proof. apply forallb_app. Qed.

Lemma lacks_cons c x s : lacks c (x :: s) = negb (x =? c) && lacks c s.
Proof. reflexivity. Qed.

Lemma forallb_impl {A} (p q : A -> bool) l :
  (forall x, p x = true -> q x = true) -> forallb p l = true -> forallb q l = true.
Proof.
  intros H; induction l as [|x l IH]; cbn; [easy|].
  rewrite !andb_true_iff; intros [? ?]; auto.
Qed.

Lemma cut_app c a b : lacks c a = true -> cut c (a ++ c :: b) = Some (a, b).
Proof.
  induction a as [|x a IH]; cbn [app cut]; intros H.
  - now rewrite N.eqb_refl.
  - rewrite lacks_cons in H. apply andb_true_iff in H as [Hx Ha].
    destruct (x =? c); [discriminate|]. now rewrite IH.
Qed.

Lemma cut_none c s : lacks c s = true -> cut c s = None.
Proof.
  induction s as [|x s IH]; cbn [cut]; intros H; [easy|].
  rewrite lacks_cons in H. apply andb_true_iff in H as [Hx Hs].
  destruct (x =? c); [discriminate|]. now rewrite IH.
Qed.

Lemma cut_last_none c s : lacks c s = true -> cut_last c s = None.
Proof.
  induction s as [|x s IH]; cbn [cut_last]; intros H; [easy|].
  rewrite lacks_cons in H. apply andb_true_iff in H as [Hx Hs].
  rewrite IH by easy. now destruct (x =? c).
Qed.

Lemma cut_last_app c a b : lacks c b = true -> cut_last c (a ++ c :: b) = Some (a, b).
Proof.
  intros Hb. induction a as [|x a IH]; cbn [app cut_last].
  - rewrite cut_last_none by easy. now rewrite N.eqb_refl.
  - now rewrite IH.
Qed.

(* ------------------------------------------------------------ finite checks *)
Lemma forall_below (P : N -> bool) (k : nat) :
  forallb P (map N.of_nat (seq 0 k)) = true -> forall n, n < N.of_nat k -> P n = true.
Proof.
  intros H n Hn. rewrite forallb_forall in H. apply H.
  apply in_map_iff. exists (N.to_nat n). split; [lia|]. apply in_seq. lia.
Qed.

Fixpoint bytes_eqb (a b : bytes) : bool :=
  match a, b with
  | [], [] => true
  | x :: a', y :: b' => (x =? y) && bytes_eqb a' b'
  | _, _ => false
  end.
Lemma bytes_eqb_eq a b : bytes_eqb a b = true <-> a = b.
Proof.
  revert b; induction a as [|x a IH]; intros [|y b]; cbn; try easy.
  rewrite andb_true_iff, IH, N.eqb_eq. split; [intros [-> ->]|intros [= -> ->]]; auto.
Qed.

(* ------------------------------------------------------------ hex *)
Definition bytes_ok (b : bytes) : bool := forallb (fun c => c <? 256) b.
Definition is_lowhex (c : N) : bool := ((48 <=? c) && (c <=? 57)) || ((97 <=? c) && (c <=? 102)).

Lemma hexdig_val n : n < 16 -> hexval_opt (hexdig n) = Some n /\ is_lowhex (hexdig n) = true.
Proof.
  intros H.
  pose (P := fun n => match hexval_opt (hexdig n) with Some m => (m =? n) && is_lowhex (hexdig n) | None => false end).
  assert (K : P n = true).
  { apply (forall_below P 16); [vm_compute; reflexivity | exact H]. }
  unfold P in K. destruct (hexval_opt (hexdig n)); [|discriminate].
  apply andb_true_iff in K as [K1 K2]. apply N.eqb_eq in K1. now subst.
Qed.

Lemma hex_dec_enc b : bytes_ok b = true -> hex_dec (hex_enc b) = Some b.
Proof.
  induction b as [|c b IH]; cbn [hex_enc hex_dec bytes_ok forallb]; [easy|].
  intros H. apply andb_true_iff in H as [Hc Hb]. apply N.ltb_lt in Hc.
  assert (H1 : c / 16 < 16) by (apply N.div_lt_upper_bound; lia).
  assert (H2 : c mod 16 < 16) by (apply N.mod_lt; lia).
  destruct (hexdig_val _ H1) as [-> _]. destruct (hexdig_val _ H2) as [-> _].
  fold (bytes_ok b) in Hb. rewrite (IH Hb). f_equal. f_equal.
  pose proof (N.div_mod c 16). lia.
Qed.

Lemma hex_enc_length b : List.length (hex_enc b) = (2 * List.length b)%nat.
Proof. induction b; cbn [hex_enc List.length]; lia. Qed.

Lemma hex_enc_lowhex b : bytes_ok b = true -> forallb is_lowhex (hex_enc b) = true.
Proof.
  induction b as [|c b IH]; cbn [hex_enc bytes_ok forallb]; [easy|].
  intros H. apply andb_true_iff in H as [Hc Hb]. apply N.ltb_lt in Hc.
  assert (H1 : c / 16 < 16) by (apply N.div_lt_upper_bound; lia).
  assert (H2 : c mod 16 < 16) by (apply N.mod_lt; lia).
  destruct (hexdig_val _ H1) as [_ ->]. destruct (hexdig_val _ H2) as [_ ->].
  now rewrite IH.
Qed.

Lemma lowhex_lacks c s : is_lowhex c = false -> forallb is_lowhex s = true -> lacks c s = true.
Proof.
  intros Hc. apply forallb_impl. intros x Hx.
  destruct (x =? c) eqn:E; [|easy]. apply N.eqb_eq in E. subst. congruence.
Qed.

(* ------------------------------------------------------------ decimal *)
Definition all_digits (s : bytes) : bool := forallb is_digit s.

Lemma digits_val_app a b acc :
  digits_val (a ++ b) acc = match digits_val a acc with Some v => digits_val b v | None => None end.
Proof.
  revert acc; induction a as [|c a IH]; intros acc; cbn [app digits_val]; [easy|].
  destruct (is_digit c); [apply IH|easy].
Qed.

(* value of a reversed digit list *)
Fixpoint rev_val (l : bytes) : N :=
  match l with [] => 0 | d :: r => (d - 48) + 10 * rev_val r end.

Lemma digits_val_rev l acc :
  all_digits l = true ->
  digits_val (rev l) acc = Some (acc * 10 ^ N.of_nat (List.length l) + rev_val l).
Proof.
  revert acc; induction l as [|d l IH]; intros acc H.
  - cbn. f_equal. lia.
  - cbn [all_digits forallb] in H. apply andb_true_iff in H as [Hd Hl].
    cbn [rev]. rewrite digits_val_app, (IH acc Hl). cbn [digits_val]. rewrite Hd. f_equal.
    cbn [List.length rev_val]. rewrite Nat2N.inj_succ, N.pow_succ_r'. lia.
Qed.

Lemma dec_digits_rev_spec f n :
  n < 10 ^ N.of_nat f -> (0 < f)%nat ->
  all_digits (dec_digits_rev f n) = true /\ rev_val (dec_digits_rev f n) = n /\ dec_digits_rev f n <> [].
Proof.
  revert n; induction f as [|f IH]; intros n Hn Hf; [lia|].
  cbn [dec_digits_rev].
  assert (Hm : n mod 10 < 10) by (apply N.mod_lt; lia).
  assert (Hd : is_digit (48 + n mod 10) = true) by (unfold is_digit; lia).
  pose proof (N.div_mod n 10 ltac:(lia)) as Hdm.
  destruct (n / 10 =? 0) eqn:E.
  - apply N.eqb_eq in E. cbn [all_digits forallb rev_val]. rewrite Hd. repeat split; [lia|easy].
  - apply N.eqb_neq in E.
    destruct f as [|f'].
    { cbn in Hn. assert (n / 10 = 0) by (apply N.div_small; lia). lia. }
    destruct (IH (n / 10)) as (A & B & C).
    { rewrite Nat2N.inj_succ, N.pow_succ_r' in Hn. apply N.div_lt_upper_bound; lia. }
    { lia. }
    cbn [all_digits forallb rev_val]. fold (all_digits (dec_digits_rev (S f') (n / 10))).
    rewrite Hd, A, B. repeat split; [lia|easy].
Qed.

Lemma size_bound n : n < 10 ^ N.of_nat (S (N.to_nat (N.size n))).
Proof.
  destruct (N.eq_dec n 0) as [->|Hn]; [cbn; lia|].
  assert (n < 2 ^ N.size n) by (apply N.size_gt).
  assert (2 ^ N.size n <= 10 ^ N.size n) by (apply N.pow_le_mono_l; lia).
  rewrite Nat2N.inj_succ, N2Nat.id, N.pow_succ_r'.
  assert (0 < 10 ^ N.size n) by (apply N.neq_0_lt_0, N.pow_nonzero; lia). lia.
Qed.

Lemma dec_N_spec n : all_digits (dec_N n) = true /\ digits_val (dec_N n) 0 = Some n /\ dec_N n <> [].
Proof.
  unfold dec_N.
  destruct (dec_digits_rev_spec (S (N.to_nat (N.size n))) n (size_bound n) ltac:(lia)) as (A & B & C).
  repeat split.
  - unfold all_digits. rewrite forallb_forall. intros x Hx. apply in_rev in Hx.
    unfold all_digits in A. rewrite forallb_forall in A. auto.
  - rewrite (digits_val_rev _ 0 A), B. f_equal.
  - intros H. apply C. apply (f_equal (@rev N)) in H. now rewrite rev_involutive in H.
Qed.

Lemma digit_props c : is_digit c = true ->
  is_ascii_space c = false /\ c <? 128 = true /\ (c =? SP) = false /\ (c =? TAB) = false /\ (c =? LF) = false
  /\ (c =? LT) = false /\ (c =? GT) = false /\ (c =? PLUS) = false /\ (c =? MINUS) = false /\ (c =? 0) = false.
Proof. unfold is_digit, is_ascii_space, SP, TAB, LF, LT, GT, PLUS, MINUS. intros H. repeat split; lia. Qed.

Lemma parse_int64_dec z : (- 2 ^ 63 <= z < 2 ^ 63)%Z -> parse_int64 (dec_Z z) = Some z.
Proof.
  intros Hz. destruct (dec_N_spec (Z.to_N z)) as (A & B & C).
  destruct z as [|p|p]; cbn [dec_Z].
  - vm_compute. reflexivity.
  - cbn [Z.to_N] in *. unfold parse_int64.
    destruct (dec_N (N.pos p)) as [|c r] eqn:E; [easy|].
    cbn [all_digits forallb] in A. apply andb_true_iff in A as [Ac _].
    destruct (digit_props c Ac) as (_ & _ & _ & _ & _ & _ & _ & P & M & _).
    rewrite P, M, B.
    destruct (N.pos p <? 2 ^ 63) eqn:L; [reflexivity|]. lia.
  - destruct (dec_N_spec (N.pos p)) as (A' & B' & C').
    unfold parse_int64. change (MINUS :: dec_N (N.pos p)) with ([MINUS] ++ dec_N (N.pos p)).
    cbn [app]. change (MINUS =? PLUS) with false. change (MINUS =? MINUS) with true. cbv iota.
    destruct (dec_N (N.pos p)) as [|c r] eqn:E; [easy|]. rewrite B'.
    destruct (N.pos p <=? 2 ^ 63) eqn:L; [reflexivity|]. lia.
Qed.
