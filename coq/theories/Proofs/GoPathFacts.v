(* Proofs/GoPathFacts.v — facts about the path algebra of Model/GoPath.v *)
From Coq Require Import List NArith Arith Lia Bool.
From GoGit Require Import Base.Out Model.GoPath.
Import ListNotations.
Local Open Scope N_scope.

Lemma beq_eq a b : beq a b = true <-> a = b.
Proof.
  revert b. induction a as [|x a IH]; destruct b as [|y b]; cbn; split; try congruence; intro H.
  - apply andb_true_iff in H as [H1 H2]. apply N.eqb_eq in H1. apply IH in H2. congruence.
  - inversion H; subst. rewrite N.eqb_refl. cbn. now apply IH.
Qed.

Lemma beq_refl a : beq a a = true.
Proof. now apply beq_eq. Qed.

Lemma beq_neq a b : beq a b = false <-> a <> b.
Proof.
  split; intro H.
  - intro E. apply beq_eq in E. congruence.
  - destruct (beq a b) eqn:E; [apply beq_eq in E; contradiction | reflexivity].
Qed.

(* a component: no separator inside *)
Definition nosl (c : bytes) : Prop := ~ In SL c.
(* a normal component: what a cleaned rooted path is made of *)
Definition normal (c : bytes) : Prop := c <> [] /\ c <> DOT /\ c <> DOTDOT /\ nosl c.

(* ---------- split / join ---------- *)

Lemma split_sl_nonempty s : split_sl s <> [].
Proof.
  destruct s as [|c r]; cbn; [congruence|].
  destruct (c =? SL); [congruence|]. destruct (split_sl r); congruence.
Qed.

Lemma split_sl_nosl s : Forall nosl (split_sl s).
Proof.
  induction s as [|c r IH]; cbn.
  - constructor; [intros []|constructor].
  - destruct (c =? SL) eqn:E.
    + constructor; [intros []|assumption].
    + destruct (split_sl r) as [|h t] eqn:Er.
      * constructor; [|constructor]. intros [H|[]]. subst. now rewrite N.eqb_refl in E.
      * inversion IH; subst. constructor; [|assumption].
        intros [H|H]; [subst; now rewrite N.eqb_refl in E | contradiction].
Qed.

Lemma split_sl_app a b : split_sl (a ++ SL :: b) = split_sl a ++ split_sl b.
Proof.
  induction a as [|c a IH]; cbn [app split_sl].
  - rewrite N.eqb_refl. reflexivity.
  - destruct (c =? SL); [now rewrite IH|].
    rewrite IH. destruct (split_sl a) as [|h t] eqn:Ea; [now apply split_sl_nonempty in Ea|].
    reflexivity.
Qed.

Lemma split_sl_nosl_id c : nosl c -> split_sl c = [c].
Proof.
  induction c as [|x c IH]; intro H; [reflexivity|]. cbn.
  destruct (x =? SL) eqn:E; [apply N.eqb_eq in E; subst; exfalso; apply H; now left|].
  rewrite IH; [reflexivity|]. intro Hin. apply H. now right.
Qed.

Lemma split_join cs : cs <> [] -> Forall nosl cs -> split_sl (join_sl cs) = cs.
Proof.
  destruct cs as [|c r]; [congruence|]. intros _ H. inversion H as [|? ? Hc Hr]; subst. clear H.
  revert c Hc. induction r as [|d r IH]; intros c Hc; cbn [join_sl flat_map app].
  - rewrite app_nil_r. now apply split_sl_nosl_id.
  - inversion Hr; subst. rewrite split_sl_app. rewrite split_sl_nosl_id by assumption.
    cbn [app]. f_equal. now apply (IH H2 d).
Qed.

Lemma join_sl_app a b : a <> [] -> join_sl (a ++ b) = join_sl a ++ flat_map (fun x => SL :: x) b.
Proof.
  destruct a as [|c r]; [congruence|]. intros _. cbn [app join_sl].
  rewrite flat_map_app, app_assoc. reflexivity.
Qed.

Lemma trim_left_join cs : Forall normal cs -> trim_left_sl (join_sl cs) = join_sl cs.
Proof.
  destruct cs as [|c r]; [reflexivity|]. intro H. inversion H as [|? ? Hc _]; subst.
  destruct Hc as (Hne & _ & _ & Hns). destruct c as [|x c]; [congruence|].
  cbn. destruct (x =? SL) eqn:E; [|reflexivity].
  apply N.eqb_eq in E; subst. exfalso. apply Hns. now left.
Qed.

(* ---------- reduce ---------- *)

Lemma normal_flags c : normal c -> is_nil c = false /\ beq c DOT = false /\ beq c DOTDOT = false.
Proof.
  intros (H1 & H2 & H3 & _). repeat split.
  - destruct c; [congruence|reflexivity].
  - now apply beq_neq.
  - now apply beq_neq.
Qed.

(* skippable: empty or "." *)
Definition skip (c : bytes) : bool := is_nil c || beq c DOT.

Lemma reduce_normal_or_skip b cs : forall st,
  Forall (fun c => skip c = true \/ normal c) cs ->
  reduce b st cs = rev st ++ filter (fun c => negb (skip c)) cs.
Proof.
  induction cs as [|c r IH]; intros st H; cbn [reduce filter].
  - now rewrite app_nil_r.
  - inversion H as [|? ? Hc Hr]; subst. fold (skip c). destruct Hc as [Hc|Hc].
    + rewrite Hc. cbn [negb]. now apply IH.
    + destruct (normal_flags _ Hc) as (F1 & F2 & F3). unfold skip. rewrite F1, F2, F3. cbn [orb negb].
      rewrite IH by assumption. cbn [rev]. now rewrite <- app_assoc.
Qed.

Lemma reduce_normal b cs st : Forall normal cs -> reduce b st cs = rev st ++ cs.
Proof.
  intro H. rewrite reduce_normal_or_skip.
  - f_equal. induction H as [|c r Hc Hr IH]; [reflexivity|]. cbn [filter].
    destruct (normal_flags _ Hc) as (F1 & F2 & _). unfold skip at 1. rewrite F1, F2. cbn. now f_equal.
  - eapply Forall_impl; [|exact H]. intros; now right.
Qed.

(* a rooted reduction only ever produces normal components *)
Lemma reduce_rooted_normal cs : forall st,
  Forall normal st -> Forall nosl cs -> Forall normal (reduce true st cs).
Proof.
  induction cs as [|c r IH]; intros st Hst Hcs; cbn [reduce].
  - apply Forall_rev. assumption.
  - inversion Hcs as [|? ? Hc Hr]; subst.
    destruct (is_nil c) eqn:E1; cbn [orb]; [now apply IH|].
    destruct (beq c DOT) eqn:E2; [now apply IH|].
    destruct (beq c DOTDOT) eqn:E3.
    + destruct st as [|top st']; [now apply IH|].
      inversion Hst as [|? ? Htop Hst']; subst.
      destruct (normal_flags _ Htop) as (_ & _ & F). rewrite F. now apply IH.
    + apply IH; [|assumption]. constructor; [|assumption].
      repeat split; try assumption.
      * destruct c; [discriminate|congruence].
      * now apply beq_neq.
      * now apply beq_neq.
Qed.

(* a relative reduction whose stack has ".." at the bottom keeps it there *)
Lemma reduce_bottom_dd cs : forall st, exists U, reduce false (st ++ [DOTDOT]) cs = DOTDOT :: U.
Proof.
  induction cs as [|c r IH]; intro st; cbn [reduce].
  - rewrite rev_app_distr. cbn. eauto.
  - destruct (is_nil c || beq c DOT); [apply IH|].
    destruct (beq c DOTDOT).
    + destruct st as [|top st']; cbn [app].
      * cbn [beq N.eqb Pos.eqb andb]. apply (IH [c]).
      * destruct (beq top DOTDOT); [apply (IH (c :: top :: st'))|apply IH].
    + apply (IH (c :: st)).
Qed.

(* if the relative reduction of cs ends without a leading "..", the rooted
   reduction on top of any base never touches the base *)
Lemma reduce_rel_rooted cs : forall ns base,
  Forall normal ns -> Forall nosl cs ->
  (forall U, reduce false ns cs <> DOTDOT :: U) ->
  reduce true (ns ++ base) cs = rev base ++ reduce false ns cs
  /\ Forall normal (reduce false ns cs).
Proof.
  induction cs as [|c r IH]; intros ns base Hns Hcs Hnd; cbn [reduce] in *.
  - rewrite rev_app_distr. split; [reflexivity|]. now apply Forall_rev.
  - inversion Hcs as [|? ? Hc Hr]; subst.
    destruct (is_nil c || beq c DOT) eqn:E1; [now apply IH|].
    destruct (beq c DOTDOT) eqn:E3.
    + destruct ns as [|top ns']; cbn [app].
      * exfalso. destruct (reduce_bottom_dd r []) as [U HU]. cbn [app] in HU.
        apply beq_eq in E3; subst c. apply (Hnd U). exact HU.
      * inversion Hns as [|? ? Htop Hns']; subst.
        destruct (normal_flags _ Htop) as (_ & _ & F). rewrite F in *. now apply IH.
    + apply orb_false_iff in E1 as [E1 E2].
      apply (IH (c :: ns) base); try assumption.
      constructor; [|assumption]. repeat split; try assumption.
      * destruct c; [discriminate|congruence].
      * now apply beq_neq.
      * now apply beq_neq.
Qed.

(* leading separators do not matter to the reduction *)
Lemma reduce_trim_left b st s : reduce b st (split_sl s) = reduce b st (split_sl (trim_left_sl s)).
Proof.
  induction s as [|c r IH]; [reflexivity|]. cbn [trim_left_sl].
  destruct (c =? SL) eqn:E; [|reflexivity].
  cbn [split_sl]. rewrite E. cbn [reduce is_nil orb]. exact IH.
Qed.

(* ---------- good roots: clean absolute paths other than "/" ---------- *)

Definition good_root (R : bytes) : bool := is_abs R && beq (clean R) R && negb (beq R [SL]).

Lemma good_root_shape R : good_root R = true ->
  exists rs, rs <> [] /\ Forall normal rs /\ R = SL :: join_sl rs.
Proof.
  unfold good_root. intro H. apply andb_true_iff in H as [H H3]. apply andb_true_iff in H as [H1 H2].
  apply beq_eq in H2. apply negb_true_iff, beq_neq in H3.
  destruct R as [|c R']; [discriminate|]. unfold clean in H2. rewrite H1 in H2.
  set (rs := reduce true [] (split_sl (c :: R'))) in *.
  exists rs. split; [|split].
  - intro E. rewrite E in H2. cbn in H2. congruence.
  - apply reduce_rooted_normal; [constructor|apply split_sl_nosl].
  - now symmetry.
Qed.

Lemma normal_nosl cs : Forall normal cs -> Forall nosl cs.
Proof. apply Forall_impl. now intros c (_ & _ & _ & H). Qed.

Lemma filter_nonnil_normal cs : Forall normal cs -> filter (fun c => negb (is_nil c)) cs = cs.
Proof.
  induction 1 as [|d t Hd Ht IH]; [reflexivity|]. cbn [filter].
  destruct (normal_flags _ Hd) as (F & _). rewrite F. cbn [negb]. now f_equal.
Qed.

Lemma comps_rooted rs : Forall normal rs -> comps (SL :: join_sl rs) = rs.
Proof.
  intro H. unfold comps. destruct rs as [|c r].
  - reflexivity.
  - replace (SL :: join_sl (c :: r)) with ([] ++ SL :: join_sl (c :: r)) by reflexivity.
    rewrite split_sl_app, split_join; [|congruence|now apply normal_nosl].
    change (split_sl [] ++ c :: r) with ([] :: c :: r).
    change (filter (fun c0 => negb (is_nil c0)) ([] :: c :: r)) with (filter (fun c0 => negb (is_nil c0)) (c :: r)).
    now apply filter_nonnil_normal.
Qed.

(* the central computation: cleaning R/<skippable-or-normal components> *)
Lemma clean_under rs cs :
  rs <> [] -> Forall normal rs -> cs <> [] ->
  Forall (fun c => skip c = true \/ normal c) cs ->
  clean ((SL :: join_sl rs) ++ SL :: join_sl cs)
  = (SL :: join_sl rs) ++ flat_map (fun x => SL :: x) (filter (fun c => negb (skip c)) cs).
Proof.
  intros Hrs Hn Hcs Hc. unfold clean. cbn [app is_abs]. rewrite N.eqb_refl.
  assert (Hnosl : Forall nosl cs).
  { eapply Forall_impl; [|exact Hc]. intros c [Hs|Hs].
    - unfold skip in Hs. apply orb_true_iff in Hs as [Hs|Hs].
      + destruct c; [intros []|discriminate].
      + apply beq_eq in Hs; subst. intros [E|[]]. discriminate.
    - now destruct Hs as (_ & _ & _ & ?). }
  replace (SL :: join_sl rs ++ SL :: join_sl cs) with ([] ++ SL :: (join_sl rs ++ SL :: join_sl cs)) by reflexivity.
  rewrite split_sl_app, split_sl_app, !split_join; try assumption; [|now apply normal_nosl].
  cbn [split_sl app reduce is_nil orb].
  rewrite reduce_normal_or_skip.
  - cbn [rev app]. rewrite filter_app.
    assert (E : filter (fun c => negb (skip c)) rs = rs).
    { clear Hrs. induction Hn as [|d t Hd Ht IH]; [reflexivity|]. cbn [filter].
      destruct (normal_flags _ Hd) as (F1 & F2 & _). unfold skip at 1. rewrite F1, F2. cbn. now f_equal. }
    rewrite E. rewrite join_sl_app by assumption. reflexivity.
  - apply Forall_app. split; [|assumption]. eapply Forall_impl; [|exact Hn]. intros; now right.
Qed.

Lemma filter_skip_normal cs : Forall (fun c => skip c = true \/ normal c) cs ->
  Forall normal (filter (fun c => negb (skip c)) cs).
Proof.
  induction 1 as [|c r Hc Hr IH]; cbn [filter]; [constructor|].
  destruct Hc as [Hc|Hc].
  - rewrite Hc. exact IH.
  - destruct (normal_flags _ Hc) as (F1 & F2 & _). unfold skip. rewrite F1, F2. cbn. now constructor.
Qed.
