(* Proofs/C22.v — the walker's seen set contains everything live; Prune and
   RepackObjects keep every live object. *)
From Coq Require Import List NArith ZArith Arith Lia Bool.
From GoGit Require Import Base.Out Gen.C22 Model.Gc Spec.Reach.
Import ListNotations.
Local Open Scope N_scope.

(* ---------- well-formedness of repository content (boolean) ---------- *)

Definition blob_or_unknown (r : repo) (h : oid) : bool :=
  match assoc r.(objs) h with Some OBlob | None => true | _ => false end.

(* a tree entry with a file mode names a blob *)
Definition wf_modes (r : repo) : bool :=
  forallb (fun o => match snd o with
                    | OTree es => forallb (fun e => negb (is_file_mode (fst e)) || blob_or_unknown r (snd e)) es
                    | _ => true
                    end) r.(objs).

(* a (non-gitlink) index entry names a blob *)
Definition wf_index (r : repo) : bool :=
  forallb (fun e => fst e || blob_or_unknown r (snd e)) r.(index).

(* ---------- basics ---------- *)

Lemma mem_In h l : mem h l = true <-> In h l.
Proof.
  unfold mem. rewrite existsb_exists. split.
  - intros (x & Hx & E). apply N.eqb_eq in E. now subst.
  - intro H. exists h. split; [assumption|apply N.eqb_refl].
Qed.

Lemma mem_nIn h l : mem h l = false <-> ~ In h l.
Proof.
  split.
  - intros E H. apply mem_In in H. congruence.
  - intro H. destruct (mem h l) eqn:E; [apply mem_In in E; contradiction|reflexivity].
Qed.

Lemma assoc_In {A} (l : list (oid * A)) h v : assoc l h = Some v -> In (h, v) l.
Proof.
  induction l as [|[k w] l IH]; cbn; [discriminate|].
  destruct (k =? h) eqn:E.
  - intro H. inversion H; subst. apply N.eqb_eq in E. subst. now left.
  - intro H. right. now apply IH.
Qed.

Lemma get_assoc r h o : get r h = Some o -> assoc r.(objs) h = Some o.
Proof. unfold get. destruct (stored r h); [auto|discriminate]. Qed.

Lemma has_get r h : has r h = false <-> get r h = None.
Proof. unfold has. destruct (get r h); split; congruence. Qed.

Lemma blob_no_child r h c : blob_or_unknown r h = true -> ~ child r h c.
Proof.
  unfold blob_or_unknown, child. intro H.
  destruct (get r h) as [o|] eqn:E; [|auto].
  apply get_assoc in E. rewrite E in H. destruct o; try discriminate. auto.
Qed.

Lemma add_seen_seen h st x : In x (add_seen h st).(seen) <-> x = h \/ In x st.(seen).
Proof.
  unfold add_seen. destruct (mem h st.(seen)) eqn:E; cbn.
  - apply mem_In in E. split; [auto|]. intros [->|H]; assumption.
  - split; intros [H|H]; auto.
Qed.

Lemma add_missing_seen h st : (add_missing h st).(seen) = st.(seen).
Proof. unfold add_missing. destruct (mem h st.(missing)); reflexivity. Qed.

Lemma add_seen_missing h st : (add_seen h st).(missing) = st.(missing).
Proof. unfold add_seen. destruct (mem h st.(seen)); reflexivity. Qed.

Lemma add_missing_missing h st x : In x (add_missing h st).(missing) <-> x = h \/ In x st.(missing).
Proof.
  unfold add_missing. destruct (mem h st.(missing)) eqn:E; cbn.
  - apply mem_In in E. split; [auto|]. intros [->|H]; assumption.
  - split; intros [H|H]; auto.
Qed.

(* ---------- the extension relation between walker states ---------- *)

(* st' extends st: nothing forgotten, and everything newly seen has all its
   children seen *)
Definition ext (r : repo) (st st' : wst) : Prop :=
  incl st.(seen) st'.(seen) /\
  forall x, In x st'.(seen) -> ~ In x st.(seen) -> forall c, child r x c -> In c st'.(seen).

Lemma ext_refl r st : ext r st st.
Proof. split; [apply incl_refl|]. intros x H1 H2. contradiction. Qed.

Lemma ext_trans r a b c : ext r a b -> ext r b c -> ext r a c.
Proof.
  intros [I1 C1] [I2 C2]. split; [eapply incl_tran; eassumption|].
  intros x Hx Hn ch Hch.
  destruct (mem x b.(seen)) eqn:E.
  - apply mem_In in E. apply I2. now apply (C1 x E Hn).
  - apply mem_nIn in E. now apply (C2 x Hx E).
Qed.

Lemma fold_res_ext {A} r (f : wst -> A -> res wst) (key : A -> oid) :
  (forall st a st', f st a = Ok st' -> ext r st st' /\ In (key a) st'.(seen)) ->
  forall l st st', fold_res f l st = Ok st' ->
  ext r st st' /\ forall a, In a l -> In (key a) st'.(seen).
Proof.
  intros Hf l. induction l as [|a l IH]; intros st st' H; cbn in H.
  - inversion H; subst. split; [apply ext_refl|intros a []].
  - destruct (f st a) as [st1|e] eqn:E; [|discriminate].
    destruct (Hf _ _ _ E) as [E1 K1]. destruct (IH _ _ H) as [E2 K2].
    split; [eapply ext_trans; eassumption|].
    intros b [->|Hb]; [|now apply K2]. destruct E2 as [I2 _]. now apply I2.
Qed.

Section Walk.
  Variable r : repo.
  Hypothesis Hwf : wf_modes r = true.

  Lemma tree_entry_blob h es e :
    get r h = Some (OTree es) -> In e es -> is_file_mode (fst e) = true -> blob_or_unknown r (snd e) = true.
  Proof.
    intros Hg He Hm. apply get_assoc, assoc_In in Hg.
    unfold wf_modes in Hwf. rewrite forallb_forall in Hwf. specialize (Hwf _ Hg). cbn in Hwf.
    rewrite forallb_forall in Hwf. specialize (Hwf _ He). rewrite Hm in Hwf. exact Hwf.
  Qed.

  (* adding h: every state extending (add_seen h st) in which h's children
     are seen extends st *)
  Lemma ext_add h st st' :
    ext r (add_seen h st) st' -> (forall c, child r h c -> In c st'.(seen)) -> ext r st st' /\ In h st'.(seen).
  Proof.
    intros [I C] Hc. assert (Hh : In h st'.(seen)) by (apply I, add_seen_seen; now left).
    split; [split|assumption].
    - intros x Hx. apply I, add_seen_seen. now right.
    - intros x Hx Hn ch Hch. destruct (N.eq_dec x h) as [->|Hne]; [now apply Hc|].
      apply (C x Hx); [|assumption]. intro H. apply add_seen_seen in H as [H|H]; contradiction.
  Qed.

  Lemma walk_ext fuel : forall st h st',
    walk fuel r st h = Ok st' -> ext r st st' /\ In h st'.(seen).
  Proof.
    induction fuel as [|f IH]; intros st h st' H; cbn [walk] in H;
      destruct (mem h st.(seen)) eqn:Es;
      try (inversion H; subst; split; [apply ext_refl|now apply mem_In]); try discriminate.
    destruct (get r h) as [o|] eqn:Eg.
    - destruct o as [|es|t ps|t].
      + discriminate.
      + (* tree *)
        set (fe := fun (st : wst) (e : Z * oid) =>
               if is_file_mode (fst e)
               then let st' := add_seen (snd e) st in
                    Ok (if promisor r && negb (has r (snd e)) then add_missing (snd e) st' else st')
               else walk f r st (snd e)) in H.
        assert (Hfe : forall es' st0 st1, (forall e, In e es' -> In e es) -> fold_res fe es' st0 = Ok st1 ->
                       ext r st0 st1 /\ forall e, In e es' -> In (snd e) st1.(seen)).
        { induction es' as [|e es' IHes]; intros st0 st1 Hsub Hf; cbn in Hf.
          - inversion Hf; subst. split; [apply ext_refl|intros e []].
          - destruct (fe st0 e) as [st2|er] eqn:Efe; [|discriminate].
            assert (Hstep : ext r st0 st2 /\ In (snd e) st2.(seen)).
            { unfold fe in Efe. destruct (is_file_mode (fst e)) eqn:Em.
              - inversion Efe; subst. clear Efe.
                assert (Hb := tree_entry_blob h es e Eg (Hsub e (or_introl eq_refl)) Em).
                assert (Hseen : forall x, In x (if promisor r && negb (has r (snd e))
                                   then add_missing (snd e) (add_seen (snd e) st0) else add_seen (snd e) st0).(seen)
                                   <-> x = snd e \/ In x st0.(seen)).
                { intro x. destruct (promisor r && negb (has r (snd e))); [rewrite add_missing_seen|]; apply add_seen_seen. }
                split; [split|].
                + intros x Hx. apply Hseen. now right.
                + intros x Hx Hn c Hc. apply Hseen in Hx as [->|Hx]; [|contradiction].
                  exfalso. now apply (blob_no_child r (snd e) c).
                + apply Hseen. now left.
              - now apply IH. }
            destruct Hstep as [E1 K1].
            destruct (IHes st2 st1 (fun e0 He0 => Hsub e0 (or_intror He0)) Hf) as [E2 K2].
            split; [eapply ext_trans; eassumption|].
            intros e0 [->|He0]; [|now apply K2]. destruct E2 as [I2 _]. now apply I2. }
        destruct (Hfe es _ _ (fun e He => He) H) as [E K].
        apply ext_add; [assumption|].
        intros c Hc. unfold child in Hc. rewrite Eg in Hc. destruct Hc as (m & Hin & _).
        apply (K (m, c) Hin).
      + (* commit *)
        destruct (walk f r (add_seen h st) t) as [st2|e] eqn:Et; [|discriminate].
        destruct (IH _ _ _ Et) as [E1 K1].
        destruct (mem h r.(shallow)) eqn:Esh.
        * inversion H; subst. apply ext_add; [assumption|].
          intros c Hc. unfold child in Hc. rewrite Eg in Hc. destruct Hc as [->|[Hs _]]; [assumption|congruence].
        * destruct (fold_res_ext r (walk f r) (fun x => x) (fun st0 a st1 => IH st0 a st1) _ _ _ H) as [E2 K2].
          apply ext_add; [eapply ext_trans; eassumption|].
          intros c Hc. unfold child in Hc. rewrite Eg in Hc. destruct Hc as [->|[_ Hin]].
          -- destruct E2 as [I2 _]. now apply I2.
          -- now apply K2.
      + (* tag *)
        destruct (IH _ _ _ H) as [E1 K1]. apply ext_add; [assumption|].
        intros c Hc. unfold child in Hc. rewrite Eg in Hc. now subst.
    - (* absent *)
      destruct (promisor r); [|discriminate]. inversion H; subst. clear H.
      assert (Hs : forall x, In x (add_missing h (add_seen h st)).(seen) <-> x = h \/ In x st.(seen))
        by (intro x; rewrite add_missing_seen; apply add_seen_seen).
      split; [split|].
      + intros x Hx. apply Hs. now right.
      + intros x Hx Hn c Hc. apply Hs in Hx as [->|Hx]; [|contradiction].
        unfold child in Hc. now rewrite Eg in Hc.
      + apply Hs. now left.
  Qed.

  (* objects recorded as missing are not stored *)
  Definition missing_ok (st : wst) : Prop := forall x, In x st.(missing) -> has r x = false.

  Lemma fold_res_missing {A} (f : wst -> A -> res wst) :
    (forall st a st', f st a = Ok st' -> missing_ok st -> missing_ok st') ->
    forall l st st', fold_res f l st = Ok st' -> missing_ok st -> missing_ok st'.
  Proof.
    intros Hf l. induction l as [|a l IH]; intros st st' H Hm; cbn in H.
    - now inversion H; subst.
    - destruct (f st a) as [st1|e] eqn:E; [|discriminate]. eapply IH; [eassumption|]. eapply Hf; eassumption.
  Qed.

  Lemma walk_missing fuel : forall st h st',
    walk fuel r st h = Ok st' -> missing_ok st -> missing_ok st'.
  Proof.
    induction fuel as [|f IH]; intros st h st' H Hm; cbn [walk] in H;
      destruct (mem h st.(seen)) eqn:Es; try (now inversion H; subst); try discriminate.
    assert (Hm1 : missing_ok (add_seen h st)) by (intros x Hx; rewrite add_seen_missing in Hx; now apply Hm).
    destruct (get r h) as [o|] eqn:Eg.
    - destruct o as [|es|t ps|t].
      + discriminate.
      + eapply fold_res_missing; [|exact H|assumption].
        intros st0 e st1 He Hm0. cbn beta in He. destruct (is_file_mode (fst e)); [|eapply IH; eassumption].
        inversion He; subst. clear He.
        destruct (promisor r && negb (has r (snd e))) eqn:Ep.
        * apply andb_true_iff in Ep as [_ Ep]. apply negb_true_iff in Ep.
          intros x Hx. apply add_missing_missing in Hx as [->|Hx]; [assumption|].
          rewrite add_seen_missing in Hx. now apply Hm0.
        * intros x Hx. rewrite add_seen_missing in Hx. now apply Hm0.
      + destruct (walk f r (add_seen h st) t) as [st2|e] eqn:Et; [|discriminate].
        assert (Hm2 := IH _ _ _ Et Hm1).
        destruct (mem h r.(shallow)); [now inversion H; subst|].
        eapply fold_res_missing; [|exact H|assumption]. intros; eapply IH; eassumption.
      + eapply IH; eassumption.
    - destruct (promisor r); [|discriminate]. inversion H; subst.
      intros x Hx. apply add_missing_missing in Hx as [->|Hx]; [now apply has_get|now apply Hm1].
  Qed.
End Walk.

(* ---------- walkIndex ---------- *)

Lemma walk_index_spec r st :
  let st' := walk_index r st in
  incl st.(seen) st'.(seen) /\ st'.(missing) = st.(missing) /\
  (forall e, In e r.(index) -> fst e = false -> In (snd e) st'.(seen) \/ has r (snd e) = false) /\
  (forall x, In x st'.(seen) -> In x st.(seen) \/ exists e, In e r.(index) /\ fst e = false /\ snd e = x).
Proof.
  unfold walk_index. generalize r.(index) as l. intro l. revert st.
  induction l as [|e l IH]; intro st; cbn [fold_left].
  - repeat split; [apply incl_refl|intros e []|auto].
  - set (st1 := if fst e || mem (snd e) st.(seen) then st else if has r (snd e) then add_seen (snd e) st else st).
    assert (H1 : incl st.(seen) st1.(seen) /\ st1.(missing) = st.(missing) /\
                 (fst e = false -> In (snd e) st1.(seen) \/ has r (snd e) = false) /\
                 (forall x, In x st1.(seen) -> In x st.(seen) \/ (fst e = false /\ snd e = x))).
    { unfold st1. destruct (fst e) eqn:Ef; cbn [orb].
      - repeat split; [apply incl_refl|discriminate|auto].
      - destruct (mem (snd e) st.(seen)) eqn:Em.
        + apply mem_In in Em. repeat split; [apply incl_refl|auto|auto].
        + destruct (has r (snd e)) eqn:Eh.
          * repeat split.
            -- intros x Hx. apply add_seen_seen. now right.
            -- apply add_seen_missing.
            -- intros _. left. apply add_seen_seen. now left.
            -- intros x Hx. apply add_seen_seen in Hx as [->|Hx]; auto.
          * repeat split; [apply incl_refl|auto|auto]. }
    destruct H1 as (I1 & M1 & K1 & N1). destruct (IH st1) as (I2 & M2 & K2 & N2).
    repeat split.
    + eapply incl_tran; eassumption.
    + congruence.
    + intros e0 [->|He0] Hf; [|now apply K2].
      destruct (K1 Hf) as [H|H]; [left; now apply I2|now right].
    + intros x Hx. destruct (N2 x Hx) as [H|(e0 & He0 & Hf & Hs)].
      * destruct (N1 x H) as [H'|[Hf Hs]]; [now left|]. right. exists e. repeat split; auto. now left.
      * right. exists e0. repeat split; auto. now right.
Qed.

(* ---------- walkAllRefs covers everything live ---------- *)

Lemma walk_all_live fuel r st :
  wf_modes r = true -> wf_index r = true ->
  walk_all fuel r = Ok st ->
  (forall h, live r h -> In h st.(seen) \/ get r h = None) /\
  (forall x, In x st.(missing) -> has r x = false).
Proof.
  intros Hwm Hwi H. unfold walk_all in H.
  destruct (fold_res (walk fuel r) r.(roots) {| seen := []; missing := [] |}) as [st0|e] eqn:E; [|discriminate].
  inversion H; subst. clear H.
  destruct (fold_res_ext r (walk fuel r) (fun x => x) (fun a b c => walk_ext r Hwm fuel a b c) _ _ _ E) as [[_ C0] K0].
  destruct (walk_index_spec r st0) as (I & M & K & N). cbn zeta in *.
  assert (Hclosed : forall x, In x (walk_index r st0).(seen) -> forall c, child r x c -> In c (walk_index r st0).(seen)).
  { intros x Hx c Hc. destruct (N x Hx) as [H0|(e & He & Hf & Hs)].
    - apply I. apply (C0 x H0); [intros []|assumption].
    - exfalso. subst x. unfold wf_index in Hwi. rewrite forallb_forall in Hwi.
      specialize (Hwi e He). rewrite Hf in Hwi. cbn in Hwi. now apply (blob_no_child r (snd e) c). }
  split.
  - intros h Hl. unfold live in Hl. induction Hl as [h Hr|h c Hl IH Hc].
    + apply in_app_or in Hr as [Hr|Hr].
      * left. apply I. now apply K0.
      * unfold index_roots in Hr. apply in_map_iff in Hr as (e & <- & He).
        apply filter_In in He as [He Hf]. apply negb_true_iff in Hf.
        destruct (K e He Hf) as [H|H]; [now left|right; now apply has_get].
    + destruct IH as [IH|IH].
      * left. now apply (Hclosed h).
      * exfalso. unfold child in Hc. now rewrite IH in Hc.
  - intros x Hx. rewrite M in Hx.
    assert (Hm0 : missing_ok r {| seen := []; missing := [] |}) by (intros y []).
    exact (fold_res_missing r (walk fuel r) (fun a b c => walk_missing r fuel a b c) _ _ _ E Hm0 x Hx).
Qed.

(* ---------- Prune and RepackObjects ---------- *)

Lemma stored_loose r h : mem h (map fst r.(loose)) = true \/ existsb (fun p => mem h p.(p_objs)) r.(packs) = true
  <-> stored r h = true.
Proof. unfold stored. rewrite orb_true_iff. reflexivity. Qed.

Lemma get_set_store r l p h :
  stored (set_store r l p) h = true -> stored r h = true -> get (set_store r l p) h = get r h.
Proof. unfold get. intros -> ->. reflexivity. Qed.

Lemma has_stored r h : has r h = true -> stored r h = true.
Proof. unfold has, get. destruct (stored r h); [reflexivity|discriminate]. Qed.

Lemma prune_keeps_live fuel r lim r' :
  wf_modes r = true -> wf_index r = true ->
  prune fuel r lim = Ok r' ->
  forall h, live r h -> has r h = true -> has r' h = true /\ get r' h = get r h.
Proof.
  intros Hwm Hwi H h Hl Hh. unfold prune in H.
  destruct (walk_all fuel r) as [st|e] eqn:E; [|discriminate]. inversion H; subst. clear H.
  destruct (walk_all_live _ _ _ Hwm Hwi E) as [Hlive _].
  destruct (Hlive h Hl) as [Hs|Hn]; [|apply has_get in Hn; congruence].
  assert (Hst := has_stored _ _ Hh).
  assert (Hst' : stored (set_store r (filter (fun l => mem (fst l) st.(seen) || (lim && negb (snd l))) r.(loose)) r.(packs)) h = true).
  { unfold stored in *. cbn. apply orb_true_iff in Hst as [Hst|Hst]; [|rewrite Hst; apply orb_true_r].
    apply orb_true_iff. left. apply mem_In in Hst. apply mem_In.
    apply in_map_iff in Hst as ([k o] & Hk & Hin). cbn in Hk. subst k.
    apply in_map_iff. exists (h, o). split; [reflexivity|]. apply filter_In. split; [assumption|].
    cbn. apply mem_In in Hs. now rewrite Hs. }
  assert (Eg := get_set_store r _ _ h Hst' Hst).
  split; [|assumption]. unfold has in *. now rewrite Eg.
Qed.

Lemma In_insert_n x y l : In x (insert_n y l) <-> x = y \/ In x l.
Proof.
  induction l as [|z l IH]; cbn [insert_n].
  - cbn. intuition congruence.
  - destruct (y =? z) eqn:E.
    + apply N.eqb_eq in E. subst. cbn. intuition congruence.
    + destruct (y <? z); cbn [In]; [intuition congruence|]. rewrite IH. intuition congruence.
Qed.

Lemma In_sort_n x l : In x (sort_n l) <-> In x l.
Proof.
  unfold sort_n. induction l as [|y l IH]; cbn [fold_right]; [tauto|].
  rewrite In_insert_n, IH. cbn. intuition congruence.
Qed.

Lemma ids_eqb_eq a b : ids_eqb a b = true <-> a = b.
Proof.
  revert b. induction a as [|x a IH]; destruct b as [|y b]; cbn; split; try congruence; intro H.
  - apply andb_true_iff in H as [H1 H2]. apply N.eqb_eq in H1. apply IH in H2. congruence.
  - inversion H; subst. rewrite N.eqb_refl. cbn. now apply IH.
Qed.

Lemma ids_eqb_refl l : ids_eqb l l = true.
Proof. now apply ids_eqb_eq. Qed.

(* content addressing: a pack's name starts with its sorted object set *)
Definition wf_names (r : repo) : bool :=
  forallb (fun p => ids_eqb (fst p.(p_name)) (sort_n p.(p_objs))) r.(packs).

Lemma repack_keeps_live fuel r lim v r' :
  wf_modes r = true -> wf_index r = true -> wf_names r = true ->
  repack fuel r lim v = Ok r' ->
  forall h, live r h -> has r h = true -> has r' h = true /\ get r' h = get r h.
Proof.
  intros Hwm Hwi Hwn H h Hl Hh. unfold repack in H.
  destruct (walk_all fuel r) as [st|e] eqn:E; [|discriminate].
  destruct (forallb (has r) (present st)); [|discriminate]. inversion H; subst. clear H.
  destruct (walk_all_live _ _ _ Hwm Hwi E) as [Hlive Hmiss].
  destruct (Hlive h Hl) as [Hs|Hn]; [|apply has_get in Hn; congruence].
  assert (Hst := has_stored _ _ Hh).
  assert (Hp : In h (present st)).
  { unfold present. apply filter_In. split; [assumption|]. apply negb_true_iff, mem_nIn.
    intro Hm. apply Hmiss in Hm. congruence. }
  set (nm := (sort_n (present st), v)).
  match goal with |- has ?R h = true /\ _ => assert (Hst' : stored R h = true) end.
  { unfold stored. cbn [set_store loose packs]. apply orb_true_iff. right. apply existsb_exists.
    destruct (existsb (fun p => name_eqb (p_name p) nm) (packs r)) eqn:Ex.
    - (* a pack of that name is already there: it holds the same objects, and it is kept *)
      apply existsb_exists in Ex as (p & Hin & Hnm).
      exists p. split; [apply filter_In; split; [assumption|now rewrite Hnm]|].
      unfold wf_names in Hwn. rewrite forallb_forall in Hwn. specialize (Hwn p Hin).
      unfold name_eqb in Hnm. apply andb_true_iff in Hnm as [Hnm _]. cbn [fst nm] in Hnm.
      apply ids_eqb_eq in Hnm. apply ids_eqb_eq in Hwn. rewrite Hnm in Hwn.
      apply mem_In. apply In_sort_n. rewrite <- Hwn. now apply In_sort_n.
    - eexists. split; [apply filter_In; split; [now left|]|].
      + cbn [p_name]. unfold name_eqb. now rewrite ids_eqb_refl, N.eqb_refl.
      + cbn [p_objs]. now apply mem_In. }
  assert (Eg := get_set_store r _ _ h Hst' Hst).
  split; [|assumption]. unfold has in *. now rewrite Eg.
Qed.

(* ---------- histories ---------- *)

Definition op_ok (r : repo) (op : gcop) : bool :=
  match op with GStage o => blob_or_unknown r o | _ => true end.

Definition inv (r : repo) : Prop := wf_modes r = true /\ wf_index r = true /\ wf_names r = true.

Lemma repack_shape fuel r lim v r' : repack fuel r lim v = Ok r' ->
  objs r' = objs r /\ roots r' = roots r /\ shallow r' = shallow r /\ index r' = index r /\
  forall p, In p r'.(packs) -> In p r.(packs) \/ ids_eqb (fst p.(p_name)) (sort_n p.(p_objs)) = true.
Proof.
  unfold repack. destruct (walk_all fuel r); [|discriminate].
  destruct (forallb (has r) (present a)); [|discriminate]. intro H. inversion H; subst. clear H.
  cbn [set_store objs roots shallow index packs]. repeat split; try reflexivity.
  intros p Hp. apply filter_In in Hp as [Hp _].
  destruct (existsb _ (packs r)); [now left|]. destruct Hp as [<-|Hp]; [right; cbn; apply ids_eqb_refl|now left].
Qed.

Lemma prune_shape fuel r lim r' : prune fuel r lim = Ok r' ->
  objs r' = objs r /\ roots r' = roots r /\ shallow r' = shallow r /\ index r' = index r /\ packs r' = packs r.
Proof.
  unfold prune. destruct (walk_all fuel r); [|discriminate]. intro H. inversion H; subst. now cbn.
Qed.

Lemma wf_modes_objs r r' : objs r' = objs r -> wf_modes r' = wf_modes r.
Proof. intro E. unfold wf_modes, blob_or_unknown. now rewrite E. Qed.

Lemma wf_index_objs r r' : objs r' = objs r -> index r' = index r -> wf_index r' = wf_index r.
Proof. intros E1 E2. unfold wf_index, blob_or_unknown. now rewrite E1, E2. Qed.

Lemma step_shape op r r' : gc_step op r = Ok r' ->
  objs r' = objs r /\ roots r' = roots r /\ shallow r' = shallow r.
Proof.
  destruct op; cbn [gc_step]; intro H.
  - apply prune_shape in H. tauto.
  - apply repack_shape in H. tauto.
  - inversion H; subst. destruct (mem o (map fst (loose r))); now cbn.
  - inversion H; subst. now cbn.
Qed.

Lemma step_inv op r r' : inv r -> op_ok r op = true -> gc_step op r = Ok r' -> inv r'.
Proof.
  intros (Wm & Wi & Wn) Hok H. destruct op; cbn [gc_step] in H.
  - apply prune_shape in H as (E1 & _ & _ & E4 & E5). repeat split.
    + now rewrite (wf_modes_objs _ _ E1).
    + now rewrite (wf_index_objs _ _ E1 E4).
    + unfold wf_names. now rewrite E5.
  - apply repack_shape in H as (E1 & _ & _ & E4 & E5). repeat split.
    + now rewrite (wf_modes_objs _ _ E1).
    + now rewrite (wf_index_objs _ _ E1 E4).
    + unfold wf_names in *. apply forallb_forall. intros p Hp. rewrite forallb_forall in Wn.
      destruct (E5 p Hp) as [Hin|Hn]; [now apply Wn|assumption].
  - inversion H; subst. destruct (mem o (map fst (loose r))); repeat split; assumption.
  - inversion H; subst. repeat split; try assumption.
    unfold wf_index in *. cbn [index objs] in *. cbn [forallb fst snd orb].
    unfold blob_or_unknown in *. cbn [objs] in *. cbn in Hok. unfold blob_or_unknown in Hok. now rewrite Hok, Wi.
Qed.

Lemma step_keeps op r r' : inv r -> gc_step op r = Ok r' ->
  forall h, live r h -> has r h = true -> has r' h = true /\ get r' h = get r h.
Proof.
  intros (Wm & Wi & Wn) H h Hl Hh. destruct op; cbn [gc_step] in H.
  - eapply prune_keeps_live; eassumption.
  - eapply repack_keeps_live; eassumption.
  - inversion H; subst. destruct (mem o (map fst (loose r))); [auto|].
    assert (Hst := has_stored _ _ Hh).
    assert (Hst' : stored (set_store r ((o, false) :: loose r) (packs r)) h = true).
    { unfold stored in *. cbn [set_store loose packs map fst mem existsb] in *. unfold mem in *. cbn [existsb].
      apply orb_true_iff in Hst as [Hst|Hst]; [rewrite Hst; now rewrite orb_true_r|rewrite Hst; apply orb_true_r]. }
    assert (Eg := get_set_store r _ _ h Hst' Hst). split; [|assumption]. unfold has in *. now rewrite Eg.
  - inversion H; subst. unfold has, get, stored in *. cbn [loose packs objs] in *. auto.
Qed.

Lemma index_roots_step op r r' : gc_step op r = Ok r' -> forall x, In x (index_roots r) -> In x (index_roots r').
Proof.
  intros H x Hx. destruct op; cbn [gc_step] in H.
  - apply prune_shape in H as (_ & _ & _ & E4 & _). unfold index_roots. now rewrite E4.
  - apply repack_shape in H as (_ & _ & _ & E4 & _). unfold index_roots. now rewrite E4.
  - inversion H; subst. destruct (mem o (map fst (loose r))); assumption.
  - inversion H; subst. unfold index_roots in *. cbn [index filter fst negb map snd]. now right.
Qed.

(* what is live stays live *)
Lemma step_live op r r' : inv r -> gc_step op r = Ok r' -> forall h, live r h -> live r' h.
Proof.
  intros I H h Hl. destruct (step_shape _ _ _ H) as (E1 & E2 & E3).
  unfold live in *. induction Hl as [h Hr|h c Hl IH Hc].
  - apply reach_root. apply in_app_or in Hr as [Hr|Hr]; apply in_or_app; [left; now rewrite E2|right].
    eapply index_roots_step; eassumption.
  - apply reach_step with (h := h); [assumption|].
    assert (Hh : has r h = true).
    { unfold child in Hc. unfold has. destruct (get r h); [reflexivity|contradiction]. }
    destruct (step_keeps _ _ _ I H h Hl Hh) as [_ Eg].
    unfold child in *. rewrite Eg, E3. exact Hc.
Qed.

Lemma run_seq_keeps ops : forall r, inv r -> forallb (op_ok r) ops = true ->
  forall h, live r h -> has r h = true ->
  has (run_seq ops r) h = true /\ get (run_seq ops r) h = get r h.
Proof.
  induction ops as [|op ops IH]; intros r I Hok h Hl Hh; [auto|].
  cbn [forallb] in Hok. apply andb_true_iff in Hok as [Ho Hok].
  cbn [run_seq fold_left]. fold (run_seq ops (gc_apply op r)).
  unfold gc_apply. destruct (gc_step op r) as [r1|e] eqn:E; [|now apply IH].
  destruct (step_keeps _ _ _ I E h Hl Hh) as [Hh1 Eg1].
  destruct (step_shape _ _ _ E) as (E1 & _ & _).
  destruct (IH r1 (step_inv _ _ _ I Ho E)) with (h := h) as [Hh2 Eg2]; try assumption.
  - rewrite forallb_forall in *. intros x Hx. specialize (Hok x Hx). unfold op_ok, blob_or_unknown in *. now rewrite E1.
  - eapply step_live; eassumption.
  - split; [assumption|congruence].
Qed.

Lemma run_seq_inv ops : forall r, inv r -> forallb (op_ok r) ops = true ->
  inv (run_seq ops r) /\ objs (run_seq ops r) = objs r.
Proof.
  induction ops as [|op ops IH]; intros r I Hok; [auto|].
  cbn [forallb] in Hok. apply andb_true_iff in Hok as [Ho Hok].
  cbn [run_seq fold_left]. fold (run_seq ops (gc_apply op r)).
  unfold gc_apply. destruct (gc_step op r) as [r1|e] eqn:E; [|now apply IH].
  destruct (step_shape _ _ _ E) as (E1 & _ & _).
  destruct (IH r1 (step_inv _ _ _ I Ho E)) as [I2 E2].
  - rewrite forallb_forall in *. intros x Hx. specialize (Hok x Hx). unfold op_ok, blob_or_unknown in *. now rewrite E1.
  - split; [assumption|congruence].
Qed.

(* at every point of a history: what is live and readable then stays readable to the end *)
Lemma history_keeps_live a b r :
  inv r -> forallb (op_ok r) (a ++ b) = true ->
  forall h, live (run_seq a r) h -> has (run_seq a r) h = true ->
  has (run_seq (a ++ b) r) h = true /\ get (run_seq (a ++ b) r) h = get (run_seq a r) h.
Proof.
  intros I Hok h Hl Hh. rewrite forallb_app in Hok. apply andb_true_iff in Hok as [Ha Hb].
  destruct (run_seq_inv a r I Ha) as [Ia Ea].
  assert (Es : run_seq (a ++ b) r = run_seq b (run_seq a r)) by (unfold run_seq; apply fold_left_app).
  rewrite Es. apply run_seq_keeps; try assumption.
  rewrite forallb_forall in *. intros x Hx. specialize (Hb x Hx). unfold op_ok, blob_or_unknown in *. now rewrite Ea.
Qed.
