(* Proofs/C34Hex.v — the 4-digit hexadecimal length prefix: asciiHex16 and
   hexDecode/ParseLength are inverse on 0..65535 (finite sweep over the
   regenerated leaves asciiHexToByte / byteToASCIIHex). *)
From Coq Require Import List NArith ZArith Bool Lia.
From GoGit Require Import Base.Out Base.GoInt Gen.C34 Model.PktLine.
Import ListNotations.

Lemma LenSizeN_eq : LenSizeN = 4%nat.
Proof. reflexivity. Qed.

Lemma MaxSizeN_Z : Z.of_nat MaxSizeN = 65520%Z.
Proof. unfold MaxSizeN. rewrite Z2Nat.id; [reflexivity | unfold pktline_MaxSize; lia]. Qed.

Lemma hex16_length n : List.length (hex16 n) = 4%nat.
Proof. reflexivity. Qed.

Fixpoint zrange (n : nat) (start : Z) : list Z :=
  match n with O => [] | S k => start :: zrange k (start + 1) end.

Lemma zrange_in n : forall s x, (s <= x < s + Z.of_nat n)%Z -> In x (zrange n s).
Proof.
  induction n as [|n IH]; intros s x H; [lia|].
  cbn [zrange]. destruct (Z.eq_dec s x); [now left|]. right. apply IH. lia.
Qed.

Definition all16 : list Z := zrange (Z.to_nat 65536) 0.

Lemma all16_sweep :
  forallb (fun n => match hex_decode (hex16 n) with Some m => Z.eqb m n | None => false end) all16 = true.
Proof. vm_compute. reflexivity. Qed.

Lemma hex16_roundtrip n : (0 <= n < 65536)%Z -> hex_decode (hex16 n) = Some n.
Proof.
  intros H. pose proof all16_sweep as S. rewrite forallb_forall in S.
  assert (In n all16) as Hin.
  { unfold all16. apply zrange_in. lia. }
  specialize (S n Hin). destruct (hex_decode (hex16 n)) as [m|]; [|discriminate].
  apply Z.eqb_eq in S. now subst.
Qed.

Lemma parse_length_hex16 n :
  (0 <= n <= pktline_MaxSize)%Z -> n <> 3%Z -> parse_length (hex16 n) = Some n.
Proof.
  intros H H3. unfold parse_length. unfold pktline_MaxSize in *. rewrite hex16_roundtrip by lia.
  destruct (Z.eqb_spec n 3); [contradiction|].
  destruct (Z.gtb_spec n 65520); [lia|reflexivity].
Qed.

(* every successful ParseLength is in 0..MaxSize and is not 3 *)
Lemma hex_val_range b v : hex_val b = Some v -> (0 <= v < 16)%Z.
Proof.
  unfold hex_val, pktline_asciiHexToByte.
  pose proof (N2Z.is_nonneg b).
  destruct ((Z.of_N b >=? 48)%Z && (Z.of_N b <=? 57)%Z) eqn:E1.
  { intros [= <-]. unfold wrapu. apply andb_prop in E1. destruct E1.
    rewrite Z.mod_small; lia. }
  destruct ((Z.of_N b >=? 97)%Z && (Z.of_N b <=? 102)%Z) eqn:E2.
  { intros [= <-]. unfold wrapu. apply andb_prop in E2. destruct E2.
    rewrite (Z.mod_small (Z.of_N b - 97)) by lia. rewrite Z.mod_small; lia. }
  destruct ((Z.of_N b >=? 65)%Z && (Z.of_N b <=? 70)%Z) eqn:E3.
  { intros [= <-]. unfold wrapu. apply andb_prop in E3. destruct E3.
    rewrite (Z.mod_small (Z.of_N b - 65)) by lia. rewrite Z.mod_small; lia. }
  discriminate.
Qed.

Lemma hex_decode_go_range k : forall buf acc v,
  (0 <= acc)%Z -> hex_decode_go k buf acc = Some v ->
  (0 <= v < (acc + 1) * 16 ^ Z.of_nat k)%Z.
Proof.
  induction k as [|k IH]; intros buf acc v Ha H.
  - cbn in H. injection H as <-. cbn. lia.
  - cbn [hex_decode_go] in H. destruct buf as [|b buf]; [discriminate|].
    destruct (hex_val b) as [d|] eqn:Hd; [|discriminate].
    apply hex_val_range in Hd. apply IH in H; [|lia].
    rewrite Nat2Z.inj_succ, Z.pow_succ_r by lia. nia.
Qed.

Lemma parse_length_range b n : parse_length b = Some n -> (0 <= n <= pktline_MaxSize)%Z /\ n <> 3%Z.
Proof.
  unfold parse_length, hex_decode. destruct (Nat.ltb (List.length b) 4); [discriminate|].
  destruct (hex_decode_go LenSizeN b 0) as [v|] eqn:H; [|discriminate].
  apply hex_decode_go_range in H; [|lia].
  destruct (Z.eqb_spec v 3); [discriminate|].
  destruct (Z.gtb_spec v pktline_MaxSize); [discriminate|].
  intros [= <-]. lia.
Qed.

(* the four fixed packets *)
Lemma parse_flush : parse_length flushPkt = Some 0%Z. Proof. reflexivity. Qed.
Lemma parse_delim : parse_length delimPkt = Some 1%Z. Proof. reflexivity. Qed.
Lemma parse_rend : parse_length responseEndPkt = Some 2%Z. Proof. reflexivity. Qed.
Lemma parse_empty : parse_length emptyPkt = Some 4%Z. Proof. reflexivity. Qed.
