(* Proofs/C27Time.v — two-part time stamps: the comparisons of metadataMatches are
   the comparisons of the nanosecond counts Model/Status.v uses; the shortcut over
   a timeline of two-part stamps. *)
From Coq Require Import List NArith Arith Lia Bool ZifyBool ZifyN.
From GoGit Require Import Model.StatTime.
Import ListNotations.
Local Open Scope N_scope.

Lemma ts_eqb_ns a b : ts_wf a = true -> ts_wf b = true -> ts_eqb a b = (ts_ns a =? ts_ns b).
Proof.
  destruct a as [sa na], b as [sb nb]. unfold ts_wf, ts_eqb, ts_ns, NANO. cbn [t_sec t_nsec].
  intros Ha Hb. apply N.ltb_lt in Ha, Hb.
  destruct (sa =? sb) eqn:E1, (na =? nb) eqn:E2, (sa * 1000000000 + na =? sb * 1000000000 + nb) eqn:E3;
    try reflexivity; exfalso;
    try apply N.eqb_eq in E1; try apply N.eqb_eq in E2; try apply N.eqb_eq in E3;
    try apply N.eqb_neq in E1; try apply N.eqb_neq in E2; try apply N.eqb_neq in E3; clear - Ha Hb E1 E2 E3; lia.
Qed.

Lemma ts_ltb_ns a b : ts_wf a = true -> ts_wf b = true -> ts_ltb a b = (ts_ns a <? ts_ns b).
Proof.
  destruct a as [sa na], b as [sb nb]. unfold ts_wf, ts_ltb, ts_ns, NANO. cbn [t_sec t_nsec].
  intros Ha Hb. apply N.ltb_lt in Ha, Hb.
  destruct (sa <? sb) eqn:E1, (sa =? sb) eqn:E0, (na <? nb) eqn:E2, (sa * 1000000000 + na <? sb * 1000000000 + nb) eqn:E3;
    try reflexivity; exfalso;
    try apply N.ltb_lt in E1; try apply N.ltb_lt in E2; try apply N.ltb_lt in E3; try apply N.eqb_eq in E0;
    try apply N.ltb_ge in E1; try apply N.ltb_ge in E2; try apply N.ltb_ge in E3; try apply N.eqb_neq in E0;
    clear - Ha Hb E0 E1 E2 E3; lia.
Qed.

(* ------------------------------------------------------------ order facts *)

Definition tle (a b : ts) : Prop := ts_ltb b a = false.

Lemma ts_ltb_spec a b :
  ts_ltb a b = true <-> (t_sec a < t_sec b \/ (t_sec a = t_sec b /\ t_nsec a < t_nsec b)).
Proof.
  unfold ts_ltb. rewrite orb_true_iff, andb_true_iff, !N.ltb_lt, N.eqb_eq. reflexivity.
Qed.

Lemma tle_spec a b :
  tle a b <-> (t_sec a < t_sec b \/ (t_sec a = t_sec b /\ t_nsec a <= t_nsec b)).
Proof.
  unfold tle. split.
  - intros H. destruct (ts_ltb b a) eqn:E; [discriminate|]. clear H.
    assert (N : ~ (t_sec b < t_sec a \/ (t_sec b = t_sec a /\ t_nsec b < t_nsec a))).
    { intros C. apply ts_ltb_spec in C. congruence. }
    lia.
  - intros H. destruct (ts_ltb b a) eqn:E; [|reflexivity]. apply ts_ltb_spec in E. lia.
Qed.

Lemma tle_refl a : tle a a.
Proof. apply tle_spec. lia. Qed.

Lemma tle_lt_trans a b c : tle a b -> ts_ltb b c = true -> tle a c.
Proof. rewrite !tle_spec, ts_ltb_spec. lia. Qed.

Lemma lt_tle_false a b : ts_ltb a b = true -> tle b a -> False.
Proof. rewrite tle_spec, ts_ltb_spec. lia. Qed.

(* ------------------------------------------------------------ the invariant *)

Definition mt_of (f : N * N * ts) : ts := snd f.

Definition inv (s : tls) : Prop :=
  tle (c_idx s) (c_clock s) /\ tle (mt_of (c_file s)) (c_clock s) /\
  match c_entry s with
  | None => True
  | Some e => c_file s = e \/ tle (c_idx s) (mt_of (c_file s))
  end.

Lemma inv_step s e : inv s -> (match e with ETouchIdx => False | _ => True end) -> inv (tls_step s e).
Proof.
  intros (H1 & H2 & H3) He. destruct e as [t|c sz| |]; cbn [tls_step].
  - destruct (ts_ltb (c_clock s) t && ts_wf t) eqn:E; [|repeat split; assumption].
    apply andb_true_iff in E as [E _].
    unfold inv; cbn [c_clock c_file c_entry c_idx]. repeat split.
    + eapply tle_lt_trans; eassumption.
    + eapply tle_lt_trans; eassumption.
    + exact H3.
  - unfold inv; cbn [c_clock c_file c_entry c_idx mt_of snd]. repeat split.
    + exact H1.
    + apply tle_refl.
    + destruct (c_entry s); [right; exact H1|exact I].
  - unfold inv; cbn [c_clock c_file c_entry c_idx]. repeat split.
    + apply tle_refl.
    + exact H2.
    + now left.
  - contradiction.
Qed.

Lemma inv_run h : forall s, inv s -> no_touch h = true -> inv (tls_run s h).
Proof.
  induction h as [|e h IH]; intros s Hi Hn; [exact Hi|].
  cbn [no_touch forallb] in Hn. apply andb_true_iff in Hn as [He Hn].
  cbn [tls_run fold_left]. apply IH; [|exact Hn]. apply inv_step; [exact Hi|].
  destruct e; try exact I. discriminate.
Qed.

Lemma tls_shortcut_sound c sz h :
  no_touch h = true ->
  tls_matches (tls_run (tls_init c sz) h) = true -> tls_same (tls_run (tls_init c sz) h) = true.
Proof.
  intros Hn Hm.
  assert (Hi : inv (tls_run (tls_init c sz) h)).
  { apply inv_run; [|exact Hn]. unfold inv, tls_init; cbn [c_clock c_file c_entry c_idx mt_of snd].
    repeat split; try apply tle_refl. }
  destruct Hi as (_ & _ & H3). unfold tls_matches in Hm. unfold tls_same.
  destruct (c_entry _) as [[[ec esz] emt]|]; [|discriminate].
  destruct (c_file _) as [[fc fsz] fmt] eqn:EF. cbn [mt_of snd] in H3.
  apply andb_true_iff in Hm as [Hm Hlt].
  destruct H3 as [H3|H3].
  - inversion H3; subst. apply N.eqb_refl.
  - exfalso. eapply lt_tle_false; eassumption.
Qed.
