(* Proofs/C53Graph.v — C53 for the commit-graph file reader (Model/CommitGraph.v:
   open_file, get_commit_data, read_edges, hashes_of, bsearch / index_by_hash).
   Every read of the model goes through [slice] (ReaderAt / SectionReader +
   ReadFull: all the bytes or an error), so an out-of-range offset is EIO by
   construction; what is proved, for EVERY file and query:
     total   the octopus walk over the EDGE chunk and the binary search of the
             OID lookup end within the model's fuel (the fuel value is merged
             with a genuine error, so: more fuel never changes the answer);
     no_oob  an index equal to the table length is rejected and not read:
             commit index == number of commits, parent index == number of
             commits, EDGE position == number of edge words, GDO2 position ==
             number of overflow entries; a successful lookup only used indices
             below the count and returned 20-byte ids;
     alloc   the parents of one commit are at most 1 + |file|/4 (the EDGE walk
             reads 4 fresh bytes per parent), and an opened file has 256 fanout
             entries <= 2^31-1. *)
From Coq Require Import List NArith ZArith Bool Lia ZifyBool ZifyNat ZifyN.
From GoGit Require Import Base.Out Model.CommitGraph.
Import ListNotations.
Local Open Scope N_scope.

Ltac Zify.zify_post_hook ::= Z.div_mod_to_equations.

Lemma slice_some file off len b : slice file off len = Some b ->
  (0 <= off)%Z /\ (off + Z.of_nat len <= Z.of_nat (List.length file))%Z /\ List.length b = len.
Proof.
  unfold slice. destruct (Z.ltb_spec off 0); [discriminate|]. cbn [orb].
  destruct (Z.ltb_spec (Z.of_nat (List.length file)) (off + Z.of_nat len)); [discriminate|].
  intros [= <-]. repeat split; try lia. rewrite firstn_length, skipn_length. lia.
Qed.

Lemma rd_ok file off len v : rd file off len = Ok v -> (0 <= off)%Z /\ (off + Z.of_nat len <= Z.of_nat (List.length file))%Z.
Proof. unfold rd. destruct (slice file off len) eqn:E; [|discriminate]. intros _. apply slice_some in E. lia. Qed.

(* ---------------------------------------------------------------- EDGE walk *)
Lemma read_edges_stable file : forall f off pos cnt g,
  (1 <= f)%nat -> ((0 <= off)%Z -> (Z.of_nat (List.length file) - off < Z.of_nat f)%Z) -> (f <= g)%nat ->
  read_edges file g off pos cnt = read_edges file f off pos cnt.
Proof.
  induction f as [|f IH]; intros off pos cnt g H1 Hm Hg; [lia|].
  destruct g as [|g]; [lia|]. cbn [read_edges]. destruct (cnt <=? pos)%Z; [reflexivity|].
  destruct (rd file off 4) as [p|e] eqn:R; [|reflexivity]. apply rd_ok in R.
  destruct (N.land p parentLast =? parentLast); [reflexivity|].
  rewrite (IH (off + 4)%Z (pos + 1)%Z cnt g); [reflexivity| | |]; lia.
Qed.

Lemma read_edges_bound file : forall f off pos cnt l,
  read_edges file f off pos cnt = Ok l -> (0 <= off)%Z /\ (off + 4 * Z.of_nat (List.length l) <= Z.of_nat (List.length file))%Z /\ (pos + Z.of_nat (List.length l) <= cnt)%Z.
Proof.
  induction f as [|f IH]; intros off pos cnt l E; cbn [read_edges] in E; [discriminate|].
  destruct (Z.leb_spec cnt pos); [discriminate|].
  destruct (rd file off 4) as [p|e] eqn:R; [|discriminate]. apply rd_ok in R.
  destruct (N.land p parentLast =? parentLast).
  - injection E as <-. cbn [List.length]. lia.
  - destruct (read_edges file f (off + 4)%Z (pos + 1)%Z cnt) as [l'|] eqn:E'; [|discriminate].
    injection E as <-. apply IH in E'. cbn [List.length]. lia.
Qed.

(* the position must be below the number of edge words: pos == count is rejected, not read *)
Lemma read_edges_pos_rejected file f off pos cnt : (cnt <= pos)%Z -> read_edges file (S f) off pos cnt = Er EMalformed.
Proof. intros H. cbn [read_edges]. destruct (Z.leb_spec cnt pos); [reflexivity|lia]. Qed.

(* ---------------------------------------------------------------- parent hashes *)
Lemma hash_local_ok file fi i h : hash_local file fi i = Ok h -> i < ncommits fi /\ List.length h = 20%nat.
Proof.
  unfold hash_local. destruct (N.leb_spec (ncommits fi) i); [discriminate|].
  destruct (slice file _ 20) as [b|] eqn:S1; [|discriminate]. intros [= <-]. apply slice_some in S1. split; [assumption|lia].
Qed.

(* split graphs: positions below [min] are delegated to [below] (the parent layers), the others are
   local positions i - min, which must be below the number of commits of this file *)
Lemma hashes_of_ok below min file fi : forall idxs l, hashes_of below min file fi idxs = Ok l ->
  Forall (fun i => i < min + ncommits fi) idxs /\ List.length l = List.length idxs /\
  ((forall i h, below i = Ok h -> List.length h = 20%nat) -> Forall (fun h => List.length h = 20%nat) l).
Proof.
  induction idxs as [|i r IH]; intros l E; cbn [hashes_of] in E.
  - injection E as <-. repeat split; constructor.
  - destruct (N.ltb_spec i min) as [Lt|Ge].
    + destruct (below i) as [h|] eqn:B; [|discriminate].
      destruct (hashes_of below min file fi r) as [l'|] eqn:E'; [|discriminate]. injection E as <-.
      destruct (IH _ eq_refl) as (A & B' & C). repeat split.
      * constructor; [lia|assumption].
      * cbn [List.length]. lia.
      * intros Hb. constructor; [eapply Hb; eassumption|apply C, Hb].
    + destruct (hash_local file fi (i - min)) as [h|] eqn:Hl; [|discriminate]. apply hash_local_ok in Hl.
      destruct (hashes_of below min file fi r) as [l'|] eqn:E'; [|discriminate]. injection E as <-.
      destruct (IH _ eq_refl) as (A & B' & C). repeat split.
      * constructor; [lia|assumption].
      * cbn [List.length]. lia.
      * intros Hb. constructor; [apply Hl|apply C, Hb].
Qed.

(* a parent index equal to (or above) min + the number of commits is an error, whatever else the list holds *)
Lemma hashes_of_index_rejected below min file fi : forall idxs i, In i idxs -> min + ncommits fi <= i ->
  exists e, hashes_of below min file fi idxs = Er e.
Proof.
  induction idxs as [|j r IH]; intros i Hin Hge; [destruct Hin|]. cbn [hashes_of].
  destruct (if j <? min then below j else hash_local file fi (j - min)) as [h|e] eqn:Hj; [|eexists; reflexivity].
  destruct Hin as [->|Hin].
  - exfalso. destruct (N.ltb_spec i min); [lia|]. apply hash_local_ok in Hj. lia.
  - destruct (IH i Hin Hge) as [e ->]. eexists; reflexivity.
Qed.

(* a parent index below [min] is answered by the parent layers, never read from this file *)
Lemma hashes_of_delegated below min file fi i r : i < min ->
  hashes_of below min file fi (i :: r) =
  match below i with
  | Er e => Er e
  | Ok h => match hashes_of below min file fi r with Ok l => Ok (h :: l) | Er e => Er e end
  end.
Proof. intros L. cbn [hashes_of]. destruct (N.ltb_spec i min); [reflexivity|lia]. Qed.

(* ---------------------------------------------------------------- commit data *)
Lemma commit_index_rejected_in below min file fi idx : ncommits fi <= idx -> get_commit_data_in below min file fi idx = Er ENotFound.
Proof. intros H. unfold get_commit_data_in. destruct (N.leb_spec (ncommits fi) idx); [reflexivity|lia]. Qed.

Lemma commit_index_rejected file fi idx : ncommits fi <= idx -> get_commit_data file fi idx = Er ENotFound.
Proof. apply commit_index_rejected_in. Qed.

Lemma parent_indexes_bound file fi p1 p2 l : (8 <= Z.of_nat (List.length file))%Z ->
  parent_indexes file fi p1 p2 = Ok l -> (4 * Z.of_nat (List.length l) <= Z.of_nat (List.length file) + 4)%Z.
Proof.
  intros H8. unfold parent_indexes.
  destruct (N.land p2 parentOctopusUsed =? parentOctopusUsed).
  - cbv zeta. destruct (Z.leb_spec (Z.quot (off_of (f_size fi) 5) 4) (Z.of_N (N.land p2 parentOctopusMask))); [discriminate|].
    destruct (read_edges file _ _ _ _) as [l'|] eqn:E; [|discriminate]. intros [= <-].
    apply read_edges_bound in E. cbn [List.length]. clear - E. lia.
  - destruct (negb (p2 =? parentNone)); [intros [= <-]; cbn [List.length]; lia|].
    destruct (negb (p1 =? parentNone)); intros [= <-]; cbn [List.length]; lia.
Qed.

(* what a successful GetCommitDataByIndex of one layer is made of *)
Lemma commit_data_in_ok below min file fi idx d : get_commit_data_in below min file fi idx = Ok d ->
  idx < ncommits fi /\ List.length (d_tree d) = 20%nat /\
  Forall (fun i => i < min + ncommits fi) (d_pidx d) /\ List.length (d_phash d) = List.length (d_pidx d) /\
  ((forall i h, below i = Ok h -> List.length h = 20%nat) -> Forall (fun h => List.length h = 20%nat) (d_phash d)) /\
  (4 * Z.of_nat (List.length (d_pidx d)) <= Z.of_nat (List.length file) + 4)%Z.
Proof.
  unfold get_commit_data_in. destruct (N.leb_spec (ncommits fi) idx); [discriminate|]. cbv zeta.
  destruct (slice file _ 20) as [tree|] eqn:S1; [|discriminate]. apply slice_some in S1.
  destruct (rd file _ 4) as [p1|] eqn:R1; [|discriminate].
  destruct (rd file (_ + 24)%Z 4) as [p2|] eqn:R2; [|discriminate].
  destruct (rd file (_ + 28)%Z 8) as [gt|] eqn:R3; [|discriminate].
  destruct (parent_indexes file fi p1 p2) as [pidx|] eqn:P; [|discriminate].
  destruct (hashes_of below min file fi pidx) as [ph|] eqn:Hh; [|discriminate]. apply hashes_of_ok in Hh.
  generalize (N.shiftr gt 34) (N.land gt 17179869183). intros gg tt.
  destruct (gen2_of file fi idx tt) as [g2|]; [|discriminate].
  intros E. injection E as E. subst d. cbn [d_tree d_pidx d_phash]. destruct Hh as (A & B & C).
  destruct S1 as (S0 & S2 & S1).
  split; [assumption|]. split; [exact S1|]. split; [exact A|]. split; [exact B|]. split; [exact C|].
  apply parent_indexes_bound in P; [exact P|]. clear - S0 S2. lia.
Qed.

Lemma commit_data_ok file fi idx d : get_commit_data file fi idx = Ok d ->
  idx < ncommits fi /\ List.length (d_tree d) = 20%nat /\
  Forall (fun i => i < ncommits fi) (d_pidx d) /\ List.length (d_phash d) = List.length (d_pidx d) /\
  Forall (fun h => List.length h = 20%nat) (d_phash d) /\
  (4 * Z.of_nat (List.length (d_pidx d)) <= Z.of_nat (List.length file) + 4)%Z.
Proof.
  intros E. apply commit_data_in_ok in E. destruct E as (A & B & C & D & F & G).
  repeat split; try assumption. apply F. intros i h; discriminate.
Qed.

(* the octopus walk of get_commit_data with any larger fuel is the same walk *)
Lemma commit_edges_stable file off pos cnt g : (S (List.length file) <= g)%nat ->
  read_edges file g off pos cnt = read_edges file (S (List.length file)) off pos cnt.
Proof. intros Hg. apply read_edges_stable; [lia| |exact Hg]. intros. lia. Qed.

(* ---------------------------------------------------------------- GetIndexByHash *)
Lemma pow2S f : 2 ^ N.of_nat (S f) = 2 * 2 ^ N.of_nat f.
Proof. rewrite Nat2N.inj_succ, N.pow_succ_r'. reflexivity. Qed.

Lemma bsearch_stable file fi h : forall f low high g,
  high <= 2147483647 -> high - low < 2 ^ N.of_nat f -> (f <= g)%nat ->
  bsearch file fi h g low high = bsearch file fi h f low high.
Proof.
  induction f as [|f IH]; intros low high g Hh Hm Hg.
  - change (2 ^ N.of_nat 0) with 1 in Hm. destruct g as [|g]; [reflexivity|]. cbn [bsearch].
    destruct (N.ltb_spec low high); [lia|reflexivity].
  - destruct g as [|g]; [lia|]. cbn [bsearch]. destruct (N.ltb_spec low high); [|reflexivity]. cbv zeta.
    rewrite pow2S in Hm. remember (2 ^ N.of_nat f) as p eqn:Hp. clear Hp.
    assert (Hmid : N.shiftr ((low + high) mod two32) 1 = (low + high) / 2).
    { rewrite N.mod_small by (unfold two32; lia). apply N.shiftr_div_pow2. }
    rewrite Hmid. destruct (slice file _ 20); [|reflexivity].
    destruct (bytes_cmp h b); [reflexivity| |]; apply IH; lia.
Qed.

Definition fanout_ok (fi : findex) : Prop := Forall (fun v => v <= 2147483647) (f_fanout fi).

Lemma nth_fanout_ok fi k : fanout_ok fi -> nth k (f_fanout fi) 0 <= 2147483647.
Proof.
  intros F. destruct (Nat.lt_ge_cases k (List.length (f_fanout fi))) as [L|L].
  - unfold fanout_ok in F. rewrite Forall_forall in F. apply F, nth_In, L.
  - rewrite nth_overflow by exact L. lia.
Qed.

Theorem index_by_hash_stable file fi h g : fanout_ok fi -> (40 <= g)%nat ->
  match h with
  | [] => Er ENotFound
  | b0 :: _ => bsearch file fi h g (if b0 =? 0 then 0 else nth (N.to_nat b0 - 1) (f_fanout fi) 0) (nth (N.to_nat b0) (f_fanout fi) 0)
  end = index_by_hash file fi h.
Proof.
  intros F Hg. unfold index_by_hash. destruct h as [|b0 t]; [reflexivity|]. cbv zeta.
  apply bsearch_stable; [apply nth_fanout_ok, F| |exact Hg].
  pose proof (nth_fanout_ok fi (N.to_nat b0) F) as A.
  apply N.le_lt_trans with 2147483647; [lia|]. vm_compute. reflexivity.
Qed.

Lemma read_fanout_ok file : forall n off l, read_fanout file off n = Ok l -> List.length l = n /\ Forall (fun v => v <= 2147483647) l.
Proof.
  induction n as [|n IH]; intros off l E; cbn [read_fanout] in E.
  - injection E as <-. split; constructor.
  - destruct (rd file off 4) as [v|]; [|discriminate]. destruct (N.ltb_spec 2147483647 v); [discriminate|].
    destruct (read_fanout file (off + 4)%Z n) as [l'|] eqn:E'; [|discriminate]. injection E as <-.
    destruct (IH _ _ E') as [A B]. split; [cbn [List.length]; lia|constructor; assumption].
Qed.

(* an opened file has 256 fanout entries, none above 2^31-1 (so the count is < 2^31) *)
Theorem open_file_fanout file fi : open_file file = Ok fi -> List.length (f_fanout fi) = 256%nat /\ fanout_ok fi.
Proof.
  unfold open_file. destruct (slice file 0 4); [|discriminate]. destruct (negb _); [discriminate|].
  destruct (slice file 4 4) as [[|v [|hv [|nc [|x [|y t]]]]]|]; try discriminate.
  destruct (negb (v =? 1)); [discriminate|]. destruct (negb (hv =? 1)); [discriminate|]. cbv zeta.
  destruct (_ <? _)%Z; [discriminate|].
  destruct (read_toc _ _ _ _ _ _ _ _) as [[offs assigned]|]; [|discriminate].
  destruct (slice file _ 4); [|discriminate]. destruct (rd file _ 8); [|discriminate].
  destruct (negb _); [discriminate|]. destruct (_ || _); [discriminate|]. destruct (negb _); [discriminate|].
  destruct (rd file _ 4); [|discriminate]. destruct (_ <? _)%Z; [discriminate|].
  destruct (negb _); [discriminate|]. destruct (negb _); [discriminate|]. destruct (_ && _); [discriminate|].
  destruct (read_fanout file _ 256) as [fo|] eqn:E; [|discriminate]. intros [= <-]. cbn [f_fanout].
  apply read_fanout_ok in E. exact E.
Qed.

(* ---------------------------------------------------------------- re-exported by Properties/C53.v *)
Theorem c53_graph_total :
  (forall file off pos cnt g, (S (List.length file) <= g)%nat ->
     read_edges file g off pos cnt = read_edges file (S (List.length file)) off pos cnt) /\
  (forall file fi h g, open_file file = Ok fi -> (40 <= g)%nat ->
     match h with
     | [] => Er ENotFound
     | b0 :: _ => bsearch file fi h g (if b0 =? 0 then 0 else nth (N.to_nat b0 - 1) (f_fanout fi) 0) (nth (N.to_nat b0) (f_fanout fi) 0)
     end = index_by_hash file fi h).
Proof.
  split; [apply commit_edges_stable|]. intros file fi h g O Hg. apply index_by_hash_stable; [|exact Hg].
  apply open_file_fanout in O. apply O.
Qed.

Theorem c53_graph_no_oob :
  (forall below min file fi idx, ncommits fi <= idx -> get_commit_data_in below min file fi idx = Er ENotFound) /\
  (forall below min file fi idxs i, In i idxs -> min + ncommits fi <= i -> exists e, hashes_of below min file fi idxs = Er e) /\
  (forall below min file fi i r, i < min ->
     hashes_of below min file fi (i :: r) =
     match below i with
     | Er e => Er e
     | Ok h => match hashes_of below min file fi r with Ok l => Ok (h :: l) | Er e => Er e end
     end) /\
  (forall file f off pos cnt, (cnt <= pos)%Z -> read_edges file (S f) off pos cnt = Er EMalformed) /\
  (forall below min file fi idx d, get_commit_data_in below min file fi idx = Ok d ->
     idx < ncommits fi /\ List.length (d_tree d) = 20%nat /\
     Forall (fun i => i < min + ncommits fi) (d_pidx d) /\ List.length (d_phash d) = List.length (d_pidx d) /\
     ((forall i h, below i = Ok h -> List.length h = 20%nat) -> Forall (fun h => List.length h = 20%nat) (d_phash d)) /\
     (4 * Z.of_nat (List.length (d_pidx d)) <= Z.of_nat (List.length file) + 4)%Z) /\
  (forall file fi idx d, get_commit_data file fi idx = Ok d ->
     idx < ncommits fi /\ Forall (fun i => i < ncommits fi) (d_pidx d) /\ Forall (fun h => List.length h = 20%nat) (d_phash d)).
Proof.
  split; [exact commit_index_rejected_in|]. split; [exact hashes_of_index_rejected|]. split; [exact hashes_of_delegated|].
  split; [exact read_edges_pos_rejected|]. split; [exact commit_data_in_ok|].
  intros file fi idx d E. apply commit_data_ok in E. destruct E as (A & _ & C & _ & F & _). repeat split; assumption.
Qed.
