(* Proofs/C43HeapOrd.v — the gods binary heap with go-git's comparator is a
   max-heap on committer time: bubbleUp / bubbleDown restore the heap order,
   Pop returns a commit whose time is maximal among the contents; hence the
   committer-time walker always yields a commit that is at least as recent as
   every pending one (Proofs/WorklistOrd.v). *)
From Coq Require Import List Arith ZArith Bool Lia.
From GoGit Require Import Spec.Dag Model.CommitWalk Proofs.Worklist Proofs.C43 Proofs.C43Heap Proofs.WorklistOrd.
Import ListNotations.

Ltac Zify.zify_post_hook ::= Z.div_mod_to_equations.

Section HeapOrd.
  Variable g : dag.
  Let T := ctime g.
  Let par (i : nat) := (i - 1) / 2.

  Definition heap_ok (l : list node) : Prop :=
    forall i, 0 < i < length l -> (T (nth i l O) <= T (nth (par i) l O))%Z.

  Lemma par_lt : forall i, 0 < i -> par i < i.
  Proof. intros i H. unfold par. apply Nat.div_lt_upper_bound; lia. Qed.

  Lemma par_child : forall i idx, 0 < i -> par i = idx -> i = 2 * idx + 1 \/ i = 2 * idx + 2.
  Proof.
    intros i idx H E. unfold par in E.
    pose proof (Nat.div_mod (i - 1) 2 (ltac:(lia))) as D. rewrite E in D.
    pose proof (Nat.mod_upper_bound (i - 1) 2 (ltac:(lia))). lia.
  Qed.

  Lemma par_l : forall idx, par (2 * idx + 1) = idx.
  Proof. intros. unfold par. replace (2 * idx + 1 - 1) with (idx * 2) by lia. apply Nat.div_mul. lia. Qed.
  Lemma par_r : forall idx, par (2 * idx + 2) = idx.
  Proof.
    intros. unfold par. replace (2 * idx + 2 - 1) with (1 + idx * 2) by lia.
    rewrite Nat.div_add by lia. reflexivity.
  Qed.

  Lemma hcmp_le : forall a b, (hcmp g a b <=? 0)%Z = true <-> (T b <= T a)%Z.
  Proof. intros a b'. unfold hcmp, T. destruct (ctime g a <? ctime g b')%Z eqn:E; lia. Qed.
  Lemma hcmp_gt : forall a b, (0 <? hcmp g a b)%Z = true <-> (T a < T b)%Z.
  Proof. intros a b'. unfold hcmp, T. destruct (ctime g a <? ctime g b')%Z eqn:E; lia. Qed.

  (* ---------------------------------------------------------------- bubbleUp *)
  Definition up_pre (idx : nat) (l : list node) : Prop :=
    (forall i, 0 < i < length l -> i <> idx -> (T (nth i l O) <= T (nth (par i) l O))%Z) /\
    (forall i, 0 < i < length l -> par i = idx -> 0 < idx -> (T (nth i l O) <= T (nth (par idx) l O))%Z).

  Lemma bubble_up_ok : forall fuel idx l, idx < length l -> idx < fuel -> up_pre idx l ->
    heap_ok (bubble_up g fuel idx l).
  Proof.
    induction fuel as [|f IH]; intros idx l Hidx Hf [U1 U2]; [lia|].
    cbn [bubble_up]. destruct (idx =? 0) eqn:E0.
    - apply Nat.eqb_eq in E0. subst idx. intros i Hi. apply U1; lia.
    - apply Nat.eqb_neq in E0. fold (par idx).
      assert (Hp : par idx < idx) by (apply par_lt; lia).
      destruct (hcmp g (nth (par idx) l O) (nth idx l O) <=? 0)%Z eqn:Ec.
      + apply hcmp_le in Ec. intros i Hi. destruct (Nat.eq_dec i idx) as [->|Hne]; [exact Ec | now apply U1].
      + assert (Hlt : (T (nth (par idx) l O) < T (nth idx l O))%Z).
        { destruct (Z.lt_ge_cases (T (nth (par idx) l O)) (T (nth idx l O))) as [H|H]; [exact H|].
          apply hcmp_le in H. congruence. }
        set (p := par idx) in *.
        apply IH; [rewrite swap_length; lia | lia |].
        assert (N : forall k, k < length l -> nth k (swap idx p l) O =
                      if k =? idx then nth p l O else if k =? p then nth idx l O else nth k l O)
          by (intros k Hk; now apply swap_nth).
        unfold up_pre. rewrite swap_length. split.
        * intros i Hi Hne.
          assert (Hpi : par i < i) by (apply par_lt; lia).
          rewrite (N i) by lia. rewrite (N (par i)) by lia.
          destruct (i =? idx) eqn:Ei.
          -- apply Nat.eqb_eq in Ei. subst i. fold p.
             assert (E1 : (p =? idx) = false) by (apply Nat.eqb_neq; lia).
             rewrite E1, Nat.eqb_refl. lia.
          -- apply Nat.eqb_neq in Ei.
             assert (E2 : (i =? p) = false) by now apply Nat.eqb_neq. rewrite E2.
             destruct (par i =? idx) eqn:Eq.
             ++ apply Nat.eqb_eq in Eq. apply (U2 i); auto; lia.
             ++ destruct (par i =? p) eqn:Eq2.
                ** pose proof (U1 i (ltac:(lia)) Ei). apply Nat.eqb_eq in Eq2. rewrite Eq2 in H. lia.
                ** apply U1; auto.
        * intros i Hi Hpar Hp0.
          assert (Hpp : par p < p) by (apply par_lt; lia).
          rewrite (N i) by lia. rewrite (N (par p)) by lia.
          assert (E3 : (par p =? idx) = false) by (apply Nat.eqb_neq; lia).
          assert (E4 : (par p =? p) = false) by (apply Nat.eqb_neq; lia).
          rewrite E3, E4.
          pose proof (U1 p (ltac:(lia)) (ltac:(lia))) as Hpge.
          destruct (i =? idx) eqn:Ei; [exact Hpge|].
          apply Nat.eqb_neq in Ei.
          assert (E5 : (i =? p) = false) by (apply Nat.eqb_neq; intros ->; lia).
          rewrite E5. pose proof (U1 i (ltac:(lia)) Ei) as Hi2. rewrite Hpar in Hi2. lia.
  Qed.

  (* -------------------------------------------------------------- bubbleDown *)
  Definition down_pre (idx : nat) (l : list node) : Prop :=
    (forall i, 0 < i < length l -> par i <> idx -> (T (nth i l O) <= T (nth (par i) l O))%Z) /\
    (forall i, 0 < i < length l -> par i = idx -> 0 < idx -> (T (nth i l O) <= T (nth (par idx) l O))%Z).

  Lemma bubble_down_ok : forall fuel idx l, length l - idx <= fuel -> down_pre idx l ->
    heap_ok (bubble_down g fuel idx l).
  Proof.
    induction fuel as [|f IH]; intros idx l Hf [D1 D2].
    - cbn [bubble_down]. intros i Hi. apply D1; [exact Hi|]. intros E.
      destruct (par_child i idx (ltac:(lia)) E); lia.
    - cbn [bubble_down]. destruct (2 * idx + 1 <? length l) eqn:El.
      + apply Nat.ltb_lt in El.
        set (li := 2 * idx + 1) in *. set (ri := 2 * idx + 2).
        set (si := if (ri <? length l) && (0 <? hcmp g (nth li l O) (nth ri l O))%Z then ri else li).
        (* si is a child of idx holding the larger time *)
        assert (Hsi : si < length l /\ par si = idx /\ idx < si /\
                      forall i, 0 < i < length l -> par i = idx -> (T (nth i l O) <= T (nth si l O))%Z).
        { unfold si. destruct (ri <? length l) eqn:Er; simpl.
          - apply Nat.ltb_lt in Er. destruct (0 <? hcmp g (nth li l O) (nth ri l O))%Z eqn:Ec.
            + apply hcmp_gt in Ec. repeat split; try (unfold ri; lia); [apply par_r|].
              intros i Hi Hp. destruct (par_child i idx (ltac:(lia)) Hp) as [->| ->]; fold li; fold ri; lia.
            + assert (Hge : (T (nth ri l O) <= T (nth li l O))%Z).
              { destruct (Z.lt_ge_cases (T (nth li l O)) (T (nth ri l O))) as [H|H]; [|lia].
                apply hcmp_gt in H. congruence. }
              repeat split; try (unfold li; lia); [apply par_l|].
              intros i Hi Hp. destruct (par_child i idx (ltac:(lia)) Hp) as [->| ->]; fold li; fold ri; lia.
          - apply Nat.ltb_ge in Er. repeat split; try (unfold li; lia); [apply par_l|].
            intros i Hi Hp. destruct (par_child i idx (ltac:(lia)) Hp) as [->| ->]; fold li; fold ri; [lia|].
            unfold ri in *. lia. }
        destruct Hsi as [S1 [S2 [S3 S4]]].
        destruct (0 <? hcmp g (nth idx l O) (nth si l O))%Z eqn:Ec.
        * apply hcmp_gt in Ec.
          apply IH; [rewrite swap_length; lia|].
          assert (N : forall k, k < length l -> nth k (swap idx si l) O =
                        if k =? idx then nth si l O else if k =? si then nth idx l O else nth k l O)
            by (intros k Hk; now apply swap_nth).
          unfold down_pre. rewrite swap_length. split.
          -- intros i Hi Hne.
             assert (Hpi : par i < i) by (apply par_lt; lia).
             rewrite (N i) by lia. rewrite (N (par i)) by lia.
             destruct (i =? idx) eqn:Ei.
             ++ apply Nat.eqb_eq in Ei. subst i.
                assert (E1 : (par idx =? idx) = false) by (apply Nat.eqb_neq; lia).
                assert (E2 : (par idx =? si) = false) by (apply Nat.eqb_neq; lia).
                rewrite E1, E2. apply (D2 si); auto; lia.
             ++ apply Nat.eqb_neq in Ei. destruct (i =? si) eqn:Eis.
                ** apply Nat.eqb_eq in Eis. subst i. rewrite S2, Nat.eqb_refl. lia.
                ** apply Nat.eqb_neq in Eis. destruct (par i =? idx) eqn:Eq.
                   --- apply Nat.eqb_eq in Eq. apply S4; [lia | exact Eq].
                   --- assert (E3 : (par i =? si) = false) by now apply Nat.eqb_neq.
                       rewrite E3. apply D1; [lia|]. now apply Nat.eqb_neq.
          -- intros i Hi Hpar Hs0.
             assert (Hgt : si < i) by (rewrite <- Hpar; apply par_lt; lia).
             rewrite (N i) by lia. rewrite (N (par si)) by lia.
             assert (E1 : (i =? idx) = false) by (apply Nat.eqb_neq; lia).
             assert (E2 : (i =? si) = false) by (apply Nat.eqb_neq; lia).
             rewrite E1, E2, S2, Nat.eqb_refl.
             pose proof (D1 i (ltac:(lia)) (ltac:(lia))) as H. rewrite Hpar in H. exact H.
        * assert (Hge : (T (nth si l O) <= T (nth idx l O))%Z).
          { destruct (Z.lt_ge_cases (T (nth idx l O)) (T (nth si l O))) as [H|H]; [|lia].
            apply hcmp_gt in H. congruence. }
          intros i Hi. destruct (Nat.eq_dec (par i) idx) as [E|E].
          -- rewrite E. pose proof (S4 i Hi E). lia.
          -- now apply D1.
      + apply Nat.ltb_ge in El. intros i Hi. apply D1; [exact Hi|]. intros E.
        destruct (par_child i idx (ltac:(lia)) E); lia.
  Qed.

  (* ------------------------------------------------------------- Push / Pop *)
  Lemma heap_push_ok : forall x l, heap_ok l -> heap_ok (heap_push g x l).
  Proof.
    intros x l H. unfold heap_push.
    assert (Hlen : length (l ++ [x]) = S (length l)) by (rewrite app_length; simpl; lia).
    apply bubble_up_ok; try lia. rewrite Hlen. replace (S (length l) - 1) with (length l) by lia.
    split.
    - intros i Hi Hne. assert (Hil : i < length l) by lia.
      assert (Hpi : par i < i) by (apply par_lt; lia).
      rewrite !app_nth1 by lia. apply H. lia.
    - intros i Hi Hp. assert (par i < i) by (apply par_lt; lia). lia.
  Qed.

  Lemma nth_removelast : forall (l : list node) k, S k < length l -> nth k (removelast l) O = nth k l O.
  Proof.
    induction l as [|a r IH]; intros k H; [simpl in H; lia|].
    destruct r as [|b r']; [simpl in H; lia|].
    change (removelast (a :: b :: r')) with (a :: removelast (b :: r')).
    destruct k; [reflexivity|]. simpl nth. apply IH. simpl in *. lia.
  Qed.

  Lemma heap_root_max : forall l, heap_ok l -> forall i, i < length l -> (T (nth i l O) <= T (nth 0 l O))%Z.
  Proof.
    intros l H i. induction i as [i IH] using lt_wf_ind. intros Hi.
    destruct i as [|i']; [lia|].
    assert (Hp : par (S i') < S i') by (apply par_lt; lia).
    pose proof (H (S i') (ltac:(lia))). pose proof (IH (par (S i')) Hp (ltac:(lia))). lia.
  Qed.

  Lemma heap_pop_ok : forall l c l', heap_ok l -> heap_pop g l = Some (c, l') ->
    heap_ok l' /\ forall x, In x l -> (T x <= T c)%Z.
  Proof.
    intros l c l' H Hp. destruct l as [|v t]; [discriminate|]. simpl in Hp. injection Hp as Hc Hl. subst c.
    split.
    - rewrite <- Hl. destruct t as [|a r].
      + simpl. intros i Hi. simpl in Hi. lia.
      + set (m := last (a :: r) O :: removelast (a :: r)).
        destruct (last_removelast_spec (a :: r) (ltac:(discriminate))) as [Lm _]. fold m in Lm.
        apply bubble_down_ok; [lia|]. split.
        * intros i Hi Hne.
          assert (Hpi : par i < i) by (apply par_lt; lia).
          assert (Hp0 : 0 < par i) by lia.
          assert (Hlen : length (removelast (a :: r)) = length r).
          { unfold m in Lm. change (S (length (removelast (a :: r))) = S (length r)) in Lm. lia. }
          assert (Hi' : i < S (length r)).
          { unfold m in Hi. change (0 < i < S (length (removelast (a :: r)))) in Hi. lia. }
          unfold m. destruct i as [|i']; [lia|]. destruct (par (S i')) as [|q] eqn:Eq; [lia|].
          change (nth (S i') (last (a :: r) O :: removelast (a :: r)) O) with (nth i' (removelast (a :: r)) O).
          change (nth (S q) (last (a :: r) O :: removelast (a :: r)) O) with (nth q (removelast (a :: r)) O).
          rewrite !nth_removelast by (simpl length; lia).
          pose proof (H (S i') (ltac:(simpl length; lia))) as Hh.
          rewrite Eq in Hh. exact Hh.
        * intros i Hi Hpar H0. lia.
    - intros x Hx. destruct (In_nth _ _ O Hx) as [k [Hk Ek]]. subst x.
      apply (heap_root_max (v :: t) H k Hk).
  Qed.

  Lemma heap_pushes_ok : forall add h, heap_ok h -> heap_ok (fold_left (fun hh p => heap_push g p hh) add h).
  Proof.
    induction add as [|p r IH]; intros h H; simpl; [exact H|]. apply IH. now apply heap_push_ok.
  Qed.
End HeapOrd.

(* ------------------------------------------------ the committer-time walker *)
Definition newest_first (g : dag) (I : list node) (l : list node) : Prop :=
  forall l1 c l2, l = l1 ++ c :: l2 ->
  forall y p, In y l1 -> In p (parents g y) -> ~ In p I -> ~ In p l1 -> (ctime g p <= ctime g c)%Z.

Theorem ctime_walk_newest_first : forall g stop (I : list node) (s : node) fuel,
  (forall x : node, In x [s] -> x < nnodes g) -> dag_closed g = true ->
  newest_first g I (fst (ctime_walk g stop fuel s I)).
Proof.
  intros g stop I s fuel Hs Hc. unfold ctime_walk.
  change (heap_push g s []) with [s]. rewrite (ctime_loop_eq g Hc stop fuel [s] I []) by exact Hs.
  unfold ct_gloop.
  apply (gloop_frontier (parents g) (list node) (fun l => l) (heap_pop g) (ct_push g) (ct_pushed g)
           (heap_ok g) (fun x c => (ctime g x <= ctime g c)%Z)).
  - intros b c b' Hp. now destruct (heap_pop_spec g _ _ _ Hp).
  - intros c sn b x. unfold ct_push. now destruct (heap_pushes_spec g (ct_pushed g c sn) b) as [_ Hq].
  - intros c sn p Hp Hn. unfold ct_pushed, unseen_parents. apply filter_In. split; [exact Hp|].
    apply negb_true_iff. now apply mem_false_In.
  - intros b c b' Hg Hp. now destruct (heap_pop_ok g b c b' Hg Hp).
  - intros c sn b Hg. unfold ct_push. now apply heap_pushes_ok.
  - intros b c b' Hg Hp. now destruct (heap_pop_ok g b c b' Hg Hp).
  - constructor.
    + intros y p [].
    + intros x. simpl. tauto.
    + intros i Hi. simpl in Hi. lia.
    + intros a1 c a2 E. destruct a1; discriminate.
Qed.
