(* Proofs/C38.v — the push decision logic: every command handed to the
   transport is a requested update and obeys the update rules. *)
From Coq Require Import List NArith ZArith Bool Lia.
From GoGit Require Import Base.Out Model.RefSpec Model.RevList Model.PushRules Spec.ObjReach Proofs.C37Trees Proofs.C37.
Import ListNotations.
Local Open Scope N_scope.

(* b is the commit a or one of its ancestors, through stored commits *)
Inductive anc (st : store) : oid -> oid -> Prop :=
| anc_refl : forall a, anc st a a
| anc_step : forall a t ps tm p b, get_commit st a = Some (t, ps, tm) -> In p ps -> anc st p b -> anc st a b.

Lemma anc_trans : forall st a b c, anc st a b -> anc st b c -> anc st a c.
Proof. induction 1; intros; [assumption | econstructor; eauto]. Qed.

Lemma filter_unseen_In : forall ps seen x, In x (filter_unseen ps seen) -> In x ps.
Proof.
  induction ps as [|p ps IH]; intros seen x H; cbn [filter_unseen] in H; [contradiction|].
  destruct (mem p seen); [right; eapply IH; eauto|]. destruct H as [<-|H]; [now left | right; eapply IH; eauto].
Qed.

(* isFastForward's walk only ever looks at ancestors of the new commit *)
Lemma ff_walk_sound : forall st old new fuel stack seen bounded found b',
  (forall l h, In l stack -> In h l -> anc st new h) ->
  ff_walk fuel st [] old stack seen bounded = Ok (found, b') ->
  (found = true -> anc st new old) /\ (bounded = false -> b' = false).
Proof.
  intros st old new. induction fuel as [|f IH]; intros stack seen bounded found b' Hst H; cbn [ff_walk] in H; [discriminate|].
  destruct stack as [|[|h hs] rest].
  - inversion H; subst. split; [discriminate | auto].
  - eapply IH; [|exact H]. intros l x Hl Hx. eapply Hst; [right; exact Hl | exact Hx].
  - assert (Hh : anc st new h) by (eapply Hst; [now left | now left]).
    assert (Hrest : forall l x, In l (hs :: rest) -> In x l -> anc st new x).
    { intros l x [<-|Hl] Hx; [eapply Hst; [now left | now right] | eapply Hst; [right; exact Hl | exact Hx]]. }
    destruct (get_commit st h) as [[[t ps] tm]|] eqn:G; [|discriminate].
    destruct (mem h seen) eqn:M; [eapply IH; eauto|].
    cbn [mem orb] in H. rewrite orb_false_r in H.
    destruct (h =? old) eqn:E.
    + inversion H; subst. apply N.eqb_eq in E. subst h. split; auto.
    + eapply IH; [|exact H]. intros l x Hl Hx. destruct ps as [|p0 ps0]; [now apply (Hrest l x)|].
      destruct Hl as [<-|Hl]; [|now apply (Hrest l x)].
      apply filter_unseen_In in Hx. eapply anc_trans; [exact Hh|]. econstructor; [exact G | exact Hx | constructor].
Qed.

Lemma is_ff_sound : forall st old new, is_ff st [] old new = Ok true -> anc st new old.
Proof.
  intros st old new H. unfold is_ff in H. destruct (get_commit st new) as [x|]; [|discriminate].
  cbn [shallow_parents] in H.
  destruct (ff_walk (ff_fuel st) st [] old [[new]] [] false) as [[found b]|] eqn:W; [|discriminate].
  assert (Hst : forall l h, In l [[new]] -> In h l -> anc st new h).
  { intros l h [<-|[]] [<-|[]]. constructor. }
  destruct (ff_walk_sound st old new _ _ _ _ _ _ Hst W) as [A B].
  rewrite (B eq_refl) in H. rewrite orb_false_r in H. inversion H; subst. now apply A.
Qed.

Section Rules.
  Variable st : store.
  Variable sh : list oid.
  Variable hexes : list (bytes * oid).
  Variables local remote : refs.
  Variable specs : list bytes.          (* the refspecs in effect (after Force rewriting) *)
  Variable prune : bool.
  Variable ls : option lease.

  (* the command comes from refspec rs: a local reference it matches, or an object named by hash *)
  Definition produced (rs : bytes) (c : cmd) : Prop :=
    rs_delete rs = false /\
    ((exists ln, In (ln, RHash (k_new c)) local /\ rs_match rs ln = true /\ k_name c = rs_dst rs ln) \/
     (rs_wild rs = false /\ k_name c = rs_dst rs [] /\ hex_lookup hexes (rs_src rs) = Some (k_new c))).

  Definition lease_ok (c : cmd) : Prop :=
    exists l ln, ls = Some l /\ (beq_bytes (l_ref l) [] = true \/ beq_bytes (l_ref l) (k_name c) = true) /\
                 check_lease local ln c l = true.

  Definition old_ok (c : cmd) : Prop :=
    In (k_name c, RHash (k_old c)) remote \/ (k_old c = 0 /\ ref_get remote (k_name c) = None).

  Definition update_ok (c : cmd) : Prop :=
    exists rs, In rs specs /\ produced rs c /\
      (rs_force rs = true \/ lease_ok c \/ (check_tag c = true /\ check_ff st sh remote c = true)).

  Definition delete_ok (c : cmd) : Prop :=
    exists rs, In rs specs /\
      ((rs_delete rs = true /\ k_name c = rs_dst rs []) \/
       (prune = true /\ rs_delete rs = false /\ rs_match (rs_reverse rs) (k_name c) = true /\
        ref_get local (rs_dst (rs_reverse rs) (k_name c)) = None)).

  Definition cmd_ok (c : cmd) : Prop :=
    old_ok c /\ ((k_new c = 0 /\ delete_ok c) \/ (k_new c <> 0 /\ update_ok c) \/ (k_new c = 0 /\ update_ok c)).

  Lemma ref_get_In : forall rs n t, ref_get rs n = Some t -> exists n', In (n', t) rs /\ beq_bytes n' n = true.
  Proof.
    induction rs as [|[k v] rs IH]; intros n t H; cbn [ref_get] in H; [discriminate|].
    destruct (beq_bytes k n) eqn:E.
    - inversion H; subst. exists k. split; [now left | exact E].
    - destruct (IH _ _ H) as (n' & A & B). exists n'. split; [now right | exact B].
  Qed.

  Lemma beq_bytes_eq : forall a b, beq_bytes a b = true -> a = b.
  Proof.
    induction a as [|x a IH]; destruct b as [|y b]; cbn; intros H; try discriminate; [reflexivity|].
    apply andb_true_iff in H. destruct H as [A B]. apply N.eqb_eq in A. subst. f_equal. now apply IH.
  Qed.

  Lemma Forall_app1 : forall (P : cmd -> Prop) l c, Forall P l -> P c -> Forall P (l ++ [c]).
  Proof. intros. apply Forall_app. split; [assumption | constructor; [assumption | constructor]]. Qed.

  Lemma add_ref_if_match_ok : forall rs lr cmds cmds',
    In rs specs -> rs_delete rs = false -> In lr local ->
    add_ref_if_match st sh rs remote local lr ls cmds = Some cmds' ->
    Forall cmd_ok cmds -> Forall cmd_ok cmds'.
  Proof.
    intros rs [ln t] cmds cmds' Hrs Hnd Hlr H HF. unfold add_ref_if_match in H. cbn [fst snd] in H.
    destruct t as [h|tt]; [|inversion H; subst; exact HF].
    destruct (rs_match rs ln) eqn:M; cbn [negb] in H; [|inversion H; subst; exact HF].
    set (name := rs_dst rs ln) in *.
    destruct (ref_get remote name) as [[o|ts]|] eqn:R; [| inversion H; subst; exact HF |].
    - (* the remote has the reference *)
      destruct (o =? h) eqn:E; [inversion H; subst; exact HF|].
      match type of H with (if ?ok then _ else _) = _ => destruct ok eqn:OK end; [|discriminate].
      inversion H; subst cmds'. apply Forall_app1; [exact HF|].
      assert (Hold : old_ok (mkCmd name o h)).
      { left. cbn. destruct (ref_get_In _ _ _ R) as (n' & A & B). apply beq_bytes_eq in B. now subst n'. }
      assert (Hprod : produced rs (mkCmd name o h)).
      { split; [exact Hnd|]. left. exists ln. cbn. auto. }
      split; [exact Hold|].
      assert (U : update_ok (mkCmd name o h)).
      { exists rs. split; [exact Hrs|]. split; [exact Hprod|].
        destruct ls as [l|] eqn:L.
        - destruct (beq_bytes (l_ref l) [] || beq_bytes (l_ref l) name) eqn:LD.
          + right. left. exists l, ln. split; [exact L|]. split; [now apply orb_true_iff in LD | exact OK].
          + destruct (rs_force rs); [now left|]. right. right. now apply andb_true_iff in OK.
        - destruct (rs_force rs); [now left|]. right. right. now apply andb_true_iff in OK. }
      destruct (N.eq_dec h 0) as [->|Hne]; [right; right; split; [reflexivity | exact U] | right; left; split; [exact Hne | exact U]].
    - (* the remote does not have it *)
      destruct (0 =? h) eqn:E; [inversion H; subst; exact HF|].
      match type of H with (if ?ok then _ else _) = _ => destruct ok eqn:OK end; [|discriminate].
      inversion H; subst cmds'. apply Forall_app1; [exact HF|].
      assert (Hprod : produced rs (mkCmd name 0 h)) by (split; [exact Hnd|]; left; exists ln; cbn; auto).
      split; [right; cbn; auto|].
      assert (U : update_ok (mkCmd name 0 h)).
      { exists rs. split; [exact Hrs|]. split; [exact Hprod|].
        destruct ls as [l|] eqn:L.
        - destruct (beq_bytes (l_ref l) [] || beq_bytes (l_ref l) name) eqn:LD.
          + right. left. exists l, ln. split; [exact L|]. split; [now apply orb_true_iff in LD | exact OK].
          + destruct (rs_force rs); [now left|]. right. right. now apply andb_true_iff in OK.
        - destruct (rs_force rs); [now left|]. right. right. now apply andb_true_iff in OK. }
      right. left. split; [|exact U]. apply N.eqb_neq in E. cbn. congruence.
  Qed.

  Lemma add_object_ok : forall rs h cmds cmds',
    In rs specs -> rs_delete rs = false -> rs_wild rs = false -> hex_lookup hexes (rs_src rs) = Some h ->
    add_object st sh rs remote h cmds = Some cmds' -> Forall cmd_ok cmds -> Forall cmd_ok cmds'.
  Proof.
    intros rs h cmds cmds' Hrs Hnd Hnw Hh H HF. unfold add_object in H.
    set (name := rs_dst rs []) in *.
    assert (Hprod : forall o, produced rs (mkCmd name o h)) by (intro o; split; [exact Hnd|]; right; cbn; auto).
    destruct (ref_get remote name) as [[o|ts]|] eqn:R; [| inversion H; subst; exact HF |].
    - destruct (o =? h) eqn:E; [inversion H; subst; exact HF|].
      destruct (rs_force rs || (check_tag (mkCmd name o h) && check_ff st sh remote (mkCmd name o h))) eqn:OK; [|discriminate].
      inversion H; subst cmds'. apply Forall_app1; [exact HF|]. split.
      + left. cbn. destruct (ref_get_In _ _ _ R) as (n' & A & B). apply beq_bytes_eq in B. now subst n'.
      + assert (U : update_ok (mkCmd name o h)).
        { exists rs. split; [exact Hrs|]. split; [apply Hprod|].
          apply orb_true_iff in OK. destruct OK as [OK|OK]; [now left | right; right; now apply andb_true_iff in OK]. }
        destruct (N.eq_dec h 0) as [->|Hne]; [right; right; split; [reflexivity | exact U] | right; left; split; [exact Hne | exact U]].
    - destruct (0 =? h) eqn:E; [inversion H; subst; exact HF|].
      destruct (rs_force rs || (check_tag (mkCmd name 0 h) && check_ff st sh remote (mkCmd name 0 h))) eqn:OK; [|discriminate].
      inversion H; subst cmds'. apply Forall_app1; [exact HF|]. split; [right; cbn; auto|].
      right. left. split; [apply N.eqb_neq in E; cbn; congruence|].
      exists rs. split; [exact Hrs|]. split; [apply Hprod|].
      apply orb_true_iff in OK. destruct OK as [OK|OK]; [now left | right; right; now apply andb_true_iff in OK].
  Qed.

  Lemma delete_refs_ok : forall rs iter pr cmds,
    In rs specs -> incl iter remote ->
    (pr = false -> rs_delete rs = true) -> (pr = true -> prune = true /\ rs_delete rs = false) ->
    Forall cmd_ok cmds -> Forall cmd_ok (delete_refs rs iter local pr cmds).
  Proof.
    intros rs iter. induction iter as [|[name t] r IH]; intros pr cmds Hrs Hinc Hd Hp HF; cbn [delete_refs]; [exact HF|].
    assert (Hinc' : incl r remote) by (intros x Hx; apply Hinc; now right).
    destruct t as [h|tt]; [|now apply IH].
    apply IH; auto.
    match goal with |- Forall _ (if ?sk then _ else _) => destruct sk eqn:SK end; [exact HF|].
    apply Forall_app1; [exact HF|]. split.
    - left. cbn. apply Hinc. now left.
    - left. split; [reflexivity|]. exists rs. split; [exact Hrs|]. destruct pr.
      + right. destruct (Hp eq_refl) as [A B]. apply orb_false_iff in SK. destruct SK as [S1 S2].
        apply negb_false_iff in S1. cbn. repeat split; auto.
        destruct (ref_get local (rs_dst (rs_reverse rs) name)); [discriminate | reflexivity].
      + left. split; [now apply Hd|]. apply negb_false_iff in SK. cbn. symmetry. now apply beq_bytes_eq.
  Qed.

  Lemma add_each_ok : forall rs iter cmds cmds',
    In rs specs -> rs_delete rs = false -> incl iter local ->
    add_each st sh rs remote local iter ls cmds = Some cmds' -> Forall cmd_ok cmds -> Forall cmd_ok cmds'.
  Proof.
    intros rs iter. induction iter as [|lr r IH]; intros cmds cmds' Hrs Hnd Hinc H HF; cbn [add_each] in H.
    - inversion H; subst; exact HF.
    - destruct (add_ref_if_match st sh rs remote local lr ls cmds) as [c1|] eqn:A; [|discriminate].
      eapply IH; eauto; [intros x Hx; apply Hinc; now right|].
      eapply add_ref_if_match_ok; eauto. apply Hinc. now left.
  Qed.

  Lemma add_or_update_ok : forall rs cmds cmds',
    In rs specs -> rs_delete rs = false ->
    add_or_update st sh hexes rs remote local ls cmds = Some cmds' -> Forall cmd_ok cmds -> Forall cmd_ok cmds'.
  Proof.
    intros rs cmds cmds' Hrs Hnd H HF. unfold add_or_update in H.
    destruct (rs_wild rs) eqn:W; [eapply add_each_ok; eauto using incl_refl|].
    destruct (ref_get local (rs_src rs)) as [t|] eqn:L.
    - destruct (ref_get_In _ _ _ L) as (n' & A & B). apply beq_bytes_eq in B. subst n'.
      eapply add_ref_if_match_ok; eauto.
    - destruct (hex_lookup hexes (rs_src rs)) as [h|] eqn:X; [|inversion H; subst; exact HF].
      destruct (get st h); [|inversion H; subst; exact HF].
      eapply add_object_ok; eauto.
  Qed.

  Lemma add_refs_to_update_ok : forall l cmds cmds',
    incl l specs ->
    add_refs_to_update st sh hexes l remote local prune ls cmds = Some cmds' ->
    Forall cmd_ok cmds -> Forall cmd_ok cmds'.
  Proof.
    induction l as [|rs r IH]; intros cmds cmds' Hinc H HF; cbn [add_refs_to_update] in H.
    - inversion H; subst; exact HF.
    - assert (Hrs : In rs specs) by (apply Hinc; now left).
      assert (Hinc' : incl r specs) by (intros x Hx; apply Hinc; now right).
      destruct (rs_delete rs) eqn:D.
      + eapply IH; eauto. apply delete_refs_ok; auto using incl_refl. intros X; discriminate.
      + destruct (add_or_update st sh hexes rs remote local ls cmds) as [c1|] eqn:A; [|discriminate].
        eapply IH; eauto.
        pose proof (add_or_update_ok _ _ _ Hrs D A HF) as F1.
        destruct prune eqn:P; [|exact F1].
        apply delete_refs_ok; auto using incl_refl. intros X; discriminate.
  Qed.
End Rules.

(* sendPack: the refspecs in effect *)
Definition eff_specs (o : popts) : list bytes :=
  let specs0 := match po_specs o with [] => [DEFAULT_PUSH] | l => l end in
  if po_force o then force_specs specs0 else specs0.

Lemma push_cmds_ok : forall st sh hexes local remote o cmds hs,
  push st sh hexes local remote o = POk (cmds, hs) ->
  Forall (cmd_ok st sh hexes local remote (eff_specs o) (po_prune o) (po_lease o)) cmds.
Proof.
  intros st sh hexes local remote o cmds hs H. unfold push in H.
  set (specs0 := match po_specs o with [] => [DEFAULT_PUSH] | l => l end) in *.
  destruct (forallb rs_valid specs0); cbn [negb] in H; [|discriminate].
  destruct (existsb rs_delete specs0 && negb (po_delcap o)); [discriminate|].
  fold (eff_specs o) in H. unfold eff_specs in *. fold specs0 in H |- *.
  set (specs := if po_force o then force_specs specs0 else specs0) in *.
  destruct (add_refs_to_update st sh hexes specs remote local (po_prune o) (po_lease o) []) as [c|] eqn:A; [|discriminate].
  assert (F : Forall (cmd_ok st sh hexes local remote specs (po_prune o) (po_lease o)) c).
  { eapply add_refs_to_update_ok; [apply incl_refl | exact A | constructor]. }
  destruct c as [|c0 cr]; [discriminate|].
  destruct (forallb rs_delete specs0); [inversion H; subst; exact F|].
  destruct (objects st sh (cmd_news (c0 :: cr)) (remote_hashes remote ++ sh)); [|discriminate].
  inversion H; subst. exact F.
Qed.

Lemma push_objects : forall st sh hexes local remote o cmds hs,
  push st sh hexes local remote o = POk (cmds, hs) ->
  forallb rs_delete (match po_specs o with [] => [DEFAULT_PUSH] | l => l end) = false ->
  objects st sh (cmd_news cmds) (remote_hashes remote ++ sh) = Ok hs.
Proof.
  intros st sh hexes local remote o cmds hs H ND. unfold push in H.
  set (specs0 := match po_specs o with [] => [DEFAULT_PUSH] | l => l end) in *.
  destruct (forallb rs_valid specs0); cbn [negb] in H; [|discriminate].
  destruct (existsb rs_delete specs0 && negb (po_delcap o)); [discriminate|].
  match type of H with match ?x with _ => _ end = _ => destruct x as [c|] end; [|discriminate].
  destruct c as [|c0 cr]; [discriminate|]. rewrite ND in H.
  destruct (objects st sh (cmd_news (c0 :: cr)) (remote_hashes remote ++ sh)) eqn:O; [|discriminate].
  inversion H; subst. exact O.
Qed.
