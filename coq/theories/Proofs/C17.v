(* Proofs/C17.v — the memory model and the filesystem model refine the
   abstract store, call by call, outside the guarded call patterns. *)
From Coq Require Import List NArith Bool Lia Permutation.
From GoGit Require Import Base.Out Spec.AStore Model.StorageAPI Proofs.AStoreFacts.
Import ListNotations.
Local Open Scope N_scope.

Definition res_equiv (a b : res) : Prop :=
  match a, b with
  | RRefs l1, RRefs l2 => Permutation l1 l2
  | RIds l1, RIds l2 => Permutation l1 l2
  | _, _ => a = b
  end.

Lemma res_equiv_refl a : res_equiv a a.
Proof. destruct a; cbn; reflexivity. Qed.

Lemma res_equiv_trans a b c : res_equiv a b -> res_equiv b c -> res_equiv a c.
Proof.
  destruct a, b; cbn; try discriminate; destruct c; cbn; try discriminate; try congruence;
    intros H1 H2; try (etransitivity; eassumption); try congruence.
Qed.

Lemma res_equiv_sym a b : res_equiv a b -> res_equiv b a.
Proof. destruct a, b; cbn; try discriminate; try congruence; intro H; symmetry; exact H. Qed.

(* ================================================================ memory *)
(* the one call on which memory departs from the abstract store: a
   CheckAndSetReference whose old reference has another name than the new one *)
Definition mem_ok (s : store) (o : sop) : bool :=
  match o with
  | SBase (OCas n _ on _) => on =? n
  | _ => true
  end.

Lemma mem_step_spec U s o : mem_ok s o = true -> mem_step U s o = spec_sstep U s o.
Proof.
  destruct o as [b| | |]; try reflexivity. destruct b; try reflexivity.
  cbn [mem_ok mem_step spec_sstep st_step]. intro H1.
  apply N.eqb_eq in H1; subst on. unfold mem_cas, st_cas.
  destruct (fm_get n (s_refs s)); reflexivity.
Qed.

Fixpoint mem_guards (U : universe) (s : store) (ops : list sop) : bool :=
  match ops with
  | [] => true
  | o :: r => mem_ok s o && mem_guards U (fst (mem_step U s o)) r
  end.

Lemma mem_run_spec U ops : forall s,
  mem_guards U s ops = true -> run_ops (mem_step U) s ops = run_ops (spec_sstep U) s ops.
Proof.
  induction ops as [|o r IH]; intros s Hg; [reflexivity|].
  cbn [mem_guards] in Hg. apply andb_true_iff in Hg as [H1 H2].
  cbn [run_ops]. rewrite (mem_step_spec U s o H1) in *.
  destruct (spec_sstep U s o) as [s1 x]. cbn [fst] in H2. rewrite (IH s1 H2). reflexivity.
Qed.

(* the guard is exact in this sense: with two different names, memory decides
   on the value stored under the new name and the abstract store on the value
   stored under the old name, so the answers differ as soon as one matches and
   the other does not *)
Lemma mem_guard_tight U s n v on ov cn co :
  fm_get n (s_refs s) = Some cn -> fm_get on (s_refs s) = Some co ->
  rv_hash_eqb cn ov = false -> rv_hash_eqb co ov = true ->
  snd (mem_step U s (SBase (OCas n v on ov))) = RErr EChanged
  /\ snd (spec_sstep U s (SBase (OCas n v on ov))) = ROk.
Proof.
  intros H1 H2 H3 H4. cbn [mem_step spec_sstep st_step]. unfold mem_cas, st_cas.
  rewrite H1, H2, H3, H4. split; reflexivity.
Qed.

(* ================================================================ filesystem *)
(* what a name resolves to: the reference file when it is not empty, else packed-refs *)
Definition fs_lookup (f : fstore) (n : N) : option refval :=
  match fm_get n (f_loose f) with
  | Some (Some v) => Some v
  | _ => match packed_lookup n (f_packed f) with
         | Some (Some h) => Some (RHash h)
         | _ => None
         end
  end.

Definition pname (p : pline) : option N := match p with PGood n _ => Some n | PBad => None end.
Fixpoint pnames (l : list pline) : list N :=
  match l with
  | [] => []
  | PGood n _ :: r => n :: pnames r
  | PBad :: r => pnames r
  end.

(* states the filesystem storer is in as long as the guarded patterns are avoided *)
Record FsInv (f : fstore) : Prop := mkFsInv {
  fi_ok : fm_ok (f_loose f);
  fi_nonempty : forall n, fm_get n (f_loose f) <> Some None;
  fi_packed : packed_okb (f_packed f) = true;
  fi_nodup : NoDup (pnames (f_packed f))
}.

Definition rest_eq (a b : store) : Prop :=
  s_objs a = s_objs b /\ s_idx a = s_idx b /\ s_cfg a = s_cfg b
  /\ s_shallow a = s_shallow b /\ s_logs a = s_logs b.

Record FsRel (f : fstore) (s : store) : Prop := mkFsRel {
  fr_inv : FsInv f;
  fr_ok : fm_ok (s_refs s);
  fr_refs : forall n, fm_get n (s_refs s) = fs_lookup f n;
  fr_rest : rest_eq (f_rest f) s
}.

(* the calls on which the filesystem storer answers like the abstract store
   and stays in FsInv *)
Definition fs_ok (f : fstore) (o : sop) : bool :=
  match o with
  | SBase (OCas n _ on ov) =>
    (on =? n) &&
    match fm_get n (f_loose f) with
    | Some (Some _) => true                      (* a reference file exists: compared in place *)
    | _ => match packed_lookup n (f_packed f) with
           | Some (Some h) => rv_hash_eqb (RHash h) ov    (* packed only: the CAS must succeed *)
           | _ => false                                   (* absent: an empty file would stay behind *)
           end
    end
  | _ => true
  end.

(* ------------------------------------------------------------ packed-refs facts *)
Lemma packed_lookup_ok n l : packed_okb l = true -> packed_lookup n l <> None.
Proof.
  induction l as [|[m h|] r IH]; cbn [packed_okb forallb packed_lookup]; intro H; try discriminate.
  destruct (n =? m); [discriminate|]. apply IH. exact H.
Qed.

Lemma packed_lookup_In n h l :
  packed_okb l = true -> NoDup (pnames l) ->
  (packed_lookup n l = Some (Some h) <-> In (PGood n h) l).
Proof.
  induction l as [|[m k|] r IH]; cbn [packed_okb forallb packed_lookup pnames]; intros Hok Hnd.
  - split; [discriminate|intros []].
  - inversion Hnd as [|? ? Hnotin Hnd']; subst. destruct (n =? m) eqn:E.
    + apply N.eqb_eq in E; subst m. split.
      * intro H; injection H as ->. left; reflexivity.
      * intros [H|H]; [injection H as ->; reflexivity|].
        exfalso. apply Hnotin. clear - H. induction r as [|[a b|] r IH]; [destruct H| |].
        -- destruct H as [H|H]; [injection H as -> ->; left; reflexivity|right; apply IH; exact H].
        -- destruct H as [H|H]; [discriminate|apply IH; exact H].
    + rewrite (IH Hok Hnd'). split; [intro H; right; exact H|].
      intros [H|H]; [injection H as -> ->; rewrite N.eqb_refl in E; discriminate|exact H].
  - discriminate.
Qed.

Lemma packed_lookup_none_iff n l :
  packed_okb l = true -> (packed_lookup n l = Some None <-> ~ In n (pnames l)).
Proof.
  induction l as [|[m k|] r IH]; cbn [packed_okb forallb packed_lookup pnames]; intro Hok.
  - split; [intros _ []|reflexivity].
  - destruct (n =? m) eqn:E.
    + apply N.eqb_eq in E; subst m. split; [discriminate|]. intro H. exfalso. apply H. left; reflexivity.
    + rewrite (IH Hok). apply N.eqb_neq in E. split.
      * intros H [H1|H1]; [congruence|exact (H H1)].
      * intros H H1. apply H. right; exact H1.
  - discriminate.
Qed.

Definition pfilter (n : N) (l : list pline) : list pline :=
  filter (fun p => match p with PGood n' _ => negb (n' =? n) | PBad => true end) l.

Lemma pfilter_ok n l : packed_okb l = true -> packed_okb (pfilter n l) = true.
Proof.
  unfold packed_okb, pfilter. rewrite !forallb_forall. intros H p Hp. apply filter_In in Hp as [Hp _]. apply H; exact Hp.
Qed.

Lemma pnames_pfilter n l : pnames (pfilter n l) = filter (fun m => negb (m =? n)) (pnames l).
Proof.
  unfold pfilter. induction l as [|[m k|] r IH]; cbn [filter pnames]; [reflexivity| |exact IH].
  destruct (negb (m =? n)); cbn [pnames]; rewrite IH; reflexivity.
Qed.

Lemma packed_lookup_pfilter k n l :
  packed_okb l = true ->
  packed_lookup k (pfilter n l) = if k =? n then Some None else packed_lookup k l.
Proof.
  unfold pfilter. induction l as [|[m h|] r IH]; cbn [packed_okb forallb filter packed_lookup]; intro Hok.
  - destruct (k =? n); reflexivity.
  - destruct (m =? n) eqn:E; cbn [negb packed_lookup].
    + apply N.eqb_eq in E; subst m. rewrite (IH Hok). destruct (k =? n); reflexivity.
    + rewrite (IH Hok). destruct (k =? m) eqn:E1; [|reflexivity].
      apply N.eqb_eq in E1; subst m. rewrite E. reflexivity.
  - discriminate.
Qed.

(* ------------------------------------------------------------ the listing *)
Lemma fm_ok_keys_NoDup_local {V} (m : fmap V) : fm_ok m -> NoDup (map fst m).
Proof.
  induction m as [|p r IH]; intro H; cbn [map]; [constructor|].
  apply fm_ok_inv in H as [Hok HF]. constructor; [|apply IH; exact Hok].
  intro Hin. apply in_map_iff in Hin as [q [Hq Hin]].
  rewrite Forall_forall in HF. apply HF in Hin. unfold fm_lt in Hin. lia.
Qed.

Lemma NoDup_app_intro {A} (l1 l2 : list A) :
  NoDup l1 -> NoDup l2 -> (forall x, In x l1 -> In x l2 -> False) -> NoDup (l1 ++ l2).
Proof.
  induction l1 as [|a r IH]; intros H1 H2 Hd; [exact H2|].
  inversion H1 as [|? ? Hn H1']; subst. cbn [app]. constructor.
  - intro Hin. apply in_app_or in Hin as [Hin|Hin]; [exact (Hn Hin)|].
    apply (Hd a); [left; reflexivity|exact Hin].
  - apply IH; [exact H1'|exact H2|]. intros x Hx1 Hx2. apply (Hd x); [right; exact Hx1|exact Hx2].
Qed.

Lemma NoDup_app_inv_local {A} (l1 l2 : list A) :
  NoDup (l1 ++ l2) -> NoDup l1 /\ NoDup l2 /\ (forall x, In x l1 -> In x l2 -> False).
Proof.
  induction l1 as [|a r IH]; cbn [app]; intro H.
  - split; [constructor|]. split; [exact H|]. intros x [].
  - inversion H as [|? ? Hn Hr]; subst. destruct (IH Hr) as (H1 & H2 & H3).
    split; [constructor; [|exact H1]; intro Hi; apply Hn; apply in_or_app; left; exact Hi|].
    split; [exact H2|]. intros x [Hx|Hx] Hx2.
    + subst x. apply Hn. apply in_or_app. right; exact Hx2.
    + exact (H3 x Hx Hx2).
Qed.

Lemma pnames_app l1 l2 : pnames (l1 ++ l2) = pnames l1 ++ pnames l2.
Proof. induction l1 as [|[n h|] r IH]; cbn [app pnames]; rewrite ?IH; reflexivity. Qed.

Lemma loose_list_some (l : fmap (option refval)) :
  (forall n, fm_get n l <> Some None) -> fm_ok l ->
  exists x, loose_list l = Some x /\ map fst x = map fst l
            /\ forall k v, In (k, v) x <-> fm_get k l = Some (Some v).
Proof.
  induction l as [|[n [v|]] r IH]; intros Hne Hok.
  - exists []. cbn. repeat split; try tauto; discriminate.
  - apply fm_ok_inv in Hok as [Hok HF].
    assert (Hne' : forall k, fm_get k r <> Some None).
    { intros k Hk. apply (Hne k). cbn [fm_get]. destruct (k =? n) eqn:E; [|exact Hk].
      apply N.eqb_eq in E; subst k. rewrite (fm_get_lt n (n, Some v) r HF) in Hk by (cbn [fst]; lia). discriminate. }
    destruct (IH Hne' Hok) as [x [Hx [Hk Hin]]]. exists ((n, v) :: x). cbn [loose_list]. rewrite Hx.
    split; [reflexivity|]. split; [cbn [map fst]; rewrite Hk; reflexivity|].
    intros k w. cbn [In fm_get]. destruct (k =? n) eqn:E.
    + apply N.eqb_eq in E; subst k. split.
      * intros [H|H]; [congruence|]. apply Hin in H.
        rewrite (fm_get_lt n (n, Some v) r HF) in H by (cbn [fst]; lia). discriminate.
      * intro H; left; congruence.
    + rewrite <- Hin. apply N.eqb_neq in E. split; [intros [H|H]; [congruence|exact H]|intro H; right; exact H].
  - exfalso. apply (Hne n). cbn [fm_get]. rewrite N.eqb_refl. reflexivity.
Qed.

Lemma packed_unseen_char l : forall seen k v,
  packed_okb l = true -> NoDup (pnames l) ->
  (In (k, v) (packed_unseen seen l) <-> exists h, v = RHash h /\ In (PGood k h) l /\ nmem k seen = false).
Proof.
  induction l as [|[n h|] r IH]; intros seen k v Hok Hnd; cbn [packed_unseen packed_okb forallb pnames] in *.
  - split; [intros []|intros [h [_ [[] _]]]].
  - inversion Hnd as [|? ? Hnotin Hnd']; subst.
    assert (Hr : forall h', In (PGood k h') r -> k <> n).
    { intros h' Hin E. subst k. apply Hnotin. clear - Hin.
      induction r as [|[a b|] r IH]; [destruct Hin| |].
      - destruct Hin as [H|H]; [injection H as -> ->; left; reflexivity|right; apply IH; exact H].
      - destruct Hin as [H|H]; [discriminate|apply IH; exact H]. }
    destruct (nmem n seen) eqn:Es.
    + rewrite (IH seen k v Hok Hnd'). split.
      * intros [h' [Hv [Hin Hs]]]. exists h'. repeat split; try assumption. right; exact Hin.
      * intros [h' [Hv [[Hin|Hin] Hs]]].
        -- injection Hin as -> ->. congruence.
        -- exists h'. repeat split; assumption.
    + cbn [In]. rewrite (IH (n :: seen) k v Hok Hnd'). split.
      * intros [H|[h' [Hv [Hin Hs]]]].
        -- injection H as <- <-. exists h. repeat split; [left; reflexivity|exact Es].
        -- exists h'. repeat split; [exact Hv|right; exact Hin|].
           cbn [nmem existsb] in Hs. apply orb_false_iff in Hs as [_ Hs]. exact Hs.
      * intros [h' [Hv [[Hin|Hin] Hs]]].
        -- injection Hin as -> ->. left. congruence.
        -- right. exists h'. repeat split; try assumption.
           cbn [nmem existsb]. apply orb_false_iff. split; [|exact Hs].
           apply N.eqb_neq. apply (Hr h'); exact Hin.
  - discriminate.
Qed.

Lemma packed_unseen_names l : forall seen,
  packed_okb l = true -> NoDup (pnames l) ->
  NoDup (map fst (packed_unseen seen l)) /\ forall k, In k (map fst (packed_unseen seen l)) -> nmem k seen = false /\ In k (pnames l).
Proof.
  induction l as [|[n h|] r IH]; intros seen Hok Hnd; cbn [packed_unseen packed_okb forallb pnames] in *.
  - split; [constructor|intros k []].
  - inversion Hnd as [|? ? Hnotin Hnd']; subst. destruct (nmem n seen) eqn:Es.
    + destruct (IH seen Hok Hnd') as [H1 H2]. split; [exact H1|].
      intros k Hk. destruct (H2 k Hk) as [H3 H4]. split; [exact H3|right; exact H4].
    + destruct (IH (n :: seen) Hok Hnd') as [H1 H2]. cbn [map fst]. split.
      * constructor; [|exact H1]. intro Hin. destruct (H2 n Hin) as [H3 _].
        cbn [nmem existsb] in H3. rewrite N.eqb_refl in H3. discriminate.
      * intros k [Hk|Hk]; [subst k; split; [exact Es|left; reflexivity]|].
        destruct (H2 k Hk) as [H3 H4]. cbn [nmem existsb] in H3. apply orb_false_iff in H3 as [_ H3].
        split; [exact H3|right; exact H4].
  - discriminate.
Qed.

Lemma nmem_map_fst_loose k (x : list (N * refval)) (l : fmap (option refval)) :
  map fst x = map fst l -> fm_ok l -> (nmem k (map fst x) = true <-> fm_get k l <> None).
Proof.
  intros Hk Hok. rewrite Hk, nmem_In. clear x Hk. split.
  - intros Hin Hn. apply in_map_iff in Hin as [[a b] [Ha Hin]]. cbn [fst] in Ha; subst a.
    apply (fm_get_In k b l Hok) in Hin. congruence.
  - intro H. destruct (fm_get k l) as [b|] eqn:E; [|congruence].
    apply (fm_get_In k b l Hok) in E. apply in_map_iff. exists (k, b). split; [reflexivity|exact E].
Qed.

(* the listing of the filesystem storer holds exactly the resolvable names *)
Lemma fs_listing f :
  FsInv f ->
  exists x, loose_list (f_loose f) = Some x
    /\ (forall k v, In (k, v) (x ++ packed_unseen (map fst x) (f_packed f)) <-> fs_lookup f k = Some v)
    /\ NoDup (map fst (x ++ packed_unseen (map fst x) (f_packed f)))
    /\ (forall k v, In (k, v) x <-> fm_get k (f_loose f) = Some (Some v)).
Proof.
  intros [Hok Hne Hp Hnd].
  destruct (loose_list_some (f_loose f) Hne Hok) as [x [Hx [Hk Hin]]]. exists x.
  split; [exact Hx|]. split; [|split; [|exact Hin]].
  - intros k v. rewrite in_app_iff, Hin, (packed_unseen_char _ _ k v Hp Hnd). unfold fs_lookup.
    destruct (fm_get k (f_loose f)) as [[w|]|] eqn:El.
    + split; [intros [H|[h [_ [_ Hs]]]]; [congruence|]|intro H; left; congruence].
      assert (nmem k (map fst x) = true) by (apply (nmem_map_fst_loose k x _ Hk Hok); congruence). congruence.
    + exfalso. apply (Hne k). exact El.
    + assert (Hs : nmem k (map fst x) = false).
      { destruct (nmem k (map fst x)) eqn:E; [|reflexivity].
        apply (nmem_map_fst_loose k x _ Hk Hok) in E. congruence. }
      split.
      * intros [H|[h [Hv [Hi _]]]]; [discriminate|]. subst v.
        apply (packed_lookup_In k h _ Hp Hnd) in Hi. rewrite Hi. reflexivity.
      * destruct (packed_lookup k (f_packed f)) as [[h|]|] eqn:E; try discriminate.
        intro H; injection H as <-. right. exists h. repeat split; [|exact Hs].
        apply (packed_lookup_In k h _ Hp Hnd). exact E.
  - rewrite map_app. destruct (packed_unseen_names (f_packed f) (map fst x) Hp Hnd) as [H1 H2].
    apply NoDup_app_intro; [rewrite Hk; apply fm_ok_keys_NoDup_local; exact Hok|exact H1|].
    intros k Hk1 Hk2. destruct (H2 k Hk2) as [H3 _]. apply nmem_In in Hk1. congruence.
Qed.

(* ------------------------------------------------------------ calls that do not touch references *)
Definition ref_op (b : op) : bool :=
  match b with OSetRef _ _ | OCas _ _ _ _ | OGetRef _ | OIterRefs | ODelRef _ => true | _ => false end.

Lemma rest_step U a b o :
  ref_op o = false -> rest_eq a b ->
  rest_eq (fst (st_step U a o)) (fst (st_step U b o))
  /\ snd (st_step U a o) = snd (st_step U b o)
  /\ s_refs (fst (st_step U b o)) = s_refs b.
Proof.
  intros Hr (H1 & H2 & H3 & H4 & H5). unfold rest_eq.
  destruct o; try discriminate; cbn [st_step fst snd];
    unfold st_get_obj, st_iter_objs, st_with_objs, st_with_idx, st_with_cfg, st_with_shallow, st_with_logs;
    try destruct (valid_typ U k); cbn [fst snd s_refs s_objs s_idx s_cfg s_shallow s_logs];
    rewrite ?H1, ?H2, ?H3, ?H4, ?H5; repeat split; reflexivity.
Qed.

Lemma opt_ext {A} (a b : option A) : (forall v, a = Some v <-> b = Some v) -> a = b.
Proof.
  intro H. destruct a as [x|], b as [y|]; try reflexivity.
  - symmetry. apply (proj1 (H x)). reflexivity.
  - symmetry. apply (proj1 (H x)). reflexivity.
  - apply (proj2 (H y)). reflexivity.
Qed.

(* ------------------------------------------------------------ one call on the filesystem storer *)
Definition fs_sim U f s o : Prop :=
  FsRel (fst (fs_step U f o)) (fst (spec_sstep U s o))
  /\ res_equiv (snd (fs_step U f o)) (snd (spec_sstep U s o)).

Lemma FsInv_set f n v : FsInv f -> FsInv (mkFs (fm_set n (Some v) (f_loose f)) (f_packed f) (f_rest f)).
Proof.
  intros [Hok Hne Hp Hnd]. constructor; cbn [f_loose f_packed]; try assumption.
  - apply fm_ok_set; exact Hok.
  - intro k. rewrite fm_get_set. destruct (k =? n); [discriminate|apply Hne].
Qed.

Lemma fs_lookup_set f n v k :
  fs_lookup (mkFs (fm_set n (Some v) (f_loose f)) (f_packed f) (f_rest f)) k
  = if k =? n then Some v else fs_lookup f k.
Proof. unfold fs_lookup. cbn [f_loose f_packed]. rewrite fm_get_set. destruct (k =? n); reflexivity. Qed.

Lemma FsRel_set f s n v :
  FsRel f s ->
  FsRel (mkFs (fm_set n (Some v) (f_loose f)) (f_packed f) (f_rest f)) (st_with_refs s (fm_set n v (s_refs s))).
Proof.
  intros [HI Hok Hr Hrest]. constructor.
  - apply FsInv_set; exact HI.
  - cbn [st_with_refs s_refs]. apply fm_ok_set; exact Hok.
  - intro k. cbn [st_with_refs s_refs]. rewrite fm_get_set, fs_lookup_set, Hr. reflexivity.
  - exact Hrest.
Qed.

Lemma fs_sim_refs U f s b :
  FsRel f s -> fs_ok f (SBase b) = true -> ref_op b = true -> fs_sim U f s (SBase b).
Proof.
  intros HR Hg Hb. pose proof HR as [HI Hok Hr Hrest]. unfold fs_sim.
  destruct b; try discriminate; cbn [fs_step spec_sstep st_step fst snd].
  - (* SetRef *) split; [apply FsRel_set; exact HR|reflexivity].
  - (* Cas *)
    cbn [fs_ok] in Hg. apply andb_true_iff in Hg as [Hn Hg]. apply N.eqb_eq in Hn; subst on.
    unfold fs_cas, st_cas. rewrite (Hr n). unfold fs_lookup.
    destruct (fm_get n (f_loose f)) as [[cur|]|] eqn:El.
    + destruct (rv_hash_eqb cur ov); cbn [fst snd].
      * split; [apply FsRel_set; exact HR|reflexivity].
      * split; [exact HR|reflexivity].
    + exfalso. apply (fi_nonempty f HI n). exact El.
    + destruct (packed_lookup n (f_packed f)) as [[h|]|]; try discriminate.
      rewrite Hg. cbn [fst snd]. split; [apply FsRel_set; exact HR|reflexivity].
  - (* GetRef *)
    split; [exact HR|]. unfold fs_get_ref. rewrite (Hr n). unfold fs_lookup.
    destruct (fm_get n (f_loose f)) as [[cur|]|] eqn:El; [apply res_equiv_refl| |].
    + exfalso. apply (fi_nonempty f HI n). exact El.
    + pose proof (packed_lookup_ok n _ (fi_packed f HI)) as Hp.
      destruct (packed_lookup n (f_packed f)) as [[h|]|]; [apply res_equiv_refl|apply res_equiv_refl|congruence].
  - (* IterRefs *)
    split; [exact HR|]. unfold fs_iter_refs.
    destruct (fs_listing f HI) as [x [Hx [Hin [Hnd _]]]]. rewrite Hx, (fi_packed f HI).
    cbn [res_equiv]. apply NoDup_Permutation.
    + eapply NoDup_map_inv; exact Hnd.
    + apply fm_ok_NoDup; exact Hok.
    + intros [k v]. rewrite Hin, <- (Hr k). apply (fm_get_In k v _ Hok).
  - (* DelRef *)
    unfold fs_del_ref. rewrite (fi_packed f HI). cbn [fst snd]. split; [|reflexivity].
    destruct HI as [Hlo Hne Hp Hnd]. constructor.
    + constructor; cbn [f_loose f_packed].
      * apply fm_ok_del; exact Hlo.
      * intro k. rewrite fm_get_del. destruct (k =? n); [discriminate|apply Hne].
      * apply (pfilter_ok n); exact Hp.
      * change (NoDup (pnames (pfilter n (f_packed f)))). rewrite pnames_pfilter. apply NoDup_filter; exact Hnd.
    + cbn [st_with_refs s_refs]. apply fm_ok_del; exact Hok.
    + intro k. cbn [st_with_refs s_refs]. rewrite fm_get_del, Hr. unfold fs_lookup. cbn [f_loose f_packed].
      rewrite fm_get_del. change (filter _ (f_packed f)) with (pfilter n (f_packed f)).
      rewrite (packed_lookup_pfilter k n _ Hp). destruct (k =? n); reflexivity.
    + exact Hrest.
Qed.

(* ------------------------------------------------------------ PackRefs *)
Lemma pnames_map_pack (l : list (N * refval)) :
  forallb (fun p => is_hash (snd p)) l = true -> pnames (map pack_line l) = map fst l.
Proof.
  induction l as [|[n [h|t]] r IH]; cbn [forallb map pack_line snd fst pnames is_hash]; intro H; try discriminate.
  - reflexivity.
  - rewrite IH by exact H. reflexivity.
Qed.

Lemma packed_ok_map_pack (l : list (N * refval)) :
  forallb (fun p => is_hash (snd p)) l = true -> packed_okb (map pack_line l) = true.
Proof.
  induction l as [|[n [h|t]] r IH]; cbn [forallb map pack_line snd fst packed_okb is_hash]; intro H; try discriminate.
  - reflexivity.
  - exact (IH H).
Qed.

Lemma In_map_pack k h (l : list (N * refval)) :
  forallb (fun p => is_hash (snd p)) l = true ->
  (In (PGood k h) (map pack_line l) <-> In (k, RHash h) l).
Proof.
  induction l as [|[n [j|t]] r IH]; cbn [forallb map pack_line snd fst is_hash In]; intro H; try discriminate.
  - tauto.
  - rewrite (IH H). split; (intros [E|E]; [left; congruence|right; exact E]).
Qed.

Lemma In_map_pack_hashes k h (l : list (N * refval)) :
  In (PGood k h) (map pack_line (filter (fun p => is_hash (snd p)) l)) <-> In (k, RHash h) l.
Proof.
  rewrite (In_map_pack k h).
  - rewrite filter_In. cbn [snd is_hash]. tauto.
  - apply forallb_forall. intros p Hp. apply filter_In in Hp. apply Hp.
Qed.

Lemma fm_get_filter_keeps (l : fmap (option refval)) k :
  fm_ok l ->
  fm_get k (filter keeps_loose l) =
  match fm_get k l with Some (Some (RSym t)) => Some (Some (RSym t)) | _ => None end.
Proof.
  induction l as [|[n v] r IH]; intro Hok; [reflexivity|].
  apply fm_ok_inv in Hok as [Hok HF]. cbn [filter fm_get]. unfold keeps_loose at 1. cbn [snd].
  destruct (k =? n) eqn:E.
  - apply N.eqb_eq in E; subst n.
    destruct v as [[h|t]|]; cbn [fm_get]; rewrite ?N.eqb_refl; try reflexivity;
      rewrite (IH Hok), (fm_get_lt k (k, _) r HF) by (cbn [fst]; lia); reflexivity.
  - destruct v as [[h|t]|]; cbn [fm_get]; rewrite ?E; apply IH; exact Hok.
Qed.

Lemma fm_ok_filter {V} (g : N * V -> bool) (l : fmap V) : fm_ok l -> fm_ok (filter g l).
Proof.
  induction l as [|p r IH]; intro H; cbn [filter]; [constructor|].
  apply fm_ok_inv in H as [Hok HF]. destruct (g p); [|apply IH; exact Hok].
  constructor; [apply IH; exact Hok|].
  apply Forall_forall. intros q Hq. apply filter_In in Hq as [Hq _].
  rewrite Forall_forall in HF. apply HF; exact Hq.
Qed.

(* packing all reference files of a store (no HEAD among them) *)
Lemma pack_core f x :
  FsInv f -> loose_list (f_loose f) = Some x ->
  let P := map pack_line (filter (fun p => is_hash (snd p)) x)
           ++ map pack_line (packed_unseen (map fst x) (f_packed f)) in
  let f' := mkFs (filter keeps_loose (f_loose f)) P (f_rest f) in
  FsInv f' /\ forall k, fs_lookup f' k = fs_lookup f k.
Proof.
  intros HI Hx0. cbn zeta.
  destruct (fs_listing f HI) as [x1 [Hx [Hin [Hnd Hxin]]]]. rewrite Hx0 in Hx. injection Hx as <-.
  set (un := packed_unseen (map fst x) (f_packed f)) in *.
  set (P := map pack_line (filter (fun p => is_hash (snd p)) x) ++ map pack_line un).
  assert (Hun : forallb (fun p => is_hash (snd p)) un = true).
  { apply forallb_forall. intros [k v] Hk. cbn [snd].
    apply (packed_unseen_char _ _ k v (fi_packed f HI) (fi_nodup f HI)) in Hk as [h [-> _]]. reflexivity. }
  assert (Hhx : forallb (fun p => is_hash (snd p)) (filter (fun p : N * refval => is_hash (snd p)) x) = true).
  { apply forallb_forall. intros p Hp. apply filter_In in Hp. apply Hp. }
  rewrite map_app in Hnd. apply NoDup_app_inv_local in Hnd as (Hnd1 & Hnd2 & Hdisj).
  assert (HI' : FsInv (mkFs (filter keeps_loose (f_loose f)) P (f_rest f))).
  { constructor; cbn [f_loose f_packed].
    - apply fm_ok_filter. apply HI.
    - intro k. rewrite (fm_get_filter_keeps _ k (fi_ok f HI)).
      destruct (fm_get k (f_loose f)) as [[[h|t]|]|]; discriminate.
    - unfold P, packed_okb. rewrite forallb_app.
      fold (packed_okb (map pack_line (filter (fun p => is_hash (snd p)) x))).
      fold (packed_okb (map pack_line un)).
      rewrite (packed_ok_map_pack _ Hhx), (packed_ok_map_pack _ Hun). reflexivity.
    - unfold P. rewrite pnames_app, (pnames_map_pack _ Hhx), (pnames_map_pack _ Hun).
      apply NoDup_app_intro.
      + clear - Hnd1. induction x as [|[a b] r IH]; [constructor|]. cbn [filter snd].
        cbn [map fst] in Hnd1. inversion Hnd1 as [|? ? Hn Hr]; subst.
        destruct (is_hash b); cbn [map fst]; [|apply IH; exact Hr].
        constructor; [|apply IH; exact Hr]. intro Hi. apply Hn.
        apply in_map_iff in Hi as [q [Hq Hi]]. apply filter_In in Hi as [Hi _].
        apply in_map_iff. exists q. split; assumption.
      + exact Hnd2.
      + intros k H1 H2. apply (Hdisj k); [|exact H2].
        apply in_map_iff in H1 as [q [Hq H1]]. apply filter_In in H1 as [H1 _].
        apply in_map_iff. exists q. split; assumption. }
  split; [exact HI'|].
  intro k. apply opt_ext. intro v. rewrite <- (Hin k v).
  unfold fs_lookup at 1. cbn [f_loose f_packed]. rewrite (fm_get_filter_keeps _ k (fi_ok f HI)).
  rewrite in_app_iff, (Hxin k v).
  destruct (fm_get k (f_loose f)) as [[[h|t]|]|] eqn:El.
  - (* a hash reference file: now the packed line *)
    assert (E : packed_lookup k P = Some (Some h)).
    { apply (packed_lookup_In k h _ (fi_packed _ HI') (fi_nodup _ HI')). unfold P. apply in_or_app. left.
      apply In_map_pack_hashes. apply Hxin. exact El. }
    rewrite E. cbv beta iota. split.
    + intro H; injection H as <-. left; reflexivity.
    + intros [H|H]; [congruence|]. exfalso.
      apply (Hdisj k).
      * apply in_map_iff. exists (k, RHash h). split; [reflexivity|apply Hxin; exact El].
      * apply in_map_iff. exists (k, v). split; [reflexivity|exact H].
  - (* a symbolic reference file stays *)
    split; [intro H; left; congruence|]. intros [H|H]; [congruence|]. exfalso.
    apply (Hdisj k).
    + apply in_map_iff. exists (k, RSym t). split; [reflexivity|apply Hxin; exact El].
    + apply in_map_iff. exists (k, v). split; [reflexivity|exact H].
  - exfalso. apply (fi_nonempty f HI k). exact El.
  - (* no file: the packed line of the name, if any, is kept *)
    split.
    + destruct (packed_lookup k P) as [[h|]|] eqn:E; try discriminate.
      intro H; injection H as <-. right.
      apply (packed_lookup_In k h _ (fi_packed _ HI') (fi_nodup _ HI')) in E. unfold P in E.
      apply in_app_or in E as [E|E].
      * apply In_map_pack_hashes in E. apply Hxin in E. congruence.
      * apply (In_map_pack k h un Hun). exact E.
    + intros [H|H]; [discriminate|].
      assert (Hv : exists h, v = RHash h).
      { apply (packed_unseen_char _ _ k v (fi_packed f HI) (fi_nodup f HI)) in H as [h [-> _]]. exists h; reflexivity. }
      destruct Hv as [h ->].
      assert (E : packed_lookup k P = Some (Some h)).
      { apply (packed_lookup_In k h _ (fi_packed _ HI') (fi_nodup _ HI')). unfold P. apply in_or_app. right.
        apply (In_map_pack k h un Hun). exact H. }
      rewrite E. reflexivity.
Qed.


Lemma fs_lookup_del_head f k :
  fs_lookup (mkFs (fm_del head_name (f_loose f)) (f_packed f) (f_rest f)) k =
  if k =? head_name
  then match packed_lookup k (f_packed f) with Some (Some h) => Some (RHash h) | _ => None end
  else fs_lookup f k.
Proof. unfold fs_lookup. cbn [f_loose f_packed]. rewrite fm_get_del. destruct (k =? head_name); reflexivity. Qed.

Lemma fm_get_filter_koh (l : fmap (option refval)) k :
  fm_ok l ->
  fm_get k (filter keeps_loose_or_head l) =
  if k =? head_name then fm_get k l else fm_get k (filter keeps_loose (fm_del head_name l)).
Proof.
  induction l as [|[n v] r IH]; intro Hok; [destruct (k =? head_name); reflexivity|].
  apply fm_ok_inv in Hok as [Hok HF].
  unfold fm_del in *. cbn [filter fst]. unfold keeps_loose_or_head at 1. cbn [fst].
  destruct (n =? head_name) eqn:En; cbn [orb negb].
  - apply N.eqb_eq in En; subst n. cbn [fm_get]. destruct (k =? head_name) eqn:Ek; [reflexivity|].
    rewrite (IH Hok). rewrite ?Ek. reflexivity.
  - cbn [filter]. fold (keeps_loose (n, v)). destruct (keeps_loose (n, v)); cbn [fm_get].
    + destruct (k =? n) eqn:Ekn.
      * apply N.eqb_eq in Ekn; subst k. rewrite En. reflexivity.
      * rewrite (IH Hok). reflexivity.
    + rewrite (IH Hok). destruct (k =? head_name) eqn:Ek; [|reflexivity].
      apply N.eqb_eq in Ek; subst k. rewrite N.eqb_sym, En. reflexivity.
Qed.

Lemma fs_sim_pack U f s : FsRel f s -> fs_sim U f s SPackRefs.
Proof.
  intros HR. pose proof HR as [HI Hok Hr Hrest]. unfold fs_sim.
  cbn [fs_step spec_sstep fst snd]. unfold fs_pack_refs.
  set (fd := mkFs (fm_del head_name (f_loose f)) (f_packed f) (f_rest f)).
  assert (HId : FsInv fd).
  { destruct HI as [H1 H2 H3 H4]. constructor; cbn [fd f_loose f_packed]; try assumption.
    - apply fm_ok_del; exact H1.
    - intro k. rewrite fm_get_del. destruct (k =? head_name); [discriminate|apply H2]. }
  destruct (fs_listing fd HId) as [x [Hx _]]. cbn [fd f_loose] in Hx. rewrite Hx.
  destruct x as [|p0 x']; [split; [exact HR|reflexivity]|].
  rewrite (fi_packed f HI). cbn [fst snd]. split; [|reflexivity].
  destruct (pack_core fd (p0 :: x') HId Hx) as [HIc Hlk]. unfold fd in HIc, Hlk. cbn [f_loose f_packed f_rest] in HIc, Hlk.
  set (P := map pack_line (filter (fun p => is_hash (snd p)) (p0 :: x'))
            ++ map pack_line (packed_unseen (map fst (p0 :: x')) (f_packed f))) in *.
  assert (HI' : FsInv (mkFs (filter keeps_loose_or_head (f_loose f)) P (f_rest f))).
  { constructor; cbn [f_loose f_packed].
    - apply fm_ok_filter. apply HI.
    - intros k Hk. apply (fm_get_In k None _ (fm_ok_filter _ _ (fi_ok f HI))) in Hk.
      apply filter_In in Hk as [Hk _]. apply (fm_get_In k None _ (fi_ok f HI)) in Hk.
      exact (fi_nonempty f HI k Hk).
    - exact (fi_packed _ HIc).
    - exact (fi_nodup _ HIc). }
  constructor; [exact HI'|exact Hok| |exact Hrest].
  intro k. rewrite (Hr k). specialize (Hlk k). rewrite fs_lookup_del_head in Hlk.
  unfold fs_lookup in *. cbn [f_loose f_packed] in *.
  rewrite (fm_get_filter_koh _ k (fi_ok f HI)).
  destruct (k =? head_name) eqn:Ek.
  - destruct (fm_get k (f_loose f)) as [[v|]|] eqn:El; [reflexivity| |].
    + exfalso. exact (fi_nonempty f HI k El).
    + (* no HEAD file: whatever packed-refs says about the name is unchanged *)
      assert (Hn : fm_get k (filter keeps_loose (fm_del head_name (f_loose f))) = None).
      { rewrite (fm_get_filter_keeps _ k (fm_ok_del head_name _ (fi_ok f HI))), fm_get_del, Ek. reflexivity. }
      rewrite Hn in Hlk. symmetry. exact Hlk.
  - symmetry. exact Hlk.
Qed.

Lemma fs_sim_all U f s o : FsRel f s -> fs_ok f o = true -> fs_sim U f s o.
Proof.
  intros HR Hg. destruct o as [b| |l|].
  - destruct (ref_op b) eqn:Hb; [apply fs_sim_refs; assumption|].
    pose proof HR as [HI Hok Hr Hrest]. unfold fs_sim.
    assert (E : fs_step U f (SBase b) =
                (mkFs (f_loose f) (f_packed f) (fst (st_step U (f_rest f) b)), snd (st_step U (f_rest f) b))).
    { destruct b; try discriminate; cbn [fs_step]; destruct (st_step U (f_rest f) _); reflexivity. }
    rewrite E. cbn [spec_sstep fst snd].
    destruct (rest_step U (f_rest f) s b Hb Hrest) as (H1 & H2 & H3).
    split; [|rewrite H2; apply res_equiv_refl].
    constructor; cbn [f_loose f_packed f_rest].
    + destruct HI. constructor; assumption.
    + rewrite H3. exact Hok.
    + intro k. rewrite H3. exact (Hr k).
    + exact H1.
  - apply fs_sim_pack; assumption.
  - pose proof HR as [HI Hok Hr Hrest]. unfold fs_sim. cbn [fs_step spec_sstep fst snd].
    split; [|reflexivity]. constructor; cbn [f_loose f_packed f_rest].
    + destruct HI. constructor; assumption.
    + exact Hok.
    + exact Hr.
    + destruct Hrest as (H1 & H2 & H3 & H4 & H5). unfold rest_eq, add_pack, st_with_objs.
      cbn [s_objs s_idx s_cfg s_shallow s_logs]. rewrite H1. repeat split; assumption.
  - unfold fs_sim. cbn [fs_step spec_sstep fst snd]. split; [exact HR|reflexivity].
Qed.

(* ------------------------------------------------------------ whole histories *)
Fixpoint fs_guards (U : universe) (f : fstore) (ops : list sop) : bool :=
  match ops with
  | [] => true
  | o :: r => fs_ok f o && fs_guards U (fst (fs_step U f o)) r
  end.

Lemma fs_run_spec U ops : forall f s,
  FsRel f s -> fs_guards U f ops = true ->
  FsRel (fst (run_ops (fs_step U) f ops)) (fst (run_ops (spec_sstep U) s ops))
  /\ Forall2 res_equiv (snd (run_ops (fs_step U) f ops)) (snd (run_ops (spec_sstep U) s ops)).
Proof.
  induction ops as [|o r IH]; intros f s HR Hg.
  - cbn. split; [exact HR|constructor].
  - cbn [fs_guards] in Hg. apply andb_true_iff in Hg as [H1 H2].
    destruct (fs_sim_all U f s o HR H1) as [HR1 Hx]. cbn [run_ops].
    destruct (fs_step U f o) as [f1 x]. destruct (spec_sstep U s o) as [s1 y]. cbn [fst snd] in *.
    destruct (IH f1 s1 HR1 H2) as [HR2 Hall].
    destruct (run_ops (fs_step U) f1 r) as [f2 xs]. destruct (run_ops (spec_sstep U) s1 r) as [s2 ys].
    cbn [fst snd] in *. split; [exact HR2|constructor; assumption].
Qed.

Lemma FsRel_empty : FsRel fs_empty st_empty.
Proof.
  constructor.
  - constructor; cbn; try constructor. intro n. discriminate.
  - constructor.
  - intro n. reflexivity.
  - repeat split; reflexivity.
Qed.

Lemma Forall2_equiv_trans l1 : forall l2 l3,
  Forall2 res_equiv l1 l2 -> Forall2 res_equiv l2 l3 -> Forall2 res_equiv l1 l3.
Proof.
  induction l1 as [|a r IH]; intros l2 l3 H1 H2; inversion H1; subst; inversion H2; subst; constructor.
  - eapply res_equiv_trans; eassumption.
  - eapply IH; eassumption.
Qed.

Lemma Forall2_equiv_sym l1 : forall l2, Forall2 res_equiv l1 l2 -> Forall2 res_equiv l2 l1.
Proof.
  induction l1 as [|a r IH]; intros l2 H; inversion H; subst; constructor.
  - apply res_equiv_sym; assumption.
  - apply IH; assumption.
Qed.

Lemma Forall2_equiv_refl l : Forall2 res_equiv l l.
Proof. induction l; constructor; [apply res_equiv_refl|assumption]. Qed.
