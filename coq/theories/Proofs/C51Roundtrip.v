(* Proofs/C51Roundtrip.v — per-commit read-back: what the reader model returns for a file the
   encoder model wrote (parents incl. octopus edge lists, tree, time, generation v1, generation v2
   incl. the overflow chunk). *)
From Coq Require Import List NArith ZArith Bool Lia ZifyBool ZifyN ZifyNat Permutation.
From GoGit Require Import Base.Out Gen.C51 Model.CommitGraph Proofs.BitPack Proofs.C51 Proofs.C51Reader
  Proofs.C51Bytes Proofs.C51Records.
Import ListNotations.
Local Open Scope N_scope.

(* ------------------------------------------------------------ well-formed graphs *)
Definition entry_ok (hs : list bytes) (e : centry) : Prop :=
  (forall p, In p (e_parents e) -> In p hs) /\
  (0 <= e_when e < 17179869184)%Z /\ e_gen e < 1073741824 /\ e_gen2 e < two64.

Definition wf_graph (es : list centry) : Prop :=
  wf_file es /\ Forall (entry_ok (map e_hash es)) es /\
  N.of_nat (List.length (sorted_of es)) <= parentNone /\
  extra_edges_count es < 2147483648.

Lemma const_parentNone : parentNone = 1879048192. Proof. reflexivity. Qed.
Lemma const_octopus : parentOctopusUsed = 2 ^ 31. Proof. reflexivity. Qed.
Lemma const_mask : parentOctopusMask = N.ones 31. Proof. reflexivity. Qed.
Lemma const_last : parentLast = 2 ^ 31. Proof. reflexivity. Qed.
Lemma const_two31 : 2147483648 = 2 ^ 31. Proof. reflexivity. Qed.
Lemma const_ones31 : 2147483647 = N.ones 31. Proof. reflexivity. Qed.
Lemma const_ones34 : 17179869183 = N.ones 34. Proof. reflexivity. Qed.
Lemma const_two32 : two32 = 2 ^ 32. Proof. reflexivity. Qed.
Lemma const_two64 : two64 = 2 ^ 64. Proof. reflexivity. Qed.

(* ------------------------------------------------------------ the EDGE walk *)
Lemma read_edges_spec : forall L E1 E2 pre rest fuel,
  L <> [] -> (forall x, In x L -> x < 2 ^ 31) -> (List.length L <= fuel)%nat ->
  read_edges (pre ++ flat_map be32 (E1 ++ set_last L ++ E2) ++ rest) fuel
    (Z.of_nat (List.length pre) + 4 * Z.of_nat (List.length E1)) (Z.of_nat (List.length E1))
    (Z.of_nat (List.length (E1 ++ set_last L ++ E2))) = Ok L.
Proof.
  induction L as [|x r IH]; intros E1 E2 pre rest fuel Hne Hlt Hfuel; [congruence|].
  destruct fuel as [|f]; [simpl in Hfuel; lia|].
  assert (Hx : x < 2 ^ 31) by (apply Hlt; now left).
  destruct r as [|y r'].
  - (* last element *)
    cbn [set_last read_edges].
    set (l := E1 ++ [N.lor x parentLast] ++ E2).
    assert (C : (Z.of_nat (List.length l) <=? Z.of_nat (List.length E1))%Z = false).
    { unfold l. rewrite !app_length. simpl. lia. }
    rewrite C.
    assert (Hn : nth (List.length E1) l 0 = N.lor x parentLast).
    { unfold l. rewrite app_nth2 by lia. now rewrite Nat.sub_diag. }
    assert (R : rd (pre ++ flat_map be32 l ++ rest) (Z.of_nat (List.length pre) + 4 * Z.of_nat (List.length E1)) 4
                = Ok (N.lor x parentLast)).
    { rewrite <- Hn. replace (4 * Z.of_nat (List.length E1))%Z with (Z.of_nat (4 * List.length E1)) by lia.
      apply rd32_word.
      - unfold l. rewrite !app_length. simpl. lia.
      - rewrite Hn, const_last, const_two32. apply (flag_bound x 31 Hx). }
    rewrite R. rewrite const_last, (flag_present x 31 Hx), N.eqb_refl.
    rewrite const_mask, (flag_strip x 31 Hx). reflexivity.
  - change (set_last (x :: y :: r')) with (x :: set_last (y :: r')).
    cbn [read_edges].
    set (l := E1 ++ (x :: set_last (y :: r')) ++ E2).
    assert (El : l = (E1 ++ [x]) ++ set_last (y :: r') ++ E2) by (unfold l; now rewrite <- app_assoc).
    assert (C : (Z.of_nat (List.length l) <=? Z.of_nat (List.length E1))%Z = false).
    { unfold l. rewrite !app_length. simpl. lia. }
    rewrite C.
    assert (Hn : nth (List.length E1) l 0 = x).
    { unfold l. rewrite app_nth2 by lia. now rewrite Nat.sub_diag. }
    assert (R : rd (pre ++ flat_map be32 l ++ rest) (Z.of_nat (List.length pre) + 4 * Z.of_nat (List.length E1)) 4 = Ok x).
    { rewrite <- Hn. replace (4 * Z.of_nat (List.length E1))%Z with (Z.of_nat (4 * List.length E1)) by lia.
      apply rd32_word.
      - unfold l. rewrite !app_length. simpl. lia.
      - rewrite Hn, const_two32. eapply N.lt_trans; [exact Hx|]. reflexivity. }
    rewrite R. rewrite const_last, (flag_absent x 31 Hx).
    change (0 =? 2 ^ 31) with false.
    rewrite El.
    replace (Z.of_nat (List.length pre) + 4 * Z.of_nat (List.length E1) + 4)%Z
      with (Z.of_nat (List.length pre) + 4 * Z.of_nat (List.length (E1 ++ [x])))%Z by (rewrite app_length; cbn [List.length]; lia).
    replace (Z.of_nat (List.length E1) + 1)%Z with (Z.of_nat (List.length (E1 ++ [x]))) by (rewrite app_length; cbn [List.length]; lia).
    rewrite (IH (E1 ++ [x]) E2 pre rest f).
    + rewrite const_mask, (mask_small x 31 Hx). reflexivity.
    + discriminate.
    + intros z Hz. apply Hlt. now right.
    + simpl in Hfuel. simpl. lia.
Qed.

(* ------------------------------------------------------------ the parent words *)
Section ParentWords.
Variable sorted : list bytes.
Variable e : centry.
Hypothesis Hidx : forall p, In p (e_parents e) -> hash_to_index sorted p < parentNone.

Lemma idx_lt31 : forall p, In p (e_parents e) -> hash_to_index sorted p < 2 ^ 31.
Proof. intros p Hp. pose proof (Hidx p Hp) as H. rewrite const_parentNone in H. eapply N.lt_trans; [exact H|]. reflexivity. Qed.

Lemma parent_indexes_small : forall file fi pos, (List.length (e_parents e) <= 2)%nat ->
  parent_indexes file fi (fst (parent_words sorted e pos)) (snd (parent_words sorted e pos)) = Ok (pidx_of sorted e).
Proof.
  intros file fi pos Hlen. unfold parent_words, pidx_of, parent_indexes.
  pose proof idx_lt31 as idx_lt31'. pose proof Hidx as Hidx'.
  destruct (e_parents e) as [|a [|b [|c rest]]] eqn:Ep; cbn [fst snd map].
  - reflexivity.
  - assert (Ha : hash_to_index sorted a < parentNone) by (apply Hidx'; now left).
    assert (Ha31 : hash_to_index sorted a < 2 ^ 31) by (apply idx_lt31'; now left).
    change (N.land parentNone parentOctopusUsed =? parentOctopusUsed) with false. cbv iota.
    rewrite N.eqb_refl. cbn [negb].
    assert (E : hash_to_index sorted a =? parentNone = false) by lia. rewrite E. cbn [negb].
    rewrite const_mask, (mask_small _ 31 Ha31). reflexivity.
  - assert (Ha31 : hash_to_index sorted a < 2 ^ 31) by (apply idx_lt31'; now left).
    assert (Hb : hash_to_index sorted b < parentNone) by (apply Hidx'; right; now left).
    assert (Hb31 : hash_to_index sorted b < 2 ^ 31) by (apply idx_lt31'; right; now left).
    rewrite const_octopus, (flag_absent _ 31 Hb31). change (0 =? 2 ^ 31) with false. cbv iota.
    assert (E : hash_to_index sorted b =? parentNone = false) by lia. rewrite E. cbn [negb].
    rewrite const_mask, (mask_small _ 31 Ha31), (mask_small _ 31 Hb31). reflexivity.
  - simpl in Hlen. lia.
Qed.

Lemma new_edges_octopus : forall a b c rest, e_parents e = a :: b :: c :: rest ->
  new_edges sorted e = set_last (map (hash_to_index sorted) (b :: c :: rest)).
Proof. intros a b c rest Ep. unfold new_edges. now rewrite Ep. Qed.

Lemma parent_indexes_octopus : forall (file pre rest : bytes) fi E1 E2,
  (2 < List.length (e_parents e))%nat ->
  file = pre ++ flat_map be32 (E1 ++ new_edges sorted e ++ E2) ++ rest ->
  off_of (f_off fi) 5 = Z.of_nat (List.length pre) ->
  off_of (f_size fi) 5 = (4 * Z.of_nat (List.length (E1 ++ new_edges sorted e ++ E2)))%Z ->
  N.of_nat (List.length E1) < 2 ^ 31 ->
  parent_indexes file fi (fst (parent_words sorted e (List.length E1))) (snd (parent_words sorted e (List.length E1)))
  = Ok (pidx_of sorted e).
Proof.
  intros file pre rest fi E1 E2 Hlen Hfile Hoff Hsz Hpos.
  unfold parent_words, pidx_of, parent_indexes.
  pose proof idx_lt31 as idx_lt31'. pose proof new_edges_octopus as new_edges_octopus'.
  destruct (e_parents e) as [|a [|b [|c more]]] eqn:Ep; try (simpl in Hlen; lia).
  cbn [fst snd].
  assert (Ha31 : hash_to_index sorted a < 2 ^ 31) by (apply idx_lt31'; now left).
  assert (Hm : N.of_nat (List.length E1) mod two32 = N.of_nat (List.length E1)).
  { apply N.mod_small. rewrite const_two32. eapply N.lt_trans; [exact Hpos|]. reflexivity. }
  rewrite Hm, const_octopus, (flag_present _ 31 Hpos), N.eqb_refl.
  rewrite const_mask, (flag_strip _ 31 Hpos), (mask_small _ 31 Ha31).
  rewrite Hsz, Hoff.
  set (L := map (hash_to_index sorted) (b :: c :: more)).
  assert (EL : new_edges sorted e = set_last L) by (unfold L; now apply (new_edges_octopus' a)).
  rewrite EL in *.
  replace (Z.quot (4 * Z.of_nat (List.length (E1 ++ set_last L ++ E2))) 4) with (Z.of_nat (List.length (E1 ++ set_last L ++ E2)))
    by (rewrite Z.mul_comm, Z.quot_mul; lia).
  rewrite nat_N_Z.
  assert (C : (Z.of_nat (List.length (E1 ++ set_last L ++ E2)) <=? Z.of_nat (List.length E1))%Z = false).
  { rewrite !app_length, set_last_length. unfold L. simpl. lia. }
  rewrite C. rewrite Hfile.
  rewrite (read_edges_spec L E1 E2 pre rest).
  - reflexivity.
  - unfold L. discriminate.
  - intros x Hx. unfold L in Hx. apply in_map_iff in Hx. destruct Hx as [p [<- Hp]]. apply idx_lt31'. now right.
  - rewrite !app_length, flat_map_be32_length, !app_length, set_last_length. lia.
Qed.
End ParentWords.

(* ------------------------------------------------------------ the time word *)
Lemma time_word_spec : forall e, (0 <= e_when e < 17179869184)%Z -> e_gen e < 1073741824 ->
  time_word e < two64 /\ N.land (time_word e) 17179869183 = Z.to_N (e_when e) /\ N.shiftr (time_word e) 34 = e_gen e.
Proof.
  intros e Hw Hg. unfold time_word.
  assert (Eu : u64_of_Z (e_when e) = Z.to_N (e_when e)).
  { unfold u64_of_Z. rewrite Z.mod_small; [reflexivity|]. unfold two64. lia. }
  assert (Hlow : Z.to_N (e_when e) < 2 ^ 34) by (change (2 ^ 34) with 17179869184; lia).
  assert (Hhigh : e_gen e < 2 ^ 30) by (change (2 ^ 30) with 1073741824; exact Hg).
  assert (Es : N.shiftl (e_gen e) 34 mod two64 = N.shiftl (e_gen e) 34).
  { apply N.mod_small. rewrite const_two64. change 64 with (34 + 30). now apply shiftl_bound. }
  rewrite Eu, Es. split; [|split].
  - rewrite const_two64. change 64 with (34 + 30). now apply pack_bound.
  - rewrite const_ones34. now apply unpack_low.
  - now apply unpack_high.
Qed.

(* ------------------------------------------------------------ generation data v2 *)
Lemma gen2_value : forall e, norm_gen2 e <> 0 -> norm_gen2 e < two64 -> (0 <= e_when e < 17179869184)%Z ->
  let t := Z.to_N (e_when e) in
  (if is_ovf (gen2_data e) then (t + gen2_data e) mod two64 else t + gen2_data e) = norm_gen2 e /\ gen2_data e < two64.
Proof.
  intros e Hn Hlt Hw t. unfold gen2_data.
  assert (E0 : norm_gen2 e =? 0 = false) by lia. rewrite E0.
  assert (Eu : u64_of_Z (e_when e) = t).
  { unfold u64_of_Z, t. rewrite Z.mod_small; [reflexivity|]. unfold two64. lia. }
  rewrite Eu.
  assert (Ht : t < two64) by (unfold t, two64; lia).
  split; [|apply N.mod_lt; unfold two64; lia].
  destruct (is_ovf ((norm_gen2 e + two64 - t) mod two64)) eqn:Eo.
  - now apply wrap_sub_add.
  - apply (wrap_sub_small _ _ _ 2147483648); auto.
    + unfold t, two64. lia.
    + unfold is_ovf in Eo. lia.
Qed.

Lemma gen2_of_spec : forall (file pre rest : bytes) fi ds ovpre i tm,
  f_gen2 fi = true ->
  file = pre ++ flat_map be32 (gen2_words ds 0) ++ ovpre ++ flat_map be64 (filter is_ovf ds) ++ rest ->
  ovpre = [] ->
  off_of (f_off fi) 3 = Z.of_nat (List.length pre) ->
  (filter is_ovf ds <> [] ->
     off_of (f_off fi) 4 = Z.of_nat (List.length (pre ++ flat_map be32 (gen2_words ds 0))) /\
     off_of (f_size fi) 4 = (8 * Z.of_nat (List.length (filter is_ovf ds)))%Z) ->
  (i < List.length ds)%nat -> N.of_nat (List.length ds) < 2 ^ 31 -> (forall d, In d ds -> d < two64) ->
  gen2_of file fi (N.of_nat i) tm =
  Ok (if is_ovf (nth i ds 0) then (tm + nth i ds 0) mod two64 else tm + nth i ds 0).
Proof.
  intros file pre rest fi ds ovpre i tm Hg Hfile Hov Ho3 Ho4 Hi Hn Hds. subst ovpre. cbn [app] in Hfile.
  unfold gen2_of. rewrite Hg.
  assert (Hw : nth i (gen2_words ds 0) 0 < two32).
  { rewrite gen2_words_nth by exact Hi. destruct (is_ovf (nth i ds 0)) eqn:Eo.
    - assert (Hb : (0 + N.of_nat (ovf_before ds i)) mod two32 < 2 ^ 31).
      { pose proof (ovf_before_le ds i). rewrite N.mod_small; [|unfold two32]; lia. }
      rewrite const_two31, const_two32. apply (flag_bound _ 31 Hb).
    - unfold is_ovf in Eo. unfold two32. lia. }
  assert (R : rd file (off_of (f_off fi) 3 + Z.of_N (N.of_nat i) * 4) 4 = Ok (nth i (gen2_words ds 0) 0)).
  { rewrite Ho3, Hfile. replace (Z.of_N (N.of_nat i) * 4)%Z with (Z.of_nat (4 * i)) by lia.
    apply rd32_word; [now rewrite gen2_words_length | exact Hw]. }
  rewrite R. rewrite gen2_words_nth by exact Hi.
  destruct (is_ovf (nth i ds 0)) eqn:Eo.
  - pose proof (ovf_before_le ds i) as Hle.
    assert (Hb : (0 + N.of_nat (ovf_before ds i)) mod two32 = N.of_nat (ovf_before ds i)).
    { rewrite N.mod_small; [|unfold two32]; lia. }
    assert (Hb31 : N.of_nat (ovf_before ds i) < 2 ^ 31) by lia.
    rewrite Hb, const_two31, (flag_present _ 31 Hb31).
    change (0 <? 2 ^ 31) with true. cbv iota.
    rewrite const_ones31, (flag_strip _ 31 Hb31).
    destruct (filter_nth_ovf ds i Hi Eo) as [Hpos Hval].
    assert (Hne : filter is_ovf ds <> []) by (intros E; rewrite E in Hpos; simpl in Hpos; lia).
    destruct (Ho4 Hne) as [Ho4a Ho4b]. rewrite Ho4b, Ho4a.
    replace (Z.quot (8 * Z.of_nat (List.length (filter is_ovf ds))) 8) with (Z.of_nat (List.length (filter is_ovf ds)))
      by (rewrite Z.mul_comm, Z.quot_mul; lia).
    rewrite nat_N_Z.
    assert (C : (Z.of_nat (List.length (filter is_ovf ds)) <=? Z.of_nat (ovf_before ds i))%Z = false) by lia.
    rewrite C.
    assert (R2 : rd file (Z.of_nat (List.length (pre ++ flat_map be32 (gen2_words ds 0))) + Z.of_nat (ovf_before ds i) * 8) 8
                 = Ok (nth i ds 0)).
    { rewrite <- Hval. rewrite Hfile.
      replace (pre ++ flat_map be32 (gen2_words ds 0) ++ flat_map be64 (filter is_ovf ds) ++ rest)
        with ((pre ++ flat_map be32 (gen2_words ds 0)) ++ flat_map be64 (filter is_ovf ds) ++ rest)
        by (now rewrite <- app_assoc).
      replace (Z.of_nat (ovf_before ds i) * 8)%Z with (Z.of_nat (8 * ovf_before ds i)) by lia.
      apply rd64_word; [exact Hpos|]. rewrite Hval. apply Hds. apply nth_In. exact Hi. }
    rewrite R2. reflexivity.
  - assert (Hd : nth i ds 0 < 2 ^ 31) by (unfold is_ovf in Eo; change (2 ^ 31) with 2147483648; lia).
    rewrite const_two31, (flag_absent _ 31 Hd). change (0 <? 0) with false. reflexivity.
Qed.

(* ------------------------------------------------------------ evaluation of the reader *)
Lemma gcd_eval : forall below min file fi idx tree p1 p2 gt pidx ph g2,
  (ncommits fi <=? idx) = false ->
  slice file (off_of (f_off fi) 2 + Z.of_N idx * 36) 20 = Some tree ->
  rd file (off_of (f_off fi) 2 + Z.of_N idx * 36 + 20) 4 = Ok p1 ->
  rd file (off_of (f_off fi) 2 + Z.of_N idx * 36 + 24) 4 = Ok p2 ->
  rd file (off_of (f_off fi) 2 + Z.of_N idx * 36 + 28) 8 = Ok gt ->
  parent_indexes file fi p1 p2 = Ok pidx ->
  hashes_of below min file fi pidx = Ok ph ->
  gen2_of file fi idx (N.land gt 17179869183) = Ok g2 ->
  get_commit_data_in below min file fi idx = Ok (mkCD tree pidx ph (N.shiftr gt 34) g2 (N.land gt 17179869183)).
Proof.
  intros below min file fi idx tree p1 p2 gt pidx ph g2 H H0 H1 H2 H3 H4 H5 H6.
  unfold get_commit_data_in. rewrite H. cbv zeta. rewrite H0, H1, H2, H3, H4, H5, H6. reflexivity.
Qed.

Lemma chunk_headers_length : forall tbl off, Forall sig_ok tbl ->
  List.length (chunk_headers tbl off) = (12 * S (List.length tbl))%nat.
Proof.
  intros tbl off H. rewrite chunk_headers_mkT, app_length, (ents_length tbl off H), app_length, be64_length.
  change (List.length sig_ZERO) with 4%nat. lia.
Qed.

(* where the encoder's table puts each chunk *)
Lemma mkT_offsets : forall es n off0,
  let tbl := chunk_table es n in
  let o1 := off0 + 4 * lenFanout in
  let o2 := o1 + n * hashSize in
  let o3 := o2 + n * (hashSize + szCommitData) in
  In (sig_OIDL, ct_of sig_OIDL, o1) (mkT tbl off0) /\
  In (sig_CDAT, ct_of sig_CDAT, o2) (mkT tbl off0) /\
  (0 <? extra_edges_count es = true ->
     In (sig_EDGE, ct_of sig_EDGE, o3) (mkT tbl off0) /\ In (sig_EDGE, extra_edges_count es * 4) tbl) /\
  (has_gen2 es = true -> In (sig_GDA2, ct_of sig_GDA2, o3 + extra_edges_count es * 4) (mkT tbl off0)) /\
  (has_gen2 es = true -> 0 <? overflow_count es = true ->
     In (sig_GDO2, ct_of sig_GDO2, o3 + extra_edges_count es * 4 + n * 4) (mkT tbl off0) /\
     In (sig_GDO2, overflow_count es * 8) tbl).
Proof.
  intros es n off0. cbv zeta. unfold chunk_table.
  assert (Hx0 : 0 <? extra_edges_count es = false -> extra_edges_count es = 0) by lia.
  destruct (0 <? extra_edges_count es) eqn:Ex; destruct (has_gen2 es) eqn:Eh;
    try destruct (0 <? overflow_count es) eqn:Eo; cbn [mkT app];
    try rewrite (Hx0 eq_refl), N.mul_0_l, N.add_0_r;
    (split; [cbn [In]; auto 10|]); (split; [cbn [In]; auto 10|]);
    (split; [intros; try discriminate; split; cbn [In]; auto 10|]);
    (split; [intros; try discriminate; cbn [In]; auto 10|]);
    intros; try discriminate; split; cbn [In]; auto 10.
Qed.

Lemma overflow_count_filter : forall es, wf_entries es -> has_gen2 es = true ->
  overflow_count es = N.of_nat (List.length (filter is_ovf (map gen2_data (sorted_entries es)))).
Proof.
  intros es Hwf Hg. unfold overflow_count. rewrite Hg. f_equal.
  rewrite filter_map_length. rewrite (filter_length_perm _ _ _ _ (sorted_entries_perm es Hwf)).
  f_equal. apply filter_ext. intros e. unfold is_ovf, two31. lia.
Qed.

Section RoundTrip.
Variable es : list centry.
Variable trailer : bytes.
Hypothesis Hwf : wf_graph es.
Hypothesis Htr : List.length trailer = 20%nat.

Let sorted := sorted_of es.
Let nn := List.length sorted.
Let ents := sorted_entries es.
Let tbl := chunk_table es (N.of_nat nn).
Let off0 := 8 + (N.of_nat (List.length tbl) + 1) * 12.
Let file := encode es ++ trailer.
Let edges := flat_map (new_edges sorted) ents.
Let ds := map gen2_data ents.
Let P0 := sig_CGPH ++ [1; 1; N.of_nat (List.length tbl) mod 256; 0] ++ chunk_headers tbl off0.
Let fan := flat_map be32 (fanout_of sorted).
Let recs := records sorted ents 0.
Let gens := if has_gen2 es then flat_map be32 (gen2_words ds 0) ++ flat_map be64 (filter is_ovf ds) else [].

Lemma rt_wfe : wf_entries es. Proof. destruct Hwf as [[A _] _]. exact A. Qed.
Lemma rt_wff : wf_file es. Proof. destruct Hwf as [A _]. exact A. Qed.

Lemma rt_find : forall h, In h sorted -> find_entry h es None = Some (entry_of es h).
Proof.
  intros h Hh. destruct (sorted_in es h rt_wfe Hh) as [e [_ [_ Hf]]]. unfold entry_of. now rewrite Hf.
Qed.

Lemma rt_ents_len : List.length ents = nn.
Proof. unfold ents, sorted_entries. apply map_length. Qed.

Lemma rt_ent : forall i, (i < nn)%nat ->
  In (nth i ents dummy_entry) es /\ e_hash (nth i ents dummy_entry) = nth i sorted [].
Proof.
  intros i Hi. unfold ents, sorted_entries.
  rewrite (nth_indep _ dummy_entry (entry_of es [])) by (rewrite map_length; exact Hi).
  rewrite map_nth. fold sorted.
  assert (Hin : In (nth i sorted []) sorted) by (apply nth_In; exact Hi).
  destruct (sorted_in es _ rt_wfe Hin) as [e [He [Eh Hf]]]. unfold entry_of. rewrite Hf. split; assumption.
Qed.

Lemma rt_nodup : NoDup sorted.
Proof.
  pose proof (sorted_perm es rt_wfe) as P. destruct rt_wfe as [Hnd _].
  eapply Permutation_NoDup; [apply Permutation_sym; exact P | exact Hnd].
Qed.

Lemma rt_len20 : forall h, In h sorted -> List.length h = 20%nat.
Proof.
  intros h Hh. destruct (sorted_in es h rt_wfe Hh) as [e [He [Eh _]]]. subst h.
  destruct rt_wfe as [_ Hall]. rewrite Forall_forall in Hall. now destruct (Hall e He).
Qed.

Lemma rt_entry_ok : forall e, In e es -> entry_ok (map e_hash es) e.
Proof. intros e He. destruct Hwf as [_ [A _]]. rewrite Forall_forall in A. now apply A. Qed.

Lemma rt_parent_in : forall e p, In e es -> In p (e_parents e) -> In p sorted.
Proof.
  intros e p He Hp. destruct (rt_entry_ok e He) as [Hc _].
  eapply Permutation_in; [apply Permutation_sym; apply (sorted_perm es rt_wfe) | now apply Hc].
Qed.

Lemma rt_nn_bound : N.of_nat nn <= parentNone.
Proof. destruct Hwf as [_ [_ [A _]]]. exact A. Qed.

Lemma rt_idx : forall e p, In e es -> In p (e_parents e) -> hash_to_index sorted p < parentNone.
Proof.
  intros e p He Hp. destruct (hash_to_index_in p sorted (rt_parent_in e p He Hp)) as [k [A [B _]]].
  rewrite A. pose proof rt_nn_bound. unfold nn in *. lia.
Qed.

Lemma rt_edges_len : N.of_nat (List.length edges) = extra_edges_count es.
Proof.
  unfold edges. rewrite flat_new_edges_length, extra_edges_count_nat. f_equal.
  apply sum_nat_perm. apply Permutation_map. apply (sorted_entries_perm es rt_wfe).
Qed.

Lemma rt_ds : map (fun h => match find_entry h es None with Some e => gen2_data e | None => 0 end) sorted = ds.
Proof.
  unfold ds, ents, sorted_entries. rewrite map_map. fold sorted. apply map_ext_in. intros h Hh.
  now rewrite (rt_find h Hh).
Qed.

Lemma rt_shape : file = P0 ++ fan ++ List.concat sorted ++ List.concat recs ++ flat_map be32 edges ++ gens ++ trailer.
Proof.
  unfold file, encode. fold (sorted_of es). fold sorted. fold nn. fold tbl.
  rewrite (commit_data_records sorted es sorted [] rt_find). cbv iota beta.
  rewrite rt_ds, gen2_chunks_words. cbn [List.length app].
  fold (sorted_entries es). fold ents. fold recs. fold edges. fold off0. fold fan.
  unfold P0, gens. destruct (has_gen2 es); rewrite <- ?app_assoc; cbn [app]; rewrite <- ?app_assoc; reflexivity.
Qed.

Lemma rt_tbl_ok : Forall sig_ok tbl.
Proof. destruct (chunk_table_facts es (N.of_nat nn)) as [A _]. exact A. Qed.

Lemma rt_P0_len : Z.of_nat (List.length P0) = Z.of_N off0.
Proof.
  unfold P0. rewrite !app_length, (chunk_headers_length tbl off0 rt_tbl_ok).
  change (List.length sig_CGPH) with 4%nat. cbn [List.length]. unfold off0. lia.
Qed.

Lemma rt_fan_len : List.length fan = 1024%nat.
Proof. unfold fan. rewrite flat_map_be32_length. unfold fanout_of. now rewrite map_length, seq_length. Qed.

Lemma rt_oids_len : List.length (List.concat sorted) = (20 * nn)%nat.
Proof. apply concat_length_20. exact rt_len20. Qed.

Lemma rt_trees : Forall (fun e => List.length (e_tree e) = 20%nat) ents.
Proof.
  rewrite Forall_forall. intros e He. destruct (In_nth _ _ dummy_entry He) as [i [Hi <-]].
  rewrite rt_ents_len in Hi. destruct (rt_ent i Hi) as [Hin _].
  destruct rt_wfe as [_ Hall]. rewrite Forall_forall in Hall. now destruct (Hall _ Hin).
Qed.

Lemma rt_recs_len : List.length (List.concat recs) = (36 * nn)%nat.
Proof.
  pose proof (concat_firstn_length recs 36 (List.length recs) (records_width sorted ents 0 rt_trees) (le_n _)) as H.
  rewrite firstn_all in H. rewrite H. unfold recs. now rewrite records_length, rt_ents_len.
Qed.

Section WithFi.
Variable fi : findex.
Hypothesis Hopen : open_file file = Ok fi.

Lemma rt_fi : ncommits fi = N.of_nat nn /\ f_gen2 fi = has_gen2 es /\
  (forall s off, In (s, ct_of s, off) (mkT tbl off0) -> off_of (f_off fi) (ct_of s) = Z.of_N off) /\
  (forall s sz, In (s, sz) tbl -> off_of (f_size fi) (ct_of s) = Z.of_N sz).
Proof.
  destruct (reader_accepts_strong es trailer rt_wff Htr) as [fi' [A [B [C [_ [D E]]]]]].
  fold file in A. rewrite Hopen in A. injection A as <-. repeat split; assumption.
Qed.

Lemma rt_hash_local : forall i, (i < nn)%nat -> hash_local file fi (N.of_nat i) = Ok (nth i sorted []).
Proof.
  intros i Hi. destruct rt_fi as [Hnc [_ [Hoffs _]]].
  destruct (mkT_offsets es (N.of_nat nn) off0) as [O1 _]. fold tbl in O1.
  unfold hash_local. rewrite Hnc.
  assert (C : (N.of_nat nn <=? N.of_nat i) = false) by lia. rewrite C.
  change (off_of (f_off fi) 1) with (off_of (f_off fi) (ct_of sig_OIDL)). rewrite (Hoffs _ _ O1).
  assert (S : slice file (Z.of_N (off0 + 4 * lenFanout) + Z.of_N (N.of_nat i) * 20) 20 = Some (nth i sorted [])).
  { rewrite rt_shape.
    replace (P0 ++ fan ++ List.concat sorted ++ List.concat recs ++ flat_map be32 edges ++ gens ++ trailer)
      with ((P0 ++ fan) ++ List.concat sorted ++ (List.concat recs ++ flat_map be32 edges ++ gens ++ trailer))
      by (now rewrite <- !app_assoc).
    replace (Z.of_N (off0 + 4 * lenFanout) + Z.of_N (N.of_nat i) * 20)%Z
      with (Z.of_nat (List.length (P0 ++ fan)) + Z.of_nat (20 * i))%Z.
    - apply slice_record; [exact rt_len20 | exact Hi].
    - rewrite app_length, rt_fan_len, Nat2Z.inj_add, rt_P0_len. change lenFanout with 256. lia. }
  rewrite S. reflexivity.
Qed.

Lemma rt_hashes_of : forall ps, (forall p, In p ps -> In p sorted) ->
  hashes_of (fun _ => Er EMalformed) 0 file fi (map (hash_to_index sorted) ps) = Ok ps.
Proof.
  induction ps as [|p r IH]; intros H; [reflexivity|].
  cbn [map hashes_of].
  destruct (hash_to_index_in p sorted (H p (or_introl eq_refl))) as [k [A [B C]]].
  rewrite A. assert (E : N.of_nat k <? 0 = false) by lia. rewrite E, N.sub_0_r.
  rewrite (rt_hash_local k B), C. rewrite IH by (intros; apply H; now right). reflexivity.
Qed.

(* the bytes in front of commit i's record, and the edges written before it *)
Let pos_of (i : nat) : nat := List.length (flat_map (new_edges sorted) (firstn i ents)).

Lemma rt_pos_bound : forall i, (i < nn)%nat ->
  N.of_nat (pos_of i + List.length (new_edges sorted (nth i ents dummy_entry))) <= extra_edges_count es.
Proof.
  intros i Hi. rewrite <- rt_edges_len. unfold edges, pos_of.
  rewrite (flat_map_split_nth sorted ents i) by (rewrite rt_ents_len; exact Hi).
  rewrite !app_length. lia.
Qed.

Lemma rt_words_bound : forall i, (i < nn)%nat ->
  let e := nth i ents dummy_entry in
  fst (parent_words sorted e (pos_of i)) < two32 /\ snd (parent_words sorted e (pos_of i)) < two32.
Proof.
  intros i Hi e. destruct (rt_ent i Hi) as [Hin _]. fold e in Hin.
  pose proof (rt_idx e) as Hidx. pose proof (rt_pos_bound i Hi) as Hpos. fold e in Hpos.
  destruct Hwf as [_ [_ [_ Hx]]].
  assert (HN : parentNone < two32) by reflexivity.
  unfold parent_words. unfold new_edges in Hpos.
  destruct (e_parents e) as [|a [|b [|c rest]]] eqn:Ep; cbn [fst snd].
  - split; exact HN.
  - split; [|exact HN]. specialize (Hidx a Hin (or_introl eq_refl)). lia.
  - split.
    + specialize (Hidx a Hin (or_introl eq_refl)). lia.
    + specialize (Hidx b Hin (or_intror (or_introl eq_refl))). lia.
  - split.
    + specialize (Hidx a Hin (or_introl eq_refl)). lia.
    + assert (Hp : N.of_nat (pos_of i) mod two32 < 2 ^ 31).
      { rewrite N.mod_small; [|unfold two32]; change (2 ^ 31) with 2147483648; lia. }
      rewrite const_octopus, const_two32. apply (flag_bound _ 31 Hp).
Qed.

Theorem commit_readback : forall i, (i < nn)%nat ->
  let e := nth i ents dummy_entry in
  get_commit_data file fi (N.of_nat i) =
    Ok (mkCD (e_tree e) (pidx_of sorted e) (e_parents e) (e_gen e)
             (if has_gen2 es then norm_gen2 e else 0) (Z.to_N (e_when e))).
Proof.
  intros i Hi e. destruct rt_fi as [Hnc [Hg2 [Hoffs Hsizes]]].
  destruct (rt_ent i Hi) as [Hin Hhash]. fold e in Hin, Hhash.
  destruct (rt_entry_ok e Hin) as [Hclosed [Hwhen [Hgen Hgen2]]].
  destruct (mkT_offsets es (N.of_nat nn) off0) as [_ [O2 [O5 [O3 O4]]]]. fold tbl in O2, O3, O4, O5.
  destruct (time_word_spec e Hwhen Hgen) as [Tb [Tl Th]].
  destruct (rt_words_bound i Hi) as [W1 W2]. fold e in W1, W2.
  assert (Hrec : nth i recs [] = record sorted e (pos_of i)).
  { unfold recs. rewrite records_nth by (rewrite rt_ents_len; exact Hi). reflexivity. }
  assert (Hi' : (i < List.length recs)%nat) by (unfold recs; rewrite records_length, rt_ents_len; exact Hi).
  (* the record *)
  set (PRE := (P0 ++ fan ++ List.concat sorted) ++ List.concat (firstn i recs)).
  assert (HPRE : Z.of_nat (List.length PRE) = (Z.of_N (off0 + 4 * lenFanout + N.of_nat nn * hashSize) + Z.of_N (N.of_nat i) * 36)%Z).
  { unfold PRE. rewrite !app_length, rt_fan_len, rt_oids_len.
    rewrite (concat_firstn_length recs 36 i (records_width sorted ents 0 rt_trees)) by lia.
    rewrite !Nat2Z.inj_add, rt_P0_len. change lenFanout with 256. change hashSize with 20. lia. }
  assert (Hfile : file = PRE ++ (e_tree e ++ be32 (fst (parent_words sorted e (pos_of i))) ++
                                 be32 (snd (parent_words sorted e (pos_of i))) ++ be64 (time_word e))
                         ++ (List.concat (skipn (S i) recs) ++ flat_map be32 edges ++ gens ++ trailer)).
  { rewrite rt_shape. rewrite (concat_split recs i Hi'), Hrec. unfold PRE, record. now rewrite <- !app_assoc. }
  assert (Htree : List.length (e_tree e) = 20%nat).
  { pose proof rt_trees as T. rewrite Forall_forall in T. apply T. unfold e. apply nth_In. rewrite rt_ents_len. exact Hi. }
  destruct (record_read file PRE _ (e_tree e) _ _ (time_word e)
              (off_of (f_off fi) 2 + Z.of_N (N.of_nat i) * 36)%Z Hfile) as [R0 [R1 [R2 R3]]]; auto.
  { change (off_of (f_off fi) 2) with (off_of (f_off fi) (ct_of sig_CDAT)). rewrite (Hoffs _ _ O2). now rewrite HPRE. }
  (* the parents *)
  assert (Hpi : parent_indexes file fi (fst (parent_words sorted e (pos_of i))) (snd (parent_words sorted e (pos_of i)))
                = Ok (pidx_of sorted e)).
  { destruct (Nat.le_gt_cases (List.length (e_parents e)) 2) as [Hle|Hgt].
    - apply parent_indexes_small; [intros p Hp; now apply (rt_idx e)| exact Hle].
    - pose proof (rt_pos_bound i Hi) as Hpos. fold e in Hpos.
      assert (Hne : (0 < List.length (new_edges sorted e))%nat).
      { rewrite new_edges_length. unfold extra_nat. destruct (2 <? List.length (e_parents e))%nat eqn:E; lia. }
      assert (Hx : 0 <? extra_edges_count es = true) by lia.
      destruct (O5 Hx) as [O5a O5b].
      destruct Hwf as [_ [_ [_ Hxb]]].
      set (E1 := flat_map (new_edges sorted) (firstn i ents)).
      set (E2 := flat_map (new_edges sorted) (skipn (S i) ents)).
      assert (Hedges : edges = E1 ++ new_edges sorted e ++ E2).
      { unfold edges, E1, E2, e. apply flat_map_split_nth. rewrite rt_ents_len. exact Hi. }
      apply (parent_indexes_octopus sorted e (fun p Hp => rt_idx e p Hin Hp) file
               (P0 ++ fan ++ List.concat sorted ++ List.concat recs) (gens ++ trailer) fi E1 E2).
      + exact Hgt.
      + rewrite <- Hedges, rt_shape. now rewrite <- !app_assoc.
      + change (off_of (f_off fi) 5) with (off_of (f_off fi) (ct_of sig_EDGE)). rewrite (Hoffs _ _ O5a).
        rewrite !app_length, rt_fan_len, rt_oids_len, rt_recs_len, !Nat2Z.inj_add, rt_P0_len.
        change lenFanout with 256. change hashSize with 20. change szCommitData with 16. lia.
      + change (off_of (f_size fi) 5) with (off_of (f_size fi) (ct_of sig_EDGE)). rewrite (Hsizes _ _ O5b), <- Hedges, <- rt_edges_len. lia.
      + unfold pos_of in Hpos. fold E1 in Hpos. change (2 ^ 31) with 2147483648. lia. }
  (* the parent hashes *)
  assert (Hph : hashes_of (fun _ => Er EMalformed) 0 file fi (pidx_of sorted e) = Ok (e_parents e)).
  { apply rt_hashes_of. intros p Hp. now apply (rt_parent_in e). }
  (* generation v2 *)
  assert (Hg : gen2_of file fi (N.of_nat i) (N.land (time_word e) 17179869183)
               = Ok (if has_gen2 es then norm_gen2 e else 0)).
  { rewrite Tl. pose proof rt_shape as Hshape. unfold gens in Hshape. destruct (has_gen2 es) eqn:Eg.
    - assert (Hnn31 : N.of_nat nn < 2 ^ 31).
      { pose proof rt_nn_bound as B. rewrite const_parentNone in B. change (2 ^ 31) with 2147483648. lia. }
      assert (Hds_len : List.length ds = nn) by (unfold ds; now rewrite map_length, rt_ents_len).
      assert (Hnz : norm_gen2 e <> 0).
      { unfold has_gen2 in Eg. rewrite forallb_forall in Eg. specialize (Eg e Hin). lia. }
      assert (Hnlt : norm_gen2 e < two64).
      { unfold norm_gen2. destruct (e_gen2 e =? two64 - 1); [unfold two64|]; lia. }
      destruct (gen2_value e Hnz Hnlt Hwhen) as [V1 V2].
      assert (Hnth : nth i ds 0 = gen2_data e).
      { unfold ds. rewrite (nth_indep _ 0 (gen2_data dummy_entry)) by (rewrite map_length, rt_ents_len; exact Hi).
        now rewrite map_nth. }
      rewrite (gen2_of_spec file (P0 ++ fan ++ List.concat sorted ++ List.concat recs ++ flat_map be32 edges)
                 trailer fi ds [] i (Z.to_N (e_when e))).
      + rewrite Hnth. now rewrite V1.
      + now rewrite Hg2.
      + rewrite Hshape. rewrite <- !app_assoc. reflexivity.
      + reflexivity.
      + change (off_of (f_off fi) 3) with (off_of (f_off fi) (ct_of sig_GDA2)). rewrite (Hoffs _ _ (O3 eq_refl)).
        rewrite !app_length, rt_fan_len, rt_oids_len, rt_recs_len, flat_map_be32_length, !Nat2Z.inj_add, rt_P0_len.
        rewrite <- rt_edges_len.
        change lenFanout with 256. change hashSize with 20. change szCommitData with 16. lia.
      + intros Hne.
        assert (Hoc : overflow_count es = N.of_nat (List.length (filter is_ovf ds))).
        { unfold ds, ents. apply overflow_count_filter; [exact rt_wfe | exact Eg]. }
        assert (Ho : 0 <? overflow_count es = true).
        { rewrite Hoc. destruct (filter is_ovf ds); [congruence | simpl; lia]. }
        destruct (O4 eq_refl Ho) as [O4a O4b]. split.
        * change (off_of (f_off fi) 4) with (off_of (f_off fi) (ct_of sig_GDO2)). rewrite (Hoffs _ _ O4a).
          rewrite !app_length, rt_fan_len, rt_oids_len, rt_recs_len, !flat_map_be32_length, gen2_words_length, Hds_len,
            !Nat2Z.inj_add, rt_P0_len.
          rewrite <- rt_edges_len.
          change lenFanout with 256. change hashSize with 20. change szCommitData with 16. lia.
        * change (off_of (f_size fi) 4) with (off_of (f_size fi) (ct_of sig_GDO2)). rewrite (Hsizes _ _ O4b), Hoc. lia.
      + rewrite Hds_len. exact Hi.
      + rewrite Hds_len. exact Hnn31.
      + intros d Hd. unfold ds in Hd. apply in_map_iff in Hd. destruct Hd as [x [<- _]].
        unfold gen2_data. destruct (norm_gen2 x =? 0); [unfold two64; lia | apply N.mod_lt; unfold two64; lia].
    - unfold gen2_of. rewrite Hg2. reflexivity. }
  unfold get_commit_data.
  rewrite (gcd_eval _ 0 file fi (N.of_nat i) (e_tree e) (fst (parent_words sorted e (pos_of i)))
             (snd (parent_words sorted e (pos_of i))) (time_word e) (pidx_of sorted e) (e_parents e)
             (if has_gen2 es then norm_gen2 e else 0)); auto.
  - rewrite Th, Tl. reflexivity.
  - rewrite Hnc. lia.
Qed.
End WithFi.
End RoundTrip.
