(* Proofs/C03CommitSig256.v — SHA-256 repositories: the signature go-git's
   scanner accumulates in Commit.SignatureSHA256 is the signature buffer of
   git's parse_buffer_signed_by_header run with the header "gpgsig-sha256"
   (what `git verify-commit` checks in a SHA-256 repository), for every object
   whose gpgsig-prefixed header lines are signature headers and whose header
   lines are LF-terminated.  Mirror of Proofs/C03CommitSig.v. *)
From Coq Require Import List NArith ZArith Bool Lia.
From GoGit Require Import Base.Out Model.ObjLines Model.Ident Model.Commit Model.Tag Model.SigPayload
     Spec.GitSig Spec.ObjWf Spec.SigGuards Proofs.ObjLinesFacts Proofs.C03Commit Proofs.C03CommitSig.
Import ListNotations.
Local Open Scope N_scope.

Lemma key_gpgsig256_full l : line_ok l -> ends_nl l = true -> starts_with (k_gpgsig256 ++ [SPC]) l = true ->
  fst (split_header l) = k_gpgsig256 /\ snd (split_header l) ++ [LF] = skipn 14 l.
Proof.
  intros Hl He H7. destruct (line_lf_form _ Hl He) as [p [Hp ->]].
  apply starts_with_spec in H7 as [r Hr].
  assert (exists v, p = (k_gpgsig256 ++ [SPC]) ++ v) as [v ->].
  { destruct (exists_last (l := r)) as [v [x Hv]].
    - intros ->. rewrite app_nil_r in Hr. apply app_inj_tail in Hr as [_ Hx]. discriminate Hx.
    - subst r. rewrite app_assoc in Hr. apply app_inj_tail in Hr as [-> _]. now exists v. }
  rewrite (split_header_line _ Hp).
  change (cut_at SPC ((k_gpgsig256 ++ [SPC]) ++ v)) with (k_gpgsig256, v, true).
  change (skipn 14 (((k_gpgsig256 ++ [SPC]) ++ v) ++ [LF])) with (v ++ [LF]).
  cbn [fst snd]. split; reflexivity.
Qed.

(* a "gpgsig-sha256"-prefixed line is "gpgsig"-prefixed and not a "gpgsig " header *)
Lemma gpgsig256_gpgsig l : starts_with k_gpgsig256 l = true -> starts_with k_gpgsig l = true /\ starts_with (k_gpgsig ++ [SPC]) l = false.
Proof. intros H. apply starts_with_spec in H as [r ->]. split; reflexivity. Qed.

Definition is_pgp256 (st : cstate) : bool := match st with SPgp256 => true | _ => false end.

Lemma on_headers_sig256 c se l c' se' st' :
  is_blank l = false -> on_headers c se l = (c', se', st') ->
  if beqb (fst (split_header l)) k_gpgsig256
  then c_sig256 c' = c_sig256 c ++ snd (split_header l) ++ [LF] /\ st' = SPgp256
  else c_sig256 c' = c_sig256 c /\ is_pgp256 st' = false /\ st' <> SMessage.
Proof.
  intros Hb. unfold on_headers. rewrite Hb.
  destruct (split_header l) as [key data]. cbn [fst snd].
  destruct (beqb key k_gpgsig256) eqn:Eg.
  - apply beqb_eq in Eg. subst key.
    replace (beqb k_gpgsig256 k_tree || beqb k_gpgsig256 k_parent || beqb k_gpgsig256 k_author || beqb k_gpgsig256 k_committer)
      with false by reflexivity.
    replace (beqb k_gpgsig256 k_encoding) with false by reflexivity.
    replace (beqb k_gpgsig256 k_gpgsig) with false by reflexivity.
    intros H; inversion H; subst. split; reflexivity.
  - destruct (beqb key k_tree || beqb key k_parent || beqb key k_author || beqb key k_committer).
    + intros H; inversion H; subst. repeat split; try reflexivity; discriminate.
    + destruct (beqb key k_encoding).
      * intros H; inversion H; subst. destruct se; repeat split; try reflexivity; discriminate.
      * destruct (beqb key k_gpgsig).
        -- intros H; inversion H; subst. repeat split; try reflexivity; discriminate.
        -- destruct (parse_extra_header l) as [[k v] multi].
           destruct multi; intros H; inversion H; subst; repeat split; try reflexivity; discriminate.
Qed.

Lemma on_committer_sig256 c se l c' se' st' :
  is_blank l = false -> on_committer c se l = (c', se', st') ->
  if beqb (fst (split_header l)) k_gpgsig256
  then c_sig256 c' = c_sig256 c ++ snd (split_header l) ++ [LF] /\ st' = SPgp256
  else c_sig256 c' = c_sig256 c /\ is_pgp256 st' = false /\ st' <> SMessage.
Proof.
  intros Hb. unfold on_committer. rewrite Hb.
  destruct (split_header l) as [key data] eqn:Es.
  destruct (beqb key k_committer) eqn:Ek.
  - apply beqb_eq in Ek. subst key. cbn [fst snd].
    replace (beqb k_committer k_gpgsig256) with false by reflexivity.
    intros H; inversion H; subst. repeat split; try reflexivity; discriminate.
  - intros H. pose proof (on_headers_sig256 _ _ _ _ _ _ Hb H) as P. now rewrite Es in P.
Qed.

Lemma on_author_sig256 c se l c' se' st' :
  is_blank l = false -> on_author c se l = (c', se', st') ->
  if beqb (fst (split_header l)) k_gpgsig256
  then c_sig256 c' = c_sig256 c ++ snd (split_header l) ++ [LF] /\ st' = SPgp256
  else c_sig256 c' = c_sig256 c /\ is_pgp256 st' = false /\ st' <> SMessage.
Proof.
  intros Hb. unfold on_author. rewrite Hb.
  destruct (split_header l) as [key data] eqn:Es.
  destruct (beqb key k_author) eqn:Ek.
  - apply beqb_eq in Ek. subst key. cbn [fst snd].
    replace (beqb k_author k_gpgsig256) with false by reflexivity.
    intros H; inversion H; subst. repeat split; try reflexivity; discriminate.
  - intros H. pose proof (on_committer_sig256 _ _ _ _ _ _ Hb H) as P. now rewrite Es in P.
Qed.

Lemma cstep_sig256_plain st c se l c' se' st' :
  st <> SMessage -> is_blank l = false -> first_is SPC l = false ->
  cstep st c se false l = Ok (c', se', st') ->
  if beqb (fst (split_header l)) k_gpgsig256
  then c_sig256 c' = c_sig256 c ++ snd (split_header l) ++ [LF] /\ st' = SPgp256
  else c_sig256 c' = c_sig256 c /\ is_pgp256 st' = false /\ st' <> SMessage.
Proof.
  intros Hst Hb Hsp. destruct st; cbn [cstep]; try rewrite Hsp; try rewrite Hb.
  - destruct (split_header l) as [key data] eqn:Es.
    destruct (beqb key k_parent) eqn:Ek.
    + apply beqb_eq in Ek. subst key. cbn [fst snd].
      replace (beqb k_parent k_gpgsig256) with false by reflexivity.
      destruct (parse_oid data); intros H; inversion H; subst. repeat split; try reflexivity; discriminate.
    + intros H. inversion H as [H']. pose proof (on_author_sig256 _ _ _ _ _ _ Hb H') as P. now rewrite Es in P.
  - intros H. inversion H as [H']. exact (on_author_sig256 _ _ _ _ _ _ Hb H').
  - intros H. inversion H as [H']. exact (on_committer_sig256 _ _ _ _ _ _ Hb H').
  - intros H. inversion H as [H']. exact (on_headers_sig256 _ _ _ _ _ _ Hb H').
  - intros H. inversion H as [H']. exact (on_headers_sig256 _ _ _ _ _ _ Hb H').
  - intros H. inversion H as [H']. exact (on_headers_sig256 _ _ _ _ _ _ Hb H').
  - intros H. inversion H as [H']. exact (on_headers_sig256 _ _ _ _ _ _ Hb H').
  - contradiction.
Qed.

Lemma cstep_sig256_cont st c se l c' se' st' :
  st <> SMessage -> first_is SPC l = true ->
  cstep st c se false l = Ok (c', se', st') ->
  st' <> SMessage /\
  if is_pgp256 st then c_sig256 c' = c_sig256 c ++ tl l /\ st' = SPgp256
  else c_sig256 c' = c_sig256 c /\ is_pgp256 st' = false.
Proof.
  intros Hst Hsp.
  assert (Hb : is_blank l = false) by now apply sp_not_blank.
  assert (Hk : beqb (fst (split_header l)) k_gpgsig256 = false) by now rewrite (key_of_sp _ Hsp).
  destruct st; cbn [cstep is_pgp256]; try rewrite Hsp.
  - rewrite Hb. destruct (split_header l) as [key data] eqn:Es.
    assert (key = []) by (pose proof (key_of_sp _ Hsp) as P; now rewrite Es in P). subst key.
    replace (beqb [] k_parent) with false by reflexivity.
    intros H. inversion H as [H']. pose proof (on_author_sig256 _ _ _ _ _ _ Hb H') as P.
    rewrite Es in P. cbn [fst snd] in P. replace (beqb [] k_gpgsig256) with false in P by reflexivity. tauto.
  - intros H. inversion H as [H']. pose proof (on_author_sig256 _ _ _ _ _ _ Hb H') as P. rewrite Hk in P. tauto.
  - intros H. inversion H as [H']. pose proof (on_committer_sig256 _ _ _ _ _ _ Hb H') as P. rewrite Hk in P. tauto.
  - intros H. inversion H as [H']. pose proof (on_headers_sig256 _ _ _ _ _ _ Hb H') as P. rewrite Hk in P. tauto.
  - intros H. inversion H; subst. repeat split; try reflexivity; discriminate.
  - intros H. inversion H; subst. repeat split; try reflexivity; discriminate.
  - intros H. inversion H; subst. repeat split; try reflexivity; discriminate.
  - contradiction.
Qed.

Lemma cstep_sig256_blank st c se l c' se' st' :
  st <> SMessage -> is_blank l = true ->
  cstep st c se false l = Ok (c', se', st') -> st' = SMessage /\ c_sig256 c' = c_sig256 c.
Proof.
  intros Hst Hb.
  assert (Hsp : first_is SPC l = false).
  { destruct l as [|x [|y l]]; try discriminate. cbn in Hb. apply N.eqb_eq in Hb. now subst. }
  destruct st; cbn [cstep]; try rewrite Hsp; try rewrite Hb;
    unfold on_author, on_committer, on_headers; try rewrite Hb;
    try (intros H; inversion H; subst; split; reflexivity).
Qed.

Lemma crun_message_sig256 ls c0 se c : crun SMessage c0 se ls = Ok c -> c_sig256 c = c_sig256 c0.
Proof.
  revert c0 se; induction ls as [|l r IH]; intros c0 se; cbn [crun cfinish].
  - intros H; now inversion H.
  - cbn [cstep]. destruct (negb (ends_nl l)).
    + intros H; now inversion H.
    + intros H. now rewrite (IH _ _ H).
Qed.

Lemma crun_sig256 : forall ls st c0 se c,
  st <> SMessage -> Forall line_ok ls -> foreign_gpgsig_free ls = true ->
  forallb ends_nl (header_of ls) = true ->
  crun st c0 se ls = Ok c ->
  c_sig256 c = c_sig256 c0 ++ pbsh_sig k_gpgsig256 (is_pgp256 st) ls.
Proof.
  induction ls as [|l r IH]; intros st c0 se c Hst Hok Hg He.
  - cbn [crun pbsh_sig]. intros H. inversion H; subst. rewrite app_nil_r. destruct st; reflexivity.
  - inversion Hok as [|? ? Hl Hr]; subst. cbn [crun pbsh_sig].
    destruct (first_is LF l) eqn:Elf.
    + assert (Hb : is_blank l = true) by now rewrite <- (first_is_lf_blank _ Hl).
      assert (Een : ends_nl l = true) by (destruct l as [|x [|y l]]; try discriminate; exact Hb).
      rewrite Een. cbn [negb].
      destruct (cstep st c0 se false l) as [[[c1 se1] st1]|e] eqn:Es; [|discriminate].
      destruct (cstep_sig256_blank _ _ _ _ _ _ _ Hst Hb Es) as [-> Hc1].
      intros H. rewrite (crun_message_sig256 _ _ _ _ H), Hc1.
      assert (Hsp : first_is SPC l = false) by (destruct l as [|x l']; [reflexivity|]; cbn in *; apply N.eqb_eq in Elf; now subst).
      rewrite Hsp, andb_false_r, (lf_not_h k_gpgsig256 _ (or_intror eq_refl) Elf). now rewrite app_nil_r.
    + cbn [header_of] in He. rewrite Elf in He. cbn [forallb] in He. apply andb_true_iff in He as [Een Her].
      destruct (guard_tail _ _ Elf Hg) as [Hgl Hgr].
      assert (Hb : is_blank l = false) by now rewrite <- (first_is_lf_blank _ Hl).
      rewrite Een. cbn [negb].
      destruct (cstep st c0 se false l) as [[[c1 se1] st1]|e] eqn:Es; [|discriminate].
      intros H.
      destruct (first_is SPC l) eqn:Esp.
      * destruct (cstep_sig256_cont _ _ _ _ _ _ _ Hst Esp Es) as [Hst1 P].
        rewrite (IH _ _ _ _ Hst1 Hr Hgr Her H).
        rewrite andb_true_r, (sp_not_h k_gpgsig256 _ (or_intror eq_refl) Esp).
        destruct (is_pgp256 st).
        -- destruct P as [-> ->]. cbn [is_pgp256]. now rewrite app_assoc.
        -- destruct P as [-> P1]. now rewrite P1.
      * pose proof (cstep_sig256_plain _ _ _ _ _ _ _ Hst Hb Esp Es) as P.
        rewrite andb_false_r.
        destruct (starts_with (k_gpgsig256 ++ [SPC]) l) eqn:E7.
        -- destruct (key_gpgsig256_full _ Hl Een E7) as [Hk Hd]. rewrite Hk in P.
           replace (beqb k_gpgsig256 k_gpgsig256) with true in P by reflexivity. destruct P as [P1 ->].
           rewrite Hd in P1.
           assert (Hne : SPgp256 <> SMessage) by discriminate.
           rewrite (IH _ _ _ _ Hne Hr Hgr Her H), P1. cbn [is_pgp256].
           replace (List.length k_gpgsig256 + 1)%nat with 14%nat by reflexivity.
           now rewrite <- app_assoc.
        -- assert (Hkey : beqb (fst (split_header l)) k_gpgsig256 = false).
           { apply beqb_neq. intros Hk. pose proof (key_prefix _ _ Hl Een Hk) as Hpre.
             destruct (gpgsig256_gpgsig _ Hpre) as [G1 G2].
             rewrite G1 in Hgl. cbn [negb orb] in Hgl.
             unfold is_sig_header in Hgl. rewrite G2, E7 in Hgl. discriminate Hgl. }
           rewrite Hkey in P. destruct P as [P1 [P2 P3]].
           now rewrite (IH _ _ _ _ P3 Hr Hgr Her H), P1, P2.
Qed.

Theorem sig256_eq_pbsh : forall raw c,
  decode_commit raw = Ok c -> commit_sig_guard raw = true -> hdr_terminated raw = true ->
  c_sig256 c = snd (fst (git_commit_payload_fmt SHA256 raw)).
Proof.
  intros raw c Hd Hg He. unfold decode_commit, commit_sig_guard, hdr_terminated, git_commit_payload_fmt in *.
  cbn [sig_header_of]. rewrite pbsh_sig_eq.
  pose proof (split_lines_ok raw) as Hok.
  destruct (split_lines raw) as [|l r]; [discriminate|].
  inversion Hok as [|? ? Hl Hr]; subst.
  cbn [decode_commit_lines] in Hd.
  destruct (is_blank l) eqn:Hb; [discriminate|].
  destruct (split_header l) as [key data] eqn:Es.
  destruct (beqb key k_tree) eqn:Ek; [|discriminate]. cbn [negb] in Hd.
  destruct (parse_oid data) as [h|]; [|discriminate].
  assert (Elf : first_is LF l = false) by now rewrite (first_is_lf_blank _ Hl).
  cbn [header_of] in He. rewrite Elf in He. cbn [forallb] in He. apply andb_true_iff in He as [Een Her].
  destruct (guard_tail _ _ Elf Hg) as [_ Hgr].
  rewrite Een in Hd.
  apply beqb_eq in Ek. subst key.
  assert (Hpre : starts_with k_tree l = true) by (apply (key_prefix _ _ Hl Een); now rewrite Es).
  apply starts_with_spec in Hpre as [x ->].
  assert (Hne : SParents <> SMessage) by discriminate.
  rewrite (crun_sig256 _ _ _ _ _ Hne Hr Hgr Her Hd).
  reflexivity.
Qed.
