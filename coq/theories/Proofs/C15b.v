(* Proofs/C15b.v — the two containers of the reference store: the list of
   loose files and the lines of packed-refs (lookup / update algebra, first
   occurrence semantics, removal, re-rendering). *)
From Coq Require Import List Arith NArith ZArith Bool String Lia ZifyBool ZifyNat ZifyN.
From GoGit Require Import Base.Out Model.RefStrings Model.RefName Model.RefGuard Model.RefStore Gen.C14
  Proofs.C13 Proofs.C15a.
Import ListNotations.
Local Open Scope N_scope.

Lemma beqb_refl a : beqb a a = true.
Proof. now apply beqb_eq. Qed.
Lemma beqb_sym a b : beqb a b = beqb b a.
Proof.
  destruct (beqb a b) eqn:E.
  - apply beqb_eq in E. subst. symmetry. apply beqb_refl.
  - destruct (beqb b a) eqn:E'; [|reflexivity]. apply beqb_eq in E'. subst. rewrite beqb_refl in E. discriminate.
Qed.

(* ---------------------------------------------------------------- files *)
Fixpoint nodup_keys (l : list (bytes * bytes)) : bool :=
  match l with
  | [] => true
  | (p, _) :: r => negb (existsb (fun e => beqb p (fst e)) r) && nodup_keys r
  end.

Lemma lookup_set_same p c l : lookup p (set_file p c l) = Some c.
Proof.
  induction l as [|[q d] l IH]; cbn; [now rewrite beqb_refl|].
  destruct (beqb p q) eqn:E; cbn; [now rewrite beqb_refl|now rewrite E].
Qed.

Lemma lookup_set_other p q c l : beqb q p = false -> lookup q (set_file p c l) = lookup q l.
Proof.
  intros H. induction l as [|[r d] l IH]; cbn; [now rewrite H|].
  destruct (beqb p r) eqn:E; cbn.
  - apply beqb_eq in E. subst r. now rewrite H.
  - destruct (beqb q r); [reflexivity|exact IH].
Qed.

Lemma lookup_filter (f : bytes -> bool) q l :
  lookup q (filter (fun e => f (fst e)) l) = if f q then lookup q l else None.
Proof.
  induction l as [|[r d] l IH]; cbn; [now destruct (f q)|].
  destruct (f r) eqn:Ef; cbn.
  - destruct (beqb q r) eqn:E; [apply beqb_eq in E; subst; now rewrite Ef|exact IH].
  - destruct (beqb q r) eqn:E; [apply beqb_eq in E; subst; rewrite Ef in *; exact IH|exact IH].
Qed.

Lemma lookup_del_same p l : lookup p (del_file p l) = None.
Proof. unfold del_file. rewrite (lookup_filter (fun x => negb (beqb p x))). now rewrite beqb_refl. Qed.

Lemma lookup_del_other p q l : beqb q p = false -> lookup q (del_file p l) = lookup q l.
Proof.
  intros H. unfold del_file. rewrite (lookup_filter (fun x => negb (beqb p x))).
  now rewrite beqb_sym, H.
Qed.

Lemma keys_set p c l q :
  existsb (fun e => beqb q (fst e)) (set_file p c l) = beqb q p || existsb (fun e => beqb q (fst e)) l.
Proof.
  induction l as [|[r d] l IH]; cbn; [now rewrite orb_false_r|].
  destruct (beqb p r) eqn:E; cbn.
  - apply beqb_eq in E. subst r. now destruct (beqb q p).
  - rewrite IH. destruct (beqb q p), (beqb q r); reflexivity.
Qed.

Lemma nodup_set p c l : nodup_keys l = true -> nodup_keys (set_file p c l) = true.
Proof.
  induction l as [|[r d] l IH]; intros H; [reflexivity|].
  cbn in H. apply andb_true_iff in H as [Hr H]. cbn [set_file].
  destruct (beqb p r) eqn:E.
  - apply beqb_eq in E. subst r. cbn. now rewrite Hr, H.
  - cbn. rewrite keys_set, (beqb_sym r p), E. cbn [orb]. now rewrite Hr, IH.
Qed.

Lemma existsb_filter {A} (g f : A -> bool) l : existsb g l = false -> existsb g (filter f l) = false.
Proof.
  induction l as [|x l IH]; intros H; [reflexivity|]. cbn in *.
  apply orb_false_iff in H as [Hx H]. destruct (f x); cbn; [rewrite Hx|]; auto.
Qed.

Lemma nodup_filter f l : nodup_keys l = true -> nodup_keys (filter f l) = true.
Proof.
  induction l as [|[r d] l IH]; intros H; [reflexivity|].
  cbn in H. apply andb_true_iff in H as [Hr H]. apply negb_true_iff in Hr. cbn [filter].
  destruct (f (r, d)); [|auto]. cbn. rewrite existsb_filter by assumption. cbn. auto.
Qed.

Lemma lookup_in p c l : In (p, c) l -> nodup_keys l = true -> lookup p l = Some c.
Proof.
  induction l as [|[r d] l IH]; intros Hin Hn; [contradiction|].
  cbn in Hn. apply andb_true_iff in Hn as [Hr Hn]. apply negb_true_iff in Hr.
  destruct Hin as [Hin|Hin].
  - injection Hin as -> ->. cbn. now rewrite beqb_refl.
  - cbn. destruct (beqb p r) eqn:E; [|auto].
    apply beqb_eq in E. subst r.
    assert (existsb (fun e => beqb p (fst e)) l = true); [|congruence].
    apply existsb_exists. exists (p, c). split; [assumption|apply beqb_refl].
Qed.

Lemma in_lookup p c l : lookup p l = Some c -> In (p, c) l.
Proof.
  induction l as [|[r d] l IH]; [discriminate|]. cbn. destruct (beqb p r) eqn:E.
  - apply beqb_eq in E. subst r. intros H. injection H as ->. now left.
  - intros H. right. auto.
Qed.

(* ---------------------------------------------------------------- packed lines *)
Definition parses (l : bytes) : bool := match process_line l with None => false | Some _ => true end.
Definition all_parse (lines : list bytes) : bool := forallb parses lines.

Lemma find_packed_total name lines : all_parse lines = true -> exists r, find_packed name lines = Ok r.
Proof.
  induction lines as [|l r IH]; intros H; [now exists None|].
  cbn in H. apply andb_true_iff in H as [Hl H]. unfold parses in Hl. cbn [find_packed].
  destruct (process_line l) as [[[n v]|]|]; [|auto|discriminate].
  destruct (beqb n name); [now exists (Some v)|auto].
Qed.

(* the packed entries a listing adds: first occurrence of each name not seen yet *)
Fixpoint first_occ (lines : list bytes) (seen : list bytes) : list (bytes * refval) :=
  match lines with
  | [] => []
  | l :: r =>
    match process_line l with
    | Some (Some (n, v)) =>
      if existsb (beqb n) seen then first_occ r seen else (n, v) :: first_occ r (n :: seen)
    | _ => first_occ r seen
    end
  end.

Lemma packed_all_first lines : forall seen acc,
  all_parse lines = true -> packed_all lines seen acc = Ok (rev acc ++ first_occ lines seen).
Proof.
  induction lines as [|l r IH]; intros seen acc H.
  - cbn. now rewrite app_nil_r.
  - cbn in H. apply andb_true_iff in H as [Hl H]. unfold parses in Hl. cbn [packed_all first_occ].
    destruct (process_line l) as [[[n v]|]|]; [|auto|discriminate].
    destruct (existsb (beqb n) seen); [auto|]. rewrite IH by assumption. cbn [rev]. now rewrite <- app_assoc.
Qed.

Lemma first_occ_unseen lines : forall seen n v,
  In (n, v) (first_occ lines seen) -> existsb (beqb n) seen = false.
Proof.
  induction lines as [|l r IH]; intros seen n v H; [contradiction|]. cbn [first_occ] in H.
  destruct (process_line l) as [[[m w]|]|]; eauto.
  destruct (existsb (beqb m) seen) eqn:E; [eauto|].
  destruct H as [H|H]; [injection H as -> ->; assumption|].
  apply IH in H. cbn in H. now apply orb_false_iff in H as [_ H].
Qed.

Lemma first_occ_in lines : forall seen n v,
  all_parse lines = true ->
  (In (n, v) (first_occ lines seen) <->
   existsb (beqb n) seen = false /\ find_packed n lines = Ok (Some v)).
Proof.
  induction lines as [|l r IH]; intros seen n v H.
  - cbn. split; [contradiction|intros [_ E]; discriminate].
  - cbn in H. apply andb_true_iff in H as [Hl H]. unfold parses in Hl. cbn [first_occ find_packed].
    destruct (process_line l) as [[[m w]|]|]; [|now apply IH|discriminate].
    destruct (beqb m n) eqn:Emn.
    + apply beqb_eq in Emn. subst m. destruct (existsb (beqb n) seen) eqn:Es.
      * split; [intros Hin; apply first_occ_unseen in Hin; congruence|intros [E _]; discriminate].
      * split.
        -- intros [Hin|Hin]; [injection Hin as ->; auto|].
           apply first_occ_unseen in Hin. cbn in Hin. rewrite beqb_refl in Hin. discriminate.
        -- intros [_ E]. injection E as ->. now left.
    + destruct (existsb (beqb m) seen) eqn:Es; [now apply IH|].
      split.
      * intros [Hin|Hin]; [injection Hin as -> ->; rewrite beqb_refl in Emn; discriminate|].
        apply IH in Hin; [|assumption]. destruct Hin as [Hs Hf]. cbn in Hs.
        apply orb_false_iff in Hs as [_ Hs]. auto.
      * intros [Hs Hf]. right. apply IH; [assumption|]. split; [|assumption].
        cbn. now rewrite beqb_sym, Emn, Hs.
Qed.

Lemma first_occ_nodup lines : forall seen, NoDup (map fst (first_occ lines seen)).
Proof.
  induction lines as [|l r IH]; intros seen; [constructor|]. cbn [first_occ].
  destruct (process_line l) as [[[m w]|]|]; auto.
  destruct (existsb (beqb m) seen); [auto|]. cbn [map fst]. constructor; [|auto].
  intros Hin. apply in_map_iff in Hin as [[m' w'] [Em Hin]]. cbn in Em. subst m'.
  apply first_occ_unseen in Hin. cbn in Hin. rewrite beqb_refl in Hin. discriminate.
Qed.

(* rewritePackedRefsWithoutRef *)
Lemma drop_lines_spec name lines : all_parse lines = true -> forall rp,
  exists kept found,
    drop_lines name lines rp = Ok (kept, found) /\
    all_parse kept = true /\
    incl kept lines /\
    (forall x, find_packed x kept = if beqb x name then Ok None else find_packed x lines) /\
    (found = false -> kept = lines \/ find_packed name lines = Ok None).
Proof.
  induction lines as [|l r IH]; intros H rp.
  - exists [], false. cbn. repeat split; auto; [apply incl_refl|intros x; now destruct (beqb x name)].
  - cbn in H. apply andb_true_iff in H as [Hl H]. pose proof Hl as Hl'. unfold parses in Hl.
    cbn [drop_lines find_packed].
    destruct (process_line l) as [pl|] eqn:EP; [|discriminate].
    destruct (match pl with Some (n, _) => beqb n name | None => false end) eqn:EN.
    + destruct pl as [[n v]|]; [|discriminate]. apply beqb_eq in EN. subst n.
      destruct (IH H true) as [kept [found [E [Hp [Hi [Hf _]]]]]]. rewrite E.
      exists kept, true. repeat split; auto.
      * now apply incl_tl.
      * intros x. rewrite Hf. rewrite (beqb_sym name x). now destruct (beqb x name).
      * discriminate.
    + destruct (rp && has_prefix [94] l) eqn:ER.
      * destruct (IH H true) as [kept [found [E [Hp [Hi [Hf Hn]]]]]]. rewrite E.
        apply andb_true_iff in ER as [_ ER].
        assert (EPN : pl = None).
        { destruct l as [|c l']; [cbn in ER; discriminate|]. cbn [has_prefix] in ER. rewrite andb_true_r in ER.
          apply N.eqb_eq in ER. subst c. unfold process_line in EP.
          change ((94 =? 35) || (94 =? 94)) with true in EP. now injection EP as <-. }
        subst pl. exists kept, found. repeat split; auto; [now apply incl_tl|].
        intros Hfd. right. destruct (Hn Hfd) as [->|Hn']; [|assumption].
        (* nothing was named [name] in r *)
        specialize (Hf name). rewrite beqb_refl in Hf. now rewrite <- Hf.
      * destruct (IH H false) as [kept [found [E [Hp [Hi [Hf Hn]]]]]]. rewrite E.
        exists (l :: kept), found. repeat split.
        -- unfold all_parse in *. cbn [forallb]. now rewrite Hl', Hp.
        -- intros y [<-|Hy]; [now left|right; auto].
        -- intros x. cbn [find_packed]. rewrite EP. destruct pl as [[n v]|].
           ++ destruct (beqb n x) eqn:Enx.
              ** apply beqb_eq in Enx. subst x. now rewrite EN.
              ** apply Hf.
           ++ apply Hf.
        -- intros Hfd. destruct (Hn Hfd) as [->|Hn']; [now left|]. right.
           destruct pl as [[n v]|]; [rewrite EN|]; assumption.
Qed.

(* ---- looking a name up in freshly rendered lines ---- *)
Fixpoint assoc_h (x : bytes) (L : list (bytes * refval)) : option refval :=
  match L with
  | [] => None
  | (n, v) :: r => if is_hash_ref (n, v) && beqb n x then Some v else assoc_h x r
  end.

Definition renderable (e : bytes * refval) : bool :=
  match snd e with
  | VHash h f => hash_okb h f && negb (mem 32 (fst e))
  | VSym _ => true
  end.

Lemma find_render x L : forallb renderable L = true ->
  find_packed x (flat_map packed_line L) = Ok (assoc_h x L).
Proof.
  induction L as [|[n v] L IH]; intros H; [reflexivity|].
  cbn [forallb] in H. apply andb_true_iff in H as [He H].
  cbn [flat_map assoc_h]. unfold renderable in He. unfold packed_line at 1. cbn [fst snd] in *.
  destruct v as [h f|t].
  - apply andb_true_iff in He as [Hh Hn]. apply negb_true_iff in Hn.
    change ([hash_string h f ++ [32] ++ n] ++ flat_map packed_line L)
      with ((hash_string h f ++ [32] ++ n) :: flat_map packed_line L).
    cbn [find_packed is_hash_ref snd andb]. rewrite process_line_render by assumption.
    destruct (beqb n x); [reflexivity|auto].
  - cbn [app is_hash_ref snd andb]. auto.
Qed.

Lemma all_parse_render L : forallb renderable L = true -> all_parse (flat_map packed_line L) = true.
Proof.
  induction L as [|[n v] L IH]; intros H; [reflexivity|].
  cbn [forallb] in H. apply andb_true_iff in H as [He H]. cbn [flat_map].
  unfold all_parse. rewrite forallb_app. fold (all_parse (flat_map packed_line L)). rewrite IH by assumption.
  unfold renderable in He. unfold packed_line. cbn [fst snd] in *. destruct v as [h f|t]; [|reflexivity].
  apply andb_true_iff in He as [Hh Hn]. apply negb_true_iff in Hn.
  cbn [forallb]. unfold parses. now rewrite process_line_render.
Qed.

Lemma assoc_h_app x L1 L2 :
  assoc_h x (L1 ++ L2) = match assoc_h x L1 with Some v => Some v | None => assoc_h x L2 end.
Proof.
  induction L1 as [|[n v] L1 IH]; [reflexivity|]. cbn [app assoc_h].
  destruct (is_hash_ref (n, v) && beqb n x); [reflexivity|exact IH].
Qed.
