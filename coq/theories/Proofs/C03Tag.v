(* Proofs/C03Tag.v — tags: on buf[:match], go-git's stripHeaderSignatures
   equals git's two-slot remove_signature whenever the gpgsig regions are at
   most two, not adjacent, and no other gpgsig-prefixed header occurs
   (Spec/SigGuards.tag_regions_ok). *)
From Coq Require Import List NArith ZArith Bool Lia ZifyBool ZifyNat.
From GoGit Require Import Base.Out Model.ObjLines Model.Ident Model.Commit Model.Tag Model.SigPayload
     Spec.GitSig Spec.ObjWf Spec.SigGuards Proofs.ObjLinesFacts Proofs.C03Commit.
Import ListNotations.

Definition mark (s0 s1 : slot) (j : nat) : bool := in_slot s0 j || in_slot s1 j.
Definition ends_le (s : slot) (i : nat) : Prop := match s with Some (_, b) => b <= i | None => True end.

Lemma in_slot_past s i j : ends_le s i -> i <= j -> in_slot s j = false.
Proof. destruct s as [[a b]|]; unfold in_slot, ends_le; [|reflexivity]. intros. lia. Qed.

Lemma drop_none ls : forall i s0 s1, ends_le s0 i -> ends_le s1 i -> drop_slots i s0 s1 ls = List.concat ls.
Proof.
  induction ls as [|l r IH]; intros i s0 s1 H0 H1; [reflexivity|]. cbn [drop_slots List.concat].
  rewrite (in_slot_past _ _ _ H0 (le_n i)), (in_slot_past _ _ _ H1 (le_n i)). cbn [orb].
  rewrite IH; [reflexivity| |]; [destruct s0 as [[a b]|]|destruct s1 as [[a b]|]]; unfold ends_le in *; lia.
Qed.

(* the scanner state before line i *)
Definition inv (i : nat) (in_sig : bool) (k : nat) (s0 s1 : slot) : Prop :=
  match k, in_sig with
  | 0, false => s0 = None /\ s1 = None
  | 0, true => (exists a, a < i /\ s0 = Some (a, i)) /\ s1 = None
  | 1, false => (exists a b, s0 = Some (a, b) /\ b <= i) /\ s1 = None
  | 1, true => (exists a b, s0 = Some (a, b) /\ b <= i) /\ (exists a, a < i /\ s1 = Some (a, i))
  | 2, false => (exists a b, s0 = Some (a, b) /\ b <= i) /\ (exists a b, s1 = Some (a, b) /\ b <= i)
  | _, _ => False
  end.

Lemma inv_ends i in_sig k s0 s1 : inv i in_sig k s0 s1 -> ends_le s0 i /\ ends_le s1 i.
Proof.
  unfold inv. destruct k as [|[|[|k]]], in_sig; try contradiction; intros H;
    repeat match goal with
           | H : _ /\ _ |- _ => destruct H
           | H : exists _, _ |- _ => destruct H
           end; subst; unfold ends_le; split; lia || exact I.
Qed.

Definition b2n (b : bool) : nat := if b then 1 else 0.

Lemma rs_strip : forall ls i in_sig k s0 s1 nreg,
  Forall line_ok ls -> tag_regions_ok in_sig nreg ls = true -> nreg = k + b2n in_sig -> inv i in_sig k s0 s1 ->
  exists s0' s1', rs_scan i in_sig k s0 s1 ls = Some (s0', s1') /\
                  (forall j, j < i -> mark s0' s1' j = mark s0 s1 j) /\
                  drop_slots i s0' s1' ls = strip_lines in_sig ls.
Proof.
  induction ls as [|l r IH]; intros i in_sig k s0 s1 nreg Hok Hg Hn Hinv.
  - exists s0, s1. repeat split.
  - inversion Hok as [|x0 y0 Hl Hr]. subst x0 y0. cbn [rs_scan tag_regions_ok strip_lines drop_slots] in *.
    destruct (inv_ends _ _ _ _ _ Hinv) as [E0 E1].
    destruct (first_is LF l) eqn:Elf.
    + (* the blank line: git stops scanning, go-git copies the rest *)
      assert (Hsp : first_is SPC l = false)
        by (destruct l as [|x l']; [reflexivity|]; cbn in *; apply N.eqb_eq in Elf; now subst).
      rewrite Hsp, andb_false_r, (lf_not_gpgsig _ Elf), (lf_not_sighdr _ Elf).
      rewrite <- (first_is_lf_blank _ Hl), Elf.
      exists s0, s1. repeat split.
      change ((if in_slot s0 i || in_slot s1 i then [] else l) ++ drop_slots (S i) s0 s1 r) with (drop_slots i s0 s1 (l :: r)).
      now rewrite (drop_none _ _ _ _ E0 E1).
    + rewrite <- (first_is_lf_blank _ Hl), Elf.
      destruct (in_sig && first_is SPC l) eqn:Ec.
      * (* continuation line of the open region *)
        apply andb_true_iff in Ec as [-> Esp]. cbn [andb] in *.
        unfold inv in Hinv. destruct k as [|[|k]]; try (destruct k; contradiction).
        -- destruct Hinv as [[a [Ha ->]] ->].
           destruct (IH (S i) true 0 (Some (a, S i)) None nreg Hr Hg Hn) as [s0' [s1' [R [P D]]]].
           { cbn. split; [exists a; split; [lia|reflexivity]|reflexivity]. }
           exists s0', s1'. split; [exact R|]. split.
           ++ intros j Hj. rewrite (P j ltac:(lia)). unfold mark, in_slot. lia.
           ++ rewrite D. fold (mark s0' s1' i). rewrite (P i ltac:(lia)). unfold mark, in_slot.
              replace ((a <=? i) && (i <? S i) || false) with true by lia. reflexivity.
        -- destruct Hinv as [[a0 [b0 [-> Hb0]]] [a [Ha ->]]].
           destruct (IH (S i) true 1 (Some (a0, b0)) (Some (a, S i)) nreg Hr Hg Hn) as [s0' [s1' [R [P D]]]].
           { cbn. split; [exists a0, b0; split; [reflexivity|lia]|exists a; split; [lia|reflexivity]]. }
           exists s0', s1'. split; [exact R|]. split.
           ++ intros j Hj. rewrite (P j ltac:(lia)). unfold mark, in_slot. lia.
           ++ rewrite D. fold (mark s0' s1' i). rewrite (P i ltac:(lia)). unfold mark, in_slot.
              replace ((a0 <=? i) && (i <? b0) || (a <=? i) && (i <? S i)) with true by lia. reflexivity.
      * destruct (is_sig_header l) eqn:Eh.
        -- (* a signature header opens a region: by the guard no region is open and fewer than two were seen *)
           apply andb_true_iff in Hg as [Hg Hg3]. apply andb_true_iff in Hg as [Hg1 Hg2].
           apply negb_true_iff in Hg1. subst in_sig. cbn [b2n] in Hn. rewrite Nat.add_0_r in Hn. subst nreg.
           rewrite (sighdr_gpgsig _ Eh). change (is_git_sig_header l) with (is_sig_header l). rewrite Eh.
           unfold inv in Hinv. destruct k as [|[|k]]; [| |apply Nat.ltb_lt in Hg2; lia].
           ++ destruct Hinv as [-> ->].
              destruct (IH (S i) true 0 (Some (i, S i)) None 1 Hr Hg3 eq_refl) as [s0' [s1' [R [P D]]]].
              { cbn. split; [exists i; split; [lia|reflexivity]|reflexivity]. }
              exists s0', s1'. split; [exact R|]. split.
              ** intros j Hj. rewrite (P j ltac:(lia)). unfold mark, in_slot. lia.
              ** rewrite D. fold (mark s0' s1' i). rewrite (P i ltac:(lia)). unfold mark, in_slot.
                 replace ((i <=? i) && (i <? S i) || false) with true by lia. reflexivity.
           ++ destruct Hinv as [[a0 [b0 [-> Hb0]]] ->].
              destruct (IH (S i) true 1 (Some (a0, b0)) (Some (i, S i)) 2 Hr Hg3 eq_refl) as [s0' [s1' [R [P D]]]].
              { cbn. split; [exists a0, b0; split; [reflexivity|lia]|exists i; split; [lia|reflexivity]]. }
              exists s0', s1'. split; [exact R|]. split.
              ** intros j Hj. rewrite (P j ltac:(lia)). unfold mark, in_slot. lia.
              ** rewrite D. fold (mark s0' s1' i). rewrite (P i ltac:(lia)). unfold mark, in_slot.
                 replace ((a0 <=? i) && (i <? b0) || (i <=? i) && (i <? S i)) with true by lia. reflexivity.
        -- (* any other header line: kept by both; it closes an open region *)
           apply andb_true_iff in Hg as [Hg1 Hg2]. apply negb_true_iff in Hg1. rewrite Hg1.
           set (k' := if in_sig && negb (Nat.eqb k 2) then S k else k).
           assert (Hinv' : inv (S i) false k' s0 s1 /\ nreg = k' + 0).
           { unfold k'. unfold inv in *. destruct k as [|[|[|k]]], in_sig; try contradiction; cbn [andb negb Nat.eqb b2n] in *;
               repeat match goal with
                      | H : _ /\ _ |- _ => destruct H
                      | H : exists _, _ |- _ => destruct H
                      end; subst; (split; [|lia]); repeat split; eauto 6 with arith. }
           destruct Hinv' as [Hinv' Hn'].
           destruct (IH (S i) false k' s0 s1 nreg Hr Hg2 Hn' Hinv') as [s0' [s1' [R [P D]]]].
           exists s0', s1'. split; [exact R|]. split.
           ++ intros j Hj. now rewrite (P j ltac:(lia)).
           ++ rewrite D. fold (mark s0' s1' i). rewrite (P i ltac:(lia)). unfold mark.
              rewrite (in_slot_past _ _ _ E0 (le_n i)), (in_slot_past _ _ _ E1 (le_n i)). reflexivity.
Qed.

Theorem strip_eq_remove_signature : forall buf,
  tag_regions_ok false 0 (split_lines buf) = true ->
  git_remove_signature buf = Some (strip_header_sigs buf).
Proof.
  intros buf Hg. unfold git_remove_signature, strip_header_sigs.
  destruct (rs_strip (split_lines buf) 0 false 0 None None 0 (split_lines_ok buf) Hg eq_refl (conj eq_refl eq_refl))
    as [s0' [s1' [R [_ D]]]].
  now rewrite R, D.
Qed.

(* what go-git hands to a verifier for a tag is git's payload *)
Theorem tag_payload_eq : forall raw m,
  parse_signed_bytes raw = Some m -> tag_sig_guard raw = true ->
  exists s, git_tag_payload raw = Some (Some (strip_tag raw, s)).
Proof.
  intros raw m Hm Hg. unfold tag_sig_guard in Hg. rewrite Hm in Hg.
  unfold git_tag_payload, strip_tag. rewrite Hm, (strip_eq_remove_signature _ Hg). eexists. reflexivity.
Qed.
