(* Proofs/C35Upd.v — UpdateRequests: decode (encode m) = m. *)
From Coq Require Import List NArith ZArith Bool Lia Arith String.
From GoGit Require Import Base.Out Model.PktLine Model.Packp Proofs.C34Pkt Proofs.C35Base Proofs.C35Msgs Proofs.C35Caps Proofs.C35Adv.
Import ListNotations.

Definition cmd_name_ok (n : bytes) : bool := match n with [] => false | _ => forallb tokc n end.
Definition cmd_ok (c : bytes * hash * hash) : bool :=
  let '(n, o, nw) := c in cmd_name_ok n && hash_ok o && hash_ok nw && negb (cmd_invalid c).
Definition ur_ok (u : updreq) : bool :=
  caps_ok (ur_caps u) && forallb cmd_ok (ur_cmds u) && forallb hash_ok (ur_shallows u) &&
  negb (Nat.eqb (List.length (ur_cmds u)) 0).

Lemma tokc_graphic c : tokc c = true -> graphic_ascii c = true.
Proof.
  unfold tokc, graphic_ascii. intros H. apply andb_prop in H. destruct H as [H1 H2].
  apply N.leb_le in H1, H2. apply andb_true_intro. split; apply N.leb_le; lia.
Qed.

Lemma hexchar_graphic_all hx : forallb hexchar hx = true -> (exists b, hx = to_hex b /\ forallb byte_ok b = true) ->
  forallb graphic_ascii hx = true.
Proof.
  intros _ (b & -> & Hb). induction b as [|c b IH]; [reflexivity|].
  cbn in Hb. apply andb_prop in Hb. destruct Hb as [Hc Hb]. apply N.ltb_lt in Hc.
  destruct (nib_hi c Hc) as (Ha & Hb' & _). cbn [to_hex forallb]. rewrite (IH Hb), andb_true_r.
  assert (forall n, (n < 16)%N -> graphic_ascii (hexdig n) = true) as K.
  { intros n Hn.
    assert (n = 0 \/ n = 1 \/ n = 2 \/ n = 3 \/ n = 4 \/ n = 5 \/ n = 6 \/ n = 7 \/ n = 8 \/ n = 9 \/
            n = 10 \/ n = 11 \/ n = 12 \/ n = 13 \/ n = 14 \/ n = 15)%N as C by lia.
    repeat (destruct C as [-> | C]; [reflexivity|]). subst. reflexivity. }
  now rewrite (K _ Ha), (K _ Hb').
Qed.

Lemma hash_str_graphic h : hash_ok h = true -> forallb graphic_ascii (hash_str h) = true.
Proof.
  intros H. apply hexchar_graphic_all; [now apply hash_str_chars|].
  exists (hash_bytes h). split; [reflexivity|]. now destruct (hash_bytes_ok h H).
Qed.

Lemma name_props n : cmd_name_ok n = true ->
  n <> [] /\ no_byte SP n = true /\ no_byte NUL n = true /\ forallb graphic_ascii n = true.
Proof.
  unfold cmd_name_ok. destruct n as [|c n]; [discriminate|]. intros H. split; [discriminate|].
  unfold no_byte. repeat split; rewrite forallb_forall in *; intros x Hx; specialize (H x Hx).
  - destruct (tokc_facts _ H) as [_ ->]. reflexivity.
  - unfold tokc in H. apply andb_prop in H. destruct H as [H _]. apply N.leb_le in H. unfold NUL.
    destruct (N.eqb_spec x 0); [lia|reflexivity].
  - now apply tokc_graphic.
Qed.

Lemma parse_cmd_fmt c : cmd_ok c = true -> parse_cmd (fmt_cmd c) = inl (Some c).
Proof.
  destruct c as [[n o] nw]. unfold cmd_ok. intros H.
  apply andb_prop in H. destruct H as [H _]. apply andb_prop in H. destruct H as [H Hnw]. apply andb_prop in H. destruct H as [Hn Ho].
  destruct (name_props n Hn) as (Hne & Hsp & _ & Hg).
  destruct (hash_str_nospace o Ho) as [Hos _]. destruct (hash_str_nospace nw Hnw) as [Hns _].
  pose proof (hash_str_length o Ho) as Lo. pose proof (hash_str_length nw Hnw) as Ln.
  unfold parse_cmd, fmt_cmd.
  assert (83 <= List.length (hash_str o ++ [SP] ++ hash_str nw ++ [SP] ++ n))%nat as Hlen.
  { rewrite !app_length, Lo, Ln. cbn [List.length]. unfold hash_hexsize, hash_size.
    destruct n; [contradiction|]. cbn [List.length]. destruct (h256 o), (h256 nw); lia. }
  destruct (Nat.ltb_spec (List.length (hash_str o ++ [SP] ++ hash_str nw ++ [SP] ++ n)) 83); [lia|].
  rewrite !forallb_app, (hash_str_graphic o Ho), (hash_str_graphic nw Hnw), Hg. cbn [forallb negb andb].
  change (hash_str o ++ [SP] ++ hash_str nw ++ [SP] ++ n) with (hash_str o ++ SP :: hash_str nw ++ SP :: n).
  rewrite (split_on_app SP _ _ Hos), (split_on_app SP _ _ Hns), (split_on_nobyte SP n Hsp).
  pose proof (hash_str_ne o Ho). pose proof (hash_str_ne nw Hnw).
  destruct (hash_str o) as [|o0 ot] eqn:Eo; [contradiction|]. destruct (hash_str nw) as [|n0 nt] eqn:En; [contradiction|].
  destruct n as [|m0 mt]; [contradiction|]. rewrite <- Eo, <- En, (from_hex_str o Ho), (from_hex_str nw Hnw). reflexivity.
Qed.

Lemma fmt_cmd_props c : cmd_ok c = true ->
  no_byte NUL (fmt_cmd c) = true /\ (83 <= List.length (fmt_cmd c))%nat /\
  exists n t, fmt_cmd c = hexdig n :: t /\ (n < 16)%N.
Proof.
  destruct c as [[n o] nw]. unfold cmd_ok. intros H.
  apply andb_prop in H. destruct H as [H _]. apply andb_prop in H. destruct H as [H Hnw]. apply andb_prop in H. destruct H as [Hn Ho].
  destruct (name_props n Hn) as (Hne & _ & Hnul & _).
  pose proof (hash_str_chars o Ho) as Co. pose proof (hash_str_chars nw Hnw) as Cn.
  pose proof (hash_str_length o Ho) as Lo. pose proof (hash_str_length nw Hnw) as Ln.
  unfold fmt_cmd. repeat split.
  - unfold no_byte in *. rewrite !forallb_app, Hnul. cbn [forallb]. rewrite !andb_true_r.
    assert (forall hx, forallb hexchar hx = true -> forallb (fun x => negb (N.eqb x NUL)) hx = true) as K.
    { intros hx Hh. rewrite forallb_forall in *. intros x Hx. destruct (hexchar_nonspace _ (Hh x Hx)) as (_ & _ & _ & ->). reflexivity. }
    rewrite (K _ Co), (K _ Cn). reflexivity.
  - rewrite !app_length, Lo, Ln. cbn [List.length]. unfold hash_hexsize, hash_size.
    destruct n; [contradiction|]. cbn [List.length]. destruct (h256 o), (h256 nw); lia.
  - destruct (hash_str_head o Ho) as (k & t & -> & Hk). exists k. eexists. split; [reflexivity|assumption].
Qed.

Lemma not_shallow_hex n t : (n < 16)%N -> has_prefix (B "shallow") (hexdig n :: t) = false.
Proof. intros Hn. change (B "shallow") with (115%N :: skipn 1 (B "shallow")). cbn [has_prefix]. now rewrite (hexdig_not n 115 Hn (or_introl eq_refl)). Qed.

(* the command lines after the first one *)
Lemma ur_cmds_lines : forall cs u, forallb cmd_ok cs = true -> forallb cmd_ok (ur_cmds u) = true ->
  ur_cmds_go (map item_of (map (fun c => PData (fmt_cmd c)) cs ++ [PFlush])) None u
  = URok (mkupdreq (ur_caps u) (ur_cmds u ++ cs) (ur_shallows u)).
Proof.
  induction cs as [|c cs IH]; intros u Hcs Hu.
  - cbn [map app item_of ur_cmds_go fst Z.eqb]. rewrite app_nil_r.
    assert (existsb cmd_invalid (ur_cmds u) = false) as ->; [|destruct u; reflexivity].
    apply not_true_iff_false. intros E. apply existsb_exists in E. destruct E as (x & Hx & Hi).
    rewrite forallb_forall in Hu. specialize (Hu x Hx). destruct x as [[n o] nw]. unfold cmd_ok in Hu.
    apply andb_prop in Hu. destruct Hu as [_ Hu]. rewrite Hi in Hu. discriminate.
  - cbn [forallb] in Hcs. apply andb_prop in Hcs. destruct Hcs as [Hc Hcs].
    destruct (fmt_cmd_props c Hc) as (_ & Hlen & _).
    cbn [map app]. rewrite item_of_ne by lia. cbn [ur_cmds_go fst snd]. rewrite item_nz, (parse_cmd_fmt c Hc).
    rewrite IH; [|assumption|].
    + cbn [ur_caps ur_cmds ur_shallows]. now rewrite <- app_assoc.
    + cbn [ur_cmds]. rewrite forallb_app, Hu. cbn [forallb]. now rewrite Hc.
Qed.

Lemma cap_decode_sp s l : cap_decode (SP :: s) l = cap_decode s l.
Proof. reflexivity. Qed.

Lemma ur_shallow_lines : forall shs items u, forallb hash_ok shs = true ->
  ur_shallow_go (map item_of (map (fun h => PData (B "shallow " ++ hash_str h)) shs) ++ items) None u
  = ur_shallow_go items None (mkupdreq (ur_caps u) (ur_cmds u) (ur_shallows u ++ shs)).
Proof.
  induction shs as [|h shs IH]; intros items u H.
  - cbn [map app]. rewrite app_nil_r. destruct u; reflexivity.
  - cbn [forallb] in H. apply andb_prop in H. destruct H as [Hh Hs]. cbn [map app].
    destruct (hash_str_nospace h Hh) as [_ Hnl]. pose proof (hash_str_length h Hh) as HL. pose proof (hash_str_ne h Hh) as Hne.
    rewrite item_of_ne by (rewrite app_length; cbn; lia). cbn [ur_shallow_go fst snd]. rewrite item_nz.
    rewrite trim_eol_id by (rewrite last_app_ne by assumption; exact Hnl).
    change (has_prefix (B "shallow") (B "shallow " ++ hash_str h)) with true. cbv iota.
    rewrite app_length, HL. change (List.length (B "shallow ")) with 8%nat.
    replace (8 + hash_hexsize h - 8)%nat with (hash_hexsize h) by lia.
    assert (Nat.eqb (hash_hexsize h) 40 || Nat.eqb (hash_hexsize h) 64 = true) as -> by (unfold hash_hexsize, hash_size; destruct (h256 h); reflexivity).
    destruct (Nat.ltb_spec (8 + hash_hexsize h) 8); [lia|]. cbn [negb orb].
    rewrite (skipn_app_exact (B "shallow ") (hash_str h) 8 eq_refl), (from_hex_str h Hh), IH by assumption.
    cbn [ur_caps ur_cmds ur_shallows]. now rewrite <- app_assoc.
Qed.

Theorem ur_roundtrip u ps : ur_ok u = true -> ur_encode u = Some ps ->
  ur_decode (mksrc (map item_of ps) None) = URok u.
Proof.
  unfold ur_ok. intros H He.
  apply andb_prop in H. destruct H as [H Hne]. apply andb_prop in H. destruct H as [H Hsh]. apply andb_prop in H. destruct H as [Hcaps Hcmds].
  unfold ur_encode in He. destruct (ur_cmds u) as [|c0 cs] eqn:Ec; [discriminate|].
  assert (existsb cmd_invalid (c0 :: cs) = false) as Hinv.
  { apply not_true_iff_false. intros E. apply existsb_exists in E. destruct E as (x & Hx & Hi).
    rewrite forallb_forall in Hcmds. specialize (Hcmds x Hx). destruct x as [[n o] nw]. unfold cmd_ok in Hcmds.
    apply andb_prop in Hcmds. destruct Hcmds as [_ Hc]. rewrite Hi in Hc. discriminate. }
  rewrite Hinv in He. injection He as <-.
  cbn [forallb] in Hcmds. apply andb_prop in Hcmds. destruct Hcmds as [Hc0 Hcs].
  unfold ur_decode. cbn [s_items s_fin]. rewrite map_app, ur_shallow_lines by assumption.
  cbn [ur_caps ur_cmds ur_shallows app map].
  destruct (fmt_cmd_props c0 Hc0) as (Hnul & Hlen & k & t & Ef & Hk).
  set (capstr := match cap_encode (ur_caps u) with [] => [] | _ :: _ => SP :: cap_encode (ur_caps u) end).
  assert (cap_decode capstr [] = ur_caps u) as Hcd.
  { unfold capstr. pose proof (caps_roundtrip _ Hcaps) as R. destruct (cap_encode (ur_caps u)); [exact R|]. rewrite cap_decode_sp. exact R. }
  assert (N.eqb NL (last (fmt_cmd c0 ++ NUL :: capstr) 0%N) = false) as Hlast.
  { unfold capstr. pose proof (cap_encode_tokc _ Hcaps) as T. destruct (cap_encode (ur_caps u)) as [|x xs] eqn:E.
    - rewrite last_app_ne by discriminate. reflexivity.
    - change (fmt_cmd c0 ++ NUL :: SP :: x :: xs) with (fmt_cmd c0 ++ [NUL; SP] ++ x :: xs).
      rewrite app_assoc, last_app_ne by discriminate.
      rewrite forallb_forall in T. assert (In (last (x :: xs) 0%N) (x :: xs)) as Hin.
      { clear. revert x. induction xs as [|y ys IH]; intros x; [now left|right; apply IH]. }
      specialize (T _ Hin). apply orb_prop in T. destruct T as [T|T].
      + unfold tokc in T. apply andb_prop in T. destruct T as [T _]. apply N.leb_le in T. unfold NL.
        destruct (N.eqb_spec 10 (last (x :: xs) 0%N)); [lia|reflexivity].
      + apply N.eqb_eq in T. rewrite T. reflexivity. }
  rewrite item_of_ne by (rewrite app_length; lia). cbn [ur_shallow_go fst snd]. rewrite item_nz.
  rewrite (trim_eol_id _ Hlast). rewrite Ef at 1. cbn [app]. rewrite (not_shallow_hex k _ Hk). cbn [andb].
  rewrite (cut_app NUL _ capstr Hnul).
  destruct (Nat.ltb_spec (List.length (fmt_cmd c0 ++ NUL :: capstr)) 84); [rewrite app_length in *; cbn [List.length] in *; lia|].
  rewrite (parse_cmd_fmt c0 Hc0). cbn [ur_caps ur_cmds ur_shallows app]. rewrite Hcd.
  rewrite (ur_cmds_lines cs (mkupdreq (ur_caps u) [c0] (ur_shallows u)) Hcs); [|cbn [ur_cmds forallb]; now rewrite Hc0].
  cbn [ur_caps ur_cmds ur_shallows app]. rewrite <- Ec. destruct u; reflexivity.
Qed.

Lemma ur_no_errline u ps : ur_ok u = true -> ur_encode u = Some ps -> forallb no_errline ps = true.
Proof.
  unfold ur_ok. intros H He.
  apply andb_prop in H. destruct H as [H _]. apply andb_prop in H. destruct H as [H _]. apply andb_prop in H. destruct H as [_ Hcmds].
  assert (forall c x, cmd_ok c = true -> no_errline (PData (fmt_cmd c ++ x)) = true) as K.
  { intros c x Hc. destruct (fmt_cmd_props c Hc) as (_ & _ & n & t & -> & Hn). cbn [no_errline app].
    unfold errPrefix, zb. cbn [map has_prefix Gen.C34.pktline_errPrefix].
    assert (N.eqb (Z.to_N 69) (hexdig n) = false) as ->; [|reflexivity].
    assert (n = 0 \/ n = 1 \/ n = 2 \/ n = 3 \/ n = 4 \/ n = 5 \/ n = 6 \/ n = 7 \/ n = 8 \/ n = 9 \/
            n = 10 \/ n = 11 \/ n = 12 \/ n = 13 \/ n = 14 \/ n = 15)%N as C by lia.
    repeat (destruct C as [-> | C]; [reflexivity|]); subst; reflexivity. }
  unfold ur_encode in He. destruct (ur_cmds u) as [|c0 cs]; [discriminate|].
  destruct (existsb cmd_invalid (c0 :: cs)); [discriminate|]. injection He as <-.
  cbn [forallb] in Hcmds. apply andb_prop in Hcmds. destruct Hcmds as [Hc0 Hcs].
  rewrite forallb_app. apply andb_true_intro. split.
  - apply forallb_forall. intros p Hp. apply in_map_iff in Hp. destruct Hp as (h & <- & _). reflexivity.
  - cbn [forallb]. rewrite (K c0 _ Hc0). cbn [andb]. rewrite forallb_app. cbn [forallb]. rewrite andb_true_r.
    apply forallb_forall. intros p Hp. apply in_map_iff in Hp. destruct Hp as (c & <- & Hin).
    rewrite forallb_forall in Hcs. rewrite <- (app_nil_r (fmt_cmd c)). apply K. auto.
Qed.
